/-
K1 — `TimingMap.beats` for a constant metronome: the cumulative beat count of every on-grid time is the
declarative beat position `beatAt` (integration of 1/beat_length), in query order.
-/
import Reamber.Lemmas.TimingRoundTripErr

namespace Reamber.Timing

/-- total beat count of a position under metronome `M` -/
def snapTotal (M : Rat) (s : Snap) : Rat := (s.measure : Rat) * M + s.beat

/-- declarative cumulative beats: `B` beats at the change `cur` (time `T`), advancing at `1/beat_length` -/
def beatAtAux (T B : Rat) (cur : BcSnap) : List BcSnap → Rat → Rat
  | [], t => B + (t - T) / beatLen cur.bpm
  | n :: rest, t =>
    if T + snapDist cur.snap n.snap cur.met * beatLen cur.bpm ≤ t then
      beatAtAux (T + snapDist cur.snap n.snap cur.met * beatLen cur.bpm) (B + snapDist cur.snap n.snap cur.met) n rest t
    else B + (t - T) / beatLen cur.bpm

/-- cumulative beats at time `t` (0 at the first change) -/
def beatAt (t0 : Rat) (cs : List BcSnap) (t : Rat) : Rat :=
  match cs with
  | [] => 0
  | c :: rest => beatAtAux t0 0 c rest t

/-- snaps weakly ascending -/
def AscSnaps : List Snap → Prop
  | [] => True
  | [_] => True
  | a :: b :: rest => a.le b = true ∧ AscSnaps (b :: rest)

/-- `σ` arranges the snaps in ascending order (what `snaps.argsort()` returns, any tie order) -/
def SortsAscFwd (σ : List Nat) (sn : List Snap) : Prop :=
  IsPerm σ ∧ σ.length = sn.length ∧ AscSnaps (gather sn σ)

/-- a snap as `Snap.from_offset` returns it under metronome `M` -/
def NormSnap (M : Rat) (s : Snap) : Prop := s.met = some M ∧ 0 ≤ s.beat ∧ s.beat < M

theorem Snap.sub_total {a b : Snap} {M : Rat} (hM : 0 < M) (hb : NormSnap M b) (ha : NormSnap M a)
    (hle : b.le a = true) :
    ∃ d, a.sub b = .ok d ∧ (d.measure : Rat) * M + d.beat = snapTotal M a - snapTotal M b := by
  have hm : 0 ≤ a.measure - b.measure ∧ 0 ≤ ((a.measure - b.measure : Int) : Rat) * M + (a.beat - b.beat) := by
    have := ha.2.1
    have := hb.2.2
    simp only [Snap.le, Snap.lt, Snap.eqv, Bool.or_eq_true, Bool.and_eq_true, decide_eq_true_eq] at hle
    rcases hle with (h | ⟨h1, h2⟩) | ⟨h1, h2⟩
    · have h' : (1 : Rat) ≤ ((a.measure - b.measure : Int) : Rat) := by exact_mod_cast (by omega : 1 ≤ a.measure - b.measure)
      have := mul_le_mul_of_nonneg_right h' hM.le
      exact ⟨by omega, by linarith⟩
    · rw [h1]; simp only [sub_self, Int.cast_zero, zero_mul, zero_add]; exact ⟨_root_.le_refl _, by linarith⟩
    · rw [h1, h2]; simp
  obtain ⟨d, hd, _, _, _, _, hval⟩ := Snap.make_spec (a.measure - b.measure) (a.beat - b.beat) M hm.1 hM hm.2
  refine ⟨d, by unfold Snap.sub; rw [hb.1]; exact hd, ?_⟩
  rw [hval]; unfold snapTotal; push_cast; ring

theorem beatsLoop_eq {M : Rat} (hM : 0 < M) (s0 : Snap) (rest : List Snap)
    (hn : ∀ s ∈ s0 :: rest, NormSnap M s) (hasc : AscSnaps (s0 :: rest)) :
    beatsLoop (snapTotal M s0) s0 rest = .ok (rest.map (snapTotal M)) := by
  induction rest generalizing s0 with
  | nil => rfl
  | cons s rest ih =>
    have h0 := hn s0 List.mem_cons_self
    have h1 := hn s (List.mem_cons_of_mem _ List.mem_cons_self)
    obtain ⟨d, hd, htot⟩ := Snap.sub_total hM h0 h1 hasc.1
    have hcur : snapTotal M s0 + (d.measure : Rat) * s0.met.getD 0 + d.beat = snapTotal M s := by
      rw [h0.1]; simp only [Option.getD_some]; linarith
    simp only [beatsLoop, hd, bind, Except.bind, hcur]
    rw [ih s (fun x hx => hn x (List.mem_cons_of_mem _ hx)) hasc.2]
    rfl

theorem mem_gather_of_perm {sn : List Snap} {σ : List Nat} (hperm : IsPerm σ) (hlen : σ.length = sn.length) :
    ∀ s ∈ gather sn σ, s ∈ sn := by
  intro s hs
  simp only [gather, List.mem_map] at hs
  obtain ⟨i, hi, rfl⟩ := hs
  have hi' : i < sn.length := by
    have := (hperm.mem_iff i).mp hi
    omega
  simp [List.getD_eq_getElem?_getD, List.getElem?_eq_getElem hi']

/-- **the beats loop telescopes**: for snaps normalised to one metronome `M`, `TimingMap.beats`' sort + running
sum + un-permutation returns the total beat count `measure·M + beat` of every snap, in the original order. -/
theorem beats_of_snaps {M : Rat} (hM : 0 < M) (sn : List Snap) (σs : List Nat) (hσ : SortsAscFwd σs sn)
    (hn : ∀ s ∈ sn, NormSnap M s) :
    (match gather sn σs with
      | [] => (.ok [] : Except Err (List Rat))
      | s0 :: rest => do
        let c0 := s0.beat + (s0.measure : Rat) * s0.met.getD 0
        let tl ← beatsLoop c0 s0 rest
        .ok (gather (c0 :: tl) (argsortPerm σs))) = .ok (sn.map (snapTotal M)) := by
  obtain ⟨hperm, hlen, hasc⟩ := hσ
  have hun := gather_map_argsort (snapTotal M) sn σs hperm hlen
  have hmem := mem_gather_of_perm hperm hlen
  cases hg : gather sn σs with
  | nil =>
    have : sn = [] := by
      have h1 : (gather sn σs).length = σs.length := gather_length sn σs
      rw [hg] at h1
      have : sn.length = 0 := by simp at h1; omega
      exact List.length_eq_zero_iff.mp this
    simp [this]
  | cons s0 rest =>
    rw [hg] at hasc hun hmem
    have hn' : ∀ s ∈ s0 :: rest, NormSnap M s := fun s hs => hn s (hmem s hs)
    have h0 := hn' s0 List.mem_cons_self
    have hc0 : s0.beat + (s0.measure : Rat) * s0.met.getD 0 = snapTotal M s0 := by
      rw [h0.1]; simp only [Option.getD_some]; unfold snapTotal; ring
    simp only [hc0, beatsLoop_eq hM s0 rest hn' hasc, bind, Except.bind]
    rw [← hun]
    rfl

/-- for a constant metronome, the position assigned to an on-grid time has total beat count `beatAtAux` -/
theorem snapAtAux_total {g : Array Rat} (hg : GridOK g) {M : Rat} (T B : Rat) (cur : BcSnap) (rest : List BcSnap)
    (t : Rat) (hwf : wfChanges (cur :: rest) = true) (hs : sortedSnaps (cur :: rest) = true)
    (hM : ∀ c ∈ cur :: rest, c.met = M) (hB : B = snapTotal M cur.snap) (hT : T ≤ t)
    (hgrid : onGridAux g.toList T cur rest t) :
    ∃ S, snapAtAux g T cur rest t = .ok S ∧ NormSnap M S ∧ snapTotal M S = beatAtAux T B cur rest t := by
  induction rest generalizing T B cur with
  | nil =>
    have wc := wfChanges_mem hwf (List.mem_cons_self)
    have hcM := hM cur List.mem_cons_self
    have hbl := beatLen_pos wc.bpm_pos
    have hD : 0 ≤ (t - T) / beatLen cur.bpm := div_nonneg (by linarith) hbl.le
    obtain ⟨S, hS, hmet, _, hb0, hbM, htot⟩ := snapFromOffset_total hg T ((t - T) / beatLen cur.bpm) cur wc hD
    have ht : T + (t - T) / beatLen cur.bpm * beatLen cur.bpm = t := by
      rw [div_mul_cancel₀ _ (ne_of_gt hbl)]; ring
    rw [ht] at hS
    rw [snappedDist_of_grid hg wc.met_int hgrid] at htot
    rw [hcM] at hmet hbM htot
    exact ⟨S, hS, ⟨hmet, hb0, hbM⟩, by simp only [beatAtAux, hB, snapTotal]; exact htot⟩
  | cons n rest ih =>
    have wc := wfChanges_mem hwf (List.mem_cons_self)
    have hcM := hM cur List.mem_cons_self
    have hnM := hM n (List.mem_cons_of_mem _ List.mem_cons_self)
    simp only [snapAtAux, onGridAux, beatAtAux] at hgrid ⊢
    by_cases h : T + snapDist cur.snap n.snap cur.met * beatLen cur.bpm ≤ t
    · rw [if_pos h] at hgrid
      rw [if_pos h, if_pos h]
      apply ih _ _ n (wfChanges_tail hwf) (sortedSnaps_tail hs) (fun c hc => hM c (List.mem_cons_of_mem _ hc)) _ h hgrid
      rw [hB, hcM]; unfold snapTotal snapDist; push_cast; ring
    · rw [if_neg h] at hgrid
      rw [if_neg h, if_neg h]
      have hbl := beatLen_pos wc.bpm_pos
      have hD : 0 ≤ (t - T) / beatLen cur.bpm := div_nonneg (by linarith) hbl.le
      obtain ⟨S, hS, hmet, _, hb0, hbM, htot⟩ := snapFromOffset_total hg T ((t - T) / beatLen cur.bpm) cur wc hD
      have ht : T + (t - T) / beatLen cur.bpm * beatLen cur.bpm = t := by
        rw [div_mul_cancel₀ _ (ne_of_gt hbl)]; ring
      rw [ht] at hS
      rw [snappedDist_of_grid hg wc.met_int hgrid] at htot
      rw [hcM] at hmet hbM htot
      exact ⟨S, hS, ⟨hmet, hb0, hbM⟩, by simp only [hB, snapTotal]; exact htot⟩

/-! ### `beatAt` increases with time -/

theorem beatAtAux_ge (T B : Rat) (cur : BcSnap) (rest : List BcSnap) (t : Rat)
    (hwf : wfChanges (cur :: rest) = true) (hs : sortedSnaps (cur :: rest) = true) (hT : T ≤ t) :
    B ≤ beatAtAux T B cur rest t := by
  induction rest generalizing T B cur with
  | nil =>
    have wc := wfChanges_mem hwf (List.mem_cons_self)
    have := div_nonneg (show 0 ≤ t - T by linarith) (beatLen_pos wc.bpm_pos).le
    simp only [beatAtAux]; linarith
  | cons n rest ih =>
    have wc := wfChanges_mem hwf (List.mem_cons_self)
    have wn := wfChanges_mem hwf (List.mem_cons_of_mem _ List.mem_cons_self)
    have hD := snapDist_nonneg wc wn (sortedSnaps_head_le hs n List.mem_cons_self)
    simp only [beatAtAux]
    split
    · rename_i h
      have := ih _ (B + snapDist cur.snap n.snap cur.met) n (wfChanges_tail hwf) (sortedSnaps_tail hs) h
      linarith
    · have := div_nonneg (show 0 ≤ t - T by linarith) (beatLen_pos wc.bpm_pos).le
      linarith

/-- **cumulative beats strictly increase with time** -/
theorem beatAtAux_strictMono (T B : Rat) (cur : BcSnap) (rest : List BcSnap) (t t' : Rat)
    (hwf : wfChanges (cur :: rest) = true) (hs : sortedSnaps (cur :: rest) = true) (hT : T ≤ t) (htt : t < t') :
    beatAtAux T B cur rest t < beatAtAux T B cur rest t' := by
  induction rest generalizing T B cur with
  | nil =>
    have wc := wfChanges_mem hwf (List.mem_cons_self)
    simp only [beatAtAux]
    have := div_lt_div_of_pos_right (show t - T < t' - T by linarith) (beatLen_pos wc.bpm_pos)
    linarith
  | cons n rest ih =>
    have wc := wfChanges_mem hwf (List.mem_cons_self)
    have hbl := beatLen_pos wc.bpm_pos
    simp only [beatAtAux]
    by_cases h1 : T + snapDist cur.snap n.snap cur.met * beatLen cur.bpm ≤ t
    · have h2 : T + snapDist cur.snap n.snap cur.met * beatLen cur.bpm ≤ t' := by linarith
      rw [if_pos h1, if_pos h2]
      exact ih _ _ n (wfChanges_tail hwf) (sortedSnaps_tail hs) h1
    · by_cases h2 : T + snapDist cur.snap n.snap cur.met * beatLen cur.bpm ≤ t'
      · rw [if_neg h1, if_pos h2]
        have hge := beatAtAux_ge (T + snapDist cur.snap n.snap cur.met * beatLen cur.bpm)
          (B + snapDist cur.snap n.snap cur.met) n rest t' (wfChanges_tail hwf) (sortedSnaps_tail hs) h2
        have : (t - T) / beatLen cur.bpm < snapDist cur.snap n.snap cur.met := by
          rw [div_lt_iff₀ hbl]; linarith [not_le.mp h1]
        linarith
      · rw [if_neg h1, if_neg h2]
        have := div_lt_div_of_pos_right (show t - T < t' - T by linarith) hbl
        linarith

theorem beatAt_strictMono (t0 : Rat) (cs : List BcSnap) (t t' : Rat) (hwf : wfChanges cs = true)
    (hs : sortedSnaps cs = true) (hne : cs ≠ []) (hT : t0 ≤ t) (htt : t < t') :
    beatAt t0 cs t < beatAt t0 cs t' := by
  cases cs with
  | nil => exact absurd rfl hne
  | cons c rest => exact beatAtAux_strictMono t0 0 c rest t t' hwf hs hT htt

/-! ### the recursive predicates of the theorems are the components of `timeInfo2` (what the driver evaluates) -/

theorem onGridAux_iff_seg (g : List Rat) (T B : Rat) (cur : BcSnap) (rest : List BcSnap) (t : Rat) :
    onGridAux g T cur rest t ↔
      frac ((t - (segAtAux T B cur rest t).1) / beatLen (segAtAux T B cur rest t).2.2.bpm) ∈ g := by
  induction rest generalizing T B cur with
  | nil => simp [onGridAux, segAtAux]
  | cons n rest ih =>
    simp only [onGridAux, segAtAux]
    split
    · exact ih _ _ n
    · exact Iff.rfl

theorem activeBeatLenAux_eq_seg (T B : Rat) (cur : BcSnap) (rest : List BcSnap) (t : Rat) :
    activeBeatLenAux T cur rest t = beatLen (segAtAux T B cur rest t).2.2.bpm := by
  induction rest generalizing T B cur with
  | nil => simp [activeBeatLenAux, segAtAux]
  | cons n rest ih =>
    simp only [activeBeatLenAux, segAtAux]
    split
    · exact ih _ _ n
    · rfl

theorem beatAtAux_eq_seg (T B : Rat) (cur : BcSnap) (rest : List BcSnap) (t : Rat) :
    beatAtAux T B cur rest t = (segAtAux T B cur rest t).2.1 +
      (t - (segAtAux T B cur rest t).1) / beatLen (segAtAux T B cur rest t).2.2.bpm := by
  induction rest generalizing T B cur with
  | nil => simp [beatAtAux, segAtAux]
  | cons n rest ih =>
    simp only [beatAtAux, segAtAux]
    split
    · exact ih _ _ n
    · rfl

/-- **The theorems' hypotheses/conclusions are what the driver evaluates** (`timing.roundtrip_spec` = `timeInfo2`). -/
theorem timeInfo2_spec (g : List Rat) (t0 : Rat) (cs : List BcSnap) (t : Rat) (hne : cs ≠ []) :
    (OnGridAt g t0 cs t ↔ ((timeInfo2 g t0 cs t).beforeFirst = false ∧ (timeInfo2 g t0 cs t).onGrid = true)) ∧
    (t0 ≤ t → (timeInfo2 g t0 cs t).beatLen = activeBeatLen t0 cs t ∧
      (timeInfo2 g t0 cs t).absBeat = beatAt t0 cs t) := by
  cases cs with
  | nil => exact absurd rfl hne
  | cons c rest =>
    by_cases h : t < t0
    · simp [timeInfo2, OnGridAt, h, not_le.mpr h]
    · have h' : t0 ≤ t := not_lt.mp h
      simp only [timeInfo2, OnGridAt, h, if_false, h', true_and, List.contains_iff_mem, activeBeatLen, beatAt,
        forall_const]
      exact ⟨onGridAux_iff_seg g t0 0 c rest t, (activeBeatLenAux_eq_seg t0 0 c rest t).symm,
        (beatAtAux_eq_seg t0 0 c rest t).symm⟩

end Reamber.Timing
