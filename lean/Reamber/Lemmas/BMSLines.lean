/-
C05 — the grouping of the writer's cells into lines: `lineKeys` (the `groupby(["measure","channel","new_den"])`
keys in output order) covers every cell, each key is a cell, and no two keys name the same line.
-/
import Reamber.Model.BMS
import Reamber.Lemmas.Sort

namespace Reamber.BMS

open Reamber.Timing

/-! ### `sameLine` is an equivalence, `cellKeyLe` a total preorder whose equivalence it is -/

theorem sameLine_iff (a b : WCell) : sameLine a b = true ↔ a.measure = b.measure ∧ a.channel = b.channel ∧ a.den = b.den := by
  simp [sameLine, and_assoc]

theorem sameLine_refl (a : WCell) : sameLine a a = true := (sameLine_iff a a).mpr ⟨rfl, rfl, rfl⟩

theorem sameLine_symm {a b : WCell} (h : sameLine a b = true) : sameLine b a = true := by
  obtain ⟨h1, h2, h3⟩ := (sameLine_iff a b).mp h
  exact (sameLine_iff b a).mpr ⟨h1.symm, h2.symm, h3.symm⟩

theorem sameLine_trans {a b c : WCell} (h : sameLine a b = true) (h' : sameLine b c = true) : sameLine a c = true := by
  obtain ⟨h1, h2, h3⟩ := (sameLine_iff a b).mp h
  obtain ⟨g1, g2, g3⟩ := (sameLine_iff b c).mp h'
  exact (sameLine_iff a c).mpr ⟨h1.trans g1, h2.trans g2, h3.trans g3⟩

theorem char_eq_of_not_lt {a b : Char} (h1 : ¬ a < b) (h2 : ¬ b < a) : a = b :=
  Char.le_antisymm (Char.not_lt.mp h2) (Char.not_lt.mp h1)

theorem bytesLe_refl : ∀ s : Bytes, bytesLe s s = true
  | [] => rfl
  | a :: s => by simp [bytesLe, Char.lt_irrefl, bytesLe_refl s]

theorem bytesLe_total : ∀ s t : Bytes, bytesLe s t = true ∨ bytesLe t s = true
  | [], _ => Or.inl (by simp [bytesLe])
  | _ :: _, [] => Or.inr (by simp [bytesLe])
  | a :: s, b :: t => by
    by_cases h1 : a < b
    · left; simp [bytesLe, h1]
    · by_cases h2 : b < a
      · right; simp [bytesLe, h2]
      · simp only [bytesLe, h1, h2, if_false]
        exact bytesLe_total s t

theorem bytesLe_antisymm : ∀ s t : Bytes, bytesLe s t = true → bytesLe t s = true → s = t
  | [], [], _, _ => rfl
  | [], _ :: _, _, h => by simp [bytesLe] at h
  | _ :: _, [], h, _ => by simp [bytesLe] at h
  | a :: s, b :: t, h, h' => by
    by_cases h1 : a < b
    · have h2 : ¬ b < a := Char.lt_asymm h1
      simp [bytesLe, h1, h2] at h'
    · by_cases h2 : b < a
      · simp [bytesLe, h1, h2] at h
      · simp only [bytesLe, h1, h2, if_false] at h h'
        rw [char_eq_of_not_lt h1 h2, bytesLe_antisymm s t h h']

theorem bytesLe_trans : ∀ s t u : Bytes, bytesLe s t = true → bytesLe t u = true → bytesLe s u = true
  | [], _, _, _, _ => by simp [bytesLe]
  | _ :: _, [], _, h, _ => by simp [bytesLe] at h
  | _ :: _, _ :: _, [], _, h => by simp [bytesLe] at h
  | a :: s, b :: t, c :: u, h, h' => by
    by_cases hab : a < b
    · by_cases hbc : b < c
      · simp [bytesLe, Char.lt_trans hab hbc]
      · by_cases hcb : c < b
        · simp [bytesLe, hbc, hcb] at h'
        · have : b = c := char_eq_of_not_lt hbc hcb
          subst this
          simp [bytesLe, hab]
    · by_cases hba : b < a
      · simp [bytesLe, hab, hba] at h
      · have : a = b := char_eq_of_not_lt hab hba
        subst this
        simp only [bytesLe, hab, if_false] at h
        by_cases hbc : a < c
        · simp [bytesLe, hbc]
        · by_cases hcb : c < a
          · simp [bytesLe, hbc, hcb] at h'
          · simp only [bytesLe, hbc, hcb, if_false] at h' ⊢
            exact bytesLe_trans s t u h h'

/-- the sort key of a cell as one comparison: measure, then channel bytes, then denominator -/
theorem cellKeyLe_iff (a b : WCell) : cellKeyLe a b = true ↔
    a.measure < b.measure ∨ (a.measure = b.measure ∧
      ((a.channel ≠ b.channel ∧ bytesLe a.channel b.channel = true) ∨ (a.channel = b.channel ∧ a.den ≤ b.den))) := by
  unfold cellKeyLe
  by_cases h1 : a.measure < b.measure
  · simp [h1]
  · by_cases h2 : b.measure < a.measure
    · simp only [h1, h2, if_false, if_true, false_or, Bool.false_eq_true, false_iff, not_and]
      intro e; omega
    · have e : a.measure = b.measure := by omega
      by_cases hc : a.channel = b.channel
      · simp [h1, h2, e, hc]
      · simp [h1, h2, e, hc]

theorem totalPre_cellKey : TotalPre cellKeyLe := by
  constructor
  · intro a b
    rw [cellKeyLe_iff, cellKeyLe_iff]
    by_cases h1 : a.measure < b.measure
    · exact Or.inl (Or.inl h1)
    · by_cases h2 : b.measure < a.measure
      · exact Or.inr (Or.inl h2)
      · have e : a.measure = b.measure := by omega
        by_cases hc : a.channel = b.channel
        · rcases Nat.le_total a.den b.den with h | h
          · exact Or.inl (Or.inr ⟨e, Or.inr ⟨hc, h⟩⟩)
          · exact Or.inr (Or.inr ⟨e.symm, Or.inr ⟨hc.symm, h⟩⟩)
        · rcases bytesLe_total a.channel b.channel with h | h
          · exact Or.inl (Or.inr ⟨e, Or.inl ⟨hc, h⟩⟩)
          · exact Or.inr (Or.inr ⟨e.symm, Or.inl ⟨fun x => hc x.symm, h⟩⟩)
  · intro a b c hab hbc
    rw [cellKeyLe_iff] at hab hbc ⊢
    rcases hab with hab | ⟨e1, hab⟩
    · rcases hbc with hbc | ⟨e2, _⟩
      · exact Or.inl (by omega)
      · exact Or.inl (by omega)
    · rcases hbc with hbc | ⟨e2, hbc⟩
      · exact Or.inl (by omega)
      · refine Or.inr ⟨e1.trans e2, ?_⟩
        rcases hab with ⟨n1, l1⟩ | ⟨c1, d1⟩
        · rcases hbc with ⟨n2, l2⟩ | ⟨c2, d2⟩
          · have l3 := bytesLe_trans _ _ _ l1 l2
            by_cases hac : a.channel = c.channel
            · -- a ≤ b ≤ a in bytes: a = b, contradiction
              rw [← hac] at l2
              exact absurd (bytesLe_antisymm _ _ l1 l2) n1
            · exact Or.inl ⟨hac, l3⟩
          · rw [← c2]; exact Or.inl ⟨n1, l1⟩
        · rcases hbc with ⟨n2, l2⟩ | ⟨c2, d2⟩
          · rw [c1]; exact Or.inl ⟨n2, l2⟩
          · exact Or.inr ⟨c1.trans c2, Nat.le_trans d1 d2⟩

/-- two cells compare equal exactly when they belong to the same line -/
theorem sameLine_of_le_le {a b : WCell} (h1 : cellKeyLe a b = true) (h2 : cellKeyLe b a = true) : sameLine a b = true := by
  rw [cellKeyLe_iff] at h1 h2
  rw [sameLine_iff]
  rcases h1 with h1 | ⟨e1, h1⟩
  · rcases h2 with h2 | ⟨e2, _⟩ <;> omega
  · rcases h2 with h2 | ⟨_, h2⟩
    · omega
    · rcases h1 with ⟨n1, l1⟩ | ⟨c1, d1⟩
      · rcases h2 with ⟨_, l2⟩ | ⟨c2, _⟩
        · exact absurd (bytesLe_antisymm _ _ l1 l2) n1
        · exact absurd c2.symm n1
      · rcases h2 with ⟨n2, _⟩ | ⟨_, d2⟩
        · exact absurd c1.symm n2
        · exact ⟨e1, c1, Nat.le_antisymm d1 d2⟩

theorem cellKeyLe_of_sameLine {a b : WCell} (h : sameLine a b = true) : cellKeyLe a b = true := by
  obtain ⟨h1, h2, h3⟩ := (sameLine_iff a b).mp h
  rw [cellKeyLe_iff]
  exact Or.inr ⟨h1, Or.inr ⟨h2, Nat.le_of_eq h3⟩⟩

/-! ### dropping adjacent duplicates of a sorted list -/

/-- the fold of `lineKeys` -/
def dedupAdj (l : List WCell) : List WCell :=
  l.foldr (fun c acc => match acc with
    | [] => [c]
    | d :: _ => if sameLine c d then acc else c :: acc) []

theorem lineKeys_eq (cells : List WCell) : lineKeys cells = dedupAdj (isort cellKeyLe cells) := rfl

theorem dedupAdj_cons (c : WCell) (l : List WCell) :
    dedupAdj (c :: l) = (match dedupAdj l with
      | [] => [c]
      | d :: _ => if sameLine c d then dedupAdj l else c :: dedupAdj l) := rfl

theorem dedupAdj_sub : ∀ (l : List WCell), ∀ k ∈ dedupAdj l, k ∈ l
  | [], k, h => by cases h
  | c :: l, k, h => by
    rw [dedupAdj_cons] at h
    cases hd : dedupAdj l with
    | nil =>
      simp only [hd, List.mem_singleton] at h
      simp [h]
    | cons d t =>
      simp only [hd] at h
      by_cases hs : sameLine c d = true
      · simp only [hs, if_true] at h
        exact List.mem_cons_of_mem _ (dedupAdj_sub l k (by rw [hd]; exact h))
      · simp only [hs, Bool.false_eq_true, if_false] at h
        rcases List.mem_cons.mp h with rfl | h
        · simp
        · exact List.mem_cons_of_mem _ (dedupAdj_sub l k (by rw [hd]; exact h))

theorem dedupAdj_cover : ∀ (l : List WCell), ∀ c ∈ l, ∃ k ∈ dedupAdj l, sameLine k c = true
  | [], c, h => by cases h
  | x :: l, c, h => by
    rw [dedupAdj_cons]
    cases hd : dedupAdj l with
    | nil =>
      have hl : l = [] := by
        cases l with
        | nil => rfl
        | cons y ys =>
          obtain ⟨k, hk, _⟩ := dedupAdj_cover (y :: ys) y (by simp)
          rw [hd] at hk; cases hk
      subst hl
      simp only [List.mem_singleton] at h
      subst h
      exact ⟨c, by simp, sameLine_refl c⟩
    | cons d t =>
      simp only []
      by_cases hs : sameLine x d = true
      · simp only [hs, if_true]
        rcases List.mem_cons.mp h with rfl | h
        · exact ⟨d, by simp, sameLine_symm hs⟩
        · obtain ⟨k, hk, hkc⟩ := dedupAdj_cover l c h
          exact ⟨k, by rw [hd] at hk; exact hk, hkc⟩
      · simp only [hs, Bool.false_eq_true, if_false]
        rcases List.mem_cons.mp h with rfl | h
        · exact ⟨c, by simp, sameLine_refl c⟩
        · obtain ⟨k, hk, hkc⟩ := dedupAdj_cover l c h
          exact ⟨k, List.mem_cons_of_mem _ (by rw [hd] at hk; exact hk), hkc⟩

/-- on a list sorted by `cellKeyLe`, the kept keys name pairwise different lines -/
theorem dedupAdj_pairwise : ∀ (l : List WCell), l.Pairwise (fun a b => cellKeyLe a b = true) →
    (dedupAdj l).Pairwise (fun a b => sameLine a b = false)
  | [], _ => by simp [dedupAdj]
  | x :: l, h => by
    have hp := List.pairwise_cons.mp h
    have ih := dedupAdj_pairwise l hp.2
    rw [dedupAdj_cons]
    cases hd : dedupAdj l with
    | nil => simp
    | cons d t =>
      simp only []
      by_cases hs : sameLine x d = true
      · simp only [hs, if_true]; rw [← hd]; exact ih
      · simp only [hs, Bool.false_eq_true, if_false]
        rw [hd] at ih
        refine List.pairwise_cons.mpr ⟨?_, ih⟩
        intro k hk
        -- x ≤ d ≤ k in key order; if x and k shared a line, so would x and d
        have hdl : d ∈ l := dedupAdj_sub l d (by rw [hd]; simp)
        have hkl : k ∈ l := dedupAdj_sub l k (by rw [hd]; exact hk)
        have hxd := hp.1 d hdl
        have hxk := hp.1 k hkl
        cases hsk : sameLine x k with
        | false => rfl
        | true =>
          exfalso
          have hdk : cellKeyLe d k = true := by
            rcases List.mem_cons.mp hk with rfl | hkt
            · exact cellKeyLe_of_sameLine (sameLine_refl _)
            · -- d precedes k in the sorted list `l` … both are members of `dedupAdj l = d :: t`, which is a
              -- sublist of `l`; use the pairwise order of `l` through the sublist
              have hsub : (d :: t).Sublist l := by
                rw [← hd]
                exact dedupAdj_sublist l
              have := (List.Pairwise.sublist hsub hp.2)
              exact (List.pairwise_cons.mp this).1 k hkt
          have hkx : cellKeyLe k x = true := cellKeyLe_of_sameLine (sameLine_symm hsk)
          have hdx : cellKeyLe d x = true := totalPre_cellKey.trans _ _ _ hdk hkx
          exact hs (sameLine_of_le_le hxd hdx)
where
  dedupAdj_sublist : ∀ (l : List WCell), (dedupAdj l).Sublist l
    | [] => by simp [dedupAdj]
    | c :: l => by
      rw [dedupAdj_cons]
      cases hd : dedupAdj l with
      | nil => simp
      | cons d t =>
        simp only []
        by_cases hs : sameLine c d = true
        · simp only [hs, if_true]; rw [← hd]; exact (dedupAdj_sublist l).cons _
        · simp only [hs, Bool.false_eq_true, if_false]; rw [← hd]; exact (dedupAdj_sublist l).cons_cons _

/-! ### `lineKeys` -/

/-- **`lineKeys` covers each cell exactly once**: every key is a cell; every cell belongs to the line of some
key; and no two keys name the same line — so every cell is written in exactly one of the output lines
(`lineOf cells k` collects precisely the cells with `sameLine k ·`). -/
theorem lineKeys_cover (cells : List WCell) :
    (∀ k ∈ lineKeys cells, k ∈ cells) ∧
    (∀ c ∈ cells, ∃ k ∈ lineKeys cells, sameLine k c = true) ∧
    (lineKeys cells).Pairwise (fun a b => sameLine a b = false) := by
  rw [lineKeys_eq]
  refine ⟨?_, ?_, ?_⟩
  · intro k hk
    exact mem_isort.mp (dedupAdj_sub _ k hk)
  · intro c hc
    exact dedupAdj_cover _ c (mem_isort.mpr hc)
  · exact dedupAdj_pairwise _ (isort_sorted totalPre_cellKey cells)

/-- the key of a cell's line is unique -/
theorem lineKeys_unique (cells : List WCell) (c k k' : WCell) (hk : k ∈ lineKeys cells) (hk' : k' ∈ lineKeys cells)
    (h : sameLine k c = true) (h' : sameLine k' c = true) : k = k' := by
  have hpw := (lineKeys_cover cells).2.2
  apply Classical.byContradiction
  intro hne
  have hs : sameLine k k' = true := sameLine_trans h (sameLine_symm h')
  have key : ∀ (l : List WCell), l.Pairwise (fun a b => sameLine a b = false) → k ∈ l → k' ∈ l → False := by
    intro l
    induction l with
    | nil => intro _ h1; cases h1
    | cons x t ih =>
      intro hp h1 h2
      have hp' := List.pairwise_cons.mp hp
      rcases List.mem_cons.mp h1 with e1 | h1
      · rcases List.mem_cons.mp h2 with e2 | h2
        · exact hne (e1.trans e2.symm)
        · have := hp'.1 k' h2; rw [← e1, hs] at this; cases this
      · rcases List.mem_cons.mp h2 with e2 | h2
        · have := hp'.1 k h1; rw [← e2, sameLine_symm hs] at this; cases this
        · exact ih hp'.2 h1 h2
  exact key _ hpw hk hk'

end Reamber.BMS
