/-
C03 — the writer's nine concatenated lists (hits, hold heads, hold tails, roll heads, roll tails, fakes, keysounds,
lifts, mines), each object with its beat, are a permutation of the notes' events (a tap symbol per tap, a head and a
tail symbol per hold/roll).
-/
import Reamber.Lemmas.SMWriteEvents

namespace Reamber.SM

open Reamber.Timing

/-- the StepMania symbol of a written character (the `SMConst` characters are symbols: C02 `symbols_tie`) -/
def symOfChar (ch : Char) : Sym := (symOf ch).getD (.tap .hit)

/-- a written object `(time, column, character)` as an event, with the beat `β time` -/
def objEvent (β : Rat → Rat) (o : Rat × Nat × Char) : SEv := (o.2.1, β o.1, symOfChar o.2.2)

/-- an in-memory note as a note in beats -/
def noteOfW (β : Rat → Rat) (n : Note) : DNote :=
  ⟨n.kind, n.col, β n.time, if n.kind = .hold ∨ n.kind = .roll then some (β (n.time + n.length)) else none⟩

theorem writeOrder_count (β : Rat → Rat) (a : SEv) : ∀ (notes : List Note),
    ((writeOrder notes).map (objEvent β)).count a = ((notes.map (noteOfW β)).flatMap evOf).count a
  | [] => by simp [writeOrder]
  | n :: t => by
    have ih := writeOrder_count β a t
    obtain ⟨k, c, tm, len⟩ := n
    cases k <;>
      simp [writeOrder, List.filter_cons, noteOfW, evOf, objEvent, symOfChar, symOf, hitChar, holdHeadChar, holdTailChar,
        liftChar, keysoundChar, fakeChar, mineChar, rollHeadChar, rollTailChar, List.count_append, List.count_cons,
        List.flatMap_cons] at ih ⊢ <;> omega

/-- **`writeOrder_events`** -/
theorem writeOrder_events (β : Rat → Rat) (notes : List Note) :
    ((writeOrder notes).map (objEvent β)).Perm ((notes.map (noteOfW β)).flatMap evOf) :=
  List.perm_iff_count.mpr (fun a => writeOrder_count β a notes)

end Reamber.SM
