/-
C03 — the text `SMMapSet.write` returns has no carriage return when its inputs have none.
-/
import Reamber.Lemmas.SMWriteText

namespace Reamber.SM

open Reamber.Timing

theorem cr_ne : ('\r' : Char) ≠ '\n' ∧ ('\r' : Char) ≠ ':' ∧ ('\r' : Char) ≠ ';' ∧ ('\r' : Char) ≠ ',' ∧ ('\r' : Char) ≠ '=' ∧
    ('\r' : Char) ≠ '/' ∧ ('\r' : Char) ≠ '[' ∧ ('\r' : Char) ≠ ']' ∧ ('\r' : Char) ≠ ' ' ∧ ('\r' : Char) ≠ '-' := by decide

theorem noCR_joinWith (sep : Str) (l : List Str) (hs : '\r' ∉ sep) (hl : ∀ p ∈ l, '\r' ∉ p) : '\r' ∉ joinWith sep l := by
  intro h
  rcases mem_joinWith sep l _ h with h1 | ⟨p, hp, hc⟩
  · exact hs h1
  · exact hl p hp hc

theorem strLine_noCR (tv : Str × Str) (h1 : '\r' ∉ tv.1) (h2 : '\r' ∉ tv.2) : '\r' ∉ strLine tv := by
  unfold strLine
  simp only [List.mem_append, List.mem_cons, not_or, List.not_mem_nil]
  have := cr_ne
  tauto

theorem headerLines_noCR (sh : Shows) (w : Written) (hstr : ∀ tv ∈ w.strs, '\r' ∉ tv.1 ∧ '\r' ∉ tv.2)
    (hsel : '\r' ∉ w.selectable) (hrat : ∀ q, '\r' ∉ sh.rat q) : ∀ line ∈ headerLines sh w, '\r' ∉ line := by
  intro line hl
  have hne := cr_ne
  have hbp : '\r' ∉ bpmsParam sh w.bpms := by
    unfold bpmsParam
    apply noCR_joinWith
    · simp [hne.1, hne.2.2.2.1]
    · intro p hp
      obtain ⟨q, _, rfl⟩ := List.mem_map.mp hp
      simp only [List.mem_append, List.mem_cons, not_or]
      exact ⟨hrat _, hne.2.2.2.2.1, hrat _⟩
  have htags : '\r' ∉ tagOffset ∧ '\r' ∉ tagBpms ∧ '\r' ∉ tagStops ∧ '\r' ∉ tagSampleStart ∧ '\r' ∉ tagSampleLength ∧
      '\r' ∉ tagSelectable := by decide
  unfold headerLines at hl
  simp only [List.mem_append, List.mem_map, List.mem_cons, List.not_mem_nil, or_false] at hl
  have hS : ∀ tv ∈ w.strs, '\r' ∉ strLine tv := fun tv h => strLine_noCR tv (hstr tv h).1 (hstr tv h).2
  have ho := hrat w.offsetSec
  have h1 := hrat w.sampleStartSec
  have h2 := hrat w.sampleLengthSec
  rcases hl with (((⟨tv, htv, rfl⟩ | hl) | ⟨tv, htv, rfl⟩) | hl) | ⟨tv, htv, rfl⟩
  · exact hS tv (List.mem_of_mem_take htv)
  · rcases hl with rfl | rfl | rfl | rfl | rfl <;>
      simp only [List.mem_append, List.mem_cons, not_or, List.not_mem_nil, not_false_eq_true, and_true] <;> tauto
  · exact hS tv (List.mem_of_mem_drop (List.mem_of_mem_take htv))
  · subst hl
    simp only [List.mem_append, List.mem_cons, not_or, List.not_mem_nil]
    tauto
  · exact hS tv (List.mem_of_mem_drop htv)

theorem chartLines_noCR (sh : Shows) (c : WrittenChart) (hrat : ∀ q, '\r' ∉ sh.rat q) (hint : ∀ i, '\r' ∉ sh.int i)
    (h1 : '\r' ∉ c.chartType) (h2 : '\r' ∉ c.description) (h3 : '\r' ∉ c.difficulty)
    (h4 : ∀ rows ∈ c.measures, ∀ r ∈ rows, '\r' ∉ r) : ∀ line ∈ chartLines sh c, '\r' ∉ line := by
  intro line hl
  have hne := cr_ne
  have hnd : '\r' ∉ noteData c.measures := by
    unfold noteData
    apply noCR_joinWith
    · simp [hne.1, hne.2.2.2.1]
    · intro p hp
      obtain ⟨rows, hr, rfl⟩ := List.mem_map.mp hp
      exact noCR_joinWith _ _ (by simp [hne.1]) (h4 rows hr)
  have hg : '\r' ∉ joinWith [','] (c.groove.map sh.rat) := by
    apply noCR_joinWith
    · simp [hne.2.2.2.1]
    · intro p hp
      obtain ⟨q, _, rfl⟩ := List.mem_map.mp hp
      exact hrat q
  have hi := hint c.difficultyVal
  have hind : '\r' ∉ indent5 := by decide
  have hnt : '\r' ∉ notesTag := by decide
  unfold chartLines at hl
  simp only [List.mem_cons, List.not_mem_nil, or_false] at hl
  rcases hl with rfl | rfl | rfl | rfl | rfl | rfl | rfl | rfl | rfl
  · unfold bannerText
    simp only [List.mem_append, List.mem_cons, not_or, List.not_mem_nil, not_false_eq_true, and_true]
    tauto
  · exact hnt
  all_goals first
    | exact hnd
    | (simp only [List.mem_append, List.mem_cons, not_or, List.not_mem_nil, not_false_eq_true, and_true]; tauto)

end Reamber.SM
