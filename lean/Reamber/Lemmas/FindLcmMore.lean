/-
K1 — more about `find_lcm` (beyond `findLcm_dvd` of `Lemmas/FindLcm.lean`), for the BMS writer:
every entry of the result divides every common multiple of the inputs (so all lines of a (measure, channel)
group lie on ONE common grid, the LCM of the group's denominators — even though `find_lcm` leaves "stale" smaller
LCMs on absorbed rows and the group may be written as several lines), and every entry is either below the
threshold or the row's own denominator (bound on the length of a written line).  Core Lean only.
-/
import Reamber.Lemmas.FindLcm

namespace Reamber.Timing

/-- loop invariant: live entries and recorded LCMs divide the common multiple `L`; a live entry is below the
threshold or still the input; a recorded LCM is below the threshold; an absorbed entry has its LCM recorded -/
def LcmInv2 (xs : List Nat) (L thr : Nat) (a : List (Option Nat)) (a_ : List Nat) : Prop :=
  a.length = xs.length ∧ a_.length = xs.length ∧
  ∀ k, k < xs.length →
    (∀ v, a.getD k none = some v → v ∣ L ∧ (v < thr ∨ v = xs.getD k 0)) ∧
    (a_.getD k 0 ≠ 0 → a_.getD k 0 ∣ L ∧ a_.getD k 0 < thr) ∧
    (a.getD k none = none → a_.getD k 0 ≠ 0)

theorem lcmInv2_step (xs : List Nat) (L thr : Nat) (a : List (Option Nat)) (a_ : List Nat) (i j b c : Nat)
    (hinv : LcmInv2 xs L thr a a_) (hij : i ≠ j) (hi : i < xs.length) (hj : j < xs.length)
    (hb : a.getD i none = some b) (hc : a.getD j none = some c) (hlt : Nat.lcm b c < thr) (hpos : Nat.lcm b c ≠ 0) :
    LcmInv2 xs L thr ((a.set i (some (Nat.lcm b c))).set j none) (a_.set j (Nat.lcm b c)) := by
  obtain ⟨hla, hla_, hk⟩ := hinv
  have hbi := (hk i hi).1 b hb
  have hcj := (hk j hj).1 c hc
  have hdl : Nat.lcm b c ∣ L := Nat.lcm_dvd hbi.1 hcj.1
  refine ⟨by simp [hla], by simp [hla_], ?_⟩
  intro k hkl
  by_cases hkj : k = j
  · subst hkj
    have hlen : k < (a.set i (some (Nat.lcm b c))).length := by simp [hla, hj]
    have hlen_ : k < a_.length := by omega
    refine ⟨?_, ?_, ?_⟩
    · intro v hv
      rw [getD_set_eq _ _ _ _ hlen] at hv
      cases hv
    · intro _
      rw [getD_set_eq _ _ _ _ hlen_]
      exact ⟨hdl, hlt⟩
    · intro _
      rw [getD_set_eq _ _ _ _ hlen_]
      exact hpos
  · have hjk : j ≠ k := fun e => hkj e.symm
    rw [getD_set_ne _ _ _ _ _ hjk, getD_set_ne _ _ _ _ _ hjk]
    by_cases hki : k = i
    · subst hki
      have hlen : k < a.length := by omega
      rw [getD_set_eq _ _ _ _ hlen]
      refine ⟨?_, (hk k hkl).2.1, ?_⟩
      · intro v hv
        cases hv
        exact ⟨hdl, Or.inl hlt⟩
      · intro h; cases h
    · have hik : i ≠ k := fun e => hki e.symm
      rw [getD_set_ne _ _ _ _ _ hik]
      exact hk k hkl

theorem lcmInv2_inner (xs : List Nat) (L thr i : Nat) (hi : i < xs.length) (js : List Nat) :
    ∀ (a : List (Option Nat)) (a_ : List Nat), (∀ j ∈ js, j < xs.length) → LcmInv xs a a_ → LcmInv2 xs L thr a a_ →
      LcmInv2 xs L thr (findLcmInner thr i js (a, a_)).1 (findLcmInner thr i js (a, a_)).2 := by
  induction js with
  | nil => intro a a_ _ _ h; simpa [findLcmInner] using h
  | cons j js ih =>
    intro a a_ hjs hinv1 hinv
    have hj : j < xs.length := hjs j (by simp)
    have hjs' : ∀ j ∈ js, j < xs.length := fun x hx => hjs x (by simp [hx])
    unfold findLcmInner
    by_cases hij : i = j
    · simp only [hij, if_true]
      rw [← hij]
      exact ih a a_ hjs' hinv1 hinv
    · simp only [hij, if_false]
      cases hb : a.getD i none with
      | none => simpa using ih a a_ hjs' hinv1 hinv
      | some b =>
        cases hc : a.getD j none with
        | none => simpa using ih a a_ hjs' hinv1 hinv
        | some c =>
          simp only []
          by_cases hl : Nat.lcm b c < thr
          · simp only [hl, if_true]
            have hbpos := ((hinv1.2.2 i hi).1 b hb).2
            have hcpos := ((hinv1.2.2 j hj).1 c hc).2
            exact ih _ _ hjs' (lcmInv_step xs a a_ i j b c hinv1 hij hi hj hb hc)
              (lcmInv2_step xs L thr a a_ i j b c hinv hij hi hj hb hc hl (Nat.ne_of_gt (Nat.lcm_pos hbpos hcpos)))
          · simp only [hl, if_false]
            exact ih a a_ hjs' hinv1 hinv

theorem lcmInv2_outer (xs : List Nat) (L thr : Nat) (js : List Nat) (hjs : ∀ j ∈ js, j < xs.length) (is : List Nat) :
    ∀ (st : List (Option Nat) × List Nat), (∀ i ∈ is, i < xs.length) → LcmInv xs st.1 st.2 → LcmInv2 xs L thr st.1 st.2 →
      LcmInv2 xs L thr (is.foldl (fun st i => findLcmInner thr i js st) st).1
        (is.foldl (fun st i => findLcmInner thr i js st) st).2 := by
  induction is with
  | nil => intro st _ _ h; simpa using h
  | cons i is ih =>
    intro st his hinv1 hinv
    simp only [List.foldl_cons]
    apply ih _ (fun x hx => his x (by simp [hx]))
    · exact lcmInv_inner xs thr i (his i (by simp)) js st.1 st.2 hjs hinv1
    · exact lcmInv2_inner xs L thr i (his i (by simp)) js st.1 st.2 hjs hinv1 hinv

theorem lcmInv2_init (xs : List Nat) (L thr : Nat) (hL : ∀ x ∈ xs, x ∣ L) :
    LcmInv2 xs L thr (xs.map some) (xs.map (fun _ => 0)) := by
  refine ⟨by simp, by simp, ?_⟩
  intro k hk
  refine ⟨?_, ?_, ?_⟩
  · intro v hv
    simp only [List.getD_eq_getElem?_getD, List.getElem?_map, List.getElem?_eq_getElem hk, Option.map_some, Option.getD_some,
      Option.some.injEq] at hv
    subst hv
    simp only [List.getD_eq_getElem?_getD, List.getElem?_eq_getElem hk, Option.getD_some]
    exact ⟨hL _ (List.getElem_mem hk), Or.inr trivial⟩
  · intro h
    simp [List.getD_eq_getElem?_getD, List.getElem?_map, List.getElem?_eq_getElem hk] at h
  · intro h
    simp [List.getD_eq_getElem?_getD, List.getElem?_map, List.getElem?_eq_getElem hk] at h

/-- **One common grid, bounded lines.**  For positive inputs and ANY common multiple `L` of them (in particular their
LCM): every entry of `find_lcm(xs, thr)` divides `L`, and is either below `thr` or the input itself. -/
theorem findLcm_dvd_common (xs : List Nat) (thr L : Nat) (hpos : ∀ x ∈ xs, 0 < x) (hL : ∀ x ∈ xs, x ∣ L) :
    ∀ i, i < xs.length → (findLcm xs thr).getD i 0 ∣ L ∧
      ((findLcm xs thr).getD i 0 < thr ∨ (findLcm xs thr).getD i 0 = xs.getD i 0) := by
  have hr : ∀ j ∈ List.range xs.length, j < xs.length := fun j hj => List.mem_range.mp hj
  have hinv := lcmInv2_outer xs L thr (List.range xs.length) hr (List.range xs.length)
    (xs.map some, xs.map (fun _ => 0)) hr (lcmInv_init xs hpos) (lcmInv2_init xs L thr hL)
  simp only [findLcm]
  generalize (List.range xs.length).foldl (fun st i => findLcmInner thr i (List.range xs.length) st)
    (xs.map some, xs.map (fun _ => 0)) = st at hinv ⊢
  obtain ⟨a, a_⟩ := st
  obtain ⟨_, _, hk⟩ := hinv
  intro i hi
  have hki := hk i hi
  simp only [List.getD_eq_getElem?_getD, List.getElem?_map, List.getElem?_range hi, Option.map_some, Option.getD_some]
  simp only [List.getD_eq_getElem?_getD] at hki
  split
  · rename_i h0
    cases hai : (a[i]?).getD none with
    | none => exact absurd h0 (hki.2.2 hai)
    | some v => simpa [hai] using hki.1 v hai
  · rename_i h0
    exact ⟨(hki.2.1 h0).1, Or.inl (hki.2.1 h0).2⟩

/-- the LCM of a list -/
def lcmList (xs : List Nat) : Nat := xs.foldr Nat.lcm 1

theorem dvd_lcmList {xs : List Nat} {x : Nat} (h : x ∈ xs) : x ∣ lcmList xs := by
  induction xs with
  | nil => cases h
  | cons a t ih =>
    simp only [lcmList, List.foldr_cons]
    rcases List.mem_cons.mp h with rfl | h
    · exact Nat.dvd_lcm_left _ _
    · exact Nat.dvd_trans (ih h) (Nat.dvd_lcm_right _ _)

/-- **Each group is written on a common denominator**: every new denominator `find_lcm` hands out divides the LCM
of the group's denominators, is a multiple of the row's own denominator (`findLcm_dvd`), and is `< thr` unless it
is the row's own denominator. -/
theorem findLcm_common_denominator (xs : List Nat) (thr : Nat) (hpos : ∀ x ∈ xs, 0 < x) :
    ∀ i, i < xs.length →
      xs.getD i 0 ∣ (findLcm xs thr).getD i 0 ∧ (findLcm xs thr).getD i 0 ∣ lcmList xs ∧
      ((findLcm xs thr).getD i 0 < thr ∨ (findLcm xs thr).getD i 0 = xs.getD i 0) := by
  intro i hi
  have h1 := (findLcm_dvd xs thr hpos).2 i hi
  have h2 := findLcm_dvd_common xs thr (lcmList xs) hpos (fun x hx => dvd_lcmList hx) i hi
  exact ⟨h1.1, h2.1, h2.2⟩

/-- inputs that cannot be merged below the threshold come back unchanged -/
theorem findLcm_id_of_ge (xs : List Nat) (thr : Nat) (hpos : ∀ x ∈ xs, 0 < x) (hge : ∀ x ∈ xs, thr ≤ x) :
    findLcm xs thr = xs := by
  apply List.ext_getElem
  · exact (findLcm_dvd xs thr hpos).1
  · intro i h1 h2
    have h := findLcm_dvd_common xs thr (lcmList xs) hpos (fun x hx => dvd_lcmList hx) i h2
    have hd := (findLcm_dvd xs thr hpos).2 i h2
    have e1 : (findLcm xs thr).getD i 0 = (findLcm xs thr)[i] := by
      simp [List.getD_eq_getElem?_getD, List.getElem?_eq_getElem h1]
    have e2 : xs.getD i 0 = xs[i] := by simp [List.getD_eq_getElem?_getD, List.getElem?_eq_getElem h2]
    rw [e1, e2] at h hd
    rcases h.2 with hlt | heq
    · have := Nat.le_of_dvd hd.2 hd.1
      have := hge xs[i] (List.getElem_mem h2)
      omega
    · exact heq

end Reamber.Timing
