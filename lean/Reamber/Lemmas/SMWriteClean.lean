/-
C03 — every row `SMMap.write` emits is a row over the note characters, hence a `CleanRow` for the specification's
scanner: the emitted note data scans back to exactly the emitted measures.
-/
import Reamber.Lemmas.SMWriteEvents
import Reamber.Lemmas.SMScan

namespace Reamber.SM

open Reamber.Timing

def noteChars : List Char := ['0', '1', '2', '3', '4', 'M', 'L', 'F', 'K']

theorem charOfSym_mem (s : Sym) : charOfSym s ∈ noteChars := by
  cases s with
  | tap k => cases k <;> simp [charOfSym, noteChars]
  | head k => cases k <;> simp [charOfSym, noteChars]
  | tail => simp [charOfSym, noteChars]

theorem dropWhile_eq_self {α} (q : α → Bool) (l : List α) (h : ∀ c ∈ l, q c = false) : l.dropWhile q = l := by
  cases l with
  | nil => rfl
  | cons a t => simp [List.dropWhile_cons, h a (by simp)]

theorem noteChars_facts : ∀ c ∈ noteChars, isWs c = false ∧ c ≠ ',' ∧ c ≠ '\n' := by decide

/-- a non-empty row over the note characters is a clean row -/
theorem cleanRow_of_chars (p : Str) (hne : p ≠ []) (h : ∀ c ∈ p, c ∈ noteChars) : CleanRow p := by
  refine ⟨hne, ?_, fun c hc => ⟨(noteChars_facts c (h c hc)).2.1, (noteChars_facts c (h c hc)).2.2⟩⟩
  unfold trim
  have h1 : ∀ c ∈ p, isWs c = false := fun c hc => (noteChars_facts c (h c hc)).1
  rw [dropWhile_eq_self isWs p h1, dropWhile_eq_self isWs p.reverse (fun c hc => h1 c (List.mem_reverse.mp hc)),
    List.reverse_reverse]

/-- **The emitted measures**: none is empty, every row is non-empty and consists of note characters (hypotheses of
`written_events`, at least one column). -/
theorem written_rows_chars (keys : Nat) (hk : 0 < keys) (E : List SEv) (hE : EventsOK keys E) (ms : List Int)
    (out : List (List Str)) (hasc : AscAbove (-1) ms) (hmem : ∀ m, m ∈ ms ↔ ∃ s ∈ E.map slotOfEv, s.measure = m)
    (hw : writeLoop keys (E.map slotOfEv) (-1) ms = .ok out) :
    ∀ rows ∈ out, rows ≠ [] ∧ ∀ p ∈ rows, p ≠ [] ∧ ∀ c ∈ p, c ∈ noteChars := by
  obtain ⟨_, hidx⟩ := writeLoop_index keys (E.map slotOfEv) ms (-1) out hasc hw
  intro rows hrows
  obtain ⟨i, hil, rfl⟩ := List.getElem_of_mem hrows
  obtain ⟨hfill, hpadc⟩ := hidx i hil
  have hneg : (-1 : Int) + 1 + (i : Int) = (i : Int) := by omega
  rw [hneg] at hfill hpadc
  by_cases him : (i : Int) ∈ ms
  · obtain ⟨hdpos, G, hG, hrect, hcell, hzero⟩ := measure_grid keys E hE (i : Int) ((hmem _).mp him)
    have hGeq : out[i] = G := by
      have := hfill him
      rw [hG] at this
      exact (Except.ok.inj this).symm
    rw [hGeq]
    refine ⟨?_, ?_⟩
    · intro h
      have := hrect.1
      rw [h] at this
      simp at this
      omega
    intro p hp
    have hlen : p.length = keys := hrect.2 p hp
    refine ⟨?_, ?_⟩
    · intro h; rw [h] at hlen; simp at hlen; omega
    · intro ch hch
      obtain ⟨r, hr, rfl⟩ := List.getElem_of_mem hp
      obtain ⟨c, hc, rfl⟩ := List.getElem_of_mem hch
      have hcv : cellAt G r c = (G[r])[c] :=
        cellAt_of_get (List.getElem?_eq_getElem hr) (List.getElem?_eq_getElem hc)
      by_cases hex : ∃ s ∈ (E.map slotOfEv).filter (fun t => t.measure = (i : Int)),
          rowOf s.num s.den (denMax (((E.map slotOfEv).filter (fun t => t.measure = (i : Int))).map (·.den))) = r ∧ s.col = c
      · obtain ⟨s, hsg, hsr, hsc⟩ := hex
        have := hcell s hsg
        rw [hsr, hsc, hcv] at this
        rw [this]
        obtain ⟨e, _, rfl⟩ := List.mem_map.mp (List.mem_filter.mp hsg).1
        exact charOfSym_mem _
      · have hz := hzero r c (fun s hs hh => hex ⟨s, hs, hh⟩)
        rw [hcv] at hz
        rw [hz]; simp [noteChars]
  · have hp' := hpadc him
    rw [hp']
    refine ⟨by simp [paddingMeasure, metronome], ?_⟩
    intro p hp
    simp only [paddingMeasure, List.mem_replicate] at hp
    rw [hp.2]
    refine ⟨by simp, ?_⟩
    intro c hc
    simp at hc
    rw [hc]; simp [noteChars]

/-- **The emitted rows are clean** (hypotheses of `written_events`, at least one column). -/
theorem written_rows_clean (keys : Nat) (hk : 0 < keys) (E : List SEv) (hE : EventsOK keys E) (ms : List Int)
    (out : List (List Str)) (hasc : AscAbove (-1) ms) (hmem : ∀ m, m ∈ ms ↔ ∃ s ∈ E.map slotOfEv, s.measure = m)
    (hw : writeLoop keys (E.map slotOfEv) (-1) ms = .ok out) :
    ∀ rows ∈ out, ∀ p ∈ rows, CleanRow p := by
  intro rows hrows p hp
  obtain ⟨hne, hch⟩ := (written_rows_chars keys hk E hE ms out hasc hmem hw rows hrows).2 p hp
  exact cleanRow_of_chars p hne hch

end Reamber.SM
