/-
C15 helper lemmas, part 1: sorting a list whose tied rows are equal is independent of the row order
(`isort_key_eq_of_perm`), and what follows for the frames of `Model/Analysis.lean`:

* `sortTp_eq_of_perm`          the sorted tempo list,
* `sortRow_append_eq_of_perm`  the stable sort of `tempo rows ++ marker rows` (the marker rows keep their place
                               behind the tempo rows of the same time in both orders),
* `groupLast_congr`            `groupby("offset").last()` over `resets ++ markers ++ SVs`.
-/
import Reamber.Lemmas.Sort
import Reamber.Lemmas.AnalysisSpeed
import Reamber.Spec.Perm

namespace Reamber.PermInv

open Reamber.Timing (isort insertBy TotalPre Sorted isort_sorted mem_isort)

/-- two sorted arrangements of the same rows are equal when rows tied in the order are equal rows -/
theorem sorted_perm_eq_on {α : Type} {le : α → α → Bool} :
    ∀ {l₁ l₂ : List α}, (∀ a ∈ l₁, ∀ b ∈ l₁, le a b = true → le b a = true → a = b) →
      l₁.Perm l₂ → Sorted le l₁ → Sorted le l₂ → l₁ = l₂ := by
  intro l₁
  induction l₁ with
  | nil => intro l₂ _ hp _ _; exact (List.Perm.nil_eq hp)
  | cons a t ih =>
    intro l₂ anti hp h1 h2
    cases l₂ with
    | nil => exact absurd (List.Perm.eq_nil hp) (by simp)
    | cons b t₂ =>
      have ha : ∀ x ∈ t, le a x = true := (List.pairwise_cons.mp h1).1
      have hb : ∀ x ∈ t₂, le b x = true := (List.pairwise_cons.mp h2).1
      have hbmem : b ∈ a :: t := hp.mem_iff.mpr (by simp)
      have hamem : a ∈ b :: t₂ := hp.mem_iff.mp (by simp)
      have hab : a = b := by
        rcases List.mem_cons.mp hbmem with e | hbt
        · exact e.symm
        · rcases List.mem_cons.mp hamem with e | hat
          · exact e
          · exact anti a (by simp) b hbmem (ha b hbt) (hb a hat)
      subst hab
      have hp' : t.Perm t₂ := List.Perm.cons_inv hp
      rw [ih (fun x hx y hy => anti x (List.mem_cons_of_mem _ hx) y (List.mem_cons_of_mem _ hy)) hp'
        (List.pairwise_cons.mp h1).2 (List.pairwise_cons.mp h2).2]

theorem isort_eq_of_perm_on {α : Type} {le : α → α → Bool} (h : TotalPre le) {l₁ l₂ : List α}
    (anti : ∀ a ∈ l₁, ∀ b ∈ l₁, le a b = true → le b a = true → a = b) (hp : l₁.Perm l₂) :
    isort le l₁ = isort le l₂ :=
  sorted_perm_eq_on
    (fun a ha b hb => anti a (mem_isort.mp ha) b (mem_isort.mp hb))
    (((Timing.isort_perm le l₁).trans hp).trans (Timing.isort_perm le l₂).symm)
    (isort_sorted h l₁) (isort_sorted h l₂)

theorem totalPre_key {α : Type} (key : α → Rat) : TotalPre (fun a b : α => decide (key a ≤ key b)) :=
  ⟨fun a b => by simp only [decide_eq_true_eq]; exact le_total _ _,
   fun a b c => by simp only [decide_eq_true_eq]; exact le_trans⟩

/-- **sorting by a time key**: if rows that share the key are equal rows, the sorted list is a function of the
multiset of rows -/
theorem isort_key_eq_of_perm {α : Type} (key : α → Rat) {l₁ l₂ : List α} (ht : TiesEqual key l₁) (hp : l₁.Perm l₂) :
    isort (fun a b => decide (key a ≤ key b)) l₁ = isort (fun a b => decide (key a ≤ key b)) l₂ := by
  apply isort_eq_of_perm_on (totalPre_key key) _ hp
  intro a ha b hb h1 h2
  simp only [decide_eq_true_eq] at h1 h2
  exact ht a ha b hb (le_antisymm h1 h2)

theorem TiesEqual.perm {α κ} {key : α → κ} {l l' : List α} (h : TiesEqual key l) (hp : l.Perm l') : TiesEqual key l' :=
  fun a ha b hb => h a (hp.mem_iff.mpr ha) b (hp.mem_iff.mpr hb)

/-! ### the analysis frames -/

open Reamber.Analysis

theorem sortTp_eq_of_perm {bpms bpms' : List Tp} (ht : TiesEqual (fun p : Tp => p.time) bpms) (hp : bpms.Perm bpms') :
    sortTp bpms = sortTp bpms' :=
  isort_key_eq_of_perm (fun p : Tp => p.time) ht hp

/-- the order that the stable sort of `valued rows ++ marker rows` realises: by time, valued before valueless -/
def le2 (a b : Row) : Bool := decide (a.1 < b.1) || (decide (a.1 = b.1) && (a.2.isSome || b.2.isNone))

theorem sorted_le2_of_VF : ∀ (l : List Row), l.Pairwise (fun a b => a.1 ≤ b.1) → VF l → Sorted le2 l := by
  intro l
  induction l with
  | nil => intro _ _; exact List.Pairwise.nil
  | cons x rest ih =>
    intro hs hv
    have hx : ∀ b ∈ rest, x.1 ≤ b.1 := (List.pairwise_cons.mp hs).1
    refine List.pairwise_cons.mpr ⟨?_, ih (List.pairwise_cons.mp hs).2 (VF_tail hv)⟩
    intro b hb
    unfold le2
    simp only [Bool.or_eq_true, Bool.and_eq_true, decide_eq_true_eq]
    rcases lt_or_eq_of_le (hx b hb) with hlt | heq
    · exact Or.inl hlt
    · obtain ⟨t, v⟩ := x
      have heq' : t = b.1 := heq
      cases v with
      | some _ => exact Or.inr ⟨heq', Or.inl rfl⟩
      | none =>
        have : b.2 = none := hv.1 b hb heq'.symm
        exact Or.inr ⟨heq', Or.inr (by simp [this])⟩

/-- **the tempo frame's sort**: `sort_values("offset", kind="stable")` of `tempo rows ++ marker rows` does not
depend on the order of the tempo rows, provided tempo rows of one time are equal -/
theorem sortRow_append_eq_of_perm (A A' M : List Row) (hp : A.Perm A') (hA : ∀ r ∈ A, r.2 ≠ none)
    (hM : ∀ r ∈ M, r.2 = none) (ht : TiesEqual (fun r : Row => r.1) A) :
    sortRow (A ++ M) = sortRow (A' ++ M) := by
  have hA' : ∀ r ∈ A', r.2 ≠ none := fun r hr => hA r (hp.mem_iff.mpr hr)
  have p1 : (sortRow (A ++ M)).Perm (A ++ M) := Timing.isort_perm _ _
  have p2 : (sortRow (A' ++ M)).Perm (A' ++ M) := Timing.isort_perm _ _
  apply sorted_perm_eq_on (le := le2)
  · intro a ha b hb h1 h2
    have ha' : a ∈ A ++ M := p1.mem_iff.mp ha
    have hb' : b ∈ A ++ M := p1.mem_iff.mp hb
    obtain ⟨ta, va⟩ := a
    obtain ⟨tb, vb⟩ := b
    unfold le2 at h1 h2
    simp only [Bool.or_eq_true, decide_eq_true_eq, Bool.and_eq_true] at h1 h2
    have hteq : ta = tb := by
      rcases h1 with h1 | h1
      · rcases h2 with h2 | h2
        · exact absurd h1 (not_lt.mpr (le_of_lt h2))
        · exact h2.1.symm
      · exact h1.1
    subst hteq
    have h1' : va.isSome = true ∨ vb.isNone = true := by
      rcases h1 with h1 | h1
      · exact absurd h1 (lt_irrefl _)
      · exact h1.2
    have h2' : vb.isSome = true ∨ va.isNone = true := by
      rcases h2 with h2 | h2
      · exact absurd h2 (lt_irrefl _)
      · exact h2.2
    cases va with
    | none =>
      cases vb with
      | none => rfl
      | some y => simp at h1'
    | some x =>
      cases vb with
      | none => simp at h2'
      | some y =>
        have haA : (ta, some x) ∈ A := by
          rcases List.mem_append.mp ha' with h | h
          · exact h
          · exact absurd (hM _ h) (by simp)
        have hbA : (ta, some y) ∈ A := by
          rcases List.mem_append.mp hb' with h | h
          · exact h
          · exact absurd (hM _ h) (by simp)
        exact ht _ haA _ hbA rfl
  · exact (p1.trans (List.Perm.append_right M hp)).trans p2.symm
  · exact sorted_le2_of_VF _ (sortRow_sorted _) (VF_sortRow A M hA hM)
  · exact sorted_le2_of_VF _ (sortRow_sorted _) (VF_sortRow A' M hA' hM)

/-- `lastSome` of a list whose entries are all the same value -/
theorem lastSome_allEq (v : Option Rat) : ∀ (l : List (Option Rat)), l ≠ [] → (∀ a ∈ l, a = v) → lastSome l = v := by
  intro l
  induction l with
  | nil => intro h; exact absurd rfl h
  | cons a t ih =>
    intro _ hall
    have ha : a = v := hall a (by simp)
    by_cases ht : t = []
    · subst ht; simp [lastSome, ha]
    · have := ih ht (fun x hx => hall x (List.mem_cons_of_mem _ hx))
      simp only [lastSome, this]
      cases v with
      | none => simp [ha]
      | some x => rfl

theorem lastSome_perm_of_allEq {l l' : List (Option Rat)} (hp : l.Perm l') (h : ∀ a ∈ l, ∀ b ∈ l, a = b) :
    lastSome l = lastSome l' := by
  cases l with
  | nil => rw [List.Perm.nil_eq hp]
  | cons a t =>
    have hne' : l' ≠ [] := by
      intro e; subst e; exact absurd (List.Perm.eq_nil hp) (by simp)
    rw [lastSome_allEq a (a :: t) (by simp) (fun x hx => h x hx a (by simp)),
        lastSome_allEq a l' hne' (fun x hx => h x (hp.mem_iff.mpr hx) a (by simp))]

/-- the value `groupby.last` keeps for key `k` out of one block of rows -/
def lastAt (k : Rat) (X : List Row) : Option Rat := lastSome ((X.filter (fun r => r.1 = k)).map (·.2))

theorem lastAt_perm (k : Rat) {X X' : List Row} (hp : X.Perm X')
    (hc : ∀ a ∈ X, ∀ b ∈ X, a.1 = b.1 → a.2 = b.2) : lastAt k X = lastAt k X' := by
  unfold lastAt
  apply lastSome_perm_of_allEq ((hp.filter _).map _)
  intro a ha b hb
  simp only [List.mem_map, List.mem_filter, decide_eq_true_eq] at ha hb
  obtain ⟨x, ⟨hx, hxk⟩, rfl⟩ := ha
  obtain ⟨y, ⟨hy, hyk⟩, rfl⟩ := hb
  exact hc x hx y hy (hxk.trans hyk.symm)

theorem lastAt_append (k : Rat) (X Y : List Row) : lastAt k (X ++ Y) = pick (lastAt k Y) (lastAt k X) := by
  unfold lastAt
  rw [List.filter_append, List.map_append, lastSome_append]

theorem groupLast_eq (rows : List Row) :
    groupLast rows = (groupKeys (rows.map (·.1))).map fun k => (k, lastAt k rows) := rfl

/-- **`groupby("offset").last()`** over `X ++ H ++ Z` does not depend on the order of the rows of `X` and of `Z`
when, inside each of the two blocks, rows of one offset carry one value -/
theorem groupLast_congr (X X' H Z Z' : List Row) (hx : X.Perm X') (hz : Z.Perm Z')
    (cx : ∀ a ∈ X, ∀ b ∈ X, a.1 = b.1 → a.2 = b.2) (cz : ∀ a ∈ Z, ∀ b ∈ Z, a.1 = b.1 → a.2 = b.2) :
    groupLast (X ++ H ++ Z) = groupLast (X' ++ H ++ Z') := by
  rw [groupLast_eq, groupLast_eq]
  have hk : groupKeys ((X ++ H ++ Z).map (·.1)) = groupKeys ((X' ++ H ++ Z').map (·.1)) := by
    apply groupKeys_congr
    intro t
    have : (X ++ H ++ Z).Perm (X' ++ H ++ Z') := (List.Perm.append_right _ hx).append_right _ |>.trans
      (List.Perm.append_left _ hz)
    exact (this.map _).mem_iff
  rw [hk]
  apply List.map_congr_left
  intro k _
  simp only [lastAt_append, lastAt_perm k hx cx, lastAt_perm k hz cz]

end Reamber.PermInv
