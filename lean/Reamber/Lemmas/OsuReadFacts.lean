/- C01 — facts about every chart that the by-the-book denotation reads from a dialect text (used to discharge the
write-side hypotheses of the composite theorem). -/
import Reamber.Lemmas.OsuWritten

set_option linter.unusedSimpArgs false
set_option linter.unusedVariables false

namespace Reamber.Osu

/-! ### pieces of a split -/

theorem mem_splitOn (c : Char) (s p : Str) (h : p ∈ splitOn c s) : c ∉ p ∧ ∀ ch ∈ p, ch ∈ s := by
  induction s generalizing p with
  | nil =>
    have : p = [] := by simpa [splitOn] using h
    subst this; simp
  | cons x xs ih =>
    by_cases hx : x = c
    · subst hx
      rw [splitOn_cons_eq] at h
      simp only [List.mem_cons] at h
      rcases h with rfl | h
      · simp
      · obtain ⟨a, b⟩ := ih p h
        exact ⟨a, fun ch hch => by simp [b ch hch]⟩
    · rw [splitOn_cons_ne c x xs hx] at h
      cases hs : splitOn c xs with
      | nil => exact absurd hs (splitOn_ne_nil c xs)
      | cons q qs =>
        rw [hs] at h
        simp only [List.mem_cons] at h
        have hq := ih q (by rw [hs]; simp)
        rcases h with rfl | h
        · refine ⟨?_, ?_⟩
          · simp only [List.mem_cons, not_or]; exact ⟨fun e => hx e.symm, hq.1⟩
          · intro ch hch
            simp only [List.mem_cons] at hch ⊢
            rcases hch with rfl | hch
            · exact Or.inl rfl
            · exact Or.inr (hq.2 ch hch)
        · obtain ⟨a, b⟩ := ih p (by rw [hs]; simp [h])
          exact ⟨a, fun ch hch => by simp [b ch hch]⟩

/-! ### what comes out of `filterMapE` -/

theorem filterMapE_mem {α β} (f : α → Except Err (Option β)) (L : List α) (r : List β) (h : filterMapE f L = .ok r) :
    ∀ b ∈ r, ∃ a ∈ L, f a = .ok (some b) := by
  induction L generalizing r with
  | nil => simp [filterMapE] at h; subst h; simp
  | cons a t ih =>
    rw [filterMapE] at h
    cases hfa : f a with
    | error e => rw [hfa] at h; simp at h
    | ok o =>
      rw [hfa] at h
      cases ht : filterMapE f t with
      | error e => rw [ht] at h; simp at h
      | ok r' =>
        rw [ht] at h
        simp only [Except.ok.injEq] at h
        intro b hb
        cases o with
        | none =>
          subst h
          obtain ⟨a', ha', hf'⟩ := ih r' ht b hb
          exact ⟨a', by simp [ha'], hf'⟩
        | some b0 =>
          subst h
          simp only [List.mem_cons] at hb
          rcases hb with rfl | hb
          · exact ⟨a, by simp, hfa⟩
          · obtain ⟨a', ha', hf'⟩ := ih r' ht b hb
            exact ⟨a', by simp [ha'], hf'⟩

/-! ### objects -/

theorem xToCol_bounds (x k : Int) (hk : 1 ≤ k) : 0 ≤ xToCol x k ∧ xToCol x k < k := by
  unfold xToCol; omega

theorem getLast_splitOn_sub (c : Char) (s : Str) (L : List Str) (f : Str) (h : splitOn c s = L ++ [f]) :
    c ∉ f ∧ ∀ ch ∈ f, ch ∈ s :=
  mem_splitOn c s f (by rw [h]; simp)

theorem bind_ok_inv {α β} (x : Except Err α) (f : α → Except Err β) (v : β) (h : (x >>= f) = .ok v) :
    ∃ a, x = .ok a ∧ f a = .ok v := by
  cases x with
  | error e => simp [bind, Except.bind] at h
  | ok a => exact ⟨a, rfl, by simpa [bind, Except.bind] using h⟩

/-- every object the format reads from a line: column inside the key count, file name without `,` and `:`, made of
characters of the line -/
theorem denoteObj_facts (k : Int) (hk : 1 ≤ k) (line : Str) (o : Obj) (h : denoteObj k line = .ok (some o)) :
    ObjOk k o ∧ (∀ ch, ch ∈ (match o with | .hit x => x.file | .hold x => x.file) → ch ∈ line) := by
  unfold denoteObj at h
  split at h
  · next fx fy ft fty fhs fex hs =>
    have hfex : ',' ∉ fex ∧ ∀ ch ∈ fex, ch ∈ line := mem_splitOn ',' line fex (by rw [hs]; simp)
    obtain ⟨ty, _, h⟩ := bind_ok_inv _ _ _ h
    obtain ⟨t, _, h⟩ := bind_ok_inv _ _ _ h
    obtain ⟨x, _, h⟩ := bind_ok_inv _ _ _ h
    obtain ⟨hsn, _, h⟩ := bind_ok_inv _ _ _ h
    have hb := xToCol_bounds x k hk
    rw [← specCol_eq_xToCol x k hk] at hb
    by_cases hb0 : bit ty 0 = true
    · simp only [hb0, if_true] at h
      split at h
      · next a b c d f hcl =>
        have hf : ':' ∉ f ∧ ∀ ch ∈ f, ch ∈ fex := mem_splitOn ':' fex f (by rw [hcl]; simp)
        obtain ⟨va, _, h⟩ := bind_ok_inv _ _ _ h
        obtain ⟨vb, _, h⟩ := bind_ok_inv _ _ _ h
        obtain ⟨vc, _, h⟩ := bind_ok_inv _ _ _ h
        obtain ⟨vd, _, h⟩ := bind_ok_inv _ _ _ h
        simp only [pure, Except.pure, Except.ok.injEq, Option.some.injEq] at h
        subst h
        exact ⟨⟨hb.1, hb.2, fun hm => hfex.1 (hf.2 _ hm), hf.1⟩, fun ch hch => hfex.2 ch (hf.2 ch hch)⟩
      · simp [throw, throwThe, MonadExceptOf.throw] at h
    · simp only [hb0, Bool.false_eq_true, if_false] at h
      by_cases hb7 : bit ty 7 = true
      · simp only [hb7, if_true] at h
        split at h
        · next e a b c d f hcl =>
          have hf : ':' ∉ f ∧ ∀ ch ∈ f, ch ∈ fex := mem_splitOn ':' fex f (by rw [hcl]; simp)
          obtain ⟨ve, _, h⟩ := bind_ok_inv _ _ _ h
          obtain ⟨va, _, h⟩ := bind_ok_inv _ _ _ h
          obtain ⟨vb, _, h⟩ := bind_ok_inv _ _ _ h
          obtain ⟨vc, _, h⟩ := bind_ok_inv _ _ _ h
          obtain ⟨vd, _, h⟩ := bind_ok_inv _ _ _ h
          simp only [pure, Except.pure, Except.ok.injEq, Option.some.injEq] at h
          subst h
          exact ⟨⟨hb.1, hb.2, fun hm => hfex.1 (hf.2 _ hm), hf.1⟩, fun ch hch => hfex.2 ch (hf.2 ch hch)⟩
        · simp [throw, throwThe, MonadExceptOf.throw] at h
      · simp [hb7, pure, Except.pure] at h
  · simp at h

/-! ### timing points -/

theorem denoteTiming_facts (line : Str) (tp : TPoint) (h : denoteTiming line = .ok (some tp)) :
    match tp with
    | .bpm b => b.bpm ≠ 0
    | .sv v => v.multiplier ≠ 0 := by
  unfold denoteTiming at h
  split at h
  · next ft fb fm fss fsi fv fu ffx hs =>
    obtain ⟨u, _, h⟩ := bind_ok_inv _ _ _ h
    obtain ⟨t, _, h⟩ := bind_ok_inv _ _ _ h
    obtain ⟨bl, _, h⟩ := bind_ok_inv _ _ _ h
    by_cases hz : bl = 0
    · simp [hz, bind, Except.bind, throw, throwThe, MonadExceptOf.throw] at h
    · simp only [hz, if_false] at h
      obtain ⟨ss, _, h⟩ := bind_ok_inv _ _ _ h
      obtain ⟨si, _, h⟩ := bind_ok_inv _ _ _ h
      obtain ⟨v, _, h⟩ := bind_ok_inv _ _ _ h
      obtain ⟨fx, _, h⟩ := bind_ok_inv _ _ _ h
      by_cases hu : u = 1
      · simp only [hu, if_true] at h
        obtain ⟨m, _, h⟩ := bind_ok_inv _ _ _ h
        simp only [pure, Except.pure, Except.ok.injEq, Option.some.injEq] at h
        subst h
        exact div_ne_zero (by norm_num) hz
      · simp only [hu, if_false] at h
        by_cases hu0 : u = 0
        · simp only [hu0, if_true, pure, Except.pure, Except.ok.injEq, Option.some.injEq] at h
          subst h
          exact div_ne_zero (by norm_num) hz
        · simp [hu0, pure, Except.pure] at h
  · simp at h

/-! ### metadata -/

/-- the three attributes that the reader fills through `int()` hold integers -/
def IntMeta (m : Meta) : Prop := m.audioLeadIn.den = 1 ∧ m.beatDivisor.den = 1 ∧ m.gridSize.den = 1

theorem intMeta_default : IntMeta {} := by unfold IntMeta; decide +kernel

def KeepsInt (r : Except Err Meta) : Prop := ∀ m', r = .ok m' → IntMeta m'

theorem keepsInt_ite (c : Prop) [Decidable c] (a b : Except Err Meta) (ha : KeepsInt a) (hb : KeepsInt b) :
    KeepsInt (if c then a else b) := by
  split <;> assumption

theorem keepsInt_bind {α} (x : Except Err α) (f : α → Except Err Meta) (hf : ∀ a, KeepsInt (f a)) :
    KeepsInt (x >>= f) := by
  intro m' h
  obtain ⟨a, _, h⟩ := bind_ok_inv _ _ _ h
  exact hf a m' h

theorem keepsInt_pure (m' : Meta) (h : IntMeta m') : KeepsInt (pure m') := by
  intro m'' h'
  simp only [pure, Except.pure, Except.ok.injEq] at h'
  subst h'; exact h

theorem keepsInt_ok (m' : Meta) (h : IntMeta m') : KeepsInt (.ok m') := by
  intro m'' h'
  simp only [Except.ok.injEq] at h'
  subst h'; exact h

theorem metaAssign_intMeta (m m' : Meta) (k : Str) (v : MVal) (hm : IntMeta m) (h : metaAssign m k v = .ok m') :
    IntMeta m' := by
  obtain ⟨h1, h2, h3⟩ := hm
  have key : KeepsInt (metaAssign m k v) := by
    unfold metaAssign
    repeat (refine keepsInt_ite _ _ _ (keepsInt_bind _ _ (fun a => keepsInt_pure _ ?_)) ?_; swap)
    · exact keepsInt_ok m ⟨h1, h2, h3⟩
    all_goals
      (unfold IntMeta
       dsimp only
       refine ⟨?_, ?_, ?_⟩ <;> first | assumption | simp)
  exact key m' h

theorem denoteKv_intMeta (m m' : Meta) (L : List Str) (hm : IntMeta m) (h : denoteKv m L = .ok m') : IntMeta m' := by
  induction L generalizing m with
  | nil => simp [denoteKv] at h; subst h; exact hm
  | cons l t ih =>
    rw [denoteKv_cons] at h
    cases hk : kvStep m l with
    | error e => rw [hk] at h; simp at h
    | ok m1 =>
      rw [hk] at h
      refine ih m1 ?_ h
      unfold kvStep at hk
      split at hk
      · simp only [Except.ok.injEq] at hk; subst hk; exact hm
      · split at hk
        · exact metaAssign_intMeta m m1 _ _ hm hk
        · simp only [Except.ok.injEq] at hk; subst hk; exact hm

theorem mapE_mem {α β} (f : α → Except Err β) (L : List α) (r : List β) (h : mapE f L = .ok r) :
    ∀ b ∈ r, ∃ a ∈ L, f a = .ok b := by
  induction L generalizing r with
  | nil => simp [mapE] at h; subst h; simp
  | cons a t ih =>
    obtain ⟨b0, r', h1, h2, rfl⟩ := mapE_cons_ok f a t r h
    intro b hb
    simp only [List.mem_cons] at hb
    rcases hb with rfl | hb
    · exact ⟨a, by simp, h1⟩
    · obtain ⟨a', ha', hf'⟩ := ih r' h2 b hb
      exact ⟨a', by simp [ha'], hf'⟩

theorem readSample_file (l : Str) (s : Sample) (h : readSample l = .ok s) : ',' ∉ s.file := by
  unfold readSample at h
  dsimp only at h
  split at h
  · next a f v h1 h3 h4 =>
    have hf : f ∈ splitOn ',' l := List.mem_of_getElem? h3
    cases e1 : readFloat a with
    | error e => rw [e1] at h; simp at h
    | ok off =>
      rw [e1] at h
      cases e2 : readInt v with
      | error e => rw [e2] at h; simp at h
      | ok vol =>
        rw [e2] at h
        simp only [Except.ok.injEq] at h
        subst h
        exact (mem_splitOn ',' l f hf).1
  · split at h <;> simp at h
  · simp at h

end Reamber.Osu

namespace Reamber.Osu

/-! ### the last field of a trimmed line -/

theorem dropWhile_head {α} (p : α → Bool) (l : List α) (a : α) (r : List α) (h : l.dropWhile p = a :: r) :
    p a = false := by
  induction l with
  | nil => simp at h
  | cons x xs ih =>
    rw [List.dropWhile_cons] at h
    by_cases hx : p x = true
    · simp only [hx, if_true] at h; exact ih h
    · simp only [hx, Bool.false_eq_true, if_false] at h
      injection h with h1 _
      subst h1; simpa using hx

theorem mem_dropWhile {α} (p : α → Bool) (l : List α) (a : α) (h : a ∈ l.dropWhile p) : a ∈ l :=
  (List.dropWhile_sublist p).subset h

/-- a trimmed text does not end in white space and has only characters of the original -/
theorem strip_facts (x : Str) : (∀ t a, strip x = t ++ [a] → isWs a = false) ∧ ∀ ch ∈ strip x, ch ∈ x := by
  unfold strip rstrip lstrip
  constructor
  · intro t a h
    have := congrArg List.reverse h
    simp only [List.reverse_reverse, List.reverse_append, List.reverse_cons, List.reverse_nil, List.nil_append,
      List.singleton_append] at this
    exact dropWhile_head isWs _ a _ this
  · intro ch hch
    have h1 : ch ∈ (List.dropWhile isWs x).reverse := mem_dropWhile isWs _ ch (by simpa using hch)
    exact mem_dropWhile isWs x ch (by simpa using h1)

theorem joinWith_suffix (c : Char) (L : List Str) (f : Str) : ∃ P, joinWith c (L ++ [f]) = P ++ f := by
  induction L with
  | nil => exact ⟨[], rfl⟩
  | cons p t ih =>
    obtain ⟨P, hP⟩ := ih
    cases ht : t ++ [f] with
    | nil => simp at ht
    | cons q r =>
      refine ⟨p ++ c :: P, ?_⟩
      show joinWith c (p :: (t ++ [f])) = _
      rw [ht] at hP ⊢
      show p ++ c :: joinWith c (q :: r) = _
      rw [hP]; simp

theorem last_piece_suffix (c : Char) (s : Str) (L : List Str) (f : Str) (h : splitOn c s = L ++ [f]) :
    ∃ P, s = P ++ f := by
  have := joinWith_splitOn c s
  rw [h] at this
  obtain ⟨P, hP⟩ := joinWith_suffix c L f
  exact ⟨P, by rw [← this, hP]⟩

def Obj.fileOf : Obj → Str
  | .hit x => x.file
  | .hold x => x.file

/-- the file name of an object read from a line is the end of that line -/
theorem denoteObj_file_suffix (k : Int) (line : Str) (o : Obj) (h : denoteObj k line = .ok (some o)) :
    ∃ P, line = P ++ o.fileOf := by
  unfold denoteObj at h
  split at h
  · next fx fy ft fty fhs fex hs =>
    obtain ⟨P1, hP1⟩ := last_piece_suffix ',' line [fx, fy, ft, fty, fhs] fex (by rw [hs]; rfl)
    obtain ⟨ty, _, h⟩ := bind_ok_inv _ _ _ h
    obtain ⟨t, _, h⟩ := bind_ok_inv _ _ _ h
    obtain ⟨x, _, h⟩ := bind_ok_inv _ _ _ h
    obtain ⟨hsn, _, h⟩ := bind_ok_inv _ _ _ h
    by_cases hb0 : bit ty 0 = true
    · simp only [hb0, if_true] at h
      split at h
      · next a b c d f hcl =>
        obtain ⟨P2, hP2⟩ := last_piece_suffix ':' fex [a, b, c, d] f (by rw [hcl]; rfl)
        obtain ⟨va, _, h⟩ := bind_ok_inv _ _ _ h
        obtain ⟨vb, _, h⟩ := bind_ok_inv _ _ _ h
        obtain ⟨vc, _, h⟩ := bind_ok_inv _ _ _ h
        obtain ⟨vd, _, h⟩ := bind_ok_inv _ _ _ h
        simp only [pure, Except.pure, Except.ok.injEq, Option.some.injEq] at h
        subst h
        refine ⟨P1 ++ P2, ?_⟩
        show line = (P1 ++ P2) ++ f
        rw [hP1, hP2, List.append_assoc]
      · simp [throw, throwThe, MonadExceptOf.throw] at h
    · simp only [hb0, Bool.false_eq_true, if_false] at h
      by_cases hb7 : bit ty 7 = true
      · simp only [hb7, if_true] at h
        split at h
        · next e a b c d f hcl =>
          obtain ⟨P2, hP2⟩ := last_piece_suffix ':' fex [e, a, b, c, d] f (by rw [hcl]; rfl)
          obtain ⟨ve, _, h⟩ := bind_ok_inv _ _ _ h
          obtain ⟨va, _, h⟩ := bind_ok_inv _ _ _ h
          obtain ⟨vb, _, h⟩ := bind_ok_inv _ _ _ h
          obtain ⟨vc, _, h⟩ := bind_ok_inv _ _ _ h
          obtain ⟨vd, _, h⟩ := bind_ok_inv _ _ _ h
          simp only [pure, Except.pure, Except.ok.injEq, Option.some.injEq] at h
          subst h
          refine ⟨P1 ++ P2, ?_⟩
          show line = (P1 ++ P2) ++ f
          rw [hP1, hP2, List.append_assoc]
        · simp [throw, throwThe, MonadExceptOf.throw] at h
      · simp [hb7, pure, Except.pure] at h
  · simp at h

/-- **the file name of an object read from a trimmed, line-break-free line can stand at the end of a written line**:
it contains no line break and does not end in white space -/
theorem denoteObj_tailOk (k : Int) (x : Str) (hx : '\n' ∉ x) (o : Obj) (h : denoteObj k (strip x) = .ok (some o)) :
    TailOk o.fileOf := by
  obtain ⟨P, hP⟩ := denoteObj_file_suffix k (strip x) o h
  obtain ⟨s1, s2⟩ := strip_facts x
  constructor
  · intro hm
    apply hx
    apply s2
    rw [hP]; simp [hm]
  · intro t a hf
    apply s1 (P ++ t) a
    rw [hP, hf]; simp

end Reamber.Osu
