/-
C03 — `measuresSorted` (what `groupby("measure")` iterates over): strictly ascending, and exactly the measure numbers
that hold an object.
-/
import Reamber.Lemmas.SMWriteRows
import Reamber.Lemmas.Sort

namespace Reamber.SM

open Reamber.Timing

/-- removing duplicates from a weakly ascending list of integers leaves a strictly ascending one -/
theorem eraseDups_strict : ∀ (n : Nat) (l : List Int), l.length ≤ n → l.Pairwise (fun a b => a ≤ b) →
    l.eraseDups.Pairwise (fun a b => a < b) := by
  intro n
  induction n with
  | zero =>
    intro l hl _
    have : l = [] := List.eq_nil_of_length_eq_zero (by omega)
    subst this; simp
  | succ n ih =>
    intro l hl hs
    cases l with
    | nil => simp
    | cons a t =>
      rw [List.eraseDups_cons, List.pairwise_cons]
      rw [List.pairwise_cons] at hs
      have hsub : (t.filter fun b => !b == a).Sublist t := List.filter_sublist
      refine ⟨?_, ih _ (by have := hsub.length_le; simp only [List.length_cons] at hl; omega) (hs.2.sublist hsub)⟩
      intro x hx
      have hx' : x ∈ t.filter fun b => !b == a := List.mem_eraseDups.mp hx
      obtain ⟨hxt, hne⟩ := List.mem_filter.mp hx'
      have hle := hs.1 x hxt
      have : x ≠ a := by simpa using hne
      omega

theorem ascAbove_of_pairwise : ∀ (l : List Int) (prev : Int), (∀ x ∈ l, prev < x) → l.Pairwise (fun a b => a < b) →
    AscAbove prev l := by
  intro l
  induction l with
  | nil => intro _ _ _; trivial
  | cons a t ih =>
    intro prev h hp
    rw [List.pairwise_cons] at hp
    exact ⟨h a (by simp), ih a hp.1 hp.2⟩

theorem totalPre_intLe : TotalPre (fun a b : Int => decide (a ≤ b)) :=
  ⟨fun a b => by simp only [decide_eq_true_eq]; omega, fun a b c => by simp only [decide_eq_true_eq]; omega⟩

/-- **`measuresSorted_spec`**: the measure numbers the writer's loop runs over are strictly ascending, contain exactly
the measures that hold an object, and — when every object's measure is non-negative — all lie above −1
(the writer's `prev_measure = -1`). -/
theorem measuresSorted_spec (S : List Slot) :
    (measuresSorted S).Pairwise (fun a b => a < b) ∧
    (∀ m, m ∈ measuresSorted S ↔ ∃ s ∈ S, s.measure = m) ∧
    ((∀ s ∈ S, 0 ≤ s.measure) → AscAbove (-1) (measuresSorted S)) := by
  have hmem : ∀ m, m ∈ measuresSorted S ↔ ∃ s ∈ S, s.measure = m := by
    intro m
    unfold measuresSorted
    rw [List.mem_eraseDups, mem_isort, List.mem_map]
  have hsorted : (isort (fun a b : Int => decide (a ≤ b)) (S.map (·.measure))).Pairwise (fun a b => a ≤ b) := by
    have := isort_sorted totalPre_intLe (S.map (·.measure))
    unfold Sorted at this
    exact this.imp (fun {a b} h => by simpa using h)
  have hstrict : (measuresSorted S).Pairwise (fun a b => a < b) := by
    unfold measuresSorted
    exact eraseDups_strict _ _ (le_refl _) hsorted
  refine ⟨hstrict, hmem, ?_⟩
  intro hnn
  apply ascAbove_of_pairwise _ _ _ hstrict
  intro x hx
  obtain ⟨s, hs, rfl⟩ := (hmem x).mp hx
  have := hnn s hs
  omega

end Reamber.SM
