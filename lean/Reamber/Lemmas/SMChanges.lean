/-
C03 — the tempo-change list a `#BPMS` value denotes (`changesOf`) is in C10's domain as soon as the pairs are `tempoOk`
(first entry on beat 0, positive tempos, distinct beats): well-formed changes with the 4-beat metronome, ascending,
the first one at measure 0 beat 0.  Only `gridCompatible` (the beats' fractional distances lie on the snap grid) is a
condition on the numbers themselves.
-/
import Reamber.Lemmas.SMTies
import Mathlib.Algebra.Order.Floor.Defs

namespace Reamber.SM

open Reamber.Timing

theorem snapOfBeat_fields (q : Rat) :
    (snapOfBeat q).measure = (q / 4).floor ∧ (snapOfBeat q).beat = q - 4 * (((q / 4).floor : Int) : Rat) ∧
    (snapOfBeat q).met = some 4 := ⟨rfl, rfl, rfl⟩

theorem snapOfBeat_beat_range (q : Rat) : 0 ≤ (snapOfBeat q).beat ∧ (snapOfBeat q).beat < 4 := by
  have h1 := Rat.floor_le (q / 4)
  have h2 := Rat.lt_floor_add_one (q / 4)
  push_cast at h2
  simp only [snapOfBeat]
  constructor <;> linarith

theorem snapOfBeat_mono (a b : Rat) (h : a ≤ b) : (snapOfBeat a).le (snapOfBeat b) = true := by
  have hfa := Rat.floor_le (a / 4)
  have hm : (a / 4).floor ≤ (b / 4).floor :=
    Rat.le_floor_iff.mpr (le_trans hfa (by linarith))
  simp only [snapOfBeat, Snap.le, Snap.lt, Snap.eqv, Bool.or_eq_true, Bool.and_eq_true, decide_eq_true_eq]
  rcases lt_or_eq_of_le hm with h' | h'
  · exact Or.inl (Or.inl (decide_eq_true h'))
  · have hle : a - 4 * (((a / 4).floor : Int) : Rat) ≤ b - 4 * (((b / 4).floor : Int) : Rat) := by
      rw [h']; linarith
    rcases lt_or_eq_of_le hle with h'' | h''
    · exact Or.inl (Or.inr ⟨decide_eq_true h', decide_eq_true h''⟩)
    · exact Or.inr ⟨decide_eq_true h', decide_eq_true h''⟩

theorem sortedSnaps_map (l : List (Rat × Rat)) (h : l.Pairwise (fun a b => a.1 ≤ b.1)) :
    sortedSnaps (l.map pairChange) = true := by
  induction l with
  | nil => rfl
  | cons a t ih =>
    have ha := List.pairwise_cons.mp h
    cases t with
    | nil => rfl
    | cons b u =>
      simp only [List.map_cons, sortedSnaps, Bool.and_eq_true]
      exact ⟨snapOfBeat_mono a.1 b.1 (ha.1 b (by simp)), by simpa using ih ha.2⟩

theorem metronomeOk_map (l : List (Rat × Rat)) : metronomeOk (l.map pairChange) = true := by
  induction l with
  | nil => rfl
  | cons a t ih =>
    cases t with
    | nil => rfl
    | cons b u =>
      simp only [List.map_cons, metronomeOk, Bool.and_eq_true, Bool.or_eq_true, decide_eq_true_eq]
      exact ⟨Or.inl rfl, by simpa using ih⟩

/-- **`changesOf` of a `tempoOk` list is in C10's domain** (all but `gridCompatible`) -/
theorem changesOf_domain (bpms : List (Rat × Rat)) (h : tempoOk bpms = true) :
    wfChanges (changesOf bpms) = true ∧ sortedSnaps (changesOf bpms) = true ∧ firstAtZero (changesOf bpms) = true ∧
    metronomeOk (changesOf bpms) = true ∧ ∀ c ∈ changesOf bpms, c.met = 4 := by
  have hsorted := isort_pairs_sorted bpms
  rw [changesOf_eq]
  unfold tempoOk at h
  simp only [Bool.and_eq_true] at h
  obtain ⟨⟨hhead, hpos⟩, _⟩ := h
  generalize isort (fun a b : Rat × Rat => decide (a.1 ≤ b.1)) bpms = s at hsorted hhead hpos
  cases s with
  | nil => simp at hhead
  | cons p l =>
    have hp0 : p.1 = 0 := by simpa using hhead
    have hnn : ∀ q ∈ p :: l, 0 ≤ q.1 := by
      intro q hq
      rcases List.mem_cons.mp hq with rfl | hq'
      · exact le_of_eq hp0.symm
      · have := (List.pairwise_cons.mp hsorted).1 q hq'
        rw [hp0] at this; exact this
    refine ⟨?_, sortedSnaps_map _ hsorted, ?_, metronomeOk_map _, ?_⟩
    · unfold wfChanges
      rw [List.all_eq_true]
      intro c hc
      obtain ⟨q, hq, rfl⟩ := List.mem_map.mp hc
      have hb := (List.all_eq_true.mp hpos) q hq
      have hq0 := hnn q hq
      have hr := snapOfBeat_beat_range q.1
      have hm : (0 : Int) ≤ (q.1 / 4).floor :=
        Rat.le_floor_iff.mpr (by simpa using div_nonneg hq0 (by norm_num : (0 : Rat) ≤ 4))
      simp only [wfChange, pairChange, Bool.and_eq_true]
      exact ⟨⟨⟨⟨⟨⟨decide_eq_true rfl, decide_eq_true (by norm_num)⟩, decide_eq_true (by norm_num)⟩, hb⟩,
        decide_eq_true hm⟩, decide_eq_true hr.1⟩, decide_eq_true hr.2⟩
    · simp only [List.map_cons, firstAtZero, pairChange, Bool.and_eq_true, decide_eq_true_eq, hp0]
      have hf : Rat.floor (0 : Rat) = 0 := by
        have := Rat.floor_intCast 0
        simpa using this
      simp [snapOfBeat, hf]
    · intro c hc
      obtain ⟨q, _, rfl⟩ := List.mem_map.mp hc
      rfl

end Reamber.SM
