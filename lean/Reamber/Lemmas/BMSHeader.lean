/-
C05 — the header of a written BMS file, read back (`_write_file_header` → line classifier → `_read_file_header`).
Dict facts ("the last line of a key wins", filtering commutes with filling), the classifier on a rendered
`#KEY value` line, and the header dict of header-like lines as the fill of their (key, value) pairs.
-/
import Reamber.Lemmas.BMSWrite

namespace Reamber.BMS

open Reamber.Timing

/-! ### insertion-ordered dicts -/

theorem dictGet_dictSet_same {α} (d : Dict α) (k : Bytes) (v : α) : dictGet? (dictSet d k v) k = some v := by
  unfold dictSet
  by_cases h : d.any (fun p => p.1 = k) = true
  · simp only [h, if_true, dictGet?]
    induction d with
    | nil => simp at h
    | cons a t ih =>
      by_cases ha : a.1 = k
      · simp [ha]
      · have ht : t.any (fun p => p.1 = k) = true := by simpa [ha] using h
        simp only [List.map_cons, ha, if_false, List.find?_cons, decide_false]
        exact ih ht
  · simp only [h, dictGet?]
    have hnone : d.find? (fun p => p.1 = k) = none := by
      rw [List.find?_eq_none]
      intro p hp hpk
      apply h
      rw [List.any_eq_true]
      exact ⟨p, hp, hpk⟩
    simp [List.find?_append, hnone]

theorem dictGet_dictSet_other {α} (d : Dict α) (k k' : Bytes) (v : α) (hne : k' ≠ k) :
    dictGet? (dictSet d k' v) k = dictGet? d k := by
  have hmap : ∀ d : Dict α, (d.map (fun p => if p.1 = k' then (k', v) else p)).find? (fun p => p.1 = k) =
      d.find? (fun p => p.1 = k) := by
    intro d
    induction d with
    | nil => rfl
    | cons a t ih =>
      by_cases ha : a.1 = k'
      · have : ¬ a.1 = k := by rw [ha]; exact hne
        simp only [List.map_cons, ha, if_true, List.find?_cons, hne, decide_false, this]
        exact ih
      · simp only [List.map_cons, ha, if_false, List.find?_cons]
        split
        · rfl
        · exact ih
  unfold dictSet dictGet?
  split
  · rw [hmap]
  · rw [List.find?_append]
    cases hf : d.find? (fun p => p.1 = k) with
    | some x => simp
    | none => simp [hne]

/-- the last line of a key wins -/
theorem dictGet_foldl_last {α} (k : Bytes) (v : α) (post : List (Bytes × α)) (hpost : ∀ kv ∈ post, kv.1 ≠ k) :
    ∀ (pre : List (Bytes × α)) (d0 : Dict α),
      dictGet? ((pre ++ (k, v) :: post).foldl (fun d kv => dictSet d kv.1 kv.2) d0) k = some v := by
  have hpostfold : ∀ (post : List (Bytes × α)), (∀ kv ∈ post, kv.1 ≠ k) → ∀ d : Dict α,
      dictGet? (post.foldl (fun d kv => dictSet d kv.1 kv.2) d) k = dictGet? d k := by
    intro post
    induction post with
    | nil => intro _ d; rfl
    | cons a t ih =>
      intro h d
      simp only [List.foldl_cons]
      rw [ih (fun kv hkv => h kv (by simp [hkv])), dictGet_dictSet_other _ _ _ _ (h a (by simp))]
  intro pre d0
  rw [List.foldl_append, List.foldl_cons, hpostfold post hpost, dictGet_dictSet_same]

theorem filter_dictSet {α} (P : Bytes → Bool) (d : Dict α) (k : Bytes) (v : α) :
    (dictSet d k v).filter (fun p => P p.1) =
      if P k then dictSet (d.filter (fun p => P p.1)) k v else d.filter (fun p => P p.1) := by
  have hany : P k = true → (d.filter (fun p => P p.1)).any (fun p => p.1 = k) = d.any (fun p => p.1 = k) := by
    intro hk
    induction d with
    | nil => rfl
    | cons a t ih =>
      by_cases ha : a.1 = k
      · have : P a.1 = true := by rw [ha]; exact hk
        simp [List.filter_cons, this, ha, hk]
      · by_cases hp : P a.1 = true
        · simp only [List.filter_cons, hp, if_true, List.any_cons, ha, decide_false, Bool.false_or]; exact ih
        · simp only [List.filter_cons, hp, List.any_cons, ha, decide_false, Bool.false_or]; exact ih
  have hmap : ∀ (d : Dict α), (d.map (fun p => if p.1 = k then (k, v) else p)).filter (fun p => P p.1) =
      if P k then (d.filter (fun p => P p.1)).map (fun p => if p.1 = k then (k, v) else p) else d.filter (fun p => P p.1) := by
    intro d
    induction d with
    | nil => simp
    | cons a t ih =>
      simp only [List.map_cons, List.filter_cons]
      by_cases ha : a.1 = k <;> by_cases hk : P k = true <;> by_cases hp : P a.1 = true <;> simp_all
  unfold dictSet
  by_cases hk : P k = true
  · simp only [hk, if_true, hany hk]
    split
    · rw [hmap]; simp [hk]
    · rw [List.filter_append]; simp [hk]
  · simp only [hk]
    split
    · rw [hmap]; simp [hk]
    · rw [List.filter_append]; simp [hk]

/-- filtering by key commutes with filling -/
theorem filter_foldl_dictSet {α} (P : Bytes → Bool) (kvs : List (Bytes × α)) : ∀ d : Dict α,
    (kvs.foldl (fun d kv => dictSet d kv.1 kv.2) d).filter (fun p => P p.1) =
      (kvs.filter (fun p => P p.1)).foldl (fun d kv => dictSet d kv.1 kv.2) (d.filter (fun p => P p.1)) := by
  induction kvs with
  | nil => intro d; rfl
  | cons a t ih =>
    intro d
    simp only [List.foldl_cons]
    rw [ih, filter_dictSet]
    by_cases hp : P a.1 = true
    · simp [List.filter_cons, hp]
    · simp [List.filter_cons, hp]

theorem dictGet_filter {α} (P : Bytes → Bool) (d : Dict α) (k : Bytes) (hk : P k = true) :
    dictGet? (d.filter (fun p => P p.1)) k = dictGet? d k := by
  unfold dictGet?
  congr 1
  induction d with
  | nil => rfl
  | cons a t ih =>
    by_cases ha : a.1 = k
    · have : P a.1 = true := by rw [ha]; exact hk
      simp [List.filter_cons, this, ha, hk]
    · by_cases hp : P a.1 = true
      · simp only [List.filter_cons, hp, if_true, List.find?_cons, ha, decide_false]; exact ih
      · simp only [List.filter_cons, hp, List.find?_cons, ha, decide_false]; exact ih

/-- `_read_file_header`'s tempo-table loop only looks at the `BPMxx` keys -/
theorem foldlE_exbpmStep_filter (D : Dict Bytes) : ∀ d0 : Dict Rat,
    foldlE exbpmStep d0 D = foldlE exbpmStep d0 (D.filter (fun p => isExbpmKey p.1)) := by
  induction D with
  | nil => intro d0; rfl
  | cons a t ih =>
    intro d0
    by_cases ha : isExbpmKey a.1 = true
    · simp only [List.filter_cons, ha, if_true, foldlE_cons]
      cases exbpmStep d0 a with
      | error e => rfl
      | ok d1 => exact ih d1
    · simp only [List.filter_cons, ha, foldlE_cons]
      have : exbpmStep d0 a = .ok d0 := by simp [exbpmStep, ha]
      rw [this]
      exact ih d0

/-! ### the classifier on a rendered `#KEY value` line -/

/-- `bytes.rstrip()` -/
def rstrip (s : Bytes) : Bytes := (lstrip s.reverse).reverse

theorem strip_eq_rstrip (s : Bytes) : strip s = rstrip (lstrip s) := rfl

theorem lstrip_append (X Y : Bytes) : lstrip (X ++ Y) = if lstrip X = [] then lstrip Y else lstrip X ++ Y := by
  induction X with
  | nil => simp [lstrip]
  | cons a t ih =>
    by_cases ha : isWs a = true
    · simp only [List.cons_append, lstrip, ha, if_true]; exact ih
    · simp [lstrip, ha]

theorem lstrip_of_all (X : Bytes) (h : ∀ c ∈ X, isWs c = false) : lstrip X = X := by
  cases X with
  | nil => rfl
  | cons a t => simp [lstrip, h a (by simp)]

theorem rstrip_append (A B : Bytes) : rstrip (A ++ B) = if rstrip B = [] then rstrip A else A ++ rstrip B := by
  unfold rstrip
  rw [List.reverse_append, lstrip_append]
  by_cases h : lstrip B.reverse = []
  · simp [h]
  · simp [h]

theorem rstrip_of_all (X : Bytes) (h : ∀ c ∈ X, isWs c = false) : rstrip X = X := by
  unfold rstrip
  rw [lstrip_of_all _ (by intro c hc; exact h c (List.mem_reverse.mp hc))]
  simp

theorem splitSpace1_at : ∀ (p q : Bytes), (∀ c ∈ p, c ≠ ' ') → splitSpace1 (p ++ ' ' :: q) = (p, some q)
  | [], q, _ => by simp [splitSpace1]
  | c :: t, q, h => by
    have hc : ¬ c = ' ' := h c (by simp)
    simp only [List.cons_append, splitSpace1, hc, if_false]
    rw [splitSpace1_at t q (fun x hx => h x (by simp [hx]))]

theorem isWs_space : isWs ' ' = true := by decide

theorem ne_space_of_not_ws {c : Char} (h : isWs c = false) : c ≠ ' ' := by
  intro e; subst e; simp [isWs_space] at h

/-- **A rendered `#KEY value` line** (key: no white space, first character not a digit): an entry `KEY ↦ value`
with trailing white space stripped; skipped when nothing but white space follows the key. -/
theorem classify_kv (a : Char) (r v : Bytes) (ha : isDigit a = false) (hk : ∀ c ∈ a :: r, isWs c = false) :
    classify ('#' :: (a :: r) ++ ' ' :: v) =
      if rstrip v = [] then .ok .skip else .ok (.header (a :: r) (rstrip v)) := by
  have hsharp : isWs '#' = false := by decide
  have hA : ∀ c ∈ '#' :: a :: r, isWs c = false := by
    intro c hc
    rcases List.mem_cons.mp hc with rfl | hc
    · exact hsharp
    · exact hk c hc
  have hstrip : strip ('#' :: (a :: r) ++ ' ' :: v) =
      if rstrip v = [] then '#' :: a :: r else '#' :: (a :: r) ++ ' ' :: rstrip v := by
    rw [strip_eq_rstrip]
    have hl : lstrip ('#' :: (a :: r) ++ ' ' :: v) = '#' :: (a :: r) ++ ' ' :: v := by simp [lstrip, hsharp]
    rw [hl]
    have : '#' :: (a :: r) ++ ' ' :: v = ('#' :: a :: r) ++ ([' '] ++ v) := by simp
    rw [this, rstrip_append, rstrip_append, rstrip_of_all _ hA]
    have hsp : rstrip [' '] = [] := by decide
    by_cases hv : rstrip v = []
    · simp [hv, hsp]
    · simp [hv]
  unfold classify
  rw [hstrip]
  by_cases hv : rstrip v = []
  · simp only [hv, if_true]
    have hns : ∀ c ∈ '#' :: a :: r, c ≠ ' ' := fun c hc => ne_space_of_not_ws (hA c hc)
    rw [splitSpace1_none _ hns]
    simp [ha]
  · simp only [hv, if_false]
    have hns : ∀ c ∈ '#' :: a :: r, c ≠ ' ' := fun c hc => ne_space_of_not_ws (hA c hc)
    have : '#' :: (a :: r) ++ ' ' :: rstrip v = ('#' :: a :: r) ++ ' ' :: rstrip v := by simp
    rw [this, splitSpace1_at _ _ hns]
    simp

/-- … with a value free of white space: exactly `KEY ↦ value` -/
theorem classify_kv_clean (a : Char) (r v : Bytes) (ha : isDigit a = false) (hk : ∀ c ∈ a :: r, isWs c = false)
    (hv : v ≠ []) (hvw : ∀ c ∈ v, isWs c = false) :
    classify ('#' :: (a :: r) ++ ' ' :: v) = .ok (.header (a :: r) v) := by
  rw [classify_kv a r v ha hk, rstrip_of_all v hvw]
  simp [hv]

/-! ### the header dict of header-like lines -/

/-- the `(key, value)` entry a line contributes to the header dict -/
def lineKV (l : Bytes) : Option (Bytes × Bytes) :=
  match classify l with
  | .ok (.header k v) => some (k, v)
  | _ => none

/-- **The header dict is the fill of the lines' entries, in line order** (later lines of a key win) -/
theorem foldlE_docStep_kvs (ls : List Bytes)
    (h : ∀ l ∈ ls, (∃ k v, classify l = .ok (.header k v)) ∨ classify l = .ok .skip) : ∀ doc0 : Doc,
    foldlE docStep doc0 ls =
      .ok ⟨(ls.filterMap lineKV).foldl (fun d kv => dictSet d kv.1 kv.2) doc0.header, doc0.notes⟩ := by
  induction ls with
  | nil => intro doc0; rfl
  | cons l t ih =>
    intro doc0
    rw [foldlE_cons]
    rcases h l (by simp) with ⟨k, v, hc⟩ | hc
    · have hkv : lineKV l = some (k, v) := by simp [lineKV, hc]
      simp only [docStep, hc, List.filterMap_cons, hkv, List.foldl_cons]
      exact ih (fun x hx => h x (by simp [hx])) _
    · have hkv : lineKV l = none := by simp [lineKV, hc]
      simp only [docStep, hc, List.filterMap_cons, hkv]
      exact ih (fun x hx => h x (by simp [hx])) _

/-! ### the header lines the writer emits, as `#KEY value` lines -/

def kvLine (kv : Bytes × Bytes) : Bytes := '#' :: kv.1 ++ ' ' :: kv.2

/-- a key the classifier reads back as it stands: no white space, first character not a digit -/
def KeyOK (k : Bytes) : Prop := ∃ a r, k = a :: r ∧ isDigit a = false ∧ ∀ c ∈ a :: r, isWs c = false

/-- what the reader's dict gets from the line of an entry: the value without trailing white space; nothing when
the value is blank -/
def kvRead (kv : Bytes × Bytes) : Option (Bytes × Bytes) := if rstrip kv.2 = [] then none else some (kv.1, rstrip kv.2)

theorem lineKV_kvLine (kv : Bytes × Bytes) (hk : KeyOK kv.1) : lineKV (kvLine kv) = kvRead kv := by
  obtain ⟨a, r, hkr, ha, hw⟩ := hk
  unfold lineKV kvLine kvRead
  rw [hkr, classify_kv a r kv.2 ha hw]
  by_cases hv : rstrip kv.2 = []
  · simp [hv]
  · simp [hv]

theorem kvLine_ok (kv : Bytes × Bytes) (hk : KeyOK kv.1) :
    (∃ k v, classify (kvLine kv) = .ok (.header k v)) ∨ classify (kvLine kv) = .ok .skip := by
  obtain ⟨a, r, hkr, ha, hw⟩ := hk
  unfold kvLine
  rw [hkr, classify_kv a r kv.2 ha hw]
  split
  · right; rfl
  · left; exact ⟨_, _, rfl⟩

theorem kvRead_clean (kv : Bytes × Bytes) (hv : kv.2 ≠ []) (hvw : ∀ c ∈ kv.2, isWs c = false) : kvRead kv = some kv := by
  unfold kvRead
  rw [rstrip_of_all _ hvw]
  simp [hv]

theorem kvRead_key (kv kv' : Bytes × Bytes) (h : kvRead kv = some kv') : kv'.1 = kv.1 := by
  unfold kvRead at h
  split at h
  · cases h
  · injection h with h; rw [← h]

theorem filterMap_kvRead_keys (L : List (Bytes × Bytes)) : ∀ kv' ∈ L.filterMap kvRead, ∃ kv ∈ L, kv'.1 = kv.1 := by
  intro kv' h
  obtain ⟨kv, hkv, hr⟩ := List.mem_filterMap.mp h
  exact ⟨kv, hkv, kvRead_key kv kv' hr⟩

theorem filterMap_kvRead_clean (L : List (Bytes × Bytes)) (h : ∀ kv ∈ L, kv.2 ≠ [] ∧ ∀ c ∈ kv.2, isWs c = false) :
    L.filterMap kvRead = L := by
  induction L with
  | nil => rfl
  | cons a t ih =>
    rw [List.filterMap_cons, kvRead_clean a (h a (by simp)).1 (h a (by simp)).2, ih (fun kv hkv => h kv (by simp [hkv]))]

/-- the header dict of a list of `#KEY value` lines followed by the blank separator line -/
theorem header_of_entries (entries : List (Bytes × Bytes)) (hk : ∀ kv ∈ entries, KeyOK kv.1) :
    foldlE docStep ⟨[], []⟩ (entries.map kvLine ++ [[]]) =
      .ok ⟨(entries.filterMap kvRead).foldl (fun d kv => dictSet d kv.1 kv.2) [], []⟩ := by
  have hok : ∀ l ∈ entries.map kvLine ++ [[]], (∃ k v, classify l = .ok (.header k v)) ∨ classify l = .ok .skip := by
    intro l hl
    rcases List.mem_append.mp hl with h | h
    · obtain ⟨kv, hkv, rfl⟩ := List.mem_map.mp h
      exact kvLine_ok kv (hk kv hkv)
    · simp only [List.mem_singleton] at h; subst h; right; rfl
  rw [foldlE_docStep_kvs _ hok]
  have : (entries.map kvLine ++ [[]]).filterMap lineKV = entries.filterMap kvRead := by
    rw [List.filterMap_append]
    have h1 : ([[]] : List Bytes).filterMap lineKV = [] := rfl
    rw [h1, List.append_nil, List.filterMap_map]
    apply List.filterMap_congr
    intro kv hkv
    exact lineKV_kvLine kv (hk kv hkv)
  rw [this]

/-- the entries `_write_file_header` renders, in line order (with an `#LNOBJ` id) -/
def headerEntries (c : WChart) (bpmText : Bytes) : List (Bytes × Bytes) :=
  [("TITLE".toList, c.title), ("ARTIST".toList, c.artist), ("BPM".toList, bpmText), ("PLAYLEVEL".toList, c.version)]
    ++ c.misc ++ [("LNOBJ".toList, c.lnEnd)] ++ bpmEntries c.bpms
    ++ c.samples.map (fun kv => ("WAV".toList ++ kv.1, kv.2))

theorem writeHeader_entries (c : WChart) (hl : List Bytes) (h : writeHeader c = .ok hl) (hln : c.lnEnd ≠ []) :
    ∃ b0 rest bpmText, c.bpms = b0 :: rest ∧ showExact b0.bpm = some bpmText ∧
      hl = (headerEntries c bpmText).map kvLine := by
  unfold writeHeader at h
  cases hb : c.bpms with
  | nil => simp [hb] at h
  | cons b0 rest =>
    simp only [hb] at h
    split at h
    · cases h
    · cases hs : showExact b0.bpm with
      | none => simp [hs] at h
      | some bpmText =>
        simp only [hs] at h
        injection h with h
        refine ⟨b0, rest, bpmText, rfl, hs, ?_⟩
        have hemp : c.lnEnd.isEmpty = false := by
          cases hc : c.lnEnd with
          | nil => exact absurd hc hln
          | cons _ _ => rfl
        rw [← h]
        have hkv : kvLine = fun kv => '#' :: kv.1 ++ ' ' :: kv.2 := rfl
        simp [headerEntries, hkv, bpmEntries, hemp, hb, Function.comp_def]

/-! ### `_read_file_header` on the written header -/

/-- what the chart's header fields must grant (C05's domain): other header keys are plain keys that are neither
`BPM` nor of the `BPMxx` form; sample ids without white space; a non-blank `#LNOBJ` id; fewer than 1295 tempo rows
(the writer's own assert allows 1294), non-negative tempos -/
structure HeaderOK (c : WChart) : Prop where
  misc : ∀ kv ∈ c.misc, KeyOK kv.1 ∧ kv.1 ≠ "BPM".toList ∧ isExbpmKey kv.1 = false
  samples : ∀ kv ∈ c.samples, ∀ ch ∈ kv.1, isWs ch = false
  lnEnd : c.lnEnd ≠ [] ∧ ∀ ch ∈ c.lnEnd, isWs ch = false
  nbpm : c.bpms.length < 1295
  bpmpos : ∀ b ∈ c.bpms, 0 ≤ b.bpm

theorem showFixed_clean (k : Nat) (q : Rat) : showFixed k q ≠ [] ∧ ∀ c ∈ showFixed k q, isWs c = false := by
  have hd : ∀ n, showNat n ≠ [] ∧ ∀ c ∈ showNat n, isWs c = false := by
    intro n
    obtain ⟨h1, h2, _⟩ := showNat_spec n
    exact ⟨h1, fun c hc => (isDigit_facts c (h2 c hc)).1⟩
  unfold showFixed
  simp only []
  constructor
  · intro h
    simp only [List.append_eq_nil_iff] at h
    exact (hd _).1 h.1.2
  · intro c hc
    simp only [List.mem_append] at hc
    rcases hc with (hc | hc) | hc
    · split at hc
      · simp only [List.mem_singleton] at hc; subst hc; decide
      · cases hc
    · exact (hd _).2 c hc
    · split at hc
      · cases hc
      · rcases List.mem_cons.mp hc with rfl | hc
        · decide
        · simp only [padLeft, List.mem_append, List.mem_replicate] at hc
          rcases hc with ⟨_, rfl⟩ | hc
          · decide
          · exact (hd _).2 c hc

theorem bpmEntries_facts (rows : List BcOff) (hn : rows.length < 1295) :
    (∀ kv ∈ bpmEntries rows, KeyOK kv.1 ∧ isExbpmKey kv.1 = true ∧ kv.1 ≠ "BPM".toList ∧ kv.1 ≠ "LNOBJ".toList ∧
      kv.2 ≠ [] ∧ ∀ c ∈ kv.2, isWs c = false) ∧
    ((bpmEntries rows).map (·.1)).Nodup := by
  constructor
  · intro kv hkv
    simp only [bpmEntries, List.mem_map] at hkv
    obtain ⟨p, hp, rfl⟩ := hkv
    obtain ⟨h1, h2, _⟩ := zipIdxFrom_mem rows 1 p hp
    obtain ⟨_, hlen, hall, _⟩ := base36_roundtrip p.1 (by omega)
    have hws : ∀ c ∈ base36 p.1, isWs c = false := by
      intro c hc
      exact (isB36_ne (List.all_eq_true.mp hall c hc)).2.2
    refine ⟨⟨'B', "PM".toList ++ base36 p.1, rfl, by decide, ?_⟩, ?_, ?_, ?_, (showFixed_clean _ _).1, (showFixed_clean _ _).2⟩
    · intro c hc
      rcases List.mem_append.mp (show c ∈ "BPM".toList ++ base36 p.1 from hc) with h | h
      · have : ∀ c ∈ "BPM".toList, isWs c = false := by decide
        exact this c h
      · exact hws c h
    · simp [isExbpmKey, base36, upper]
    · intro e
      have := congrArg List.length e
      simp [hlen] at this
    · intro e
      have := congrArg (fun l => l.take 1) e
      simp at this
  · have : (bpmEntries rows).map (·.1) = ((zipIdxFrom 1 rows).map (·.1)).map (fun i => "BPM".toList ++ base36 i) := by
      simp [bpmEntries, List.map_map, Function.comp_def]
    rw [this, zipIdxFrom_fst, List.map_map]
    have h2 := base36_ids_nodup rows.length (by omega)
    have e : (List.range rows.length).map ((fun i => "BPM".toList ++ base36 i) ∘ fun i => 1 + i) =
        ((List.range rows.length).map (fun i => base36 (i + 1))).map (fun b => "BPM".toList ++ b) := by
      rw [List.map_map]
      apply List.map_congr_left; intro i _; simp [Function.comp, Nat.add_comm]
    rw [e]
    exact h2.map (fun a b hab => List.append_cancel_left hab)

theorem keyOK_consts : KeyOK "TITLE".toList ∧ KeyOK "ARTIST".toList ∧ KeyOK "BPM".toList ∧ KeyOK "PLAYLEVEL".toList ∧
    KeyOK "LNOBJ".toList :=
  ⟨⟨'T', "ITLE".toList, rfl, by decide, by decide⟩, ⟨'A', "RTIST".toList, rfl, by decide, by decide⟩,
   ⟨'B', "PM".toList, rfl, by decide, by decide⟩, ⟨'P', "LAYLEVEL".toList, rfl, by decide, by decide⟩,
   ⟨'L', "NOBJ".toList, rfl, by decide, by decide⟩⟩

/-- **The written header, read back.**  For a chart in the header domain (`HeaderOK`) whose header the writer can
render (`writeHeader c = ok hl`: a first tempo row `b0` with a finite decimal text): the header dict `H` of the
header lines (as `written_file_objects` exposes it) has `LNOBJ ↦` the chart's `#LNOBJ` id — the rendered
`#LNOBJ` line comes after the other-keys block, so an `LNOBJ` entry there is overridden —, and `_read_file_header`
succeeds on it with the header tempo `b0.bpm` (`parseFloat ∘ str`, `parseFloat_showExact`) and the tempo table
`base36 i ↦ roundDec 3 bpm_i` (`exbpm_table_readback`), whatever `#TITLE` / `#ARTIST` / `#PLAYLEVEL` / other keys and
`#WAV` lines say. -/
theorem written_header_read (c : WChart) (hH : HeaderOK c) (hl : List Bytes) (hhdr : writeHeader c = .ok hl)
    (H : Dict Bytes) (hfold : foldlE docStep ⟨[], []⟩ (hl ++ [[]]) = .ok ⟨H, []⟩) :
    dictGet? H "LNOBJ".toList = some c.lnEnd ∧
    ∃ b0 hdr, c.bpms.head? = some b0 ∧ readHeader H = .ok hdr ∧ hdr.bpm0 = b0.bpm ∧
      hdr.exbpms = (zipIdxFrom 1 c.bpms).map (fun p => (base36 p.1, roundDec 3 p.2.bpm)) := by
  obtain ⟨b0, rest, bpmText, hb, hs, rfl⟩ := writeHeader_entries c hl hhdr hH.lnEnd.1
  obtain ⟨kT, kA, kB, kP, kL⟩ := keyOK_consts
  obtain ⟨hE, hEnd⟩ := bpmEntries_facts c.bpms hH.nbpm
  have hW : ∀ kv ∈ c.samples.map (fun kv => ("WAV".toList ++ kv.1, kv.2)),
      KeyOK kv.1 ∧ isExbpmKey kv.1 = false ∧ kv.1 ≠ "BPM".toList ∧ kv.1 ≠ "LNOBJ".toList := by
    intro kv hkv
    obtain ⟨q, hq, rfl⟩ := List.mem_map.mp hkv
    refine ⟨⟨'W', "AV".toList ++ q.1, rfl, by decide, ?_⟩, ?_, ?_, ?_⟩
    · intro ch hch
      rcases List.mem_append.mp (show ch ∈ "WAV".toList ++ q.1 from hch) with h | h
      · have : ∀ c ∈ "WAV".toList, isWs c = false := by decide
        exact this ch h
      · exact hH.samples q hq ch h
    · simp [isExbpmKey, upper]
    · intro e
      have := congrArg (fun l => l.take 1) e
      simp at this
    · intro e
      have := congrArg (fun l => l.take 1) e
      simp at this
  -- every entry has a plain key
  have hkeys : ∀ kv ∈ headerEntries c bpmText, KeyOK kv.1 := by
    intro kv hkv
    simp only [headerEntries, List.mem_append, List.mem_cons, List.not_mem_nil, or_false] at hkv
    rcases hkv with (((((rfl | rfl | rfl | rfl)) | h) | rfl) | h) | h
    · exact kT
    · exact kA
    · exact kB
    · exact kP
    · exact (hH.misc kv h).1
    · exact kL
    · exact (hE kv h).1
    · exact (hW kv h).1
  rw [header_of_entries _ hkeys] at hfold
  injection hfold with hfold
  injection hfold with hHeq _
  -- the clean entries are read back as they stand
  have hbpmText : bpmText ≠ [] ∧ ∀ ch ∈ bpmText, isWs ch = false := by
    obtain ⟨k', _, rfl⟩ := showExactAux_spec b0.bpm 400 0 bpmText hs
    exact showFixed_clean _ _
  have rB : kvRead ("BPM".toList, bpmText) = some ("BPM".toList, bpmText) := kvRead_clean _ hbpmText.1 hbpmText.2
  have rL : kvRead ("LNOBJ".toList, c.lnEnd) = some ("LNOBJ".toList, c.lnEnd) := kvRead_clean _ hH.lnEnd.1 hH.lnEnd.2
  have rE : (bpmEntries c.bpms).filterMap kvRead = bpmEntries c.bpms :=
    filterMap_kvRead_clean _ (fun kv hkv => ⟨(hE kv hkv).2.2.2.2.1, (hE kv hkv).2.2.2.2.2⟩)
  -- the shape of the dict's fill list
  obtain ⟨W', hW'⟩ : ∃ W', W' = (c.samples.map (fun kv => ("WAV".toList ++ kv.1, kv.2))).filterMap kvRead := ⟨_, rfl⟩
  obtain ⟨M', hM'⟩ : ∃ M', M' = (("PLAYLEVEL".toList, c.version) :: c.misc).filterMap kvRead := ⟨_, rfl⟩
  obtain ⟨A', hA'⟩ : ∃ A', A' = [("TITLE".toList, c.title), ("ARTIST".toList, c.artist)].filterMap kvRead := ⟨_, rfl⟩
  have hkvs : (headerEntries c bpmText).filterMap kvRead =
      A' ++ ("BPM".toList, bpmText) :: (M' ++ ("LNOBJ".toList, c.lnEnd) :: (bpmEntries c.bpms ++ W')) := by
    have : headerEntries c bpmText = [("TITLE".toList, c.title), ("ARTIST".toList, c.artist)] ++
        ("BPM".toList, bpmText) :: ((("PLAYLEVEL".toList, c.version) :: c.misc) ++
          ("LNOBJ".toList, c.lnEnd) :: (bpmEntries c.bpms ++ c.samples.map (fun kv => ("WAV".toList ++ kv.1, kv.2)))) := by
      simp [headerEntries]
    have mid : ∀ (pre post : List (Bytes × Bytes)) (x : Bytes × Bytes), kvRead x = some x →
        (pre ++ x :: post).filterMap kvRead = pre.filterMap kvRead ++ x :: post.filterMap kvRead := by
      intro pre post x hx
      rw [List.filterMap_append, List.filterMap_cons, hx]
    rw [this, mid _ _ _ rB, mid _ _ _ rL, List.filterMap_append, rE, ← hW', ← hM', ← hA']
  have hW'k : ∀ kv ∈ W', isExbpmKey kv.1 = false ∧ kv.1 ≠ "BPM".toList ∧ kv.1 ≠ "LNOBJ".toList := by
    intro kv hkv
    rw [hW'] at hkv
    obtain ⟨kv0, h0, e⟩ := filterMap_kvRead_keys _ kv hkv
    rw [e]; exact (hW kv0 h0).2
  have hM'k : ∀ kv ∈ M', isExbpmKey kv.1 = false ∧ kv.1 ≠ "BPM".toList := by
    intro kv hkv
    rw [hM'] at hkv
    obtain ⟨kv0, h0, e⟩ := filterMap_kvRead_keys _ kv hkv
    rw [e]
    rcases List.mem_cons.mp h0 with rfl | h0
    · exact ⟨by show isExbpmKey "PLAYLEVEL".toList = false; decide, by show "PLAYLEVEL".toList ≠ "BPM".toList; decide⟩
    · exact ⟨(hH.misc kv0 h0).2.2, (hH.misc kv0 h0).2.1⟩
  have hA'k : ∀ kv ∈ A', isExbpmKey kv.1 = false := by
    intro kv hkv
    rw [hA'] at hkv
    obtain ⟨kv0, h0, e⟩ := filterMap_kvRead_keys _ kv hkv
    rw [e]
    simp only [List.mem_cons, List.not_mem_nil, or_false] at h0
    rcases h0 with rfl | rfl
    · show isExbpmKey "TITLE".toList = false; decide
    · show isExbpmKey "ARTIST".toList = false; decide
  rw [hkvs] at hHeq
  -- LNOBJ: the rendered line wins
  have hLN : dictGet? H "LNOBJ".toList = some c.lnEnd := by
    rw [← hHeq]
    have : A' ++ ("BPM".toList, bpmText) :: (M' ++ ("LNOBJ".toList, c.lnEnd) :: (bpmEntries c.bpms ++ W')) =
        (A' ++ ("BPM".toList, bpmText) :: M') ++ ("LNOBJ".toList, c.lnEnd) :: (bpmEntries c.bpms ++ W') := by simp
    rw [this]
    apply dictGet_foldl_last
    intro kv hkv
    rcases List.mem_append.mp hkv with h | h
    · exact (hE kv h).2.2.2.1
    · exact (hW'k kv h).2.2
  -- BPM: the rendered line wins
  have hBPM : dictGet? H "BPM".toList = some bpmText := by
    rw [← hHeq]
    apply dictGet_foldl_last
    intro kv hkv
    rcases List.mem_append.mp hkv with h | h
    · exact (hM'k kv h).2
    · rcases List.mem_cons.mp h with rfl | h
      · show "LNOBJ".toList ≠ "BPM".toList; decide
      · rcases List.mem_append.mp h with h | h
        · exact (hE kv h).2.2.1
        · exact (hW'k kv h).2.1
  -- the tempo table
  have hfilt : H.filter (fun p => isExbpmKey p.1) = bpmEntries c.bpms := by
    rw [← hHeq, filter_foldl_dictSet]
    have : (A' ++ ("BPM".toList, bpmText) :: (M' ++ ("LNOBJ".toList, c.lnEnd) :: (bpmEntries c.bpms ++ W'))).filter
        (fun p => isExbpmKey p.1) = bpmEntries c.bpms := by
      have f1 : A'.filter (fun p => isExbpmKey p.1) = [] := by
        rw [List.filter_eq_nil_iff]; intro kv hkv; simp [hA'k kv hkv]
      have f2 : M'.filter (fun p => isExbpmKey p.1) = [] := by
        rw [List.filter_eq_nil_iff]; intro kv hkv; simp [(hM'k kv hkv).1]
      have f3 : W'.filter (fun p => isExbpmKey p.1) = [] := by
        rw [List.filter_eq_nil_iff]; intro kv hkv; simp [(hW'k kv hkv).1]
      have f4 : (bpmEntries c.bpms).filter (fun p => isExbpmKey p.1) = bpmEntries c.bpms := by
        rw [List.filter_eq_self]; intro kv hkv; exact (hE kv hkv).2.1
      have b1 : isExbpmKey "BPM".toList = false := by decide
      have b2 : isExbpmKey "LNOBJ".toList = false := by decide
      simp only [List.filter_append, List.filter_cons, f1, f2, f3, f4, b1, b2, List.nil_append, List.append_nil,
        Bool.false_eq_true, if_false]
    rw [this]
    exact (dict_of_distinct _ hEnd).1
  have hex := (exbpm_table_readback c.bpms hH.nbpm hH.bpmpos).1
  have hparse : parseFloat bpmText = some b0.bpm :=
    parseFloat_showExact b0.bpm (hH.bpmpos b0 (by rw [hb]; simp)) bpmText hs
  have hrest : dictGet? (H.filter (fun kv => !(isExbpmKey kv.1) && !(isWavKey kv.1))) "BPM".toList = some bpmText := by
    rw [dictGet_filter (fun k => !(isExbpmKey k) && !(isWavKey k)) H "BPM".toList (by decide), hBPM]
  refine ⟨hLN, b0, ?_⟩
  have hfe : foldlE exbpmStep [] H = .ok ((zipIdxFrom 1 c.bpms).map (fun p => (base36 p.1, roundDec 3 p.2.bpm))) := by
    rw [foldlE_exbpmStep_filter, hfilt]; exact hex
  unfold readHeader
  simp only [hfe, bind, Except.bind, hrest, hparse]
  exact ⟨_, by rw [hb]; rfl, rfl, rfl, rfl⟩

end Reamber.BMS
