/-
C05 — the header of a written BMS file, read back (`_write_file_header` → line classifier → `_read_file_header`).
Dict facts ("the last line of a key wins", filtering commutes with filling), the classifier on a rendered
`#KEY value` line, and the header dict of header-like lines as the fill of their (key, value) pairs.
-/
import Reamber.Lemmas.BMSWrite

namespace Reamber.BMS

open Reamber.Timing

/-! ### insertion-ordered dicts -/

theorem dictGet_dictSet_same {α} (d : Dict α) (k : Bytes) (v : α) : dictGet? (dictSet d k v) k = some v := by
  unfold dictSet
  by_cases h : d.any (fun p => p.1 = k) = true
  · simp only [h, if_true, dictGet?]
    induction d with
    | nil => simp at h
    | cons a t ih =>
      by_cases ha : a.1 = k
      · simp [ha]
      · have ht : t.any (fun p => p.1 = k) = true := by simpa [ha] using h
        simp only [List.map_cons, ha, if_false, List.find?_cons, decide_false]
        exact ih ht
  · simp only [h, dictGet?]
    have hnone : d.find? (fun p => p.1 = k) = none := by
      rw [List.find?_eq_none]
      intro p hp hpk
      apply h
      rw [List.any_eq_true]
      exact ⟨p, hp, hpk⟩
    simp [List.find?_append, hnone]

theorem dictGet_dictSet_other {α} (d : Dict α) (k k' : Bytes) (v : α) (hne : k' ≠ k) :
    dictGet? (dictSet d k' v) k = dictGet? d k := by
  have hmap : ∀ d : Dict α, (d.map (fun p => if p.1 = k' then (k', v) else p)).find? (fun p => p.1 = k) =
      d.find? (fun p => p.1 = k) := by
    intro d
    induction d with
    | nil => rfl
    | cons a t ih =>
      by_cases ha : a.1 = k'
      · have : ¬ a.1 = k := by rw [ha]; exact hne
        simp only [List.map_cons, ha, if_true, List.find?_cons, hne, decide_false, this]
        exact ih
      · simp only [List.map_cons, ha, if_false, List.find?_cons]
        split
        · rfl
        · exact ih
  unfold dictSet dictGet?
  split
  · rw [hmap]
  · rw [List.find?_append]
    cases hf : d.find? (fun p => p.1 = k) with
    | some x => simp
    | none => simp [hne]

/-- the last line of a key wins -/
theorem dictGet_foldl_last {α} (k : Bytes) (v : α) (post : List (Bytes × α)) (hpost : ∀ kv ∈ post, kv.1 ≠ k) :
    ∀ (pre : List (Bytes × α)) (d0 : Dict α),
      dictGet? ((pre ++ (k, v) :: post).foldl (fun d kv => dictSet d kv.1 kv.2) d0) k = some v := by
  have hpostfold : ∀ (post : List (Bytes × α)), (∀ kv ∈ post, kv.1 ≠ k) → ∀ d : Dict α,
      dictGet? (post.foldl (fun d kv => dictSet d kv.1 kv.2) d) k = dictGet? d k := by
    intro post
    induction post with
    | nil => intro _ d; rfl
    | cons a t ih =>
      intro h d
      simp only [List.foldl_cons]
      rw [ih (fun kv hkv => h kv (by simp [hkv])), dictGet_dictSet_other _ _ _ _ (h a (by simp))]
  intro pre d0
  rw [List.foldl_append, List.foldl_cons, hpostfold post hpost, dictGet_dictSet_same]

theorem filter_dictSet {α} (P : Bytes → Bool) (d : Dict α) (k : Bytes) (v : α) :
    (dictSet d k v).filter (fun p => P p.1) =
      if P k then dictSet (d.filter (fun p => P p.1)) k v else d.filter (fun p => P p.1) := by
  have hany : P k = true → (d.filter (fun p => P p.1)).any (fun p => p.1 = k) = d.any (fun p => p.1 = k) := by
    intro hk
    induction d with
    | nil => rfl
    | cons a t ih =>
      by_cases ha : a.1 = k
      · have : P a.1 = true := by rw [ha]; exact hk
        simp [List.filter_cons, this, ha, hk]
      · by_cases hp : P a.1 = true
        · simp only [List.filter_cons, hp, if_true, List.any_cons, ha, decide_false, Bool.false_or]; exact ih
        · simp only [List.filter_cons, hp, List.any_cons, ha, decide_false, Bool.false_or]; exact ih
  have hmap : ∀ (d : Dict α), (d.map (fun p => if p.1 = k then (k, v) else p)).filter (fun p => P p.1) =
      if P k then (d.filter (fun p => P p.1)).map (fun p => if p.1 = k then (k, v) else p) else d.filter (fun p => P p.1) := by
    intro d
    induction d with
    | nil => simp
    | cons a t ih =>
      simp only [List.map_cons, List.filter_cons]
      by_cases ha : a.1 = k <;> by_cases hk : P k = true <;> by_cases hp : P a.1 = true <;> simp_all
  unfold dictSet
  by_cases hk : P k = true
  · simp only [hk, if_true, hany hk]
    split
    · rw [hmap]; simp [hk]
    · rw [List.filter_append]; simp [hk]
  · simp only [hk]
    split
    · rw [hmap]; simp [hk]
    · rw [List.filter_append]; simp [hk]

/-- filtering by key commutes with filling -/
theorem filter_foldl_dictSet {α} (P : Bytes → Bool) (kvs : List (Bytes × α)) : ∀ d : Dict α,
    (kvs.foldl (fun d kv => dictSet d kv.1 kv.2) d).filter (fun p => P p.1) =
      (kvs.filter (fun p => P p.1)).foldl (fun d kv => dictSet d kv.1 kv.2) (d.filter (fun p => P p.1)) := by
  induction kvs with
  | nil => intro d; rfl
  | cons a t ih =>
    intro d
    simp only [List.foldl_cons]
    rw [ih, filter_dictSet]
    by_cases hp : P a.1 = true
    · simp [List.filter_cons, hp]
    · simp [List.filter_cons, hp]

theorem dictGet_filter {α} (P : Bytes → Bool) (d : Dict α) (k : Bytes) (hk : P k = true) :
    dictGet? (d.filter (fun p => P p.1)) k = dictGet? d k := by
  unfold dictGet?
  congr 1
  induction d with
  | nil => rfl
  | cons a t ih =>
    by_cases ha : a.1 = k
    · have : P a.1 = true := by rw [ha]; exact hk
      simp [List.filter_cons, this, ha, hk]
    · by_cases hp : P a.1 = true
      · simp only [List.filter_cons, hp, if_true, List.find?_cons, ha, decide_false]; exact ih
      · simp only [List.filter_cons, hp, List.find?_cons, ha, decide_false]; exact ih

/-- `_read_file_header`'s tempo-table loop only looks at the `BPMxx` keys -/
theorem foldlE_exbpmStep_filter (D : Dict Bytes) : ∀ d0 : Dict Rat,
    foldlE exbpmStep d0 D = foldlE exbpmStep d0 (D.filter (fun p => isExbpmKey p.1)) := by
  induction D with
  | nil => intro d0; rfl
  | cons a t ih =>
    intro d0
    by_cases ha : isExbpmKey a.1 = true
    · simp only [List.filter_cons, ha, if_true, foldlE_cons]
      cases exbpmStep d0 a with
      | error e => rfl
      | ok d1 => exact ih d1
    · simp only [List.filter_cons, ha, foldlE_cons]
      have : exbpmStep d0 a = .ok d0 := by simp [exbpmStep, ha]
      rw [this]
      exact ih d0

/-! ### the classifier on a rendered `#KEY value` line -/

/-- `bytes.rstrip()` -/
def rstrip (s : Bytes) : Bytes := (lstrip s.reverse).reverse

theorem strip_eq_rstrip (s : Bytes) : strip s = rstrip (lstrip s) := rfl

theorem lstrip_append (X Y : Bytes) : lstrip (X ++ Y) = if lstrip X = [] then lstrip Y else lstrip X ++ Y := by
  induction X with
  | nil => simp [lstrip]
  | cons a t ih =>
    by_cases ha : isWs a = true
    · simp only [List.cons_append, lstrip, ha, if_true]; exact ih
    · simp [lstrip, ha]

theorem lstrip_of_all (X : Bytes) (h : ∀ c ∈ X, isWs c = false) : lstrip X = X := by
  cases X with
  | nil => rfl
  | cons a t => simp [lstrip, h a (by simp)]

theorem rstrip_append (A B : Bytes) : rstrip (A ++ B) = if rstrip B = [] then rstrip A else A ++ rstrip B := by
  unfold rstrip
  rw [List.reverse_append, lstrip_append]
  by_cases h : lstrip B.reverse = []
  · simp [h]
  · simp [h]

theorem rstrip_of_all (X : Bytes) (h : ∀ c ∈ X, isWs c = false) : rstrip X = X := by
  unfold rstrip
  rw [lstrip_of_all _ (by intro c hc; exact h c (List.mem_reverse.mp hc))]
  simp

theorem splitSpace1_at : ∀ (p q : Bytes), (∀ c ∈ p, c ≠ ' ') → splitSpace1 (p ++ ' ' :: q) = (p, some q)
  | [], q, _ => by simp [splitSpace1]
  | c :: t, q, h => by
    have hc : ¬ c = ' ' := h c (by simp)
    simp only [List.cons_append, splitSpace1, hc, if_false]
    rw [splitSpace1_at t q (fun x hx => h x (by simp [hx]))]

theorem isWs_space : isWs ' ' = true := by decide

theorem ne_space_of_not_ws {c : Char} (h : isWs c = false) : c ≠ ' ' := by
  intro e; subst e; simp [isWs_space] at h

/-- **A rendered `#KEY value` line** (key: no white space, first character not a digit): an entry `KEY ↦ value`
with trailing white space stripped; skipped when nothing but white space follows the key. -/
theorem classify_kv (a : Char) (r v : Bytes) (ha : isDigit a = false) (hk : ∀ c ∈ a :: r, isWs c = false) :
    classify ('#' :: (a :: r) ++ ' ' :: v) =
      if rstrip v = [] then .ok .skip else .ok (.header (a :: r) (rstrip v)) := by
  have hsharp : isWs '#' = false := by decide
  have hA : ∀ c ∈ '#' :: a :: r, isWs c = false := by
    intro c hc
    rcases List.mem_cons.mp hc with rfl | hc
    · exact hsharp
    · exact hk c hc
  have hstrip : strip ('#' :: (a :: r) ++ ' ' :: v) =
      if rstrip v = [] then '#' :: a :: r else '#' :: (a :: r) ++ ' ' :: rstrip v := by
    rw [strip_eq_rstrip]
    have hl : lstrip ('#' :: (a :: r) ++ ' ' :: v) = '#' :: (a :: r) ++ ' ' :: v := by simp [lstrip, hsharp]
    rw [hl]
    have : '#' :: (a :: r) ++ ' ' :: v = ('#' :: a :: r) ++ ([' '] ++ v) := by simp
    rw [this, rstrip_append, rstrip_append, rstrip_of_all _ hA]
    have hsp : rstrip [' '] = [] := by decide
    by_cases hv : rstrip v = []
    · simp [hv, hsp]
    · simp [hv]
  unfold classify
  rw [hstrip]
  by_cases hv : rstrip v = []
  · simp only [hv, if_true]
    have hns : ∀ c ∈ '#' :: a :: r, c ≠ ' ' := fun c hc => ne_space_of_not_ws (hA c hc)
    rw [splitSpace1_none _ hns]
    simp [ha]
  · simp only [hv, if_false]
    have hns : ∀ c ∈ '#' :: a :: r, c ≠ ' ' := fun c hc => ne_space_of_not_ws (hA c hc)
    have : '#' :: (a :: r) ++ ' ' :: rstrip v = ('#' :: a :: r) ++ ' ' :: rstrip v := by simp
    rw [this, splitSpace1_at _ _ hns]
    simp

/-- … with a value free of white space: exactly `KEY ↦ value` -/
theorem classify_kv_clean (a : Char) (r v : Bytes) (ha : isDigit a = false) (hk : ∀ c ∈ a :: r, isWs c = false)
    (hv : v ≠ []) (hvw : ∀ c ∈ v, isWs c = false) :
    classify ('#' :: (a :: r) ++ ' ' :: v) = .ok (.header (a :: r) v) := by
  rw [classify_kv a r v ha hk, rstrip_of_all v hvw]
  simp [hv]

/-! ### the header dict of header-like lines -/

/-- the `(key, value)` entry a line contributes to the header dict -/
def lineKV (l : Bytes) : Option (Bytes × Bytes) :=
  match classify l with
  | .ok (.header k v) => some (k, v)
  | _ => none

/-- **The header dict is the fill of the lines' entries, in line order** (later lines of a key win) -/
theorem foldlE_docStep_kvs (ls : List Bytes)
    (h : ∀ l ∈ ls, (∃ k v, classify l = .ok (.header k v)) ∨ classify l = .ok .skip) : ∀ doc0 : Doc,
    foldlE docStep doc0 ls =
      .ok ⟨(ls.filterMap lineKV).foldl (fun d kv => dictSet d kv.1 kv.2) doc0.header, doc0.notes⟩ := by
  induction ls with
  | nil => intro doc0; rfl
  | cons l t ih =>
    intro doc0
    rw [foldlE_cons]
    rcases h l (by simp) with ⟨k, v, hc⟩ | hc
    · have hkv : lineKV l = some (k, v) := by simp [lineKV, hc]
      simp only [docStep, hc, List.filterMap_cons, hkv, List.foldl_cons]
      exact ih (fun x hx => h x (by simp [hx])) _
    · have hkv : lineKV l = none := by simp [lineKV, hc]
      simp only [docStep, hc, List.filterMap_cons, hkv]
      exact ih (fun x hx => h x (by simp [hx])) _

/-! ### the header lines the writer emits, as `#KEY value` lines -/

def kvLine (kv : Bytes × Bytes) : Bytes := '#' :: kv.1 ++ ' ' :: kv.2

/-- a key the classifier reads back as it stands: no white space, first character not a digit -/
def KeyOK (k : Bytes) : Prop := ∃ a r, k = a :: r ∧ isDigit a = false ∧ ∀ c ∈ a :: r, isWs c = false

/-- what the reader's dict gets from the line of an entry: the value without trailing white space; nothing when
the value is blank -/
def kvRead (kv : Bytes × Bytes) : Option (Bytes × Bytes) := if rstrip kv.2 = [] then none else some (kv.1, rstrip kv.2)

theorem lineKV_kvLine (kv : Bytes × Bytes) (hk : KeyOK kv.1) : lineKV (kvLine kv) = kvRead kv := by
  obtain ⟨a, r, hkr, ha, hw⟩ := hk
  unfold lineKV kvLine kvRead
  rw [hkr, classify_kv a r kv.2 ha hw]
  by_cases hv : rstrip kv.2 = []
  · simp [hv]
  · simp [hv]

theorem kvLine_ok (kv : Bytes × Bytes) (hk : KeyOK kv.1) :
    (∃ k v, classify (kvLine kv) = .ok (.header k v)) ∨ classify (kvLine kv) = .ok .skip := by
  obtain ⟨a, r, hkr, ha, hw⟩ := hk
  unfold kvLine
  rw [hkr, classify_kv a r kv.2 ha hw]
  split
  · right; rfl
  · left; exact ⟨_, _, rfl⟩

theorem kvRead_clean (kv : Bytes × Bytes) (hv : kv.2 ≠ []) (hvw : ∀ c ∈ kv.2, isWs c = false) : kvRead kv = some kv := by
  unfold kvRead
  rw [rstrip_of_all _ hvw]
  simp [hv]

theorem kvRead_key (kv kv' : Bytes × Bytes) (h : kvRead kv = some kv') : kv'.1 = kv.1 := by
  unfold kvRead at h
  split at h
  · cases h
  · injection h with h; rw [← h]

theorem filterMap_kvRead_keys (L : List (Bytes × Bytes)) : ∀ kv' ∈ L.filterMap kvRead, ∃ kv ∈ L, kv'.1 = kv.1 := by
  intro kv' h
  obtain ⟨kv, hkv, hr⟩ := List.mem_filterMap.mp h
  exact ⟨kv, hkv, kvRead_key kv kv' hr⟩

theorem filterMap_kvRead_clean (L : List (Bytes × Bytes)) (h : ∀ kv ∈ L, kv.2 ≠ [] ∧ ∀ c ∈ kv.2, isWs c = false) :
    L.filterMap kvRead = L := by
  induction L with
  | nil => rfl
  | cons a t ih =>
    rw [List.filterMap_cons, kvRead_clean a (h a (by simp)).1 (h a (by simp)).2, ih (fun kv hkv => h kv (by simp [hkv]))]

/-- the header dict of a list of `#KEY value` lines followed by the blank separator line -/
theorem header_of_entries (entries : List (Bytes × Bytes)) (hk : ∀ kv ∈ entries, KeyOK kv.1) :
    foldlE docStep ⟨[], []⟩ (entries.map kvLine ++ [[]]) =
      .ok ⟨(entries.filterMap kvRead).foldl (fun d kv => dictSet d kv.1 kv.2) [], []⟩ := by
  have hok : ∀ l ∈ entries.map kvLine ++ [[]], (∃ k v, classify l = .ok (.header k v)) ∨ classify l = .ok .skip := by
    intro l hl
    rcases List.mem_append.mp hl with h | h
    · obtain ⟨kv, hkv, rfl⟩ := List.mem_map.mp h
      exact kvLine_ok kv (hk kv hkv)
    · simp only [List.mem_singleton] at h; subst h; right; rfl
  rw [foldlE_docStep_kvs _ hok]
  have : (entries.map kvLine ++ [[]]).filterMap lineKV = entries.filterMap kvRead := by
    rw [List.filterMap_append]
    have h1 : ([[]] : List Bytes).filterMap lineKV = [] := rfl
    rw [h1, List.append_nil, List.filterMap_map]
    apply List.filterMap_congr
    intro kv hkv
    exact lineKV_kvLine kv (hk kv hkv)
  rw [this]

/-- the entries `_write_file_header` renders, in line order (with an `#LNOBJ` id) -/
def headerEntries (c : WChart) (bpmText : Bytes) : List (Bytes × Bytes) :=
  [("TITLE".toList, c.title), ("ARTIST".toList, c.artist), ("BPM".toList, bpmText), ("PLAYLEVEL".toList, c.version)]
    ++ c.misc ++ [("LNOBJ".toList, c.lnEnd)] ++ bpmEntries c.bpms
    ++ c.samples.map (fun kv => ("WAV".toList ++ kv.1, kv.2))

theorem writeHeader_entries (c : WChart) (hl : List Bytes) (h : writeHeader c = .ok hl) (hln : c.lnEnd ≠ []) :
    ∃ b0 rest bpmText, c.bpms = b0 :: rest ∧ showExact b0.bpm = some bpmText ∧
      hl = (headerEntries c bpmText).map kvLine := by
  unfold writeHeader at h
  cases hb : c.bpms with
  | nil => simp [hb] at h
  | cons b0 rest =>
    simp only [hb] at h
    split at h
    · cases h
    · cases hs : showExact b0.bpm with
      | none => simp [hs] at h
      | some bpmText =>
        simp only [hs] at h
        injection h with h
        refine ⟨b0, rest, bpmText, rfl, hs, ?_⟩
        have hemp : c.lnEnd.isEmpty = false := by
          cases hc : c.lnEnd with
          | nil => exact absurd hc hln
          | cons _ _ => rfl
        rw [← h]
        have hkv : kvLine = fun kv => '#' :: kv.1 ++ ' ' :: kv.2 := rfl
        simp [headerEntries, hkv, bpmEntries, hemp, hb, Function.comp_def]

end Reamber.BMS
