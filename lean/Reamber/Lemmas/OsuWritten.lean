/- C01 — a written file is a text of the dialect: the skeleton of `writeText R c` and its well-formedness. -/
import Reamber.Lemmas.OsuDialect

set_option linter.unusedSimpArgs false
set_option linter.unusedVariables false

namespace Reamber.Osu

/-! ### lines of the written header are key/value lines of the dialect -/

theorem kvOk_nil : KvOk [] := by
  refine ⟨rfl, by decide +kernel, by decide +kernel, fun _ => by decide +kernel⟩

theorem kvOk_kvLine (key : String) (w : Str) (h1 : key.toList.head? ≠ some '[') (h2 : key.toList.head? ≠ some '/')
    (h3 : key.toList ≠ []) (hcol : ':' ∉ key.toList) (hb : key.toList ≠ kBackground) (hs : key.toList ≠ kSamples) :
    KvOk (kvLine key w) := by
  have hk : keyOf (kvLine key w) = key.toList := by
    unfold keyOf kvLine; rw [split1_key_value ':' _ _ hcol]
  have hsp : (split1 ':' (kvLine key w)).2 = some (rstrip w) := by
    unfold kvLine; rw [split1_key_value ':' _ _ hcol]
  cases hkl : key.toList with
  | nil => exact absurd hkl h3
  | cons c t =>
    rw [hkl] at h1 h2
    have c1 : c ≠ '[' := fun e => h1 (by rw [e]; rfl)
    have c2 : c ≠ '/' := fun e => h2 (by rw [e]; rfl)
    have hform : kvLine key w = c :: (t ++ ':' :: rstrip w) := by unfold kvLine; rw [hkl]; rfl
    refine ⟨?_, by rw [hk]; exact hb, by rw [hk]; exact hs, ?_⟩
    · rw [hform]; unfold isHeader; simp [c1]
    · intro h
      rcases h with h | h
      · rw [hform] at h
        unfold isComment startsWith at h
        simp [List.isPrefixOf, c2.symm] at h
      · rw [hsp] at h; cases h

def writtenKeys : List String :=
  ["AudioFilename", "AudioLeadIn", "PreviewTime", "Countdown", "SampleSet", "StackLeniency", "Mode", "LetterboxInBreaks",
   "SpecialStyle", "WidescreenStoryboard", "DistanceSpacing", "BeatDivisor", "GridSize", "TimelineZoom", "Title",
   "TitleUnicode", "Artist", "ArtistUnicode", "Creator", "Version", "Source", "Tags", "BeatmapID", "BeatmapSetID",
   "HPDrainRate", "CircleSize", "OverallDifficulty", "ApproachRate", "SliderMultiplier", "SliderTickRate"]

theorem writtenKeys_ok : ∀ key ∈ writtenKeys, key.toList.head? ≠ some '[' ∧ key.toList.head? ≠ some '/' ∧
    key.toList ≠ [] ∧ ':' ∉ key.toList ∧ key.toList ≠ kBackground ∧ key.toList ≠ kSamples := by decide +kernel

theorem kvOk_written (key : String) (hk : key ∈ writtenKeys) (w : Str) : KvOk (kvLine key w) := by
  obtain ⟨a, b, c, d, e, f⟩ := writtenKeys_ok key hk
  exact kvOk_kvLine key w a b c d e f

/-- every header line between two section headers of the written header is a key/value line (or blank) -/
theorem hdrS_kv (R : Render) (m : Meta) :
    (∀ l ∈ ((hdrS R m).drop 3).take 11, KvOk l) ∧ (∀ l ∈ ((hdrS R m).drop 15).take 5, KvOk l) ∧
    (∀ l ∈ ((hdrS R m).drop 21).take 11, KvOk l) ∧ (∀ l ∈ ((hdrS R m).drop 33).take 7, KvOk l) := by
  refine ⟨?_, ?_, ?_, ?_⟩ <;>
    (intro l hl
     simp only [hdrS, List.drop, List.take, List.mem_cons, List.not_mem_nil, or_false] at hl
     rcases hl with rfl | rfl | rfl | rfl | rfl | rfl | rfl | rfl | rfl | rfl | rfl <;>
       first | exact kvOk_nil | exact kvOk_written _ (by decide +kernel) _)

end Reamber.Osu

namespace Reamber.Osu

/-! ### the other written lines -/

theorem evInert_comments (R : Render) (m : Meta) : ∀ l ∈ ((hdrS R m).drop 43).take 6, EvInert l := by
  intro l hl
  simp only [hdrS, List.drop, List.take, List.mem_cons, List.not_mem_nil, or_false] at hl
  rcases hl with rfl | rfl | rfl | rfl | rfl | rfl <;>
    exact ⟨by unfold Inert; decide +kernel, by decide +kernel, fun h => absurd h (by decide +kernel)⟩

theorem bgOk_bgLine (bg : Str) (hq : '"' ∉ bg) (hc : ',' ∉ bg) : BgOk (bgLine bg) bg :=
  ⟨",0,0".toList, by simp [bgLine], hq, hc, by decide +kernel, Or.inr rfl⟩

theorem sampleOk_written (R : Render) (s : Sample) (hf : ',' ∉ s.file) : SampleOk (R.line (writeSample s)) := by
  refine ⟨showInt (pyTrunc s.offset), ['0'], s.file, showInt s.volume, ?_⟩
  rw [line_writeSample]
  apply splitOn_joinWith ',' _ (by simp)
  intro p hp
  simp only [List.mem_cons, List.not_mem_nil, or_false] at hp
  rcases hp with rfl | rfl | rfl | rfl | rfl
  · decide +kernel
  · exact showInt_no_comma _
  · decide +kernel
  · exact hf
  · exact showInt_no_comma _

theorem showInt_boolInt (b : Bool) : showInt (boolInt b) = ['0'] ∨ showInt (boolInt b) = ['1'] := by
  cases b
  · left; exact showInt_zero
  · right; exact showInt_one

/-- a text that `float()` accepts and that contains no blank does not start with `//` -/
theorem not_comment_of_readFloat (s : Str) (q : Rat) (h : readFloat s = .ok q) (hw : ∀ ch ∈ s, isWs ch = false) :
    ∀ x, isComment (s ++ x) = false := by
  intro x
  cases s with
  | nil =>
    exfalso
    have : readFloat [] = .error .value := by decide +kernel
    rw [this] at h; cases h
  | cons a t =>
    by_cases ha : a = '/'
    · exfalso
      subst ha
      have d1 : isDig '/' = false := by decide +kernel
      have hf : foldChar '/' = '/' := by decide +kernel
      have hne : ('/' : Char) ≠ '_' := by decide
      have hp : numPrep ('/' :: t) = (deUs false (t.map foldChar)).map ('/' :: ·) := by
        unfold numPrep
        rw [any_isSep_of_noWs _ hw, strip_of_noWs _ hw, List.map_cons, hf]
        simp only [Bool.false_eq_true, if_false]
        conv => lhs; unfold deUs
        rw [if_neg hne, d1]
      unfold readFloat at h
      rw [hp] at h
      cases hd : deUs false (t.map foldChar) with
      | none => rw [hd] at h; cases h
      | some t' =>
        rw [hd] at h
        replace h : readFloatA ('/' :: t') = .ok q := h
        unfold readFloatA at h
        have ht : takeSign ('/' :: t') = (false, '/' :: t') := rfl
        rw [ht] at h
        have tw : List.takeWhile isDig ('/' :: t') = [] := by rw [List.takeWhile_cons, d1]; rfl
        have dw : List.dropWhile isDig ('/' :: t') = '/' :: t' := by rw [List.dropWhile_cons, d1]; rfl
        simp [List.span_eq_takeWhile_dropWhile, tw, dw] at h
    · unfold isComment startsWith
      simp [List.isPrefixOf, Ne.symm ha]

theorem wf_written_bpm (R : Render) (b : Bpm) (h : BpmOk2 R b) :
    wfTimingLine (R.line (writeBpm b)) = true ∧ isHeader (R.line (writeBpm b)) = false ∧
    isComment (R.line (writeBpm b)) = false := by
  have hs := split_writeBpm R b h.2.1.2.1 h.2.2.2.1
  refine ⟨?_, ?_, ?_⟩
  · unfold wfTimingLine
    rw [hs]
    simp only [bpmFields, showInt_one]
    rcases showInt_boolInt b.kiai with e | e <;> simp [e]
  · have e : writeBpm b = (writeBpm b).dropLast ++ [.int (boolInt b.kiai)] := rfl
    have hl : R.line (writeBpm b) = R.line (writeBpm b).dropLast ++ showInt (boolInt b.kiai) := by
      conv => lhs; rw [e]
      rw [line_append]; simp [Render.line, Render.tok]
    unfold isHeader
    rw [hl, List.getLast?_append]
    rcases showInt_boolInt b.kiai with e' | e' <;> simp [e']
  · have hl : R.line (writeBpm b) = R.repr b.offset ++ (',' :: joinWith ',' (bpmFields R b).tail) := by
      rw [line_writeBpm]; rfl
    rw [hl]
    exact not_comment_of_readFloat _ _ h.2.1.1 h.2.1.2.2 _

theorem wf_written_sv (R : Render) (b : Sv) (h : SvOk2 R b) :
    wfTimingLine (R.line (writeSv b)) = true ∧ isHeader (R.line (writeSv b)) = false ∧
    isComment (R.line (writeSv b)) = false := by
  have hs := split_writeSv R b h.2.1.2.1 h.2.2.2.1
  refine ⟨?_, ?_, ?_⟩
  · unfold wfTimingLine
    rw [hs]
    simp only [svFields, showInt_zero]
    rcases showInt_boolInt b.kiai with e | e <;> simp [e]
  · have e : writeSv b = (writeSv b).dropLast ++ [.int (boolInt b.kiai)] := rfl
    have hl : R.line (writeSv b) = R.line (writeSv b).dropLast ++ showInt (boolInt b.kiai) := by
      conv => lhs; rw [e]
      rw [line_append]; simp [Render.line, Render.tok]
    unfold isHeader
    rw [hl, List.getLast?_append]
    rcases showInt_boolInt b.kiai with e' | e' <;> simp [e']
  · have hl : R.line (writeSv b) = R.repr b.offset ++ (',' :: joinWith ',' (svFields R b).tail) := by
      rw [line_writeSv]; rfl
    rw [hl]
    exact not_comment_of_readFloat _ _ h.2.1.1 h.2.1.2.2 _

end Reamber.Osu

namespace Reamber.Osu

theorem showInt_head (i : Int) : ∃ c t, showInt i = c :: t ∧ c ≠ '[' ∧ c ≠ '/' := by
  unfold showInt
  split
  · exact ⟨'-', _, rfl, by decide +kernel, by decide +kernel⟩
  · obtain ⟨_, hne, hall⟩ := showNat_spec i.natAbs
    cases hs : showNat i.natAbs with
    | nil => exact absurd hs hne
    | cons c t =>
      obtain ⟨d, hd, rfl⟩ := hall c (by rw [hs]; simp)
      have hdig := (digit_facts' d hd).2.1
      refine ⟨_, t, rfl, ?_, ?_⟩
      · intro e; rw [e] at hdig; revert hdig; decide +kernel
      · intro e; rw [e] at hdig; revert hdig; decide +kernel

theorem head_facts (c : Char) (t : Str) (h1 : c ≠ '[') (h2 : c ≠ '/') :
    isHeader (c :: t) = false ∧ isComment (c :: t) = false := by
  constructor
  · unfold isHeader; simp [h1]
  · unfold isComment startsWith; simp [List.isPrefixOf, Ne.symm h2]

theorem bit_facts : bit 1 0 = true ∧ bit 1 7 = false ∧ bit 128 0 = false ∧ bit 128 7 = true := by decide +kernel

theorem wf_written_hit (R : Render) (h : Hit) (k : Int) (hf1 : ',' ∉ h.file) (hf2 : ':' ∉ h.file) :
    wfObjLine (R.line (writeHit h k)) = true ∧ isHeader (R.line (writeHit h k)) = false ∧
    isComment (R.line (writeHit h k)) = false := by
  have H := counts_of_fields (showInt (colToX h.column k)) (showInt 192) (showInt (pyTrunc h.offset)) (showInt 1)
    (showInt h.hitsoundSet) (hitExtras h) (by simp [hitExtras])
    (showInt_no_comma _) (showInt_no_comma _) (showInt_no_comma _) (showInt_no_comma _) (showInt_no_comma _)
    (showInt_no_colon _) (showInt_no_colon _) (showInt_no_colon _) (showInt_no_colon _) (showInt_no_colon _)
    (by intro p hp; simp only [hitExtras, List.mem_cons, List.not_mem_nil, or_false] at hp
        rcases hp with rfl | rfl | rfl | rfl | rfl
        · exact showInt_no_comma _
        · exact showInt_no_comma _
        · exact showInt_no_comma _
        · exact showInt_no_comma _
        · exact hf1)
    (by intro p hp; simp only [hitExtras, List.mem_cons, List.not_mem_nil, or_false] at hp
        rcases hp with rfl | rfl | rfl | rfl | rfl
        · exact showInt_no_colon _
        · exact showInt_no_colon _
        · exact showInt_no_colon _
        · exact showInt_no_colon _
        · exact hf2)
  obtain ⟨hs, hs2, _, _⟩ := H
  obtain ⟨b10, b17, _, _⟩ := bit_facts
  have z : ∀ i : Int, countC ':' (showInt i) = 0 := fun i => count_eq_zero_of_not_mem _ _ (showInt_no_colon i)
  refine ⟨?_, ?_⟩
  · rw [line_writeHit]
    unfold wfObjLine
    simp only [hitFields] at hs ⊢
    rw [hs]
    simp [z, readInt_showInt, b10, b17, hs2]
    simp [hitExtras]
  · obtain ⟨c, t, hc, c1, c2⟩ := showInt_head (colToX h.column k)
    have hl : R.line (writeHit h k) = c :: (t ++ R.line (writeHit h k).tail) := by
      have e : writeHit h k = .int (colToX h.column k) :: (writeHit h k).tail := rfl
      conv => lhs; rw [e]
      simp [Render.line, Render.tok, hc]
    rw [hl]; exact head_facts c _ c1 c2

theorem wf_written_hold (R : Render) (h : Hold) (k : Int) (hf1 : ',' ∉ h.file) (hf2 : ':' ∉ h.file) :
    wfObjLine (R.line (writeHold h k)) = true ∧ isHeader (R.line (writeHold h k)) = false ∧
    isComment (R.line (writeHold h k)) = false := by
  have H := counts_of_fields (showInt (colToX h.column k)) (showInt 192) (showInt (pyTrunc h.offset)) (showInt 128)
    (showInt h.hitsoundSet) (holdExtras h) (by simp [holdExtras])
    (showInt_no_comma _) (showInt_no_comma _) (showInt_no_comma _) (showInt_no_comma _) (showInt_no_comma _)
    (showInt_no_colon _) (showInt_no_colon _) (showInt_no_colon _) (showInt_no_colon _) (showInt_no_colon _)
    (by intro p hp; simp only [holdExtras, List.mem_cons, List.not_mem_nil, or_false] at hp
        rcases hp with rfl | rfl | rfl | rfl | rfl | rfl
        · exact showInt_no_comma _
        · exact showInt_no_comma _
        · exact showInt_no_comma _
        · exact showInt_no_comma _
        · exact showInt_no_comma _
        · exact hf1)
    (by intro p hp; simp only [holdExtras, List.mem_cons, List.not_mem_nil, or_false] at hp
        rcases hp with rfl | rfl | rfl | rfl | rfl | rfl
        · exact showInt_no_colon _
        · exact showInt_no_colon _
        · exact showInt_no_colon _
        · exact showInt_no_colon _
        · exact showInt_no_colon _
        · exact hf2)
  obtain ⟨hs, hs2, _, _⟩ := H
  obtain ⟨_, _, b0, b7⟩ := bit_facts
  have z : ∀ i : Int, countC ':' (showInt i) = 0 := fun i => count_eq_zero_of_not_mem _ _ (showInt_no_colon i)
  refine ⟨?_, ?_⟩
  · rw [line_writeHold]
    unfold wfObjLine
    simp only [holdFields] at hs ⊢
    rw [hs]
    simp [z, readInt_showInt, b0, b7, hs2]
    simp [holdExtras]
  · obtain ⟨c, t, hc, c1, c2⟩ := showInt_head (colToX h.column k)
    have hl : R.line (writeHold h k) = c :: (t ++ R.line (writeHold h k).tail) := by
      have e : writeHold h k = .int (colToX h.column k) :: (writeHold h k).tail := rfl
      conv => lhs; rw [e]
      simp [Render.line, Render.tok, hc]
    rw [hl]; exact head_facts c _ c1 c2

end Reamber.Osu

namespace Reamber.Osu

/-! ### the skeleton of a written file -/

def sampleLines (R : Render) (c : Chart) : List Str := (c.md.samples.map writeSample).map R.line

def writtenSkeleton (R : Render) (c : Chart) : Skeleton :=
  { pre := (hdrS R c.md).take 2,
    G := ((hdrS R c.md).drop 3).take 11,
    hasEditor := true,
    E := ((hdrS R c.md).drop 15).take 5,
    M := ((hdrS R c.md).drop 21).take 11,
    D := ((hdrS R c.md).drop 33).take 7,
    A := [],
    bgl := bgLine c.md.backgroundFileName,
    bgName := c.md.backgroundFileName,
    B := ((hdrS R c.md).drop 43).take 6,
    S := sampleLines R c ++ [[]],
    T := tpLines R c ++ [[], []],
    O := objLines R c }

theorem writtenSkeleton_lines (R : Render) (c : Chart) :
    (writtenSkeleton R c).lines =
      (hdrS R c.md ++ sampleLines R c) ++ [[], hTiming] ++ tpLines R c ++ [[], [], hObjects] ++ objLines R c := by
  unfold Skeleton.lines Skeleton.head Skeleton.events writtenSkeleton hdrS
  simp only [List.take, List.drop, if_true, List.append_assoc, List.cons_append, List.nil_append]
  rfl

theorem sortedObjs_mem (c : Chart) (o : Obj) (ho : o ∈ sortedObjs c) :
    (∃ h ∈ c.holds, o = .hold h) ∨ (∃ h ∈ c.hits, o = .hit h) := by
  unfold sortedObjs at ho
  rw [mem_isort] at ho
  simp only [List.mem_append, List.mem_map] at ho
  rcases ho with ⟨h, hh, rfl⟩ | ⟨h, hh, rfl⟩
  · exact Or.inl ⟨h, hh, rfl⟩
  · exact Or.inr ⟨h, hh, rfl⟩

/-- the trimmed lines of a written file -/
theorem strip_lines_written (R : Render) (c : Chart)
    (hhits : ∀ h ∈ c.hits, ObjOk2 (pyTrunc c.md.circleSize) (.hit h))
    (hholds : ∀ h ∈ c.holds, ObjOk2 (pyTrunc c.md.circleSize) (.hold h))
    (hb : ∀ b ∈ c.bpms, BpmOk2 R b) (hs : ∀ b ∈ c.svs, SvOk2 R b)
    (hnl : ∀ tl ∈ writeMeta c.md, ∀ t ∈ tl, '\n' ∉ R.tok t) :
    (splitOn '\n' (writeText R c)).map strip = (writtenSkeleton R c).lines := by
  have hobj : ∀ o ∈ sortedObjs c, ObjOk2 (pyTrunc c.md.circleSize) o := by
    intro o ho
    rcases sortedObjs_mem c o ho with ⟨h, hh, rfl⟩ | ⟨h, hh, rfl⟩
    · exact hholds h hh
    · exact hhits h hh
  have hol : ∀ l ∈ objLines R c, strip l = l ∧ '\n' ∉ l := by
    intro l hl
    simp only [objLines, List.map_map, List.mem_map, Function.comp] at hl
    obtain ⟨o, ho, rfl⟩ := hl
    exact obj_line_ok R _ o (hobj o ho)
  have htl := tpLines_ok R c hb hs
  have hh : ∀ l ∈ headLines R c, '\n' ∉ l := by
    intro l hl
    simp only [headLines, List.mem_map] at hl
    obtain ⟨tl, htl', rfl⟩ := hl
    exact line_no_nl R tl (hnl tl htl')
  rw [lines_writeText R c hh (fun l hl => noWs_not_nl l (htl l hl).1) (fun l hl => (hol l hl).2)]
  have e0 : strip ([] : Str) = [] := rfl
  have e1 : strip hTiming = hTiming := by decide +kernel
  have e2 : strip hObjects = hObjects := by decide +kernel
  have hS : (headLines R c).map strip = hdrS R c.md ++ sampleLines R c := headS_eq R c.md
  rw [writtenSkeleton_lines]
  simp only [List.map_append, List.map_cons, List.map_nil, e0, e1, e2, hS,
    map_strip_of _ (fun l hl => strip_of_noWs l (htl l hl).1), map_strip_of _ (fun l hl => (hol l hl).1)]

end Reamber.Osu

namespace Reamber.Osu

/-- **a written file is a text of the dialect**: the skeleton of `writeText R c` is well formed — given a background
name without `"` `,`, sample file names without `,`, hitsound file names without `,` `:`, and the renderer hypotheses
for the floats of the timing lines -/
theorem writtenSkeleton_wf (R : Render) (c : Chart)
    (hhits : ∀ h ∈ c.hits, ObjOk2 (pyTrunc c.md.circleSize) (.hit h))
    (hholds : ∀ h ∈ c.holds, ObjOk2 (pyTrunc c.md.circleSize) (.hold h))
    (hb : ∀ b ∈ c.bpms, BpmOk2 R b) (hs : ∀ b ∈ c.svs, SvOk2 R b)
    (hsf : ∀ s ∈ c.md.samples, ',' ∉ s.file)
    (hbq : '"' ∉ c.md.backgroundFileName) (hbc : ',' ∉ c.md.backgroundFileName) :
    (writtenSkeleton R c).WF := by
  obtain ⟨kG, kE, kM, kD⟩ := hdrS_kv R c.md
  refine { pre := ?_, G := kG, E := kE, noE := ?_, M := kM, D := kD, A := ?_, bg := bgOk_bgLine _ hbq hbc,
           B := evInert_comments R c.md, S := ?_, T := ?_, O := ?_ }
  · intro l hl
    simp only [writtenSkeleton, hdrS, List.take, List.mem_cons, List.not_mem_nil, or_false] at hl
    rcases hl with rfl | rfl
    · exact ⟨by unfold Inert; decide +kernel, by decide +kernel⟩
    · exact ⟨inert_nil, rfl⟩
  · intro h; cases h
  · intro l hl; simp [writtenSkeleton] at hl
  · intro l hl
    simp only [writtenSkeleton, sampleLines, List.mem_append, List.mem_map, List.mem_singleton] at hl
    rcases hl with ⟨tl, ⟨s, hs', rfl⟩, rfl⟩ | rfl
    · exact Or.inr (sampleOk_written R s (hsf s hs'))
    · exact Or.inl rfl
  · intro l hl
    simp only [writtenSkeleton, tpLines, List.map_append, List.map_map, List.mem_append, List.mem_map, Function.comp,
      List.mem_cons, List.not_mem_nil, or_false] at hl
    rcases hl with (⟨b, hbm, rfl⟩ | ⟨b, hbm, rfl⟩) | rfl | rfl
    · exact Or.inr (wf_written_bpm R b (hb b hbm))
    · exact Or.inr (wf_written_sv R b (hs b hbm))
    · exact Or.inl rfl
    · exact Or.inl rfl
  · intro l hl
    simp only [writtenSkeleton, objLines, List.map_map, List.mem_map, Function.comp] at hl
    obtain ⟨o, ho, rfl⟩ := hl
    rcases sortedObjs_mem c o ho with ⟨h, hh, rfl⟩ | ⟨h, hh, rfl⟩
    · have := hholds h hh
      exact Or.inr (wf_written_hold R h _ this.2.2.1 this.2.2.2.1)
    · have := hhits h hh
      exact Or.inr (wf_written_hit R h _ this.2.2.1 this.2.2.2.1)

end Reamber.Osu
