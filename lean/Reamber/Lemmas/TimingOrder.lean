/-
K1 — the order in which the tempo changes are handed over does not matter: `bpm_changes_offset_to_snap` (and
`from_bpm_changes_offset`) sort by offset, so for pairwise distinct offsets every permutation of the list gives
the same `offsets` / `snaps` / `beats`; the times stored for strictly ascending changes are pairwise distinct.
-/
import Reamber.Lemmas.TimingChain

namespace Reamber.Timing

theorem sorted_perm_eq_on {α : Type} {le : α → α → Bool} :
    ∀ {l₁ l₂ : List α}, l₁.Perm l₂ →
      (∀ a ∈ l₁, ∀ b ∈ l₁, le a b = true → le b a = true → a = b) → Sorted le l₁ → Sorted le l₂ → l₁ = l₂ := by
  intro l₁
  induction l₁ with
  | nil => intro l₂ hp _ _ _; exact (List.Perm.nil_eq hp)
  | cons a t ih =>
    intro l₂ hp anti h1 h2
    cases l₂ with
    | nil => exact absurd (List.Perm.eq_nil hp) (by simp)
    | cons b t₂ =>
      have ha : ∀ x ∈ t, le a x = true := (List.pairwise_cons.mp h1).1
      have hb : ∀ x ∈ t₂, le b x = true := (List.pairwise_cons.mp h2).1
      have hbmem : b ∈ a :: t := hp.mem_iff.mpr (by simp)
      have hab : a = b := by
        have hamem : a ∈ b :: t₂ := hp.mem_iff.mp (by simp)
        rcases List.mem_cons.mp hbmem with e | hbt
        · exact e.symm
        · rcases List.mem_cons.mp hamem with e | hat
          · exact e
          · exact anti a List.mem_cons_self b hbmem (ha b hbt) (hb a hat)
      subst hab
      have hp' : t.Perm t₂ := List.Perm.cons_inv hp
      rw [ih hp' (fun x hx y hy => anti x (List.mem_cons_of_mem _ hx) y (List.mem_cons_of_mem _ hy))
        (List.pairwise_cons.mp h1).2 (List.pairwise_cons.mp h2).2]

/-- order independence of sorting when the key is injective on the rows at hand -/
theorem isort_eq_of_perm_on {α : Type} {le : α → α → Bool} (h : TotalPre le) {l₁ l₂ : List α} (hp : l₁.Perm l₂)
    (anti : ∀ a ∈ l₁, ∀ b ∈ l₁, le a b = true → le b a = true → a = b) : isort le l₁ = isort le l₂ :=
  sorted_perm_eq_on (((isort_perm le l₁).trans hp).trans (isort_perm le l₂).symm)
    (fun a ha b hb => anti a (mem_isort.mp ha) b (mem_isort.mp hb)) (isort_sorted h l₁) (isort_sorted h l₂)

/-- no two stored changes share a millisecond offset -/
def DistinctOffsets (tm : List BcOff) : Prop := ∀ a ∈ tm, ∀ b ∈ tm, a.offset = b.offset → a = b

theorem totalPre_offset : TotalPre (fun a b : BcOff => decide (a.offset ≤ b.offset)) :=
  ⟨by intro a b; simp only [decide_eq_true_eq]; exact le_total _ _,
   by intro a b c; simp only [decide_eq_true_eq]; exact le_trans⟩

theorem sortBcOff_eq_of_perm {tm tm' : List BcOff} (hp : tm.Perm tm') (hd : DistinctOffsets tm) :
    sortBcOff tm = sortBcOff tm' := by
  unfold sortBcOff
  apply isort_eq_of_perm_on totalPre_offset hp
  intro a ha b hb h1 h2
  simp only [decide_eq_true_eq] at h1 h2
  exact hd a ha b hb (le_antisymm h1 h2)

theorem sortBcOff_idem (tm : List BcOff) : sortBcOff (sortBcOff tm) = sortBcOff tm := by
  unfold sortBcOff; exact isort_idem totalPre_offset tm

/-- `bpm_changes_offset_to_snap` sees only the sorted list -/
theorem bcsOfBco_congr (g : Array Rat) {tm tm' : List BcOff} (h : sortBcOff tm = sortBcOff tm') :
    bcsOfBco g tm = bcsOfBco g tm' := by
  unfold bcsOfBco; rw [h]

theorem offsetsWith_congr (g : Array Rat) (σ : List Nat) {tm tm' : List BcOff} (qs : List Snap)
    (h : sortBcOff tm = sortBcOff tm') : offsetsWith g σ tm qs = offsetsWith g σ tm' qs := by
  unfold offsetsWith; rw [bcsOfBco_congr g h]

theorem snapsWith_congr (g : Array Rat) (σ : List Nat) {tm tm' : List BcOff} (qs : List Rat)
    (h : sortBcOff tm = sortBcOff tm') : snapsWith g σ tm qs = snapsWith g σ tm' qs := by
  unfold snapsWith; rw [bcsOfBco_congr g h]

theorem beatsWith_congr (g : Array Rat) (σq σs : List Nat) {tm tm' : List BcOff} (qs : List Rat)
    (h : sortBcOff tm = sortBcOff tm') : beatsWith g σq σs tm qs = beatsWith g σq σs tm' qs := by
  unfold beatsWith; rw [snapsWith_congr g σq qs h]

/-! ### strictly ascending changes have pairwise distinct stored times -/

theorem strictSnaps_tail {c : BcSnap} {cs : List BcSnap} (h : strictSnaps (c :: cs) = true) :
    strictSnaps cs = true := by
  cases cs with
  | nil => rfl
  | cons b rest => simp only [strictSnaps, Bool.and_eq_true] at h; exact h.2

theorem strictSnaps_head_lt {c n : BcSnap} {cs : List BcSnap} (h : strictSnaps (c :: n :: cs) = true) :
    c.snap.lt n.snap = true := by
  simp only [strictSnaps, Bool.and_eq_true] at h; exact h.1

theorem sortedSnaps_of_strict {cs : List BcSnap} (h : strictSnaps cs = true) : sortedSnaps cs = true := by
  induction cs with
  | nil => rfl
  | cons c rest ih =>
    cases rest with
    | nil => rfl
    | cons n rest' =>
      simp only [sortedSnaps, Bool.and_eq_true]
      refine ⟨?_, ih (strictSnaps_tail h)⟩
      have := strictSnaps_head_lt h
      simp [Snap.le, this]

theorem snapDist_pos {cur n : BcSnap} (wc : WfChange cur) (wn : WfChange n) (hlt : cur.snap.lt n.snap = true) :
    0 < snapDist cur.snap n.snap cur.met := by
  unfold snapDist
  have hM := wc.met_pos
  have hcb := wc.beat_lt
  have hnb := wn.beat_nonneg
  simp only [Snap.lt, Bool.or_eq_true, Bool.and_eq_true, decide_eq_true_eq] at hlt
  rcases hlt with h | ⟨h1, h2⟩
  · have h' : (1 : Rat) ≤ ((n.snap.measure - cur.snap.measure : Int) : Rat) := by
      exact_mod_cast (by omega : 1 ≤ n.snap.measure - cur.snap.measure)
    have := mul_le_mul_of_nonneg_right h' hM.le
    linarith
  · rw [h1]; simp only [sub_self, Int.cast_zero, zero_mul, zero_add]; linarith

theorem tmTail_gt (T : Rat) (cur : BcSnap) (rest : List BcSnap) (hwf : wfChanges (cur :: rest) = true)
    (hs : strictSnaps (cur :: rest) = true) : ∀ o ∈ tmTail T cur rest, T < o.offset := by
  induction rest generalizing T cur with
  | nil => intro o ho; cases ho
  | cons n rest ih =>
    have wc := wfChanges_mem hwf (List.mem_cons_self)
    have wn := wfChanges_mem hwf (List.mem_cons_of_mem _ List.mem_cons_self)
    have hD := snapDist_pos wc wn (strictSnaps_head_lt hs)
    have hstep : T < T + snapDist cur.snap n.snap cur.met * beatLen cur.bpm := by
      have := mul_pos hD (beatLen_pos wc.bpm_pos)
      linarith
    intro o ho
    simp only [tmTail, List.mem_cons] at ho
    rcases ho with rfl | ho
    · exact hstep
    · exact lt_trans hstep (ih _ n (wfChanges_tail hwf) (strictSnaps_tail hs) o ho)

theorem distinctOffsets_cons {x : BcOff} {t : List BcOff} (hx : ∀ y ∈ t, x.offset < y.offset)
    (ht : DistinctOffsets t) : DistinctOffsets (x :: t) := by
  intro a ha b hb hab
  rcases List.mem_cons.mp ha with ea | ha'
  · rcases List.mem_cons.mp hb with eb | hb'
    · rw [ea, eb]
    · rw [ea] at hab; exact absurd hab (ne_of_lt (hx b hb'))
  · rcases List.mem_cons.mp hb with eb | hb'
    · rw [eb] at hab; exact absurd hab.symm (ne_of_lt (hx a ha'))
    · exact ht a ha' b hb' hab

theorem tmTail_distinct (T : Rat) (cur : BcSnap) (rest : List BcSnap) (hwf : wfChanges (cur :: rest) = true)
    (hs : strictSnaps (cur :: rest) = true) : DistinctOffsets (tmTail T cur rest) := by
  induction rest generalizing T cur with
  | nil => intro a ha; cases ha
  | cons n rest ih =>
    simp only [tmTail]
    exact distinctOffsets_cons (tmTail_gt _ n rest (wfChanges_tail hwf) (strictSnaps_tail hs))
      (ih _ n (wfChanges_tail hwf) (strictSnaps_tail hs))

theorem tmOf_distinct (t0 : Rat) (cs : List BcSnap) (hwf : wfChanges cs = true) (hs : strictSnaps cs = true) :
    DistinctOffsets (tmOf t0 cs) := by
  cases cs with
  | nil => intro a ha; cases ha
  | cons c rest =>
    simp only [tmOf]
    exact distinctOffsets_cons (tmTail_gt t0 c rest hwf hs) (tmTail_distinct t0 c rest hwf hs)

end Reamber.Timing
