/-
K1 — the declarative integration `timeAt` is monotone in the query (for positions normalised to the metronome
in force) and continuous at the change points.
-/
import Reamber.Lemmas.TimingChain

namespace Reamber.Timing

/-- position `s` is normalised with respect to the metronome in force at `s` (what `Snap(m, b, metronome)` returns) -/
def normAux (cur : BcSnap) : List BcSnap → Snap → Prop
  | [], s => 0 ≤ s.beat ∧ s.beat < cur.met
  | nxt :: rest, s => if nxt.snap.le s = true then normAux nxt rest s else (0 ≤ s.beat ∧ s.beat < cur.met)

def NormalisedAt (cs : List BcSnap) (s : Snap) : Prop :=
  match cs with
  | [] => True
  | c :: rest => normAux c rest s

theorem normAux_beat_nonneg (cur : BcSnap) (rest : List BcSnap) (s : Snap) (h : normAux cur rest s) : 0 ≤ s.beat := by
  induction rest generalizing cur with
  | nil => exact h.1
  | cons n rest ih =>
    simp only [normAux] at h
    split at h
    · exact ih n h
    · exact h.1

/-- lexicographic order on positions normalised to `M` is the order of the beat counts -/
theorem snapDist_mono {c a b : Snap} {M : Rat} (hM : 0 < M) (hab : a.le b = true) (ha : a.beat ≤ M) (hb : 0 ≤ b.beat) :
    snapDist c a M ≤ snapDist c b M := by
  unfold snapDist
  simp only [Snap.le, Snap.lt, Snap.eqv, Bool.or_eq_true, Bool.and_eq_true, decide_eq_true_eq] at hab
  rcases hab with (h | ⟨h1, h2⟩) | ⟨h1, h2⟩
  · have h' : ((a.measure - c.measure : Int) : Rat) + 1 ≤ ((b.measure - c.measure : Int) : Rat) := by
      exact_mod_cast (by omega : a.measure - c.measure + 1 ≤ b.measure - c.measure)
    have := mul_le_mul_of_nonneg_right h' hM.le
    linarith
  · rw [h1]; linarith
  · rw [h1, h2]

theorem timeAtAux_ge (T : Rat) (cur : BcSnap) (rest : List BcSnap) (s : Snap) (hwf : wfChanges (cur :: rest) = true)
    (hs : sortedSnaps (cur :: rest) = true) (hle : cur.snap.le s = true) (hb : 0 ≤ s.beat) :
    T ≤ timeAtAux T cur rest s := by
  induction rest generalizing T cur with
  | nil =>
    have wc := wfChanges_mem hwf (List.mem_cons_self)
    obtain ⟨_, _, _, hD⟩ := Snap.sub_spec cur.bpm wc.met_tie wc.met_pos hle hb (le_of_lt wc.beat_lt)
    have := mul_nonneg hD (le_of_lt (beatLen_pos wc.bpm_pos))
    simp only [timeAtAux]; linarith
  | cons n rest ih =>
    have wc := wfChanges_mem hwf (List.mem_cons_self)
    have wn := wfChanges_mem hwf (List.mem_cons_of_mem _ List.mem_cons_self)
    simp only [timeAtAux]
    split
    · rename_i hn
      have hcn : cur.snap.le n.snap = true := sortedSnaps_head_le hs n List.mem_cons_self
      have hD := snapDist_nonneg wc wn hcn
      have := mul_nonneg hD (le_of_lt (beatLen_pos wc.bpm_pos))
      have := ih (T + snapDist cur.snap n.snap cur.met * beatLen cur.bpm) n (wfChanges_tail hwf) (sortedSnaps_tail hs) hn
      linarith
    · obtain ⟨_, _, _, hD⟩ := Snap.sub_spec cur.bpm wc.met_tie wc.met_pos hle hb (le_of_lt wc.beat_lt)
      have := mul_nonneg hD (le_of_lt (beatLen_pos wc.bpm_pos))
      linarith

theorem timeAtAux_mono (T : Rat) (cur : BcSnap) (rest : List BcSnap) (q q' : Snap)
    (hwf : wfChanges (cur :: rest) = true) (hs : sortedSnaps (cur :: rest) = true)
    (hm : metronomeOk (cur :: rest) = true) (hle : cur.snap.le q = true) (hqq : q.le q' = true)
    (hn : normAux cur rest q) (hn' : normAux cur rest q') :
    timeAtAux T cur rest q ≤ timeAtAux T cur rest q' := by
  induction rest generalizing T cur with
  | nil =>
    have wc := wfChanges_mem hwf (List.mem_cons_self)
    simp only [timeAtAux]
    have := snapDist_mono (c := cur.snap) wc.met_pos hqq (le_of_lt hn.2) hn'.1
    have := mul_le_mul_of_nonneg_right this (le_of_lt (beatLen_pos wc.bpm_pos))
    linarith
  | cons n rest ih =>
    have wc := wfChanges_mem hwf (List.mem_cons_self)
    have wn := wfChanges_mem hwf (List.mem_cons_of_mem _ List.mem_cons_self)
    have hbl := beatLen_pos wc.bpm_pos
    obtain ⟨hm1, hm2⟩ := metronomeOk_cons hm
    simp only [timeAtAux, normAux] at hn hn' ⊢
    by_cases h1 : n.snap.le q = true
    · have h2 : n.snap.le q' = true := Snap.le_trans h1 hqq
      rw [if_pos h1] at hn
      rw [if_pos h2] at hn'
      rw [if_pos h1, if_pos h2]
      exact ih _ n (wfChanges_tail hwf) (sortedSnaps_tail hs) hm2 h1 hn hn'
    · by_cases h2 : n.snap.le q' = true
      · rw [if_neg h1] at hn
        rw [if_pos h2] at hn'
        rw [if_neg h1, if_pos h2]
        have hnb : n.snap.beat < cur.met := by
          rcases hm1 with h | h
          · rw [h]; exact wn.beat_lt
          · rw [h]; exact wc.met_pos
        -- q < n lexicographically, both normalised to cur.met
        have hqn : q.le n.snap = true := by
          rcases Snap.le_total q n.snap with h | h
          · exact h
          · exact absurd h h1
        have hd := snapDist_mono (c := cur.snap) wc.met_pos hqn (le_of_lt hn.2) wn.beat_nonneg
        have hd' := mul_le_mul_of_nonneg_right hd (le_of_lt hbl)
        have hge := timeAtAux_ge (T + snapDist cur.snap n.snap cur.met * beatLen cur.bpm) n rest q'
          (wfChanges_tail hwf) (sortedSnaps_tail hs) h2 (normAux_beat_nonneg n rest q' hn')
        linarith
      · rw [if_neg h1] at hn
        rw [if_neg h2] at hn'
        rw [if_neg h1, if_neg h2]
        have := snapDist_mono (c := cur.snap) wc.met_pos hqq (le_of_lt hn.2) hn'.1
        have := mul_le_mul_of_nonneg_right this (le_of_lt hbl)
        linarith

/-- **`timeAt` is monotone**: a later position (both normalised to the metronome in force) is not earlier in time. -/
theorem timeAt_mono (t0 : Rat) (cs : List BcSnap) (q q' : Snap) (hwf : wfChanges cs = true)
    (hs : sortedSnaps cs = true) (hm : metronomeOk cs = true) (hq : queryOk cs q = true) (hqq : q.le q' = true)
    (hn : NormalisedAt cs q) (hn' : NormalisedAt cs q') : timeAt t0 cs q ≤ timeAt t0 cs q' := by
  cases cs with
  | nil => simp [queryOk] at hq
  | cons c rest =>
    simp only [queryOk, Bool.and_eq_true, decide_eq_true_eq] at hq
    exact timeAtAux_mono t0 c rest q q' hwf hs hm hq.1 hqq hn hn'

/-- **Continuity at the change points**: the time of change `i+1` obtained by running segment `i`'s tempo up to
it (`T_i + dist · 60000/bpm_i`, the left limit) is the value `timeAt` takes there with the new tempo in force. -/
theorem timeAt_continuous_at_changes (t0 : Rat) (cs : List BcSnap) (hwf : wfChanges cs = true)
    (hs : sortedSnaps cs = true) : cs.map (fun c => timeAt t0 cs c.snap) = (tmOf t0 cs).map (·.offset) :=
  (tmOf_offsets_eq_changeTimes t0 cs hwf hs).symm

end Reamber.Timing
