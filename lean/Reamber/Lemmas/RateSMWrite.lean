/-
C13 — StepMania: the writer (`Model/SM.lean: write`) applied to the rated set produces the file of the original set
with `#OFFSET`, `#SAMPLESTART`, `#SAMPLELENGTH` divided by `r`, every `#BPMS` tempo multiplied by `r`, and the
**same** `#BPMS` beats and the **same** note rows; and the by-the-book reading of such a header (`Spec/SM.lean:
timeOfBeat`) places every beat at `1/r` of its former time.
-/
import Reamber.Lemmas.RateSM
import Reamber.Model.SM
import Reamber.Spec.SM

namespace Reamber.Rate

open Reamber.Timing Reamber.SM

def rateNote (r : Rat) (n : SM.Note) : SM.Note := { n with time := n.time / r, length := n.length / r }

/-- one rated StepMania chart as the writer sees it -/
def rateW (r : Rat) (c : WChart) : WChart :=
  { c with bpms := c.bpms.map (fun p => (p.1 / r, p.2 * r)), notes := c.notes.map (rateNote r) }

/-- the rated file-level fields (`SMMapSet.rate`) -/
def rateHdr (r : Rat) (h : WHeader) : WHeader :=
  { h with offset := h.offset / r, sampleStart := h.sampleStart / r, sampleLength := h.sampleLength / r }

/-- the file of the rated set, expressed on the file of the original set -/
def rateWritten (r : Rat) (w : Written) : Written :=
  { w with offsetSec := w.offsetSec / r, bpms := w.bpms.map (fun p => (p.1, p.2 * r)),
           sampleStartSec := w.sampleStartSec / r, sampleLengthSec := w.sampleLengthSec / r }

/-- the chart's tempo list is the stored form of a tempo-change list in C10's domain (4-beat metronome), and its
object times and tempo times lie on the snap grid — the hypotheses of C03's `written_beats_exact` -/
def WChartOk (c : WChart) : Prop :=
  ∃ (t0 : Rat) (cs : List BcSnap),
    wfChanges cs = true ∧ sortedSnaps cs = true ∧ firstAtZero cs = true ∧
    gridCompatible (grid defaultMaxDiv) cs = true ∧ metronomeOk cs = true ∧ (∀ x ∈ cs, x.met = 4) ∧
    toTimingMap c.bpms = tmOf t0 cs ∧
    (∀ t ∈ (writeOrder c.notes).map (·.1), OnGridAt (grid defaultMaxDiv) t0 cs t) ∧
    (∀ t ∈ c.bpms.map (·.1), OnGridAt (grid defaultMaxDiv) t0 cs t)

theorem toTimingMap_rate (r : Rat) (bpms : List (Rat × Rat)) :
    toTimingMap (bpms.map (fun p => (p.1 / r, p.2 * r))) = (toTimingMap bpms).map (rateBcOff r) := by
  simp [toTimingMap, rateBcOff, List.map_map, Function.comp_def]

theorem filter_kind_rate (r : Rat) (k : Kind) (notes : List SM.Note) :
    (notes.map (rateNote r)).filter (fun n => n.kind = k) = (notes.filter (fun n => n.kind = k)).map (rateNote r) := by
  rw [List.filter_map]
  rfl

theorem writeOrder_rate (r : Rat) (notes : List SM.Note) :
    writeOrder (notes.map (rateNote r)) = (writeOrder notes).map (fun x => (x.1 / r, x.2)) := by
  simp [writeOrder, filter_kind_rate, List.map_map, Function.comp_def, rateNote, add_div]

theorem writeOrder_times_rate (r : Rat) (notes : List SM.Note) :
    (writeOrder (notes.map (rateNote r))).map (·.1) = ((writeOrder notes).map (·.1)).map (· / r) := by
  rw [writeOrder_rate]; simp [List.map_map, Function.comp_def]

theorem bpm_times_rate (r : Rat) (bpms : List (Rat × Rat)) :
    (bpms.map (fun p => (p.1 / r, p.2 * r))).map (·.1) = (bpms.map (·.1)).map (· / r) := by
  simp [List.map_map, Function.comp_def]

theorem zip_map_fst_slot {β} (f : (Rat × Nat × Char) → (Rat × Nat × Char)) (hf : ∀ x, (f x).2 = x.2)
    (objs : List (Rat × Nat × Char)) (bs : List Rat) (g : Rat → Nat → Char → β) :
    ((objs.map f).zip bs).map (fun ob => g ob.2 ob.1.2.1 ob.1.2.2) = (objs.zip bs).map (fun ob => g ob.2 ob.1.2.1 ob.1.2.2) := by
  induction objs generalizing bs with
  | nil => simp
  | cons o os ih =>
    cases bs with
    | nil => simp
    | cons b bs => simp [ih, hf]

/-- the rows of a chart do not change under a rate change -/
theorem writeChartRows_rate {r : Rat} (hr : 0 < r) (c : WChart) (hok : WChartOk c) :
    writeChartRows (rateW r c) = writeChartRows c := by
  obtain ⟨t0, cs, hwf, hs, h0, hgc, hm, hM, htm, hts, _⟩ := hok
  have hb : beats defaultGrid (toTimingMap (rateW r c).bpms) ((writeOrder (rateW r c).notes).map (·.1))
      = beats defaultGrid (toTimingMap c.bpms) ((writeOrder c.notes).map (·.1)) := by
    have e1 : toTimingMap (rateW r c).bpms = (tmOf t0 cs).map (rateBcOff r) := by
      simp only [rateW, toTimingMap_rate, htm]
    have e2 : (writeOrder (rateW r c).notes).map (·.1) = ((writeOrder c.notes).map (·.1)).map (· / r) :=
      writeOrder_times_rate r c.notes
    rw [e1, e2, htm]
    exact beats_rate hr t0 cs hwf hs h0 hgc hm 4 hM _ hts
  simp only [writeChartRows]
  rw [hb]
  cases beats defaultGrid (toTimingMap c.bpms) ((writeOrder c.notes).map (·.1)) with
  | error e => rfl
  | ok bs =>
    simp only [bind, Except.bind]
    have : ((writeOrder (rateW r c).notes).zip bs).map (fun ob => slotOf ob.2 ob.1.2.1 ob.1.2.2)
        = ((writeOrder c.notes).zip bs).map (fun ob => slotOf ob.2 ob.1.2.1 ob.1.2.2) := by
      simp only [rateW, writeOrder_rate]
      exact zip_map_fst_slot (fun x => (x.1 / r, x.2)) (fun _ => rfl) (writeOrder c.notes) bs slotOf
    rw [this]
    rfl

theorem mapE_congr_map {α β} (f : β → Except Err α) (g : β → β) (l : List β) (h : ∀ a ∈ l, f (g a) = f a) :
    mapE f (l.map g) = mapE f l := by
  induction l with
  | nil => rfl
  | cons a t ih =>
    simp only [List.map_cons, mapE, h a (by simp), ih (fun b hb => h b (by simp [hb]))]

theorem zip_map_snd_bpms (r : Rat) (bb : List Rat) (bpms : List (Rat × Rat)) :
    (bb.zip (bpms.map (fun p => (p.1 / r, p.2 * r)))).map (fun p => (round6 p.1, p.2.2))
      = ((bb.zip bpms).map (fun p => (round6 p.1, p.2.2))).map (fun p => (p.1, p.2 * r)) := by
  induction bb generalizing bpms with
  | nil => simp
  | cons b bs ih =>
    cases bpms with
    | nil => simp
    | cons p ps => simp [ih]

/-- one chart of `SMMapSet.write` -/
def wChart (c : WChart) : Except Err WrittenChart := do
  let ms ← writeChartRows c
  .ok ⟨c.chartType, c.description, c.difficulty, c.difficultyVal, c.groove, ms⟩

theorem write_cons (h : WHeader) (c0 : WChart) (rest : List WChart) :
    SM.write h (c0 :: rest) = (do
      let bb ← beats defaultGrid (toTimingMap c0.bpms) (c0.bpms.map (·.1))
      let cs ← mapE wChart (c0 :: rest)
      .ok { strs := writeStringTags.map (fun ta => (ta.1, (h.strs.lookup ta.2).getD [])),
            offsetSec := -(h.offset / secToMsec),
            bpms := (bb.zip c0.bpms).map (fun p => (round6 p.1, p.2.2)),
            sampleStartSec := h.sampleStart / secToMsec,
            sampleLengthSec := h.sampleLength / secToMsec,
            selectable := if h.selectable then yesStr else noStr,
            charts := cs }) := rfl

/-- **the file of the rated set**: `SMMapSet.write` of the rated header and charts is the file of the original
set with the file-level times divided by `r` and the tempos multiplied by `r`; `#BPMS` beats, note rows, string tags
and `#SELECTABLE` are identical (an error of the original write is the same error). -/
theorem sm_write_rate {r : Rat} (hr : 0 < r) (h : WHeader) (charts : List WChart) (hok : ∀ c ∈ charts, WChartOk c) :
    SM.write (rateHdr r h) (charts.map (rateW r)) = (SM.write h charts).map (rateWritten r) := by
  obtain ⟨hstrs, hoff, hss, hsl, hsel⟩ := h
  cases charts with
  | nil => rfl
  | cons c0 rest =>
    obtain ⟨t0, cs, hwf, hs, h0, hgc, hm, hM, htm, _, htb⟩ := hok c0 (by simp)
    have hb : beats defaultGrid (toTimingMap (rateW r c0).bpms) ((rateW r c0).bpms.map (·.1))
        = beats defaultGrid (toTimingMap c0.bpms) (c0.bpms.map (·.1)) := by
      have e1 : toTimingMap (rateW r c0).bpms = (tmOf t0 cs).map (rateBcOff r) := by
        simp only [rateW, toTimingMap_rate, htm]
      have e2 : (rateW r c0).bpms.map (·.1) = (c0.bpms.map (·.1)).map (· / r) := bpm_times_rate r c0.bpms
      rw [e1, e2, htm]
      exact beats_rate hr t0 cs hwf hs h0 hgc hm 4 hM _ htb
    have hrows : mapE wChart ((c0 :: rest).map (rateW r)) = mapE wChart (c0 :: rest) := by
      apply mapE_congr_map
      intro c hc
      simp only [wChart, writeChartRows_rate hr c (hok c hc)]
      rfl
    rw [List.map_cons, write_cons, write_cons, hb, ← List.map_cons, hrows]
    cases beats defaultGrid (toTimingMap c0.bpms) (c0.bpms.map (·.1)) with
    | error e => rfl
    | ok bb =>
      cases mapE wChart (c0 :: rest) with
      | error e => rfl
      | ok cs' =>
        simp only [bind, Except.bind, Except.map, rateWritten, rateHdr, rateW, zip_map_snd_bpms, Except.ok.injEq,
          Written.mk.injEq, and_true, true_and]
        repeat' constructor
        all_goals first | rfl | trivial | ring

/-! ### reading the header back -/

theorem insertBy_map_snd (r : Rat) (x : Rat × Rat) (l : List (Rat × Rat)) :
    insertBy (fun a b => decide (a.1 ≤ b.1)) (x.1, x.2 * r) (l.map (fun p => (p.1, p.2 * r)))
      = (insertBy (fun a b => decide (a.1 ≤ b.1)) x l).map (fun p => (p.1, p.2 * r)) := by
  induction l with
  | nil => rfl
  | cons y ys ih =>
    simp only [List.map_cons, insertBy]
    split <;> simp [ih]

theorem isort_map_snd (r : Rat) (l : List (Rat × Rat)) :
    isort (fun a b => decide (a.1 ≤ b.1)) (l.map (fun p => (p.1, p.2 * r)))
      = (isort (fun a b => decide (a.1 ≤ b.1)) l).map (fun p => (p.1, p.2 * r)) := by
  induction l with
  | nil => rfl
  | cons x xs ih =>
    have e1 : isort (fun a b : Rat × Rat => decide (a.1 ≤ b.1)) (x :: xs)
        = insertBy (fun a b => decide (a.1 ≤ b.1)) x (isort (fun a b => decide (a.1 ≤ b.1)) xs) := rfl
    have e2 : isort (fun a b : Rat × Rat => decide (a.1 ≤ b.1)) ((x.1, x.2 * r) :: xs.map (fun p => (p.1, p.2 * r)))
        = insertBy (fun a b => decide (a.1 ≤ b.1)) (x.1, x.2 * r)
            (isort (fun a b => decide (a.1 ≤ b.1)) (xs.map (fun p => (p.1, p.2 * r)))) := rfl
    rw [List.map_cons, e2, ih, insertBy_map_snd, e1]

theorem changesOf_rate (r : Rat) (pairs : List (Rat × Rat)) :
    changesOf (pairs.map (fun p => (p.1, p.2 * r))) = (changesOf pairs).map (rateBc r) := by
  simp [changesOf, isort_map_snd, List.map_map, Function.comp_def, rateBc]

end Reamber.Rate
