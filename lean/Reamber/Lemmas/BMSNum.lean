/-
C05 — numbers in the written header: `parseFloat (showFixed k q)` is `q` rounded to `k` decimals, and
`parseFloat (showExact q) = q`.  Digit arithmetic for `showNat` / `takeDigits` / `natOfDigits`.
-/
import Reamber.Model.BMS
import Mathlib.Tactic.Ring
import Mathlib.Tactic.Linarith
import Mathlib.Tactic.FieldSimp
import Mathlib.Algebra.Order.Field.Rat

namespace Reamber.BMS

theorem digitChar_spec : ∀ d, d < 10 →
    isDigit (Char.ofNat (48 + d)) = true ∧ (Char.ofNat (48 + d)).toNat - 48 = d ∧ isWs (Char.ofNat (48 + d)) = false ∧
    Char.ofNat (48 + d) ≠ '-' ∧ Char.ofNat (48 + d) ≠ '+' := by
  decide

def digitVals (s : Bytes) : List Nat := s.map (fun c => c.toNat - 48)

theorem natOfDigits_foldl (b : List Nat) : ∀ acc : Nat,
    b.foldl (fun a d => 10 * a + d) acc = acc * 10 ^ b.length + b.foldl (fun a d => 10 * a + d) 0 := by
  induction b with
  | nil => intro acc; simp
  | cons d t ih =>
    intro acc
    simp only [List.foldl_cons, List.length_cons]
    rw [ih (10 * acc + d), ih (10 * 0 + d)]
    ring

theorem natOfDigits_append (a b : List Nat) : natOfDigits (a ++ b) = natOfDigits a * 10 ^ b.length + natOfDigits b := by
  unfold natOfDigits
  rw [List.foldl_append, natOfDigits_foldl b]

theorem natOfDigits_zeros (n : Nat) : natOfDigits (List.replicate n 0) = 0 := by
  induction n with
  | zero => rfl
  | succ n ih =>
    rw [List.replicate_succ', natOfDigits_append, ih]
    simp [natOfDigits]

/-- what `showNat` writes: a non-empty string of digits that reads back as the number -/
theorem natDigits_spec : ∀ (fuel n : Nat), n < fuel →
    natDigits fuel n ≠ [] ∧ (∀ c ∈ natDigits fuel n, isDigit c = true) ∧ natOfDigits (digitVals (natDigits fuel n)) = n := by
  intro fuel
  induction fuel with
  | zero => intro n h; omega
  | succ f ih =>
    intro n hn
    by_cases h10 : n < 10
    · have := digitChar_spec n h10
      simp only [natDigits, h10, if_true]
      refine ⟨by simp, ?_, ?_⟩
      · intro c hc; simp only [List.mem_singleton] at hc; rw [hc]; exact this.1
      · simp [digitVals, natOfDigits, this.2.1]
    · have hq : n / 10 < f := by omega
      obtain ⟨h1, h2, h3⟩ := ih (n / 10) hq
      have hd := digitChar_spec (n % 10) (Nat.mod_lt _ (by decide))
      simp only [natDigits, h10, if_false]
      refine ⟨by simp, ?_, ?_⟩
      · intro c hc
        rcases List.mem_append.mp hc with hc | hc
        · exact h2 c hc
        · simp only [List.mem_singleton] at hc; rw [hc]; exact hd.1
      · simp only [digitVals, List.map_append, List.map_cons, List.map_nil] at h3 ⊢
        rw [natOfDigits_append, h3, hd.2.1]
        simp [natOfDigits]
        omega

theorem natDigits_length : ∀ (fuel n k : Nat), n < fuel → n < 10 ^ k → 1 ≤ k → (natDigits fuel n).length ≤ k := by
  intro fuel
  induction fuel with
  | zero => intro n k h; omega
  | succ f ih =>
    intro n k hn hk h1
    by_cases h10 : n < 10
    · simp [natDigits, h10]; omega
    · simp only [natDigits, h10, if_false, List.length_append, List.length_singleton]
      have hk2 : 2 ≤ k := by
        rcases Nat.lt_or_ge k 2 with h | h
        · have : k = 1 := by omega
          subst this
          simp at hk; omega
        · exact h
      have hq : n / 10 < 10 ^ (k - 1) := by
        have : 10 ^ k = 10 * 10 ^ (k - 1) := by
          have : k = (k - 1) + 1 := by omega
          conv => lhs; rw [this, Nat.pow_succ]
          ring
        rw [this] at hk
        omega
      have := ih (n / 10) (k - 1) (by omega) hq (by omega)
      omega

theorem showNat_spec (n : Nat) : showNat n ≠ [] ∧ (∀ c ∈ showNat n, isDigit c = true) ∧ natOfDigits (digitVals (showNat n)) = n :=
  natDigits_spec (n + 1) n (by omega)

theorem takeDigits_base (r : Bytes) (hr : r = [] ∨ ∃ c t, r = c :: t ∧ isDigit c = false) : takeDigits r = ([], r) := by
  rcases hr with rfl | ⟨c, t, rfl, hc⟩
  · rfl
  · simp [takeDigits, hc]

theorem takeDigits_append : ∀ (ds r : Bytes), (∀ c ∈ ds, isDigit c = true) →
    (r = [] ∨ ∃ c t, r = c :: t ∧ isDigit c = false) → takeDigits (ds ++ r) = (digitVals ds, r)
  | [], r, _, hr => by simpa [digitVals] using takeDigits_base r hr
  | c :: t, r, hds, hr => by
    have hc := hds c (by simp)
    have ih := takeDigits_append t r (fun x hx => hds x (by simp [hx])) hr
    simp only [List.cons_append, takeDigits, hc, if_true, ih, digitVals, List.map_cons]

theorem lstrip_head {c : Char} {s : Bytes} (h : isWs c = false) : lstrip (c :: s) = c :: s := by
  simp [lstrip, h]

theorem strip_id (s : Bytes) (hne : s ≠ []) (hh : ∀ c t, s = c :: t → isWs c = false)
    (hl : isWs (s.getLast hne) = false) : strip s = s := by
  unfold strip
  obtain ⟨c, t, rfl⟩ := List.exists_cons_of_ne_nil hne
  rw [lstrip_head (hh c t rfl)]
  have hrev : (c :: t).reverse = (c :: t).getLast hne :: ((c :: t).dropLast).reverse := by
    conv => lhs; rw [← List.dropLast_concat_getLast hne]
    simp
  rw [hrev, lstrip_head hl, ← hrev, List.reverse_reverse]

/-- digits, a point, digits: `float()` of it -/
theorem parseFloat_digits (ipd fpd : Bytes) (hip : ipd ≠ []) (hipd : ∀ c ∈ ipd, isDigit c = true)
    (hfp : fpd ≠ []) (hfpd : ∀ c ∈ fpd, isDigit c = true)
    (hnows : ∀ c, isDigit c = true → isWs c = false ∧ c ≠ '-' ∧ c ≠ '+') :
    parseFloat (ipd ++ '.' :: fpd) =
      some (((natOfDigits (digitVals ipd ++ digitVals fpd) : Nat) : Rat) / ((10 ^ fpd.length : Nat) : Rat)) := by
  obtain ⟨c0, t0, rfl⟩ := List.exists_cons_of_ne_nil hip
  have hc0 := hnows c0 (hipd c0 (by simp))
  have hstrip : strip ((c0 :: t0) ++ '.' :: fpd) = (c0 :: t0) ++ '.' :: fpd := by
    apply strip_id _ (by simp)
    · intro c t h
      simp only [List.cons_append, List.cons.injEq] at h
      rw [← h.1]; exact hc0.1
    · have : ((c0 :: t0) ++ '.' :: fpd).getLast (by simp) = fpd.getLast hfp := by
        rw [List.getLast_append_of_ne_nil _ (by simp)]
        simp [List.getLast_cons hfp]
      rw [this]
      exact (hnows _ (hfpd _ (List.getLast_mem hfp))).1
  have htd1 : takeDigits ((c0 :: t0) ++ '.' :: fpd) = (digitVals (c0 :: t0), '.' :: fpd) :=
    takeDigits_append _ _ hipd (Or.inr ⟨'.', fpd, rfl, by decide⟩)
  have htd2 : takeDigits fpd = (digitVals fpd, []) := by
    have := takeDigits_append fpd [] hfpd (Or.inl rfl)
    simpa using this
  unfold parseFloat
  rw [hstrip]
  have hm1 : c0 ≠ '-' := hc0.2.1
  have hm2 : c0 ≠ '+' := hc0.2.2
  simp only [List.cons_append]
  split
  · rename_i heq; simp only [List.cons.injEq] at heq; exact absurd heq.1 hm1
  · rename_i heq; simp only [List.cons.injEq] at heq; exact absurd heq.1 hm2
  · simp only [List.cons_append] at htd1
    simp only [htd1, htd2]
    have hne1 : (digitVals (c0 :: t0)).isEmpty = false := by simp [digitVals]
    simp [hne1, digitVals]

theorem isDigit_facts (c : Char) (h : isDigit c = true) : isWs c = false ∧ c ≠ '-' ∧ c ≠ '+' := by
  refine ⟨?_, ?_, ?_⟩
  · cases hw : isWs c with
    | false => rfl
    | true =>
      exfalso
      simp only [isWs, Bool.or_eq_true, decide_eq_true_eq] at hw
      rcases hw with ((((e | e) | e) | e) | e) | e
      · subst e; exact absurd h (by decide)
      · subst e; exact absurd h (by decide)
      · subst e; exact absurd h (by decide)
      · subst e; exact absurd h (by decide)
      · have : c = Char.ofNat 11 := by rw [← e]; exact (Char.ofNat_toNat c).symm
        subst this; exact absurd h (by decide)
      · have : c = Char.ofNat 12 := by rw [← e]; exact (Char.ofNat_toNat c).symm
        subst this; exact absurd h (by decide)
  · intro e; subst e; exact absurd h (by decide)
  · intro e; subst e; exact absurd h (by decide)

/-- digits only: `float()` of it -/
theorem parseFloat_int (ipd : Bytes) (hip : ipd ≠ []) (hipd : ∀ c ∈ ipd, isDigit c = true) :
    parseFloat ipd = some ((natOfDigits (digitVals ipd) : Nat) : Rat) := by
  obtain ⟨c0, t0, rfl⟩ := List.exists_cons_of_ne_nil hip
  have hc0 := isDigit_facts c0 (hipd c0 (by simp))
  have hstrip : strip (c0 :: t0) = c0 :: t0 := by
    apply strip_id _ (by simp)
    · intro c t h
      simp only [List.cons.injEq] at h
      rw [← h.1]; exact hc0.1
    · exact (isDigit_facts _ (hipd _ (List.getLast_mem _))).1
  have htd1 : takeDigits (c0 :: t0) = (digitVals (c0 :: t0), []) := by
    have := takeDigits_append (c0 :: t0) [] hipd (Or.inl rfl)
    simpa using this
  unfold parseFloat
  rw [hstrip]
  dsimp only
  split
  · rename_i heq; simp only [List.cons.injEq] at heq; exact absurd heq.1 hc0.2.1
  · rename_i heq; simp only [List.cons.injEq] at heq; exact absurd heq.1 hc0.2.2
  · simp only [htd1]
    have hne1 : (digitVals (c0 :: t0)).isEmpty = false := by simp [digitVals]
    simp [hne1, digitVals]

theorem roundHalfEven_nonneg (x : Rat) (hx : 0 ≤ x) : 0 ≤ roundHalfEven x := by
  have hf : 0 ≤ x.floor := Rat.le_floor_iff.mpr (by simpa using hx)
  unfold roundHalfEven
  simp only []
  split
  · exact hf
  · split
    · omega
    · split <;> omega

theorem roundHalfEven_int (x : Rat) (hx : x.den = 1) : ((roundHalfEven x : Int) : Rat) = x := by
  have hxi : x = ((x.num : Int) : Rat) := ((Rat.den_eq_one_iff x).mp hx).symm
  have hf : x.floor = x.num := by rw [hxi, Rat.floor_intCast]; simp
  unfold roundHalfEven
  have hr : x - ((x.floor : Int) : Rat) = 0 := by rw [hf]; linarith [hxi]
  simp only [hr]
  have : (0 : Rat) < 1 / 2 := by norm_num
  simp only [this, if_true, hf]
  exact hxi.symm

/-- **`float(f"{q:.kf}")` is `q` rounded to `k` decimals** (`k ≥ 1`, `q ≥ 0`): what `readHeader` reads back from
a `#BPMxx` line the writer wrote — `q` itself when `q` has at most `k` decimals. -/
theorem parseFloat_showFixed (k : Nat) (hk : 1 ≤ k) (q : Rat) (hq : 0 ≤ q) :
    parseFloat (showFixed k q) = some (roundDec k q) := by
  have h10 : (0 : Rat) ≤ ((10 ^ k : Nat) : Rat) := by positivity
  have hn : 0 ≤ roundHalfEven (q * ((10 ^ k : Nat) : Rat)) := roundHalfEven_nonneg _ (mul_nonneg hq h10)
  unfold showFixed roundDec
  generalize roundHalfEven (q * ((10 ^ k : Nat) : Rat)) = n at hn ⊢
  have hnn : ¬ n < 0 := by omega
  have hk0 : ¬ k = 0 := by omega
  simp only [hnn, if_false, hk0, List.nil_append]
  obtain ⟨i1, i2, i3⟩ := showNat_spec (n.natAbs / 10 ^ k)
  obtain ⟨f1, f2, f3⟩ := showNat_spec (n.natAbs % 10 ^ k)
  have hp10 : 0 < 10 ^ k := Nat.pow_pos (by decide)
  have hflen : (showNat (n.natAbs % 10 ^ k)).length ≤ k :=
    natDigits_length _ _ k (by omega) (Nat.mod_lt _ hp10) hk
  set fpd := padLeft k '0' (showNat (n.natAbs % 10 ^ k)) with hfpd
  have hfpdlen : fpd.length = k := by simp [hfpd, padLeft]; omega
  have hfpdne : fpd ≠ [] := by intro e; rw [e] at hfpdlen; simp at hfpdlen; omega
  have hfpdd : ∀ c ∈ fpd, isDigit c = true := by
    intro c hc
    simp only [hfpd, padLeft, List.mem_append, List.mem_replicate] at hc
    rcases hc with ⟨_, rfl⟩ | hc
    · decide
    · exact f2 c hc
  have hfpv : natOfDigits (digitVals fpd) = n.natAbs % 10 ^ k := by
    simp only [hfpd, padLeft, digitVals, List.map_append, List.map_replicate]
    rw [natOfDigits_append]
    have : ('0' : Char).toNat - 48 = 0 := by decide
    rw [this, natOfDigits_zeros]
    simpa [digitVals] using f3
  rw [parseFloat_digits _ fpd i1 i2 hfpdne hfpdd isDigit_facts, natOfDigits_append, i3, hfpv]
  simp only [digitVals, List.length_map, hfpdlen]
  have hdm : n.natAbs / 10 ^ k * 10 ^ k + n.natAbs % 10 ^ k = n.natAbs := Nat.div_add_mod' _ _
  rw [hdm]
  have : ((n.natAbs : Nat) : Rat) = ((n : Int) : Rat) := by
    rw [← Int.cast_natCast, Int.natAbs_of_nonneg hn]
  rw [this]

/-- with at most `k` decimals nothing is lost -/
theorem roundDec_of_decimals (k : Nat) (q : Rat) (h : (q * ((10 ^ k : Nat) : Rat)).den = 1) : roundDec k q = q := by
  unfold roundDec
  rw [roundHalfEven_int _ h]
  have : ((10 ^ k : Nat) : Rat) ≠ 0 := by positivity
  field_simp

theorem showExactAux_spec (q : Rat) : ∀ (fuel k : Nat) (txt : Bytes), showExactAux q fuel k = some txt →
    ∃ k', (q * ((10 ^ k' : Nat) : Rat)).den = 1 ∧ txt = showFixed k' q := by
  intro fuel
  induction fuel with
  | zero => intro k txt h; simp [showExactAux] at h
  | succ f ih =>
    intro k txt h
    simp only [showExactAux] at h
    by_cases hd : (q * ((10 ^ k : Nat) : Rat)).den = 1
    · simp only [hd, if_true, Option.some.injEq] at h
      exact ⟨k, hd, h.symm⟩
    · simp only [hd, if_false] at h
      exact ih (k + 1) txt h

/-- **`float(str(bpm))`**: the `#BPM` header text the model writes (the exact decimal expansion) reads back as the
tempo itself. -/
theorem parseFloat_showExact (q : Rat) (hq : 0 ≤ q) (txt : Bytes) (h : showExact q = some txt) : parseFloat txt = some q := by
  obtain ⟨k, hd, rfl⟩ := showExactAux_spec q 400 0 txt h
  by_cases hk : 1 ≤ k
  · rw [parseFloat_showFixed k hk q hq, roundDec_of_decimals k q hd]
  · have hk0 : k = 0 := by omega
    subst hk0
    have hq1 : (q * ((10 ^ 0 : Nat) : Rat)) = q := by simp
    rw [hq1] at hd
    have hn : 0 ≤ roundHalfEven q := roundHalfEven_nonneg q hq
    have hv := roundHalfEven_int q hd
    unfold showFixed
    have hq2 : q * (((1 : Nat)) : Rat) = q := by simp
    simp only [Nat.pow_zero, hq2, not_lt.mpr hn, if_false, if_true, List.nil_append, List.append_nil, Nat.div_one]
    obtain ⟨i1, i2, i3⟩ := showNat_spec (roundHalfEven q).natAbs
    rw [parseFloat_int _ i1 i2, i3]
    have : (((roundHalfEven q).natAbs : Nat) : Rat) = ((roundHalfEven q : Int) : Rat) := by
      rw [← Int.cast_natCast, Int.natAbs_of_nonneg hn]
    rw [this, hv]

end Reamber.BMS
