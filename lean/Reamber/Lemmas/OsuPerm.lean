/- C01 — the stable sort of `OsuMap.write` is a permutation in time order; `quantize c` is the same chart as `c` at
millisecond resolution (`SameChart1ms`). -/
import Reamber.Lemmas.OsuHeader

namespace Reamber.Osu

theorem insertBy_perm {α} (le : α → α → Bool) (x : α) (l : List α) : (insertBy le x l).Perm (x :: l) := by
  induction l with
  | nil => exact List.Perm.refl _
  | cons y ys ih =>
    unfold insertBy
    split
    · exact List.Perm.refl _
    · exact ((List.Perm.cons y ih).trans (List.Perm.swap x y ys))

theorem isort_perm {α} (le : α → α → Bool) (l : List α) : (isort le l).Perm l := by
  induction l with
  | nil => exact List.Perm.refl _
  | cons y ys ih =>
    have : isort le (y :: ys) = insertBy le y (isort le ys) := rfl
    rw [this]
    exact (insertBy_perm le y _).trans (List.Perm.cons y ih)

theorem insertBy_pairwise {α} (le : α → α → Bool) (htot : ∀ a b, le a b = true ∨ le b a = true)
    (htr : ∀ a b c, le a b = true → le b c = true → le a c = true) (x : α) (l : List α)
    (hl : l.Pairwise (fun a b => le a b = true)) : (insertBy le x l).Pairwise (fun a b => le a b = true) := by
  induction l with
  | nil => simp [insertBy]
  | cons y ys ih =>
    rw [List.pairwise_cons] at hl
    unfold insertBy
    split
    · next hxy =>
      rw [List.pairwise_cons]
      refine ⟨?_, List.pairwise_cons.mpr hl⟩
      intro b hb
      rcases List.mem_cons.mp hb with rfl | hb
      · exact hxy
      · exact htr _ _ _ hxy (hl.1 b hb)
    · next hxy =>
      rw [List.pairwise_cons]
      refine ⟨?_, ih hl.2⟩
      intro b hb
      rw [mem_insertBy] at hb
      rcases hb with rfl | hb
      · rcases htot b y with h | h
        · exact absurd h hxy
        · exact h
      · exact hl.1 b hb

theorem isort_pairwise {α} (le : α → α → Bool) (htot : ∀ a b, le a b = true ∨ le b a = true)
    (htr : ∀ a b c, le a b = true → le b c = true → le a c = true) (l : List α) :
    (isort le l).Pairwise (fun a b => le a b = true) := by
  induction l with
  | nil => simp [isort]
  | cons y ys ih =>
    have : isort le (y :: ys) = insertBy le y (isort le ys) := rfl
    rw [this]
    exact insertBy_pairwise le htot htr y _ ih

/-- the object lines are written in time order -/
theorem sortedObjs_timeOrdered (c : Chart) : TimeOrdered (sortedObjs c) := by
  unfold TimeOrdered sortedObjs
  have := isort_pairwise (fun a b : Obj => decide (a.offset ≤ b.offset))
    (fun a b => by
      simp only [decide_eq_true_eq]
      exact Rat.le_total)
    (fun a b c h1 h2 => by
      simp only [decide_eq_true_eq] at h1 h2 ⊢
      exact Rat.le_trans h1 h2)
    (c.holds.map Obj.hold ++ c.hits.map Obj.hit)
  exact this.imp (fun h => by simpa using h)

theorem filterMap_objHit_hold (l : List Hold) : (l.map Obj.hold).filterMap objHit = [] := by
  induction l with
  | nil => rfl
  | cons a as ih => simp [objHit, ih]

theorem filterMap_objHit_hit (l : List Hit) : (l.map Obj.hit).filterMap objHit = l := by
  induction l with
  | nil => rfl
  | cons a as ih => simp [objHit, ih]

theorem filterMap_objHold_hold (l : List Hold) : (l.map Obj.hold).filterMap objHold = l := by
  induction l with
  | nil => rfl
  | cons a as ih => simp [objHold, ih]

theorem filterMap_objHold_hit (l : List Hit) : (l.map Obj.hit).filterMap objHold = [] := by
  induction l with
  | nil => rfl
  | cons a as ih => simp [objHold, ih]

/-- **the hits written are a permutation of the chart's hits** (nothing lost, invented or duplicated by the merge
sort of `OsuMap.write`), likewise the holds -/
theorem sortedObjs_perm (c : Chart) :
    ((sortedObjs c).filterMap objHit).Perm c.hits ∧ ((sortedObjs c).filterMap objHold).Perm c.holds := by
  unfold sortedObjs
  constructor
  · have := (isort_perm (fun a b : Obj => decide (a.offset ≤ b.offset))
      (c.holds.map Obj.hold ++ c.hits.map Obj.hit)).filterMap objHit
    rwa [List.filterMap_append, filterMap_objHit_hold, filterMap_objHit_hit, List.nil_append] at this
  · have := (isort_perm (fun a b : Obj => decide (a.offset ≤ b.offset))
      (c.holds.map Obj.hold ++ c.hits.map Obj.hit)).filterMap objHold
    rwa [List.filterMap_append, filterMap_objHold_hold, filterMap_objHold_hit, List.append_nil] at this

theorem allRel_map {α} (r : α → α → Prop) (f : α → α) (h : ∀ a, r a (f a)) (l : List α) : AllRel r l (l.map f) := by
  induction l with
  | nil => trivial
  | cons a as ih => exact ⟨h a, ih⟩

theorem pyTrunc_within (q : Rat) : -1 < (pyTrunc q : Rat) - q ∧ (pyTrunc q : Rat) - q < 1 := by
  have := pyTrunc_abs_lt_one q
  rw [abs_lt] at this
  exact this

theorem hitMoved_qHit (h : Hit) : HitMoved h (qHit h) :=
  ⟨(pyTrunc_within _).1, (pyTrunc_within _).2, rfl⟩

theorem holdMoved_qHold (h : Hold) : HoldMoved h (qHold h) := by
  have e : (qHold h).offset + (qHold h).length = (pyTrunc (h.offset + h.length) : Rat) := by
    simp only [qHold]; ring
  refine ⟨(pyTrunc_within _).1, (pyTrunc_within _).2, ?_, ?_, rfl⟩
  · rw [e]; exact (pyTrunc_within _).1
  · rw [e]; exact (pyTrunc_within _).2

theorem sampleMoved_qSample (s : Sample) : SampleMoved s (qSample s) :=
  ⟨(pyTrunc_within _).1, (pyTrunc_within _).2, rfl⟩

/-- **`quantize c` is the chart `c` with times moved by less than 1 ms** — as one statement about whole charts -/
theorem quantize_sameChart (uni : Str → Str) (c : Chart) : SameChart1ms uni c (quantize uni c) where
  hits := ⟨(sortedObjs c).filterMap objHit, (sortedObjs_perm c).1, allRel_map _ _ hitMoved_qHit _⟩
  holds := ⟨(sortedObjs c).filterMap objHold, (sortedObjs_perm c).2, allRel_map _ _ holdMoved_qHold _⟩
  bpms := rfl
  bpmTimes := by simp [quantize, qBpm, Function.comp_def]
  svs := rfl
  samples := allRel_map _ _ sampleMoved_qSample _
  md := rfl

end Reamber.Osu
