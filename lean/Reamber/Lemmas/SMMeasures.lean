/-
C02 — on the note data the writer emits (rows joined by "\n", measures by "\n,\n"; no comments, no blank rows inside
rows) the reader's `split(",")` / `split("\n")` + filter (`measuresOf`) and the specification's character scanner
(`scanRows`) give the same measures and rows — both give back the written rows.  Core Lean only.
-/
import Reamber.Lemmas.SMText
import Reamber.Lemmas.SMScan

namespace Reamber.SM

open Reamber.Timing

/-- the reader's row filter -/
def keepRow (l : Str) : Bool := !hasInfix ['/', '/'] l && !l.isEmpty

/-- `[snap for snap in measure.split("\n") if "//" not in snap and snap]` -/
def rowsOfMeasure (m : Str) : List Str := (splitOn '\n' m).filter keepRow

theorem measuresOf_eq (data : Str) : measuresOf data = (splitOn ',' data).map rowsOfMeasure := rfl

/-- a row as the writer emits it, seen by the reader: kept by the filter, no separators inside -/
def ReaderRow (p : Str) : Prop := keepRow p = true ∧ ∀ c ∈ p, c ≠ ',' ∧ c ≠ '\n'

theorem joinWith_snoc_empty (sep : Str) : ∀ (m : List Str), m ≠ [] → joinWith sep (m ++ [[]]) = joinWith sep m ++ sep := by
  intro m
  induction m with
  | nil => intro h; exact absurd rfl h
  | cons p t ih =>
    intro _
    cases t with
    | nil => simp [joinWith]
    | cons q r =>
      have := ih (by simp)
      simp only [List.cons_append, joinWith] at this ⊢
      rw [this]
      simp [List.append_assoc]

theorem filter_keep_rows (m : List Str) (h : ∀ p ∈ m, ReaderRow p) : m.filter keepRow = m := by
  rw [List.filter_eq_self]
  intro p hp
  exact (h p hp).1

theorem keepRow_nil : keepRow [] = false := by simp [keepRow]

/-- one measure's text, with an optional line break before and after -/
theorem rowsOfMeasure_join (m : List Str) (h : ∀ p ∈ m, ReaderRow p) (pre post : Bool) :
    rowsOfMeasure ((if pre then ['\n'] else []) ++ joinWith ['\n'] m ++ (if post then ['\n'] else [])) = m := by
  have hnl : ∀ p ∈ m, '\n' ∉ p := fun p hp hc => ((h p hp).2 _ hc).2 rfl
  cases m with
  | nil => cases pre <;> cases post <;> decide
  | cons p t =>
    have hne : (p :: t) ≠ [] := by simp
    unfold rowsOfMeasure
    cases pre <;> cases post
    · simp only [Bool.false_eq_true, if_false, List.nil_append, List.append_nil]
      rw [splitOn_joinWith '\n' _ hne hnl, filter_keep_rows _ h]
    · simp only [Bool.false_eq_true, if_false, if_true, List.nil_append]
      rw [← joinWith_snoc_empty ['\n'] _ hne,
        splitOn_joinWith '\n' _ (by simp) (by
          intro q hq
          rcases List.mem_append.mp hq with hq | hq
          · exact hnl q hq
          · simp at hq; subst hq; simp)]
      rw [List.filter_append, filter_keep_rows _ h]
      simp [keepRow_nil]
    · simp only [if_true, Bool.false_eq_true, if_false, List.append_nil, List.singleton_append]
      have : splitOn '\n' ('\n' :: joinWith ['\n'] (p :: t)) = [] :: splitOn '\n' (joinWith ['\n'] (p :: t)) := by
        simp [splitOn]
      rw [this, splitOn_joinWith '\n' _ hne hnl, List.filter_cons_of_neg (by simp [keepRow_nil])]
      exact filter_keep_rows _ h
    · simp only [if_true, List.singleton_append, List.cons_append, List.nil_append]
      have : splitOn '\n' ('\n' :: (joinWith ['\n'] (p :: t) ++ ['\n'])) =
          [] :: splitOn '\n' (joinWith ['\n'] (p :: t) ++ ['\n']) := by simp [splitOn]
      rw [this, ← joinWith_snoc_empty ['\n'] _ hne,
        splitOn_joinWith '\n' _ (by simp) (by
          intro q hq
          rcases List.mem_append.mp hq with hq | hq
          · exact hnl q hq
          · simp at hq; subst hq; simp)]
      rw [List.filter_cons_of_neg (by simp [keepRow_nil]), List.filter_append, filter_keep_rows _ h]
      simp [keepRow_nil]

theorem no_comma_join (m : List Str) (h : ∀ p ∈ m, ReaderRow p) : ',' ∉ joinWith ['\n'] m := by
  induction m with
  | nil => simp [joinWith]
  | cons p t ih =>
    have hp : ',' ∉ p := fun hc => ((h p (by simp)).2 _ hc).1 rfl
    cases t with
    | nil => simpa [joinWith] using hp
    | cons q r =>
      have := ih (fun x hx => h x (List.mem_cons_of_mem _ hx))
      simp only [joinWith, List.mem_append, List.mem_singleton, not_or] at this ⊢
      exact ⟨⟨hp, by decide⟩, this⟩

/-- the reader's measures of the written note data, with an optional leading line break -/
theorem measuresOf_render_aux : ∀ (ms : List (List Str)), ms ≠ [] → (∀ m ∈ ms, ∀ p ∈ m, ReaderRow p) → ∀ pre : Bool,
    (splitOn ',' ((if pre then ['\n'] else []) ++ renderRows ms)).map rowsOfMeasure = ms := by
  intro ms
  induction ms with
  | nil => intro h; exact absurd rfl h
  | cons m t ih =>
    intro _ hc pre
    have hm := hc m (by simp)
    have hnc : ',' ∉ (if pre then ['\n'] else []) ++ joinWith ['\n'] m := by
      intro hh
      rcases List.mem_append.mp hh with h1 | h1
      · cases pre <;> simp at h1
      · exact no_comma_join m hm h1
    cases t with
    | nil =>
      simp only [renderRows, List.map_cons, List.map_nil, joinWith]
      rw [splitOn_no_sep ',' _ hnc]
      simp only [List.map_cons, List.map_nil]
      have := rowsOfMeasure_join m hm pre false
      simp only [Bool.false_eq_true, if_false, List.append_nil] at this
      rw [this]
    | cons m2 r =>
      have hnc2 : ',' ∉ (if pre then ['\n'] else []) ++ joinWith ['\n'] m ++ ['\n'] := by
        intro hh
        rcases List.mem_append.mp hh with h1 | h1
        · exact hnc h1
        · simp at h1
      have e : (if pre then ['\n'] else []) ++ renderRows (m :: m2 :: r) =
          ((if pre then ['\n'] else []) ++ joinWith ['\n'] m ++ ['\n']) ++ ',' :: (['\n'] ++ renderRows (m2 :: r)) := by
        simp [renderRows, joinWith, List.append_assoc]
      rw [e, splitOn_append_sep ',' _ _ hnc2]
      simp only [List.map_cons]
      have h1 := rowsOfMeasure_join m hm pre true
      simp only [if_true] at h1
      rw [h1]
      have h2 := ih (by simp) (fun x hx => hc x (List.mem_cons_of_mem _ hx)) true
      simp only [if_true] at h2
      rw [h2]

/-- **`measuresOf = scanRows` on the written note data**: for rows over the note symbols (kept by the reader's
filter, clean for the scanner) both the reader's split-and-filter and the specification's scanner return exactly the
written measures and rows. -/
theorem measuresOf_renderRows (ms : List (List Str)) (hne : ms ≠ []) (hr : ∀ m ∈ ms, ∀ p ∈ m, ReaderRow p) :
    measuresOf (renderRows ms) = ms := by
  rw [measuresOf_eq]
  have := measuresOf_render_aux ms hne hr false
  simpa using this

theorem measuresOf_eq_scanRows (ms : List (List Str)) (hne : ms ≠ []) (hr : ∀ m ∈ ms, ∀ p ∈ m, ReaderRow p)
    (hc : ∀ m ∈ ms, ∀ p ∈ m, CleanRow p) : measuresOf (renderRows ms) = scanRows (renderRows ms) := by
  rw [measuresOf_renderRows ms hne hr, scanRows_renderRows ms hne hc]

end Reamber.SM
