/-
C13 — bridges between the typed charts of the format models (Model/Qua.lean, Model/Osu.lean) and the frames the
rate model works on: each typed list becomes the frame the library holds for it (columns in the source's order),
and rating the frames is rating the typed rows.
-/
import Reamber.Lemmas.RateLaws
import Reamber.Model.Qua
import Reamber.Model.Osu

namespace Reamber.Rate

/-! ### frames built row by row -/

theorem wf_mk {α} (cols : List String) (l : List α) (g : α → List Cell) (hn : nodupB cols = true)
    (hl : ∀ a, (g a).length = cols.length) : Frame.wf ⟨cols, l.map g⟩ = true := by
  simp [Frame.wf, hn, List.all_map, Function.comp_def, hl]

theorem numericCols_mk {α} (cols : List String) (l : List α) (g : α → List Cell)
    (h : ∀ a, ∀ c ∈ ["offset", "bpm", "length"], (lookupCell cols (g a) c).numeric = true) :
    Frame.numericCols ⟨cols, l.map g⟩ = true := by
  simp only [Frame.numericCols, List.all_eq_true, Frame.col, List.map_map, List.mem_map]
  rintro c hc x ⟨a, _, rfl⟩
  exact h a c hc

theorem listsOk_of (fs : List Frame) (h1 : ∀ f ∈ fs, f.wf = true) (h2 : ∀ f ∈ fs, f.numericCols = true)
    (h3 : hasCol fs "offset" = true) (h4 : hasCol fs "bpm" = true) (h5 : hasCol fs "length" = true) :
    listsOk fs = true := by
  simp only [listsOk, Bool.and_eq_true, List.all_eq_true]
  exact ⟨⟨⟨⟨h1, h2⟩, h3⟩, h4⟩, h5⟩

/-! ### Quaver -/

def ksEnc : Qua.KsCell → Cell
  | .nan => .nan
  | .list l => .other (toString (repr l))

/-- a `QuaMap` as `objs` holds it (svs, hits, holds, bpms) -/
def encQua (c : Qua.Chart) : Chart :=
  { lists := [("svs", ⟨["multiplier", "offset"], c.svs.map fun s => [.num s.multiplier, .num s.offset]⟩),
              ("hits", ⟨["column", "offset", "keysounds"],
                        c.hits.map fun h => [.num (h.column : Rat), .num h.offset, ksEnc h.keysounds]⟩),
              ("holds", ⟨["keysounds", "length", "column", "offset"],
                         c.holds.map fun h => [ksEnc h.keysounds, .num h.length, .num (h.column : Rat), .num h.offset]⟩),
              ("bpms", ⟨["bpm", "metronome", "offset"], c.bpms.map fun b => [.num b.bpm, .num b.metronome, .num b.offset]⟩)],
    samples := none, preview := none, extra := [] }

/-- the rated Quaver chart, row by row -/
def scaleQua (r : Rat) (c : Qua.Chart) : Qua.Chart :=
  { c with
    hits := c.hits.map fun h => { h with offset := h.offset / r },
    holds := c.holds.map fun h => { h with offset := h.offset / r, length := h.length / r },
    bpms := c.bpms.map fun b => { b with offset := b.offset / r, bpm := b.bpm * r },
    svs := c.svs.map fun s => { s with offset := s.offset / r } }

theorem chartOk_encQua (c : Qua.Chart) : chartOk .qua (encQua c) = true := by
  simp [chartOk, encQua, listsOk, Frame.wf, nodupB, Frame.numericCols, Frame.col, lookupCell, Cell.numeric, hasCol,
    List.all_map, Function.comp_def]

theorem scaleChart_encQua (r : Rat) (c : Qua.Chart) : scaleChart .qua r (encQua c) = encQua (scaleQua r c) := by
  simp [scaleChart, encQua, scaleQua, scaleFrame, scaleRow, scaleCell, timeCols, durCols, bpmCols, List.map_map,
    Function.comp_def]
  constructor <;> intro a _ <;> cases a.keysounds <;> rfl

/-! ### osu -/

def strCell (s : List Char) : Cell := .str (String.ofList s)

/-- an `OsuMap` as `objs` holds it (svs, hits, holds, bpms), its sample events and preview point -/
def encOsu (c : Osu.Chart) : Chart :=
  { lists := [("svs", ⟨["multiplier", "sample_set", "sample_set_index", "volume", "kiai", "offset"],
                       c.svs.map fun s => [.num s.multiplier, .num (s.sampleSet : Rat), .num (s.sampleSetIndex : Rat),
                                           .num (s.volume : Rat), .bool s.kiai, .num s.offset]⟩),
              ("hits", ⟨["column", "offset", "hitsound_set", "sample_set", "addition_set", "custom_set", "volume", "hitsound_file"],
                        c.hits.map fun h => [.num (h.column : Rat), .num h.offset, .num (h.hitsoundSet : Rat), .num (h.sampleSet : Rat),
                                             .num (h.additionSet : Rat), .num (h.customSet : Rat), .num (h.volume : Rat), strCell h.file]⟩),
              ("holds", ⟨["length", "column", "offset", "hitsound_set", "sample_set", "addition_set", "custom_set", "volume", "hitsound_file"],
                         c.holds.map fun h => [.num h.length, .num (h.column : Rat), .num h.offset, .num (h.hitsoundSet : Rat),
                                               .num (h.sampleSet : Rat), .num (h.additionSet : Rat), .num (h.customSet : Rat),
                                               .num (h.volume : Rat), strCell h.file]⟩),
              ("bpms", ⟨["sample_set", "sample_set_index", "volume", "kiai", "bpm", "metronome", "offset"],
                        c.bpms.map fun b => [.num (b.sampleSet : Rat), .num (b.sampleSetIndex : Rat), .num (b.volume : Rat), .bool b.kiai,
                                             .num b.bpm, .num b.metronome, .num b.offset]⟩)],
    samples := some ⟨["offset", "sample_file", "volume"],
                     c.md.samples.map fun s => [.num s.offset, strCell s.file, .num (s.volume : Rat)]⟩,
    preview := some c.md.previewTime, extra := [] }

/-- the rated osu chart, row by row, with its sample events and preview point -/
def scaleOsu (r : Rat) (c : Osu.Chart) : Osu.Chart :=
  { c with
    md := { c.md with previewTime := c.md.previewTime / r,
                      samples := c.md.samples.map fun s => { s with offset := s.offset / r } },
    hits := c.hits.map fun h => { h with offset := h.offset / r },
    holds := c.holds.map fun h => { h with offset := h.offset / r, length := h.length / r },
    bpms := c.bpms.map fun b => { b with offset := b.offset / r, bpm := b.bpm * r },
    svs := c.svs.map fun s => { s with offset := s.offset / r } }

theorem chartOk_encOsu (c : Osu.Chart) (hp : 0 ≤ c.md.previewTime) : chartOk .osu (encOsu c) = true := by
  simp only [chartOk, Bool.and_eq_true, if_true]
  constructor
  · apply listsOk_of
    · intro f hf
      simp only [encOsu, List.map_cons, List.map_nil, List.mem_cons, List.not_mem_nil, or_false] at hf
      rcases hf with rfl | rfl | rfl | rfl <;> exact wf_mk _ _ _ (by decide) (fun a => by simp)
    · intro f hf
      simp only [encOsu, List.map_cons, List.map_nil, List.mem_cons, List.not_mem_nil, or_false] at hf
      rcases hf with rfl | rfl | rfl | rfl <;>
        exact numericCols_mk _ _ _ (fun a c hc => by
          simp only [List.mem_cons, List.not_mem_nil, or_false] at hc
          rcases hc with rfl | rfl | rfl <;> simp [lookupCell, Cell.numeric])
    · simp [hasCol, encOsu]
    · simp [hasCol, encOsu]
    · simp [hasCol, encOsu]
  · simp only [encOsu, samplesOk, Bool.and_eq_true]
    refine ⟨⟨⟨⟨⟨wf_mk _ _ _ (by decide) (fun a => by simp), by decide⟩, ?_⟩, by decide⟩, by decide⟩, by simpa using hp⟩
    simp [Frame.col, lookupCell, Cell.numeric, List.all_map, Function.comp_def]

theorem scaleChart_encOsu (r : Rat) (c : Osu.Chart) (hp : 0 ≤ c.md.previewTime) : scaleChart .osu r (encOsu c) = encOsu (scaleOsu r c) := by
  simp [scaleChart, encOsu, scaleOsu, scaleFrame, scaleRow, scaleCell, strCell, timeCols, durCols, bpmCols, List.map_map,
    Function.comp_def, scalePreview, not_lt.mpr hp]

end Reamber.Rate
