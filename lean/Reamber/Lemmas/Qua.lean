/-
Helper lemmas for C06 (Quaver): truncation, `mapE`, association lists, tags split/join.
-/
import Reamber.Model.Qua
import Reamber.Spec.Qua
import Mathlib.Tactic.Linarith
import Mathlib.Algebra.Order.Field.Rat

namespace Reamber.Qua

/-! ### `astype(int)` moves a time by less than 1 ms -/

theorem truncI_le_of_nonneg (q : Rat) (h : 0 ≤ q) : (truncI q : Rat) ≤ q ∧ q < (truncI q : Rat) + 1 := by
  unfold truncI
  rw [if_pos h]
  refine ⟨Rat.floor_le q, ?_⟩
  have := Rat.lt_floor_add_one q
  push_cast at this
  exact this

theorem truncI_ge_of_neg (q : Rat) (h : ¬ 0 ≤ q) : q ≤ (truncI q : Rat) ∧ (truncI q : Rat) - 1 < q := by
  unfold truncI
  rw [if_neg h]
  have h1 := Rat.floor_le (-q)
  have h2 := Rat.lt_floor_add_one (-q)
  push_cast at h2 ⊢
  constructor <;> linarith

theorem truncI_close (q : Rat) : (truncI q : Rat) - q < 1 ∧ q - (truncI q : Rat) < 1 := by
  by_cases h : 0 ≤ q
  · obtain ⟨h1, h2⟩ := truncI_le_of_nonneg q h
    constructor <;> linarith
  · obtain ⟨h1, h2⟩ := truncI_ge_of_neg q h
    constructor <;> linarith

theorem truncI_intCast (i : Int) : truncI (i : Rat) = i := by
  unfold truncI
  by_cases h : (0 : Rat) ≤ (i : Rat)
  · rw [if_pos h, Rat.floor_intCast]
  · rw [if_neg h]
    have : (-(i : Rat)) = ((-i : Int) : Rat) := by push_cast; rfl
    rw [this, Rat.floor_intCast]; omega

theorem add_sub_self (a b : Rat) : a + (b - a) = b := by linarith

/-! ### `mapE` -/

theorem mapE_ok {α β} (f : α → Except Err β) (g : α → β) :
    ∀ l : List α, (∀ a ∈ l, f a = .ok (g a)) → mapE f l = .ok (l.map g)
  | [], _ => rfl
  | a :: t, h => by
    have ha := h a (by simp)
    have ht := mapE_ok f g t (fun b hb => h b (by simp [hb]))
    simp [mapE, ha, ht, bind, Except.bind]

theorem mapE_map_ok {α β γ} (f : β → Except Err γ) (w : α → β) (q : α → γ) (h : ∀ a, f (w a) = .ok (q a)) :
    ∀ l : List α, mapE f (l.map w) = .ok (l.map q)
  | [] => rfl
  | a :: t => by simp [mapE, h a, mapE_map_ok f w q h t, bind, Except.bind]

theorem mapE_congr {α β} (f g : α → Except Err β) :
    ∀ l : List α, (∀ a ∈ l, f a = g a) → mapE f l = mapE g l
  | [], _ => rfl
  | a :: t, h => by
    have ha := h a (by simp)
    have ht := mapE_congr f g t (fun b hb => h b (by simp [hb]))
    simp [mapE, ha, ht]

/-- a property carried from the inputs to the outputs of a successful `mapE` -/
theorem mapE_all {α β} (f : α → Except Err β) (P : α → Bool) (Q : β → Bool)
    (hf : ∀ a b, P a = true → f a = .ok b → Q b = true) :
    ∀ (l : List α) (l' : List β), mapE f l = .ok l' → l.all P = true → l'.all Q = true
  | [], l', h, _ => by
    simp [mapE] at h; subst h; rfl
  | a :: t, l', h, hp => by
    simp only [mapE, bind, Except.bind] at h
    cases hfa : f a with
    | error e => rw [hfa] at h; simp at h
    | ok b =>
      rw [hfa] at h
      cases hft : mapE f t with
      | error e => rw [hft] at h; simp at h
      | ok r =>
        rw [hft] at h
        simp at h
        subst h
        simp only [List.all_cons, Bool.and_eq_true] at hp ⊢
        exact ⟨hf a b hp.1 hfa, mapE_all f P Q hf t r hft hp.2⟩

/-! ### association lists -/

/-- in a list with distinct keys every entry is found under its key -/
theorem lookup_of_mem_nodup : ∀ (m : Rec) (k : String) (v : YV),
    (m.map Prod.fst).Nodup → (k, v) ∈ m → m.lookup k = some v
  | [], _, _, _, h => by simp at h
  | (a, b) :: t, k, v, hn, h => by
    simp only [List.map_cons, List.nodup_cons] at hn
    simp only [List.mem_cons, Prod.mk.injEq] at h
    rcases h with ⟨rfl, rfl⟩ | h
    · simp [List.lookup]
    · have hne : k ≠ a := by
        intro e; subst e
        exact hn.1 (List.mem_map.mpr ⟨(k, v), h, rfl⟩)
      have : (k == a) = false := by simpa using hne
      simp only [List.lookup, this]
      exact lookup_of_mem_nodup t k v hn.2 h

/-- rewriting the value stored under one key does not change what is found under another key -/
theorem lookup_map_other {β} (g : β) (k0 : String) : ∀ (tbl : List (String × β)) (k : String), k ≠ k0 →
    (tbl.map (fun kt => if kt.1 = k0 then (kt.1, g) else kt)).lookup k = tbl.lookup k
  | [], _, _ => rfl
  | (a, b) :: t, k, hk => by
    by_cases ha : a = k0
    · subst ha
      have : (k == a) = false := by simpa using hk
      simp [List.lookup, this, lookup_map_other g a t k hk]
    · simp only [List.map_cons, ha, if_false]
      cases hka : k == a <;> simp [List.lookup, hka, lookup_map_other g k0 t k hk]

/-! ### tags -/

def noSp (w : List Char) : Prop := ' ' ∉ w

theorem splitSp_word : ∀ (w : List Char), noSp w → splitSp w = [w]
  | [], _ => rfl
  | c :: w, h => by
    have hc : c ≠ ' ' := by intro e; apply h; simp [e]
    have hw : noSp w := by intro e; apply h; simp [e]
    simp [splitSp, hc, splitSp_word w hw]

theorem splitSp_word_sp : ∀ (w rest : List Char), noSp w → splitSp (w ++ ' ' :: rest) = w :: splitSp rest
  | [], rest, _ => by simp [splitSp]
  | c :: w, rest, h => by
    have hc : c ≠ ' ' := by intro e; apply h; simp [e]
    have hw : noSp w := by intro e; apply h; simp [e]
    simp [splitSp, hc, splitSp_word_sp w rest hw]

theorem splitSp_joinSp : ∀ (ws : List (List Char)), ws ≠ [] → (∀ w ∈ ws, noSp w) → splitSp (joinSp ws) = ws
  | [], h, _ => absurd rfl h
  | [w], _, hw => by simpa [joinSp] using splitSp_word w (hw w (by simp))
  | w :: w' :: ws, _, hw => by
    simp only [joinSp]
    rw [splitSp_word_sp w _ (hw w (by simp))]
    rw [splitSp_joinSp (w' :: ws) (by simp) (fun x hx => hw x (by simp [hx]))]

theorem tagOk_iff (t : String) : Spec.tagOk t = true ↔ t.toList ≠ [] ∧ noSp t.toList := by
  simp [Spec.tagOk, noSp]

theorem tagsOf_joinTags (l : List String) (h : l.all Spec.tagOk = true) : tagsOf (joinTags l) = l := by
  have h' : ∀ t ∈ l, t.toList ≠ [] ∧ noSp t.toList := by
    intro t ht
    exact (tagOk_iff t).mp (List.all_eq_true.mp h t ht)
  unfold tagsOf joinTags
  rw [String.toList_ofList]
  by_cases hl : l = []
  · subst hl; simp [joinSp, splitSp]
  · rw [splitSp_joinSp (l.map String.toList) (by simpa using hl)
      (by intro w hw; obtain ⟨t, ht, rfl⟩ := List.mem_map.mp hw; exact (h' t ht).2)]
    have hf : (l.map String.toList).filter (fun w => !w.isEmpty) = l.map String.toList := by
      apply List.filter_eq_self.mpr
      intro w hw
      obtain ⟨t, ht, rfl⟩ := List.mem_map.mp hw
      simpa [List.isEmpty_iff] using (h' t ht).1
    rw [hf, List.map_map]
    conv => rhs; rw [← List.map_id l]
    apply List.map_congr_left
    intro t _
    simp [String.ofList_toList]

/-- every token `split(" ")` produces is free of spaces -/
theorem splitSp_noSp : ∀ (s : List Char), ∀ w ∈ splitSp s, noSp w
  | [], w, hw => by simp [splitSp] at hw; subst hw; simp [noSp]
  | c :: cs, w, hw => by
    by_cases hc : c = ' '
    · simp only [splitSp, hc, if_true, List.mem_cons] at hw
      rcases hw with rfl | hw
      · simp [noSp]
      · exact splitSp_noSp cs w hw
    · simp only [splitSp, hc, if_false] at hw
      cases hs : splitSp cs with
      | nil => rw [hs] at hw; simp at hw; subst hw; simpa [noSp] using fun e => hc e.symm
      | cons x xs =>
        rw [hs] at hw
        simp only [List.mem_cons] at hw
        rcases hw with rfl | hw
        · have hx := splitSp_noSp cs x (by rw [hs]; simp)
          intro e
          simp only [List.mem_cons] at e
          rcases e with e | e
          · exact hc e.symm
          · exact hx e
        · exact splitSp_noSp cs w (by rw [hs]; simp [hw])

theorem tagsOf_ok (s : String) : (tagsOf s).all Spec.tagOk = true := by
  rw [List.all_eq_true]
  intro t ht
  unfold tagsOf at ht
  obtain ⟨w, hw, rfl⟩ := List.mem_map.mp ht
  rw [List.mem_filter] at hw
  rw [tagOk_iff, String.toList_ofList]
  refine ⟨?_, splitSp_noSp _ w hw.1⟩
  simpa [List.isEmpty_iff] using hw.2

end Reamber.Qua
