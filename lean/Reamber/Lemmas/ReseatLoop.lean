/-
C11 helper lemmas, part 2: the whole `while` loop.  `seatFromD` is a head-first, purely structural description of
what the loop produces when branch 2 never fires (no index arithmetic, no in-place updates): per original
interval one of  keep / stretched copy / copy + stretched point / squeezed copy / copy + squeezed point.
`loop_ref` proves that the loop of the model — with its `set`/`insert` on the list it is walking, its second pass
over an inserted point, and its fuel — computes exactly that.
-/
import Mathlib.Tactic.Ring
import Mathlib.Tactic.Linarith
import Mathlib.Tactic.FieldSimp
import Mathlib.Algebra.Order.Field.Rat
import Reamber.Lemmas.ReseatZip

namespace Reamber.Timing

/-- emitted points and the measure of the next original change, for one original interval of `D` beats
starting at the seated point `cur` (measure `m`) -/
def stepRef (thr : Rat) (m : Int) (cur : BcSnap) (D : Rat) : List BcSnap × Int :=
  let md := D / cur.met
  if 0 < frac md ∧ frac md ≤ thr then
    if ffloor md = 1 then
      ([⟨cur.bpm / (frac md + 1), cur.met, ⟨m + ffloor md - 1, 0, some cur.met⟩⟩], m + ffloor md)
    else
      ([cur, ⟨cur.bpm / (frac md + 1), cur.met, ⟨m + ffloor md - 1, 0, some cur.met⟩⟩], m + ffloor md)
  else if frac md > thr then
    if ffloor md = 0 then
      ([⟨cur.bpm / frac md, cur.met, ⟨m + ffloor md, 0, some cur.met⟩⟩], m + ffloor md + 1)
    else
      ([cur, ⟨cur.bpm / frac md, cur.met, ⟨m + ffloor md, 0, some cur.met⟩⟩], m + ffloor md + 1)
  else ([cur], m + ffloor md)

/-- the reseated list, head first -/
def seatFromD (thr : Rat) : Int → BcSnap → List (Rat × BcSnap) → List BcSnap
  | _, cur, [] => [cur]
  | m, cur, (D, nx) :: rest =>
    (stepRef thr m cur D).1 ++ seatFromD thr (stepRef thr m cur D).2 (seatAt nx (stepRef thr m cur D).2) rest

/-- beat distances between consecutive changes of the (ascending) input -/
def distsOf : BcSnap → List BcSnap → List (Rat × BcSnap)
  | _, [] => []
  | a, b :: rest => (beatDist a b, b) :: distsOf b rest

/-- the relative offsets the loop starts from: each one is the previous plus distance × beat length -/
def offsChain : Rat → Rat → List (Rat × BcSnap) → List Rat → Prop
  | _, _, [], [] => True
  | o0, bl, (D, nx) :: rest, o1 :: os => o1 = o0 + D * bl ∧ offsChain o1 (beatLen nx.bpm) rest os
  | _, _, _, _ => False

/-- hypotheses on one original interval: positive tempo and metronome, the metronome is not "whole + tiny",
branch 2 does not fire (D16), the gap is not shorter than the threshold (D16b) -/
structure IntervalOK (thr bpm met D : Rat) : Prop where
  bpm_pos : 0 < bpm
  met_pos : 0 < met
  met_ok : ¬ (0 < frac met ∧ frac met ≤ thr)
  d_nonneg : 0 ≤ D
  no_b2 : ¬ (¬ (0 < frac (D / met) ∧ frac (D / met) ≤ thr) ∧ 0 < frac D ∧ frac D ≤ thr)
  no_tiny : ¬ (0 < D / met ∧ D / met ≤ thr)

def HypsL (thr : Rat) : Rat → Rat → List (Rat × BcSnap) → Prop
  | _, _, [] => True
  | bpm, met, (D, nx) :: rest => IntervalOK thr bpm met D ∧ HypsL thr nx.bpm nx.met rest

/-! ### arithmetic -/

theorem floor_add_frac (x : Rat) : x = ((ffloor x : Int) : Rat) + frac x := by
  unfold frac ffloor; ring

theorem rs_frac_nonneg (x : Rat) : 0 ≤ frac x := by
  unfold frac
  have := Rat.floor_le x
  linarith

theorem rs_frac_lt_one (x : Rat) : frac x < 1 := by
  unfold frac
  have := Rat.lt_floor_add_one x
  push_cast at this
  linarith

theorem ffloor_nonneg {x : Rat} (h : 0 ≤ x) : 0 ≤ ffloor x := by
  unfold ffloor
  exact Rat.le_floor_iff.mpr (by simpa using h)

theorem frac_one : frac 1 = 0 := by decide +kernel
theorem ffloor_one : ffloor 1 = 1 := by decide +kernel

theorem rs_beatLen_pos {bpm : Rat} (h : 0 < bpm) : 0 < beatLen bpm := by
  unfold beatLen minToMsec; exact div_pos (by norm_num) h

theorem od_meas {o0 o1 D bpm met : Rat} (hb : 0 < bpm) (hm : 0 < met) (h : o1 = o0 + D * beatLen bpm) :
    (o1 - o0) / measLen bpm met = D / met := by
  have := rs_beatLen_pos hb
  subst h; unfold measLen; field_simp; ring

theorem od_beat {o0 o1 D bpm : Rat} (hb : 0 < bpm) (h : o1 = o0 + D * beatLen bpm) :
    (o1 - o0) / beatLen bpm = D := by
  have := rs_beatLen_pos hb
  subst h; field_simp; ring

/-- second pass after branch 1 inserted the stretched point: exactly one (stretched) measure is left -/
theorem second_b1 {o0 o1 D bpm met q r : Rat} (hb : 0 < bpm) (hm : 0 < met) (hr : 0 < r)
    (h : o1 = o0 + D * beatLen bpm) (hD : D / met = q + r) :
    (o1 - ((q - 1) * measLen bpm met + o0)) / measLen (bpm / (r + 1)) met = 1 ∧
    (o1 - ((q - 1) * measLen bpm met + o0)) / beatLen (bpm / (r + 1)) = met := by
  have hD' : D = (q + r) * met := by field_simp at hD; linarith
  subst h; subst hD'
  unfold measLen beatLen minToMsec
  have : r + 1 ≠ 0 := by linarith
  constructor <;> (field_simp; ring)

/-- second pass after branch 3 inserted the squeezed point -/
theorem second_b3 {o0 o1 D bpm met q r : Rat} (hb : 0 < bpm) (hm : 0 < met) (hr : 0 < r)
    (h : o1 = o0 + D * beatLen bpm) (hD : D / met = q + r) :
    (o1 - (q * measLen bpm met + o0)) / measLen (bpm / r) met = 1 ∧
    (o1 - (q * measLen bpm met + o0)) / beatLen (bpm / r) = met := by
  have hD' : D = (q + r) * met := by field_simp at hD; linarith
  subst h; subst hD'
  unfold measLen beatLen minToMsec
  have : r ≠ 0 := by linarith
  constructor <;> (field_simp; ring)

/-! ### the loop -/

theorem loop_nil (thr : Rat) (done : List BcSnap) (doneO : List Rat) (cur : BcSnap) (o0 : Rat) (m : Int) (fuel : Nat) :
    reseatLoop thr fuel (zst done doneO cur o0 [] [] m) = .ok (zst done doneO cur o0 [] [] m) := by
  cases fuel with
  | zero => rfl
  | succ f => simp [reseatLoop, zst]

theorem loop_succ (thr : Rat) (f : Nat) (st : RState) (h : st.i + 1 ≠ st.bcs.length) :
    reseatLoop thr (f + 1) st = (reseatStep thr st).bind (reseatLoop thr f) := by
  rw [reseatLoop, if_neg h]; rfl

theorem zst_guard (done : List BcSnap) (doneO : List Rat) (cur nx : BcSnap) (o0 : Rat) (rest : List BcSnap)
    (pendO : List Rat) (m : Int) :
    (zst done doneO cur o0 (nx :: rest) pendO m).i + 1 ≠ (zst done doneO cur o0 (nx :: rest) pendO m).bcs.length := by
  simp [zst]

/-- one original interval = one or two iterations of the loop, and what they leave behind -/
theorem macro_step (thr : Rat) (hthr : 0 ≤ thr) (done : List BcSnap) (doneO : List Rat) (cur nx : BcSnap) (o0 o1 : Rat)
    (rest : List BcSnap) (os : List Rat) (m : Int) (D : Rat) (hlen : doneO.length = done.length) (hm : 0 ≤ m)
    (ho1 : o1 = o0 + D * beatLen cur.bpm) (hI : IntervalOK thr cur.bpm cur.met D) :
    ∃ (k : Nat) (doneO' : List Rat), k ≤ 2 ∧ 1 ≤ k ∧ doneO'.length = (done ++ (stepRef thr m cur D).1).length ∧
      0 ≤ (stepRef thr m cur D).2 ∧
      ∀ f, reseatLoop thr (f + k) (zst done doneO cur o0 (nx :: rest) (o1 :: os) m) =
        reseatLoop thr f (zst (done ++ (stepRef thr m cur D).1) doneO' (seatAt nx (stepRef thr m cur D).2) o1 rest os
          (stepRef thr m cur D).2) := by
  have e1 := od_meas hI.bpm_pos hI.met_pos ho1
  have e2 := od_beat hI.bpm_pos ho1
  have hmq : 0 ≤ ffloor (D / cur.met) := ffloor_nonneg (div_nonneg hI.d_nonneg hI.met_pos.le)
  have hdec := floor_add_frac (D / cur.met)
  by_cases c1 : 0 < frac (D / cur.met) ∧ frac (D / cur.met) ≤ thr
  · -- branch 1
    have hq1 : 1 ≤ ffloor (D / cur.met) := by
      by_contra hc
      have h0 : ffloor (D / cur.met) = 0 := by omega
      rw [h0] at hdec
      apply hI.no_tiny
      constructor
      · rw [hdec]; simpa using c1.1
      · rw [hdec]; simpa using c1.2
    have hs := step_b1 thr done doneO cur nx o0 o1 rest os m hlen hI.met_pos (by rw [e1]; exact c1) (by rw [e1]; omega)
    simp only [e1] at hs
    by_cases hq : ffloor (D / cur.met) = 1
    · have hsr : stepRef thr m cur D =
          ([⟨cur.bpm / (frac (D / cur.met) + 1), cur.met, ⟨m + ffloor (D / cur.met) - 1, 0, some cur.met⟩⟩],
            m + ffloor (D / cur.met)) := by
        simp only [stepRef, c1, and_self, if_true, hq]
      rw [if_pos hq] at hs
      refine ⟨1, doneO ++ [((ffloor (D / cur.met) : Int) - 1 : Rat) * measLen cur.bpm cur.met + o0], by omega, by omega, ?_, ?_, ?_⟩
      · rw [hsr]; simp [hlen]
      · rw [hsr]; simp only; omega
      · intro f
        rw [loop_succ _ _ _ (zst_guard _ _ _ _ _ _ _ _), hs, hsr]; rfl
    · have hsr : stepRef thr m cur D =
          ([cur, ⟨cur.bpm / (frac (D / cur.met) + 1), cur.met, ⟨m + ffloor (D / cur.met) - 1, 0, some cur.met⟩⟩],
            m + ffloor (D / cur.met)) := by
        simp only [stepRef, c1, and_self, if_true, hq, if_false]
      rw [if_neg hq] at hs
      obtain ⟨s1, s2⟩ := second_b1 (q := ((ffloor (D / cur.met) : Int) : Rat)) hI.bpm_pos hI.met_pos c1.1 ho1 hdec
      have hk := step_keep thr (done ++ [cur]) (doneO ++ [o0])
        ⟨cur.bpm / (frac (D / cur.met) + 1), cur.met, ⟨m + ffloor (D / cur.met) - 1, 0, some cur.met⟩⟩ nx
        (((ffloor (D / cur.met) : Int) - 1 : Rat) * measLen cur.bpm cur.met + o0) o1 rest os (m + ffloor (D / cur.met) - 1)
        (by simp [hlen])
      dsimp only at hk
      rw [s1, s2, frac_one, ffloor_one] at hk
      have hk' := hk (fun h => lt_irrefl _ h.1) hI.met_ok (not_lt.mpr hthr)
      have hmm : m + ffloor (D / cur.met) - 1 + 1 = m + ffloor (D / cur.met) := by omega
      rw [hmm] at hk'
      refine ⟨2, (doneO ++ [o0]) ++ [((ffloor (D / cur.met) : Int) - 1 : Rat) * measLen cur.bpm cur.met + o0], by omega, by omega, ?_, ?_, ?_⟩
      · rw [hsr]; simp [hlen]
      · rw [hsr]; simp only; omega
      · intro f
        rw [show f + 2 = (f + 1) + 1 from rfl, loop_succ _ _ _ (zst_guard _ _ _ _ _ _ _ _), hs]
        show reseatLoop thr (f + 1) _ = _
        rw [loop_succ _ _ _ (zst_guard _ _ _ _ _ _ _ _), hk', hsr]
        simp only [Except.bind, List.append_assoc, List.cons_append, List.nil_append]
  · by_cases c3 : frac (D / cur.met) > thr
    · -- branch 3
      have c2 : ¬ (0 < frac D ∧ frac D ≤ thr) := fun h => hI.no_b2 ⟨c1, h⟩
      have hr : 0 < frac (D / cur.met) := lt_of_le_of_lt hthr c3
      have hs := step_b3 thr done doneO cur nx o0 o1 rest os m hlen hI.met_pos (by rw [e1]; exact c1) (by rw [e2]; exact c2)
        (by rw [e1]; exact c3) (by rw [e1]; omega)
      simp only [e1] at hs
      by_cases hq : ffloor (D / cur.met) = 0
      · have hsr : stepRef thr m cur D =
            ([⟨cur.bpm / frac (D / cur.met), cur.met, ⟨m + ffloor (D / cur.met), 0, some cur.met⟩⟩],
              m + ffloor (D / cur.met) + 1) := by
          simp only [stepRef, c1, if_false, c3, if_true, hq]
        rw [if_pos hq] at hs
        refine ⟨1, doneO ++ [((ffloor (D / cur.met) : Int) : Rat) * measLen cur.bpm cur.met + o0], by omega, by omega, ?_, ?_, ?_⟩
        · rw [hsr]; simp [hlen]
        · rw [hsr]; simp only; omega
        · intro f
          rw [loop_succ _ _ _ (zst_guard _ _ _ _ _ _ _ _), hs, hsr]; rfl
      · have hsr : stepRef thr m cur D =
            ([cur, ⟨cur.bpm / frac (D / cur.met), cur.met, ⟨m + ffloor (D / cur.met), 0, some cur.met⟩⟩],
              m + ffloor (D / cur.met) + 1) := by
          simp only [stepRef, c1, if_false, c3, if_true, hq]
        rw [if_neg hq] at hs
        obtain ⟨s1, s2⟩ := second_b3 (q := ((ffloor (D / cur.met) : Int) : Rat)) hI.bpm_pos hI.met_pos hr ho1 hdec
        have hk := step_keep thr (done ++ [cur]) (doneO ++ [o0])
          ⟨cur.bpm / frac (D / cur.met), cur.met, ⟨m + ffloor (D / cur.met), 0, some cur.met⟩⟩ nx
          (((ffloor (D / cur.met) : Int) : Rat) * measLen cur.bpm cur.met + o0) o1 rest os (m + ffloor (D / cur.met))
          (by simp [hlen])
        dsimp only at hk
        rw [s1, s2, frac_one, ffloor_one] at hk
        have hk' := hk (fun h => lt_irrefl _ h.1) hI.met_ok (not_lt.mpr hthr)
        refine ⟨2, (doneO ++ [o0]) ++ [((ffloor (D / cur.met) : Int) : Rat) * measLen cur.bpm cur.met + o0], by omega, by omega, ?_, ?_, ?_⟩
        · rw [hsr]; simp [hlen]
        · rw [hsr]; simp only; omega
        · intro f
          rw [show f + 2 = (f + 1) + 1 from rfl, loop_succ _ _ _ (zst_guard _ _ _ _ _ _ _ _), hs]
          show reseatLoop thr (f + 1) _ = _
          rw [loop_succ _ _ _ (zst_guard _ _ _ _ _ _ _ _), hk', hsr]
          simp only [Except.bind, List.append_assoc, List.cons_append, List.nil_append]
    · -- no branch: the remainder is zero
      have hr0 : frac (D / cur.met) = 0 := by
        have := rs_frac_nonneg (D / cur.met)
        by_contra hne
        exact c1 ⟨lt_of_le_of_ne this (Ne.symm hne), not_lt.mp c3⟩
      have c2 : ¬ (0 < frac D ∧ frac D ≤ thr) := fun h => hI.no_b2 ⟨c1, h⟩
      have hs := step_keep thr done doneO cur nx o0 o1 rest os m hlen (by rw [e1]; exact c1) (by rw [e2]; exact c2)
        (by rw [e1]; exact c3)
      simp only [e1] at hs
      have hsr : stepRef thr m cur D = ([cur], m + ffloor (D / cur.met)) := by
        simp only [stepRef, c1, if_false, c3]
      refine ⟨1, doneO ++ [o0], by omega, by omega, ?_, ?_, ?_⟩
      · rw [hsr]; simp [hlen]
      · rw [hsr]; simp only; omega
      · intro f
        rw [loop_succ _ _ _ (zst_guard _ _ _ _ _ _ _ _), hs, hsr]; rfl

/-- **the loop computes `seatFromD`** (any amount of fuel ≥ 2 per remaining original interval) -/
theorem loop_ref (thr : Rat) (hthr : 0 ≤ thr) :
    ∀ (pairs : List (Rat × BcSnap)) (done : List BcSnap) (doneO : List Rat) (cur : BcSnap) (o0 : Rat) (pendO : List Rat)
      (m : Int) (fuel : Nat),
      doneO.length = done.length → 0 ≤ m → offsChain o0 (beatLen cur.bpm) pairs pendO →
      HypsL thr cur.bpm cur.met pairs → 2 * pairs.length ≤ fuel →
      ∃ st, reseatLoop thr fuel (zst done doneO cur o0 (pairs.map Prod.snd) pendO m) = .ok st ∧
        st.bcs = done ++ seatFromD thr m cur pairs := by
  intro pairs
  induction pairs with
  | nil =>
    intro done doneO cur o0 pendO m fuel _ _ hch _ _
    cases pendO with
    | nil => exact ⟨_, loop_nil .., by simp [zst, seatFromD]⟩
    | cons a t => simp [offsChain] at hch
  | cons p rest ih =>
    obtain ⟨D, nx⟩ := p
    intro done doneO cur o0 pendO m fuel hlen hm hch hh hf
    cases pendO with
    | nil => simp [offsChain] at hch
    | cons o1 os =>
      simp only [offsChain] at hch
      obtain ⟨ho1, hch'⟩ := hch
      obtain ⟨hI, hh'⟩ := hh
      obtain ⟨k, doneO', hk2, hk1, hlen', hm', hstep⟩ :=
        macro_step thr hthr done doneO cur nx o0 o1 (rest.map Prod.snd) os m D hlen hm ho1 hI
      simp only [List.length_cons] at hf
      obtain ⟨f, rfl⟩ : ∃ f, fuel = f + k := ⟨fuel - k, by omega⟩
      obtain ⟨st, hst, hb⟩ := ih (done ++ (stepRef thr m cur D).1) doneO' (seatAt nx (stepRef thr m cur D).2) o1 os
        (stepRef thr m cur D).2 f hlen' hm' hch' hh' (by omega)
      refine ⟨st, ?_, ?_⟩
      · rw [List.map_cons, hstep f]; exact hst
      · rw [hb]; simp [seatFromD]

end Reamber.Timing
