/-
K4 — the sorting permutation the driver uses for `np.argsort` (`stableArgsort`) is a permutation of the indices and
arranges the keys in ascending order; so the theorems that quantify over ANY ascending sorting permutation apply
to the executable `offsets` / `snaps` / `beats` the correspondence check runs.
-/
import Reamber.Lemmas.TimingBeats

namespace Reamber.Timing

section
variable {α : Type} [Inhabited α] (lt : α → α → Bool) (xs : List α)

theorem insertIdx_perm (i : Nat) (acc : List Nat) : (insertIdx lt xs i acc).Perm (i :: acc) := by
  induction acc with
  | nil => simp [insertIdx]
  | cons j js ih =>
    unfold insertIdx
    split
    · exact List.Perm.refl _
    · exact (List.Perm.cons j ih).trans (List.Perm.swap i j js)

theorem foldl_insertIdx_perm (l acc : List Nat) :
    (l.foldl (fun acc i => insertIdx lt xs i acc) acc).Perm (l.reverse ++ acc) := by
  induction l generalizing acc with
  | nil => simp
  | cons i t ih =>
    simp only [List.foldl_cons, List.reverse_cons, List.append_assoc, List.singleton_append]
    exact (ih _).trans (List.Perm.append_left _ (insertIdx_perm lt xs i acc))

theorem stableArgsort_perm : IsPerm (stableArgsort lt xs) ∧ (stableArgsort lt xs).length = xs.length := by
  have h := foldl_insertIdx_perm lt xs (List.range xs.length) []
  simp only [List.append_nil] at h
  have h2 : (stableArgsort lt xs).Perm (List.range xs.length) := h.trans (List.reverse_perm _)
  have hl : (stableArgsort lt xs).length = xs.length := by simpa using h2.length_eq
  exact ⟨by unfold IsPerm; rw [hl]; exact h2, hl⟩

/-- the keys, read through the result, are ascending for the order `a ≤ b :⇔ ¬ b < a` -/
theorem insertIdx_sorted (asym : ∀ a b, lt a b = true → lt b a = false)
    (trans : ∀ a b c, lt b a = false → lt c b = false → lt c a = false) (i : Nat) {acc : List Nat}
    (h : acc.Pairwise (fun a b => lt (xs.getD b default) (xs.getD a default) = false)) :
    (insertIdx lt xs i acc).Pairwise (fun a b => lt (xs.getD b default) (xs.getD a default) = false) := by
  induction acc with
  | nil => simp [insertIdx]
  | cons j js ih =>
    have hp := List.pairwise_cons.mp h
    unfold insertIdx
    split
    · rename_i hij
      refine List.pairwise_cons.mpr ⟨?_, h⟩
      intro b hb
      rcases List.mem_cons.mp hb with rfl | hb
      · exact asym _ _ hij
      · exact trans _ _ _ (asym _ _ hij) (hp.1 b hb)
    · rename_i hij
      refine List.pairwise_cons.mpr ⟨?_, ih hp.2⟩
      intro b hb
      rcases List.mem_cons.mp ((insertIdx_perm lt xs i js).mem_iff.mp hb) with rfl | hb
      · simpa using hij
      · exact hp.1 b hb

theorem stableArgsort_sorted (asym : ∀ a b, lt a b = true → lt b a = false)
    (trans : ∀ a b c, lt b a = false → lt c b = false → lt c a = false) :
    (gather xs (stableArgsort lt xs)).Pairwise (fun a b => lt b a = false) := by
  have : ∀ (l acc : List Nat), acc.Pairwise (fun a b => lt (xs.getD b default) (xs.getD a default) = false) →
      (l.foldl (fun acc i => insertIdx lt xs i acc) acc).Pairwise
        (fun a b => lt (xs.getD b default) (xs.getD a default) = false) := by
    intro l
    induction l with
    | nil => intro acc h; exact h
    | cons i t ih => intro acc h; exact ih _ (insertIdx_sorted lt xs asym trans i h)
  have h := this (List.range xs.length) [] List.Pairwise.nil
  unfold gather
  exact List.pairwise_map.mpr h

end

/-! ### the three instances -/

theorem descSnaps_iff_pairwise (l : List Snap) : DescSnaps l ↔ l.Pairwise (fun a b => b.le a = true) := by
  induction l with
  | nil => simp [DescSnaps]
  | cons a t ih =>
    cases t with
    | nil => simp [DescSnaps]
    | cons b rest =>
      simp only [DescSnaps]
      rw [ih]
      constructor
      · intro ⟨hab, hp⟩
        refine List.pairwise_cons.mpr ⟨?_, hp⟩
        intro x hx
        rcases List.mem_cons.mp hx with rfl | hx
        · exact hab
        · exact Snap.le_trans ((List.pairwise_cons.mp hp).1 x hx) hab
      · intro hp
        have := List.pairwise_cons.mp hp
        exact ⟨this.1 b List.mem_cons_self, this.2⟩

theorem ascSnaps_iff_pairwise (l : List Snap) : AscSnaps l ↔ l.Pairwise (fun a b => a.le b = true) := by
  induction l with
  | nil => simp [AscSnaps]
  | cons a t ih =>
    cases t with
    | nil => simp [AscSnaps]
    | cons b rest =>
      simp only [AscSnaps]
      rw [ih]
      constructor
      · intro ⟨hab, hp⟩
        refine List.pairwise_cons.mpr ⟨?_, hp⟩
        intro x hx
        rcases List.mem_cons.mp hx with rfl | hx
        · exact hab
        · exact Snap.le_trans hab ((List.pairwise_cons.mp hp).1 x hx)
      · intro hp
        have := List.pairwise_cons.mp hp
        exact ⟨this.1 b List.mem_cons_self, this.2⟩

theorem descRats_iff_pairwise (l : List Rat) : DescRats l ↔ l.Pairwise (fun a b => b ≤ a) := by
  induction l with
  | nil => simp [DescRats]
  | cons a t ih =>
    cases t with
    | nil => simp [DescRats]
    | cons b rest =>
      simp only [DescRats]
      rw [ih]
      constructor
      · intro ⟨hab, hp⟩
        refine List.pairwise_cons.mpr ⟨?_, hp⟩
        intro x hx
        rcases List.mem_cons.mp hx with rfl | hx
        · exact hab
        · exact le_trans ((List.pairwise_cons.mp hp).1 x hx) hab
      · intro hp
        have := List.pairwise_cons.mp hp
        exact ⟨this.1 b List.mem_cons_self, this.2⟩

theorem Snap.lt_false_iff_le (a b : Snap) : b.lt a = false ↔ a.le b = true := by
  simp only [Snap.le, Snap.lt, Snap.eqv, Bool.or_eq_true, Bool.and_eq_true, decide_eq_true_eq, Bool.or_eq_false_iff,
    Bool.and_eq_false_iff, decide_eq_false_iff_not]
  grind

theorem Snap.lt_asym (a b : Snap) (h : a.lt b = true) : b.lt a = false := by
  simp only [Snap.lt, Bool.or_eq_true, Bool.and_eq_true, decide_eq_true_eq, Bool.or_eq_false_iff,
    Bool.and_eq_false_iff, decide_eq_false_iff_not] at *
  grind

theorem snap_pairwise_asc (qs : List Snap) :
    (gather qs (stableArgsort Snap.lt qs)).Pairwise (fun a b => a.le b = true) := by
  have := stableArgsort_sorted Snap.lt qs Snap.lt_asym
    (by intro a b c h1 h2
        rw [Snap.lt_false_iff_le] at h1 h2 ⊢
        exact Snap.le_trans h1 h2)
  exact this.imp (fun h => (Snap.lt_false_iff_le _ _).mp h)

/-- the permutation the model's `offsets` uses satisfies the hypothesis `SortsAsc` of the theorems -/
theorem stableArgsort_sortsAsc' (qs : List Snap) :
    IsPerm (stableArgsort Snap.lt qs) ∧ (stableArgsort Snap.lt qs).length = qs.length ∧
      DescSnaps (gather qs (stableArgsort Snap.lt qs)).reverse := by
  obtain ⟨hp, hl⟩ := stableArgsort_perm Snap.lt qs
  refine ⟨hp, hl, ?_⟩
  rw [descSnaps_iff_pairwise, List.pairwise_reverse]
  exact snap_pairwise_asc qs

theorem stableArgsort_sortsAscFwd (sn : List Snap) : SortsAscFwd (stableArgsort Snap.lt sn) sn := by
  obtain ⟨hp, hl⟩ := stableArgsort_perm Snap.lt sn
  refine ⟨hp, hl, ?_⟩
  rw [ascSnaps_iff_pairwise]
  exact snap_pairwise_asc sn

theorem stableArgsort_sortsAscR (ts : List Rat) : SortsAscR (stableArgsort (fun a b => decide (a < b)) ts) ts := by
  obtain ⟨hp, hl⟩ := stableArgsort_perm (fun a b : Rat => decide (a < b)) ts
  refine ⟨hp, hl, ?_⟩
  rw [descRats_iff_pairwise, List.pairwise_reverse]
  have := stableArgsort_sorted (fun a b : Rat => decide (a < b)) ts
    (by intro a b h; simp only [decide_eq_true_eq, decide_eq_false_iff_not, not_lt] at *; exact le_of_lt h)
    (by intro a b c h1 h2; simp only [decide_eq_false_iff_not, not_lt] at *; exact le_trans h1 h2)
  exact this.imp (fun h => by simpa using h)

end Reamber.Timing
