/-
C09 glue for the pair Quaver → osu: the embedding of a Quaver chart into C08's frames (`embQua`), the osu chart held by
converted frames (`osuOfT`), both commuting with the abstraction to `AChart`; what `quantize` (writing an osu file) does
to the abstract chart.
-/
import Reamber.Lemmas.PipelineOsuQua
import Reamber.Spec.Osu

namespace Reamber.Pipeline

open Reamber.Convert

/-- the text attributes of a `QuaMap` the converters read (numbers are opaque to C08's model) -/
def quaAttrs : List (String × String) :=
  [("background_file", "<background_file>"), ("title", "<title>"), ("artist", "<artist>"), ("audio_file", "<audio_file>"),
   ("creator", "<creator>"), ("difficulty_name", "<difficulty_name>"), ("song_preview_time", "<song_preview_time>")]

/-- the list frames of an in-memory `QuaMap` as far as a converter reads them: the key columns of the four lists, fresh
row labels (the text attributes are placeholders: metadata is no part of the abstract chart) -/
def embQua (c : Qua.Chart) : SrcMap :=
  ⟨[("svs", numFrame c.svs [("offset", fun s => s.offset), ("multiplier", fun s => s.multiplier)]),
    ("hits", numFrame c.hits [("offset", fun h => h.offset), ("column", fun h => (h.column : Rat))]),
    ("holds", numFrame c.holds [("offset", fun h => h.offset), ("column", fun h => (h.column : Rat)),
                                ("length", fun h => h.length)]),
    ("bpms", numFrame c.bpms [("offset", fun b => b.offset), ("bpm", fun b => b.bpm)])], quaAttrs, ""⟩

theorem ofSrcMap_embQua (c : Qua.Chart) : ofSrcMap (embQua c) = ofQua c := by
  have e1 : ("column" == "offset") = false := by decide
  have e2 : ("length" == "offset") = false := by decide
  have e3 : ("length" == "column") = false := by decide
  have e4 : ("bpm" == "offset") = false := by decide
  have hh := rows2 c.hits (fun h => h.offset) (fun h => (h.column : Rat)) "offset" "column" e1
  have hl := rows3 c.holds (fun h => h.offset) (fun h => (h.column : Rat)) (fun h => h.length) "offset" "column" "length" e1 e2 e3
  have hb := rows2 c.bpms (fun b => b.offset) (fun b => b.bpm) "offset" "bpm" e4
  have k1 : keysHits = ["offset", "column"] := rfl
  have k2 : keysHolds = ["offset", "column", "length"] := rfl
  have k3 : keysBpms = ["offset", "bpm"] := rfl
  have l1 : (embQua c).lists.lookup "hits" = some (numFrame c.hits [("offset", fun h => h.offset), ("column", fun h => (h.column : Rat))]) := by
    simp [embQua, List.lookup]
  have l2 : (embQua c).lists.lookup "holds" = some (numFrame c.holds [("offset", fun h => h.offset), ("column", fun h => (h.column : Rat)), ("length", fun h => h.length)]) := by
    simp [embQua, List.lookup]
  have l3 : (embQua c).lists.lookup "bpms" = some (numFrame c.bpms [("offset", fun b => b.offset), ("bpm", fun b => b.bpm)]) := by
    simp [embQua, List.lookup]
  have dh : (c.hits.map (fun x => [Cell.num x.offset, Cell.num (x.column : Rat)])).filterMap decodeHit =
      c.hits.map (fun h => (h.offset, h.column)) := by
    rw [List.filterMap_map]
    exact filterMap_some_map _ _ _ (fun a => by simp [decodeHit, Rat.floor_intCast])
  have dl : (c.holds.map (fun x => [Cell.num x.offset, Cell.num (x.column : Rat), Cell.num x.length])).filterMap decodeHold =
      c.holds.map (fun h => (h.offset, h.column, h.length)) := by
    rw [List.filterMap_map]
    exact filterMap_some_map _ _ _ (fun a => by simp [decodeHold, Rat.floor_intCast])
  have db : (c.bpms.map (fun x => [Cell.num x.offset, Cell.num x.bpm])).filterMap decodeBpm =
      c.bpms.map (fun b => (b.offset, b.bpm)) := by
    rw [List.filterMap_map]
    exact filterMap_some_map _ _ _ (fun a => by simp [decodeBpm])
  unfold ofSrcMap
  rw [l1, l2, l3]
  simp only [ofFrames, k1, k2, k3, hh, hl, hb, dh, dl, db, ofQua]

theorem srcMapOk_embQua (c : Qua.Chart) : srcMapOk (embQua c) = true := by
  simp [srcMapOk, embQua, List.lookup, colsOf, Frame.col?, numFrame, keysHits, keysHolds, keysBpms, frameWF,
    Frame.nrows, rangeIdx]

/-- the in-memory `OsuMap` whose list frames are `t`'s: one hit / hold / tempo point per row, every other field the
class default (`OsuHitList` / `OsuHoldList` / `OsuBpmList` `_props`), the given metadata and scroll velocities -/
def osuOfT (t : TChart) (md : Osu.Meta) (svs : List Osu.Sv) : Osu.Chart :=
  { md := md
    hits := (ofTChart t).hits.map (fun h => { offset := h.1, column := h.2 })
    holds := (ofTChart t).holds.map (fun h => { offset := h.1, column := h.2.1, length := h.2.2 })
    bpms := (ofTChart t).bpms.map (fun b => { offset := b.1, bpm := b.2 })
    svs := svs }

theorem ofOsu_osuOfT (t : TChart) (md : Osu.Meta) (svs : List Osu.Sv) : ofOsu (osuOfT t md svs) = ofTChart t := by
  simp [ofOsu, osuOfT, List.map_map, Function.comp_def]

/-! ### what writing an osu file does to the abstract chart -/

theorem filterMap_objHit (holds : List Osu.Hold) (hits : List Osu.Hit) :
    (holds.map Osu.Obj.hold ++ hits.map Osu.Obj.hit).filterMap Osu.objHit = hits := by
  rw [List.filterMap_append]
  have h1 : (holds.map Osu.Obj.hold).filterMap Osu.objHit = [] := by
    induction holds with
    | nil => rfl
    | cons a t ih => simpa [Osu.objHit] using ih
  have h2 : (hits.map Osu.Obj.hit).filterMap Osu.objHit = hits := by
    induction hits with
    | nil => rfl
    | cons a t ih => simp [Osu.objHit, ih]
  rw [h1, h2, List.nil_append]

theorem filterMap_objHold (holds : List Osu.Hold) (hits : List Osu.Hit) :
    (holds.map Osu.Obj.hold ++ hits.map Osu.Obj.hit).filterMap Osu.objHold = holds := by
  rw [List.filterMap_append]
  have h1 : (holds.map Osu.Obj.hold).filterMap Osu.objHold = holds := by
    induction holds with
    | nil => rfl
    | cons a t ih => simp [Osu.objHold, ih]
  have h2 : (hits.map Osu.Obj.hit).filterMap Osu.objHold = [] := by
    induction hits with
    | nil => rfl
    | cons a t ih => simpa [Osu.objHold] using ih
  rw [h1, h2, List.append_nil]

theorem osu_insertBy_perm {α} (le : α → α → Bool) (x : α) (l : List α) : (Osu.insertBy le x l).Perm (x :: l) := by
  induction l with
  | nil => exact List.Perm.refl _
  | cons y ys ih =>
    unfold Osu.insertBy
    split
    · exact List.Perm.refl _
    · exact (List.Perm.cons y ih).trans (List.Perm.swap x y ys)

theorem osu_isort_perm {α} (le : α → α → Bool) (l : List α) : (Osu.isort le l).Perm l := by
  induction l with
  | nil => exact List.Perm.refl _
  | cons a t ih =>
    show (Osu.insertBy le a (Osu.isort le t)).Perm (a :: t)
    exact (osu_insertBy_perm le a _).trans (List.Perm.cons a ih)

/-- the hits of the time-sorted object list are the chart's hits, rearranged -/
theorem sortedObjs_hits_perm (c : Osu.Chart) : ((Osu.sortedObjs c).filterMap Osu.objHit).Perm c.hits := by
  have := (osu_isort_perm (fun a b : Osu.Obj => decide (a.offset ≤ b.offset))
    (c.holds.map Osu.Obj.hold ++ c.hits.map Osu.Obj.hit)).filterMap Osu.objHit
  rw [filterMap_objHit] at this
  exact this

theorem sortedObjs_holds_perm (c : Osu.Chart) : ((Osu.sortedObjs c).filterMap Osu.objHold).Perm c.holds := by
  have := (osu_isort_perm (fun a b : Osu.Obj => decide (a.offset ≤ b.offset))
    (c.holds.map Osu.Obj.hold ++ c.hits.map Osu.Obj.hit)).filterMap Osu.objHold
  rw [filterMap_objHold] at this
  exact this

theorem closeTime_ms_pyTrunc (src : AChart) (exact : Bool) (q : Rat) :
    closeTime 0 .ms exact src q (Osu.pyTrunc q : Rat) = true := closeTime_ms_trunc src exact q

/-- **writing an osu file keeps the abstract chart within the `ms` resolution** (`quantize` = what `write` puts on
disk, C01): hits and holds pair off — same column, head and tail each less than 1 ms away — and the tempo rows are
untouched (osu timing points keep fractional times). -/
theorem quantize_osu_close (uni : Osu.Str → Osu.Str) (c : Osu.Chart) (src : AChart) :
    Paired (fun a b => closeHit 0 .ms false 0 src a b = true) (ofOsu c).hits (ofOsu (Osu.quantize uni c)).hits ∧
    Paired (fun a b => closeHold 0 .ms false 0 src a b = true) (ofOsu c).holds (ofOsu (Osu.quantize uni c)).holds ∧
    (ofOsu (Osu.quantize uni c)).bpms = (ofOsu c).bpms := by
  refine ⟨?_, ?_, ?_⟩
  · refine ⟨((Osu.sortedObjs c).filterMap Osu.objHit).map (fun h => (h.offset, h.column)), _, ?_, List.Perm.refl _, ?_⟩
    · exact (sortedObjs_hits_perm c).map _
    · show Zipped _ _ ((((Osu.sortedObjs c).filterMap Osu.objHit).map Osu.qHit).map (fun h => (h.offset, h.column)))
      apply zipped_map
      intro h
      simp [closeHit, Osu.qHit, closeTime_ms_pyTrunc]
  · refine ⟨((Osu.sortedObjs c).filterMap Osu.objHold).map (fun h => (h.offset, h.column, h.length)), _, ?_, List.Perm.refl _, ?_⟩
    · exact (sortedObjs_holds_perm c).map _
    · show Zipped _ _ ((((Osu.sortedObjs c).filterMap Osu.objHold).map Osu.qHold).map (fun h => (h.offset, h.column, h.length)))
      apply zipped_map
      intro h
      have ht : (Osu.pyTrunc h.offset : Rat) + ((Osu.pyTrunc (h.offset + h.length) : Rat) - (Osu.pyTrunc h.offset : Rat)) =
          (Osu.pyTrunc (h.offset + h.length) : Rat) := by linarith
      simp [closeHold, Osu.qHold, closeTime_ms_pyTrunc, ht]
  · simp [ofOsu, Osu.quantize, Osu.qBpm, List.map_map, Function.comp_def]

end Reamber.Pipeline
