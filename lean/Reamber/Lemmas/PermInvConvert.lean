/-
C15 helper lemmas, part 2: the content relation of C08 (`contentOk`: target rows = source rows as multisets over
the carried columns) composed on two sources that agree up to row order.
-/
import Reamber.Props.C08
import Reamber.Spec.Perm
import Reamber.Lemmas.Perm

namespace Reamber.PermInv
open Reamber.Convert

/-- the rows of one source list over the columns the converters carry -/
def rowsOfList (m : SrcMap) (name : String) (ks : List String) : Option (List (List Convert.Cell)) :=
  (m.lists.lookup name).bind (projRows · ks)

/-- two source maps hold the same hits, holds and tempo points up to row order (over the carried columns) -/
def SrcKeyPerm (m m' : SrcMap) : Prop :=
  ∀ p ∈ [("hits", keysHits), ("holds", keysHolds), ("bpms", keysBpms)],
    ∀ rs rs', rowsOfList m p.1 p.2 = some rs → rowsOfList m' p.1 p.2 = some rs' → rs.Perm rs'

theorem sameRows_unpack {t s : Frame} {ks : List String} {k : Int} (h : sameRows t s ks k = true) :
    ∃ rt rs, projRows t ks = some rt ∧ projRows s ks = some rs ∧ rt.Perm (rs.map (shiftRow k)) := by
  unfold sameRows at h
  split at h
  · rename_i rt rs e1 e2
    exact ⟨rt, rs, e1, e2, List.isPerm_iff.mp h⟩
  · cases h

theorem sameRows_trans_perm {t t' s s' : Frame} {ks : List String} {k : Int}
    (h : sameRows t s ks k = true) (h' : sameRows t' s' ks k = true)
    (hs : ∀ rs rs', projRows s ks = some rs → projRows s' ks = some rs' → rs.Perm rs') :
    ∀ rt rt', projRows t ks = some rt → projRows t' ks = some rt' → rt.Perm rt' := by
  obtain ⟨a, b, ea, eb, pab⟩ := sameRows_unpack h
  obtain ⟨a', b', ea', eb', pab'⟩ := sameRows_unpack h'
  intro rt rt' e e'
  rw [ea] at e; rw [ea'] at e'
  cases e; cases e'
  exact (pab.trans ((hs b b' eb eb').map _)).trans pab'.symm

theorem contentOk_perm {k : Int} {m m' : SrcMap} {t t' : TChart} (h : contentOk k m t = true)
    (h' : contentOk k m' t' = true) (hrel : SrcKeyPerm m m') :
    (∀ rt rt', projRows t.hits keysHits = some rt → projRows t'.hits keysHits = some rt' → rt.Perm rt') ∧
    (∀ rt rt', projRows t.holds keysHolds = some rt → projRows t'.holds keysHolds = some rt' → rt.Perm rt') ∧
    (∀ rt rt', projRows t.bpms keysBpms = some rt → projRows t'.bpms keysBpms = some rt' → rt.Perm rt') := by
  unfold contentOk at h h'
  split at h
  · rename_i sh sl sb eh el eb
    split at h'
    · rename_i sh' sl' sb' eh' el' eb'
      simp only [Bool.and_eq_true] at h h'
      refine ⟨sameRows_trans_perm h.1.1 h'.1.1 ?_, sameRows_trans_perm h.1.2 h'.1.2 ?_, sameRows_trans_perm h.2 h'.2 ?_⟩
      · intro rs rs' e e'
        exact hrel ("hits", keysHits) (by simp) rs rs' (by simp [rowsOfList, eh, e]) (by simp [rowsOfList, eh', e'])
      · intro rs rs' e e'
        exact hrel ("holds", keysHolds) (by simp) rs rs' (by simp [rowsOfList, el, e]) (by simp [rowsOfList, el', e'])
      · intro rs rs' e e'
        exact hrel ("bpms", keysBpms) (by simp) rs rs' (by simp [rowsOfList, eb, e]) (by simp [rowsOfList, eb', e'])
    · cases h'
  · cases h

/-! ### a row permutation of a column-oriented frame -/

open Reamber.Timing (IsPerm)

/-- a column re-ordered by the index list `σ` -/
def permCol (σ : List Nat) (c : List Convert.Cell) : List Convert.Cell := σ.map fun i => c.getD i .nan

/-- `g` is `f` with its rows re-ordered by `σ` (every column alike); the row labels of `g` are arbitrary -/
def RowPermOf (σ : List Nat) (f g : Frame) : Prop :=
  IsPerm σ ∧ σ.length = f.nrows ∧ g.nrows = f.nrows ∧ g.cols = f.cols.map fun p => (p.1, permCol σ p.2)

theorem lookup_map_snd {β γ} (g : β → γ) (k : String) :
    ∀ (l : List (String × β)), (l.map fun p => (p.1, g p.2)).lookup k = (l.lookup k).map g
  | [] => rfl
  | (a, b) :: t => by
    simp only [List.map_cons, List.lookup_cons]
    by_cases h : k == a
    · simp [h]
    · simp [h, lookup_map_snd g k t]

theorem colsOf_rowPerm {σ : List Nat} {f g : Frame} (h : RowPermOf σ f g) :
    ∀ ks, colsOf g ks = (colsOf f ks).map (·.map (permCol σ))
  | [] => rfl
  | k :: t => by
    have hc : g.col? k = (f.col? k).map (permCol σ) := by
      unfold Frame.col?
      rw [h.2.2.2]
      exact lookup_map_snd (permCol σ) k f.cols
    simp only [colsOf, hc, colsOf_rowPerm h t]
    cases f.col? k <;> cases colsOf f t <;> simp

theorem rowsOf_permCol (σ : List Nat) (cols : List (List Convert.Cell)) :
    rowsOf (cols.map (permCol σ)) σ.length = σ.map fun j => cols.map fun c => c.getD j .nan := by
  unfold rowsOf
  apply List.ext_getElem
  · simp
  · intro i h1 h2
    have hi : i < σ.length := by simpa using h1
    simp only [List.getElem_map, List.getElem_range, List.map_map, Function.comp_def, permCol]
    apply List.map_congr_left
    intro c _
    simp [List.getD_eq_getElem?_getD, List.getElem?_map, List.getElem?_eq_getElem hi]

/-- **the projection lemma**: the rows of a row-permuted frame over any columns are a permutation of the rows
of the original over those columns -/
theorem projRows_rowPerm {σ : List Nat} {f g : Frame} (h : RowPermOf σ f g) (ks : List String) :
    ∀ rs rs', projRows f ks = some rs → projRows g ks = some rs' → rs.Perm rs' := by
  intro rs rs' e e'
  unfold projRows at e e'
  rw [colsOf_rowPerm h ks] at e'
  cases hc : colsOf f ks with
  | none => simp [hc] at e
  | some cols =>
    simp only [hc, Option.map_some, Option.some.injEq] at e e'
    subst e; subst e'
    rw [h.2.2.1, ← h.2.1, rowsOf_permCol]
    unfold rowsOf
    exact (List.Perm.map _ h.1).symm

/-- every list of `m'` is the list of `m` of that name with its rows re-ordered (each list by its own permutation),
under any row labels; the map-level attributes play no role for the content -/
def SrcRowPerm (m m' : SrcMap) : Prop :=
  m.lists.map (·.1) = m'.lists.map (·.1) ∧
  ∀ k f f', m.lists.lookup k = some f → m'.lists.lookup k = some f' → ∃ σ, RowPermOf σ f f'

theorem srcKeyPerm_of_rowPerm {m m' : SrcMap} (h : SrcRowPerm m m') : SrcKeyPerm m m' := by
  intro p _ rs rs' e e'
  unfold rowsOfList at e e'
  cases hf : m.lists.lookup p.1 with
  | none => simp [hf] at e
  | some f =>
    cases hf' : m'.lists.lookup p.1 with
    | none => simp [hf'] at e'
    | some f' =>
      simp only [hf, hf', Option.bind_some] at e e'
      obtain ⟨σ, hσ⟩ := h.2 p.1 f f' hf hf'
      exact projRows_rowPerm hσ p.2 rs rs' e e'

end Reamber.PermInv
