/-
C15 helper lemmas, part 2: the content relation of C08 (`contentOk`: target rows = source rows as multisets over
the carried columns) composed on two sources that agree up to row order.
-/
import Reamber.Props.C08
import Reamber.Spec.Perm

namespace Reamber.PermInv
open Reamber.Convert

/-- the rows of one source list over the columns the converters carry -/
def rowsOfList (m : SrcMap) (name : String) (ks : List String) : Option (List (List Convert.Cell)) :=
  (m.lists.lookup name).bind (projRows · ks)

/-- two source maps hold the same hits, holds and tempo points up to row order (over the carried columns) -/
def SrcKeyPerm (m m' : SrcMap) : Prop :=
  ∀ p ∈ [("hits", keysHits), ("holds", keysHolds), ("bpms", keysBpms)],
    ∀ rs rs', rowsOfList m p.1 p.2 = some rs → rowsOfList m' p.1 p.2 = some rs' → rs.Perm rs'

theorem sameRows_unpack {t s : Frame} {ks : List String} {k : Int} (h : sameRows t s ks k = true) :
    ∃ rt rs, projRows t ks = some rt ∧ projRows s ks = some rs ∧ rt.Perm (rs.map (shiftRow k)) := by
  unfold sameRows at h
  split at h
  · rename_i rt rs e1 e2
    exact ⟨rt, rs, e1, e2, List.isPerm_iff.mp h⟩
  · cases h

theorem sameRows_trans_perm {t t' s s' : Frame} {ks : List String} {k : Int}
    (h : sameRows t s ks k = true) (h' : sameRows t' s' ks k = true)
    (hs : ∀ rs rs', projRows s ks = some rs → projRows s' ks = some rs' → rs.Perm rs') :
    ∀ rt rt', projRows t ks = some rt → projRows t' ks = some rt' → rt.Perm rt' := by
  obtain ⟨a, b, ea, eb, pab⟩ := sameRows_unpack h
  obtain ⟨a', b', ea', eb', pab'⟩ := sameRows_unpack h'
  intro rt rt' e e'
  rw [ea] at e; rw [ea'] at e'
  cases e; cases e'
  exact (pab.trans ((hs b b' eb eb').map _)).trans pab'.symm

theorem contentOk_perm {k : Int} {m m' : SrcMap} {t t' : TChart} (h : contentOk k m t = true)
    (h' : contentOk k m' t' = true) (hrel : SrcKeyPerm m m') :
    (∀ rt rt', projRows t.hits keysHits = some rt → projRows t'.hits keysHits = some rt' → rt.Perm rt') ∧
    (∀ rt rt', projRows t.holds keysHolds = some rt → projRows t'.holds keysHolds = some rt' → rt.Perm rt') ∧
    (∀ rt rt', projRows t.bpms keysBpms = some rt → projRows t'.bpms keysBpms = some rt' → rt.Perm rt') := by
  unfold contentOk at h h'
  split at h
  · rename_i sh sl sb eh el eb
    split at h'
    · rename_i sh' sl' sb' eh' el' eb'
      simp only [Bool.and_eq_true] at h h'
      refine ⟨sameRows_trans_perm h.1.1 h'.1.1 ?_, sameRows_trans_perm h.1.2 h'.1.2 ?_, sameRows_trans_perm h.2 h'.2 ?_⟩
      · intro rs rs' e e'
        exact hrel ("hits", keysHits) (by simp) rs rs' (by simp [rowsOfList, eh, e]) (by simp [rowsOfList, eh', e'])
      · intro rs rs' e e'
        exact hrel ("holds", keysHolds) (by simp) rs rs' (by simp [rowsOfList, el, e]) (by simp [rowsOfList, el', e'])
      · intro rs rs' e e'
        exact hrel ("bpms", keysBpms) (by simp) rs rs' (by simp [rowsOfList, eb, e]) (by simp [rowsOfList, eb', e'])
    · cases h'
  · cases h

end Reamber.PermInv
