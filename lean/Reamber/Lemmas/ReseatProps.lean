/-
C11 helper lemmas, part 4: what the head-first description `seatFromD` satisfies — every point on a measure line,
ascending, at most one extra point per original interval, every original change at its own millisecond position
(integrating the *output*), its bpm kept where a whole number of measures follows; a seated list is a fixed point.
-/
import Reamber.Lemmas.ReseatRef

namespace Reamber.Timing

/-! ### one interval, abstractly -/

/-- the two shapes `stepRef` can emit, with the facts the inductions below need:
one point `x` (the original, possibly with a stretched / squeezed bpm), or the original followed by one extra point `y`;
in both cases the emitted measures integrate to exactly the original interval `D · beatLen`. -/
theorem stepRef_cases (thr : Rat) (m : Int) (cur : BcSnap) (D : Rat) (hthr : 0 ≤ thr)
    (hI : IntervalOK thr cur.bpm cur.met D) (hcm : cur.snap.measure = m) (hcb : cur.snap.beat = 0) :
    (∃ x, (stepRef thr m cur D).1 = [x] ∧ x.snap.measure = m ∧ x.snap.beat = 0 ∧ x.met = cur.met ∧
        (((stepRef thr m cur D).2 : Int) - (m : Int) : Rat) * cur.met * beatLen x.bpm = D * beatLen cur.bpm ∧
        (frac (D / cur.met) = 0 → x.bpm = cur.bpm) ∧ m ≤ (stepRef thr m cur D).2)
    ∨ (∃ y, (stepRef thr m cur D).1 = [cur, y] ∧ y.snap.beat = 0 ∧ m ≤ y.snap.measure ∧
        y.snap.measure ≤ (stepRef thr m cur D).2 ∧ y.met = cur.met ∧ frac (D / cur.met) ≠ 0 ∧
        ((y.snap.measure : Int) - (m : Int) : Rat) * cur.met * beatLen cur.bpm +
          (((stepRef thr m cur D).2 : Int) - (y.snap.measure : Int) : Rat) * cur.met * beatLen y.bpm = D * beatLen cur.bpm) := by
  have hb := hI.bpm_pos
  have hM := hI.met_pos
  have hmq : 0 ≤ ffloor (D / cur.met) := ffloor_nonneg (div_nonneg hI.d_nonneg hM.le)
  have hdec := floor_add_frac (D / cur.met)
  have hD : D = (((ffloor (D / cur.met) : Int) : Rat) + frac (D / cur.met)) * cur.met := by
    have := hdec; field_simp at this; linarith
  by_cases c1 : 0 < frac (D / cur.met) ∧ frac (D / cur.met) ≤ thr
  · have hq1 : 1 ≤ ffloor (D / cur.met) := by
      by_contra hc
      have h0 : ffloor (D / cur.met) = 0 := by omega
      rw [h0] at hdec
      apply hI.no_tiny
      constructor
      · rw [hdec]; simpa using c1.1
      · rw [hdec]; simpa using c1.2
    have hr1 : frac (D / cur.met) + 1 ≠ 0 := by linarith [c1.1]
    by_cases hq : ffloor (D / cur.met) = 1
    · left
      refine ⟨⟨cur.bpm / (frac (D / cur.met) + 1), cur.met, ⟨m + ffloor (D / cur.met) - 1, 0, some cur.met⟩⟩, ?_, ?_, rfl, rfl, ?_, ?_, ?_⟩
      · simp only [stepRef, c1, and_self, if_true, hq]
      · simp only [hq]; omega
      · simp only [stepRef, c1, and_self, if_true, hq]
        rw [hq] at hD
        generalize frac (D / cur.met) = r at hD hr1 ⊢
        rw [hD]; unfold beatLen minToMsec; push_cast; field_simp; ring
      · intro h0; exact absurd h0 (ne_of_gt c1.1)
      · simp only [stepRef, c1, and_self, if_true, hq]; omega
    · right
      refine ⟨⟨cur.bpm / (frac (D / cur.met) + 1), cur.met, ⟨m + ffloor (D / cur.met) - 1, 0, some cur.met⟩⟩, ?_, rfl, ?_, ?_, rfl, ne_of_gt c1.1, ?_⟩
      · simp only [stepRef, c1, and_self, if_true, hq, if_false]
      · show m ≤ m + ffloor (D / cur.met) - 1; omega
      · simp only [stepRef, c1, and_self, if_true, hq, if_false]; omega
      · simp only [stepRef, c1, and_self, if_true, hq, if_false]
        generalize frac (D / cur.met) = r at hD hr1 ⊢
        generalize ffloor (D / cur.met) = q at hD ⊢
        rw [hD]; unfold beatLen minToMsec; push_cast; field_simp; ring
  · by_cases c3 : frac (D / cur.met) > thr
    · have hr : 0 < frac (D / cur.met) := lt_of_le_of_lt hthr c3
      have hr1 : frac (D / cur.met) ≠ 0 := ne_of_gt hr
      by_cases hq : ffloor (D / cur.met) = 0
      · left
        refine ⟨⟨cur.bpm / frac (D / cur.met), cur.met, ⟨m + ffloor (D / cur.met), 0, some cur.met⟩⟩, ?_, ?_, rfl, rfl, ?_, ?_, ?_⟩
        · simp only [stepRef, c1, if_false, c3, if_true, hq]
        · simp only [hq]; omega
        · simp only [stepRef, c1, if_false, c3, if_true, hq]
          rw [hq] at hD
          generalize frac (D / cur.met) = r at hD hr1 ⊢
          rw [hD]; unfold beatLen minToMsec; push_cast; field_simp; ring
        · intro h0; exact absurd h0 hr1
        · simp only [stepRef, c1, if_false, c3, if_true, hq]; omega
      · right
        refine ⟨⟨cur.bpm / frac (D / cur.met), cur.met, ⟨m + ffloor (D / cur.met), 0, some cur.met⟩⟩, ?_, rfl, ?_, ?_, rfl, hr1, ?_⟩
        · simp only [stepRef, c1, if_false, c3, if_true, hq]
        · show m ≤ m + ffloor (D / cur.met); omega
        · simp only [stepRef, c1, if_false, c3, if_true, hq]; omega
        · simp only [stepRef, c1, if_false, c3, if_true, hq]
          generalize frac (D / cur.met) = r at hD hr1 ⊢
          generalize ffloor (D / cur.met) = q at hD ⊢
          rw [hD]; unfold beatLen minToMsec; push_cast; field_simp; ring
    · have hr0 : frac (D / cur.met) = 0 := by
        have := rs_frac_nonneg (D / cur.met)
        by_contra hne
        exact c1 ⟨lt_of_le_of_ne this (Ne.symm hne), not_lt.mp c3⟩
      left
      refine ⟨cur, ?_, hcm, hcb, rfl, ?_, fun _ => rfl, ?_⟩
      · simp only [stepRef, c1, if_false, c3]
      · simp only [stepRef, c1, if_false, c3]
        rw [hr0] at hD
        generalize ffloor (D / cur.met) = q at hD ⊢
        rw [hD]; push_cast; ring
      · simp only [stepRef, c1, if_false, c3]; omega

/-! ### specification-side lemmas -/

theorem rs_rabs_nonneg (x : Rat) : 0 ≤ rabs x := by
  unfold rabs; split <;> linarith

theorem closeR_self {tol : Rat} (h : 0 ≤ tol) (x : Rat) : closeR tol x x = true := by
  unfold closeR
  simp only [sub_self, decide_eq_true_eq]
  have h0 : rabs 0 = 0 := by decide +kernel
  rw [h0]
  have := rs_rabs_nonneg x
  exact mul_nonneg h (by linarith)

/-- the original changes as the specification sees them, in terms of the beat distances -/
def inPtsD : Rat → Rat → Rat → List (Rat × BcSnap) → List InPt
  | T, bpm, _, [] => [⟨T, bpm, true⟩]
  | T, bpm, met, (D, nx) :: rest =>
    ⟨T, bpm, decide (frac (D / met) = 0)⟩ :: inPtsD (T + D * beatLen bpm) nx.bpm nx.met rest

theorem inPtsD_ne (T bpm met : Rat) (pairs : List (Rat × BcSnap)) : ∃ i is, inPtsD T bpm met pairs = i :: is := by
  cases pairs with
  | nil => exact ⟨_, _, rfl⟩
  | cons p r => obtain ⟨D, nx⟩ := p; exact ⟨_, _, rfl⟩

theorem inPts_eq : ∀ (rest : List BcSnap) (t0 : Rat) (a : BcSnap),
    inPts t0 (a :: rest) = inPtsD t0 a.bpm a.met (distsOf a rest) := by
  intro rest
  induction rest with
  | nil => intro t0 a; rfl
  | cons b t ih =>
    intro t0 a
    have := ih (t0 + snapDist a.snap b.snap a.met * beatLen a.bpm) b
    simp only [inPts] at this
    simp only [inPts, cumTimes, wholeFlags, zip3, distsOf, inPtsD, this]
    rfl

theorem outPts_one (T : Rat) (x : BcSnap) : outPts T [x] = [⟨T, x.bpm⟩] := rfl

theorem outPts_cons (T : Rat) (x y : BcSnap) (r : List BcSnap) :
    outPts T (x :: y :: r) = ⟨T, x.bpm⟩ :: outPts (T + snapDist x.snap y.snap x.met * beatLen x.bpm) (y :: r) := by
  simp only [outPts, cumTimes, zip2]

theorem interleave_one (tol : Rat) (b : Bool) (i i2 : InPt) (is : List InPt) (o : OutPt) (os : List OutPt)
    (h1 : matchPt tol b i o = true) (h2 : interleaveB tol b (i2 :: is) os = true) :
    interleaveB tol b (i :: i2 :: is) (o :: os) = true := by
  unfold interleaveB
  simp [h1, h2]

theorem interleave_two (tol : Rat) (b : Bool) (i i2 : InPt) (is : List InPt) (o x : OutPt) (os : List OutPt)
    (h1 : matchPt tol b i o = true) (h2 : interleaveB tol b (i2 :: is) os = true) :
    interleaveB tol b (i :: i2 :: is) (o :: x :: os) = true := by
  unfold interleaveB
  simp [h1, h2]

theorem seated_le {a b : Snap} (ha : a.beat = 0) (hb : b.beat = 0) (h : a.measure ≤ b.measure) : a.le b = true := by
  simp only [Snap.le, Snap.lt, Snap.eqv, Bool.or_eq_true, Bool.and_eq_true, decide_eq_true_eq]
  by_cases he : a.measure = b.measure
  · exact Or.inr ⟨he, by rw [ha, hb]⟩
  · exact Or.inl (Or.inl (by omega))

/-! ### the reseated list satisfies the specification -/

theorem seatFromD_spec (thr : Rat) (hthr : 0 ≤ thr) (tol : Rat) (htol : 0 ≤ tol) (bb : Bool) :
    ∀ (pairs : List (Rat × BcSnap)) (m : Int) (cur : BcSnap) (T : Rat),
      HypsL thr cur.bpm cur.met pairs → cur.snap.measure = m → cur.snap.beat = 0 →
      ∃ h t, seatFromD thr m cur pairs = h :: t ∧ h.snap.measure = m ∧ h.snap.beat = 0 ∧
        seatedB (h :: t) = true ∧ sortedSnaps (h :: t) = true ∧
        pairs.length + 1 ≤ (h :: t).length ∧ (h :: t).length ≤ 2 * pairs.length + 1 ∧
        interleaveB tol bb (inPtsD T cur.bpm cur.met pairs) (outPts T (h :: t)) = true := by
  intro pairs
  induction pairs with
  | nil =>
    intro m cur T _ hcm hcb
    refine ⟨cur, [], rfl, hcm, hcb, ?_, rfl, by simp, by simp, ?_⟩
    · simp [seatedB, hcb]
    · simp only [inPtsD, outPts_one, interleaveB, matchPt, closeR_self htol, Bool.true_and, Bool.or_true]
  | cons p rest ih =>
    obtain ⟨D, nx⟩ := p
    intro m cur T hh hcm hcb
    obtain ⟨hI, hh'⟩ := hh
    obtain ⟨h', t', hseq, hm', hb', hseat, hsort, hl1, hl2, hint⟩ :=
      ih (stepRef thr m cur D).2 (seatAt nx (stepRef thr m cur D).2) (T + D * beatLen cur.bpm) hh' rfl rfl
    obtain ⟨i2, is, hi⟩ := inPtsD_ne (T + D * beatLen cur.bpm) nx.bpm nx.met rest
    simp only [seatAt_bpm, seatAt_met] at hint
    rw [hi] at hint
    rcases stepRef_cases thr m cur D hthr hI hcm hcb with ⟨x, hx, hxm, hxb, hxmet, hxT, hxbpm, hle⟩ | ⟨y, hy, hyb, hmy, hym', hymet, hfr, hyT⟩
    · refine ⟨x, h' :: t', ?_, hxm, hxb, ?_, ?_, ?_, ?_, ?_⟩
      · simp only [seatFromD, hx, hseq, List.cons_append, List.nil_append]
      · simp only [seatedB, List.all_cons, hxb, decide_true, Bool.true_and] at hseat ⊢; exact hseat
      · simp only [sortedSnaps, Bool.and_eq_true]
        exact ⟨seated_le hxb hb' (by rw [hxm, hm']; exact hle), hsort⟩
      · simp only [List.length_cons] at hl1 ⊢; omega
      · simp only [List.length_cons] at hl2 ⊢; omega
      · have hT : T + snapDist x.snap h'.snap x.met * beatLen x.bpm = T + D * beatLen cur.bpm := by
          unfold snapDist
          rw [hxm, hm', hxb, hb', hxmet, ← hxT]; push_cast; ring
        rw [outPts_cons, hT]
        simp only [inPtsD, hi]
        apply interleave_one _ _ _ _ _ _ _ _ hint
        simp only [matchPt, closeR_self htol, Bool.true_and]
        by_cases hw : frac (D / cur.met) = 0
        · simp [hw, hxbpm hw, closeR_self htol]
        · simp [hw]
    · refine ⟨cur, y :: h' :: t', ?_, hcm, hcb, ?_, ?_, ?_, ?_, ?_⟩
      · simp only [seatFromD, hy, hseq, List.cons_append, List.nil_append]
      · simp only [seatedB, List.all_cons, hcb, hyb, decide_true, Bool.true_and] at hseat ⊢; exact hseat
      · simp only [sortedSnaps, Bool.and_eq_true]
        exact ⟨seated_le hcb hyb (by rw [hcm]; exact hmy), seated_le hyb hb' (by rw [hm']; exact hym'), hsort⟩
      · simp only [List.length_cons] at hl1 ⊢; omega
      · simp only [List.length_cons] at hl2 ⊢; omega
      · have hT : T + snapDist cur.snap y.snap cur.met * beatLen cur.bpm + snapDist y.snap h'.snap y.met * beatLen y.bpm
            = T + D * beatLen cur.bpm := by
          unfold snapDist
          rw [hcm, hm', hcb, hb', hyb, hymet, ← hyT]; push_cast; ring
        rw [outPts_cons, outPts_cons, hT]
        simp only [inPtsD, hi]
        apply interleave_two _ _ _ _ _ _ _ _ _ hint
        simp [matchPt, closeR_self htol, hfr]

/-! ### a seated list is a fixed point -/

theorem frac_intCast (k : Int) : frac (k : Rat) = 0 := by
  unfold frac; rw [Rat.floor_intCast]; ring

theorem ffloor_intCast (k : Int) : ffloor (k : Rat) = k := by
  unfold ffloor; exact Rat.floor_intCast k

theorem seatAt_self (b : BcSnap) (h : b.snap.beat = 0) : seatAt b b.snap.measure = b := by
  obtain ⟨bpm, met, ⟨m, beat, sm⟩⟩ := b
  simp only at h
  subst h
  rfl

theorem seatFromD_seated (thr : Rat) (hthr : 0 ≤ thr) : ∀ (rest : List BcSnap) (m : Int) (cur : BcSnap),
    cur.snap.measure = m → cur.snap.beat = 0 → 0 < cur.met → (∀ b ∈ rest, b.snap.beat = 0 ∧ 0 < b.met) →
    seatFromD thr m cur (distsOf cur rest) = cur :: rest := by
  intro rest
  induction rest with
  | nil => intro m cur _ _ _ _; rfl
  | cons b t ih =>
    intro m cur hcm hcb hmet hall
    obtain ⟨hbb, hbm⟩ := hall b (by simp)
    have hD : beatDist cur b / cur.met = ((b.snap.measure - m : Int) : Rat) := by
      unfold beatDist snapDist
      rw [hcm, hcb, hbb]
      have : cur.met ≠ 0 := ne_of_gt hmet
      field_simp; ring
    have hsr : stepRef thr m cur (beatDist cur b) = ([cur], b.snap.measure) := by
      have c3 : ¬ ((0 : Rat) > thr) := not_lt.mpr hthr
      simp only [stepRef, hD, frac_intCast, ffloor_intCast, lt_irrefl, false_and, if_false, c3]
      congr 1; omega
    simp only [distsOf, seatFromD, hsr, seatAt_self b hbb, List.cons_append, List.nil_append]
    rw [ih b.snap.measure b rfl hbb hbm (fun x hx => hall x (by simp [hx]))]

end Reamber.Timing
