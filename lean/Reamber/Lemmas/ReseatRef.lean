/-
C11 helper lemmas, part 3: from the list the caller passes to the loop's start state —
the stable sort is the identity on an ascending list, the relative offsets are distance × beat length —
and `reseat l thr = ok (seatFromD …)`.
-/
import Reamber.Lemmas.ReseatLoop

namespace Reamber.Timing

/-! ### `list.sort(key=snap)` on an ascending list -/

theorem Snap.lt_false_of_le {a b : Snap} (h : a.le b = true) : b.lt a = false := by
  simp only [Snap.le, Snap.lt, Snap.eqv, Bool.or_eq_true, Bool.and_eq_true, decide_eq_true_eq] at h
  simp only [Snap.lt, Bool.or_eq_false_iff, Bool.and_eq_false_iff, decide_eq_false_iff_not]
  rcases h with (h | ⟨h1, h2⟩) | ⟨h1, h2⟩
  · exact ⟨by omega, Or.inl (by omega)⟩
  · exact ⟨by omega, Or.inr (not_lt.mpr h2.le)⟩
  · exact ⟨by omega, Or.inr (by rw [h2]; exact lt_irrefl _)⟩

theorem rs_isort_sorted (l : List BcSnap) (h : sortedSnaps l = true) : sortBcSnap l = l := by
  unfold sortBcSnap isort
  induction l with
  | nil => rfl
  | cons a t ih =>
    cases t with
    | nil => rfl
    | cons b t' =>
      simp only [sortedSnaps, Bool.and_eq_true] at h
      rw [List.foldr_cons, ih h.2]
      simp [insertBy, Snap.lt_false_of_le h.1]

/-! ### the relative offsets -/

/-- `(b - a).offset(a)` for `a ≤ b` (lexicographic), both inside their measures: the beat distance × beat length -/
theorem sub_offset (a b : Snap) (M bpm : Rat) (hM : 0 < M) (hmet : a.met = some M)
    (hle : a.le b = true) (ha0 : 0 ≤ a.beat) (ha : a.beat < M) (hb : 0 ≤ b.beat) :
    ∃ d, b.sub a = .ok d ∧ d.offset bpm M = snapDist a b M * beatLen bpm := by
  simp only [Snap.le, Snap.lt, Snap.eqv, Bool.or_eq_true, Bool.and_eq_true, decide_eq_true_eq] at hle
  have hΔ : 0 ≤ b.measure - a.measure := by rcases hle with (h | ⟨h1, _⟩) | ⟨h1, _⟩ <;> omega
  have hlex : b.measure - a.measure = 0 → 0 ≤ b.beat - a.beat := by
    intro h0
    rcases hle with (h | ⟨_, h2⟩) | ⟨_, h2⟩
    · omega
    · linarith
    · linarith
  unfold Snap.sub Snap.make
  rw [hmet]
  simp only [not_lt.mpr hΔ, if_false]
  by_cases hc : b.beat - a.beat < 0 ∨ b.beat - a.beat ≥ M
  · simp only [hc, if_true, (ne_of_gt hM), if_false]
    have hfl := Rat.floor_le ((b.beat - a.beat) / M)
    have hfl2 : (-1 : Int) ≤ ((b.beat - a.beat) / M).floor := by
      apply Rat.le_floor_iff.mpr
      have : -M < b.beat - a.beat := by linarith
      rw [le_div_iff₀ hM]; push_cast; linarith
    have hb2 : ¬ (pyMod (b.beat - a.beat) M < 0) := by
      unfold pyMod
      rw [le_div_iff₀ hM] at hfl
      linarith
    have hm2 : ¬ (b.measure - a.measure + pyFloorDiv (b.beat - a.beat) M < 0) := by
      unfold pyFloorDiv
      by_cases h0 : b.measure - a.measure = 0
      · have h1 := hlex h0
        have : (0 : Int) ≤ ((b.beat - a.beat) / M).floor := by
          apply Rat.le_floor_iff.mpr
          simpa using div_nonneg h1 hM.le
        omega
      · omega
    simp only [hb2, hm2, or_self, if_false]
    refine ⟨_, rfl, ?_⟩
    unfold Snap.offset snapDist measLen pyMod pyFloorDiv
    push_cast
    ring
  · simp only [hc, if_false]
    have h1 : ¬ (b.beat - a.beat < 0 ∨ b.measure - a.measure < 0) := by
      intro h
      rcases h with h | h
      · exact hc (Or.inl h)
      · omega
    have h2 : ¬ (b.beat - a.beat < 0 ∨ False) := fun h => h1 (h.elim Or.inl False.elim)
    rw [if_neg h2]
    refine ⟨_, rfl, ?_⟩
    unfold Snap.offset snapDist measLen
    push_cast
    ring

/-- ascending, every change inside its own measure (what the `Snap` / `BpmChangeSnap` constructors guarantee) -/
def AscWf : BcSnap → List BcSnap → Prop
  | _, [] => True
  | a, b :: rest =>
    (0 < a.met ∧ a.snap.met = some a.met ∧ a.snap.le b.snap = true ∧ 0 ≤ a.snap.beat ∧ a.snap.beat < a.met ∧ 0 ≤ b.snap.beat)
      ∧ AscWf b rest

theorem relOffsets_chain : ∀ (rest : List BcSnap) (off : Rat) (a : BcSnap), AscWf a rest →
    ∃ os, relOffsets off a rest = .ok os ∧ offsChain off (beatLen a.bpm) (distsOf a rest) os := by
  intro rest
  induction rest with
  | nil => intro off a _; exact ⟨[], rfl, by simp [distsOf, offsChain]⟩
  | cons b t ih =>
    intro off a h
    obtain ⟨⟨hM, hmet, hle, ha0, ha, hb⟩, ht⟩ := h
    obtain ⟨d, hd, hoff⟩ := sub_offset a.snap b.snap a.met a.bpm hM hmet hle ha0 ha hb
    obtain ⟨os, hos, hch⟩ := ih (off + d.offset a.bpm a.met) b ht
    refine ⟨(off + d.offset a.bpm a.met) :: os, ?_, ?_⟩
    · simp only [relOffsets, hd, hos, bind, Except.bind]
    · simp only [distsOf, offsChain]
      exact ⟨by rw [hoff]; rfl, hch⟩

/-- **what `reseat` returns** on an ascending list whose first change is at measure 0 beat 0, when branch 2 never
fires and no gap is shorter than the threshold: the head-first description `seatFromD`. -/
theorem reseat_eq_ref (thr : Rat) (hthr : 0 ≤ thr) (b0 : BcSnap) (rest : List BcSnap)
    (hs : sortedSnaps (b0 :: rest) = true) (hw : AscWf b0 rest)
    (hh : HypsL thr b0.bpm b0.met (distsOf b0 rest)) :
    reseat (b0 :: rest) thr = .ok (seatFromD thr 0 b0 (distsOf b0 rest)) := by
  unfold reseat
  rw [rs_isort_sorted _ hs]
  obtain ⟨os, hos, hch⟩ := relOffsets_chain rest 0 b0 hw
  have hmap : (distsOf b0 rest).map Prod.snd = rest := by
    clear hs hw hh hos hch
    induction rest generalizing b0 with
    | nil => rfl
    | cons b t ih => simp [distsOf, ih b]
  have hlenp : (distsOf b0 rest).length = rest.length := by
    have := congrArg List.length hmap; simpa using this
  obtain ⟨st, hst, hb⟩ := loop_ref thr hthr (distsOf b0 rest) [] [] b0 0 os 0 (2 * (rest.length + 1)) rfl (le_refl _) hch hh
    (by rw [hlenp]; omega)
  simp only [zst, hmap, List.nil_append, List.length_nil] at hst
  simp only [hos, bind, Except.bind, hst]
  rw [hb]; rfl

end Reamber.Timing
