/-
C09 glue for the pair osu → Quaver: the embedding of an osu chart into C08's frames (`embOsu`), the Quaver chart held
by converted frames (`quaOfT`), and the lemmas that both commute with the abstraction to `AChart`.
-/
import Reamber.Lemmas.PipelineConv
import Reamber.Props.C08

namespace Reamber.Pipeline

open Reamber.Convert

/-! ### rows of a frame built from a list -/

theorem range_map_eq_map {α β} (l : List α) (F : α → β) (G : Nat → β)
    (h : ∀ i (hi : i < l.length), G i = F l[i]) : (List.range l.length).map G = l.map F := by
  apply List.ext_getElem
  · simp
  · intro i h1 h2
    simp only [List.getElem_map, List.getElem_range]
    exact h i (by simpa using h1)

theorem getD_map_num {α} (l : List α) (f : α → Rat) (i : Nat) (hi : i < l.length) :
    (l.map (fun x => Cell.num (f x))).getD i Cell.nan = Cell.num (f l[i]) := by
  simp [List.getD, hi]

theorem filterMap_some_map {α β} (l : List α) (f : α → Option β) (g : α → β) (h : ∀ a, f a = some (g a)) :
    l.filterMap f = l.map g := by
  induction l with
  | nil => rfl
  | cons a t ih => simp [List.filterMap_cons, h a, ih]

/-- a frame whose columns are numeric lists read off one list of objects -/
def numFrame {α} (l : List α) (cols : List (String × (α → Rat))) : Frame :=
  ⟨rangeIdx l.length, cols.map fun p => (p.1, l.map (fun x => Cell.num (p.2 x)))⟩

theorem numFrame_nrows {α} (l : List α) (cols : List (String × (α → Rat))) : (numFrame l cols).nrows = l.length := by
  simp [numFrame, Frame.nrows, rangeIdx]

theorem rows2 {α} (l : List α) (f g : α → Rat) (ka kb : String) (hne : (kb == ka) = false) :
    rowsOfFrame (numFrame l [(ka, f), (kb, g)]) [ka, kb] = l.map (fun x => [Cell.num (f x), Cell.num (g x)]) := by
  unfold rowsOfFrame projRows
  rw [numFrame_nrows]
  simp only [colsOf, Frame.col?, numFrame, List.map_cons, List.map_nil, List.lookup, beq_self_eq_true, hne,
    Option.map_some, Option.getD_some, rowsOf]
  apply range_map_eq_map
  intro i hi
  simp [List.getD, hi]

theorem rows3 {α} (l : List α) (f g h : α → Rat) (ka kb kc : String) (h1 : (kb == ka) = false) (h2 : (kc == ka) = false)
    (h3 : (kc == kb) = false) :
    rowsOfFrame (numFrame l [(ka, f), (kb, g), (kc, h)]) [ka, kb, kc] =
      l.map (fun x => [Cell.num (f x), Cell.num (g x), Cell.num (h x)]) := by
  unfold rowsOfFrame projRows
  rw [numFrame_nrows]
  simp only [colsOf, Frame.col?, numFrame, List.map_cons, List.map_nil, List.lookup, beq_self_eq_true, h1, h2, h3,
    Option.map_some, Option.getD_some, rowsOf]
  apply range_map_eq_map
  intro i hi
  simp [List.getD, hi]

/-! ### the osu chart as a source of C08's converter model -/

/-- the text attributes of an `OsuMap` the converters read (C08's model keeps attributes as strings; numbers are
opaque to it) -/
def osuAttrs (c : Osu.Chart) : List (String × String) :=
  [("audio_file_name", String.ofList c.md.audioFileName), ("title", String.ofList c.md.title),
   ("title_unicode", String.ofList c.md.titleUnicode), ("artist", String.ofList c.md.artist),
   ("artist_unicode", String.ofList c.md.artistUnicode), ("creator", String.ofList c.md.creator),
   ("version", String.ofList c.md.version), ("background_file_name", String.ofList c.md.backgroundFileName),
   ("preview_time", "<preview_time>")]

/-- the list frames of an in-memory `OsuMap` as far as a converter reads them: the key columns of the four lists, row
labels `0..n-1` (a freshly read chart) -/
def embOsu (c : Osu.Chart) : SrcMap :=
  ⟨[("svs", numFrame c.svs [("offset", fun s => s.offset), ("multiplier", fun s => s.multiplier)]),
    ("hits", numFrame c.hits [("offset", fun h => h.offset), ("column", fun h => (h.column : Rat))]),
    ("holds", numFrame c.holds [("offset", fun h => h.offset), ("column", fun h => (h.column : Rat)),
                                ("length", fun h => h.length)]),
    ("bpms", numFrame c.bpms [("offset", fun b => b.offset), ("bpm", fun b => b.bpm)])], osuAttrs c, ""⟩

/-- **embedding commutes with abstraction**: the frames of an osu chart hold exactly its abstract chart -/
theorem ofSrcMap_embOsu (c : Osu.Chart) : ofSrcMap (embOsu c) = ofOsu c := by
  have e1 : ("column" == "offset") = false := by decide
  have e2 : ("length" == "offset") = false := by decide
  have e3 : ("length" == "column") = false := by decide
  have e4 : ("bpm" == "offset") = false := by decide
  have hh := rows2 c.hits (fun h => h.offset) (fun h => (h.column : Rat)) "offset" "column" e1
  have hl := rows3 c.holds (fun h => h.offset) (fun h => (h.column : Rat)) (fun h => h.length) "offset" "column" "length" e1 e2 e3
  have hb := rows2 c.bpms (fun b => b.offset) (fun b => b.bpm) "offset" "bpm" e4
  have k1 : keysHits = ["offset", "column"] := rfl
  have k2 : keysHolds = ["offset", "column", "length"] := rfl
  have k3 : keysBpms = ["offset", "bpm"] := rfl
  have l1 : (embOsu c).lists.lookup "hits" = some (numFrame c.hits [("offset", fun h => h.offset), ("column", fun h => (h.column : Rat))]) := by
    simp [embOsu, List.lookup]
  have l2 : (embOsu c).lists.lookup "holds" = some (numFrame c.holds [("offset", fun h => h.offset), ("column", fun h => (h.column : Rat)), ("length", fun h => h.length)]) := by
    simp [embOsu, List.lookup]
  have l3 : (embOsu c).lists.lookup "bpms" = some (numFrame c.bpms [("offset", fun b => b.offset), ("bpm", fun b => b.bpm)]) := by
    simp [embOsu, List.lookup]
  have dh : (c.hits.map (fun x => [Cell.num x.offset, Cell.num (x.column : Rat)])).filterMap decodeHit =
      c.hits.map (fun h => (h.offset, h.column)) := by
    rw [List.filterMap_map]
    exact filterMap_some_map _ _ _ (fun a => by simp [decodeHit, Rat.floor_intCast])
  have dl : (c.holds.map (fun x => [Cell.num x.offset, Cell.num (x.column : Rat), Cell.num x.length])).filterMap decodeHold =
      c.holds.map (fun h => (h.offset, h.column, h.length)) := by
    rw [List.filterMap_map]
    exact filterMap_some_map _ _ _ (fun a => by simp [decodeHold, Rat.floor_intCast])
  have db : (c.bpms.map (fun x => [Cell.num x.offset, Cell.num x.bpm])).filterMap decodeBpm =
      c.bpms.map (fun b => (b.offset, b.bpm)) := by
    rw [List.filterMap_map]
    exact filterMap_some_map _ _ _ (fun a => by simp [decodeBpm])
  unfold ofSrcMap
  rw [l1, l2, l3]
  simp only [ofFrames, k1, k2, k3, hh, hl, hb, dh, dl, db, ofOsu]

theorem numFrame_wf {α} (l : List α) (cols : List (String × (α → Rat))) : frameWF (numFrame l cols) = true := by
  simp [frameWF, numFrame, Frame.nrows, rangeIdx]

/-- the embedded chart satisfies C08's well-formedness hypothesis on a source map -/
theorem srcMapOk_embOsu (c : Osu.Chart) : srcMapOk (embOsu c) = true := by
  simp [srcMapOk, embOsu, List.lookup, colsOf, Frame.col?, numFrame, keysHits, keysHolds, keysBpms, frameWF,
    Frame.nrows, rangeIdx]

/-! ### a converter without a shift parameter copies the key columns row by row -/

/-- positional version of C08 `convOne_content_noshift`: not only the same multiset of rows — the same rows in the same
order (the cast is positional), so the converted frames hold exactly the source map's abstract chart -/
theorem convOne_abstract_eq (T : Tables) (c : Conv) (src : Src) (cur : SrcMap) (k : Int) (t : TChart)
    (hst : staticOk T c = true) (hns : c.shiftParam = none) (hok : srcMapOk cur = true)
    (h : convOne T c src cur k = .ok t) : ofTChart t = ofSrcMap cur := by
  simp only [staticOk, Bool.and_eq_true] at hst
  obtain ⟨⟨⟨⟨⟨⟨_, _⟩, hH⟩, hL⟩, hB⟩, _⟩, _⟩ := hst
  simp only [srcMapOk, Bool.and_eq_true] at hok
  obtain ⟨_, hlists⟩ := hok
  unfold ofSrcMap
  split at hlists
  · rename_i sh sl sb eh el eb
    try simp only [eh, el, eb]
    unfold convOne at h
    split at h
    · cases h
    · split at h
      · rename_i fh fl fb fs me rh rl rb _ _
        simp only [hns, Except.ok.injEq] at h
        subst h
        obtain ⟨ch, nh⟩ := listFor_of_static T c cur "hits" keysHits fh sh hH eh rh
        obtain ⟨cl, nl⟩ := listFor_of_static T c cur "holds" keysHolds fl sl hL el rl
        obtain ⟨cb, nb⟩ := listFor_of_static T c cur "bpms" keysBpms fb sb hB eb rb
        simp only [ofTChart, ofFrames, rowsOfFrame, projRows_congr _ _ _ ch nh, projRows_congr _ _ _ cl nl,
          projRows_congr _ _ _ cb nb]
      all_goals cases h
  · cases hlists

/-- a converter of the shape `t = TMap(); …; return t` converts its one source map -/
theorem convert_single_inv (T : Tables) (c : Conv) (src : Src) (k : Int) (out : Out) (hs : c.shape = .single)
    (h : convert T c src k = .ok out) :
    ∃ m t, src.maps = [m] ∧ convOne T c src m k = .ok t ∧ out = ⟨false, [⟨[], [t]⟩]⟩ := by
  unfold convert at h
  rw [hs] at h
  simp only at h
  split at h
  · rename_i m hm
    split at h
    · cases h
    · rename_i t ht
      simp only [Except.ok.injEq] at h
      exact ⟨m, t, hm, ht, h.symm⟩
  · cases h

/-! ### the Quaver chart held by converted frames -/

/-- the in-memory `QuaMap` whose list frames are `t`'s: one hit / hold / tempo point per row, every `keysounds` cell
an empty list (what `TimedList.empty` writes since D08 is repaired), metronome 4 (the class default), the given
metadata record -/
def quaOfT (t : TChart) (info : Qua.Rec) (svs : List Qua.Sv) : Qua.Chart :=
  { info := info
    hits := (ofTChart t).hits.map (fun h => ⟨h.1, h.2, .list []⟩)
    holds := (ofTChart t).holds.map (fun h => ⟨h.1, h.2.1, h.2.2, .list []⟩)
    bpms := (ofTChart t).bpms.map (fun b => ⟨b.1, b.2, 4⟩)
    svs := svs }

/-- **representation commutes with abstraction** -/
theorem ofQua_quaOfT (t : TChart) (info : Qua.Rec) (svs : List Qua.Sv) : ofQua (quaOfT t info svs) = ofTChart t := by
  simp [ofQua, quaOfT, List.map_map, Function.comp_def]

theorem ksLists_quaOfT (t : TChart) (info : Qua.Rec) (svs : List Qua.Sv) : Qua.Spec.ksLists (quaOfT t info svs) = true := by
  simp [Qua.Spec.ksLists, quaOfT]

end Reamber.Pipeline
