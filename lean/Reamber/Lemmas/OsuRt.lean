/- C01 — lemmas for the line-level theorems: classifier by counting = type bits; read ∘ write of one line. -/
import Reamber.Lemmas.OsuLex
import Reamber.Lemmas.OsuNum

namespace Reamber.Osu

/-! ### counting separators = type bits, on lines of the dialect -/

theorem classify_fields (line fx fy ft fty fhs fex : Str) (hs : splitOn ',' line = [fx, fy, ft, fty, fhs, fex])
    (h0 : countC ':' fx = 0) (h1 : countC ':' fy = 0) (h2 : countC ':' ft = 0) (h3 : countC ':' fty = 0)
    (h4 : countC ':' fhs = 0) :
    countC ',' line = 5 ∧ countC ':' line + 1 = (splitOn ':' fex).length := by
  have hc := count_add_one_eq_length_splitOn ',' line
  rw [hs] at hc
  have hj := joinWith_splitOn ',' line
  rw [hs] at hj
  have hcol := count_joinWith_ne ',' ':' (by decide) [fx, fy, ft, fty, fhs, fex]
  rw [hj] at hcol
  have he := count_add_one_eq_length_splitOn ':' fex
  simp only [List.map, List.sum_cons, List.sum_nil, h0, h1, h2, h3, h4] at hcol
  simp only [List.length_cons, List.length_nil] at hc
  constructor
  · omega
  · omega

/-! ### `float(str(int))` -/

theorem span_all (p : Char → Bool) (s : Str) (h : s.all p = true) : s.span p = (s, []) := by
  have h' : ∀ x ∈ s, p x = true := List.all_eq_true.mp h
  have key : ∀ t : Str, (∀ x ∈ t, p x = true) → t.takeWhile p = t ∧ t.dropWhile p = [] := by
    intro t
    induction t with
    | nil => intro _; exact ⟨rfl, rfl⟩
    | cons a as ih =>
      intro ht
      have ha := ht a (by simp)
      obtain ⟨i1, i2⟩ := ih (fun x hx => ht x (by simp [hx]))
      simp [List.takeWhile, List.dropWhile, ha, i1, i2]
  rw [List.span_eq_takeWhile_dropWhile, (key s h').1, (key s h').2]

theorem readFloat_showInt (i : Int) : readFloat (showInt i) = .ok (i : Rat) := by
  have hspec := showNat_spec i.natAbs
  obtain ⟨h1, h2, h3⟩ := hspec
  have hspan := span_all isDig _ (allDig_all_isDig h3)
  unfold readFloat
  rw [numPrep_plain _ (showInt_plain i)]
  show readFloatA (showInt i) = _
  unfold readFloatA
  unfold showInt
  by_cases hi : i < 0
  · rw [if_pos hi]
    have ht : takeSign ('-' :: showNat i.natAbs) = (true, showNat i.natAbs) := rfl
    rw [ht]
    simp only [hspan, readExp, List.append_nil, h1, List.length_nil, pow10]
    simp [h2]
    have hq : (i : Rat) < 0 := by exact_mod_cast hi
    rw [abs_of_neg hq]; ring
  · rw [if_neg hi, takeSign_allDig h3]
    simp only [hspan, readExp, List.append_nil, h1, List.length_nil, pow10]
    simp [h2]
    omega

/-! ### membership in a join -/

theorem not_mem_joinWith (c d : Char) (hcd : d ≠ c) (ps : List Str) (h : ∀ p ∈ ps, d ∉ p) : d ∉ joinWith c ps := by
  induction ps with
  | nil => simp [joinWith]
  | cons p qs ih =>
    cases qs with
    | nil => simpa [joinWith] using h p (by simp)
    | cons q rs =>
      show d ∉ p ++ c :: joinWith c (q :: rs)
      simp only [List.mem_append, List.mem_cons, not_or]
      exact ⟨h p (by simp), hcd, ih (fun p' hp' => h p' (by simp [hp']))⟩

theorem count_eq_zero_of_not_mem (c : Char) (s : Str) (h : c ∉ s) : countC c s = 0 := by
  unfold countC; exact List.count_eq_zero_of_not_mem h

end Reamber.Osu

namespace Reamber.Osu

/-! ### `_num`: integral values as integers, the others through `repr` -/

theorem isWs_space : isWs ' ' = true := by decide +kernel

theorem strip_cons_space (s : Str) : strip (' ' :: s) = strip s := by
  unfold strip lstrip
  rw [List.dropWhile_cons, isWs_space]; rfl

theorem numPrep_cons_space (s : Str) : numPrep (' ' :: s) = numPrep s := by
  unfold numPrep
  have : isSep ' ' = false := by decide +kernel
  rw [List.any_cons, this, Bool.false_or, strip_cons_space]

theorem readInt_cons_space (s : Str) : readInt (' ' :: s) = readInt s := by
  unfold readInt; rw [numPrep_cons_space]

theorem readFloat_cons_space (s : Str) : readFloat (' ' :: s) = readFloat s := by
  unfold readFloat; rw [numPrep_cons_space]

theorem tok_num_int (R : Render) (n : Int) : R.tok (.num (n : Rat)) = showInt n := by
  simp [Render.tok]

theorem tok_num_of_den (R : Render) (q : Rat) : R.tok (.num q) = if q.den = 1 then showInt q.num else R.repr q := rfl

/-- **what `_num` writes reads back exactly**: an integral value for every renderer (the model prints the integer
itself), any other value under the `repr` read-back assumption for that value -/
theorem readFloat_tok_num (R : Render) (q : Rat) (hr : q.den ≠ 1 → readFloat (R.repr q) = .ok q) :
    readFloat (R.tok (.num q)) = .ok q := by
  rw [tok_num_of_den]
  by_cases h : q.den = 1
  · rw [if_pos h, readFloat_showInt, Rat.coe_int_num_of_den_eq_one h]
  · rw [if_neg h]; exact hr h

theorem readInt_tok_num (R : Render) (n : Int) : readInt (R.tok (.num (n : Rat))) = .ok n := by
  rw [tok_num_int, readInt_showInt]

end Reamber.Osu
