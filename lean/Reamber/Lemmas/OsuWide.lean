/- C01 — the wide `int()` / `float()` model: where it coincides with the ASCII grammar, where `strip()` and a number's
white space part ways (\x1c–\x1f), and where the model and Python's `float()` part ways (inf / nan). -/
import Reamber.Lemmas.OsuRt

namespace Reamber.Osu

/-- on plain ASCII tokens (no white space, no underscore) the wide readers are the ASCII grammar -/
theorem read_plain (s : Str) (h : Plain s) : readInt s = readIntA s ∧ readFloat s = readFloatA s := by
  unfold readInt readFloat
  rw [numPrep_plain s h]
  exact ⟨rfl, rfl⟩

/-- **where `str.strip()` and `int()` / `float()` part ways**: a text containing one of \x1c–\x1f is no number, although
`strip()` treats these four characters as white space -/
theorem number_rejects_sep (s : Str) (h : s.any isSep = true) :
    readInt s = .error .value ∧ readFloat s = .error .value ∧ floatNonFinite s = none := by
  unfold readInt readFloat floatNonFinite numPrep
  rw [h]
  exact ⟨rfl, rfl, rfl⟩

theorem readFloatA_head (c : Char) (r : Str) (b : Bool) (t : Str) (ht : takeSign t = (b, c :: r))
    (hd : isDig c = false) (hdot : c ≠ '.') : readFloatA t = .error .value := by
  have tw : List.takeWhile isDig (c :: r) = [] := by rw [List.takeWhile_cons, hd]; rfl
  have dw : List.dropWhile isDig (c :: r) = c :: r := by rw [List.dropWhile_cons, hd]; rfl
  have hspan : (c :: r).span isDig = ([], c :: r) := by rw [List.span_eq_takeWhile_dropWhile, tw, dw]
  unfold readFloatA
  rw [ht]
  dsimp only
  rw [hspan]
  dsimp only
  split
  · rfl
  · next hcond =>
    exfalso
    apply hcond
    refine ⟨rfl, ?_⟩
    split
    · next heq => injection heq with h1 _; exact absurd h1 hdot
    · rfl

theorem lower_not_digit (c : Char) (x : Char) (hx : isDig x = false) (hx2 : x.toNat < 65 ∨ 90 < x.toNat)
    (h : lowerChar c = x) : isDig c = false := by
  unfold lowerChar at h
  split at h
  · next hc =>
    unfold isDig
    simp only [Bool.and_eq_false_iff, decide_eq_false_iff_not]
    omega
  · rw [h]; exact hx

theorem lower_not_dot (c : Char) (x : Char) (hx : x ≠ '.') (h : lowerChar c = x) : c ≠ '.' := by
  intro hc
  subst hc
  have : lowerChar '.' = '.' := by decide +kernel
  rw [this] at h
  exact hx h.symm

/-- **where the model and Python's `float()` part ways**: on exactly the tokens recognised by `floatNonFinite`
([+-]? inf | infinity | nan, any case, surrounded by white space) Python returns a non-finite double; the model, whose
numbers are rationals, answers ValueError.  Such tokens are outside the dialect. -/
theorem floatNonFinite_rejected (s : Str) (x : NonFin) (h : floatNonFinite s = some x) :
    readFloat s = .error .value := by
  unfold floatNonFinite at h
  unfold readFloat
  cases hp : numPrep s with
  | none => rfl
  | some t =>
    rw [hp] at h
    simp only [] at h
    show readFloatA t = _
    cases hts : (takeSign t).2 with
    | nil =>
      rw [hts] at h
      simp at h
    | cons c r =>
      rw [hts] at h
      have hfirst : lowerChar c = 'i' ∨ lowerChar c = 'n' := by
        simp only [List.map_cons] at h
        split at h
        · next hc =>
          rcases hc with hc | hc
          · left; exact (List.cons.inj hc).1
          · left; exact (List.cons.inj hc).1
        · split at h
          · next hc => right; exact (List.cons.inj hc).1
          · cases h
      have hd : isDig c = false := by
        rcases hfirst with e | e
        · exact lower_not_digit c 'i' (by decide +kernel) (by decide +kernel) e
        · exact lower_not_digit c 'n' (by decide +kernel) (by decide +kernel) e
      have hdot : c ≠ '.' := by
        rcases hfirst with e | e
        · exact lower_not_dot c 'i' (by decide) e
        · exact lower_not_dot c 'n' (by decide) e
      exact readFloatA_head c r (takeSign t).1 t (by rw [← hts]) hd hdot

end Reamber.Osu
