/-
C13 — StepMania bridge: a set as C03's writer sees it (`WHeader`, `WChart`: one kinded note list, the tempo pairs)
presented as the frames the library holds (`SMMap.objs`: fakes, lifts, keysounds, mines, rolls, stops, hits, holds,
bpms; `SMMapSet.offset / sample_start / sample_length`), and: rating the frames is `rateHdr` / `rateW`.
-/
import Reamber.Lemmas.RateFormats
import Reamber.Lemmas.RateSMWrite

namespace Reamber.Rate

open Reamber.SM

def kindFrame2 (k : Kind) (notes : List SM.Note) : Frame :=
  ⟨["column", "offset"], (notes.filter (fun n => n.kind = k)).map fun n => [.num (n.col : Rat), .num n.time]⟩

def kindFrame3 (k : Kind) (notes : List SM.Note) : Frame :=
  ⟨["length", "column", "offset"],
    (notes.filter (fun n => n.kind = k)).map fun n => [.num n.length, .num (n.col : Rat), .num n.time]⟩

/-- an `SMMap` as `objs` holds it (C03's writer domain has no stops: that list is empty) -/
def encW (c : WChart) : Chart :=
  { lists := [("fakes", kindFrame2 .fake c.notes), ("lifts", kindFrame2 .lift c.notes),
              ("keysounds", kindFrame2 .keysound c.notes), ("mines", kindFrame2 .mine c.notes),
              ("rolls", kindFrame3 .roll c.notes), ("stops", ⟨["length", "offset"], []⟩),
              ("hits", kindFrame2 .hit c.notes), ("holds", kindFrame3 .hold c.notes),
              ("bpms", ⟨["bpm", "metronome", "offset"], c.bpms.map fun p => [.num p.2, .num 4, .num p.1]⟩)],
    samples := none, preview := none, extra := [] }

def encSm (h : WHeader) (charts : List WChart) : MapSet :=
  ⟨charts.map encW, some h.offset, some h.sampleStart, some h.sampleLength, []⟩

theorem scale_kindFrame2 (r : Rat) (k : Kind) (notes : List SM.Note) :
    scaleFrame r (kindFrame2 k notes) = kindFrame2 k (notes.map (rateNote r)) := by
  simp [kindFrame2, scaleFrame, filter_kind_rate, List.map_map, Function.comp_def, scaleRow, scaleCell, timeCols,
    durCols, bpmCols, rateNote]

theorem scale_kindFrame3 (r : Rat) (k : Kind) (notes : List SM.Note) :
    scaleFrame r (kindFrame3 k notes) = kindFrame3 k (notes.map (rateNote r)) := by
  simp [kindFrame3, scaleFrame, filter_kind_rate, List.map_map, Function.comp_def, scaleRow, scaleCell, timeCols,
    durCols, bpmCols, rateNote]

theorem scaleChart_encW (r : Rat) (c : WChart) : scaleChart .sm r (encW c) = encW (rateW r c) := by
  simp only [scaleChart, encW, List.map_cons, List.map_nil, scale_kindFrame2, scale_kindFrame3, rateW]
  simp [scaleFrame, scaleRow, scaleCell, timeCols, durCols, bpmCols, List.map_map, Function.comp_def]

theorem chartOk_encW (c : WChart) : chartOk .sm (encW c) = true := by
  simp only [chartOk, Bool.and_eq_true]
  refine ⟨?_, by simp⟩
  apply listsOk_of
  · intro f hf
    simp only [encW, List.map_cons, List.map_nil, List.mem_cons, List.not_mem_nil, or_false] at hf
    rcases hf with rfl | rfl | rfl | rfl | rfl | rfl | rfl | rfl | rfl <;>
      first
      | exact wf_mk _ _ _ (by decide) (fun a => by simp)
      | decide
  · intro f hf
    simp only [encW, List.map_cons, List.map_nil, List.mem_cons, List.not_mem_nil, or_false] at hf
    rcases hf with rfl | rfl | rfl | rfl | rfl | rfl | rfl | rfl | rfl <;>
      first
      | exact numericCols_mk _ _ _ (fun a c hc => by
          simp only [List.mem_cons, List.not_mem_nil, or_false] at hc
          rcases hc with rfl | rfl | rfl <;> simp [lookupCell, Cell.numeric])
      | decide
  · simp [hasCol, encW, kindFrame2]
  · simp [hasCol, encW, kindFrame2, kindFrame3]
  · simp [hasCol, encW, kindFrame2, kindFrame3]

theorem setOk_encSm (h : WHeader) (charts : List WChart) : setOk .sm .sm (encSm h charts) = true := by
  simp only [setOk, encSm, Bool.and_eq_true, List.all_eq_true, List.mem_map]
  refine ⟨?_, by simp⟩
  rintro c ⟨c0, _, rfl⟩
  exact chartOk_encW c0

theorem scaleSet_encSm (r : Rat) (h : WHeader) (charts : List WChart) :
    scaleSet .sm .sm r (encSm h charts) = encSm (rateHdr r h) (charts.map (rateW r)) := by
  simp [scaleSet, encSm, rateHdr, List.map_map, Function.comp_def, scaleChart_encW]

end Reamber.Rate
