/-
Helper lemmas for C07, header part: the walk of `read_meta` over a (format, size, count) table with its running
`ix_start` reads every entry at the running offset (`walk_eq`), and the assignment loop that follows can be fused with
it (`fuse`): reading everything first and then shaping `meta_fields[i]` is the same as reading and shaping entry by
entry.  Generic in the table; the generated table is plugged in by evaluation in Props/C07.
-/
import Reamber.Spec.O2J

namespace Reamber.O2J

open Reamber.O2J.Spec

theorem mapE_map {α β γ} (f : β → Except Err γ) (h : α → β) (l : List α) :
    mapE f (l.map h) = mapE (fun a => f (h a)) l := by
  induction l with
  | nil => rfl
  | cons a t ih => simp only [List.map_cons, mapE, ih]

theorem mapE_congr {α β} (f g : α → Except Err β) (l : List α) (h : ∀ a ∈ l, f a = g a) : mapE f l = mapE g l := by
  induction l with
  | nil => rfl
  | cons a t ih =>
    simp only [mapE]
    rw [h a (by simp), ih (fun x hx => h x (by simp [hx]))]

/-- (struct code, count, byte offset) of every table entry: the offset is the running sum of `int(size/count)*count` -/
def entries : List (Char × Nat × Nat) → Nat → List (Char × Nat × Nat)
  | [], _ => []
  | (f, size, count) :: rest, ix => (f, count, ix) :: entries rest (ix + size / count * count)

/-- `count` values of the entry's code, read directly at its offset -/
def readEntry (md : List Nat) (e : Char × Nat × Nat) : Except Err (List Field) := readN md e.1 e.2.1 e.2.2

theorem readCount_eq_readN (md : List Nat) (f : Char) : ∀ (c ix : Nat),
    readCount f (codeSize f) md c ix = readN md f c ix := by
  intro c
  induction c with
  | zero => intro ix; rfl
  | succ c ih => intro ix; simp only [readCount, readN, ih]

/-- the walk with its running index = direct reads at the running offsets, for any table whose entries have a
non-zero count and an element width equal to their struct code's width -/
theorem walk_eq (md : List Nat) : ∀ (tbl : List (Char × Nat × Nat)) (ix : Nat),
    (∀ t ∈ tbl, t.2.2 ≠ 0 ∧ t.2.1 / t.2.2 = codeSize t.1) →
    walk md tbl ix = mapE (readEntry md) (entries tbl ix) := by
  intro tbl
  induction tbl with
  | nil => intro ix _; rfl
  | cons t rest ih =>
    intro ix h
    obtain ⟨f, size, count⟩ := t
    have ht := h (f, size, count) (by simp)
    simp only at ht
    simp only [walk, entries, mapE, readEntry, if_neg ht.1, ht.2]
    rw [readCount_eq_readN, ih _ (fun x hx => h x (by simp [hx]))]

theorem readN_length (md : List Nat) (c : Char) : ∀ (k off : Nat) (f : List Field),
    readN md c k off = .ok f → f.length = k := by
  intro k
  induction k with
  | zero => intro off f h; simp only [readN] at h; cases h; rfl
  | succ k ih =>
    intro off f h
    simp only [readN] at h
    cases h1 : readField c (slice md off (codeSize c)) with
    | error e => rw [h1] at h; simp [bind, Except.bind] at h
    | ok v =>
      rw [h1] at h
      cases h2 : readN md c k (off + codeSize c) with
      | error e => rw [h2] at h; simp [bind, Except.bind] at h
      | ok r =>
        rw [h2] at h
        simp only [bind, Except.bind, Except.ok.injEq] at h
        subst h
        simp [ih _ _ h2]

/-- shaping a non-empty field list never fails and keeps the attribute name -/
theorem shapeVal_ok (name shape : String) (f : List Field) (hf : f ≠ []) :
    ∃ v, shapeVal name shape f = .ok (name, v) := by
  unfold shapeVal
  by_cases h1 : shape = "first"
  · rw [if_pos h1]
    cases f with
    | nil => exact absurd rfl hf
    | cons x t => cases x <;> exact ⟨_, rfl⟩
  · rw [if_neg h1]
    by_cases h2 : shape = "list"
    · rw [if_pos h2]; exact ⟨_, rfl⟩
    · rw [if_neg h2]
      by_cases h3 : shape = "decode"
      · rw [if_pos h3]; exact ⟨_, rfl⟩
      · rw [if_neg h3]; exact ⟨_, rfl⟩

theorem assignOne_eq (fields : List (List Field)) (a : String × Nat × String) (f : List Field)
    (h : fields[a.2.1]? = some f) : assignOne fields a = shapeVal a.1 a.2.2 f := by
  unfold assignOne shapeVal
  rw [h]
  rfl

/-- the assignments take `meta_fields[k], meta_fields[k+1], …` in order -/
def idxFrom : Nat → List (String × Nat × String) → Bool
  | _, [] => true
  | k, a :: t => decide (a.2.1 = k) && idxFrom (k + 1) t

/-- read one entry and shape it at once -/
def fused (md : List Nat) (p : (Char × Nat × Nat) × (String × Nat × String)) : Except Err (String × MetaVal) := do
  let f ← readEntry md p.1
  shapeVal p.2.1 p.2.2.2 f

/-- **fusion**: reading all entries and then running the assignment loop over `meta_fields` (with `P` already read)
equals reading-and-shaping entry by entry — same values, and the same first error -/
theorem fuse (md : List Nat) : ∀ (E : List (Char × Nat × Nat)) (P : List (List Field)) (A : List (String × Nat × String)),
    A.length = E.length → idxFrom P.length A = true → (∀ e ∈ E, e.2.1 ≠ 0) →
    (mapE (readEntry md) E >>= fun fs => mapE (assignOne (P ++ fs)) A) = mapE (fused md) (E.zip A) := by
  intro E
  induction E with
  | nil =>
    intro P A hl _ _
    have : A = [] := List.eq_nil_of_length_eq_zero (by simpa using hl)
    subst this
    rfl
  | cons e E' ih =>
    intro P A hl hi hc
    cases A with
    | nil => simp at hl
    | cons a A' =>
      simp only [idxFrom, Bool.and_eq_true, decide_eq_true_eq] at hi
      have hl' : A'.length = E'.length := by simpa using hl
      simp only [List.zip_cons_cons, mapE, fused]
      cases hR : readEntry md e with
      | error er => simp only [bind, Except.bind]
      | ok f =>
        have hne : f ≠ [] := by
          have := readN_length md e.1 e.2.1 e.2.2 f hR
          intro h0; subst h0
          exact hc e (by simp) (by simpa using this.symm)
        obtain ⟨v, hv⟩ := shapeVal_ok a.1 a.2.2 f hne
        have hih := ih (P ++ [f]) A' hl' (by simpa using hi.2) (fun x hx => hc x (by simp [hx]))
        simp only [bind, Except.bind, hv]
        cases hM : mapE (readEntry md) E' with
        | error e1 =>
          rw [hM] at hih
          simp only [bind, Except.bind] at hih
          simp only [← hih]
        | ok fs' =>
          rw [hM] at hih
          simp only [bind, Except.bind] at hih
          have hget : (P ++ f :: fs')[a.2.1]? = some f := by
            rw [hi.1]; simp
          have happ : P ++ f :: fs' = P ++ [f] ++ fs' := by simp
          simp only [assignOne_eq _ a f hget, hv]
          rw [happ, hih]

/-! ### reading one attribute out of a successfully decoded header -/

theorem mapE_length {α β} (f : α → Except Err β) : ∀ (l : List α) (r : List β), mapE f l = .ok r → r.length = l.length := by
  intro l
  induction l with
  | nil => intro r h; simp only [mapE] at h; cases h; rfl
  | cons a t ih =>
    intro r h
    simp only [mapE] at h
    cases h1 : f a with
    | error e => rw [h1] at h; simp [bind, Except.bind] at h
    | ok b =>
      rw [h1] at h
      cases h2 : mapE f t with
      | error e => rw [h2] at h; simp [bind, Except.bind] at h
      | ok r' =>
        rw [h2] at h
        simp only [bind, Except.bind, Except.ok.injEq] at h
        subst h
        simp [ih r' h2]

theorem mapE_getElem? {α β} (f : α → Except Err β) : ∀ (l : List α) (r : List β), mapE f l = .ok r →
    ∀ (i : Nat) (a : α), l[i]? = some a → ∃ v, r[i]? = some v ∧ f a = .ok v := by
  intro l
  induction l with
  | nil => intro r _ i a hi; simp at hi
  | cons x t ih =>
    intro r h i a hi
    simp only [mapE] at h
    cases h1 : f x with
    | error e => rw [h1] at h; simp [bind, Except.bind] at h
    | ok b =>
      rw [h1] at h
      cases h2 : mapE f t with
      | error e => rw [h2] at h; simp [bind, Except.bind] at h
      | ok r' =>
        rw [h2] at h
        simp only [bind, Except.bind, Except.ok.injEq] at h
        subst h
        cases i with
        | zero =>
          simp only [List.getElem?_cons_zero, Option.some.injEq] at hi
          subst hi
          exact ⟨b, by simp, h1⟩
        | succ j =>
          simp only [List.getElem?_cons_succ] at hi
          obtain ⟨v, hv, hf⟩ := ih r' h2 j a hi
          exact ⟨v, by simpa using hv, hf⟩

theorem shapeVal_name (name shape : String) (f : List Field) (v : String × MetaVal)
    (h : shapeVal name shape f = .ok v) : v.1 = name := by
  unfold shapeVal at h
  by_cases h1 : shape = "first"
  · rw [if_pos h1] at h
    cases f with
    | nil => cases h
    | cons x t => cases x <;> (simp only [Except.ok.injEq] at h; subst h; rfl)
  · rw [if_neg h1] at h
    by_cases h2 : shape = "list"
    · rw [if_pos h2] at h; simp only [Except.ok.injEq] at h; subst h; rfl
    · rw [if_neg h2] at h
      by_cases h3 : shape = "decode"
      · rw [if_pos h3] at h; simp only [Except.ok.injEq] at h; subst h; rfl
      · rw [if_neg h3] at h; simp only [Except.ok.injEq] at h; subst h; rfl

theorem specField_name (md : List Nat) (e : String × Nat × Char × Nat × String) (v : String × MetaVal)
    (h : specField md e = .ok v) : v.1 = e.1 := by
  unfold specField at h
  cases hr : readN md e.2.2.1 e.2.2.2.1 e.2.1 with
  | error er => rw [hr] at h; simp [bind, Except.bind] at h
  | ok f =>
    rw [hr] at h
    simp only [bind, Except.bind] at h
    exact shapeVal_name _ _ _ _ h

theorem specMeta_names (md : List Nat) : ∀ (L : List (String × Nat × Char × Nat × String)) (r : List (String × MetaVal)),
    mapE (specField md) L = .ok r → r.map (·.1) = L.map (·.1) := by
  intro L
  induction L with
  | nil => intro r h; simp only [mapE] at h; cases h; rfl
  | cons e t ih =>
    intro r h
    simp only [mapE] at h
    cases h1 : specField md e with
    | error er => rw [h1] at h; simp [bind, Except.bind] at h
    | ok b =>
      rw [h1] at h
      cases h2 : mapE (specField md) t with
      | error er => rw [h2] at h; simp [bind, Except.bind] at h
      | ok r' =>
        rw [h2] at h
        simp only [bind, Except.bind, Except.ok.injEq] at h
        subst h
        simp [ih r' h2, specField_name md e b h1]

/-- looking an attribute up by name finds the entry at the name's position -/
theorem lookupMeta_idx (k : String) : ∀ (r : List (String × MetaVal)) (names : List String), r.map (·.1) = names →
    ∀ i, names.idxOf k = i → i < names.length → lookupMeta r k = (r[i]?).map (·.2) := by
  intro r
  induction r with
  | nil => intro names hn i _ hlt; subst hn; simp at hlt
  | cons p t ih =>
    intro names hn i hi hlt
    subst hn
    simp only [List.map_cons, List.idxOf_cons] at hi
    by_cases hp : p.1 = k
    · simp only [hp, beq_self_eq_true, cond_true] at hi
      subst hi
      simp [lookupMeta, List.find?_cons, hp]
    · have hne : (p.1 == k) = false := by simpa using hp
      simp only [hne, cond_false] at hi
      subst hi
      have hlt' : List.idxOf k (t.map (·.1)) < (t.map (·.1)).length := by
        simp only [List.map_cons, List.length_cons] at hlt; omega
      have := ih (t.map (·.1)) rfl _ rfl hlt'
      simp only [lookupMeta, List.find?_cons, hp, decide_false] at this ⊢
      simpa using this

theorem readField_int (chunk : List Nat) (v : Field) (h : readField 'i' chunk = .ok v) : ∃ i, v = .int i := by
  unfold readField at h
  simp only [fmtSize] at h
  by_cases hl : chunk.length ≠ 4
  · rw [if_pos hl] at h; cases h
  · rw [if_neg hl] at h
    simp only [Except.ok.injEq] at h
    exact ⟨_, h.symm⟩

theorem readN_ints (md : List Nat) : ∀ (k off : Nat) (f : List Field),
    readN md 'i' k off = .ok f → (intsOf f).length = k := by
  intro k
  induction k with
  | zero => intro off f h; simp only [readN] at h; cases h; rfl
  | succ k ih =>
    intro off f h
    simp only [readN] at h
    cases h1 : readField 'i' (slice md off (codeSize 'i')) with
    | error e => rw [h1] at h; simp [bind, Except.bind] at h
    | ok v =>
      rw [h1] at h
      cases h2 : readN md 'i' k (off + codeSize 'i') with
      | error e => rw [h2] at h; simp [bind, Except.bind] at h
      | ok r =>
        rw [h2] at h
        simp only [bind, Except.bind, Except.ok.injEq] at h
        subst h
        obtain ⟨i, rfl⟩ := readField_int _ _ h1
        simp [intsOf, ih _ _ h2]

end Reamber.O2J
