/-
C02 — the chart's tempo list: `from_bpm_changes_snap(offset, bcs, reseat=True)` is the reseated list (C11) stored
through the cumulative integration; on a seated list the stored milliseconds are `cumTimes`, so C11's
`reseat_keeps_times` speaks about exactly the list the reader returns.
-/
import Reamber.Props.C11
import Reamber.Lemmas.TimingChain

namespace Reamber.Timing

/-- the tie between a change and its snap's metronome, with a positive metronome -/
def MetTie (b : BcSnap) : Prop := b.snap.met = some b.met ∧ 0 < b.met

theorem metTie_seatAt {b : BcSnap} (m : Int) (h : MetTie b) : MetTie (seatAt b m) := h

theorem metTie_stepRef (thr : Rat) (m : Int) (cur : BcSnap) (D : Rat) (h : MetTie cur) :
    ∀ b ∈ (stepRef thr m cur D).1, MetTie b := by
  intro b hb
  unfold stepRef at hb
  simp only at hb
  have hn : ∀ (q : Rat) (k : Int), MetTie (⟨q, cur.met, ⟨k, 0, some cur.met⟩⟩ : BcSnap) := fun _ _ => ⟨rfl, h.2⟩
  split at hb
  · split at hb
    · simp only [List.mem_singleton] at hb; subst hb; exact hn _ _
    · simp only [List.mem_cons, List.mem_singleton, List.not_mem_nil, or_false] at hb
      rcases hb with rfl | rfl
      · exact h
      · exact hn _ _
  · split at hb
    · split at hb
      · simp only [List.mem_singleton] at hb; subst hb; exact hn _ _
      · simp only [List.mem_cons, List.mem_singleton, List.not_mem_nil, or_false] at hb
        rcases hb with rfl | rfl
        · exact h
        · exact hn _ _
    · simp only [List.mem_singleton] at hb; subst hb; exact h

theorem metTie_seatFromD (thr : Rat) : ∀ (pairs : List (Rat × BcSnap)) (m : Int) (cur : BcSnap),
    MetTie cur → (∀ p ∈ pairs, MetTie p.2) → ∀ b ∈ seatFromD thr m cur pairs, MetTie b := by
  intro pairs
  induction pairs with
  | nil =>
    intro m cur hc _ b hb
    simp only [seatFromD, List.mem_singleton] at hb
    subst hb; exact hc
  | cons p rest ih =>
    obtain ⟨D, nx⟩ := p
    intro m cur hc hp b hb
    simp only [seatFromD, List.mem_append] at hb
    rcases hb with hb | hb
    · exact metTie_stepRef thr m cur D hc b hb
    · exact ih _ _ (metTie_seatAt _ (hp (D, nx) (by simp))) (fun q hq => hp q (List.mem_cons_of_mem _ hq)) b hb

theorem distsOf_snd_mem : ∀ (rest : List BcSnap) (a : BcSnap) (p : Rat × BcSnap), p ∈ distsOf a rest → p.2 ∈ rest := by
  intro rest
  induction rest with
  | nil => intro a p hp; simp [distsOf] at hp
  | cons b t ih =>
    intro a p hp
    simp only [distsOf, List.mem_cons] at hp
    rcases hp with rfl | hp
    · simp
    · exact List.mem_cons_of_mem _ (ih b p hp)

/-- on a seated ascending list the cumulative offsets are `cumTimes` -/
theorem cumOffsets_seated : ∀ (rest : List BcSnap) (T : Rat) (cur : BcSnap),
    sortedSnaps (cur :: rest) = true → (∀ b ∈ cur :: rest, b.snap.beat = 0) → (∀ b ∈ cur :: rest, MetTie b) →
    ∃ tl, cumOffsets T cur rest = .ok tl ∧
      (⟨T, cur.bpm⟩ : OutPt) :: outPtsOff tl = outPts T (cur :: rest) := by
  intro rest
  induction rest with
  | nil => intro T cur _ _ _; exact ⟨[], rfl, by simp [outPtsOff, outPts_one]⟩
  | cons n rest ih =>
    intro T cur hs hb hm
    have hle : cur.snap.le n.snap = true := sortedSnaps_head_le hs n (by simp)
    have hcb : cur.snap.beat = 0 := hb cur (by simp)
    have hnb : n.snap.beat = 0 := hb n (by simp)
    obtain ⟨hct, hcp⟩ := hm cur (by simp)
    have hmeas : cur.snap.measure ≤ n.snap.measure := by
      simp only [Snap.le, Snap.lt, Snap.eqv, hcb, hnb, Bool.or_eq_true, Bool.and_eq_true, decide_eq_true_eq] at hle
      rcases hle with (h | h) | h
      · exact le_of_lt h
      · exact le_of_eq h.1
      · exact le_of_eq h.1
    have hsub : n.snap.sub cur.snap = .ok ⟨n.snap.measure - cur.snap.measure, 0, some cur.met⟩ := by
      have hnn : ¬ (n.snap.measure - cur.snap.measure < 0) := by omega
      have hM : ¬ ((0 : Rat) ≥ cur.met) := not_le.mpr hcp
      simp [Snap.sub, Snap.make, hct, hcb, hnb, hnn, hM]
    obtain ⟨tl, htl, hpts⟩ := ih (T + snapDist cur.snap n.snap cur.met * beatLen cur.bpm) n (sortedSnaps_tail hs)
      (fun b hb' => hb b (List.mem_cons_of_mem _ hb')) (fun b hb' => hm b (List.mem_cons_of_mem _ hb'))
    have hoff : T + (⟨n.snap.measure - cur.snap.measure, 0, some cur.met⟩ : Snap).offset cur.bpm cur.met =
        T + snapDist cur.snap n.snap cur.met * beatLen cur.bpm := by
      simp only [Snap.offset, measLen, snapDist, hcb, hnb]
      push_cast
      ring
    refine ⟨⟨n.bpm, n.met, T + snapDist cur.snap n.snap cur.met * beatLen cur.bpm⟩ :: tl, ?_, ?_⟩
    · simp only [cumOffsets, hsub, bind, Except.bind, hoff, htl]
    · rw [outPts_cons]
      simp only [outPtsOff, List.map_cons] at hpts ⊢
      rw [← hpts]

/-- `from_bpm_changes_snap(t0, L, reseat=False)` on a seated ascending list that starts at (0, 0): it succeeds and
stores exactly `outPts t0 L` (the millisecond positions obtained by integrating `L` itself, with the bpms). -/
theorem fromBcSnapNoReseat_seated (t0 : Rat) (L : List BcSnap) (hs : sortedSnaps L = true) (h0 : firstZeroB L = true)
    (hb : ∀ b ∈ L, b.snap.beat = 0) (hm : ∀ b ∈ L, MetTie b) :
    ∃ tm, fromBcSnapNoReseat t0 L = .ok tm ∧ outPtsOff tm = outPts t0 L := by
  unfold fromBcSnapNoReseat
  rw [rs_isort_sorted L hs]
  cases L with
  | nil => simp [firstZeroB] at h0
  | cons c rest =>
    simp only [firstZeroB, Bool.and_eq_true, decide_eq_true_eq] at h0
    obtain ⟨tl, htl, hpts⟩ := cumOffsets_seated rest t0 c hs hb hm
    have : ¬ (c.snap.measure ≠ 0 ∨ c.snap.beat ≠ 0) := by simp [h0.1, h0.2]
    refine ⟨⟨c.bpm, c.met, t0⟩ :: tl, ?_, ?_⟩
    · simp only [this, if_false, htl, bind, Except.bind]
    · simpa [outPtsOff] using hpts

/-- **What the reader stores as the chart's tempo list** (`from_bpm_changes_snap(offset, bcs)` with reseating), under
C11's hypotheses `Dom`: it succeeds, and the stored (offset, bpm) points contain every original change at its own
millisecond position — in order, first on first, last on last, at most one inserted point per original interval
(`interleaveB 0 false`, exact equality). -/
theorem fromBcSnap_reseat_keeps_times (t0 : Rat) (cs : List BcSnap) (hd : Dom extendThreshold cs) :
    ∃ tm, fromBcSnap t0 cs true = .ok tm ∧ interleaveB 0 false (inPts t0 cs) (outPtsOff tm) = true := by
  have hthr : (0 : Rat) ≤ extendThreshold := by unfold extendThreshold; norm_num
  obtain ⟨hs, hw, hf, h2, ht, hmo⟩ := hd
  cases cs with
  | nil => simp [firstZeroB] at hf
  | cons b0 rest =>
    have hf' := hf
    simp only [firstZeroB, Bool.and_eq_true, decide_eq_true_eq] at hf'
    obtain ⟨hA, hH, _⟩ := dom_unfold extendThreshold rest b0 hs hw h2 ht hmo
    obtain ⟨h, t, hseq, hm0, hb0, hseat, hsort, _, _, hint⟩ :=
      seatFromD_spec extendThreshold hthr 0 (le_refl _) false (distsOf b0 rest) 0 b0 t0 hH hf'.1 hf'.2
    have hres : reseat (b0 :: rest) = .ok (h :: t) := by
      have := reseat_eq_ref extendThreshold hthr b0 rest hs hA hH
      rw [hseq] at this
      exact this
    -- well-formedness of the input gives the metronome tie of every reseated point
    have hwf : ∀ b ∈ b0 :: rest, MetTie b := by
      intro b hb
      have := (List.all_eq_true.mp hw) b hb
      simp only [wfOne, Bool.and_eq_true, decide_eq_true_eq] at this
      exact ⟨this.1.1.1.2, this.1.1.1.1.2⟩
    have hmt : ∀ b ∈ h :: t, MetTie b := by
      rw [← hseq]
      exact metTie_seatFromD extendThreshold _ 0 b0 (hwf b0 (by simp))
        (fun p hp => hwf p.2 (List.mem_cons_of_mem _ (distsOf_snd_mem rest b0 p hp)))
    have hbeats : ∀ b ∈ h :: t, b.snap.beat = 0 := by
      intro b hb
      have := (List.all_eq_true.mp hseat) b hb
      simpa using this
    have hfz : firstZeroB (h :: t) = true := by simp [firstZeroB, hm0, hb0]
    obtain ⟨tm, htm, hpts⟩ := fromBcSnapNoReseat_seated t0 (h :: t) hsort hfz hbeats hmt
    have hin : interleaveB 0 false (inPts t0 (b0 :: rest)) (outPtsOff tm) = true := by
      rw [hpts, inPts_eq]; exact hint
    refine ⟨tm, ?_, hin⟩
    unfold fromBcSnap
    rw [rs_isort_sorted _ hs]
    have hnz : ¬ (b0.snap.measure ≠ 0 ∨ b0.snap.beat ≠ 0) := by simp [hf'.1, hf'.2]
    simp only [hnz, if_false]
    by_cases hany : ((b0 :: rest).any fun b => decide (b.snap.beat ≠ 0)) = true
    · rw [if_pos ⟨trivial, hany⟩, hres]
      simpa [bind, Except.bind] using htm
    · rw [if_neg (fun hh => hany hh.2)]
      -- nothing to reseat: the list is already seated, and reseating it is the identity
      have hseat0 : seatedB (b0 :: rest) = true := by
        simp only [Bool.not_eq_true] at hany
        rw [List.any_eq_false] at hany
        simp only [seatedB, List.all_eq_true, decide_eq_true_eq]
        intro b hb
        have := hany b hb
        simpa using this
      have hid := reseat_id_of_seated extendThreshold hthr (b0 :: rest) ⟨hs, hw, hf, h2, ht, hmo⟩ hseat0
      have : (h :: t) = b0 :: rest := by
        have e : reseat (b0 :: rest) extendThreshold = .ok (h :: t) := hres
        rw [hid] at e
        cases e; rfl
      rw [← this]; exact htm

end Reamber.Timing
