/- C01 — numeric lemmas: column <-> x mapping, Python `int()` truncation, value <-> code. -/
import Reamber.Spec.Osu
import Mathlib.Tactic.Ring
import Mathlib.Tactic.Linarith
import Mathlib.Tactic.FieldSimp
import Mathlib.Algebra.Order.Field.Rat

namespace Reamber.Osu

/-! ### columns -/

theorem isColumn_unique {x k c c' : Int} (h : IsColumn x k c) (h' : IsColumn x k c') : c = c' := by
  unfold IsColumn at *; omega

/-- inside the playfield the clamp is inactive and the code's column is the column of the format -/
theorem xToCol_isColumn (x k : Int) (hk : 1 ≤ k) (hx0 : 0 ≤ x) (hx : x < 512) :
    IsColumn x k (xToCol x k) ∧ 0 ≤ xToCol x k ∧ xToCol x k < k := by
  unfold IsColumn xToCol
  have h0 : 0 ≤ x * k := Int.mul_nonneg hx0 (by omega)
  have h1 : x * k ≤ 511 * k := Int.mul_le_mul_of_nonneg_right (by omega) (by omega)
  generalize x * k = y at *
  omega

/-- outside the playfield the code clamps to the nearest column, like the format -/
theorem xToCol_clamp (x k : Int) (hk : 1 ≤ k) :
    (x < 0 → xToCol x k = 0) ∧ (512 ≤ x → xToCol x k = k - 1) := by
  unfold xToCol
  constructor
  · intro hx
    have h0 : x * k ≤ (-1) * k := Int.mul_le_mul_of_nonneg_right (by omega) (by omega)
    generalize x * k = y at *
    omega
  · intro hx
    have h0 : 512 * k ≤ x * k := Int.mul_le_mul_of_nonneg_right hx (by omega)
    generalize x * k = y at *
    omega

/-- writing a column and reading it back gives the column, for every key count up to 256 -/
theorem xToCol_colToX (c k : Int) (hk : 0 < k) (hk' : k ≤ 256) (hc0 : 0 ≤ c) (hc : c < k) :
    xToCol (colToX c k) k = c := by
  unfold xToCol colToX
  have h1 : (512 * c + 256) / k * k ≤ 512 * c + 256 := Int.ediv_mul_le _ (by omega)
  have h2 : 512 * c + 256 < ((512 * c + 256) / k + 1) * k := Int.lt_ediv_add_one_mul_self _ hk
  generalize (512 * c + 256) / k = x at *
  have h3 : (x + 1) * k = x * k + k := by ring
  rw [h3] at h2
  generalize x * k = y at *
  omega

/-- the written x lies inside the playfield and inside the column's own range -/
theorem colToX_isColumn (c k : Int) (hk : 0 < k) (hk' : k ≤ 256) (hc0 : 0 ≤ c) (hc : c < k) :
    IsColumn (colToX c k) k c ∧ 0 ≤ colToX c k ∧ colToX c k < 512 := by
  unfold IsColumn colToX
  have h1 : (512 * c + 256) / k * k ≤ 512 * c + 256 := Int.ediv_mul_le _ (by omega)
  have h2 : 512 * c + 256 < ((512 * c + 256) / k + 1) * k := Int.lt_ediv_add_one_mul_self _ hk
  have h4 : 0 ≤ (512 * c + 256) / k := Int.ediv_nonneg (by omega) (by omega)
  have h5 : (512 * c + 256) / k < 512 := by
    apply Int.ediv_lt_of_lt_mul hk
    have : 512 * c + 256 < 512 * k := by omega
    omega
  generalize (512 * c + 256) / k = x at *
  have h3 : (x + 1) * k = x * k + k := by ring
  rw [h3] at h2
  generalize x * k = y at *
  omega

/-- the search-based specification and the code's formula coincide for every x and every key count ≥ 1 -/
theorem specCol_eq_xToCol (x k : Int) (hk : 1 ≤ k) : specCol x k = xToCol x k := by
  unfold specCol
  cases h : List.find? (fun (c : Nat) => decide (IsColumn x k (c : Int))) (List.range k.toNat) with
  | some c =>
    have hc := List.find?_some h
    simp only [decide_eq_true_eq] at hc
    have hmem := List.mem_of_find?_eq_some h
    simp only [List.mem_range] at hmem
    show (c : Int) = xToCol x k
    unfold IsColumn at hc
    unfold xToCol
    have : (c : Int) < k := by omega
    generalize x * k = y at *
    omega
  | none =>
    rw [List.find?_eq_none] at h
    show (if x * k < 0 then 0 else k - 1) = xToCol x k
    by_cases hx0 : x < 0
    · have h0 : x * k ≤ (-1) * k := Int.mul_le_mul_of_nonneg_right (by omega) (by omega)
      rw [(xToCol_clamp x k hk).1 hx0, if_pos (by omega)]
    · by_cases hx : x < 512
      · exfalso
        obtain ⟨hcol, h0, h1⟩ := xToCol_isColumn x k hk (by omega) hx
        have := h (xToCol x k).toNat (by simp only [List.mem_range]; omega)
        simp only [decide_eq_true_eq] at this
        apply this
        have e : ((xToCol x k).toNat : Int) = xToCol x k := Int.toNat_of_nonneg h0
        rw [e]; exact hcol
      · have h0 : 512 * k ≤ x * k := Int.mul_le_mul_of_nonneg_right (by omega) (by omega)
        rw [(xToCol_clamp x k hk).2 (by omega), if_neg (by omega)]

/-! ### Python `int()` -/

theorem pyTrunc_intCast (n : Int) : pyTrunc (n : Rat) = n := by
  unfold pyTrunc
  by_cases h : (0 : Rat) ≤ (n : Rat)
  · rw [if_pos h, Rat.floor_intCast]
  · rw [if_neg h]
    have : (-(n : Rat)) = ((-n : Int) : Rat) := by push_cast; ring
    rw [this, Rat.floor_intCast]; omega

/-- truncation moves a time by less than one millisecond, toward zero -/
theorem pyTrunc_close (q : Rat) : -1 < (pyTrunc q : Rat) - q ∧ (pyTrunc q : Rat) - q < 1 := by
  unfold pyTrunc
  by_cases h : (0 : Rat) ≤ q
  · rw [if_pos h]
    have h1 := Rat.floor_le q
    have h2 := Rat.lt_floor_add_one q
    push_cast at h2
    constructor <;> linarith
  · rw [if_neg h]
    have h1 := Rat.floor_le (-q)
    have h2 := Rat.lt_floor_add_one (-q)
    push_cast at h2 ⊢
    constructor <;> linarith

theorem pyTrunc_abs_lt_one (q : Rat) : |(pyTrunc q : Rat) - q| < 1 := by
  rw [abs_lt]; exact pyTrunc_close q

/-- truncating an already truncated time changes nothing: no drift -/
theorem pyTrunc_idem (q : Rat) : pyTrunc ((pyTrunc q : Int) : Rat) = pyTrunc q := pyTrunc_intCast _

/-! ### value <-> code -/

theorem bpmCode_bpmCode (v : Rat) (hv : v ≠ 0) : bpmCode (bpmCode v) = v := by
  unfold bpmCode; field_simp

theorem svCode_svCode (v : Rat) (hv : v ≠ 0) : svCode (svCode v) = v := by
  unfold svCode; field_simp

theorem bpmCode_ne_zero (v : Rat) (hv : v ≠ 0) : bpmCode v ≠ 0 := by
  unfold bpmCode; exact div_ne_zero (by norm_num) hv

theorem svCode_ne_zero (v : Rat) (hv : v ≠ 0) : svCode v ≠ 0 := by
  unfold svCode; exact div_ne_zero (by norm_num) hv

end Reamber.Osu
