/-
C03 — `denote` of a written file: header values, then one `#NOTES` value per chart.  The MSD layer
(`msd_renderItems`) gives the values back; the offset, the tempo pairs and the charts are then read off the values.
Core Lean only.
-/
import Reamber.Lemmas.SMMsd

namespace Reamber.SM

open Reamber.Timing

def tagNotes : Str := ['N','O','T','E','S']
def tagOffsetS : Str := ['O','F','F','S','E','T']
def tagBpmsS : Str := ['B','P','M','S']

/-- the values of a file's items, parameters trimmed -/
def valuesOf (items : List Item) : List (List Str) :=
  items.filterMap (fun it => match it with
    | .value ps => some (ps.map trim)
    | _ => none)

theorem msd_renderItems' (items : List Item) (hok : ∀ it ∈ items, ItemOk it) :
    msd (renderItems items) = some (valuesOf items) := msd_renderItems items hok

/-- what `denote` reads off the values -/
structure FileFacts (d : Denoted) (vals : List (List Str)) : Prop where
  values : d.values = vals
  offset : d.offsetSec = (firstParam vals tagOffsetS).bind (fun s => (parseFloat s).toOption)
  bpms : d.bpms = (firstParam vals tagBpmsS).bind parsePairs
  charts : d.charts = (vals.filter (tagIs tagNotes)).map (fun v => denoteChart v.tail)
  wellFormed : d.chartsWellFormed = (vals.filter (tagIs tagNotes)).all (fun v => v.length == 7)

theorem denote_renderItems (items : List Item) (hok : ∀ it ∈ items, ItemOk it) :
    ∃ d, denote (renderItems items) = some d ∧ FileFacts d (valuesOf items) := by
  unfold denote
  rw [msd_renderItems' items hok]
  exact ⟨_, rfl, ⟨rfl, rfl, rfl, rfl, rfl⟩⟩

theorem firstParam_unique (pre post : List (List Str)) (name txt : Str) (rest : List Str)
    (hpre : ∀ v ∈ pre, tagIs name v = false) (hpost : ∀ v ∈ post, tagIs name v = false) :
    firstParam (pre ++ (name :: txt :: rest) :: post) name = some txt := by
  unfold firstParam
  have h1 : pre.filter (tagIs name) = [] := List.filter_eq_nil_iff.mpr (fun v hv => by simp [hpre v hv])
  have h2 : post.filter (tagIs name) = [] := List.filter_eq_nil_iff.mpr (fun v hv => by simp [hpost v hv])
  have h3 : tagIs name (name :: txt :: rest) = true := by simp [tagIs]
  rw [List.filter_append, h1, List.filter_cons_of_pos h3, h2]
  simp

theorem filter_notes_append (H C : List (List Str)) (hH : ∀ v ∈ H, tagIs tagNotes v = false)
    (hC : ∀ v ∈ C, tagIs tagNotes v = true) : (H ++ C).filter (tagIs tagNotes) = C := by
  rw [List.filter_append, List.filter_eq_nil_iff.mpr (fun v hv => by simp [hH v hv]),
    List.filter_eq_self.mpr hC]
  rfl

end Reamber.SM
