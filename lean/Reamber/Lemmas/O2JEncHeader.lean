/-
A by-the-book ENCODER of the 300-byte OJN header (`encodeHeader`) and the proof that the specification's header reader
(`Spec.specMeta`: every field read directly at its declared offset of the literal table `formatLayout`) reads it back:
`specMeta (encodeHeader h counts ++ rest) = .ok (headerAttrs h counts)` for every valid abstract header.

The header is the concatenation of 23 segments (`headerSegs`), one per entry of the format.  One generic lemma
(`readN_enc`) reads `k` encoded values of one struct code out of the middle of a byte string; `SegOK` packages "this
segment, wherever it stands, is read by this table entry into this attribute"; `mapE_segs` walks a list of segments
against a table whose offsets are the running sums.
-/
import Reamber.Lemmas.O2JHeader
import Reamber.Lemmas.O2JFrame

namespace Reamber.O2J

open Reamber.O2J.Spec

/-! ### float32 by bit fields -/

/-- a float32 given by its three bit fields -/
structure F32Bits where
  s : Nat
  e : Nat
  m : Nat
deriving Repr, DecidableEq, Inhabited

def F32Bits.Valid (f : F32Bits) : Prop := f.s < 2 ∧ f.e < 256 ∧ f.m < 2 ^ 23

instance (f : F32Bits) : Decidable f.Valid := by unfold F32Bits.Valid; infer_instance

def F32Bits.encode (f : F32Bits) : List Nat := encodeLE 4 (f.s * 2 ^ 31 + f.e * 2 ^ 23 + f.m)

def F32Bits.val (f : F32Bits) : F32 := f32OfParts f.s f.e f.m

theorem decodeF32_encodeBits (f : F32Bits) (h : f.Valid) : decodeF32 f.encode = f.val := by
  obtain ⟨s, e, m⟩ := f
  obtain ⟨hs, he, hm⟩ := h
  simp only at hs he hm
  unfold decodeF32 F32Bits.encode F32Bits.val
  simp only
  rw [leNat_encodeLE 4 _ (by omega)]
  have h1 : (s * 2 ^ 31 + e * 2 ^ 23 + m) / 2 ^ 31 = s := by omega
  have h2 : (s * 2 ^ 31 + e * 2 ^ 23 + m) / 2 ^ 23 % 256 = e := by omega
  have h3 : (s * 2 ^ 31 + e * 2 ^ 23 + m) % 2 ^ 23 = m := by omega
  simp only [h1, h2, h3]

/-! ### the abstract header -/

/-- the abstract header: every field of the format as a value; texts are byte lists (the codec is a parameter of the
caller) -/
structure AHeader where
  songId : Int
  signature : List Nat         -- ≤ 4 bytes
  encodeVersion : F32Bits
  genre : Int
  bpm : F32Bits
  level : List Int             -- 4 int16
  eventCount : List Int        -- 3 int32
  noteCount : List Int
  measureCount : List Int
  oldEncodeVersion : Int       -- int16
  oldSongId : Int              -- int16
  oldGenre : List Nat          -- ≤ 20 bytes
  bmpSize : Int
  oldFileVersion : Int
  title : List Nat             -- ≤ 64 bytes
  artist : List Nat            -- ≤ 32
  creator : List Nat           -- ≤ 32
  ojmFile : List Nat           -- ≤ 32
  coverSize : Int
  duration : List Int          -- 3 int32
  noteOffset : List Int        -- 3 int32
  coverOffset : Int
deriving Repr, DecidableEq, Inhabited

/-- NUL padded text field -/
def padTo (w : Nat) (bs : List Nat) : List Nat := bs ++ List.replicate (w - bs.length) 0

/-- `pack("<i", n)` -/
def encI32 (n : Int) : List Nat := encodeLE 4 (toBits 32 n)
/-- `pack("<h", n)` -/
def encI16 (n : Int) : List Nat := encodeLE 2 (toBits 16 n)

abbrev InI32 (n : Int) : Prop := -2 ^ 31 ≤ n ∧ n < 2 ^ 31
abbrev InI16 (n : Int) : Prop := -2 ^ 15 ≤ n ∧ n < 2 ^ 15
/-- a text of at most `w` bytes -/
abbrev TextOK (w : Nat) (bs : List Nat) : Prop := bs.length ≤ w ∧ ∀ b ∈ bs, b < 256
/-- `k` int32 -/
abbrev I32sOK (k : Nat) (l : List Int) : Prop := l.length = k ∧ ∀ n ∈ l, InI32 n
/-- `k` int16 -/
abbrev I16sOK (k : Nat) (l : List Int) : Prop := l.length = k ∧ ∀ n ∈ l, InI16 n

/-- all ints in their int32 / int16 range, list lengths 4/3/3/3/3/3, text lengths ≤ width, every text byte < 256,
both floats valid bit fields -/
def AHeader.Valid (h : AHeader) : Prop :=
  InI32 h.songId ∧ TextOK 4 h.signature ∧ h.encodeVersion.Valid ∧ InI32 h.genre ∧ h.bpm.Valid ∧
  I16sOK 4 h.level ∧ I32sOK 3 h.eventCount ∧ I32sOK 3 h.noteCount ∧ I32sOK 3 h.measureCount ∧
  InI16 h.oldEncodeVersion ∧ InI16 h.oldSongId ∧ TextOK 20 h.oldGenre ∧ InI32 h.bmpSize ∧ InI32 h.oldFileVersion ∧
  TextOK 64 h.title ∧ TextOK 32 h.artist ∧ TextOK 32 h.creator ∧ TextOK 32 h.ojmFile ∧ InI32 h.coverSize ∧
  I32sOK 3 h.duration ∧ I32sOK 3 h.noteOffset ∧ InI32 h.coverOffset

instance (h : AHeader) : Decidable h.Valid := by unfold AHeader.Valid; infer_instance

/-- the 23 segments of the header, in format order -/
def headerSegs (h : AHeader) (counts : List Int) : List (List Nat) :=
  [encI32 h.songId, padTo 4 h.signature, h.encodeVersion.encode, encI32 h.genre, h.bpm.encode,
   h.level.flatMap encI16, h.eventCount.flatMap encI32, h.noteCount.flatMap encI32, h.measureCount.flatMap encI32,
   counts.flatMap encI32, encI16 h.oldEncodeVersion, encI16 h.oldSongId, padTo 20 h.oldGenre,
   encI32 h.bmpSize, encI32 h.oldFileVersion, padTo 64 h.title, padTo 32 h.artist, padTo 32 h.creator,
   padTo 32 h.ojmFile, encI32 h.coverSize, h.duration.flatMap encI32, h.noteOffset.flatMap encI32,
   encI32 h.coverOffset]

/-- the header bytes: the fields in format order (`counts` = package_count) -/
def encodeHeader (h : AHeader) (counts : List Int) : List Nat := (headerSegs h counts).flatten

theorem encI32_eq (n : Int) : encI32 n = encodeLE 4 (toBits 32 n) := rfl
theorem encI16_eq (n : Int) : encI16 n = encodeLE 2 (toBits 16 n) := rfl

/-- the header bytes written out: the fields one after the other, in format order -/
theorem encodeHeader_eq (h : AHeader) (counts : List Int) :
    encodeHeader h counts =
      encI32 h.songId ++ (padTo 4 h.signature ++ (h.encodeVersion.encode ++ (encI32 h.genre ++ (h.bpm.encode ++
      (h.level.flatMap encI16 ++ (h.eventCount.flatMap encI32 ++ (h.noteCount.flatMap encI32 ++
      (h.measureCount.flatMap encI32 ++ (counts.flatMap encI32 ++ (encI16 h.oldEncodeVersion ++ (encI16 h.oldSongId ++
      (padTo 20 h.oldGenre ++ (encI32 h.bmpSize ++ (encI32 h.oldFileVersion ++ (padTo 64 h.title ++
      (padTo 32 h.artist ++ (padTo 32 h.creator ++ (padTo 32 h.ojmFile ++ (encI32 h.coverSize ++
      (h.duration.flatMap encI32 ++ (h.noteOffset.flatMap encI32 ++ encI32 h.coverOffset))))))))))))))))))))) := by
  simp only [encodeHeader, headerSegs, List.flatten_cons, List.flatten_nil, List.append_nil]

/-- the 23 attributes, in `formatLayout` order -/
def headerAttrs (h : AHeader) (counts : List Int) : List (String × MetaVal) :=
  [("song_id", .int h.songId),
   ("signature", .text (h.signature.filter (fun b => b ≠ 0 && b < 128))),
   ("encode_version", .flt h.encodeVersion.val),
   ("genre", .int h.genre),
   ("bpm", .flt h.bpm.val),
   ("level", .list (h.level.map Field.int)),
   ("event_count", .list (h.eventCount.map Field.int)),
   ("note_count", .list (h.noteCount.map Field.int)),
   ("measure_count", .list (h.measureCount.map Field.int)),
   ("package_count", .list (counts.map Field.int)),
   ("old_encode_version", .int h.oldEncodeVersion),
   ("old_song_id", .int h.oldSongId),
   ("old_genre", .bytes (padTo 20 h.oldGenre)),
   ("bmp_size", .int h.bmpSize),
   ("old_file_version", .int h.oldFileVersion),
   ("title", .text (h.title.filter (fun b => b ≠ 0 && b < 128))),
   ("artist", .text (h.artist.filter (fun b => b ≠ 0 && b < 128))),
   ("creator", .text (h.creator.filter (fun b => b ≠ 0 && b < 128))),
   ("ojm_file", .text (h.ojmFile.filter (fun b => b ≠ 0 && b < 128))),
   ("cover_size", .int h.coverSize),
   ("duration", .list (h.duration.map Field.int)),
   ("note_offset", .list (h.noteOffset.map Field.int)),
   ("cover_offset", .int h.coverOffset)]

/-! ### lengths -/

theorem encI32_length (n : Int) : (encI32 n).length = 4 := encodeLE_length 4 _
theorem encI16_length (n : Int) : (encI16 n).length = 2 := encodeLE_length 2 _
theorem F32Bits.encode_length (f : F32Bits) : f.encode.length = 4 := encodeLE_length 4 _

theorem padTo_length (w : Nat) (bs : List Nat) (h : bs.length ≤ w) : (padTo w bs).length = w := by
  simp only [padTo, List.length_append, List.length_replicate]; omega

theorem flatMap_length_const {α : Type} (enc : α → List Nat) (n : Nat) (hlen : ∀ a, (enc a).length = n) :
    ∀ l : List α, (l.flatMap enc).length = l.length * n := by
  intro l
  induction l with
  | nil => simp
  | cons a t ih => simp only [List.flatMap_cons, List.length_append, hlen, ih, List.length_cons, Nat.add_mul]; omega

/-! ### reading `k` encoded values out of the middle of a byte string -/

theorem slice_mid (pre X post : List Nat) : slice (pre ++ (X ++ post)) pre.length X.length = X := by
  simp [slice]

/-- **generic field read**: `l.length` values written by `enc` (each of the width of code `c`, each read back by
`readField c`), standing at offset `pre.length`, are read back by `readN` -/
theorem readN_enc {α : Type} (c : Char) (enc : α → List Nat) (fld : α → Field) (P : α → Prop)
    (hlen : ∀ a, (enc a).length = codeSize c) (hrd : ∀ a, P a → readField c (enc a) = .ok (fld a)) :
    ∀ (l : List α) (pre post : List Nat), (∀ a ∈ l, P a) →
      readN (pre ++ (l.flatMap enc ++ post)) c l.length pre.length = .ok (l.map fld) := by
  intro l
  induction l with
  | nil => intro pre post _; rfl
  | cons a t ih =>
    intro pre post hp
    have hs : slice (pre ++ ((a :: t).flatMap enc ++ post)) pre.length (codeSize c) = enc a := by
      rw [← hlen a]
      simp only [List.flatMap_cons, List.append_assoc]
      exact slice_mid _ _ _
    have hmd : pre ++ ((a :: t).flatMap enc ++ post) = (pre ++ enc a) ++ (t.flatMap enc ++ post) := by
      simp [List.append_assoc]
    have hl : pre.length + codeSize c = (pre ++ enc a).length := by simp [hlen]
    simp only [List.length_cons, readN, List.map_cons]
    rw [hs, hrd a (hp a (by simp)), hl, hmd, ih (pre ++ enc a) post (fun x hx => hp x (by simp [hx]))]
    rfl

theorem readField_encI32 (n : Int) (h : InI32 n) : readField 'i' (encI32 n) = .ok (.int n) := by
  unfold readField
  simp only [fmtSize]
  rw [if_neg (by simp [encI32_length])]
  simp only [encI32, decodeI32_encode n h.1 h.2]

theorem readField_encI16 (n : Int) (h : InI16 n) : readField 'h' (encI16 n) = .ok (.int n) := by
  unfold readField
  simp only [fmtSize]
  rw [if_neg (by simp [encI16_length])]
  simp only [encI16, decodeI16_encode n h.1 h.2]

theorem readField_encF32 (f : F32Bits) (h : f.Valid) : readField 'f' f.encode = .ok (.flt f.val) := by
  unfold readField
  simp only [fmtSize]
  rw [if_neg (by simp [F32Bits.encode_length])]
  simp only [decodeF32_encodeBits f h]

theorem readField_byte (b : Nat) : readField 's' [b] = .ok (.byte b) := by
  unfold readField
  simp [fmtSize]

theorem flatMap_singleton_id (l : List Nat) : l.flatMap (fun b => [b]) = l := by
  induction l with
  | nil => rfl
  | cons a t ih => simp [ih]

/-! ### one segment, one table entry -/

/-- the segment has the width the entry declares and, wherever it stands, the entry (with the segment's offset) reads
it into the attribute `v` -/
def SegOK (seg : List Nat) (name : String) (c : Char) (k : Nat) (shape : String) (v : String × MetaVal) : Prop :=
  seg.length = k * codeSize c ∧
  ∀ pre post : List Nat, specField (pre ++ (seg ++ post)) (name, pre.length, c, k, shape) = .ok v

theorem specField_of_readN (md : List Nat) (name : String) (off : Nat) (c : Char) (k : Nat) (shape : String)
    (f : List Field) (v : String × MetaVal) (h1 : readN md c k off = .ok f) (h2 : shapeVal name shape f = .ok v) :
    specField md (name, off, c, k, shape) = .ok v := by
  simp only [specField, h1, bind, Except.bind]
  exact h2

theorem segOK_enc {α : Type} (c : Char) (enc : α → List Nat) (fld : α → Field) (P : α → Prop)
    (hlen : ∀ a, (enc a).length = codeSize c) (hrd : ∀ a, P a → readField c (enc a) = .ok (fld a))
    (l : List α) (k : Nat) (hk : l.length = k) (hp : ∀ a ∈ l, P a) (name shape : String) (v : String × MetaVal)
    (hsv : shapeVal name shape (l.map fld) = .ok v) : SegOK (l.flatMap enc) name c k shape v := by
  subst hk
  refine ⟨flatMap_length_const enc _ hlen l, ?_⟩
  intro pre post
  exact specField_of_readN _ _ _ _ _ _ _ _ (readN_enc c enc fld P hlen hrd l pre post hp) hsv

theorem segOK_enc1 {α : Type} (c : Char) (enc : α → List Nat) (fld : α → Field) (P : α → Prop)
    (hlen : ∀ a, (enc a).length = codeSize c) (hrd : ∀ a, P a → readField c (enc a) = .ok (fld a))
    (a : α) (pa : P a) (name shape : String) (v : String × MetaVal)
    (hsv : shapeVal name shape [fld a] = .ok v) : SegOK (enc a) name c 1 shape v := by
  have hp : ∀ x ∈ [a], P x := by intro x hx; simp at hx; subst hx; exact pa
  have h := @segOK_enc α c enc fld P hlen hrd [a] 1 rfl hp name shape v hsv
  have e : [a].flatMap enc = enc a := by simp
  rw [e] at h
  exact h

theorem segI32 (name : String) (n : Int) (hn : InI32 n) : SegOK (encI32 n) name 'i' 1 "first" (name, .int n) :=
  segOK_enc1 'i' encI32 Field.int InI32 encI32_length readField_encI32 n hn name "first" _ (by simp [shapeVal])

theorem segI16 (name : String) (n : Int) (hn : InI16 n) : SegOK (encI16 n) name 'h' 1 "first" (name, .int n) :=
  segOK_enc1 'h' encI16 Field.int InI16 encI16_length readField_encI16 n hn name "first" _ (by simp [shapeVal])

theorem segF32 (name : String) (f : F32Bits) (hf : f.Valid) :
    SegOK f.encode name 'f' 1 "first" (name, .flt f.val) :=
  segOK_enc1 'f' F32Bits.encode (fun f => Field.flt f.val) F32Bits.Valid F32Bits.encode_length readField_encF32 f hf
    name "first" _ (by simp [shapeVal])

theorem segI32s (name : String) (k : Nat) (l : List Int) (h : I32sOK k l) :
    SegOK (l.flatMap encI32) name 'i' k "list" (name, .list (l.map Field.int)) :=
  segOK_enc 'i' encI32 Field.int InI32 encI32_length readField_encI32 l k h.1 h.2 name "list" _ (by simp [shapeVal])

theorem segI16s (name : String) (k : Nat) (l : List Int) (h : I16sOK k l) :
    SegOK (l.flatMap encI16) name 'h' k "list" (name, .list (l.map Field.int)) :=
  segOK_enc 'h' encI16 Field.int InI16 encI16_length readField_encI16 l k h.1 h.2 name "list" _ (by simp [shapeVal])

theorem fieldBytes_map_byte (l : List Nat) : fieldBytes (l.map Field.byte) = l := by
  induction l with
  | nil => rfl
  | cons a t ih => simp [fieldBytes, ih]

/-- decoding a NUL padded text field drops the padding (and NULs / non-ASCII bytes of the text itself) -/
theorem decodeReplace_padTo (w : Nat) (bs : List Nat) :
    decodeReplace ((padTo w bs).map Field.byte) = bs.filter (fun b => b ≠ 0 && b < 128) := by
  unfold decodeReplace
  rw [fieldBytes_map_byte]
  simp [padTo, List.filter_append]

theorem segBytes (name shape : String) (w : Nat) (bs : List Nat) (hw : bs.length ≤ w) (v : String × MetaVal)
    (hsv : shapeVal name shape ((padTo w bs).map Field.byte) = .ok v) : SegOK (padTo w bs) name 's' w shape v := by
  have h := segOK_enc 's' (fun b : Nat => [b]) Field.byte (fun _ => True) (fun _ => rfl) (fun b _ => readField_byte b)
    (padTo w bs) w (padTo_length w bs hw) (fun _ _ => trivial) name shape v hsv
  rw [flatMap_singleton_id] at h
  exact h

theorem segText (name : String) (w : Nat) (bs : List Nat) (h : TextOK w bs) :
    SegOK (padTo w bs) name 's' w "decode" (name, .text (bs.filter (fun b => b ≠ 0 && b < 128))) :=
  segBytes name "decode" w bs h.1 _ (by simp [shapeVal, decodeReplace_padTo])

theorem segJoin (name : String) (w : Nat) (bs : List Nat) (h : TextOK w bs) :
    SegOK (padTo w bs) name 's' w "join" (name, .bytes (padTo w bs)) :=
  segBytes name "join" w bs h.1 _ (by simp [shapeVal, fieldBytes_map_byte])

/-! ### a list of segments against a table -/

/-- segments, table entries and attributes in step: every entry's offset is the running sum of the widths before it -/
inductive SegsOK : Nat → List (List Nat) → List (String × Nat × Char × Nat × String) → List (String × MetaVal) → Prop
  | nil (off : Nat) : SegsOK off [] [] []
  | cons {off off' : Nat} {s : List Nat} {ss : List (List Nat)} {name : String} {c : Char} {k : Nat} {shape : String}
      {es : List (String × Nat × Char × Nat × String)} {v : String × MetaVal} {vs : List (String × MetaVal)} :
      SegOK s name c k shape v → off' = off + k * codeSize c → SegsOK off' ss es vs →
      SegsOK off (s :: ss) ((name, off, c, k, shape) :: es) (v :: vs)

theorem mapE_segs (off : Nat) (segs : List (List Nat)) (L : List (String × Nat × Char × Nat × String))
    (out : List (String × MetaVal)) (hS : SegsOK off segs L out) :
    ∀ pre post : List Nat, pre.length = off →
      mapE (specField (pre ++ (segs.flatten ++ post))) L = .ok out := by
  induction hS with
  | nil off => intro pre post _; rfl
  | @cons off off' s ss name c k shape es v vs hseg hoff _ ih =>
    intro pre post hpre
    subst hpre
    obtain ⟨hlen, hrd⟩ := hseg
    have hmd : pre ++ ((s :: ss).flatten ++ post) = pre ++ (s ++ (ss.flatten ++ post)) := by
      simp [List.append_assoc]
    have hmd2 : pre ++ (s ++ (ss.flatten ++ post)) = (pre ++ s) ++ (ss.flatten ++ post) := by
      simp [List.append_assoc]
    simp only [mapE]
    rw [hmd, hrd pre (ss.flatten ++ post), hmd2, ih (pre ++ s) post (by simp [hlen, hoff])]
    rfl

/-! ### the header -/

theorem segsOK_header (h : AHeader) (counts : List Int) (hv : h.Valid) (hc : counts.length = 3)
    (hr : ∀ c ∈ counts, -2 ^ 31 ≤ c ∧ c < 2 ^ 31) :
    SegsOK 0 (headerSegs h counts) formatLayout (headerAttrs h counts) := by
  obtain ⟨v1, v2, v3, v4, v5, v6, v7, v8, v9, v11, v12, v13, v14, v15, v16, v17, v18, v19, v20, v21, v22, v23⟩ := hv
  unfold headerSegs formatLayout headerAttrs
  refine .cons (off' := 4) (segI32 _ _ v1) (by decide) ?_
  refine .cons (off' := 8) (segText _ _ _ v2) (by decide) ?_
  refine .cons (off' := 12) (segF32 _ _ v3) (by decide) ?_
  refine .cons (off' := 16) (segI32 _ _ v4) (by decide) ?_
  refine .cons (off' := 20) (segF32 _ _ v5) (by decide) ?_
  refine .cons (off' := 28) (segI16s _ _ _ v6) (by decide) ?_
  refine .cons (off' := 40) (segI32s _ _ _ v7) (by decide) ?_
  refine .cons (off' := 52) (segI32s _ _ _ v8) (by decide) ?_
  refine .cons (off' := 64) (segI32s _ _ _ v9) (by decide) ?_
  refine .cons (off' := 76) (segI32s _ _ _ ⟨hc, hr⟩) (by decide) ?_
  refine .cons (off' := 78) (segI16 _ _ v11) (by decide) ?_
  refine .cons (off' := 80) (segI16 _ _ v12) (by decide) ?_
  refine .cons (off' := 100) (segJoin _ _ _ v13) (by decide) ?_
  refine .cons (off' := 104) (segI32 _ _ v14) (by decide) ?_
  refine .cons (off' := 108) (segI32 _ _ v15) (by decide) ?_
  refine .cons (off' := 172) (segText _ _ _ v16) (by decide) ?_
  refine .cons (off' := 204) (segText _ _ _ v17) (by decide) ?_
  refine .cons (off' := 236) (segText _ _ _ v18) (by decide) ?_
  refine .cons (off' := 268) (segText _ _ _ v19) (by decide) ?_
  refine .cons (off' := 272) (segI32 _ _ v20) (by decide) ?_
  refine .cons (off' := 284) (segI32s _ _ _ v21) (by decide) ?_
  refine .cons (off' := 296) (segI32s _ _ _ v22) (by decide) ?_
  refine .cons (off' := 300) (segI32 _ _ v23) (by decide) ?_
  exact .nil _

/-- total width of a list of segments that matches a table -/
theorem segsOK_length (off : Nat) (segs : List (List Nat)) (L : List (String × Nat × Char × Nat × String))
    (out : List (String × MetaVal)) (hS : SegsOK off segs L out) :
    off + segs.flatten.length = off + (L.map (fun e => e.2.2.2.1 * codeSize e.2.2.1)).sum := by
  induction hS with
  | nil off => rfl
  | @cons off off' s ss name c k shape es v vs hseg hoff _ ih =>
    simp only [List.flatten_cons, List.length_append, List.map_cons, List.sum_cons, hseg.1]
    omega

theorem encodeHeader_length (h : AHeader) (counts : List Int) (hv : h.Valid) (hc : counts.length = 3) :
    (encodeHeader h counts).length = 300 := by
  obtain ⟨v1, v2, v3, v4, v5, v6, v7, v8, v9, v11, v12, v13, v14, v15, v16, v17, v18, v19, v20, v21, v22, v23⟩ := hv
  simp only [encodeHeader, headerSegs, List.flatten_cons, List.flatten_nil, List.length_append, List.length_nil,
    encI32_length, encI16_length, F32Bits.encode_length, padTo_length _ _ v2.1, padTo_length _ _ v13.1,
    padTo_length _ _ v16.1, padTo_length _ _ v17.1, padTo_length _ _ v18.1, padTo_length _ _ v19.1,
    flatMap_length_const encI32 4 encI32_length, flatMap_length_const encI16 2 encI16_length,
    v6.1, v7.1, v8.1, v9.1, v21.1, v22.1, hc]

/-- **MAIN**: the header round trip, for every valid abstract header, any three package counts in int32 range, any
body after it -/
theorem specMeta_encodeHeader (h : AHeader) (counts : List Int) (rest : List Nat) (hv : h.Valid)
    (hc : counts.length = 3) (hr : ∀ c ∈ counts, -2 ^ 31 ≤ c ∧ c < 2 ^ 31) :
    specMeta (encodeHeader h counts ++ rest) = .ok (headerAttrs h counts) := by
  have hlen := encodeHeader_length h counts hv hc
  have htake : (encodeHeader h counts ++ rest).take headerSize = encodeHeader h counts :=
    List.take_left' hlen
  have key := mapE_segs 0 (headerSegs h counts) formatLayout (headerAttrs h counts) (segsOK_header h counts hv hc hr)
    [] [] (Eq.refl 0)
  rw [List.nil_append, List.append_nil] at key
  unfold specMeta
  rw [htake]
  unfold encodeHeader
  exact key

/-! ### reading attributes out of `headerAttrs` -/

theorem intsOf_map_int (l : List Int) : intsOf (l.map Field.int) = l := by
  induction l with
  | nil => rfl
  | cons a t ih => simp [intsOf, ih]

theorem lookup_package_count_headerAttrs (h : AHeader) (counts : List Int) :
    lookupMeta (headerAttrs h counts) "package_count" = some (.list (counts.map Field.int)) := by
  simp [headerAttrs, lookupMeta]

theorem packageCounts_headerAttrs (h : AHeader) (counts : List Int) : packageCounts (headerAttrs h counts) = counts := by
  unfold packageCounts
  rw [lookup_package_count_headerAttrs]
  exact intsOf_map_int counts

theorem lookup_bpm_headerAttrs (h : AHeader) (counts : List Int) :
    lookupMeta (headerAttrs h counts) "bpm" = some (.flt h.bpm.val) := by
  simp [headerAttrs, lookupMeta]

theorem headerTempo_headerAttrs (h : AHeader) (counts : List Int) (q : Rat) (hq : h.bpm.val = .fin q) :
    headerTempo (headerAttrs h counts) = some q := by
  unfold headerTempo
  rw [lookup_bpm_headerAttrs, hq]

/-- the text fields come back: for a text whose bytes are all in 1..127 the attribute is exactly those bytes -/
theorem text_clean (bs : List Nat) (h : ∀ b ∈ bs, b ≠ 0 ∧ b < 128) : bs.filter (fun b => b ≠ 0 && b < 128) = bs := by
  rw [List.filter_eq_self]
  intro b hb
  have := h b hb
  simp [this.1, this.2]

theorem lookup_title_headerAttrs (h : AHeader) (counts : List Int) :
    lookupMeta (headerAttrs h counts) "title" = some (.text (h.title.filter (fun b => b ≠ 0 && b < 128))) := by
  simp [headerAttrs, lookupMeta]

theorem lookup_artist_headerAttrs (h : AHeader) (counts : List Int) :
    lookupMeta (headerAttrs h counts) "artist" = some (.text (h.artist.filter (fun b => b ≠ 0 && b < 128))) := by
  simp [headerAttrs, lookupMeta]

theorem lookup_creator_headerAttrs (h : AHeader) (counts : List Int) :
    lookupMeta (headerAttrs h counts) "creator" = some (.text (h.creator.filter (fun b => b ≠ 0 && b < 128))) := by
  simp [headerAttrs, lookupMeta]

theorem lookup_ojm_file_headerAttrs (h : AHeader) (counts : List Int) :
    lookupMeta (headerAttrs h counts) "ojm_file" = some (.text (h.ojmFile.filter (fun b => b ≠ 0 && b < 128))) := by
  simp [headerAttrs, lookupMeta]

theorem lookup_genre_headerAttrs (h : AHeader) (counts : List Int) :
    lookupMeta (headerAttrs h counts) "genre" = some (.int h.genre) := by
  simp [headerAttrs, lookupMeta]

theorem lookup_level_headerAttrs (h : AHeader) (counts : List Int) :
    lookupMeta (headerAttrs h counts) "level" = some (.list (h.level.map Field.int)) := by
  simp [headerAttrs, lookupMeta]

theorem lookup_song_id_headerAttrs (h : AHeader) (counts : List Int) :
    lookupMeta (headerAttrs h counts) "song_id" = some (.int h.songId) := by
  simp [headerAttrs, lookupMeta]

/-! ### non-vacuity -/

/-- a concrete header: song 1000, "ojn\0", version 2.9, genre 2, 120 BPM, "Title" by "AB" -/
def sampleHeader : AHeader :=
  { songId := 1000, signature := [111, 106, 110], encodeVersion := ⟨0, 128, 3774874⟩, genre := 2,
    bpm := ⟨0, 133, 7340032⟩, level := [5, 10, 20, 0], eventCount := [10, 20, 30], noteCount := [8, 16, 24],
    measureCount := [4, 4, 4], oldEncodeVersion := 29, oldSongId := 1000, oldGenre := [], bmpSize := 0,
    oldFileVersion := 0, title := [84, 105, 116, 108, 101], artist := [65, 66], creator := [67],
    ojmFile := [111, 50, 109, 97, 49, 48, 48, 48, 46, 111, 106, 109], coverSize := 0, duration := [60, 60, 60],
    noteOffset := [300, 400, 500], coverOffset := 600 }

example : sampleHeader.Valid := by decide

example : sampleHeader.bpm.val = .fin 120 := by decide +kernel

example : specMeta (encodeHeader sampleHeader [1, 2, -3] ++ [1, 2, 3]) = .ok (headerAttrs sampleHeader [1, 2, -3]) :=
  specMeta_encodeHeader sampleHeader [1, 2, -3] [1, 2, 3] (by decide) rfl (by decide)

end Reamber.O2J
