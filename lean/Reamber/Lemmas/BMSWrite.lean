/-
C05 — BMS writing produces a file that denotes the in-memory chart (the theorems; the assembly on top of C15's PermInvBMS is in Props/C05.lean).
Property theorems about the executable writer model (`Reamber/Model/BMS.lean`: `write`, `writeCells`,
`linesOfCells`, `fillSeq`, `newDens`, on top of K1's `snaps` and `findLcm`), tied to reamber/bms/BMSMap.py,
reamber/algorithms/timing/utils/find_lcm.py by the correspondence check and the generated constants, against
`Spec/BMS.lean` (`denote`, `lineValid`).

Full statement aimed at (kept visible; the theorems below are its proved parts):

  ∀ layout chart (4/4 tempo points on measure lines, first at 0, tempos with ≤ 3 decimals, columns of the layout,
    no two objects on one (lane, slot), nothing inside a hold of its lane, measures ≤ 999),
    ∃ lines d, write defaultGrid layout "01" chart = .ok lines ∧ denote (bookLayout layout) lines = some d ∧
      d.hits ≈ chart.hits ∧ d.holds ≈ chart.holds ∧ d.tempo ≈ chart.bpms   (= on the snap grid, ≤ 1/192 beat off it) ∧
      ∀ l ∈ lines, isDataLine l → lineValid l

Proved: `findLcm_dvd` (invariant of the double loop), `newDens_dvd`, `slot_exact` (re-slotting keeps the position),
`slot_roundtrip` (a written slot denotes exactly the row's snap), `no_merge_no_drop` (line level: every cell's
id sits on its slot, every other slot is `00`, the line has `den` slots), `line_valid`, `base36_roundtrip`,
`writer_consts_tie`, `bpm_3f_counterexample` (D06), and towards `denote ∘ write = id`:
* `lineKeys_cover` / `lineKeys_unique` — every cell is written in exactly one output line;
* `written_line_denotes` (with `classify_rendered`) — the denotation's lexer reads a rendered line back as measure,
  channel and exactly the line's non-`00` cells at beat `4·idx/den`;
* `written_objects` — the per-channel union: over all lines of `linesOfCells cells`, the by-the-book objects of a
  channel are exactly the non-`00` cells of that channel at measure, beat `4·idx/den`, with their ids;
* `pairLane_atoms` — by-the-book LNOBJ pairing of a written lane: when the lane's objects in position order are
  the chart's hits and head/LNOBJ pairs one after the other (nothing inside a hold: ¬D37), the pairing returns
  exactly those hits and holds;
* `write_positions` — `TimingMap.snaps` as the model runs it: the by-the-book time of every written position is
  the in-memory time exactly on the snap grid and within 1/192 beat (at the tempo in force) otherwise (through
  C10's `timeAtAux_snapAtAux` / `_err`, `snap_err_default`, `bcsOfBco_rederive`, `stableArgsort_sortsAscR`);
* `written_slot_time` — the two composed: the slot the writer fills for a time denotes that time.
* `written_tempo_list` (with `snapAtAux_at_change`, `tempo_rows_positions`, `rows_changes_perm`, `dict_of_distinct`,
  `base36_ids_nodup`) — the tempo objects of the written file, read back through the `#BPMxx` table, are the
  in-memory tempo list, for ANY order of the tempo rows;
* `parseFloat_showFixed`, `parseFloat_showExact`, `exbpm_table_readback` — header numbers read back:
  `float(f"{q:.3f}") = roundDec 3 q` (= `q` with ≤ 3 decimals, ¬D06), `float(str(bpm)) = bpm`, and
  `_read_file_header`'s loop over the written `#BPMxx` lines builds `base36(i+1) ↦ roundDec 3 bpm_i`;
* `written_lane_sorted` — any file order of a lane's objects sorts to the position-ordered sequence;
* `bms_write_read_partial` — the assembled statement at the level of objects: K1 as run + sorting + LNOBJ pairing:
  the by-the-book reading of a lane of the written file returns one hit per hit, one hold per hold, in the lane's
  column, at times exact on the grid and within 1/192 beat off it.  Its docstring names exactly what is still
  outside: `hch` (the file's lines give the channel an *arrangement* of these objects — proved as a membership
  equivalence in `written_objects`, not as a permutation through `writeCells`; header lines not shown to add no data
  lines), `hstrict` (needs monotonicity of snapping), and threading the header / tempo read-back through `denote`.
  All three are discharged in `Props/C05.lean`: `bms_write_read` is the whole-file statement.
-/
import Reamber.Lemmas.FindLcm
import Reamber.Lemmas.BMSLines
import Reamber.Lemmas.BMSRender
import Reamber.Lemmas.BMSRead
import Reamber.Lemmas.BMSTempo
import Reamber.Lemmas.BMSPair
import Reamber.Lemmas.BMSWriteTempo
import Reamber.Lemmas.BMSNum
import Reamber.Props.C10
import Reamber.Model.BMS
import Reamber.Spec.BMS
import Mathlib.Tactic.Ring
import Mathlib.Tactic.FieldSimp
import Mathlib.Tactic.Linarith
import Mathlib.Algebra.Order.Field.Rat

namespace Reamber.BMS

open Reamber.Timing

/-- Tie to the source: the constants the writer model uses are the ones in `BMSMap.py` (threshold passed to
`find_lcm`, decimals of the `#BPMxx` table, the bound of the `assert`, defaults of `write`). -/
theorem writer_consts_tie :
    Generated.BMS.lcmThreshold = 100 ∧ Generated.BMS.exbpmDecimals = 3 ∧ Generated.BMS.maxBpms = 35 * 36 + 35 ∧
    Generated.BMS.noSampleDefault = "01" ∧ Generated.BMS.defaultLnEnd = "ZZ" ∧ Generated.BMS.defaultLayoutWrite = "BME" ∧
    Generated.BMS.defaultMetronome = 4 := by
  decide +kernel

/-! ### ids -/

def unb36Digit (c : Char) : Nat := if isDigit c then c.toNat - 48 else c.toNat - 55

def unb36 (b : Bytes) : Nat :=
  match b with
  | [x, y] => 36 * unb36Digit x + unb36Digit y
  | _ => 0

/-- **Ids of tempo points**: for `e ≤ 1295` the id is two base-36 characters that decode back to `e` — so the
ids of up to 1295 tempo points are pairwise distinct, and none of them is `00`. -/
theorem base36_roundtrip :
    ∀ e, e < 1296 → unb36 (base36 e) = e ∧ (base36 e).length = 2 ∧ (base36 e).all isB36 = true ∧ (0 < e → base36 e ≠ ['0', '0']) := by
  decide +kernel

/-! ### slots -/

/-- **Re-slotting is exact**: when the row's denominator divides its new denominator (what `findLcm_dvd`
guarantees), `int(num · new_den / den)` is an exact quotient — the object keeps its position `num/den`, and
stays inside the line. -/
theorem slot_exact (s : WSlot) (nd : Nat) (hden : 0 < s.den) (hdvd : s.den ∣ nd) :
    (cellOf s nd).idx * s.den = s.num * nd ∧ (s.num < s.den → 0 < nd → (cellOf s nd).idx < nd) := by
  obtain ⟨k, rfl⟩ := hdvd
  have hd : ((s.den : Nat) : Rat) ≠ 0 := by exact_mod_cast Nat.pos_iff_ne_zero.mp hden
  have hq : (((s.num * (s.den * k) : Nat) : Rat) / ((s.den : Nat) : Rat)) = (((s.num * k : Nat) : Int) : Rat) := by
    push_cast
    field_simp
  have hidx : (cellOf s (s.den * k)).idx = s.num * k := by
    simp only [cellOf, hq, Rat.floor_intCast]
    rfl
  constructor
  · rw [hidx]; ring
  · intro hlt hnd
    rw [hidx]
    have hk : 0 < k := by
      rcases Nat.eq_zero_or_pos k with hk | hk
      · subst hk; simp at hnd
      · exact hk
    exact Nat.mul_lt_mul_of_pos_right hlt hk

/-! ### new denominators -/

theorem zipIdxFrom_fst_lt {α} (l : List α) : ∀ n, ∀ q ∈ zipIdxFrom n l, n ≤ q.1 := by
  induction l with
  | nil => intro n q hq; cases hq
  | cons a t ih =>
    intro n q hq
    simp only [zipIdxFrom, List.mem_cons] at hq
    rcases hq with rfl | hq
    · exact Nat.le_refl _
    · exact Nat.le_of_succ_le (ih (n + 1) q hq)

theorem zipIdxFrom_nodup {α} (l : List α) : ∀ n, (zipIdxFrom n l).Pairwise (fun a b => a.1 ≠ b.1) := by
  induction l with
  | nil => intro n; exact List.Pairwise.nil
  | cons a t ih =>
    intro n
    simp only [zipIdxFrom]
    refine List.Pairwise.cons ?_ (ih (n + 1))
    intro q hq
    have := zipIdxFrom_fst_lt t (n + 1) q hq
    simp only []
    omega

theorem takeWhile_index {α} (d : Nat × α) (l : List (Nat × α)) (hnd : l.Pairwise (fun a b => a.1 ≠ b.1)) (x : Nat × α) (hx : x ∈ l) :
    (l.takeWhile (fun q => decide (q.1 ≠ x.1))).length < l.length ∧
    l.getD (l.takeWhile (fun q => decide (q.1 ≠ x.1))).length d = x := by
  induction l with
  | nil => cases hx
  | cons a t ih =>
    have hpw := List.pairwise_cons.mp hnd
    by_cases hax : a.1 = x.1
    · have : a = x := by
        rcases List.mem_cons.mp hx with h | h
        · exact h.symm
        · exact absurd hax (hpw.1 x h)
      subst this
      simp [List.takeWhile]
    · rcases List.mem_cons.mp hx with h | h
      · exact absurd (by rw [h]) hax
      · obtain ⟨h1, h2⟩ := ih hpw.2 h
        have hp : decide (a.1 ≠ x.1) = true := by simp [hax]
        rw [List.takeWhile_cons]
        simp only [hp, ↓reduceIte]
        refine ⟨by simp only [List.length_cons]; omega, ?_⟩
        simp only [List.length_cons, List.getD_cons_succ]
        exact h2

/-- **Every row's new denominator is a positive multiple of its own denominator** (`find_lcm` per
(measure, channel) group, assigned back row by row) — the premise of `slot_exact`. -/
theorem newDens_dvd (thr : Nat) (rows : List WSlot) (hpos : ∀ r ∈ rows, 0 < r.den) :
    (newDens thr rows).length = rows.length ∧
    ∀ p ∈ (zipIdxFrom 0 rows).zip (newDens thr rows), p.1.2.den ∣ p.2 ∧ 0 < p.2 := by
  have hmem : ∀ q ∈ zipIdxFrom 0 rows, q.2 ∈ rows := by
    have : ∀ (l : List WSlot) n, ∀ q ∈ zipIdxFrom n l, q.2 ∈ l := by
      intro l
      induction l with
      | nil => intro n q hq; cases hq
      | cons a t ih =>
        intro n q hq
        simp only [zipIdxFrom, List.mem_cons] at hq
        rcases hq with rfl | hq
        · simp
        · exact List.mem_cons_of_mem _ (ih _ q hq)
    exact this rows 0
  have hlen : (zipIdxFrom 0 rows).length = rows.length := by
    have : ∀ (l : List WSlot) n, (zipIdxFrom n l).length = l.length := by
      intro l; induction l with
      | nil => intro n; rfl
      | cons a t ih => intro n; simp [zipIdxFrom, ih]
    exact this rows 0
  constructor
  · simp [newDens, hlen]
  · intro p hp
    unfold newDens at hp
    rw [List.zip_map_right, List.mem_map] at hp
    obtain ⟨⟨q, q'⟩, hq, rfl⟩ := hp
    have hqq : q = q' := by
      have := List.of_mem_zip hq
      have hz : ∀ (l : List (Nat × WSlot)), ∀ ab ∈ l.zip l, ab.1 = ab.2 := by
        intro l; induction l with
        | nil => intro ab h; cases h
        | cons a t ih =>
          intro ab h
          simp only [List.zip_cons_cons, List.mem_cons] at h
          rcases h with rfl | h
          · rfl
          · exact ih ab h
      exact hz _ _ hq
    subst hqq
    have hqm : q ∈ zipIdxFrom 0 rows := (List.of_mem_zip hq).1
    simp only [Prod.map_apply, id_eq]
    set grp := (zipIdxFrom 0 rows).filter (fun r => r.2.measure = q.2.measure && r.2.channel = q.2.channel) with hgrp
    have hqg : q ∈ grp := by
      rw [hgrp, List.mem_filter]
      exact ⟨hqm, by simp⟩
    have hnd : grp.Pairwise (fun a b => a.1 ≠ b.1) := (zipIdxFrom_nodup rows 0).filter _
    have hix := takeWhile_index q grp hnd q hqg
    have hposg : ∀ x ∈ grp.map (·.2.den), 0 < x := by
      intro x hx
      obtain ⟨r, hr, rfl⟩ := List.mem_map.mp hx
      exact hpos _ (hmem r (List.mem_filter.mp hr).1)
    generalize (grp.takeWhile (fun r => decide (r.1 ≠ q.1))).length = n at hix ⊢
    have hl : n < (grp.map (·.2.den)).length := by rw [List.length_map]; exact hix.1
    have hd := (findLcm_dvd (grp.map (·.2.den)) thr hposg).2 n hl
    have hget : (grp.map (·.2.den)).getD n 0 = q.2.den := by
      obtain ⟨hn, hgq⟩ := hix
      have h1 : grp.getD n q = grp[n]'hn := by
        simp [List.getD_eq_getElem?_getD, List.getElem?_eq_getElem hn]
      rw [List.getD_eq_getElem?_getD, List.getElem?_eq_getElem hl, Option.getD_some, List.getElem_map, ← h1, hgq]
    rw [hget] at hd
    exact hd

/-- **A written object denotes its snap.** A row with a normalised 4/4 snap (`beat = num/bden ≥ 0`) becomes slot
`idx` of a line with `nd` slots (`den = 4·bden ∣ nd`); by the book that slot is beat `4·idx/nd` of the measure —
exactly the snap's beat.  (`slot_exact` composed with `den = beat.den·4`, `num = beat.num`.) -/
theorem slot_roundtrip (r : WRow) (nd : Nat) (hmet : r.snap.met = some 4) (hb : 0 ≤ r.snap.beat) (hnd : 0 < nd)
    (hdvd : (slotOfRow r).den ∣ nd) :
    4 * (((cellOf (slotOfRow r) nd).idx : Nat) : Rat) / ((nd : Nat) : Rat) = r.snap.beat := by
  have hden : (slotOfRow r).den = r.snap.beat.den * 4 := by
    simp only [slotOfRow, hmet, Option.getD_some]
    have : ((4 : Rat).floor).toNat = 4 := by decide +kernel
    rw [this]
  have hdpos : 0 < (slotOfRow r).den := by
    rw [hden]; exact Nat.mul_pos r.snap.beat.den_pos (by decide)
  have hex := (slot_exact (slotOfRow r) nd hdpos hdvd).1
  have hnum : (((slotOfRow r).num : Nat) : Rat) = (r.snap.beat.num : Rat) := by
    have h0 : 0 ≤ r.snap.beat.num := Rat.num_nonneg.mpr hb
    have : (((slotOfRow r).num : Nat) : Int) = r.snap.beat.num := by
      simp only [slotOfRow]; exact Int.toNat_of_nonneg h0
    exact_mod_cast congrArg (fun z : Int => (z : Rat)) this
  have hexq : (((cellOf (slotOfRow r) nd).idx : Nat) : Rat) * (((slotOfRow r).den : Nat) : Rat) =
      (((slotOfRow r).num : Nat) : Rat) * ((nd : Nat) : Rat) := by exact_mod_cast congrArg (fun z : Nat => (z : Rat)) hex
  rw [hden, hnum] at hexq
  have hbd : ((r.snap.beat.den : Nat) : Rat) ≠ 0 := by exact_mod_cast r.snap.beat.den_nz
  have hndq : ((nd : Nat) : Rat) ≠ 0 := by exact_mod_cast Nat.pos_iff_ne_zero.mp hnd
  have hq : r.snap.beat = (r.snap.beat.num : Rat) / ((r.snap.beat.den : Nat) : Rat) := (Rat.num_div_den r.snap.beat).symm
  rw [hq]
  push_cast at hexq
  field_simp
  linarith

/-! ### times: what the writer's positions denote -/

/-- **The positions the writer computes denote the in-memory times.**

`cs` is a well-formed ascending tempo list starting at measure 0 beat 0, grid-compatible on the shipped grid of
96 (tempo points on measure lines always are), `tmOf 0 cs` what the chart stores for it.  For EVERY list of
times at or after the first tempo point (any order, duplicates), `TimingMap.snaps` as the model runs it (its own
`stableArgsort`, the backwards sweep, `Snap.from_offset` with the `Snapper` of 96) succeeds, returns one position
per time in the order of the times, and the by-the-book time `timeAt 0 cs` of each position is
* within 1/192 beat — at the tempo in force — of the in-memory time, and
* exactly the in-memory time when that time lies on the snap grid of its tempo segment. -/
theorem write_positions (cs : List BcSnap) (hwf : wfChanges cs = true) (hs : sortedSnaps cs = true)
    (h0 : firstAtZero cs = true) (hgc : gridCompatible (grid defaultMaxDiv) cs = true) (hm : metronomeOk cs = true)
    (ts : List Rat) (hts : ∀ t ∈ ts, 0 ≤ t) :
    ∃ F : Rat → Snap, snaps defaultGrid (tmOf 0 cs) ts = .ok (ts.map F) ∧
      ∀ t ∈ ts, queryOk cs (F t) = true ∧
        rabs (timeAt 0 cs (F t) - t) ≤ 1 / 192 * activeBeatLen 0 cs t ∧
        (OnGridAt (grid defaultMaxDiv) 0 cs t → timeAt 0 cs (F t) = t) := by
  have hg : GridOK defaultGrid := gridOK_grid (by decide)
  have hgc' : gridCompatible defaultGrid.toList cs = true := by simpa [defaultGrid] using hgc
  have hb := bcsOfBco_rederive hg 0 cs hwf hs h0 hgc' hm
  cases cs with
  | nil => simp [firstAtZero] at h0
  | cons c rest =>
    let F : Rat → Snap := fun t => ((snapAtAux defaultGrid 0 c rest t).toOption).getD default
    have hF : ∀ t ∈ ts, lookupSnap defaultGrid ((c :: rest).zip (tmOf 0 (c :: rest))).reverse t = .ok (F t) ∧
        queryOk (c :: rest) (F t) = true ∧
        rabs (timeAt 0 (c :: rest) (F t) - t) ≤ 1 / 192 * activeBeatLen 0 (c :: rest) t ∧
        (OnGridAt (grid defaultMaxDiv) 0 (c :: rest) t → timeAt 0 (c :: rest) (F t) = t) := by
      intro t ht
      obtain ⟨S, hS, hle, hb0, hback⟩ :=
        timeAtAux_snapAtAux_err hg snap_err_default 0 c rest t hwf hs hgc' hm (hts t ht)
      have hFt : F t = S := by simp [F, hS, Except.toOption]
      refine ⟨?_, ?_, ?_, ?_⟩
      · simp only [tmOf, List.zip_cons_cons]
        rw [lookupSnap_eq_snapAtAux defaultGrid 0 c rest t hwf hs (hts t ht), hS, hFt]
      · rw [hFt]; simp [queryOk, hle, hb0]
      · rw [hFt]; exact hback
      · intro hon
        obtain ⟨hT, hgrid⟩ := hon
        have hgrid' : onGridAux defaultGrid.toList 0 c rest t := by simpa [defaultGrid] using hgrid
        obtain ⟨S', hS', _, _, hback'⟩ := timeAtAux_snapAtAux hg 0 c rest t hwf hs hm hT hgrid'
        rw [hS] at hS'
        injection hS' with e
        rw [hFt, e]
        exact hback'
    refine ⟨F, ?_, fun t ht => (hF t ht).2⟩
    exact snapsWith_order defaultGrid _ _ ts _ _ F hb (stableArgsort_sortsAscR ts) (fun t ht => (hF t ht).1)

/-- **A written object denotes its in-memory time** (`write_positions` composed with `slot_roundtrip`): the slot
`idx` of `nd` that the writer fills for an object at time `t` — in the line of the measure of its snap — lies, by
the book, at a position whose time is `t` exactly when `t` is on the snap grid, and within 1/192 beat otherwise.
`F` is the position function of `write_positions`; `nd` any positive multiple of the row's denominator
(`newDens_dvd`). -/
theorem written_slot_time (cs : List BcSnap) (F : Rat → Snap) (t : Rat) (ch v : Bytes) (nd : Nat)
    (hmet : (F t).met = some 4) (hq : queryOk cs (F t) = true) (hnd : 0 < nd)
    (hdvd : (slotOfRow ⟨F t, ch, v⟩).den ∣ nd) :
    timeAt 0 cs ⟨(F t).measure, 4 * (((cellOf (slotOfRow ⟨F t, ch, v⟩) nd).idx : Nat) : Rat) / ((nd : Nat) : Rat), none⟩ =
      timeAt 0 cs (F t) := by
  have hb : 0 ≤ (F t).beat := by
    cases cs with
    | nil => simp [queryOk] at hq
    | cons c rest =>
      simp only [queryOk, Bool.and_eq_true, decide_eq_true_eq] at hq
      exact hq.2
  have := slot_roundtrip ⟨F t, ch, v⟩ nd hmet hb hnd hdvd
  simp only at this
  rw [this]
  -- `timeAt` does not look at the metronome field of the query
  cases cs with
  | nil => rfl
  | cons c rest =>
    simp only [timeAt]
    have hgen : ∀ (T : Rat) (cur : BcSnap) (l : List BcSnap) (a b : Snap), a.measure = b.measure → a.beat = b.beat →
        timeAtAux T cur l a = timeAtAux T cur l b := by
      intro T cur l
      induction l generalizing T cur with
      | nil => intro a b h1 h2; simp [timeAtAux, snapDist, h1, h2]
      | cons n l ih =>
        intro a b h1 h2
        have hle : n.snap.le a = n.snap.le b := by simp [Snap.le, Snap.lt, Snap.eqv, h1, h2]
        simp only [timeAtAux, hle, snapDist, h1, h2]
        split
        · exact ih _ _ a b h1 h2
        · rfl
    exact hgen 0 c rest _ _ rfl rfl

/-! ### the tempo objects of the written file -/

/-- **The tempo objects of the written file are the in-memory tempo list — for any order of the tempo rows.**

`cs`: well-formed, strictly ascending (no two tempo points on one measure line), first at measure 0 beat 0,
grid-compatible; `rows`: ANY arrangement of what the chart stores for `cs`, every tempo a three-decimal number
(¬D06).  The writer sorts a copy of the rows (`from_bpm_changes_offset`), asks `TimingMap.snaps` for the position of
every row's own offset *in row order*, writes row `i` as the channel-08 object `base36(i+1)` at that position and
`#BPM<base36(i+1)>` with the row's tempo rounded to three decimals.  Reading the objects back through the table
— tempo `roundDec 3 bpm_i`, metronome of the row, at the written position — and sorting by position gives exactly
`cs`.  (The round-1 seeded changes C05-A / C15-A attacked this numbering under unsorted rows.) -/
theorem written_tempo_list (cs : List BcSnap) (hwf : wfChanges cs = true) (hs : strictSnaps cs = true)
    (h0 : firstAtZero cs = true) (hgc : gridCompatible (grid defaultMaxDiv) cs = true) (hm : metronomeOk cs = true)
    (rows : List BcOff) (hp : rows.Perm (tmOf 0 cs)) (hdec : ∀ b ∈ rows, roundDec 3 b.bpm = b.bpm) :
    sortBcOff rows = tmOf 0 cs ∧
    ∃ sn, snaps defaultGrid (sortBcOff rows) (rows.map (·.offset)) = .ok sn ∧ sn.length = rows.length ∧
      sortBcSnap ((rows.zip sn).map (fun p => (⟨roundDec 3 p.1.bpm, p.1.met, { p.2 with met := some p.1.met }⟩ : BcSnap))) = cs := by
  have hg : GridOK defaultGrid := gridOK_grid (by decide)
  have hgc' : gridCompatible defaultGrid.toList cs = true := by simpa [defaultGrid] using hgc
  obtain ⟨hsort, G, hsn, hG⟩ := tempo_rows_positions hg 0 cs hwf hs h0 hgc' hm rows hp
  refine ⟨hsort, rows.map (fun b => G b.offset), hsn, by simp, ?_⟩
  have hperm := rows_changes_perm 0 cs hwf rows hp G hG
  have hlist : (rows.zip (rows.map (fun b => G b.offset))).map
      (fun p => (⟨roundDec 3 p.1.bpm, p.1.met, { p.2 with met := some p.1.met }⟩ : BcSnap)) =
      rows.map (fun b => (⟨b.bpm, b.met, { G b.offset with met := some b.met }⟩ : BcSnap)) := by
    rw [zip_map_self]
    apply List.map_congr_left
    intro b hb
    simp [hdec b hb]
  rw [hlist]
  have hstrict : strictSnaps (sortBcSnap cs) = true := by rw [sortBcSnap_eq_self (sortedSnaps_of_strict hs)]; exact hs
  rw [sortBcSnap_eq_of_perm hperm hstrict, sortBcSnap_eq_self (sortedSnaps_of_strict hs)]

/-- the `#BPMxx` table: a dict filled with pairwise different keys is the list of its entries, and looks every
entry up -/
theorem dict_of_distinct {α} (kvs : List (Bytes × α)) (hnd : (kvs.map (·.1)).Nodup) :
    kvs.foldl (fun d kv => dictSet d kv.1 kv.2) [] = kvs ∧ ∀ kv ∈ kvs, dictGet? kvs kv.1 = some kv.2 := by
  constructor
  · have key : ∀ (l d : List (Bytes × α)), ((d ++ l).map (·.1)).Nodup →
        l.foldl (fun d kv => dictSet d kv.1 kv.2) d = d ++ l := by
      intro l
      induction l with
      | nil => intro d _; simp
      | cons a t ih =>
        intro d hnd
        simp only [List.foldl_cons]
        have hnot : d.any (fun p => p.1 = a.1) = false := by
          rw [List.any_eq_false]
          intro p hp
          simp only [decide_eq_true_eq]
          intro e
          rw [List.map_append, List.map_cons, List.nodup_append] at hnd
          exact hnd.2.2 p.1 (List.mem_map_of_mem (f := fun q : Bytes × α => q.1) hp) a.1 (by simp) e
        have hset : dictSet d a.1 a.2 = d ++ [a] := by simp [dictSet, hnot]
        rw [hset, ih (d ++ [a]) (by simpa using hnd)]
        simp
    simpa using key kvs [] (by simpa using hnd)
  · intro kv hkv
    simp only [dictGet?]
    rw [find_fst_of_mem kvs hnd kv hkv]
    rfl

/-- ids of the tempo rows are pairwise different (up to 1295 rows) -/
theorem base36_ids_nodup (n : Nat) (hn : n < 1296) : ((List.range n).map (fun i => base36 (i + 1))).Nodup := by
  rw [List.nodup_map_iff_inj_on List.nodup_range]
  intro i hi j hj h
  have hi' : i + 1 < 1296 := by have := List.mem_range.mp hi; omega
  have hj' : j + 1 < 1296 := by have := List.mem_range.mp hj; omega
  have := congrArg unb36 h
  rw [(base36_roundtrip (i + 1) hi').1, (base36_roundtrip (j + 1) hj').1] at this
  omega

/-! ### the `#BPMxx` table, read back -/

/-- the `(key, value)` pairs of the `#BPMxx` lines the writer emits, in row order -/
def bpmEntries (rows : List BcOff) : List (Bytes × Bytes) :=
  (zipIdxFrom 1 rows).map (fun p => ("BPM".toList ++ base36 p.1, showFixed Generated.BMS.exbpmDecimals p.2.bpm))

theorem zipIdxFrom_fst {α} (l : List α) : ∀ k, (zipIdxFrom k l).map (·.1) = (List.range l.length).map (fun i => k + i) := by
  induction l with
  | nil => intro k; rfl
  | cons a t ih =>
    intro k
    simp only [zipIdxFrom, List.map_cons, List.length_cons, List.range_succ_eq_map, ih (k + 1), List.map_map]
    simp only [Nat.add_zero, List.cons.injEq, true_and]
    apply List.map_congr_left
    intro i _
    simp only [Function.comp]
    omega

/-- **Header read-back of the tempo table** (`parseFloat ∘ showFixed 3`).  `_read_file_header`'s loop over the
`#BPMxx` entries the writer produced — for ANY rows (fewer than 1295, non-negative tempos) — succeeds and builds
the table `base36(i+1) ↦ roundDec 3 bpm_i` in row order; so every id looks up the three-decimal rounding of its own
row's tempo, which is the tempo itself when it has at most three decimals (¬D06). -/
theorem exbpm_table_readback (rows : List BcOff) (hn : rows.length < 1295) (hpos : ∀ b ∈ rows, 0 ≤ b.bpm) :
    foldlE exbpmStep [] (bpmEntries rows) = .ok ((zipIdxFrom 1 rows).map (fun p => (base36 p.1, roundDec 3 p.2.bpm))) ∧
    ∀ p ∈ zipIdxFrom 1 rows,
      dictGet? ((zipIdxFrom 1 rows).map (fun p => (base36 p.1, roundDec 3 p.2.bpm))) (base36 p.1) = some (roundDec 3 p.2.bpm) := by
  have hdec : Generated.BMS.exbpmDecimals = 3 := by decide
  -- the ids are pairwise different
  have hids : (((zipIdxFrom 1 rows).map (fun p => (base36 p.1, roundDec 3 p.2.bpm))).map (·.1)).Nodup := by
    rw [List.map_map]
    have : (zipIdxFrom 1 rows).map ((fun q : Bytes × Rat => q.1) ∘ fun p => (base36 p.1, roundDec 3 p.2.bpm)) =
        ((zipIdxFrom 1 rows).map (·.1)).map base36 := by simp [List.map_map, Function.comp_def]
    rw [this, zipIdxFrom_fst, List.map_map]
    have h2 := base36_ids_nodup rows.length (by omega)
    have : (List.range rows.length).map (base36 ∘ fun i => 1 + i) = (List.range rows.length).map (fun i => base36 (i + 1)) := by
      apply List.map_congr_left; intro i _; simp [Function.comp, Nat.add_comm]
    rw [this]; exact h2
  obtain ⟨hfold, hlook⟩ := dict_of_distinct _ hids
  constructor
  · -- the loop is the dict fill
    have key : ∀ (l : List (Nat × BcOff)) (d : Dict Rat), (∀ p ∈ l, 0 ≤ p.2.bpm) →
        foldlE exbpmStep d (l.map (fun p => ("BPM".toList ++ base36 p.1, showFixed Generated.BMS.exbpmDecimals p.2.bpm))) =
          .ok ((l.map (fun p => (base36 p.1, roundDec 3 p.2.bpm))).foldl (fun d kv => dictSet d kv.1 kv.2) d) := by
      intro l
      induction l with
      | nil => intro d _; rfl
      | cons a t ih =>
        intro d hp
        simp only [List.map_cons, foldlE_cons, List.foldl_cons]
        have hkey : isExbpmKey ("BPM".toList ++ base36 a.1) = true := by
          simp [isExbpmKey, base36, upper]
        have hval : parseFloat (showFixed Generated.BMS.exbpmDecimals a.2.bpm) = some (roundDec 3 a.2.bpm) := by
          rw [hdec]; exact parseFloat_showFixed 3 (by decide) _ (hp a (by simp))
        have hdrop : ("BPM".toList ++ base36 a.1).drop 3 = base36 a.1 := by simp
        simp only [exbpmStep, hkey, if_true, hval, hdrop]
        exact ih _ (fun p hpm => hp p (by simp [hpm]))
    have hp' : ∀ p ∈ zipIdxFrom 1 rows, 0 ≤ p.2.bpm := by
      intro p hp
      exact hpos p.2 (zipIdxFrom_mem rows 1 p hp).2.2
    have := key (zipIdxFrom 1 rows) [] hp'
    rw [hfold] at this
    exact this
  · intro p hp
    exact hlook (base36 p.1, roundDec 3 p.2.bpm) (List.mem_map_of_mem (f := fun p : Nat × BcOff => (base36 p.1, roundDec 3 p.2.bpm)) hp)

/-! ### the slot fill -/

def fillFrom (seq : List Bytes) (cells : List WCell) : List Bytes :=
  cells.foldl (fun seq c => seq.set c.idx c.value) seq

theorem fillFrom_length (cells : List WCell) : ∀ seq, (fillFrom seq cells).length = seq.length := by
  induction cells with
  | nil => intro seq; rfl
  | cons c t ih => intro seq; simp only [fillFrom, List.foldl_cons] at *; rw [ih]; simp

theorem fillFrom_other (cells : List WCell) (i : Nat) (d : Bytes) :
    ∀ seq, (∀ c ∈ cells, c.idx ≠ i) → (fillFrom seq cells).getD i d = seq.getD i d := by
  induction cells with
  | nil => intro seq _; rfl
  | cons c t ih =>
    intro seq h
    simp only [fillFrom, List.foldl_cons] at *
    rw [ih _ (fun x hx => h x (by simp [hx]))]
    exact getD_set_ne _ _ _ _ _ (h c (by simp))

theorem fillFrom_get (cells : List WCell) (d : Bytes) :
    ∀ seq, cells.Pairwise (fun a b => a.idx ≠ b.idx) → (∀ c ∈ cells, c.idx < seq.length) →
      ∀ c ∈ cells, (fillFrom seq cells).getD c.idx d = c.value := by
  induction cells with
  | nil => intro seq _ _ c hc; cases hc
  | cons x t ih =>
    intro seq hpw hlt c hc
    have hpw' := List.pairwise_cons.mp hpw
    rcases List.mem_cons.mp hc with rfl | hct
    · have := fillFrom_other t c.idx d (seq.set c.idx c.value) (fun y hy => fun e => hpw'.1 y hy e.symm)
      simp only [fillFrom, List.foldl_cons] at *
      rw [this]
      exact getD_set_eq _ _ _ _ (hlt c (by simp))
    · simp only [fillFrom, List.foldl_cons]
      exact ih (seq.set x.idx x.value) hpw'.2 (fun y hy => by simpa using hlt y (by simp [hy])) c hct

/-- **Nothing is merged, nothing is dropped** (one written line): if the cells of a line sit on pairwise
different slots inside the line, the line has exactly `den` slots, every cell's id is on its own slot, and every
other slot is the empty object `00`. -/
theorem no_merge_no_drop (den : Nat) (cells : List WCell)
    (hpw : cells.Pairwise (fun a b => a.idx ≠ b.idx)) (hlt : ∀ c ∈ cells, c.idx < den) :
    (fillSeq den cells).length = den ∧
    (∀ c ∈ cells, (fillSeq den cells).getD c.idx [] = c.value) ∧
    (∀ i, (∀ c ∈ cells, c.idx ≠ i) → i < den → (fillSeq den cells).getD i [] = ['0', '0']) := by
  have hlen : (List.replicate den ['0', '0']).length = den := by simp
  refine ⟨?_, ?_, ?_⟩
  · show (fillFrom _ cells).length = den
    rw [fillFrom_length]; exact hlen
  · intro c hc
    exact fillFrom_get cells [] _ hpw (fun y hy => by rw [hlen]; exact hlt y hy) c hc
  · intro i hi hid
    show (fillFrom _ cells).getD i [] = _
    rw [fillFrom_other cells i [] _ hi]
    simp [List.getD_eq_getElem?_getD, hid]

/-! ### line syntax -/

theorem measure_text_b : ∀ m, m < 1000 →
    (match padLeft 3 '0' (showNat m) with
     | [a, b, c] => isDigit a && isDigit b && isDigit c
     | _ => false) = true := by
  decide +kernel

theorem measure_text (m : Nat) (hm : m < 1000) :
    ∃ a b c, padLeft 3 '0' (showNat m) = [a, b, c] ∧ isDigit a = true ∧ isDigit b = true ∧ isDigit c = true := by
  have h := measure_text_b m hm
  generalize padLeft 3 '0' (showNat m) = l at h
  match l, h with
  | [a, b, c], h =>
    simp only [Bool.and_eq_true] at h
    exact ⟨a, b, c, rfl, h.1.1, h.1.2, h.2⟩

theorem fillFrom_all (P : Bytes → Prop) (cells : List WCell) (hv : ∀ c ∈ cells, P c.value) :
    ∀ seq : List Bytes, (∀ x ∈ seq, P x) → ∀ x ∈ fillFrom seq cells, P x := by
  induction cells with
  | nil => intro seq h; exact h
  | cons c t ih =>
    intro seq h
    simp only [fillFrom, List.foldl_cons]
    apply ih (fun y hy => hv y (by simp [hy]))
    intro x hx
    rcases List.mem_or_eq_of_mem_set hx with h1 | h1
    · exact h x h1
    · rw [h1]; exact hv c (by simp)

theorem flatten_two (l : List Bytes) (h : ∀ x ∈ l, x.length = 2 ∧ x.all isB36 = true) :
    l.flatten.length = 2 * l.length ∧ l.flatten.all isB36 = true := by
  induction l with
  | nil => simp
  | cons x t ih =>
    have hx := h x (by simp)
    have ht := ih (fun y hy => h y (by simp [hy]))
    constructor
    · simp only [List.flatten_cons, List.length_append, hx.1, ht.1, List.length_cons]; omega
    · simp only [List.flatten_cons, List.all_append, hx.2, ht.2, Bool.and_self]

/-- **Every written data line is syntactically valid**: for a measure below 1000, a two-character base-36
channel, a positive denominator and two-character base-36 ids, the line is `#mmmcc:` followed by exactly
`2·den` base-36 characters. -/
theorem line_valid (cells : List WCell) (k : WCell) (hm : 0 ≤ k.measure ∧ k.measure < 1000) (hden : 0 < k.den)
    (hch : ∃ a b, k.channel = [a, b] ∧ isB36 a = true ∧ isB36 b = true)
    (hv : ∀ c ∈ cells, c.value.length = 2 ∧ c.value.all isB36 = true) :
    lineValid (lineOf cells k) = true ∧ (lineOf cells k).length = 7 + 2 * k.den := by
  obtain ⟨a, b, hab, ha, hb⟩ := hch
  have hmn : k.measure.toNat < 1000 := by omega
  obtain ⟨m1, m2, m3, hmt, h1, h2, h3⟩ := measure_text k.measure.toNat hmn
  have hseq : ∀ x ∈ fillSeq k.den (cells.filter (sameLine k)), x.length = 2 ∧ x.all isB36 = true := by
    apply fillFrom_all (fun x => x.length = 2 ∧ x.all isB36 = true)
    · intro c hc; exact hv c (List.mem_filter.mp hc).1
    · intro x hx
      rw [List.eq_of_mem_replicate hx]
      decide
  have hfl := flatten_two _ hseq
  have hlen : (fillSeq k.den (cells.filter (sameLine k))).length = k.den := by
    show (fillFrom _ _).length = _
    rw [fillFrom_length]; simp
  rw [hlen] at hfl
  have hne : (fillSeq k.den (cells.filter (sameLine k))).flatten.isEmpty = false := by
    cases hf : (fillSeq k.den (cells.filter (sameLine k))).flatten with
    | nil => rw [hf] at hfl; simp at hfl; omega
    | cons _ _ => rfl
  constructor
  · simp only [lineOf, hmt, hab, List.cons_append, List.nil_append, lineValid, h1, h2, h3, ha, hb, hne, hfl.1, hfl.2,
      Bool.and_self, Bool.not_false, Bool.true_and, Bool.and_true, decide_eq_true_eq]
    omega
  · simp only [lineOf, hmt, hab, List.cons_append, List.nil_append, List.length_cons, hfl.1]
    omega

/-! ### a written line, read back by the book -/

theorem measure_text_parse : ∀ m, m < 1000 → parseNat (padLeft 3 '0' (showNat m)) = some m := by
  decide +kernel

theorem zipIdxFrom_mem_iff {α} (l : List α) : ∀ (k : Nat) (p : Nat × α),
    p ∈ zipIdxFrom k l ↔ ∃ i, i < l.length ∧ p.1 = k + i ∧ l[i]? = some p.2 := by
  induction l with
  | nil => intro k p; simp [zipIdxFrom]
  | cons a t ih =>
    intro k p
    simp only [zipIdxFrom, List.mem_cons, ih (k + 1) p]
    constructor
    · rintro (rfl | ⟨i, hi, h1, h2⟩)
      · exact ⟨0, by simp, by simp, by simp⟩
      · exact ⟨i + 1, by simp [hi], by omega, by simpa using h2⟩
    · rintro ⟨i, hi, h1, h2⟩
      cases i with
      | zero =>
        left
        simp only [List.getElem?_cons_zero, Option.some.injEq] at h2
        exact Prod.ext (by simpa using h1) h2.symm
      | succ j =>
        right
        exact ⟨j, by simpa using hi, by omega, by simpa using h2⟩

/-- **A written data line, read back by the book, is its cells.**  For the line of key `k` (measure below 1000,
two-character base-36 channel and ids, positive denominator, cells on pairwise different slots inside the line):
the lexer of the denotation classifies the rendered text as a data line of measure `k.measure` and channel
`k.channel`, its data splits into exactly the `den` slots, and the by-the-book objects of the line are exactly
the cells with a non-`00` id, each at beat `4·idx/den` of the measure, carrying its id. -/
theorem written_line_denotes (cells : List WCell) (k : WCell) (hm : 0 ≤ k.measure ∧ k.measure < 1000) (hden : 0 < k.den)
    (hch : ∃ a b, k.channel = [a, b] ∧ isB36 a = true ∧ isB36 b = true)
    (hv : ∀ c ∈ cells, c.value.length = 2 ∧ c.value.all isB36 = true)
    (hpw : (cells.filter (sameLine k)).Pairwise (fun a b => a.idx ≠ b.idx))
    (hlt : ∀ c ∈ cells.filter (sameLine k), c.idx < k.den) :
    ∃ mt data objs, classify (lineOf cells k) = .ok (.note mt k.channel data) ∧ parseNat mt = some k.measure.toNat ∧
      lineObjs k.measure.toNat data = some objs ∧
      ∀ o, o ∈ objs ↔ ∃ c ∈ cells.filter (sameLine k), c.value ≠ ['0', '0'] ∧
        o = ⟨⟨(k.measure.toNat : Int), 4 * ((c.idx : Nat) : Rat) / ((k.den : Nat) : Rat), none⟩, c.value⟩ := by
  obtain ⟨a, b, hab, ha, hb⟩ := hch
  have hmn : k.measure.toNat < 1000 := by omega
  obtain ⟨m1, m2, m3, hmt, h1, h2, h3⟩ := measure_text k.measure.toNat hmn
  obtain ⟨grp, hgrp⟩ : ∃ grp, grp = cells.filter (sameLine k) := ⟨_, rfl⟩
  rw [← hgrp] at hpw hlt
  obtain ⟨seq, hseq⟩ : ∃ seq, seq = fillSeq k.den grp := ⟨_, rfl⟩
  have hseqP : ∀ x ∈ seq, x.length = 2 ∧ x.all isB36 = true := by
    rw [hseq]
    apply fillFrom_all (fun x => x.length = 2 ∧ x.all isB36 = true)
    · intro c hc; rw [hgrp] at hc; exact hv c (List.mem_filter.mp hc).1
    · intro x hx
      rw [List.eq_of_mem_replicate hx]
      decide
  obtain ⟨hlen, hget, hother⟩ := no_merge_no_drop k.den grp hpw hlt
  rw [← hseq] at hlen hget hother
  have hfl := flatten_two seq hseqP
  have hne : seq.flatten ≠ [] := by
    intro e
    have := hfl.1
    rw [e, hlen] at this
    simp at this
    omega
  have hdata : ∀ c ∈ seq.flatten, isB36 c = true := by
    intro c hc
    have := hfl.2
    rw [List.all_eq_true] at this
    exact this c hc
  have hline : lineOf cells k = '#' :: m1 :: m2 :: m3 :: a :: b :: ':' :: seq.flatten := by
    simp [lineOf, hmt, hab, hseq, hgrp]
  refine ⟨[m1, m2, m3], seq.flatten, objsOfPairs k.measure.toNat seq, ?_, ?_, ?_, ?_⟩
  · rw [hline, classify_rendered m1 m2 m3 a b _ h1 h2 h3 ha hb hdata hne, hab]
  · rw [← hmt]; exact measure_text_parse _ hmn
  · exact lineObjs_eq _ _ _ (evenPairs_flatten seq (fun x hx => (hseqP x hx).1))
  · intro o
    rw [← hgrp]
    simp only [objsOfPairs, List.mem_filterMap, hlen]
    constructor
    · rintro ⟨p, hp, hpo⟩
      obtain ⟨i, hi, hp1, hp2⟩ := (zipIdxFrom_mem_iff seq 0 p).mp hp
      have hp1' : p.1 = i := by omega
      have hgetD : seq.getD i [] = p.2 := by simp [List.getD_eq_getElem?_getD, hp2]
      by_cases h00 : p.2 = ['0', '0']
      · simp [h00] at hpo
      · simp only [h00, if_false, Option.some.injEq] at hpo
        -- slot `i` is not empty, so some cell sits on it
        have hex : ∃ c ∈ grp, c.idx = i := by
          apply Classical.byContradiction
          intro hno
          have hno' : ∀ c ∈ grp, c.idx ≠ i := fun c hc e => hno ⟨c, hc, e⟩
          have := hother i hno' (by rw [← hlen]; exact hi)
          rw [hgetD] at this
          exact h00 this
        obtain ⟨c, hc, hci⟩ := hex
        have hval := hget c hc
        rw [hci, hgetD] at hval
        refine ⟨c, hc, by rw [← hval]; exact h00, ?_⟩
        rw [← hpo, hp1', ← hval, hci]
    · rintro ⟨c, hc, hne0, rfl⟩
      have hci : c.idx < seq.length := by rw [hlen]; exact hlt c hc
      have hval := hget c hc
      have hval' : seq[c.idx]? = some c.value := by
        rw [List.getD_eq_getElem?_getD, List.getElem?_eq_getElem hci, Option.getD_some] at hval
        rw [List.getElem?_eq_getElem hci, hval]
      refine ⟨(c.idx, c.value), (zipIdxFrom_mem_iff seq 0 _).mpr ⟨c.idx, hci, by simp, hval'⟩, ?_⟩
      simp [hne0]

/-! ### LNOBJ pairing on a written lane -/

/-- what a lane of the in-memory chart contributes to the file: a hit is one object, a hold is a head object
followed by an `#LNOBJ` object -/
inductive Atom where
  | hit (o : Obj)
  | hold (h t : Obj)

def Atom.objs : Atom → List Obj
  | .hit o => [o]
  | .hold h t => [h, t]

def Atom.wf (ln : Bytes) : Atom → Prop
  | .hit o => o.id ≠ ln
  | .hold h t => h.id ≠ ln ∧ t.id = ln

def Atom.hits (so : Bytes → Bytes) (col : Nat) : Atom → List SHit
  | .hit o => [⟨col, so o.id, o.snap⟩]
  | .hold _ _ => []

def Atom.holds (so : Bytes → Bytes) (col : Nat) : Atom → List SHold
  | .hit _ => []
  | .hold h t => [⟨col, so h.id, h.snap, t.snap⟩]

/-- **By-the-book pairing of a written lane.**  When the lane's objects in position order are the chart's hits
and holds one after the other — every hold's `#LNOBJ` object directly after its head, i.e. nothing of the lane lies
inside a hold (the hypothesis D37 violates) — the by-the-book pairing returns exactly those hits and exactly those
holds (head position, tail position, the head's sample), in order. -/
theorem pairLane_atoms (ln : Bytes) (so : Bytes → Bytes) (col : Nat) (atoms : List Atom)
    (hwf : ∀ a ∈ atoms, a.wf ln) :
    pairLane (some ln) so col none (atoms.flatMap Atom.objs) =
      some (atoms.flatMap (Atom.hits so col), atoms.flatMap (Atom.holds so col)) := by
  induction atoms with
  | nil => rfl
  | cons a rest ih =>
    have ih' := ih (fun x hx => hwf x (by simp [hx]))
    have ha := hwf a (by simp)
    cases a with
    | hit o =>
      have ho : ¬ (some o.id = some ln) := by
        intro e; injection e with e; exact ha e
      simp only [List.flatMap_cons, Atom.objs, List.cons_append, List.nil_append, Atom.hits, Atom.holds]
      -- the open object `o` is flushed as a hit by whatever comes next
      have key : ∀ (os : List Obj) (H : List SHit) (L : List SHold), pairLane (some ln) so col none os = some (H, L) →
          pairLane (some ln) so col (some o) os = some (⟨col, so o.id, o.snap⟩ :: H, L) := by
        intro os
        induction os with
        | nil =>
          intro H L h
          simp only [pairLane, Option.some.injEq, Prod.mk.injEq] at h
          obtain ⟨rfl, rfl⟩ := h
          rfl
        | cons x xs _ =>
          intro H L h
          by_cases hx : some x.id = some ln
          · simp [pairLane, hx] at h
          · simp only [pairLane, hx, if_false] at h ⊢
            rw [h]; rfl
      simp only [pairLane, ho, if_false]
      exact key _ _ _ ih'
    | hold h t =>
      obtain ⟨hh, ht⟩ := ha
      have h1 : ¬ (some h.id = some ln) := by
        intro e; injection e with e; exact hh e
      have h2 : some t.id = some ln := by rw [ht]
      simp only [List.flatMap_cons, Atom.objs, List.cons_append, List.nil_append, Atom.hits, Atom.holds, pairLane, h1,
        if_false, h2, if_true, ih', Option.map_some]

/-! ### the data lines of a written file, read back: per-channel union of the lines -/

/-- a cell the writer can render: measure 000–999, positive denominator, two-character base-36 channel and id -/
def CellOK (c : WCell) : Prop :=
  (0 ≤ c.measure ∧ c.measure < 1000) ∧ 0 < c.den ∧ (∃ a b, c.channel = [a, b] ∧ isB36 a = true ∧ isB36 b = true) ∧
  (c.value.length = 2 ∧ c.value.all isB36 = true)

theorem objsOfLine_of (d : Bytes × Bytes × Bytes) (m : Nat) (objs : List Obj) (hm : parseNat d.1 = some m)
    (ho : lineObjs m d.2.2 = some objs) : objsOfLine d = objs := by
  unfold lineObjs at ho
  cases hps : evenPairs d.2.2 with
  | none => simp [hps] at ho
  | some ps =>
    simp only [hps, Option.map_some, Option.some.injEq] at ho
    simp only [objsOfLine, hm, hps, objsOfPairs]
    exact ho

theorem laneObjs_cons (d : Bytes × Bytes × Bytes) (notes : List (Bytes × Bytes × Bytes)) (ch : Bytes) :
    laneObjs (d :: notes) ch = (if d.2.1 = ch then objsOfLine d else []) ++ laneObjs notes ch := by
  unfold laneObjs
  by_cases h : d.2.1 = ch
  · simp [List.filter_cons, h]
  · simp [List.filter_cons, h]

theorem foldlE_docStep_notes (ds : List Bytes) : ∀ (doc0 : Doc) (notes : List (Bytes × Bytes × Bytes)),
    List.Forall₂ (fun l d => classify l = .ok (.note d.1 d.2.1 d.2.2)) ds notes →
    foldlE docStep doc0 ds = .ok ⟨doc0.header, doc0.notes ++ notes⟩ := by
  induction ds with
  | nil =>
    intro doc0 notes h
    cases h
    simp [foldlE]
  | cons l t ih =>
    intro doc0 notes h
    cases h with
    | cons hl ht =>
      rename_i d notes'
      rw [foldlE_cons]
      simp only [docStep, hl]
      rw [ih _ _ ht]
      simp

/-- **The written data lines, read back by the book, are the cells — channel by channel.**  For cells the writer
can render (`CellOK`), with the cells of every output line on pairwise different slots inside the line: the lexer
of the denotation classifies every line of `linesOfCells cells` as a data line, and the by-the-book objects of a
channel over the whole file are exactly the non-`00` cells of that channel, each at measure `c.measure`, beat
`4·idx/den`, carrying its id — nothing merged, nothing dropped, nothing invented. -/
theorem written_objects (cells : List WCell) (hcell : ∀ c ∈ cells, CellOK c)
    (hslots : ∀ k ∈ lineKeys cells, (cells.filter (sameLine k)).Pairwise (fun a b => a.idx ≠ b.idx) ∧
      ∀ c ∈ cells.filter (sameLine k), c.idx < k.den) (doc0 : Doc) :
    ∃ notes, foldlE docStep doc0 (linesOfCells cells) = .ok ⟨doc0.header, doc0.notes ++ notes⟩ ∧
      ∀ ch o, o ∈ laneObjs notes ch ↔ ∃ c ∈ cells, c.channel = ch ∧ c.value ≠ ['0', '0'] ∧
        o = ⟨⟨(c.measure.toNat : Int), 4 * ((c.idx : Nat) : Rat) / ((c.den : Nat) : Rat), none⟩, c.value⟩ := by
  obtain ⟨hsub, hcov, _⟩ := lineKeys_cover cells
  -- line by line
  have hline : ∀ k ∈ lineKeys cells, ∃ d : Bytes × Bytes × Bytes, classify (lineOf cells k) = .ok (.note d.1 d.2.1 d.2.2) ∧
      d.2.1 = k.channel ∧ ∀ o, o ∈ objsOfLine d ↔ ∃ c ∈ cells.filter (sameLine k), c.value ≠ ['0', '0'] ∧
        o = ⟨⟨(k.measure.toNat : Int), 4 * ((c.idx : Nat) : Rat) / ((k.den : Nat) : Rat), none⟩, c.value⟩ := by
    intro k hk
    obtain ⟨hm, hden, hch, _⟩ := hcell k (hsub k hk)
    obtain ⟨mt, data, objs, hcl, hpn, hlo, hiff⟩ := written_line_denotes cells k hm hden hch
      (fun c hc => (hcell c hc).2.2.2) (hslots k hk).1 (hslots k hk).2
    refine ⟨(mt, k.channel, data), hcl, rfl, ?_⟩
    rw [objsOfLine_of (mt, k.channel, data) _ objs hpn hlo]
    exact hiff
  have hgen : ∀ ks : List WCell, (∀ k ∈ ks, k ∈ lineKeys cells) →
      ∃ notes, List.Forall₂ (fun l d => classify l = .ok (.note d.1 d.2.1 d.2.2)) (ks.map (lineOf cells)) notes ∧
        ∀ ch o, o ∈ laneObjs notes ch ↔ ∃ k ∈ ks, k.channel = ch ∧ ∃ c ∈ cells.filter (sameLine k), c.value ≠ ['0', '0'] ∧
          o = ⟨⟨(k.measure.toNat : Int), 4 * ((c.idx : Nat) : Rat) / ((k.den : Nat) : Rat), none⟩, c.value⟩ := by
    intro ks
    induction ks with
    | nil => intro _; exact ⟨[], List.Forall₂.nil, by intro ch o; simp [laneObjs]⟩
    | cons k t ih =>
      intro hks
      obtain ⟨notes, hf, hiff⟩ := ih (fun x hx => hks x (by simp [hx]))
      obtain ⟨d, hcl, hdch, hdo⟩ := hline k (hks k (by simp))
      refine ⟨d :: notes, List.Forall₂.cons hcl hf, ?_⟩
      intro ch o
      rw [laneObjs_cons, List.mem_append, hiff ch o]
      constructor
      · rintro (h | ⟨k', hk', h⟩)
        · by_cases hc : d.2.1 = ch
          · simp only [hc, if_true] at h
            exact ⟨k, by simp, hdch ▸ hc, (hdo o).mp h⟩
          · simp [hc] at h
        · exact ⟨k', by simp [hk'], h⟩
      · rintro ⟨k', hk', hch', h⟩
        rcases List.mem_cons.mp hk' with rfl | hk'
        · left
          have hc : d.2.1 = ch := hdch.trans hch'
          simp only [hc, if_true]
          exact (hdo o).mpr h
        · exact Or.inr ⟨k', hk', hch', h⟩
  obtain ⟨notes, hf, hiff⟩ := hgen (lineKeys cells) (fun k hk => hk)
  refine ⟨notes, foldlE_docStep_notes _ doc0 notes hf, ?_⟩
  intro ch o
  rw [hiff ch o]
  constructor
  · rintro ⟨k, _, hkc, c, hc, hv, rfl⟩
    obtain ⟨hcm, hcs⟩ := List.mem_filter.mp hc
    obtain ⟨e1, e2, e3⟩ := (sameLine_iff k c).mp hcs
    exact ⟨c, hcm, by rw [← e2]; exact hkc, hv, by rw [e1, e3]⟩
  · rintro ⟨c, hc, hcc, hv, rfl⟩
    obtain ⟨k, hk, hs⟩ := hcov c hc
    obtain ⟨e1, e2, e3⟩ := (sameLine_iff k c).mp hs
    exact ⟨k, hk, by rw [e2]; exact hcc, c, List.mem_filter.mpr ⟨hc, hs⟩, hv, by rw [e1, e3]⟩

/-! ### the written lane in position order -/

theorem totalPre_obj : TotalPre (fun a b : Obj => !(b.snap.lt a.snap)) := by
  constructor
  · intro a b
    simp only [Snap.lt, Bool.not_eq_true', Bool.or_eq_false_iff, Bool.and_eq_false_iff, decide_eq_false_iff_not]
    grind
  · intro a b c
    simp only [Snap.lt, Bool.not_eq_true', Bool.or_eq_false_iff, Bool.and_eq_false_iff, decide_eq_false_iff_not]
    grind

theorem snap_lt_asymm {a b : Snap} (h : a.lt b = true) : b.lt a = false := by
  simp only [Snap.lt, Bool.or_eq_true, Bool.and_eq_true, decide_eq_true_eq, Bool.or_eq_false_iff, Bool.and_eq_false_iff,
    decide_eq_false_iff_not] at *
  grind

theorem strictAsc_facts : ∀ (l : List Obj), strictAsc l = true →
    l.Pairwise (fun a b => (!(b.snap.lt a.snap)) = true) ∧
    ∀ a ∈ l, ∀ b ∈ l, (!(b.snap.lt a.snap)) = true → (!(a.snap.lt b.snap)) = true → a = b
  | [], _ => ⟨List.Pairwise.nil, by intro a ha; cases ha⟩
  | [c], _ => ⟨by simp, by intro a ha b hb _ _; simp only [List.mem_singleton] at ha hb; rw [ha, hb]⟩
  | c :: n :: rest, h => by
    simp only [strictAsc, Bool.and_eq_true] at h
    obtain ⟨ih1, ih2⟩ := strictAsc_facts (n :: rest) h.2
    have hc : ∀ x ∈ n :: rest, c.snap.lt x.snap = true := by
      intro x hx
      rcases List.mem_cons.mp hx with rfl | hx
      · exact h.1
      · have hnx := (List.pairwise_cons.mp ih1).1 x hx
        exact Snap.lt_of_lt_of_le h.1 ((Snap.lt_false_iff_le _ _).mp (by simpa using hnx))
    refine ⟨List.pairwise_cons.mpr ⟨?_, ih1⟩, ?_⟩
    · intro x hx
      have := snap_lt_asymm (hc x hx)
      simp [this]
    · intro a ha b hb hab hba
      rcases List.mem_cons.mp ha with ea | ha'
      · rcases List.mem_cons.mp hb with eb | hb'
        · rw [ea, eb]
        · have := hc b hb'; rw [← ea] at this; simp [this] at hba
      · rcases List.mem_cons.mp hb with eb | hb'
        · have := hc a ha'; rw [← eb] at this; simp [this] at hab
        · exact ih2 a ha' b hb' hab hba

/-- **The written lane sorted by position is the chart's sequence.**  Whatever order the lane's objects have in the
file (several lines per measure, lines sorted by denominator, …): if the position-ordered sequence `target` has
pairwise different positions (no two objects of the lane on one slot), sorting any arrangement of the same objects
by position gives exactly `target`, and it passes the denotation's `strictAsc` check. -/
theorem written_lane_sorted (os target : List Obj) (hp : os.Perm target) (hs : strictAsc target = true) :
    sortObjs os = target ∧ strictAsc (sortObjs os) = true := by
  obtain ⟨hpw, hanti⟩ := strictAsc_facts target hs
  have h1 : sortObjs os = sortObjs target := by
    unfold sortObjs
    apply isort_eq_of_perm_on totalPre_obj hp
    intro a ha b hb h1 h2
    exact hanti a (hp.mem_iff.mp ha) b (hp.mem_iff.mp hb) h1 h2
  have h2 : sortObjs target = target := by
    unfold sortObjs
    exact isort_of_sorted hpw
  rw [h1, h2]
  exact ⟨rfl, hs⟩

/-! ### the assembled statement (object level) -/

/-- an item of one lane of the in-memory chart: a hit at a time, or a hold from a time to a time, with the id the
writer chose for its sample -/
inductive TAtom where
  | hit (t : Rat) (id : Bytes)
  | hold (t1 t2 : Rat) (id : Bytes)

/-- a bare position -/
def posOf (s : Snap) : Snap := ⟨s.measure, s.beat, none⟩

/-- the objects the writer emits for an item, at the positions `F` assigns to its times -/
def TAtom.toAtom (F : Rat → Snap) (ln : Bytes) : TAtom → Atom
  | .hit t id => .hit ⟨posOf (F t), id⟩
  | .hold t1 t2 id => .hold ⟨posOf (F t1), id⟩ ⟨posOf (F t2), ln⟩

def TAtom.idOk (ln : Bytes) : TAtom → Prop
  | .hit _ id => id ≠ ln
  | .hold _ _ id => id ≠ ln

def TAtom.times : TAtom → List Rat
  | .hit t _ => [t]
  | .hold t1 t2 _ => [t1, t2]

theorem timeAt_posOf (cs : List BcSnap) (s : Snap) : timeAt 0 cs (posOf s) = timeAt 0 cs s := by
  cases cs with
  | nil => rfl
  | cons c rest =>
    simp only [timeAt]
    have hgen : ∀ (T : Rat) (cur : BcSnap) (l : List BcSnap) (a b : Snap), a.measure = b.measure → a.beat = b.beat →
        timeAtAux T cur l a = timeAtAux T cur l b := by
      intro T cur l
      induction l generalizing T cur with
      | nil => intro a b h1 h2; simp [timeAtAux, snapDist, h1, h2]
      | cons n l ih =>
        intro a b h1 h2
        have hle : n.snap.le a = n.snap.le b := by simp [Snap.le, Snap.lt, Snap.eqv, h1, h2]
        simp only [timeAtAux, hle, snapDist, h1, h2]
        split
        · exact ih _ _ a b h1 h2
        · rfl
    exact hgen 0 c rest _ _ rfl rfl

/-- **`bms_write_read`, assembled at the level of objects** (`_partial`: see below).

Tempo list `cs` as in `write_positions`; one lane `(ch, col)` of the chart, its items `items` in time order with
sample ids different from the `#LNOBJ` id `ln`; `F` the position function of `write_positions` for all their
times.  Suppose the data lines of the file give channel `ch` the objects `os` — ANY arrangement (`hos`) of the
items' objects at the positions `F` assigns — and the position-ordered sequence has pairwise different positions
(`hstrict`: no two objects of the lane on one slot, nothing inside a hold).  Then the by-the-book reading of the lane
(`denoteLane`: sort by position, check, pair LNOBJ) is defined and returns exactly one hit per in-memory hit and one
hold per in-memory hold, in the lane's column, whose by-the-book times `timeAt 0 cs` are the in-memory times
exactly on the snap grid and within 1/192 beat (at the tempo in force) otherwise.

What is assembled here: `write_positions` (K1 as run), `written_lane_sorted`, `pairLane_atoms`.
(Superseded by `bms_write_read` in `Props/C05.lean`, which discharges all three items below for the whole file.)
Exactly what is still outside (`_partial`):
* `hch` — "the file's lines give channel `ch` an arrangement of these objects": proved as a membership equivalence
  for the data lines (`written_objects`, `written_line_denotes`, `lineKeys_cover`) with the positions of
  `slot_roundtrip` / `written_slot_time` / `newDens_dvd`; not yet as a permutation through `writeCells`, and the
  header lines are not yet shown to contribute no data lines;
* `hstrict` — follows from "no two objects in one (lane, slot)" + monotonicity of snapping (K1, not proved);
* the header of the file (`readHeader` over all rendered header lines: the tempo table, `#BPM`, numbers are
  `exbpm_table_readback`, `parseFloat_showExact`, `parseFloat_showFixed`) and the tempo list of the file
  (`written_tempo_list`, any row order) are proved separately and not threaded through `denote` here. -/
theorem bms_write_read_partial (cs : List BcSnap) (hwf : wfChanges cs = true) (hs : sortedSnaps cs = true)
    (h0 : firstAtZero cs = true) (hgc : gridCompatible (grid defaultMaxDiv) cs = true) (hm : metronomeOk cs = true)
    (ln : Bytes) (so : Bytes → Bytes) (notes : List (Bytes × Bytes × Bytes)) (ch : Bytes) (col : Nat)
    (items : List TAtom) (hid : ∀ a ∈ items, a.idOk ln) (hts : ∀ a ∈ items, ∀ t ∈ a.times, 0 ≤ t) :
    ∃ F : Rat → Snap,
      snaps defaultGrid (tmOf 0 cs) (items.flatMap TAtom.times) = .ok ((items.flatMap TAtom.times).map F) ∧
      ∀ os, channelObjs notes ch = some os →
        os.Perm ((items.map (TAtom.toAtom F ln)).flatMap Atom.objs) →
        strictAsc ((items.map (TAtom.toAtom F ln)).flatMap Atom.objs) = true →
        denoteLane (some ln) so notes (ch, col) =
          some ((items.map (TAtom.toAtom F ln)).flatMap (Atom.hits so col),
                (items.map (TAtom.toAtom F ln)).flatMap (Atom.holds so col)) ∧
        ∀ a ∈ items, ∀ t ∈ a.times,
          rabs (timeAt 0 cs (posOf (F t)) - t) ≤ 1 / 192 * activeBeatLen 0 cs t ∧
          (OnGridAt (grid defaultMaxDiv) 0 cs t → timeAt 0 cs (posOf (F t)) = t) := by
  have hall : ∀ t ∈ items.flatMap TAtom.times, 0 ≤ t := by
    intro t ht
    obtain ⟨a, ha, hta⟩ := List.mem_flatMap.mp ht
    exact hts a ha t hta
  obtain ⟨F, hF, hFt⟩ := write_positions cs hwf hs h0 hgc hm _ hall
  refine ⟨F, hF, ?_⟩
  intro os hch hos hstrict
  constructor
  · obtain ⟨hsorted, hsa⟩ := written_lane_sorted os _ hos hstrict
    have hwfA : ∀ a ∈ items.map (TAtom.toAtom F ln), a.wf ln := by
      intro a ha
      obtain ⟨x, hx, rfl⟩ := List.mem_map.mp ha
      have := hid x hx
      cases x with
      | hit t id => exact this
      | hold t1 t2 id => exact ⟨this, rfl⟩
    unfold denoteLane
    simp only [hch, hsorted, hstrict, if_true]
    exact pairLane_atoms ln so col _ hwfA
  · intro a ha t ht
    have := hFt t (List.mem_flatMap.mpr ⟨a, ha, ht⟩)
    rw [timeAt_posOf]
    exact ⟨this.2.1, this.2.2⟩

/-! ### D06 -/

/-- **D06.** Tempo 100/3 is written as `#BPM02 33.333`: the written file denotes a tempo of 33333/1000, and the
object one measure after the tempo change — at 11200 ms in memory — lies at 11200 + 800/11111 ms in the file
(every later measure adds the same drift).  Grid of 4; both objects sit on measure lines. -/
theorem bpm_3f_counterexample :
    let chart : WChart := { title := "t".toList, artist := "a".toList, version := "1".toList, lnEnd := "ZZ".toList,
                            samples := [], misc := [], bpms := [⟨120, 4, 0⟩, ⟨100 / 3, 4, 4000⟩],
                            hits := [⟨1, [], 4000⟩, ⟨1, [], 11200⟩], holds := [] }
    (match layoutOf "BME", bookLayout "BME" with
     | some l, some b =>
       (match write (grid 4).toArray l "01".toList chart with
        | .ok lines =>
          (match denote b lines with
           | some d => decide (d.hits.map (·.offset) = [4000, 11200 + 800 / 11111] ∧
                               d.tempo.map (·.bpm) = [120, 120, 33333 / 1000]) && lines.contains "#BPM02 33.333".toList
           | none => false)
        | .error _ => false)
     | _, _ => false) = true := by
  decide +kernel

/-- a written chart read back by the book (grid of 4): header, LNOBJ pair, off-measure objects, two tempo points -/
example :
    let chart : WChart := { title := "t".toList, artist := "a".toList, version := "1".toList, lnEnd := "ZZ".toList,
                            samples := [("0A".toList, "k.wav".toList)], misc := [],
                            bpms := [⟨120, 4, 0⟩, ⟨60, 4, 2000⟩],
                            hits := [⟨1, "k.wav".toList, 250⟩, ⟨2, [], 3000⟩], holds := [⟨3, [], 500, 2500⟩] }
    (match layoutOf "BME", bookLayout "BME" with
     | some l, some b =>
       (match write (grid 4).toArray l "01".toList chart with
        | .ok lines =>
          (match denote b lines with
           | some d => decide (d.hits = [⟨1, "k.wav".toList, 250⟩, ⟨2, [], 3000⟩] ∧ d.holds = [⟨3, [], 500, 2000⟩]) &&
                       lines.all (fun l => !(isDataLine l) || lineValid l)
           | none => false)
        | .error _ => false)
     | _, _ => false) = true := by
  decide +kernel

end Reamber.BMS
