/-
K3 for the `.sm` reader: `split` undoes `join` when no piece contains the separator; consequences for
`SMMapSet.read` (every `#NOTES` token becomes one chart, read from that token alone) and `SMMap.read`
(the five header fields come from the parameters 1–5 of the token, the note data from the last one).
Core Lean only.
-/
import Reamber.Lemmas.SMDefs

namespace Reamber.SM

open Reamber.Timing

theorem splitOn_no_sep (c : Char) (p : Str) (hp : c ∉ p) : splitOn c p = [p] := by
  induction p with
  | nil => rfl
  | cons x xs ih =>
    have hx : x ≠ c := fun e => hp (by simp [e])
    have hxs : c ∉ xs := fun h => hp (List.mem_cons_of_mem _ h)
    simp [splitOn, hx, ih hxs]

theorem splitOn_append_sep (c : Char) (p rest : Str) (hp : c ∉ p) :
    splitOn c (p ++ c :: rest) = p :: splitOn c rest := by
  induction p with
  | nil => simp [splitOn]
  | cons x xs ih =>
    have hx : x ≠ c := fun e => hp (by simp [e])
    have hxs : c ∉ xs := fun h => hp (List.mem_cons_of_mem _ h)
    simp [splitOn, hx, ih hxs]

/-- `sep.join(ps).split(sep) == ps` when no piece contains the separator -/
theorem splitOn_joinWith (c : Char) (ps : List Str) (hne : ps ≠ []) (h : ∀ p ∈ ps, c ∉ p) :
    splitOn c (joinWith [c] ps) = ps := by
  induction ps with
  | nil => exact absurd rfl hne
  | cons p t ih =>
    cases t with
    | nil => simpa [joinWith] using splitOn_no_sep c p (h p (by simp))
    | cons q r =>
      have hq : splitOn c (joinWith [c] (q :: r)) = q :: r :=
        ih (by simp) (fun x hx => h x (List.mem_cons_of_mem _ hx))
      simp only [joinWith, List.append_assoc, List.singleton_append]
      rw [splitOn_append_sep c p _ (h p (by simp)), hq]

theorem mapER_length {ε α β} (f : α → Except ε β) (l : List α) (r : List β) (h : mapER f l = .ok r) :
    r.length = l.length := by
  induction l generalizing r with
  | nil => simp [mapER] at h; subst h; rfl
  | cons a t ih =>
    simp only [mapER] at h
    cases ha : f a with
    | error e => simp [ha] at h
    | ok b =>
      cases ht : mapER f t with
      | error e => simp [ha, ht] at h
      | ok r' =>
        simp [ha, ht] at h
        subst h
        simp [ih r' ht]

theorem mapER_get {ε α β} (f : α → Except ε β) (l : List α) (r : List β) (h : mapER f l = .ok r)
    (i : Nat) (hi : i < l.length) (hr : i < r.length) : f l[i] = .ok r[i] := by
  induction l generalizing r i with
  | nil => simp at hi
  | cons a t ih =>
    simp only [mapER] at h
    cases ha : f a with
    | error e => simp [ha] at h
    | ok b =>
      cases ht : mapER f t with
      | error e => simp [ha, ht] at h
      | ok r' =>
        simp [ha, ht] at h
        subst h
        cases i with
        | zero => simpa using ha
        | succ j =>
          simp only [List.getElem_cons_succ]
          exact ih r' ht j (by simpa using hi) (by simpa using hr)

/-- the `#NOTES` tokens of a text, as `SMMapSet.read` routes them -/
def notesTokens (toks : List Str) : List Str := (toks.map strip).filter (hasInfix notesTag)
def metaTokens (toks : List Str) : List Str := (toks.map strip).filter (fun t => !hasInfix notesTag t)

/-- `SMMapSet.read` on `";".join(toks)`: the metadata tokens are folded into the header state, and the charts are
`SMMap.read` mapped over the `#NOTES` tokens — in file order, with the shared offset / tempo list. -/
theorem read_join (toks : List Str) (hne : toks ≠ []) (hsemi : ∀ t ∈ toks, ';' ∉ t) :
    read (joinWith [';'] toks) =
      match foldlE metaLine {} (metaTokens toks) with
      | .error e => .error e
      | .ok st =>
        match mapER (readMap st.hdr.offset st.bcs st.stopsSeen) (notesTokens toks) with
        | .error e => .error (.py e)
        | .ok cs => .ok ⟨st.hdr, cs⟩ := by
  unfold read notesTokens metaTokens
  rw [splitOn_joinWith ';' toks hne hsemi]
  rfl

/-- **Every chart is returned, each read from its own token** (any number of charts): if the text reads, the
number of charts is the number of `#NOTES` tokens and chart `i` is `SMMap.read` of token `i`. -/
theorem read_charts_each (toks : List Str) (hne : toks ≠ []) (hsemi : ∀ t ∈ toks, ';' ∉ t) (ms : MapSet)
    (h : read (joinWith [';'] toks) = .ok ms) :
    ms.charts.length = (notesTokens toks).length ∧
    ∃ st, foldlE metaLine {} (metaTokens toks) = .ok st ∧ ms.hdr = st.hdr ∧
      ∀ i (hi : i < (notesTokens toks).length) (hc : i < ms.charts.length),
        readMap st.hdr.offset st.bcs st.stopsSeen (notesTokens toks)[i] = .ok ms.charts[i] := by
  rw [read_join toks hne hsemi] at h
  cases hst : foldlE metaLine {} (metaTokens toks) with
  | error e => simp [hst] at h
  | ok st =>
    simp only [hst] at h
    cases hcs : mapER (readMap st.hdr.offset st.bcs st.stopsSeen) (notesTokens toks) with
    | error e => simp [hcs] at h
    | ok cs =>
      simp only [hcs] at h
      cases h
      refine ⟨mapER_length _ _ _ hcs, st, rfl, rfl, ?_⟩
      intro i hi hc
      exact mapER_get _ _ _ hcs i hi hc

theorem bind_ok {ε α β} (x : Except ε α) (f : α → Except ε β) (b : β) (h : x >>= f = .ok b) :
    ∃ a, x = .ok a ∧ f a = .ok b := by
  cases x with
  | error e => simp [bind, Except.bind] at h
  | ok a => exact ⟨a, rfl, h⟩

/-- **Each chart's own header fields**: a `#NOTES` token `pre:type:desc:diff:meter:radar:data` (no `:` inside the
pieces) that reads gives the chart whose type / description / difficulty are the stripped parameters 1–3, whose
meter is `int(parameter 4)`, whose radar is the floats of parameter 5, and whose notes come from `data`. -/
theorem readMap_fields (t0 : Option Rat) (bcs : Option (List BcSnap)) (ss : Bool)
    (pre ct ds df mv rv data : Str) (hc : ∀ p ∈ [pre, ct, ds, df, mv, rv, data], ':' ∉ p) (c : Chart)
    (h : readMap t0 bcs ss (joinWith [':'] [pre, ct, ds, df, mv, rv, data]) = .ok c) :
    c.chartType = strip ct ∧ c.description = strip ds ∧ c.difficulty = strip df ∧
    parseInt mv = .ok c.difficultyVal ∧ mapE parseFloat (splitOn ',' (strip rv)) = .ok c.groove ∧
    readNotes data t0 bcs ss = .ok (c.bpms, c.notes) := by
  unfold readMap at h
  rw [splitOn_joinWith ':' _ (by simp) hc] at h
  cases h1 : parseInt mv with
  | error e => simp [getIdx, h1, bind, Except.bind] at h
  | ok dvi =>
    cases h2 : mapE parseFloat (splitOn ',' (strip rv)) with
    | error e => simp [getIdx, h1, h2, bind, Except.bind] at h
    | ok grv =>
      cases h3 : readNotes data t0 bcs ss with
      | error e => simp [getIdx, h1, h2, h3, bind, Except.bind] at h
      | ok bn =>
        simp [getIdx, h1, h2, h3, bind, Except.bind] at h
        subst h
        simp

end Reamber.SM
