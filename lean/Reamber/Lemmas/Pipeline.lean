/-
Helper lemmas for C09: the first-fit pairing of `Spec/Pipeline.lean` is sound for the declarative pairing, the
insertion sort only rearranges, truncation to whole milliseconds is within the `ms` resolution.
-/
import Reamber.Spec.Pipeline
import Reamber.Lemmas.Qua

namespace Reamber.Pipeline

open Reamber.Timing

theorem pl_insertBy_perm {α} (le : α → α → Bool) (x : α) (l : List α) : (insertBy le x l).Perm (x :: l) := by
  induction l with
  | nil => exact List.Perm.refl _
  | cons y ys ih =>
    unfold insertBy
    split
    · exact List.Perm.refl _
    · exact (List.Perm.cons y ih).trans (List.Perm.swap x y ys)

theorem pl_isort_perm {α} (le : α → α → Bool) (l : List α) : (isort le l).Perm l := by
  induction l with
  | nil => exact List.Perm.refl _
  | cons a t ih =>
    show (insertBy le a (isort le t)).Perm (a :: t)
    exact (pl_insertBy_perm le a _).trans (List.Perm.cons a ih)

/-- what `removeFirst` takes out satisfies the predicate, and nothing else changes -/
theorem removeFirst_perm {α} (p : α → Bool) :
    ∀ (bs bs' : List α), removeFirst p bs = some bs' → ∃ b, p b = true ∧ (b :: bs').Perm bs
  | [], _, h => by simp [removeFirst] at h
  | b :: bs, bs', h => by
    unfold removeFirst at h
    by_cases hb : p b = true
    · rw [if_pos hb] at h
      simp only [Option.some.injEq] at h
      subst h
      exact ⟨b, hb, List.Perm.refl _⟩
    · rw [if_neg hb] at h
      cases hr : removeFirst p bs with
      | none => rw [hr] at h; simp at h
      | some r =>
        rw [hr] at h
        simp only [Option.map_some, Option.some.injEq] at h
        subst h
        obtain ⟨x, hx, hperm⟩ := removeFirst_perm p bs r hr
        exact ⟨x, hx, (List.Perm.swap b x r).trans (List.Perm.cons b hperm)⟩

/-- **first-fit pairing is sound**: when `matchUp` succeeds, some rearrangement of `bs` is close to `as` position by
position -/
theorem matchUp_zipped {α β} (close : α → β → Bool) :
    ∀ (as : List α) (bs : List β), matchUp close as bs = true →
      ∃ bs', bs'.Perm bs ∧ Zipped (fun a b => close a b = true) as bs'
  | [], bs, h => by
    cases bs with
    | nil => exact ⟨[], List.Perm.refl _, Zipped.nil⟩
    | cons b t => simp [matchUp] at h
  | a :: as, bs, h => by
    unfold matchUp at h
    cases hr : removeFirst (close a) bs with
    | none => rw [hr] at h; simp at h
    | some r =>
      rw [hr] at h
      obtain ⟨b, hb, hperm⟩ := removeFirst_perm (close a) bs r hr
      obtain ⟨r', hr', hz⟩ := matchUp_zipped close as r h
      exact ⟨b :: r', (List.Perm.cons b hr').trans hperm, Zipped.cons hb hz⟩

theorem matchUp_paired {α β} (close : α → β → Bool) (le₁ : α → α → Bool) (le₂ : β → β → Bool) (as : List α) (bs : List β)
    (h : matchUp close (isort le₁ as) (isort le₂ bs) = true) : Paired (fun a b => close a b = true) as bs := by
  obtain ⟨bs', hp, hz⟩ := matchUp_zipped close _ _ h
  exact ⟨isort le₁ as, bs', pl_isort_perm le₁ as, hp.trans (pl_isort_perm le₂ bs), hz⟩

theorem matchUp_paired_id {α β} (close : α → β → Bool) (as : List α) (bs : List β)
    (h : matchUp close as bs = true) : Paired (fun a b => close a b = true) as bs := by
  obtain ⟨bs', hp, hz⟩ := matchUp_zipped close _ _ h
  exact ⟨as, bs', List.Perm.refl _, hp, hz⟩

/-- a map that keeps every element related to its image gives a position-by-position relation -/
theorem zipped_map {α β} (R : β → β → Prop) (f : α → β) (g : α → α) (h : ∀ a, R (f a) (f (g a))) :
    ∀ l : List α, Zipped R (l.map f) ((l.map g).map f)
  | [] => Zipped.nil
  | a :: t => Zipped.cons (h a) (zipped_map R f g h t)

theorem rabs_lt_one_of (a b : Rat) (h1 : b - a < 1) (h2 : a - b < 1) : rabs (a - b) < 1 := by
  unfold rabs
  split <;> linarith

/-- truncation to a whole millisecond stays inside the `ms` resolution (no float slack needed) -/
theorem closeTime_ms_trunc (src : AChart) (exact : Bool) (q : Rat) :
    closeTime 0 .ms exact src q (Qua.truncI q : Rat) = true := by
  have h := Qua.truncI_close q
  have : rabs (q - (Qua.truncI q : Rat)) < 1 := rabs_lt_one_of _ _ h.1 h.2
  have hz : slack 0 q (Qua.truncI q : Rat) = 0 := by
    unfold slack
    rw [Rat.zero_mul, Rat.add_zero]
  unfold closeTime
  apply decide_eq_true
  rw [hz, Rat.add_zero]
  exact this

end Reamber.Pipeline
