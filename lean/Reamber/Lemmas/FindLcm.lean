/-
K1 — `find_lcm`: the invariant of the double loop with its in-place `None` marking.
Every entry of the result is a positive multiple of the corresponding input.  Core Lean only.
-/
import Reamber.Model.Timing

namespace Reamber.Timing

/-- loop invariant: live entries (`some v`) and recorded LCMs (`a_[k] ≠ 0`) are positive multiples of the
input, and an absorbed entry (`none`) has its LCM recorded -/
def LcmInv (xs : List Nat) (a : List (Option Nat)) (a_ : List Nat) : Prop :=
  a.length = xs.length ∧ a_.length = xs.length ∧
  ∀ k, k < xs.length →
    (∀ v, a.getD k none = some v → xs.getD k 0 ∣ v ∧ 0 < v) ∧
    (a_.getD k 0 ≠ 0 → xs.getD k 0 ∣ a_.getD k 0) ∧
    (a.getD k none = none → a_.getD k 0 ≠ 0)

theorem getD_set_eq {α} (l : List α) (i : Nat) (x d : α) (h : i < l.length) : (l.set i x).getD i d = x := by
  simp [List.getD_eq_getElem?_getD, h]

theorem getD_set_ne {α} (l : List α) (i k : Nat) (x d : α) (h : i ≠ k) : (l.set i x).getD k d = l.getD k d := by
  simp [List.getD_eq_getElem?_getD, h]

theorem lcmInv_step (xs : List Nat) (a : List (Option Nat)) (a_ : List Nat) (i j b c : Nat)
    (hinv : LcmInv xs a a_) (hij : i ≠ j) (hi : i < xs.length) (hj : j < xs.length)
    (hb : a.getD i none = some b) (hc : a.getD j none = some c) :
    LcmInv xs ((a.set i (some (Nat.lcm b c))).set j none) (a_.set j (Nat.lcm b c)) := by
  obtain ⟨hla, hla_, hk⟩ := hinv
  have hbi := (hk i hi).1 b hb
  have hcj := (hk j hj).1 c hc
  have hlpos : 0 < Nat.lcm b c := Nat.lcm_pos hbi.2 hcj.2
  refine ⟨by simp [hla], by simp [hla_], ?_⟩
  intro k hkl
  by_cases hkj : k = j
  · subst hkj
    have hlen : k < (a.set i (some (Nat.lcm b c))).length := by simp [hla, hj]
    have hlen_ : k < a_.length := by omega
    refine ⟨?_, ?_, ?_⟩
    · intro v hv
      rw [getD_set_eq _ _ _ _ hlen] at hv
      cases hv
    · intro _
      rw [getD_set_eq _ _ _ _ hlen_]
      exact Nat.dvd_trans hcj.1 (Nat.dvd_lcm_right b c)
    · intro _
      rw [getD_set_eq _ _ _ _ hlen_]
      omega
  · have hjk : j ≠ k := fun e => hkj e.symm
    rw [getD_set_ne _ _ _ _ _ hjk, getD_set_ne _ _ _ _ _ hjk]
    by_cases hki : k = i
    · subst hki
      have hlen : k < a.length := by omega
      rw [getD_set_eq _ _ _ _ hlen]
      refine ⟨?_, (hk k hkl).2.1, ?_⟩
      · intro v hv
        cases hv
        exact ⟨Nat.dvd_trans hbi.1 (Nat.dvd_lcm_left b c), hlpos⟩
      · intro h; cases h
    · have hik : i ≠ k := fun e => hki e.symm
      rw [getD_set_ne _ _ _ _ _ hik]
      exact hk k hkl

theorem lcmInv_inner (xs : List Nat) (thr i : Nat) (hi : i < xs.length) (js : List Nat) :
    ∀ (a : List (Option Nat)) (a_ : List Nat), (∀ j ∈ js, j < xs.length) → LcmInv xs a a_ →
      LcmInv xs (findLcmInner thr i js (a, a_)).1 (findLcmInner thr i js (a, a_)).2 := by
  induction js with
  | nil => intro a a_ _ h; simpa [findLcmInner] using h
  | cons j js ih =>
    intro a a_ hjs hinv
    have hj : j < xs.length := hjs j (by simp)
    have hjs' : ∀ j ∈ js, j < xs.length := fun x hx => hjs x (by simp [hx])
    unfold findLcmInner
    by_cases hij : i = j
    · simp only [hij, if_true]
      rw [← hij]
      exact ih a a_ hjs' hinv
    · simp only [hij, if_false]
      cases hb : a.getD i none with
      | none => simpa using ih a a_ hjs' hinv
      | some b =>
        cases hc : a.getD j none with
        | none => simpa using ih a a_ hjs' hinv
        | some c =>
          simp only []
          by_cases hl : Nat.lcm b c < thr
          · simp only [hl, if_true]
            exact ih _ _ hjs' (lcmInv_step xs a a_ i j b c hinv hij hi hj hb hc)
          · simp only [hl, if_false]
            exact ih a a_ hjs' hinv

theorem lcmInv_outer (xs : List Nat) (thr : Nat) (js : List Nat) (hjs : ∀ j ∈ js, j < xs.length) (is : List Nat) :
    ∀ (st : List (Option Nat) × List Nat), (∀ i ∈ is, i < xs.length) → LcmInv xs st.1 st.2 →
      LcmInv xs (is.foldl (fun st i => findLcmInner thr i js st) st).1 (is.foldl (fun st i => findLcmInner thr i js st) st).2 := by
  induction is with
  | nil => intro st _ h; simpa using h
  | cons i is ih =>
    intro st his hinv
    simp only [List.foldl_cons]
    apply ih _ (fun x hx => his x (by simp [hx]))
    exact lcmInv_inner xs thr i (his i (by simp)) js st.1 st.2 hjs hinv

theorem lcmInv_init (xs : List Nat) (hpos : ∀ x ∈ xs, 0 < x) : LcmInv xs (xs.map some) (xs.map (fun _ => 0)) := by
  refine ⟨by simp, by simp, ?_⟩
  intro k hk
  refine ⟨?_, ?_, ?_⟩
  · intro v hv
    simp only [List.getD_eq_getElem?_getD, List.getElem?_map, List.getElem?_eq_getElem hk, Option.map_some, Option.getD_some,
      Option.some.injEq] at hv
    subst hv
    simp only [List.getD_eq_getElem?_getD, List.getElem?_eq_getElem hk, Option.getD_some]
    exact ⟨Nat.dvd_refl _, hpos _ (List.getElem_mem hk)⟩
  · intro h
    simp [List.getD_eq_getElem?_getD, List.getElem?_map, List.getElem?_eq_getElem hk] at h
  · intro h
    simp [List.getD_eq_getElem?_getD, List.getElem?_map, List.getElem?_eq_getElem hk] at h

/-- **`find_lcm` returns, position by position, a positive multiple of its input** (whatever the threshold):
the invariant of the double loop with its `None` marking. -/
theorem findLcm_dvd (xs : List Nat) (thr : Nat) (hpos : ∀ x ∈ xs, 0 < x) :
    (findLcm xs thr).length = xs.length ∧
    ∀ i, i < xs.length → xs.getD i 0 ∣ (findLcm xs thr).getD i 0 ∧ 0 < (findLcm xs thr).getD i 0 := by
  have hr : ∀ j ∈ List.range xs.length, j < xs.length := fun j hj => List.mem_range.mp hj
  have hinv := lcmInv_outer xs thr (List.range xs.length) hr (List.range xs.length)
    (xs.map some, xs.map (fun _ => 0)) hr (lcmInv_init xs hpos)
  simp only [findLcm]
  generalize (List.range xs.length).foldl (fun st i => findLcmInner thr i (List.range xs.length) st)
    (xs.map some, xs.map (fun _ => 0)) = st at hinv ⊢
  obtain ⟨a, a_⟩ := st
  obtain ⟨_, _, hk⟩ := hinv
  refine ⟨by simp, ?_⟩
  intro i hi
  have hki := hk i hi
  simp only [List.getD_eq_getElem?_getD, List.getElem?_map, List.getElem?_range hi, Option.map_some, Option.getD_some]
  simp only [List.getD_eq_getElem?_getD] at hki
  split
  · rename_i h0
    cases hai : (a[i]?).getD none with
    | none => exact absurd h0 (hki.2.2 hai)
    | some v => simpa [hai] using hki.1 v hai
  · rename_i h0
    exact ⟨hki.2.1 h0, Nat.pos_of_ne_zero h0⟩

end Reamber.Timing
