/-
C07: the extended reader `readFileX` (every float32 as a tempo: NaN, ±inf, subnormals, −0.0) refines the rational
model `readFile` wherever that one does not decline — function by function along the reader: tempo-event decoding,
channel dispatch, framing of a level, all levels, the sweep, note timing, `read_pkgs`, `O2JMapSet.read`.
-/
import Reamber.Model.O2JX
import Reamber.Spec.O2J

namespace Reamber.O2J

open Reamber.Timing (isort insertBy minToMsec)
open Reamber.Generated

/-- a rational tempo event inside the extended value domain -/
def embE (e : Rat × Rat) : Rat × F32 := (e.1, .fin e.2)

def Pkg.toX (p : Pkg) : PkgX := ⟨p.measure, p.channel, p.slots, p.notes, p.bpms.map embE, p.mfrac⟩

def St.toX (st : St) : StX := ⟨.fin st.offset, st.measure, .fin st.bpm⟩

/-! ### decoding -/

theorem bpmsAux_X (m : Int) (n : Nat) : ∀ (gs : List (List Nat)) (i : Nat),
    match bpmsAux m n i gs with
    | .ok l => bpmsAuxX m n i gs = l.map embE
    | .error e => e = .nonfinite := by
  intro gs
  induction gs with
  | nil => intro i; simp [bpmsAux, bpmsAuxX]
  | cons g rest ih =>
    intro i
    have ih' := ih (i + 1)
    simp only [bpmsAux, bpmsAuxX]
    cases hd : decodeF32 g with
    | fin q =>
      simp only []
      by_cases hq : q = 0
      · simp only [hq, if_true]; exact ih'
      · simp only [hq, if_false]
        cases hr : bpmsAux m n (i + 1) rest with
        | error e => rw [hr] at ih'; simpa [bind, Except.bind] using ih'
        | ok l => rw [hr] at ih'; simp only [] at ih'; simp [bind, Except.bind, ih', embE]
    | inf s => simp
    | nan => simp

theorem bpmsOf_X (p : RawPkg) :
    match bpmsOf p with
    | .ok l => bpmsOfX p = l.map embE
    | .error e => e = .nonfinite := by
  unfold bpmsOf bpmsOfX
  exact bpmsAux_X _ _ _ _

theorem decodePkg_X (p : RawPkg) (buf : Buf) :
    match decodePkg p buf with
    | .ok r => decodePkgX p buf = .ok (r.1.toX, r.2)
    | .error e => e = .nonfinite ∨ decodePkgX p buf = .error e := by
  unfold decodePkg decodePkgX
  by_cases h1 : isNoteChannel p.channel = true
  · simp only [h1, if_true]
    cases hf : foldBuf buf (slotsOf p) with
    | error e => simp [bind, Except.bind]
    | ok r => obtain ⟨ns, b⟩ := r; simp [bind, Except.bind, Pkg.toX]
  · simp only [h1]
    by_cases h2 : p.channel = O2J.chBpmChange
    · simp only [h2, if_true]
      have hb := bpmsOf_X p
      cases hr : bpmsOf p with
      | error e => rw [hr] at hb; simp only [] at hb; simp [bind, Except.bind, hb]
      | ok l => rw [hr] at hb; simp only [] at hb; simp [bind, Except.bind, hb, Pkg.toX]
    · simp only [h2, if_false]
      by_cases h3 : p.channel = O2J.chMeasureFraction
      · simp only [h3, if_true]
        by_cases h4 : p.data.length < 4
        · simp [h4]
        · simp [h4, Pkg.toX]
      · simp [h3, Pkg.toX]

theorem readLevel_X : ∀ (n : Nat) (q : List Nat) (buf : Buf),
    match readLevel n q buf with
    | .ok r => readLevelX n q buf = .ok (r.1.map Pkg.toX, r.2.1, r.2.2.1, r.2.2.2)
    | .error e => e = .nonfinite ∨ readLevelX n q buf = .error e := by
  intro n
  induction n with
  | zero => intro q buf; simp [readLevel, readLevelX]
  | succ n ih =>
    intro q buf
    simp only [readLevel, readLevelX]
    by_cases hq : q.isEmpty = true
    · simp [hq]
    · simp only [hq]
      cases hp : popPkg q with
      | error e => simp [bind, Except.bind]
      | ok r =>
        obtain ⟨rp, q1⟩ := r
        simp only [bind, Except.bind]
        have hd := decodePkg_X rp buf
        cases hdp : decodePkg rp buf with
        | error e =>
          rw [hdp] at hd
          simp only [] at hd
          rcases hd with hd | hd
          · simp [hd]
          · simp [hd]
        | ok r2 =>
          obtain ⟨pk, b1⟩ := r2
          rw [hdp] at hd
          simp only [] at hd
          rw [hd]
          simp only []
          have hi := ih q1 b1
          cases hrl : readLevel n q1 b1 with
          | error e =>
            rw [hrl] at hi
            simp only [] at hi
            rcases hi with hi | hi
            · simp [hi]
            · simp [hi]
          | ok r3 =>
            obtain ⟨ps, miss, q2, b2⟩ := r3
            rw [hrl] at hi
            simp only [] at hi
            rw [hi]
            simp

/-- the levels as the extended reader returns them -/
def lvlsX (l : List (List Pkg × Bool)) : List (List PkgX × Bool) := l.map (fun x => (x.1.map Pkg.toX, x.2))

theorem readLevels_X : ∀ (cs : List Int) (q : List Nat) (buf : Buf),
    match readLevels cs q buf with
    | .ok r => readLevelsX cs q buf = .ok (lvlsX r)
    | .error e => e = .nonfinite ∨ readLevelsX cs q buf = .error e := by
  intro cs
  induction cs with
  | nil => intro q buf; simp [readLevels, readLevelsX, lvlsX]
  | cons c cs ih =>
    intro q buf
    simp only [readLevels, readLevelsX]
    have h1 := readLevel_X c.toNat q buf
    cases hr : readLevel c.toNat q buf with
    | error e =>
      rw [hr] at h1
      simp only [] at h1
      rcases h1 with h1 | h1
      · simp [bind, Except.bind, h1]
      · simp [bind, Except.bind, h1]
    | ok r =>
      obtain ⟨ps, miss, q1, b1⟩ := r
      rw [hr] at h1
      simp only [] at h1
      simp only [bind, Except.bind, h1]
      have hi := ih q1 b1
      cases hrl : readLevels cs q1 b1 with
      | error e =>
        rw [hrl] at hi
        simp only [] at hi
        rcases hi with hi | hi
        · simp [hi]
        · simp [hi]
      | ok r2 =>
        rw [hrl] at hi
        simp only [] at hi
        simp [hi, lvlsX]

/-! ### the sweep -/

theorem segTimeX_toX (st : St) (p : Rat) : segTimeX st.toX p = .fin (segTime st p) := by
  simp [segTimeX, segTime, St.toX, advX, XT.add]

theorem consumeX_toX (st : St) (e : Rat × Rat) : consumeX st.toX (embE e) = (consume st e).toX := by
  unfold consumeX consume
  rw [show (embE e).1 = e.1 from rfl, segTimeX_toX]
  rfl

theorem advanceX_toX : ∀ (l : List (Rat × Rat)) (st : St) (nm : Rat),
    advanceX st.toX (l.map embE) nm =
      ((advance st l nm).1.toX, (advance st l nm).2.1.map XT.fin, (advance st l nm).2.2.map embE) := by
  intro l
  induction l with
  | nil => intro st nm; simp [advanceX, advance]
  | cons e rest ih =>
    intro st nm
    simp only [List.map_cons, advanceX, advance]
    by_cases h : e.1 ≤ nm
    · have h' : (embE e).1 ≤ nm := h
      simp only [h, h', if_true, consumeX_toX, ih]
      simp [St.toX]
    · have h' : ¬ (embE e).1 ≤ nm := h
      simp [h, h']

theorem consumeAllX_toX : ∀ (l : List (Rat × Rat)) (st : St),
    consumeAllX st.toX (l.map embE) = (consumeAll st l).map XT.fin := by
  intro l
  induction l with
  | nil => intro st; simp [consumeAllX, consumeAll]
  | cons e rest ih =>
    intro st
    simp only [List.map_cons, consumeAllX, consumeAll, consumeX_toX, ih]
    simp [St.toX]

def tblX (t : List (Rat × Rat)) : List (Rat × XT) := t.map (fun p => (p.1, XT.fin p.2))

theorem sweepX_toX : ∀ (nms : List Rat) (st : St) (l : List (Rat × Rat)),
    sweepX st.toX (l.map embE) nms = (tblX (sweep st l nms).1, (sweep st l nms).2.map XT.fin) := by
  intro nms
  induction nms with
  | nil => intro st l; simp [sweepX, sweep, consumeAllX_toX, tblX]
  | cons nm rest ih =>
    intro st l
    simp only [sweepX, sweep, advanceX_toX, ih, segTimeX_toX]
    simp [tblX]

theorem lookupTX_toX (t : List (Rat × Rat)) (m : Rat) : lookupTX (tblX t) m = (lookupT t m).map XT.fin := by
  unfold lookupTX lookupT tblX
  induction t with
  | nil => simp
  | cons p rest ih =>
    simp only [List.map_cons, List.find?_cons]
    by_cases h : p.1 = m
    · simp [h]
    · simp only [h, decide_false]
      exact ih

theorem timeNoteX_toX (t : List (Rat × Rat)) (n : Note) :
    timeNoteX (tblX t) n = (timeNote t n).map NoteOut.toX := by
  unfold timeNoteX timeNote
  rw [lookupTX_toX]
  cases h1 : lookupT t n.pos with
  | none => simp [Except.map]
  | some a =>
    cases n with
    | hit s => simp [Except.map, NoteOut.toX]
    | hold hd tl =>
      simp only [Option.map_some, lookupTX_toX]
      cases h2 : lookupT t tl.pos with
      | none => simp [Except.map]
      | some b => simp [Except.map, NoteOut.toX, XT.sub]

theorem mapE_timeNoteX (t : List (Rat × Rat)) : ∀ (ns : List Note),
    mapE (timeNoteX (tblX t)) ns = (mapE (timeNote t) ns).map (List.map NoteOut.toX) := by
  intro ns
  induction ns with
  | nil => simp [mapE, Except.map]
  | cons n rest ih =>
    simp only [mapE, timeNoteX_toX, ih]
    cases h1 : timeNote t n with
    | error e => simp [bind, Except.bind, Except.map]
    | ok a =>
      cases h2 : mapE (timeNote t) rest with
      | error e => simp [bind, Except.bind, Except.map]
      | ok r => simp [bind, Except.bind, Except.map]

theorem insertBy_embE (x : Rat × Rat) : ∀ (l : List (Rat × Rat)),
    insertBy (fun a b : Rat × F32 => decide (a.1 ≤ b.1)) (embE x) (l.map embE)
      = (insertBy (fun a b : Rat × Rat => decide (a.1 ≤ b.1)) x l).map embE := by
  intro l
  induction l with
  | nil => simp [insertBy]
  | cons y ys ih =>
    simp only [List.map_cons, insertBy]
    by_cases h : x.1 ≤ y.1
    · have h' : (embE x).1 ≤ (embE y).1 := h
      simp [h, h']
    · have h' : ¬ (embE x).1 ≤ (embE y).1 := h
      simp [h, h', ih]

theorem sortBpmsX_embE : ∀ (l : List (Rat × Rat)), sortBpmsX (l.map embE) = (sortBpms l).map embE := by
  intro l
  induction l with
  | nil => simp [sortBpmsX, sortBpms, isort]
  | cons x xs ih =>
    have e1 : sortBpmsX ((x :: xs).map embE) =
        insertBy (fun a b : Rat × F32 => decide (a.1 ≤ b.1)) (embE x) (sortBpmsX (xs.map embE)) := rfl
    have e2 : sortBpms (x :: xs) = insertBy (fun a b : Rat × Rat => decide (a.1 ≤ b.1)) x (sortBpms xs) := rfl
    rw [e1, e2, ih, insertBy_embE]

theorem zipBpmsX_toX : ∀ (es : List (Rat × Rat)) (ts : List Rat),
    zipBpmsX (es.map embE) (ts.map XT.fin) = (zipBpms es ts).map BpmOut.toX := by
  intro es
  induction es with
  | nil => intro ts; simp [zipBpmsX, zipBpms]
  | cons e rest ih =>
    intro ts
    cases ts with
    | nil => simp [zipBpmsX, zipBpms]
    | cons t ts => simp [zipBpmsX, zipBpms, ih, BpmOut.toX, embE]

theorem flatMap_bpms_toX (pkgs : List Pkg) :
    (pkgs.map Pkg.toX).flatMap (·.bpms) = (pkgs.flatMap (·.bpms)).map embE := by
  induction pkgs with
  | nil => rfl
  | cons p rest ih => simp [List.flatMap_cons, ih, Pkg.toX]

theorem flatMap_notes_toX (pkgs : List Pkg) :
    (pkgs.map Pkg.toX).flatMap (·.notes) = pkgs.flatMap (·.notes) := by
  induction pkgs with
  | nil => rfl
  | cons p rest ih => simp [List.flatMap_cons, ih, Pkg.toX]

theorem any_mfrac_toX (pkgs : List Pkg) : (pkgs.map Pkg.toX).any (·.mfrac) = pkgs.any (·.mfrac) := by
  induction pkgs with
  | nil => rfl
  | cons p rest ih => simp [ih, Pkg.toX]

/-- `read_pkgs` over finite tempos: the extended sweep computes the rational one -/
theorem readPkgsX_toX (pkgs : List Pkg) (miss : Bool) (init : Rat) :
    readPkgsX (pkgs.map Pkg.toX) miss (.fin init) = (readPkgs pkgs miss init).map LevelOut.toX := by
  unfold readPkgsX readPkgs
  cases miss with
  | true => simp [Except.map]
  | false =>
    simp only [Bool.false_eq_true, if_false, any_mfrac_toX]
    cases hf : pkgs.any (·.mfrac) with
    | true => simp [Except.map]
    | false =>
      simp only [Bool.false_eq_true, if_false, flatMap_notes_toX, flatMap_bpms_toX, sortBpmsX_embE]
      have hinit : (F32.fin init = F32.fin 0) = (init = 0) := by simp
      have hne : ((sortBpms (pkgs.flatMap (·.bpms))).map embE ≠ []) = (sortBpms (pkgs.flatMap (·.bpms)) ≠ []) := by simp
      simp only [hinit, hne]
      split
      · rfl
      · have hst : (⟨.fin 0, 0, .fin init⟩ : StX) = (⟨0, 0, init⟩ : St).toX := rfl
        rw [hst, sweepX_toX, mapE_timeNoteX]
        simp only []
        cases hr : mapE (timeNote _) _ with
        | error e => simp [bind, Except.bind, Except.map]
        | ok outs =>
          simp only [bind, Except.bind, Except.map, zipBpmsX_toX]
          simp [LevelOut.toX, BpmOut.toX]

theorem mapE_readPkgsX (init : Rat) : ∀ (lvls : List (List Pkg × Bool)),
    mapE (fun (l : List PkgX × Bool) => readPkgsX l.1 l.2 (.fin init)) (lvlsX lvls)
      = (mapE (fun (l : List Pkg × Bool) => readPkgs l.1 l.2 init) lvls).map (List.map LevelOut.toX) := by
  intro lvls
  induction lvls with
  | nil => simp [mapE, lvlsX, Except.map]
  | cons l rest ih =>
    have ih' : mapE (fun (l : List PkgX × Bool) => readPkgsX l.1 l.2 (.fin init)) (List.map (fun x => (x.1.map Pkg.toX, x.2)) rest)
        = (mapE (fun (l : List Pkg × Bool) => readPkgs l.1 l.2 init) rest).map (List.map LevelOut.toX) := ih
    simp only [lvlsX, List.map_cons, mapE, readPkgsX_toX, ih']
    cases h1 : readPkgs l.1 l.2 init with
    | error e => simp [bind, Except.bind, Except.map]
    | ok a =>
      cases h2 : mapE (fun (l : List Pkg × Bool) => readPkgs l.1 l.2 init) rest with
      | error e => simp [bind, Except.bind, Except.map]
      | ok r => simp [bind, Except.bind, Except.map]

/-- **The extended reader refines the rational model.**  For every byte string on which the rational model of
`O2JMapSet.read` does not decline (no NaN / ±inf tempo met), the reader over the whole float32 range returns the same
result — the same error, or the same header, notes and tempo points with every time and tempo a finite number.  Hence
every theorem about `readFile` (in particular `read_spec`) is a theorem about `readFileX`, the model the correspondence
check compares with the implementation on files with non-finite tempos. -/
theorem readFileX_refines (bs : List Nat) (h : readFile bs ≠ .error .nonfinite) :
    readFileX bs = (readFile bs).map FileOut.toX := by
  unfold readFile readFileX at *
  cases hm : readMeta bs with
  | error e => simp [bind, Except.bind, Except.map]
  | ok hdr =>
    rw [hm] at h
    simp only [bind, Except.bind] at h ⊢
    have hl := readLevels_X (packageCounts hdr) (bs.drop 300) []
    cases hr : readLevels (packageCounts hdr) (bs.drop 300) [] with
    | error e =>
      rw [hr] at hl h
      simp only [] at hl h
      rcases hl with hl | hl
      · subst hl; exact absurd rfl h
      · simp [hl, Except.map]
    | ok lvls =>
      rw [hr] at hl h
      simp only [] at hl h
      rw [hl]
      simp only []
      cases hb : lookupMeta hdr "bpm" with
      | none => simp [Except.map]
      | some v =>
        rw [hb] at h
        cases v with
        | flt f =>
          cases f with
          | fin q =>
            simp only [] at h ⊢
            rw [mapE_readPkgsX]
            cases hx : mapE (fun (l : List Pkg × Bool) => readPkgs l.1 l.2 q) lvls with
            | error e => simp [Except.map]
            | ok outs => simp [Except.map, FileOut.toX]
          | inf s => simp only [] at h; exact absurd rfl h
          | nan => simp only [] at h; exact absurd rfl h
        | int i => simp [Except.map]
        | byte b => simp [Except.map]
        | list l => simp [Except.map]
        | text cs => simp [Except.map]
        | bytes b => simp [Except.map]

/-- the extended reader never declines: `Err.nonfinite` is not among its results (it is not a Python error) -/
theorem refinesB_true (bs : List Nat) : refinesB bs = true := by
  unfold refinesB
  cases hr : readFile bs with
  | error e =>
    cases e with
    | nonfinite => simp
    | _ =>
      have := readFileX_refines bs (by rw [hr]; simp)
      rw [hr] at this
      simp [this, Except.map]
  | ok out =>
    have := readFileX_refines bs (by rw [hr]; simp)
    rw [hr] at this
    simp [this, Except.map]

end Reamber.O2J
