/-
C09 glue, format independent: any abstract chart as list frames of C08's converter model (`embA`), and the positional
content of every converter without a shift parameter, for whole conversions (any loop shape, any number of charts).
-/
import Reamber.Lemmas.PipelineQuaOsu

namespace Reamber.Pipeline

open Reamber.Convert

/-- the list frames that hold the rows of an abstract chart: key columns only, fresh row labels; `svs` when the game has
scroll velocities.  An in-memory map of any game IS such frames as far as a converter reads it. -/
def embA (a : AChart) (svs : Option (List (Rat × Rat))) (attrs : List (String × String)) (levelName : String) : SrcMap :=
  ⟨(match svs with
    | some s => [("svs", numFrame s [("offset", fun x => x.1), ("multiplier", fun x => x.2)])]
    | none => []) ++
   [("hits", numFrame a.hits [("offset", fun h => h.1), ("column", fun h => (h.2 : Rat))]),
    ("holds", numFrame a.holds [("offset", fun h => h.1), ("column", fun h => (h.2.1 : Rat)), ("length", fun h => h.2.2)]),
    ("bpms", numFrame a.bpms [("offset", fun b => b.1), ("bpm", fun b => b.2)])], attrs, levelName⟩

theorem embA_lookups (a : AChart) (svs : Option (List (Rat × Rat))) (attrs : List (String × String)) (lv : String) :
    (embA a svs attrs lv).lists.lookup "hits" = some (numFrame a.hits [("offset", fun h => h.1), ("column", fun h => (h.2 : Rat))]) ∧
    (embA a svs attrs lv).lists.lookup "holds" = some (numFrame a.holds [("offset", fun h => h.1), ("column", fun h => (h.2.1 : Rat)), ("length", fun h => h.2.2)]) ∧
    (embA a svs attrs lv).lists.lookup "bpms" = some (numFrame a.bpms [("offset", fun b => b.1), ("bpm", fun b => b.2)]) := by
  cases svs <;> simp [embA, List.lookup]

/-- **embedding commutes with abstraction** -/
theorem ofSrcMap_embA (a : AChart) (svs : Option (List (Rat × Rat))) (attrs : List (String × String)) (lv : String) :
    ofSrcMap (embA a svs attrs lv) = a := by
  have e1 : ("column" == "offset") = false := by decide
  have e2 : ("length" == "offset") = false := by decide
  have e3 : ("length" == "column") = false := by decide
  have e4 : ("bpm" == "offset") = false := by decide
  have hh := rows2 a.hits (fun h => h.1) (fun h => (h.2 : Rat)) "offset" "column" e1
  have hl := rows3 a.holds (fun h => h.1) (fun h => (h.2.1 : Rat)) (fun h => h.2.2) "offset" "column" "length" e1 e2 e3
  have hb := rows2 a.bpms (fun b => b.1) (fun b => b.2) "offset" "bpm" e4
  have k1 : keysHits = ["offset", "column"] := rfl
  have k2 : keysHolds = ["offset", "column", "length"] := rfl
  have k3 : keysBpms = ["offset", "bpm"] := rfl
  obtain ⟨l1, l2, l3⟩ := embA_lookups a svs attrs lv
  have dh : (a.hits.map (fun x => [Cell.num x.1, Cell.num (x.2 : Rat)])).filterMap decodeHit = a.hits := by
    rw [List.filterMap_map]
    rw [filterMap_some_map _ _ id (fun x => by simp [decodeHit, Rat.floor_intCast])]
    simp
  have dl : (a.holds.map (fun x => [Cell.num x.1, Cell.num (x.2.1 : Rat), Cell.num x.2.2])).filterMap decodeHold = a.holds := by
    rw [List.filterMap_map]
    rw [filterMap_some_map _ _ id (fun x => by simp [decodeHold, Rat.floor_intCast])]
    simp
  have db : (a.bpms.map (fun x => [Cell.num x.1, Cell.num x.2])).filterMap decodeBpm = a.bpms := by
    rw [List.filterMap_map]
    rw [filterMap_some_map _ _ id (fun x => by simp [decodeBpm])]
    simp
  unfold ofSrcMap
  rw [l1, l2, l3]
  simp only [ofFrames, k1, k2, k3, hh, hl, hb, dh, dl, db]

theorem srcMapOk_embA (a : AChart) (svs : Option (List (Rat × Rat))) (attrs : List (String × String)) (lv : String) :
    srcMapOk (embA a svs attrs lv) = true := by
  obtain ⟨l1, l2, l3⟩ := embA_lookups a svs attrs lv
  unfold srcMapOk
  rw [l1, l2, l3]
  cases svs <;>
    simp [embA, colsOf, Frame.col?, numFrame, keysHits, keysHolds, keysBpms, frameWF, Frame.nrows, rangeIdx, List.lookup]

/-- **every converter without a shift parameter, whole conversion**: each converted chart holds exactly the abstract
chart of its source map (any loop shape, any number of source maps, arbitrary row labels) -/
theorem convert_abstract_eq (T : Tables) (c : Conv) (src : Src) (k : Int) (out : Out)
    (hst : staticOk T c = true) (hns : c.shiftParam = none) (hsrc : ∀ m ∈ src.maps, srcMapOk m = true)
    (h : convert T c src k = .ok out) :
    ∀ p ∈ src.maps.zip out.pairs, ofTChart p.2.2 = ofSrcMap p.1 := by
  have hz := convert_zip_all T c src k out (fun m t => decide (ofTChart t = ofSrcMap m)) hst
    (fun m hm t ht => decide_eq_true (convOne_abstract_eq T c src m k t hst hns (hsrc m hm) ht)) h
  intro p hp
  exact of_decide_eq_true (List.all_eq_true.mp hz p hp)

end Reamber.Pipeline
