/-
Glue definitions between the reader model (`Model/SM.lean`) and the StepMania denotation (`Spec/SM.lean`),
shared by the C02 / C03 lemma files.  Core Lean only.
-/
import Reamber.Model.SM
import Reamber.Spec.SM

namespace Reamber.SM

open Reamber.Timing

/-- absolute beat count of a position, 4 beats per measure -/
def absBeat (s : Snap) : Rat := 4 * (s.measure : Rat) + s.beat

/-- the reader's visits seen through the StepMania symbol table: (column, absolute beat, symbol) -/
def specEventsOf (evs : List Ev) : List (Nat × Rat × Sym) :=
  evs.filterMap fun e => (symOf e.ch).map fun s => (e.col, absBeat e.pos, s)

def longNotes (k : Kind) (l : List PLong) : List DNote :=
  l.filterMap fun p => p.tail.map fun t => ⟨k, p.col, absBeat p.head, some (absBeat t)⟩

/-- what the reader's final loop state denotes: taps, closed holds, closed rolls -/
def modelNotes (st : PState) : List DNote :=
  st.taps.map (fun p => ⟨p.kind, p.col, absBeat p.pos, none⟩) ++ longNotes .hold st.holds ++ longNotes .roll st.rolls

end Reamber.SM
