/-
C03 — the slot fill of `SMMap.write`: `lines[note.num][note.column] = note.char` over a `den_max × keys` grid of '0'.
"Last write wins per cell": after the loop every cell holds the character of the last object written there, every
other cell is still '0', and the grid keeps its shape.  Core Lean only.
-/
import Reamber.Lemmas.SMDefs

namespace Reamber.SM

open Reamber.Timing

/-- the character at (row, column); '0' outside the grid -/
def cellAt (G : List (List Char)) (r c : Nat) : Char := (G.getD r []).getD c '0'

/-- `n` rows of `k` characters -/
def Rect (G : List (List Char)) (n k : Nat) : Prop := G.length = n ∧ ∀ row ∈ G, row.length = k

theorem rect_blank (n k : Nat) : Rect (List.replicate n (List.replicate k '0')) n k := by
  refine ⟨by simp, ?_⟩
  intro row hrow
  rw [List.mem_replicate] at hrow
  rw [hrow.2]; simp

theorem cellAt_blank (n k r c : Nat) : cellAt (List.replicate n (List.replicate k '0')) r c = '0' := by
  unfold cellAt
  by_cases hr : r < n
  · have : (List.replicate n (List.replicate k '0')).getD r [] = List.replicate k '0' := by
      simp [List.getD_eq_getElem?_getD, List.getElem?_replicate, hr]
    rw [this]
    by_cases hc : c < k
    · simp [List.getD_eq_getElem?_getD, List.getElem?_replicate, hc]
    · simp [List.getD_eq_getElem?_getD, List.getElem?_replicate, hc]
  · have : (List.replicate n (List.replicate k '0')).getD r [] = [] := by
      simp [List.getD_eq_getElem?_getD, List.getElem?_replicate, hr]
    rw [this]; simp

/-- one assignment `lines[r][c] = ch` inside the grid -/
theorem setCell_spec (G : List (List Char)) (n k r c : Nat) (ch : Char) (hG : Rect G n k) (hr : r < n) (hc : c < k) :
    ∃ G', setCell G r c ch = .ok G' ∧ Rect G' n k ∧ cellAt G' r c = ch ∧
      ∀ r' c', (r' ≠ r ∨ c' ≠ c) → cellAt G' r' c' = cellAt G r' c' := by
  obtain ⟨hlen, hrows⟩ := hG
  have hrl : r < G.length := by omega
  have hrow : (G[r]).length = k := hrows _ (List.getElem_mem hrl)
  refine ⟨G.set r ((G[r]).set c ch), ?_, ?_, ?_, ?_⟩
  · unfold setCell
    simp [List.getElem?_eq_getElem hrl, hrow, hc]
  · refine ⟨by simp [hlen], ?_⟩
    intro row hmem
    rcases List.mem_or_eq_of_mem_set hmem with h | h
    · exact hrows row h
    · rw [h]; simp [hrow]
  · unfold cellAt
    simp [List.getD_eq_getElem?_getD, hrl, hrow, hc]
  · intro r' c' hne
    unfold cellAt
    by_cases hrr : r' = r
    · subst hrr
      have hcc : c' ≠ c := by
        rcases hne with h | h
        · exact absurd rfl h
        · exact h
      simp [List.getD_eq_getElem?_getD, hrl, List.getElem?_set, Ne.symm hcc]
    · simp [List.getD_eq_getElem?_getD, List.getElem?_set, Ne.symm hrr]

/-- the loop over the objects of a measure, as (row, column, character) triples -/
def fillCells (G : List (List Char)) (cells : List (Nat × Nat × Char)) : Except Err (List (List Char)) :=
  foldlE (fun grid e => setCell grid e.1 e.2.1 e.2.2) G cells

/-- the character the loop leaves at (r, c): the last object written there, if any -/
def lastAt (cells : List (Nat × Nat × Char)) (r c : Nat) : Option Char :=
  (cells.reverse.find? (fun e => e.1 == r && e.2.1 == c)).map (fun e => e.2.2)

theorem lastAt_cons (e : Nat × Nat × Char) (t : List (Nat × Nat × Char)) (r c : Nat) :
    lastAt (e :: t) r c =
      match lastAt t r c with
      | some x => some x
      | none => if e.1 = r ∧ e.2.1 = c then some e.2.2 else none := by
  unfold lastAt
  rw [List.reverse_cons, List.find?_append]
  cases h : t.reverse.find? (fun e => e.1 == r && e.2.1 == c) with
  | some x => simp
  | none =>
    simp only [Option.map_none, Option.none_or, List.find?_cons, List.find?_nil]
    by_cases hm : e.1 = r ∧ e.2.1 = c
    · simp [hm.1, hm.2]
    · have : (e.1 == r && e.2.1 == c) = false := by
        rw [Bool.and_eq_false_iff]
        by_cases h1 : e.1 = r
        · right; simpa using fun h2 => hm ⟨h1, h2⟩
        · left; simpa using h1
      simp [this, hm]

/-- **Last write wins per cell.**  Starting from a rectangular grid, writing any list of objects whose rows and
columns are inside the grid succeeds, keeps the shape, and leaves in every cell the character of the last object
written there — or the old character if no object was written there. -/
theorem fillCells_spec (n k : Nat) : ∀ (cells : List (Nat × Nat × Char)) (G : List (List Char)), Rect G n k →
    (∀ e ∈ cells, e.1 < n ∧ e.2.1 < k) →
    ∃ G', fillCells G cells = .ok G' ∧ Rect G' n k ∧
      ∀ r c, cellAt G' r c = (lastAt cells r c).getD (cellAt G r c) := by
  intro cells
  induction cells with
  | nil =>
    intro G hG _
    exact ⟨G, rfl, hG, fun r c => by simp [lastAt]⟩
  | cons e t ih =>
    intro G hG hin
    obtain ⟨her, hec⟩ := hin e (by simp)
    obtain ⟨G1, h1, hR1, hset, hoth⟩ := setCell_spec G n k e.1 e.2.1 e.2.2 hG her hec
    obtain ⟨G2, h2, hR2, hc2⟩ := ih G1 hR1 (fun x hx => hin x (List.mem_cons_of_mem _ hx))
    refine ⟨G2, ?_, hR2, ?_⟩
    · unfold fillCells at h2 ⊢
      simp only [foldlE, h1]
      exact h2
    · intro r c
      rw [hc2 r c, lastAt_cons]
      cases hl : lastAt t r c with
      | some x => simp
      | none =>
        simp only [Option.getD_none]
        by_cases h : e.1 = r ∧ e.2.1 = c
        · simp only [h, and_self, if_true, Option.getD_some]
          rw [← h.1, ← h.2]; exact hset
        · simp only [h, if_false, Option.getD_none]
          exact hoth r c (by
            by_cases h1 : r = e.1
            · right; intro h2; exact h ⟨h1.symm, h2.symm⟩
            · left; exact h1)

/-- the triple `SMMap.write` assigns for one object of a measure with `dmax` rows -/
def cellOf (dmax : Nat) (s : Slot) : Nat × Nat × Char := (rowOf s.num s.den dmax, s.col, s.ch)

theorem fillMeasure_eq_fillCells (keys : Nat) (g : List Slot) :
    fillMeasure keys g =
      fillCells (List.replicate (denMax (g.map (·.den))) (List.replicate keys '0'))
        (g.map (cellOf (denMax (g.map (·.den))))) := by
  unfold fillMeasure fillCells
  simp only []
  generalize List.replicate (denMax (g.map (·.den))) (List.replicate keys '0') = G
  generalize denMax (g.map (·.den)) = d
  induction g generalizing G with
  | nil => rfl
  | cons s t ih =>
    simp only [List.map_cons, foldlE, cellOf]
    cases setCell G (rowOf s.num s.den d) s.col s.ch with
    | error e => rfl
    | ok G1 => exact ih G1

/-- **The measure written by `SMMap.write`**: for objects whose rows and columns are inside the grid (rows always are
when `num < den`, `row_in_range`), `fillMeasure` succeeds with a `den_max × keys` grid whose cell (r, c) holds the
character of the last object with that row and column, and '0' where there is none. -/
theorem fillMeasure_spec (keys : Nat) (g : List Slot)
    (hin : ∀ s ∈ g, rowOf s.num s.den (denMax (g.map (·.den))) < denMax (g.map (·.den)) ∧ s.col < keys) :
    ∃ G, fillMeasure keys g = .ok G ∧ Rect G (denMax (g.map (·.den))) keys ∧
      ∀ r c, cellAt G r c = (lastAt (g.map (cellOf (denMax (g.map (·.den))))) r c).getD '0' := by
  rw [fillMeasure_eq_fillCells]
  obtain ⟨G, h1, h2, h3⟩ := fillCells_spec (denMax (g.map (·.den))) keys (g.map (cellOf (denMax (g.map (·.den)))))
    _ (rect_blank _ _) (by
      intro e he
      obtain ⟨s, hs, rfl⟩ := List.mem_map.mp he
      exact hin s hs)
  refine ⟨G, h1, h2, ?_⟩
  intro r c
  rw [h3 r c, cellAt_blank]

/-- no two objects in one (row, column): every object's character is in its cell -/
theorem fillMeasure_no_collision (keys : Nat) (g : List Slot)
    (hin : ∀ s ∈ g, rowOf s.num s.den (denMax (g.map (·.den))) < denMax (g.map (·.den)) ∧ s.col < keys)
    (hnc : (g.map (fun s => ((cellOf (denMax (g.map (·.den))) s).1, (cellOf (denMax (g.map (·.den))) s).2.1))).Nodup) :
    ∃ G, fillMeasure keys g = .ok G ∧ Rect G (denMax (g.map (·.den))) keys ∧
      (∀ s ∈ g, cellAt G (rowOf s.num s.den (denMax (g.map (·.den)))) s.col = s.ch) ∧
      (∀ r c, (∀ s ∈ g, ¬ (rowOf s.num s.den (denMax (g.map (·.den))) = r ∧ s.col = c)) → cellAt G r c = '0') := by
  obtain ⟨G, h1, h2, h3⟩ := fillMeasure_spec keys g hin
  generalize hd : denMax (g.map (·.den)) = d at *
  refine ⟨G, h1, h2, ?_, ?_⟩
  · intro s hs
    rw [h3]
    -- the last triple at this cell is the only one
    have key : ∀ (l : List Slot), (l.map (fun s => ((cellOf d s).1, (cellOf d s).2.1))).Nodup → ∀ s ∈ l,
        lastAt (l.map (cellOf d)) (rowOf s.num s.den d) s.col = some s.ch := by
      intro l
      induction l with
      | nil => intro _ s hs; cases hs
      | cons x t ih =>
        intro hnd s hs
        rw [List.map_cons, List.nodup_cons] at hnd
        obtain ⟨hx, ht⟩ := hnd
        rw [List.map_cons, lastAt_cons]
        rcases List.mem_cons.mp hs with rfl | hst
        · -- no later object shares this cell
          have hnone : lastAt (t.map (cellOf d)) (rowOf s.num s.den d) s.col = none := by
            unfold lastAt
            rw [Option.map_eq_none_iff, List.find?_eq_none]
            intro e he
            rw [List.mem_reverse] at he
            obtain ⟨y, hy, rfl⟩ := List.mem_map.mp he
            intro hm
            simp only [cellOf, Bool.and_eq_true, beq_iff_eq] at hm
            apply hx
            refine List.mem_map.mpr ⟨y, hy, ?_⟩
            simp only [cellOf]
            rw [hm.1, hm.2]
          rw [hnone]
          simp [cellOf]
        · rw [ih ht s hst]
    rw [key g hnc s hs]; rfl
  · intro r c hno
    rw [h3]
    have : lastAt (g.map (cellOf d)) r c = none := by
      unfold lastAt
      rw [Option.map_eq_none_iff, List.find?_eq_none]
      intro e he
      rw [List.mem_reverse] at he
      obtain ⟨s, hs, rfl⟩ := List.mem_map.mp he
      have := hno s hs
      simp only [cellOf, Bool.and_eq_true, beq_iff_eq]
      exact this
    rw [this]; rfl

end Reamber.SM
