/-
C15 helper lemmas, part 4: the StepMania writer.  `TimingMap.beats` on a tempo list in ANY row order is the pointwise
beat position (C10: the stored list is sorted before use; the query results are un-permuted), so everything the writer
derives from it per object / per tempo row is a `map` over the rows.
-/
import Reamber.Props.C03

namespace Reamber.PermInv

open Reamber.Timing Reamber.SM

/-- **beats, any order of the tempo rows**: C10's `beats_run_exact` for a permutation of the stored list -/
theorem beats_any_order (g : Array Rat) (hg : GridOK g) (t0 : Rat) (cs : List BcSnap)
    (hwf : wfChanges cs = true) (hs : sortedSnaps cs = true) (h0 : firstAtZero cs = true)
    (hgc : gridCompatible g.toList cs = true) (hm : metronomeOk cs = true)
    (M : Rat) (hM : ∀ c ∈ cs, c.met = M) (tm' : List BcOff) (hp : (tmOf t0 cs).Perm tm')
    (hd : DistinctOffsets (tmOf t0 cs)) (ts : List Rat) (hts : ∀ t ∈ ts, OnGridAt g.toList t0 cs t) :
    beats g tm' ts = .ok (ts.map (beatAt t0 cs)) := by
  obtain ⟨_, h2, h3, _⟩ := timing_queries_perm_invariant g hp hd
  have : beats g tm' ts = beats g (tmOf t0 cs) ts := by
    unfold beats
    simp only [h2, h3]
  rw [this]
  exact beats_run_exact g hg t0 cs hwf hs h0 hgc hm M hM ts hts

theorem writeOrder_perm {ns ns' : List Note} (h : ns.Perm ns') : (writeOrder ns).Perm (writeOrder ns') := by
  unfold writeOrder
  simp only
  repeat' apply List.Perm.append
  all_goals exact (h.filter _).map _

theorem zip_map_self {α β γ} (f : α → β) (g : β × α → γ) (l : List α) :
    ((l.map f).zip l).map g = l.map fun x => g (f x, x) := by
  induction l with
  | nil => rfl
  | cons a t ih => simp [ih]

theorem zip_self_map {α β γ} (f : α → β) (g : α × β → γ) (l : List α) :
    (l.zip (l.map f)).map g = l.map fun x => g (x, f x) := by
  induction l with
  | nil => rfl
  | cons a t ih => simp [ih]

end Reamber.PermInv
