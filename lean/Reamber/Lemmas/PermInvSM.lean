/-
C15 helper lemmas, part 4: the StepMania writer.  `TimingMap.beats` on a tempo list in ANY row order is the pointwise
beat position (C10: the stored list is sorted before use; the query results are un-permuted), so everything the writer
derives from it per object / per tempo row is a `map` over the rows.
-/
import Reamber.Props.C03

namespace Reamber.PermInv

open Reamber.Timing Reamber.SM

/-- **beats, any order of the tempo rows**: C10's `beats_run_exact` for a permutation of the stored list -/
theorem beats_any_order (g : Array Rat) (hg : GridOK g) (t0 : Rat) (cs : List BcSnap)
    (hwf : wfChanges cs = true) (hs : sortedSnaps cs = true) (h0 : firstAtZero cs = true)
    (hgc : gridCompatible g.toList cs = true) (hm : metronomeOk cs = true)
    (M : Rat) (hM : ∀ c ∈ cs, c.met = M) (tm' : List BcOff) (hp : (tmOf t0 cs).Perm tm')
    (hd : DistinctOffsets (tmOf t0 cs)) (ts : List Rat) (hts : ∀ t ∈ ts, OnGridAt g.toList t0 cs t) :
    beats g tm' ts = .ok (ts.map (beatAt t0 cs)) := by
  obtain ⟨_, h2, h3, _⟩ := timing_queries_perm_invariant g hp hd
  have : beats g tm' ts = beats g (tmOf t0 cs) ts := by
    unfold beats
    simp only [h2, h3]
  rw [this]
  exact beats_run_exact g hg t0 cs hwf hs h0 hgc hm M hM ts hts

theorem writeOrder_perm {ns ns' : List Note} (h : ns.Perm ns') : (writeOrder ns).Perm (writeOrder ns') := by
  unfold writeOrder
  simp only
  repeat' apply List.Perm.append
  all_goals exact (h.filter _).map _

theorem zip_map_self {α β γ} (f : α → β) (g : β × α → γ) (l : List α) :
    ((l.map f).zip l).map g = l.map fun x => g (f x, x) := by
  induction l with
  | nil => rfl
  | cons a t ih => simp [ih]

theorem zip_self_map {α β γ} (f : α → β) (g : α × β → γ) (l : List α) :
    (l.zip (l.map f)).map g = l.map fun x => g (x, f x) := by
  induction l with
  | nil => rfl
  | cons a t ih => simp [ih]


/-! ### rendering a measure does not depend on the order of its slots -/


open Reamber.Timing Reamber.SM

theorem rect_ext {G G' : List (List Char)} {n k : Nat} (h : Rect G n k) (h' : Rect G' n k)
    (hc : ∀ r c, r < n → c < k → cellAt G r c = cellAt G' r c) : G = G' := by
  apply List.ext_getElem
  · rw [h.1, h'.1]
  · intro r h1 h2
    have hr : r < n := by rw [← h.1]; exact h1
    have l1 : G[r].length = k := h.2 _ (List.getElem_mem h1)
    have l2 : G'[r].length = k := h'.2 _ (List.getElem_mem h2)
    apply List.ext_getElem
    · rw [l1, l2]
    · intro c hc1 hc2
      have hck : c < k := by rw [← l1]; exact hc1
      have := hc r c hr hck
      simp only [cellAt, List.getD_eq_getElem?_getD, List.getElem?_eq_getElem h1, List.getElem?_eq_getElem h2,
        Option.getD_some, List.getElem?_eq_getElem hc1, List.getElem?_eq_getElem hc2] at this
      exact this

theorem lcm_right_comm (a b c : Nat) : Nat.lcm (Nat.lcm a b) c = Nat.lcm (Nat.lcm a c) b := by
  rw [Nat.lcm_assoc, Nat.lcm_comm b c, ← Nat.lcm_assoc]

theorem foldl_lcm_perm {l l' : List Nat} (h : l.Perm l') (a : Nat) : l.foldl Nat.lcm a = l'.foldl Nat.lcm a := by
  induction h generalizing a with
  | nil => rfl
  | cons x _ ih => simp only [List.foldl_cons]; exact ih _
  | swap x y l => simp only [List.foldl_cons]; rw [lcm_right_comm]
  | trans _ _ ih1 ih2 => exact (ih1 a).trans (ih2 a)

/-- the row count of a measure whose lcm fits the cap: the plain lcm of the denominators -/
theorem denMax_eq_lcm (l : List Nat) (hne : l ≠ []) (hpos : ∀ x ∈ l, 0 < x) (hfit : l.foldl Nat.lcm 1 ≤ maxSnap) :
    denMax l = l.foldl Nat.lcm 1 := by
  cases l with
  | nil => exact absurd rfl hne
  | cons d t =>
    have e1 : (d :: t).foldl Nat.lcm 1 = t.foldl Nat.lcm d := by simp [Nat.lcm_one_left]
    rw [e1] at hfit ⊢
    have hd : 0 < d := hpos d (by simp)
    have ht : ∀ x ∈ t, 0 < x := fun x hx => hpos x (List.mem_cons_of_mem _ hx)
    simp only [denMax, C03.foldl_capLcm_eq d t hd ht hfit]
    exact Nat.min_eq_left hfit

theorem denMax_perm {l l' : List Nat} (h : l.Perm l') (hpos : ∀ x ∈ l, 0 < x) (hfit : l.foldl Nat.lcm 1 ≤ maxSnap) :
    denMax l = denMax l' := by
  by_cases hne : l = []
  · subst hne; rw [List.Perm.nil_eq h]
  · have hne' : l' ≠ [] := fun e => hne (by subst e; exact List.Perm.eq_nil h)
    rw [denMax_eq_lcm l hne hpos hfit,
      denMax_eq_lcm l' hne' (fun x hx => hpos x (h.mem_iff.mpr hx)) (by rw [← foldl_lcm_perm h]; exact hfit),
      foldl_lcm_perm h]

/-- what the property's quantifier grants for the objects of one measure: the lcm of the denominators fits the cap
(no row is rounded), every object lies inside the grid, no two objects share a cell -/
structure MeasureOk (keys : Nat) (g : List Slot) : Prop where
  pos : ∀ s ∈ g, 0 < s.den
  fit : (g.map (·.den)).foldl Nat.lcm 1 ≤ maxSnap
  inside : ∀ s ∈ g, rowOf s.num s.den (denMax (g.map (·.den))) < denMax (g.map (·.den)) ∧ s.col < keys
  nocoll : (g.map (fun s => ((cellOf (denMax (g.map (·.den))) s).1, (cellOf (denMax (g.map (·.den))) s).2.1))).Nodup

/-- **a measure's grid is a function of the SET of its cells** -/
theorem fillMeasure_perm (keys : Nat) {g g' : List Slot} (hp : g.Perm g') (hok : MeasureOk keys g) :
    fillMeasure keys g = fillMeasure keys g' := by
  have hd : denMax (g.map (·.den)) = denMax (g'.map (·.den)) :=
    denMax_perm (hp.map _) (by
      intro x hx; obtain ⟨s, hs, rfl⟩ := List.mem_map.mp hx; exact hok.pos s hs) hok.fit
  have hin' : ∀ s ∈ g', rowOf s.num s.den (denMax (g'.map (·.den))) < denMax (g'.map (·.den)) ∧ s.col < keys := by
    intro s hs; rw [← hd]; exact hok.inside s (hp.mem_iff.mpr hs)
  have hnc' : (g'.map (fun s => ((cellOf (denMax (g'.map (·.den))) s).1,
      (cellOf (denMax (g'.map (·.den))) s).2.1))).Nodup := by
    rw [← hd]; exact (hp.map _).nodup_iff.mp hok.nocoll
  obtain ⟨G, e, R, a1, a2⟩ := C03.cells_no_collision keys g hok.inside hok.nocoll
  obtain ⟨G', e', R', b1, b2⟩ := C03.cells_no_collision keys g' hin' hnc'
  rw [e, e']
  congr 1
  rw [← hd] at R' b1 b2
  apply rect_ext R R'
  intro r c _ _
  by_cases hex : ∃ s ∈ g, rowOf s.num s.den (denMax (g.map (·.den))) = r ∧ s.col = c
  · obtain ⟨s, hs, hr, hc⟩ := hex
    rw [← hr, ← hc, a1 s hs, b1 s (hp.mem_iff.mp hs)]
  · have hno : ∀ s ∈ g, ¬ (rowOf s.num s.den (denMax (g.map (·.den))) = r ∧ s.col = c) :=
      fun s hs hh => hex ⟨s, hs, hh⟩
    rw [a2 r c hno, b2 r c (fun s hs => hno s (hp.mem_iff.mpr hs))]

theorem writeLoop_perm (keys : Nat) {slots slots' : List Slot} (hp : slots.Perm slots')
    (hok : ∀ m : Int, MeasureOk keys (slots.filter (fun s => s.measure = m))) :
    ∀ (ms : List Int) (prev : Int), writeLoop keys slots prev ms = writeLoop keys slots' prev ms := by
  intro ms
  induction ms with
  | nil => intro prev; rfl
  | cons m rest ih =>
    intro prev
    simp only [writeLoop, fillMeasure_perm keys (hp.filter _) (hok m), ih m]

theorem measuresSorted_perm {slots slots' : List Slot} (hp : slots.Perm slots') :
    measuresSorted slots = measuresSorted slots' := by
  unfold measuresSorted
  congr 1
  apply Timing.isort_eq_of_perm
  · exact ⟨fun a b => by simp only [decide_eq_true_eq]; omega, fun a b c => by simp only [decide_eq_true_eq]; omega⟩
  · intro a b h1 h2
    simp only [decide_eq_true_eq] at h1 h2
    omega
  · exact hp.map _

end Reamber.PermInv
