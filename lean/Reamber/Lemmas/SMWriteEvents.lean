/-
C03 — the text of a written chart holds exactly the events of its objects: reading the measures `SMMap.write` emits
row by row (`events`) yields an event `(column, beat, symbol)` iff the chart has an object event with that column,
beat and symbol — when no two object events share a (column, beat), every object's denominator divides its
measure's row count and columns are inside the key count.
-/
import Reamber.Lemmas.SMEvents
import Reamber.Lemmas.SMWriteRows
import Reamber.Lemmas.SMSlot
import Mathlib.Data.List.Nodup

namespace Reamber.SM

open Reamber.Timing

/-- the character `SMMap.write` uses for a symbol -/
def charOfSym : Sym → Char
  | .tap .mine => 'M'
  | .tap .lift => 'L'
  | .tap .fake => 'F'
  | .tap .keysound => 'K'
  | .tap _ => '1'
  | .head .roll => '4'
  | .head _ => '2'
  | .tail => '3'

/-- the symbols the writer emits -/
def ValidSym (s : Sym) : Prop := symOf (charOfSym s) = some s

/-- the slot of an object event (column, beat, symbol) -/
def slotOfEv (e : SEv) : Slot := slotOf e.2.1 e.1 (charOfSym e.2.2)

theorem slotOf_measure_nonneg (beat : Rat) (col : Nat) (ch : Char) (h : 0 ≤ beat) : 0 ≤ (slotOf beat col ch).measure := by
  show (0 : Int) ≤ (beat / ((metronome : Nat) : Rat)).floor
  apply Rat.le_floor_iff.mpr
  simp only [metronome]
  have : (0 : Rat) ≤ beat / 4 := div_nonneg h (by norm_num)
  simpa using this

theorem slotOf_num_lt (beat : Rat) (col : Nat) (ch : Char) :
    (slotOf beat col ch).num < (slotOf beat col ch).den ∧ 0 < (slotOf beat col ch).den := by
  unfold slotOf
  simp only [metronome]
  have hq := beat.den_pos
  have hpos : (0 : Int) < ((beat.den * 4 : Nat) : Int) := by
    have : 0 < beat.den * 4 := by omega
    exact_mod_cast this
  have h1 := Int.emod_nonneg beat.num (ne_of_gt hpos)
  have h2 := Int.emod_lt_of_pos beat.num hpos
  refine ⟨?_, by omega⟩
  omega

theorem capLcm_pos {x y : Nat} (hx : 0 < x) (hy : 0 < y) : 0 < capLcm x y := by
  unfold capLcm
  exact Nat.lt_min.mpr ⟨Nat.lcm_pos hx hy, by decide⟩

theorem foldl_capLcm_pos : ∀ (t : List Nat) (d : Nat), 0 < d → (∀ x ∈ t, 0 < x) → 0 < t.foldl capLcm d := by
  intro t
  induction t with
  | nil => intro d hd _; exact hd
  | cons x t ih =>
    intro d hd ht
    exact ih _ (capLcm_pos hd (ht x (by simp))) (fun y hy => ht y (List.mem_cons_of_mem _ hy))

theorem denMax_pos (dens : List Nat) (hne : dens ≠ []) (h : ∀ x ∈ dens, 0 < x) : 0 < denMax dens := by
  cases dens with
  | nil => exact absurd rfl hne
  | cons d t =>
    simp only [denMax]
    exact Nat.lt_min.mpr ⟨foldl_capLcm_pos t d (h d (by simp)) (fun x hx => h x (List.mem_cons_of_mem _ hx)), by decide⟩

theorem rowOf_lt (num den dmax : Nat) (hnum : num < den) (hd : 0 < dmax) : rowOf num den dmax < dmax := by
  unfold rowOf
  apply Nat.div_lt_of_lt_mul
  calc num * dmax < den * dmax := Nat.mul_lt_mul_of_pos_right hnum hd
    _ = den * dmax := rfl

theorem ascAbove_le_last : ∀ (ms : List Int) (prev : Int), AscAbove prev ms → ∀ x ∈ ms, x ≤ ms.getLast?.getD prev := by
  intro ms
  induction ms with
  | nil => intro _ _ x hx; cases hx
  | cons m t ih =>
    intro prev h x hx
    cases t with
    | nil =>
      simp only [List.mem_singleton] at hx
      subst hx; simp
    | cons a r =>
      rw [List.getLast?_cons_cons]
      have hl := ih m h.2
      have hg : (a :: r).getLast?.getD m = (a :: r).getLast?.getD prev := by
        cases hgl : (a :: r).getLast? with
        | none => simp at hgl
        | some v => simp
      rcases List.mem_cons.mp hx with rfl | hx
      · have := hl a (by simp)
        have h2 := h.2.1
        rw [← hg]; omega
      · rw [← hg]; exact hl x hx

theorem cellAt_of_get {G : List (List Char)} {r c : Nat} {row : Str} {ch : Char}
    (h1 : G[r]? = some row) (h2 : row[c]? = some ch) : cellAt G r c = ch := by
  unfold cellAt
  simp [List.getD_eq_getElem?_getD, h1, h2]

theorem get_of_rect {G : List (List Char)} {n k r c : Nat} (hG : Rect G n k) (hr : r < n) (hc : c < k) :
    ∃ row, G[r]? = some row ∧ row[c]? = some (cellAt G r c) := by
  obtain ⟨hlen, hrows⟩ := hG
  have hrl : r < G.length := by omega
  have hrow : (G[r]).length = k := hrows _ (List.getElem_mem hrl)
  refine ⟨G[r], List.getElem?_eq_getElem hrl, ?_⟩
  have hcl : c < (G[r]).length := by omega
  unfold cellAt
  simp [List.getD_eq_getElem?_getD, List.getElem?_eq_getElem hrl, List.getElem?_eq_getElem hcl]

theorem symOf_zero : symOf '0' = none := by decide

/-- the hypotheses on the object events of one chart -/
structure EventsOK (keys : Nat) (E : List SEv) : Prop where
  valid : ∀ e ∈ E, ValidSym e.2.2
  beat_nonneg : ∀ e ∈ E, 0 ≤ e.2.1
  col_lt : ∀ e ∈ E, e.1 < keys
  no_collision : (E.map (fun e => (e.1, e.2.1))).Nodup
  exact_rows : ∀ s ∈ E.map slotOfEv,
    s.den ∣ denMax (((E.map slotOfEv).filter (fun t => t.measure = s.measure)).map (·.den))

theorem slotOfEv_beat (e : SEv) (dmax : Nat) (hpos : 0 < dmax) (hd : (slotOfEv e).den ∣ dmax) :
    4 * ((slotOfEv e).measure : Rat) +
      4 * ((rowOf (slotOfEv e).num (slotOfEv e).den dmax : Nat) : Rat) / (dmax : Rat) = e.2.1 :=
  slot_beat_exact e.2.1 e.1 (charOfSym e.2.2) dmax hpos hd

/-- the objects of measure `m` and the grid written for them -/
theorem measure_grid (keys : Nat) (E : List SEv) (hE : EventsOK keys E) (m : Int)
    (hm : ∃ s ∈ E.map slotOfEv, s.measure = m) :
    let g := (E.map slotOfEv).filter (fun t => t.measure = m)
    let d := denMax (g.map (·.den))
    0 < d ∧ ∃ G, fillMeasure keys g = .ok G ∧ Rect G d keys ∧
      (∀ s ∈ g, cellAt G (rowOf s.num s.den d) s.col = s.ch) ∧
      (∀ r c, (∀ s ∈ g, ¬ (rowOf s.num s.den d = r ∧ s.col = c)) → cellAt G r c = '0') := by
  intro g d
  obtain ⟨s0, hs0, hs0m⟩ := hm
  have hs0g : s0 ∈ g := List.mem_filter.mpr ⟨hs0, by simpa using hs0m⟩
  have hdpos : 0 < d := by
    apply denMax_pos
    · intro h
      have : s0.den ∈ g.map (·.den) := List.mem_map.mpr ⟨s0, hs0g, rfl⟩
      rw [h] at this; cases this
    · intro x hx
      obtain ⟨s, hs, rfl⟩ := List.mem_map.mp hx
      obtain ⟨e, _, rfl⟩ := List.mem_map.mp (List.mem_filter.mp hs).1
      exact (slotOf_num_lt _ _ _).2
  have hgmem : ∀ s ∈ g, ∃ e ∈ E, slotOfEv e = s ∧ s.measure = m ∧ s.den ∣ d := by
    intro s hs
    obtain ⟨hsS, hsm⟩ := List.mem_filter.mp hs
    have hsm' : s.measure = m := by simpa using hsm
    obtain ⟨e, he, rfl⟩ := List.mem_map.mp hsS
    refine ⟨e, he, rfl, hsm', ?_⟩
    have := hE.exact_rows _ hsS
    rw [hsm'] at this
    exact this
  have hin : ∀ s ∈ g, rowOf s.num s.den d < d ∧ s.col < keys := by
    intro s hs
    obtain ⟨e, he, rfl, _, _⟩ := hgmem s hs
    exact ⟨rowOf_lt _ _ _ (slotOf_num_lt _ _ _).1 hdpos, hE.col_lt e he⟩
  have hnc : (g.map (fun s => ((cellOf d s).1, (cellOf d s).2.1))).Nodup := by
    have hgE : g = (E.filter (fun e => decide ((slotOfEv e).measure = m))).map slotOfEv := by
      simp only [g, List.filter_map]
      rfl
    rw [hgE, List.map_map]
    have hEnd : E.Nodup := List.Nodup.of_map _ hE.no_collision
    apply List.Nodup.map_on _ (hEnd.filter _)
    intro x hx y hy hxy
    have hxE := (List.mem_filter.mp hx).1
    have hyE := (List.mem_filter.mp hy).1
    have hxm : (slotOfEv x).measure = m := by simpa using (List.mem_filter.mp hx).2
    have hym : (slotOfEv y).measure = m := by simpa using (List.mem_filter.mp hy).2
    have hxg : slotOfEv x ∈ g := List.mem_filter.mpr ⟨List.mem_map.mpr ⟨x, hxE, rfl⟩, by simpa using hxm⟩
    have hyg : slotOfEv y ∈ g := List.mem_filter.mpr ⟨List.mem_map.mpr ⟨y, hyE, rfl⟩, by simpa using hym⟩
    obtain ⟨_, _, _, _, hdx⟩ := hgmem _ hxg
    obtain ⟨_, _, _, _, hdy⟩ := hgmem _ hyg
    simp only [Function.comp, cellOf, Prod.mk.injEq] at hxy
    have hbx := slotOfEv_beat x d hdpos hdx
    have hby := slotOfEv_beat y d hdpos hdy
    rw [hxm, hxy.1] at hbx
    rw [hym] at hby
    have hbeat : x.2.1 = y.2.1 := by rw [← hbx, ← hby]
    have hcol : x.1 = y.1 := hxy.2
    exact List.inj_on_of_nodup_map hE.no_collision hxE hyE (by simp [hcol, hbeat])
  obtain ⟨G, h1, h2, h3, h4⟩ := fillMeasure_no_collision keys g hin hnc
  exact ⟨hdpos, G, h1, h2, h3, h4⟩

/-- **The written chart holds exactly the events of its objects.**  `ms` are the (strictly ascending, non-negative)
measure numbers that hold an object; `out` is what `SMMap.write`'s loop emits for the slots of the object events `E`.
Reading `out` by the StepMania rules gives an event `(c, b, s)` iff `(c, b, s)` is one of the object events. -/
theorem written_events (keys : Nat) (E : List SEv) (hE : EventsOK keys E) (ms : List Int) (out : List (List Str))
    (hasc : AscAbove (-1) ms) (hmem : ∀ m, m ∈ ms ↔ ∃ s ∈ E.map slotOfEv, s.measure = m)
    (hw : writeLoop keys (E.map slotOfEv) (-1) ms = .ok out) :
    ∀ c b sym, (c, b, sym) ∈ events out ↔ (c, b, sym) ∈ E := by
  obtain ⟨hlen, hidx⟩ := writeLoop_index keys (E.map slotOfEv) ms (-1) out hasc hw
  have hpad : ∀ row ∈ paddingMeasure, ∀ (c : Nat) (ch : Char), row[c]? = some ch → ch = '0' := by
    intro row hrow c ch hch
    simp only [paddingMeasure, List.mem_replicate] at hrow
    rw [hrow.2] at hch
    have := List.mem_of_getElem? hch
    simpa using this
  intro c b sym
  constructor
  · intro hev
    obtain ⟨i, rows, r, row, ch, hi, hr, hc, hs, rfl⟩ := (mem_events out c _ sym).mp hev
    have hil : i < out.length := (List.getElem?_eq_some_iff.mp hi).1
    have hrows : out[i] = rows := (List.getElem?_eq_some_iff.mp hi).2
    have hneg : (-1 : Int) + 1 + (i : Int) = (i : Int) := by omega
    obtain ⟨hfill, hpadc⟩ := hidx i hil
    rw [hneg] at hfill hpadc
    by_cases him : (i : Int) ∈ ms
    · obtain ⟨hdpos, G, hG, hrect, hcell, hzero⟩ := measure_grid keys E hE (i : Int) ((hmem _).mp him)
      have hGeq : G = rows := by
        have := hfill him
        rw [hG] at this
        rw [← hrows]; exact Except.ok.inj this
      subst hGeq
      have hcellv : cellAt G r c = ch := cellAt_of_get hr hc
      by_cases hex : ∃ s ∈ (E.map slotOfEv).filter (fun t => t.measure = (i : Int)),
          rowOf s.num s.den (denMax (((E.map slotOfEv).filter (fun t => t.measure = (i : Int))).map (·.den))) = r ∧ s.col = c
      · obtain ⟨s, hsg, hsr, hsc⟩ := hex
        have hch : ch = s.ch := by rw [← hcellv, ← hsr, ← hsc]; exact hcell s hsg
        obtain ⟨hsS, hsm⟩ := List.mem_filter.mp hsg
        have hsm' : s.measure = (i : Int) := by simpa using hsm
        obtain ⟨e, he, rfl⟩ := List.mem_map.mp hsS
        have hdv := hE.exact_rows _ hsS
        rw [hsm'] at hdv
        have hbeat := slotOfEv_beat e _ hdpos hdv
        rw [hsm', hsr] at hbeat
        have hsym : sym = e.2.2 := by
          have hv := hE.valid e he
          unfold ValidSym at hv
          have : symOf ch = some e.2.2 := by rw [hch]; exact hv
          rw [hs] at this
          exact Option.some.inj this
        have hcol : c = e.1 := hsc.symm
        have hb : rowBeat i r G.length = e.2.1 := by
          rw [hrect.1]
          unfold rowBeat
          rw [← hbeat]
          push_cast
          ring
        rw [hb, hsym, hcol]
        exact he
      · have hz := hzero r c (fun s hs hh => hex ⟨s, hs, hh⟩)
        rw [hcellv] at hz
        rw [hz, symOf_zero] at hs
        cases hs
    · have hp := hpadc him
      rw [hrows] at hp
      subst hp
      have hrow : row ∈ paddingMeasure := List.mem_of_getElem? hr
      have := hpad row hrow c ch hc
      rw [this, symOf_zero] at hs
      cases hs
  · intro he
    have hsS : slotOfEv (c, b, sym) ∈ E.map slotOfEv := List.mem_map.mpr ⟨_, he, rfl⟩
    have hmnn : 0 ≤ (slotOfEv (c, b, sym)).measure := slotOf_measure_nonneg _ _ _ (hE.beat_nonneg _ he)
    have hmm : (slotOfEv (c, b, sym)).measure ∈ ms := (hmem _).mpr ⟨_, hsS, rfl⟩
    have hle := ascAbove_le_last ms (-1) hasc _ hmm
    have hnat : (((slotOfEv (c, b, sym)).measure.toNat : Nat) : Int) = (slotOfEv (c, b, sym)).measure :=
      Int.toNat_of_nonneg hmnn
    have hil : (slotOfEv (c, b, sym)).measure.toNat < out.length := by omega
    obtain ⟨hfill, _⟩ := hidx _ hil
    have hneg : (-1 : Int) + 1 + (((slotOfEv (c, b, sym)).measure.toNat : Nat) : Int) = (slotOfEv (c, b, sym)).measure := by
      omega
    rw [hneg] at hfill
    obtain ⟨hdpos, G, hG, hrect, hcell, _⟩ := measure_grid keys E hE _ ((hmem _).mp hmm)
    have hGeq : out[(slotOfEv (c, b, sym)).measure.toNat] = G := by
      have := hfill hmm
      rw [hG] at this
      exact (Except.ok.inj this).symm
    have hsg : slotOfEv (c, b, sym) ∈ (E.map slotOfEv).filter (fun t => t.measure = (slotOfEv (c, b, sym)).measure) :=
      List.mem_filter.mpr ⟨hsS, by simp⟩
    have hdv := hE.exact_rows _ hsS
    have hrlt := rowOf_lt (slotOfEv (c, b, sym)).num (slotOfEv (c, b, sym)).den _ (slotOf_num_lt _ _ _).1 hdpos
    obtain ⟨row, hrow, hch⟩ := get_of_rect hrect hrlt (hE.col_lt _ he)
    have hcv : cellAt G (rowOf (slotOfEv (c, b, sym)).num (slotOfEv (c, b, sym)).den
        (denMax (((E.map slotOfEv).filter (fun t => t.measure = (slotOfEv (c, b, sym)).measure)).map (·.den))))
        (c, b, sym).1 = (slotOfEv (c, b, sym)).ch := hcell _ hsg
    rw [hcv] at hch
    have hbeat := slotOfEv_beat (c, b, sym) _ hdpos hdv
    apply (mem_events out c b sym).mpr
    refine ⟨(slotOfEv (c, b, sym)).measure.toNat, G, _, row, _, ?_, hrow, hch, hE.valid _ he, ?_⟩
    · rw [List.getElem?_eq_getElem hil, hGeq]
    · rw [hrect.1]
      unfold rowBeat
      have hcast : (((slotOfEv (c, b, sym)).measure.toNat : Nat) : Rat) = ((slotOfEv (c, b, sym)).measure : Rat) := by
        exact_mod_cast hnat
      rw [hcast]
      exact hbeat.symm

end Reamber.SM
