/-
Helper lemmas for C07, timing part: the tempo sweep of `O2JMap.read_pkgs` (model: `advance` / `consumeAll` / `sweep`)
computes the declarative integration `Spec.integ`; sorting / de-duplication / table lookup facts.
-/
import Reamber.Spec.O2J

namespace Reamber.O2J

open Reamber.O2J.Spec
open Reamber.Timing (isort insertBy minToMsec)

/-- `integ` started from a sweep state -/
def integS (st : St) (evs : List (Rat × Rat)) (p : Rat) : Rat := integ st.offset st.measure st.bpm evs p

theorem segTime_eq (st : St) (p : Rat) :
    segTime st p = st.offset + (p - st.measure) * 4 * (minToMsec / st.bpm) := by
  unfold segTime; grind

theorem integS_nil (st : St) (p : Rat) : integS st [] p = segTime st p := by
  rw [segTime_eq]; rfl

theorem integS_cons_le (st : St) (e : Rat × Rat) (rest : List (Rat × Rat)) (p : Rat) (h : e.1 ≤ p) :
    integS st (e :: rest) p = integS (consume st e) rest p := by
  unfold integS consume
  simp only [integ, h, if_true]
  rw [segTime_eq]

theorem integS_cons_gt (st : St) (e : Rat × Rat) (rest : List (Rat × Rat)) (p : Rat) (h : ¬ e.1 ≤ p) :
    integS st (e :: rest) p = segTime st p := by
  unfold integS
  simp only [integ, h, if_false]
  rw [segTime_eq]

/-- after the inner `while` for a query `q`, every later query sees the same integral from the advanced state -/
theorem advance_integ (evs : List (Rat × Rat)) : ∀ (st : St) (q p : Rat), q ≤ p →
    integS st evs p = integS (advance st evs q).1 (advance st evs q).2.2 p := by
  induction evs with
  | nil => intro st q p _; rfl
  | cons e rest ih =>
    intro st q p hqp
    unfold advance
    by_cases h : e.1 ≤ q
    · simp only [h, if_true]
      rw [integS_cons_le st e rest p (by grind)]
      exact ih (consume st e) q p hqp
    · simp only [h, if_false]

/-- … and at the query itself the remaining events are all later, so the integral is the segment formula -/
theorem advance_at (evs : List (Rat × Rat)) : ∀ (st : St) (q : Rat),
    integS (advance st evs q).1 (advance st evs q).2.2 q = segTime (advance st evs q).1 q := by
  induction evs with
  | nil => intro st q; exact integS_nil st q
  | cons e rest ih =>
    intro st q
    unfold advance
    by_cases h : e.1 ≤ q
    · simp only [h, if_true]
      exact ih (consume st e) q
    · simp only [h, if_false]
      exact integS_cons_gt st e rest q h

/-- the measure ↦ offset table: each ascending query gets the integral from the initial state -/
theorem sweep_table (qs : List Rat) : ∀ (st : St) (evs : List (Rat × Rat)), qs.Pairwise (· ≤ ·) →
    (sweep st evs qs).1 = qs.map (fun q => (q, integS st evs q)) := by
  induction qs with
  | nil => intro st evs _; rfl
  | cons nm rest ih =>
    intro st evs hp
    rw [List.pairwise_cons] at hp
    unfold sweep
    simp only [List.map_cons]
    congr 1
    · rw [← advance_at evs st nm, ← advance_integ evs st nm nm (Rat.le_refl)]
    · rw [ih _ _ hp.2]
      apply List.map_congr_left
      intro q hq
      rw [← advance_integ evs st nm q (hp.1 q hq)]

theorem advance_consumeAll (evs : List (Rat × Rat)) : ∀ (st : St) (q : Rat),
    (advance st evs q).2.1 ++ consumeAll (advance st evs q).1 (advance st evs q).2.2 = consumeAll st evs := by
  induction evs with
  | nil => intro st q; rfl
  | cons e rest ih =>
    intro st q
    unfold advance
    by_cases h : e.1 ≤ q
    · simp only [h, if_true, List.cons_append]
      rw [ih (consume st e) q]
      rfl
    · simp only [h, if_false, List.nil_append]

/-- the offsets given to the tempo events do not depend on the notes: they are those of consuming them all in order
(so tempo events after the last note, or with no note at all, get theirs) -/
theorem sweep_offsets (qs : List Rat) : ∀ (st : St) (evs : List (Rat × Rat)),
    (sweep st evs qs).2 = consumeAll st evs := by
  induction qs with
  | nil => intro st evs; rfl
  | cons nm rest ih =>
    intro st evs
    unfold sweep
    simp only []
    rw [ih, advance_consumeAll]

/-- events that all lie at or after `p`, seen from position `p` itself, add nothing (several events at one position) -/
theorem integ_ties (rest : List (Rat × Rat)) : ∀ (T p b : Rat), (∀ e ∈ rest, p ≤ e.1) → integ T p b rest p = T := by
  induction rest with
  | nil => intro T p b _; simp only [integ]; grind
  | cons e r ih =>
    intro T p b h
    have he : p ≤ e.1 := h e (by simp)
    simp only [integ]
    by_cases hle : e.1 ≤ p
    · have hep : e.1 = p := by grind
      rw [if_pos hle, hep, ih _ p e.2 (fun x hx => h x (by simp [hx]))]
      grind
    · rw [if_neg hle]; grind

/-- for tempo events in ascending order, consuming them all gives each the integral at its own position -/
theorem consumeAll_integ (evs : List (Rat × Rat)) : ∀ (st : St), evs.Pairwise (fun a b => a.1 ≤ b.1) →
    consumeAll st evs = evs.map (fun e => integS st evs e.1) := by
  induction evs with
  | nil => intro st _; rfl
  | cons e rest ih =>
    intro st hp
    rw [List.pairwise_cons] at hp
    unfold consumeAll
    simp only [List.map_cons]
    congr 1
    · rw [integS_cons_le st e rest e.1 Rat.le_refl]
      unfold integS
      rw [show (consume st e).measure = e.1 from rfl, integ_ties rest _ e.1 _ (fun x hx => hp.1 x hx)]
    · rw [ih (consume st e) hp.2]
      apply List.map_congr_left
      intro x hx
      rw [integS_cons_le st e rest x.1 (hp.1 x hx)]

/-! ### sorting, de-duplication, lookup -/

theorem insertBy_pairwise {α} (le : α → α → Bool) (htot : ∀ a b, le a b = true ∨ le b a = true)
    (htr : ∀ a b c, le a b = true → le b c = true → le a c = true) (x : α) :
    ∀ l : List α, l.Pairwise (fun a b => le a b = true) → (insertBy le x l).Pairwise (fun a b => le a b = true) ∧
      ∀ z ∈ insertBy le x l, z = x ∨ z ∈ l := by
  intro l
  induction l with
  | nil => intro _; simp [insertBy]
  | cons y ys ih =>
    intro hp
    rw [List.pairwise_cons] at hp
    unfold insertBy
    by_cases h : le x y = true
    · rw [if_pos h]
      refine ⟨?_, by intro z hz; simpa using hz⟩
      rw [List.pairwise_cons]
      refine ⟨?_, List.pairwise_cons.mpr hp⟩
      intro z hz
      rcases List.mem_cons.mp hz with rfl | hz
      · exact h
      · exact htr _ _ _ h (hp.1 z hz)
    · rw [if_neg h]
      have hyx : le y x = true := by rcases htot x y with h' | h' <;> simp_all
      obtain ⟨ih1, ih2⟩ := ih hp.2
      refine ⟨?_, ?_⟩
      · rw [List.pairwise_cons]
        refine ⟨?_, ih1⟩
        intro z hz
        rcases ih2 z hz with rfl | hz
        · exact hyx
        · exact hp.1 z hz
      · intro z hz
        rcases List.mem_cons.mp hz with rfl | hz
        · right; simp
        · rcases ih2 z hz with rfl | hz
          · left; rfl
          · right; simp [hz]

theorem isort_pairwise {α} (le : α → α → Bool) (htot : ∀ a b, le a b = true ∨ le b a = true)
    (htr : ∀ a b c, le a b = true → le b c = true → le a c = true) (l : List α) :
    (isort le l).Pairwise (fun a b => le a b = true) := by
  induction l with
  | nil => simp [isort]
  | cons x xs ih =>
    have : isort le (x :: xs) = insertBy le x (isort le xs) := rfl
    rw [this]
    exact (insertBy_pairwise le htot htr x _ ih).1

theorem sortBpms_sorted (l : List (Rat × Rat)) : (sortBpms l).Pairwise (fun a b => a.1 ≤ b.1) := by
  have := isort_pairwise (fun (a b : Rat × Rat) => decide (a.1 ≤ b.1)) (by intro a b; simp; exact Rat.le_total ..)
    (by intro a b c; simp; exact Rat.le_trans) l
  unfold sortBpms
  exact this.imp (by intro a b h; simpa using h)

theorem mem_insertU (x : Rat) (l : List Rat) : ∀ z, z ∈ insertU x l ↔ z = x ∨ z ∈ l := by
  induction l with
  | nil => intro z; simp [insertU]
  | cons y ys ih =>
    intro z
    unfold insertU
    by_cases h1 : x < y
    · simp [h1]
    · by_cases h2 : x = y
      · subst h2; simp [h1]
      · simp only [h1, h2, if_false, List.mem_cons, ih z]
        grind

theorem insertU_sorted (x : Rat) (l : List Rat) (h : l.Pairwise (· < ·)) : (insertU x l).Pairwise (· < ·) := by
  induction l with
  | nil => simp [insertU]
  | cons y ys ih =>
    rw [List.pairwise_cons] at h
    unfold insertU
    by_cases h1 : x < y
    · rw [if_pos h1]
      rw [List.pairwise_cons]
      refine ⟨?_, List.pairwise_cons.mpr h⟩
      intro z hz
      rcases List.mem_cons.mp hz with rfl | hz
      · exact h1
      · have := h.1 z hz; grind
    · by_cases h2 : x = y
      · rw [if_neg h1, if_pos h2]; exact List.pairwise_cons.mpr h
      · rw [if_neg h1, if_neg h2]
        rw [List.pairwise_cons]
        refine ⟨?_, ih h.2⟩
        intro z hz
        rcases (mem_insertU x ys z).mp hz with rfl | hz
        · grind
        · exact h.1 z hz

theorem mem_dedupSort (l : List Rat) : ∀ z, z ∈ dedupSort l ↔ z ∈ l := by
  induction l with
  | nil => intro z; simp [dedupSort]
  | cons x xs ih =>
    intro z
    have : dedupSort (x :: xs) = insertU x (dedupSort xs) := rfl
    rw [this, mem_insertU, ih z]; simp

theorem dedupSort_sorted (l : List Rat) : (dedupSort l).Pairwise (· < ·) := by
  induction l with
  | nil => simp [dedupSort]
  | cons x xs ih =>
    have : dedupSort (x :: xs) = insertU x (dedupSort xs) := rfl
    rw [this]; exact insertU_sorted x _ ih

theorem dedupSort_asc (l : List Rat) : (dedupSort l).Pairwise (· ≤ ·) :=
  (dedupSort_sorted l).imp (by intro a b h; exact Rat.le_of_lt h)

theorem lookupT_map (f : Rat → Rat) (qs : List Rat) (k : Rat) (hk : k ∈ qs) :
    lookupT (qs.map (fun q => (q, f q))) k = some (f k) := by
  induction qs with
  | nil => simp at hk
  | cons q rest ih =>
    unfold lookupT
    simp only [List.map_cons, List.find?_cons]
    by_cases h : q = k
    · subst h; simp
    · have hk' : k ∈ rest := by
        rcases List.mem_cons.mp hk with h' | h'
        · exact absurd h'.symm h
        · exact h'
      simp only [h, decide_false]
      exact ih hk'

theorem mapE_eq_ok_map {α β} (f : α → Except Err β) (F : α → β) (l : List α) (h : ∀ a ∈ l, f a = .ok (F a)) :
    mapE f l = .ok (l.map F) := by
  induction l with
  | nil => rfl
  | cons a t ih =>
    unfold mapE
    rw [h a (by simp), ih (fun x hx => h x (by simp [hx]))]
    rfl

theorem zipBpms_map (evs : List (Rat × Rat)) (f : Rat × Rat → Rat) :
    zipBpms evs (evs.map f) = evs.map (fun e => ⟨e.1, e.2, f e⟩) := by
  induction evs with
  | nil => rfl
  | cons e rest ih => simp [zipBpms, ih]

/-- `read_pkgs` = stable-sorted notes and tempo events, each at `posTime` (stated as `o2j_times` in Props/C07) -/
theorem readPkgs_eq (pkgs : List Pkg) (init : Rat) (hmf : pkgs.any (·.mfrac) = false) (h0 : init ≠ 0) :
    readPkgs pkgs false init =
      .ok ⟨(sortNotes (pkgs.flatMap (·.notes))).map (noteOut init (sortBpms (pkgs.flatMap (·.bpms)))),
           ⟨0, init, 0⟩ :: (sortBpms (pkgs.flatMap (·.bpms))).map (bpmOut init (sortBpms (pkgs.flatMap (·.bpms))))⟩ := by
  unfold readPkgs
  simp only [hmf, Bool.false_eq_true, if_false]
  rw [if_neg (by intro h; exact h0 h.1)]
  rw [sweep_table _ _ _ (dedupSort_asc _), sweep_offsets, consumeAll_integ _ _ (sortBpms_sorted _)]
  have hint : ∀ evs p, integS ⟨0, 0, init⟩ evs p = posTime init evs p := fun _ _ => rfl
  simp only [hint]
  rw [mapE_eq_ok_map _ (noteOut init (sortBpms (pkgs.flatMap (·.bpms))))]
  · simp only [bind, Except.bind]
    rw [zipBpms_map]
    rfl
  · intro n hn
    have hpos : n.pos ∈ dedupSort ((sortNotes (pkgs.flatMap (·.notes))).map Note.pos ++
        (sortNotes (pkgs.flatMap (·.notes))).filterMap Note.tailPos) := by
      rw [mem_dedupSort]; simp only [List.mem_append, List.mem_map]; left; exact ⟨n, hn, rfl⟩
    unfold timeNote
    rw [lookupT_map _ _ _ hpos]
    cases n with
    | hit s => rfl
    | hold h t =>
      have htl : t.pos ∈ dedupSort ((sortNotes (pkgs.flatMap (·.notes))).map Note.pos ++
          (sortNotes (pkgs.flatMap (·.notes))).filterMap Note.tailPos) := by
        rw [mem_dedupSort]; simp only [List.mem_append, List.mem_filterMap]; right
        exact ⟨.hold h t, hn, rfl⟩
      simp only []
      rw [lookupT_map _ _ _ htl]
      rfl


end Reamber.O2J
