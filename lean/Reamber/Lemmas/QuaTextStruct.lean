/- C06 — text layer, structure level: lines ↔ tree (`parseTree (emitTree t) = some t`), by a generic lemma about
grouping lines under their heads that is used at all three depths of the dialect. -/
import Reamber.Model.QuaText

namespace Reamber.QuaText

open Reamber.Osu (Str)

/-! ### `mapO` -/

theorem mapO_eq_some_of_forall {α β} (f : α → Option β) (g : α → β) (l : List α)
    (h : ∀ a ∈ l, f a = some (g a)) : mapO f l = some (l.map g) := by
  induction l with
  | nil => rfl
  | cons a t ih =>
    have ha := h a (by simp)
    have ht := ih (fun x hx => h x (by simp [hx]))
    simp [mapO, ha, ht]

theorem mapO_id_of_forall {α β} (f : α → Option β) (g : α → β) (l : List α) (r : List β)
    (h : ∀ a ∈ l, f a = some (g a)) (hr : l.map g = r) : mapO f l = some r := by
  rw [← hr]; exact mapO_eq_some_of_forall f g l h

theorem mapO_map_section {α β} (f : α → Option β) (h : β → α) (l : List β)
    (hf : ∀ b ∈ l, f (h b) = some b) : mapO f (l.map h) = some l := by
  induction l with
  | nil => rfl
  | cons b t ih =>
    have hb := hf b (by simp)
    have ht := ih (fun x hx => hf x (by simp [hx]))
    simp [mapO, hb, ht]

/-- a partial inverse, element by element -/
theorem mapO_inverse {α β} (f : α → Option β) (g : β → Option α) (hfg : ∀ a b, f a = some b → g b = some a) :
    ∀ (xs : List α) (ys : List β), mapO f xs = some ys → mapO g ys = some xs := by
  intro xs
  induction xs with
  | nil => intro ys h; simp [mapO] at h; subst h; rfl
  | cons a t ih =>
    intro ys h
    unfold mapO at h
    cases hfa : f a with
    | none => simp [hfa] at h
    | some b =>
      cases hmt : mapO f t with
      | none => simp [hfa, hmt] at h
      | some r =>
        simp [hfa, hmt] at h
        subst h
        simp [mapO, hfg a b hfa, ih r hmt]

theorem mapO_mem {α β} (f : α → Option β) :
    ∀ (xs : List α) (ys : List β), mapO f xs = some ys → ∀ y ∈ ys, ∃ x ∈ xs, f x = some y := by
  intro xs
  induction xs with
  | nil => intro ys h y hy; simp [mapO] at h; subst h; simp at hy
  | cons a t ih =>
    intro ys h y hy
    unfold mapO at h
    cases hfa : f a with
    | none => simp [hfa] at h
    | some b =>
      cases hmt : mapO f t with
      | none => simp [hfa, hmt] at h
      | some r =>
        simp [hfa, hmt] at h
        subst h
        simp at hy
        rcases hy with rfl | hy
        · exact ⟨a, by simp, hfa⟩
        · obtain ⟨x, hx, hfx⟩ := ih r hmt y hy
          exact ⟨x, by simp [hx], hfx⟩

theorem mapO_ne_nil {α β} (f : α → Option β) (xs : List α) (ys : List β) (h : mapO f xs = some ys) (hx : xs ≠ []) :
    ys ≠ [] := by
  cases xs with
  | nil => exact absurd rfl hx
  | cons a t =>
    unfold mapO at h
    cases hfa : f a with
    | none => simp [hfa] at h
    | some b =>
      cases hmt : mapO f t with
      | none => simp [hfa, hmt] at h
      | some r => simp [hfa, hmt] at h; subst h; simp

/-! ### grouping -/

theorem groupsAux_append_body (p : Line → Bool) (b rest : List Line) (hb : ∀ l ∈ b, p l = false) :
    groupsAux p (b ++ rest) = (b ++ (groupsAux p rest).1, (groupsAux p rest).2) := by
  induction b with
  | nil => simp
  | cons x xs ih =>
    have hx := hb x (by simp)
    have := ih (fun l hl => hb l (by simp [hl]))
    simp [groupsAux, hx, this]

theorem groupsAux_flatMap (p : Line → Bool) (gs : List (Line × List Line))
    (h : ∀ g ∈ gs, p g.1 = true ∧ ∀ l ∈ g.2, p l = false) :
    groupsAux p (gs.flatMap (fun g => g.1 :: g.2)) = ([], gs) := by
  induction gs with
  | nil => rfl
  | cons g t ih =>
    obtain ⟨hg1, hg2⟩ := h g (by simp)
    have iht := ih (fun x hx => h x (by simp [hx]))
    simp only [List.flatMap_cons, List.cons_append]
    simp only [groupsAux, hg1, if_true]
    rw [groupsAux_append_body p g.2 _ hg2, iht]
    simp

theorem groups_flatMap (p : Line → Bool) (gs : List (Line × List Line))
    (h : ∀ g ∈ gs, p g.1 = true ∧ ∀ l ∈ g.2, p l = false) :
    groups p (gs.flatMap (fun g => g.1 :: g.2)) = some gs := by
  simp [groups, groupsAux_flatMap p gs h]

/-! ### one level: entries under their heads -/

/-- a body line of an entry at indent `n`: a dash line at `n`, or anything from `n + 2` on -/
def BodyLine (n : Nat) (l : Line) : Prop := (l.ind = n ∧ l.dash = true) ∨ n + 2 ≤ l.ind

theorem BodyLine.notEntryHead {n : Nat} {l : Line} (h : BodyLine n l) : isEntryHead n l = false := by
  rcases h with ⟨_, h2⟩ | h
  · simp [isEntryHead, h2]
  · simp [isEntryHead]; intro h'; omega

/-- emitter and value parser of one level are inverse on well-formed values, and the emitted lines are one head at
indent `n` followed by body lines -/
def RT {β} (ev : Nat → Str → β → List Line) (pv : Nat → LV → List Line → Option β) (wf : β → Prop) : Prop :=
  ∀ n k v, wf v → ∃ lv body, ev n k v = ⟨n, false, k, lv⟩ :: body ∧ (∀ l ∈ body, BodyLine n l) ∧ pv n lv body = some v

theorem emitEntries_cons {β} (ev : Nat → Str → β → List Line) (n : Nat) (kv : Str × β) (es : List (Str × β)) :
    emitEntries ev n (kv :: es) = ev n kv.1 kv.2 ++ emitEntries ev n es := by
  simp [emitEntries]

theorem parseEntries_emitEntries {β} (ev : Nat → Str → β → List Line) (pv : Nat → LV → List Line → Option β)
    (wf : β → Prop) (hrt : RT ev pv wf) (n : Nat) (es : List (Str × β)) (hwf : ∀ kv ∈ es, wf kv.2) :
    parseEntries pv n (emitEntries ev n es) = some es := by
  -- the groups: head and tail of every entry's lines
  let gOf : Str × β → Line × List Line := fun kv => ((ev n kv.1 kv.2).headD default, (ev n kv.1 kv.2).tail)
  have hsplit : ∀ kv ∈ es, ev n kv.1 kv.2 = (gOf kv).1 :: (gOf kv).2 := by
    intro kv hkv
    obtain ⟨lv, body, he, _, _⟩ := hrt n kv.1 kv.2 (hwf kv hkv)
    simp [gOf, he]
  have hflat : emitEntries ev n es = (es.map gOf).flatMap (fun g => g.1 :: g.2) := by
    clear hwf
    induction es with
    | nil => rfl
    | cons kv t ih =>
      rw [emitEntries_cons, hsplit kv (by simp), ih (fun x hx => hsplit x (by simp [hx]))]
      simp
  have hgs : ∀ g ∈ es.map gOf, isEntryHead n g.1 = true ∧ ∀ l ∈ g.2, isEntryHead n l = false := by
    intro g hg
    obtain ⟨kv, hkv, rfl⟩ := List.mem_map.1 hg
    obtain ⟨lv, body, he, hb, _⟩ := hrt n kv.1 kv.2 (hwf kv hkv)
    simp only [gOf, he, List.headD_cons, List.tail_cons]
    exact ⟨by simp [isEntryHead], fun l hl => (hb l hl).notEntryHead⟩
  unfold parseEntries
  rw [hflat, groups_flatMap _ _ hgs]
  simp only
  apply mapO_map_section
  intro kv hkv
  obtain ⟨lv, body, he, _, hp⟩ := hrt n kv.1 kv.2 (hwf kv hkv)
  simp [gOf, he, hp]

/-- shape of a non-empty mapping's lines: a head at indent `n`, the rest at indent `≥ n` -/
theorem emitEntries_shape {β} (ev : Nat → Str → β → List Line) (pv : Nat → LV → List Line → Option β)
    (wf : β → Prop) (hrt : RT ev pv wf) (n : Nat) (es : List (Str × β)) (hwf : ∀ kv ∈ es, wf kv.2) (hne : es ≠ []) :
    ∃ k lv rest, emitEntries ev n es = ⟨n, false, k, lv⟩ :: rest ∧ ∀ l ∈ rest, n ≤ l.ind := by
  have hdeep : ∀ (t : List (Str × β)), (∀ kv ∈ t, wf kv.2) → ∀ l ∈ emitEntries ev n t, n ≤ l.ind := by
    intro t
    induction t with
    | nil => intro _ l hl; simp [emitEntries] at hl
    | cons kv t ih =>
      intro hw l hl
      rw [emitEntries_cons] at hl
      obtain ⟨lv, body, he, hb, _⟩ := hrt n kv.1 kv.2 (hw kv (by simp))
      rw [he] at hl
      simp only [List.cons_append, List.mem_cons, List.mem_append] at hl
      rcases hl with rfl | hl | hl
      · simp
      · rcases hb l hl with ⟨h1, _⟩ | h1 <;> omega
      · exact ih (fun x hx => hw x (by simp [hx])) l hl
  cases es with
  | nil => exact absurd rfl hne
  | cons kv t =>
    obtain ⟨lv, body, he, hb, _⟩ := hrt n kv.1 kv.2 (hwf kv (by simp))
    refine ⟨kv.1, lv, body ++ emitEntries ev n t, by rw [emitEntries_cons, he]; simp, ?_⟩
    intro l hl
    simp only [List.mem_append] at hl
    rcases hl with hl | hl
    · rcases hb l hl with ⟨h1, _⟩ | h1 <;> omega
    · exact hdeep t (fun x hx => hwf x (by simp [hx])) l hl

/-! ### the bottom level: scalars -/

theorem rt_sc : RT emitSc parseSc (fun _ => True) := by
  intro n k v _
  exact ⟨.sc v, [], rfl, by simp, rfl⟩

/-! ### a level of values over records -/

/-- well-formed value: a list of records is non-empty and every record is well-formed -/
def WFV {α} (wfI : List (Str × α) → Prop) : V α → Prop
  | .recs l => l ≠ [] ∧ ∀ r ∈ l, wfI r
  | _ => True

theorem rt_v {α} (innerE : Nat → List (Str × α) → List Line) (innerP : Nat → List Line → Option (List (Str × α)))
    (wfI : List (Str × α) → Prop)
    (hinv : ∀ m r, wfI r → innerP m (innerE m r) = some r)
    (hshape : ∀ m r, wfI r → ∃ k lv rest, innerE m r = ⟨m, false, k, lv⟩ :: rest ∧ ∀ l ∈ rest, m ≤ l.ind) :
    RT (emitV innerE) (parseV innerP) (WFV wfI) := by
  intro n k v hv
  cases v with
  | sc s => exact ⟨.sc s, [], rfl, by simp, rfl⟩
  | empty => exact ⟨.empty, [], rfl, by simp, rfl⟩
  | recs l =>
    obtain ⟨hne, hall⟩ := hv
    refine ⟨.opn, l.flatMap (fun r => dashFirst n (innerE (n + 2) r)), rfl, ?_, ?_⟩
    · intro x hx
      obtain ⟨r, hr, hxr⟩ := List.mem_flatMap.1 hx
      obtain ⟨k', lv, rest, he, hrest⟩ := hshape (n + 2) r (hall r hr)
      rw [he] at hxr
      simp only [dashFirst, List.mem_cons] at hxr
      rcases hxr with rfl | hxr
      · exact Or.inl ⟨rfl, rfl⟩
      · exact Or.inr (hrest x hxr)
    · -- the groups of the body: one per record
      let gOf : List (Str × α) → Line × List Line := fun r =>
        ((dashFirst n (innerE (n + 2) r)).headD default, (dashFirst n (innerE (n + 2) r)).tail)
      have hflat : l.flatMap (fun r => dashFirst n (innerE (n + 2) r)) = (l.map gOf).flatMap (fun g => g.1 :: g.2) := by
        clear hne
        induction l with
        | nil => rfl
        | cons r t ih =>
          obtain ⟨k', lv, rest, he, _⟩ := hshape (n + 2) r (hall r (by simp))
          simp only [List.flatMap_cons, List.map_cons]
          rw [ih (fun x hx => hall x (by simp [hx]))]
          simp [gOf, he, dashFirst]
      have hgs : ∀ g ∈ l.map gOf, isRecHead n g.1 = true ∧ ∀ x ∈ g.2, isRecHead n x = false := by
        intro g hg
        obtain ⟨r, hr, rfl⟩ := List.mem_map.1 hg
        obtain ⟨k', lv, rest, he, hrest⟩ := hshape (n + 2) r (hall r hr)
        simp only [gOf, he, dashFirst, List.headD_cons, List.tail_cons]
        refine ⟨by simp [isRecHead], fun x hx => ?_⟩
        have := hrest x hx
        simp [isRecHead]; intro h'; omega
      have hbody : (l.flatMap (fun r => dashFirst n (innerE (n + 2) r))).isEmpty = false := by
        cases l with
        | nil => exact absurd rfl hne
        | cons r t =>
          obtain ⟨k', lv, rest, he, _⟩ := hshape (n + 2) r (hall r (by simp))
          simp [he, dashFirst]
      show parseV innerP n .opn _ = _
      unfold parseV
      simp only [hbody]
      rw [hflat, groups_flatMap _ _ hgs]
      simp only
      have : mapO (fun g : Line × List Line => innerP (n + 2) (undash n g.1 :: g.2)) (l.map gOf) = some l := by
        apply mapO_map_section
        intro r hr
        obtain ⟨k', lv, rest, he, _⟩ := hshape (n + 2) r (hall r hr)
        have hi := hinv (n + 2) r (hall r hr)
        rw [he] at hi
        simp [gOf, he, dashFirst, undash, hi]
      simp [this]

/-! ### the three depths of the dialect -/

def WF2 (r : R2) : Prop := r ≠ []
def WF1 (r : R1) : Prop := r ≠ [] ∧ ∀ kv ∈ r, WFV WF2 kv.2
/-- structure of a well-formed document: every list of records is non-empty and has no empty record -/
def WF0 (t : Tree) : Prop := ∀ kv ∈ t, WFV WF1 kv.2

theorem parseR2_emitR2 (n : Nat) (r : R2) : parseR2 n (emitR2 n r) = some r :=
  parseEntries_emitEntries emitSc parseSc _ rt_sc n r (fun _ _ => trivial)

theorem rt_1 : RT (emitV emitR2) (parseV parseR2) (WFV WF2) :=
  rt_v emitR2 parseR2 WF2 (fun m r _ => parseR2_emitR2 m r)
    (fun m r hr => emitEntries_shape emitSc parseSc _ rt_sc m r (fun _ _ => trivial) hr)

theorem parseR1_emitR1 (n : Nat) (r : R1) (h : WF1 r) : parseR1 n (emitR1 n r) = some r :=
  parseEntries_emitEntries _ _ _ rt_1 n r h.2

theorem rt_0 : RT (emitV emitR1) (parseV parseR1) (WFV WF1) :=
  rt_v emitR1 parseR1 WF1 (fun m r hr => parseR1_emitR1 m r hr)
    (fun m r hr => emitEntries_shape _ _ _ rt_1 m r hr.2 hr.1)

/-- lines ↔ tree -/
theorem parseTree_emitTree (t : Tree) (h : WF0 t) : parseTree (emitTree t) = some t :=
  parseEntries_emitEntries _ _ _ rt_0 0 t h

theorem emitTree_ne_nil (t : Tree) (h : WF0 t) (hne : t ≠ []) : emitTree t ≠ [] := by
  obtain ⟨k, lv, rest, he, _⟩ := emitEntries_shape _ _ _ rt_0 0 t h hne
  show emitEntries (emitV emitR1) 0 t ≠ []
  rw [he]; simp

end Reamber.QuaText
