/-
Helper lemmas for C17 (full-LN): insertion sort is a sorted permutation, `groupby` keys are the distinct
columns, the pandas pipeline `zip(rows, diff().shift(-1))` is the structural recursion `applyRule`, which
satisfies the index-wise `ColRule`; filtering the produced rows by column gives back the processed group.
-/
import Reamber.Model.FullLN
import Reamber.Spec.FullLN

namespace Reamber.FullLN

open Reamber.Timing (isort insertBy)

/-! ### A. insertion sort -/

theorem insertBy_perm {α} (le : α → α → Bool) (x : α) (l : List α) : (insertBy le x l).Perm (x :: l) := by
  induction l with
  | nil => simp [insertBy]
  | cons y ys ih =>
    simp only [insertBy]
    split
    · exact List.Perm.refl _
    · exact (List.Perm.cons y ih).trans (List.Perm.swap x y ys)

theorem isort_perm {α} (le : α → α → Bool) (l : List α) : (isort le l).Perm l := by
  induction l with
  | nil => simp [isort]
  | cons x xs ih =>
    have : isort le (x :: xs) = insertBy le x (isort le xs) := by simp [isort]
    rw [this]
    exact (insertBy_perm le x _).trans (List.Perm.cons x ih)

theorem sortByOffset_perm (l : List Row) : (sortByOffset l).Perm l := isort_perm _ l

theorem insertBy_sorted (x : Row) (l : List Row) (h : SortedByOffset l) :
    SortedByOffset (insertBy (fun a b => decide (a.offset ≤ b.offset)) x l) := by
  induction l with
  | nil => simp [insertBy, SortedByOffset]
  | cons y ys ih =>
    simp only [insertBy]
    have hy := List.pairwise_cons.mp h
    split
    · rename_i hle
      have hle' : x.offset ≤ y.offset := by simpa using hle
      refine List.pairwise_cons.mpr ⟨?_, h⟩
      intro z hz
      rcases List.mem_cons.mp hz with rfl | hz
      · exact hle'
      · exact Rat.le_trans hle' (hy.1 z hz)
    · rename_i hle
      have hle' : ¬ x.offset ≤ y.offset := by simpa using hle
      have hyx : y.offset ≤ x.offset := by
        rcases Rat.le_total (a := x.offset) (b := y.offset) with h1 | h1
        · exact absurd h1 hle'
        · exact h1
      refine List.pairwise_cons.mpr ⟨?_, ih hy.2⟩
      intro z hz
      have hz' := (insertBy_perm _ x ys).mem_iff.mp hz
      rcases List.mem_cons.mp hz' with rfl | hz'
      · exact hyx
      · exact hy.1 z hz'

theorem sortByOffset_sorted (l : List Row) : SortedByOffset (sortByOffset l) := by
  induction l with
  | nil => simp [sortByOffset, isort, SortedByOffset]
  | cons x xs ih =>
    have : sortByOffset (x :: xs) = insertBy (fun a b => decide (a.offset ≤ b.offset)) x (sortByOffset xs) := by
      simp [sortByOffset, isort]
    rw [this]
    exact insertBy_sorted x _ ih

/-! ### B. `groupby` keys -/

theorem mem_insertCol (a c : Int) (l : List Int) : a ∈ insertCol c l ↔ a = c ∨ a ∈ l := by
  induction l with
  | nil => simp [insertCol]
  | cons d ds ih =>
    simp only [insertCol]
    split
    · simp
    · split
      · rename_i h1 h2
        subst h2
        simp
      · simp only [List.mem_cons, ih]
        constructor
        · rintro (h | h | h)
          · exact Or.inr (Or.inl h)
          · exact Or.inl h
          · exact Or.inr (Or.inr h)
        · rintro (h | h | h)
          · exact Or.inr (Or.inl h)
          · exact Or.inl h
          · exact Or.inr (Or.inr h)

theorem insertCol_sorted (c : Int) (l : List Int) (h : l.Pairwise (· < ·)) : (insertCol c l).Pairwise (· < ·) := by
  induction l with
  | nil => simp [insertCol]
  | cons d ds ih =>
    have hd := List.pairwise_cons.mp h
    simp only [insertCol]
    split
    · rename_i hlt
      refine List.pairwise_cons.mpr ⟨?_, h⟩
      intro z hz
      rcases List.mem_cons.mp hz with rfl | hz
      · exact hlt
      · exact Int.lt_trans hlt (hd.1 z hz)
    · split
      · exact h
      · rename_i h1 h2
        refine List.pairwise_cons.mpr ⟨?_, ih hd.2⟩
        intro z hz
        rcases (mem_insertCol z c ds).mp hz with rfl | hz
        · omega
        · exact hd.1 z hz

theorem columnsOf_sorted (l : List Row) : (columnsOf l).Pairwise (· < ·) := by
  induction l with
  | nil => simp [columnsOf]
  | cons r rs ih =>
    have : columnsOf (r :: rs) = insertCol r.column (columnsOf rs) := by simp [columnsOf]
    rw [this]
    exact insertCol_sorted _ _ ih

theorem columnsOf_nodup (l : List Row) : (columnsOf l).Nodup := by
  have h := columnsOf_sorted l
  exact h.imp (fun hab => by omega)

theorem mem_columnsOf (c : Int) (l : List Row) : c ∈ columnsOf l ↔ ∃ r ∈ l, r.column = c := by
  induction l with
  | nil => simp [columnsOf]
  | cons r rs ih =>
    have : columnsOf (r :: rs) = insertCol r.column (columnsOf rs) := by simp [columnsOf]
    rw [this, mem_insertCol, ih]
    constructor
    · rintro (h | ⟨r', hr', hc⟩)
      · exact ⟨r, by simp, h.symm⟩
      · exact ⟨r', by simp [hr'], hc⟩
    · rintro ⟨r', hr', hc⟩
      rcases List.mem_cons.mp hr' with rfl | hr'
      · exact Or.inl hc.symm
      · exact Or.inr ⟨r', hr', hc⟩

theorem group_eq_inColumn (l : List Row) (c : Int) : group l c = inColumn c l := rfl

theorem inColumn_eq_nil_of_not_mem (c : Int) (l : List Row) (h : c ∉ columnsOf l) : inColumn c l = [] := by
  simp only [inColumn, List.filter_eq_nil_iff]
  intro r hr hc
  exact h ((mem_columnsOf c l).mpr ⟨r, hr, by simpa using hc⟩)

/-! ### C. the pandas pipeline is the structural recursion -/

theorem step_some (gap thr : Rat) (x : Row) (n : Rat) :
    step gap thr x (some (n - x.offset)) = expected gap thr x n := by
  simp [step, expected]

theorem zip_diffFrom (gap thr : Rat) (x : Row) (rest : List Row) :
    List.zipWith (step gap thr) (x :: rest) (diffFrom x.offset (rest.map (·.offset)) ++ [none])
      = applyRule gap thr (x :: rest) := by
  induction rest generalizing x with
  | nil => simp [diffFrom, step, applyRule]
  | cons y r ih =>
    simp only [List.map_cons, diffFrom, List.cons_append, List.zipWith_cons_cons, applyRule]
    rw [step_some, ih y]

theorem processGroup_eq_applyRule (gap thr : Rat) (g : List Row) :
    processGroup gap thr g = applyRule gap thr g := by
  cases g with
  | nil => simp [processGroup, diff, shiftUp, applyRule]
  | cons x rest =>
    simp only [processGroup, List.map_cons, diff, shiftUp]
    exact zip_diffFrom gap thr x rest

theorem applyRule_length (gap thr : Rat) (g : List Row) : (applyRule gap thr g).length = g.length := by
  induction g with
  | nil => simp [applyRule]
  | cons x rest ih =>
    cases rest with
    | nil => simp [applyRule]
    | cons y r => simp only [applyRule, List.length_cons] at ih ⊢; omega

theorem expected_key (gap thr : Rat) (r : Row) (n : Rat) : key (expected gap thr r n) = key r := by
  unfold expected key
  split <;> rfl

theorem expected_column (gap thr : Rat) (r : Row) (n : Rat) : (expected gap thr r n).column = r.column := by
  unfold expected
  split <;> rfl

theorem expected_offset (gap thr : Rat) (r : Row) (n : Rat) : (expected gap thr r n).offset = r.offset := by
  unfold expected
  split <;> rfl

theorem colRule_applyRule (gap thr : Rat) (col : List Row) : ColRule gap thr col (applyRule gap thr col) := by
  refine ⟨applyRule_length gap thr col, ?_⟩
  induction col with
  | nil => intro i hi; simp at hi
  | cons x rest ih =>
    cases rest with
    | nil =>
      intro i hi
      have : i = 0 := by simpa using hi
      subst this
      simp [applyRule, expectedAt]
    | cons y r =>
      intro i hi
      cases i with
      | zero => simp [applyRule, expectedAt]
      | succ k =>
        have hk : k < (y :: r).length := by simpa using hi
        have := ih k hk
        simp only [applyRule, List.getElem?_cons_succ]
        rw [this]
        simp [expectedAt]

/-- `ColRule` determines the output: it is a function of the processing order -/
theorem colRule_unique (gap thr : Rat) (col o : List Row) (h : ColRule gap thr col o) :
    o = applyRule gap thr col := by
  have h2 := colRule_applyRule gap thr col
  apply List.ext_getElem?
  intro i
  by_cases hi : i < col.length
  · rw [h.2 i hi, h2.2 i hi]
  · have h1 : o.length ≤ i := by rw [h.1]; omega
    have h3 : (applyRule gap thr col).length ≤ i := by rw [h2.1]; omega
    rw [List.getElem?_eq_none h1, List.getElem?_eq_none h3]

theorem applyRule_map_key (gap thr : Rat) (g : List Row) : (applyRule gap thr g).map key = g.map key := by
  induction g with
  | nil => simp [applyRule]
  | cons x rest ih =>
    cases rest with
    | nil => simp [applyRule]
    | cons y r =>
      simp only [applyRule, List.map_cons] at ih ⊢
      rw [ih, expected_key]

theorem applyRule_column_mem (gap thr : Rat) (g : List Row) (c : Int) (h : ∀ r ∈ g, r.column = c) :
    ∀ r ∈ applyRule gap thr g, r.column = c := by
  intro r hr
  have hk := applyRule_map_key gap thr g
  have : key r ∈ (applyRule gap thr g).map key := List.mem_map.mpr ⟨r, hr, rfl⟩
  rw [hk] at this
  obtain ⟨r', hr', hkey⟩ := List.mem_map.mp this
  have : r'.column = r.column := by
    have := congrArg Prod.snd hkey
    simpa [key] using this
  rw [← this]; exact h r' hr'

/-! ### D. the produced rows, column by column -/

theorem inColumn_processGroup (gap thr : Rat) (l : List Row) (c c' : Int) :
    inColumn c (processGroup gap thr (group l c')) = if c' = c then processGroup gap thr (group l c) else [] := by
  rw [processGroup_eq_applyRule]
  have hall : ∀ r ∈ applyRule gap thr (group l c'), r.column = c' :=
    applyRule_column_mem gap thr _ c' (by
      intro r hr
      simp only [group, List.mem_filter] at hr
      simpa using hr.2)
  split
  · rename_i h
    subst h
    rw [processGroup_eq_applyRule]
    simp only [inColumn, List.filter_eq_self]
    intro r hr
    simpa using hall r hr
  · rename_i h
    simp only [inColumn, List.filter_eq_nil_iff]
    intro r hr hc
    have := hall r hr
    have hc' : r.column = c := by simpa using hc
    exact h (this.symm.trans hc')

theorem inColumn_flatten_groups (gap thr : Rat) (l : List Row) (c : Int) (cols : List Int) (hn : cols.Nodup) :
    inColumn c ((cols.map (fun c' => processGroup gap thr (group l c'))).flatten)
      = if c ∈ cols then processGroup gap thr (group l c) else [] := by
  induction cols with
  | nil => simp [inColumn]
  | cons d ds ih =>
    have hd := List.nodup_cons.mp hn
    simp only [List.map_cons, List.flatten_cons]
    have happ : ∀ a b : List Row, inColumn c (a ++ b) = inColumn c a ++ inColumn c b := by
      intro a b; simp [inColumn]
    rw [happ, inColumn_processGroup, ih hd.2]
    by_cases hdc : d = c
    · subst hdc
      simp [hd.1]
    · have : c ≠ d := fun h => hdc h.symm
      simp [hdc, this]

theorem inColumn_fullLnRows (gap thr : Rat) (sorted : List Row) (c : Int) :
    inColumn c (fullLnRows gap thr sorted) = applyRule gap thr (inColumn c sorted) := by
  unfold fullLnRows groups
  have := inColumn_flatten_groups gap thr sorted c (columnsOf sorted) (columnsOf_nodup sorted)
  simp only [List.map_map] at this ⊢
  rw [show ((processGroup gap thr) ∘ (group sorted)) = (fun c' => processGroup gap thr (group sorted c')) from rfl]
  rw [this]
  split
  · rw [processGroup_eq_applyRule]; rfl
  · rename_i h
    rw [inColumn_eq_nil_of_not_mem c sorted h]
    simp [applyRule]

end Reamber.FullLN
