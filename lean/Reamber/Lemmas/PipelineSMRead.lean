/-
C09 / C02 — "reader = denotation" for one StepMania chart, lifted to the abstract chart `AChart` of
`Spec/Pipeline.lean`: what `SMMap._read_notes` returns (tempo list and notes) is, as an abstract chart, the abstract
chart of the specification's denotation of the same `#NOTES` value (`denoteChart` + `timedNotes` + `tempoTimes`).
-/
import Reamber.Props.C02
import Reamber.Spec.Pipeline
import Reamber.Lemmas.TimingInverse
import Reamber.Lemmas.Snapper
import Mathlib.Tactic.Ring
import Mathlib.Tactic.Linarith
import Mathlib.Tactic.Positivity

namespace Reamber.Pipeline

open Reamber.Timing Reamber.SM

/-- the abstract chart of what the reader returns -/
def ofSMRead (bpms : List (Rat × Rat)) (notes : List SM.Note) : AChart :=
  { hits := (notes.filter (fun n => n.kind = SM.Kind.hit)).map (fun n => (n.time, (n.col : Int)))
    holds := (notes.filter (fun n => n.kind = SM.Kind.hold)).map (fun n => (n.time, (n.col : Int), n.length))
    bpms := bpms }

/-! ### the tempo list -/

theorem zip_map_fst_snd {α β} (l : List (α × β)) : (l.map (·.1)).zip (l.map (·.2)) = l := by
  induction l with
  | nil => rfl
  | cons a t ih => simp [ih]

/-- sorted `#BPMS` pairs denote the changes in file order -/
theorem changesOf_sorted (b : List (Rat × Rat)) (hsorted : b.Pairwise (fun x y => decide (x.1 ≤ y.1) = true)) :
    SM.changesOf b = b.map (fun p => (⟨p.2, 4, SM.snapOfBeat p.1⟩ : BcSnap)) := by
  unfold SM.changesOf
  rw [Reamber.Timing.isort_eq_self _ hsorted]

/-- **Tempo list**: for `#BPMS` changes on measure lines the reader's tempo list is the specification's
`(tempoTimes, bpm)` list. -/
theorem sm_read_bpms (σf : List Snap → List Nat) (data : SM.Str) (t0 : Rat) (cs : List BcSnap) (ss : Bool)
    (hwf : wfChanges cs = true) (hs : sortedSnaps cs = true) (h0 : firstAtZero cs = true)
    (hline : ∀ c ∈ cs, c.snap.beat = 0)
    (offsetSec : Rat) (b : List (Rat × Rat)) (ho : -(1000 * offsetSec) = t0) (hb : SM.changesOf b = cs)
    (hsorted : b.Pairwise (fun x y => decide (x.1 ≤ y.1) = true))
    (rb : List (Rat × Rat)) (notes : List SM.Note)
    (h : SM.readNotesWith σf data (some t0) (some cs) ss = .ok (rb, notes)) :
    rb = (SM.tempoTimes offsetSec b).zip (b.map (·.2)) := by
  obtain ⟨h1, h2⟩ := C02.tempo_list_keeps_times_partial σf data t0 cs ss hwf hs h0 hline rb notes h
  have hcs : cs = b.map (fun p => (⟨p.2, 4, SM.snapOfBeat p.1⟩ : BcSnap)) := by
    rw [← hb]; exact changesOf_sorted b hsorted
  have hF : ∀ F : Snap → Rat, cs.map (fun c => F c.snap) = b.map (fun p => F (SM.snapOfBeat p.1)) := by
    intro F
    rw [hcs, List.map_map]
    rfl
  have e1 : rb.map (·.1) = SM.tempoTimes offsetSec b := by
    rw [h1]
    unfold changeTimes SM.tempoTimes SM.timeOfBeat
    rw [ho, hb]
    exact hF (timeAt t0 cs)
  have e2 : rb.map (·.2) = b.map (·.2) := by
    rw [h2, hcs, List.map_map]
    rfl
  rw [← e1, ← e2]
  exact (zip_map_fst_snd rb).symm

/-! ### Lemma A: `_expand` on a state whose heads are all closed -/

def longTimed (k : SM.Kind) (tf : Snap → Rat) (l : List SM.PLong) : List SM.Note :=
  l.filterMap fun p => p.tail.map fun t => (⟨k, p.col, tf p.head, tf t - tf p.head⟩ : SM.Note)

/-- the notes of a loop state under the time function `tf` (no reversals: a multiset) -/
def notesOfState (tf : Snap → Rat) (st : SM.PState) : List SM.Note :=
  st.taps.map (fun p => (⟨p.kind, p.col, tf p.pos, 0⟩ : SM.Note)) ++ longTimed .hold tf st.holds ++
    longTimed .roll tf st.rolls

theorem mapER_longNote (k : SM.Kind) (tf : Snap → Rat) (l : List SM.PLong) (hl : ∀ p ∈ l, p.tail.isSome = true) :
    SM.mapER (SM.longNote k tf) l = (.ok (longTimed k tf l) : Except Timing.Err (List SM.Note)) := by
  induction l with
  | nil => rfl
  | cons a t ih =>
    have ha := hl a (by simp)
    have iht := ih (fun p hp => hl p (List.mem_cons_of_mem _ hp))
    cases hta : a.tail with
    | none => simp [hta] at ha
    | some x =>
      simp only [SM.mapER, SM.longNote, hta, iht, longTimed, List.filterMap_cons, Option.map_some]

theorem longTimed_reverse (k : SM.Kind) (tf : Snap → Rat) (l : List SM.PLong) :
    longTimed k tf l.reverse = (longTimed k tf l).reverse := by
  unfold longTimed
  exact List.filterMap_reverse

/-- **Step 2**: with every head closed, `_expand` returns the stored positions mapped through `tf`, as a multiset -/
theorem expandWith_perm (tf : Snap → Rat) (st : SM.PState) (hh : ∀ p ∈ st.holds, p.tail.isSome = true)
    (hr : ∀ p ∈ st.rolls, p.tail.isSome = true) (notes : List SM.Note)
    (h : SM.expandWith tf st = .ok notes) : notes.Perm (notesOfState tf st) := by
  unfold SM.expandWith at h
  rw [mapER_longNote .hold tf st.holds.reverse (fun p hp => hh p (by simpa using hp)),
    mapER_longNote .roll tf st.rolls.reverse (fun p hp => hr p (by simpa using hp))] at h
  simp only [Except.ok.injEq] at h
  subst h
  unfold notesOfState
  rw [longTimed_reverse, longTimed_reverse, List.map_reverse]
  exact ((List.reverse_perm _).append (List.reverse_perm _)).append (List.reverse_perm _)


/-! ### Lemma B: positions -/

/-- every position the loops visit lies inside its measure: `0 ≤ beat < 4` -/
theorem eventsOf_range (ms : List (List SM.Str)) : ∀ e ∈ SM.eventsOf ms, 0 ≤ e.pos.beat ∧ e.pos.beat < 4 := by
  intro e he
  refine ⟨(C02.eventsOf_nonneg ms e he).2, ?_⟩
  simp only [SM.eventsOf, SM.rowSnaps, SM.rowEvents, List.mem_flatMap, List.mem_map] at he
  obtain ⟨rm, _, sr, ⟨b, hb, ri, hri, rfl⟩, ci, _, rfl⟩ := he
  simp only
  have hb' : b < 4 := by simpa [SM.metronome] using hb
  have hi : ri.2 < (SM.beatSlice rm.1 b).length := by
    have := List.mem_zipIdx hri
    omega
  have hlen : (0 : Rat) < ((SM.beatSlice rm.1 b).length : Rat) := by
    have : 0 < (SM.beatSlice rm.1 b).length := by omega
    exact_mod_cast this
  have hfrac : (ri.2 : Rat) / ((SM.beatSlice rm.1 b).length : Rat) < 1 := by
    rw [div_lt_one hlen]
    exact_mod_cast hi
  have hb3 : (b : Rat) ≤ 3 := by
    have : b ≤ 3 := by omega
    exact_mod_cast this
  linarith

/-- a position inside its measure is the position of its absolute beat -/
theorem snapOfBeat_absBeat_eqv (s : Snap) (h0 : 0 ≤ s.beat) (h4 : s.beat < 4) :
    (SM.snapOfBeat (SM.absBeat s)).eqv s = true := by
  obtain ⟨e, hb0, hb4⟩ := snapOfTotal_spec (M := 4) (by norm_num) (SM.absBeat s)
  rw [← snapOfBeat_eq] at e hb0 hb4
  generalize SM.snapOfBeat (SM.absBeat s) = x at e hb0 hb4 ⊢
  unfold snapTotal SM.absBeat at e
  have hm : x.measure = s.measure := by
    have h1 : ((x.measure - s.measure : Int) : Rat) < 1 := by push_cast; linarith
    have h2 : (-1 : Rat) < ((x.measure - s.measure : Int) : Rat) := by push_cast; linarith
    have h1' : x.measure - s.measure < 1 := by exact_mod_cast h1
    have h2' : -1 < x.measure - s.measure := by exact_mod_cast h2
    omega
  rw [eqv_iff]
  refine ⟨hm, ?_⟩
  rw [hm] at e
  linarith


/-! ### step 4: the specification's timed notes -/

/-- a reader note as a specification note -/
def toT (n : SM.Note) : SM.TNote := ⟨n.kind, n.col, n.time, n.length⟩

/-- `timedNotes` on one note, for a time function `G` of absolute beats -/
def timedD (G : Rat → Rat) (n : SM.DNote) : SM.TNote :=
  match n.endBeat with
  | none => ⟨n.kind, n.col, G n.beat, 0⟩
  | some e => ⟨n.kind, n.col, G n.beat, G e - G n.beat⟩

theorem timedNotes_eq (offsetSec : Rat) (b : List (Rat × Rat)) (c : SM.DChart) :
    SM.timedNotes offsetSec b c = c.notes.map (timedD (SM.timeOfBeat offsetSec b)) := by
  unfold SM.timedNotes
  apply List.map_congr_left
  intro n _
  unfold timedD
  cases n.endBeat <;> rfl

theorem longNotes_timed (G : Rat → Rat) (F : Snap → Rat) (k : SM.Kind) (l : List SM.PLong)
    (hl : ∀ x ∈ l, G (SM.absBeat x.head) = F x.head ∧ ∀ t, x.tail = some t → G (SM.absBeat t) = F t) :
    (SM.longNotes k l).map (timedD G) = (longTimed k F l).map toT := by
  induction l with
  | nil => rfl
  | cons a t ih =>
    have iht := ih (fun x hx => hl x (List.mem_cons_of_mem _ hx))
    have ha := hl a (by simp)
    unfold SM.longNotes longTimed at iht ⊢
    cases hta : a.tail with
    | none => simpa [hta] using iht
    | some x =>
      simp only [List.filterMap_cons, hta, Option.map_some, List.map_cons, iht]
      congr 1
      simp only [timedD, toT, ha.1, ha.2 x hta]

/-- the reader's stored objects, timed by the specification = timed by the reader, when both time functions agree
on every stored position -/
theorem modelNotes_timed (G : Rat → Rat) (F : Snap → Rat) (st : SM.PState) (hp : SM.PosIn st)
    (hs : ∀ s ∈ st.seen, G (SM.absBeat s) = F s) :
    (SM.modelNotes st).map (timedD G) = (notesOfState F st).map toT := by
  obtain ⟨ht, hh, hr⟩ := hp
  unfold SM.modelNotes notesOfState
  simp only [List.map_append, List.map_map]
  congr 1
  · congr 1
    · apply List.map_congr_left
      intro p hpm
      simp only [Function.comp, timedD, toT, hs _ (ht p hpm)]
    · exact longNotes_timed G F .hold st.holds
        (fun x hx => ⟨hs _ (hh x hx).1, fun t htt => hs _ ((hh x hx).2 t htt)⟩)
  · exact longNotes_timed G F .roll st.rolls
      (fun x hx => ⟨hs _ (hr x hx).1, fun t htt => hs _ ((hr x hx).2 t htt)⟩)

theorem hits_toT (notes : List SM.Note) :
    (notes.filter (fun n => n.kind = SM.Kind.hit)).map (fun n => (n.time, (n.col : Int))) =
      ((notes.map toT).filter (fun n => n.kind = SM.Kind.hit)).map (fun n => (n.time, (n.col : Int))) := by
  induction notes with
  | nil => rfl
  | cons a t ih =>
    simp only [List.map_cons, List.filter_cons]
    have : (toT a).kind = a.kind := rfl
    rw [this]
    split
    · simp only [List.map_cons, ih]; rfl
    · exact ih

theorem holds_toT (notes : List SM.Note) :
    (notes.filter (fun n => n.kind = SM.Kind.hold)).map (fun n => (n.time, (n.col : Int), n.length)) =
      ((notes.map toT).filter (fun n => n.kind = SM.Kind.hold)).map (fun n => (n.time, (n.col : Int), n.length)) := by
  induction notes with
  | nil => rfl
  | cons a t ih =>
    simp only [List.map_cons, List.filter_cons]
    have : (toT a).kind = a.kind := rfl
    rw [this]
    split
    · simp only [List.map_cons, ih]; rfl
    · exact ih

/-! ### the assembled statement -/

theorem ofSMChart_hits (o : Rat) (b : List (Rat × Rat)) (c : SM.DChart) :
    (ofSMChart o b c).hits =
      ((SM.timedNotes o b c).filter (fun n => n.kind = SM.Kind.hit)).map (fun n => (n.time, (n.col : Int))) := rfl

theorem ofSMChart_holds (o : Rat) (b : List (Rat × Rat)) (c : SM.DChart) :
    (ofSMChart o b c).holds =
      ((SM.timedNotes o b c).filter (fun n => n.kind = SM.Kind.hold)).map
        (fun n => (n.time, (n.col : Int), n.length)) := rfl

theorem ofSMChart_bpms (o : Rat) (b : List (Rat × Rat)) (c : SM.DChart) :
    (ofSMChart o b c).bpms = (SM.tempoTimes o b).zip (b.map (·.2)) := rfl

theorem ofSMRead_hits (rb : List (Rat × Rat)) (notes : List SM.Note) :
    (ofSMRead rb notes).hits =
      (notes.filter (fun n => n.kind = SM.Kind.hit)).map (fun n => (n.time, (n.col : Int))) := rfl

theorem ofSMRead_holds (rb : List (Rat × Rat)) (notes : List SM.Note) :
    (ofSMRead rb notes).holds =
      (notes.filter (fun n => n.kind = SM.Kind.hold)).map (fun n => (n.time, (n.col : Int), n.length)) := rfl

/-- **`sm_read_abstract` — reader = denotation, as abstract charts.**  Under C10's hypotheses on the tempo list
(`sm_times`), tempo changes on measure lines (`tempo_list_keeps_times_partial`), `#BPMS` pairs in ascending beat order,
note data on which the reader's splitter and the specification's scanner agree, measures with a multiple-of-4 number
of rows, rows no longer than `MAX_KEYS` and well-bracketed columns: what `_read_notes` returns is — as an abstract
chart (hits, holds as multisets; tempo points as a list) — the abstract chart of the specification's denotation of
the `#NOTES` value. -/
theorem sm_read_abstract (σf : List Snap → List Nat) (hσ : ∀ qs, SortsAsc (σf qs) qs)
    (data : SM.Str) (t0 : Rat) (cs : List BcSnap) (ss : Bool)
    (hwf : wfChanges cs = true) (hs : sortedSnaps cs = true) (h0 : firstAtZero cs = true)
    (hgc : gridCompatible (grid defaultMaxDiv) cs = true) (hm : metronomeOk cs = true)
    (hline : ∀ c ∈ cs, c.snap.beat = 0)
    (offsetSec : Rat) (b : List (Rat × Rat)) (ho : -(1000 * offsetSec) = t0) (hb : SM.changesOf b = cs)
    (hsorted : b.Pairwise (fun x y => decide (x.1 ≤ y.1) = true))
    (ms : List (List SM.Str)) (hms : SM.measuresOf data = ms) (hsc : SM.scanRows data = ms)
    (h4 : ∀ rows ∈ ms, 4 ∣ rows.length) (hcol : ∀ e ∈ SM.eventsOf ms, e.col < SM.maxKeys)
    (hok : (SM.pairAll (SM.events ms)).ok = true) (hclosed : (SM.pairAll (SM.events ms)).opened = [])
    (rb : List (Rat × Rat)) (notes : List SM.Note)
    (h : SM.readNotesWith σf data (some t0) (some cs) ss = .ok (rb, notes))
    (ps : List SM.Str) (hps : ps.getD 5 [] = data) :
    (ofSMRead rb notes).hits.Perm (ofSMChart offsetSec b (SM.denoteChart ps)).hits ∧
    (ofSMRead rb notes).holds.Perm (ofSMChart offsetSec b (SM.denoteChart ps)).holds ∧
    (ofSMRead rb notes).bpms = (ofSMChart offsetSec b (SM.denoteChart ps)).bpms := by
  obtain ⟨st, hst, hex⟩ := C02.sm_times σf hσ data t0 cs ss hwf hs h0 hgc hm rb notes h
  unfold SM.parseNotes at hst
  rw [hms] at hst
  obtain ⟨st', hst', hch, hcr, hperm⟩ := C02.reader_notes_eq_spec ms h4 hcol hok hclosed
  have hst_eq : st = st' := by
    rw [hst] at hst'
    cases hst'
    rfl
  subst hst_eq
  have hpos : SM.PosIn st := SM.runEvents_posIn _ _ _ hst SM.posIn_init
  have hrange : ∀ s ∈ st.seen, 0 ≤ s.beat ∧ s.beat < 4 :=
    C02.runEvents_seen (fun s => 0 ≤ s.beat ∧ s.beat < 4) _ _ _ hst (by simp) (eventsOf_range ms)
  have hseen : ∀ s ∈ st.seen, SM.timeOfBeat offsetSec b (SM.absBeat s) = timeAt t0 cs s := by
    intro s hsm
    unfold SM.timeOfBeat
    rw [ho, hb]
    exact SM.timeAt_respects t0 cs _ _ (snapOfBeat_absBeat_eqv s (hrange s hsm).1 (hrange s hsm).2)
  have hnp := expandWith_perm (timeAt t0 cs) st hch hcr notes hex
  have hdc : (SM.denoteChart ps).notes = (SM.pairAll (SM.events ms)).notes.reverse := by
    unfold SM.denoteChart
    simp only [hps, hsc]
  have hT : (notes.map toT).Perm (SM.timedNotes offsetSec b (SM.denoteChart ps)) := by
    rw [timedNotes_eq, hdc]
    refine ((hnp.map toT).trans ?_)
    rw [← modelNotes_timed (SM.timeOfBeat offsetSec b) (timeAt t0 cs) st hpos hseen]
    exact ((hperm.symm).trans (List.reverse_perm _).symm).map _
  refine ⟨?_, ?_, ?_⟩
  · rw [ofSMChart_hits, ofSMRead_hits, hits_toT]
    exact (hT.filter _).map _
  · rw [ofSMChart_holds, ofSMRead_holds, holds_toT]
    exact (hT.filter _).map _
  · rw [ofSMChart_bpms]
    exact sm_read_bpms σf data t0 cs ss hwf hs h0 hline offsetSec b ho hb hsorted rb notes h


/-- the statement for the executable reader `readNotes` (stable ascending argsort) -/
theorem sm_read_abstract_exec
    (data : SM.Str) (t0 : Rat) (cs : List BcSnap) (ss : Bool)
    (hwf : wfChanges cs = true) (hs : sortedSnaps cs = true) (h0 : firstAtZero cs = true)
    (hgc : gridCompatible (grid defaultMaxDiv) cs = true) (hm : metronomeOk cs = true)
    (hline : ∀ c ∈ cs, c.snap.beat = 0)
    (offsetSec : Rat) (b : List (Rat × Rat)) (ho : -(1000 * offsetSec) = t0) (hb : SM.changesOf b = cs)
    (hsorted : b.Pairwise (fun x y => decide (x.1 ≤ y.1) = true))
    (ms : List (List SM.Str)) (hms : SM.measuresOf data = ms) (hsc : SM.scanRows data = ms)
    (h4 : ∀ rows ∈ ms, 4 ∣ rows.length) (hcol : ∀ e ∈ SM.eventsOf ms, e.col < SM.maxKeys)
    (hok : (SM.pairAll (SM.events ms)).ok = true) (hclosed : (SM.pairAll (SM.events ms)).opened = [])
    (rb : List (Rat × Rat)) (notes : List SM.Note)
    (h : SM.readNotes data (some t0) (some cs) ss = .ok (rb, notes))
    (ps : List SM.Str) (hps : ps.getD 5 [] = data) :
    (ofSMRead rb notes).hits.Perm (ofSMChart offsetSec b (SM.denoteChart ps)).hits ∧
    (ofSMRead rb notes).holds.Perm (ofSMChart offsetSec b (SM.denoteChart ps)).holds ∧
    (ofSMRead rb notes).bpms = (ofSMChart offsetSec b (SM.denoteChart ps)).bpms :=
  sm_read_abstract (stableArgsort Snap.lt) stableArgsort_sortsAsc data t0 cs ss hwf hs h0 hgc hm hline offsetSec b
    ho hb hsorted ms hms hsc h4 hcol hok hclosed rb notes h ps hps


/-! ### non-vacuity -/

def sampleData : SM.Str :=
  ['1','0','0','0','\n','0','1','0','0','\n','0','0','1','0','\n','0','0','0','1','\n',',','\n','2','0','0','0','\n','0','0','0','0','\n','3','0','0','0','\n','0','0','0','0']

/-- the hypotheses of `sm_read_abstract` hold together on a concrete chart (four taps and a hold over two measures,
`#OFFSET:-0.5`, `#BPMS:0=120`), the reader returns, and both abstract charts are the expected one -/
example :
    let cs : List BcSnap := [⟨120, 4, ⟨0, 0, some 4⟩⟩]
    let b : List (Rat × Rat) := [(0, 120)]
    let ms := SM.measuresOf sampleData
    let ps : List SM.Str := [[], [], [], ['5'], ['0'], sampleData]
    wfChanges cs = true ∧ sortedSnaps cs = true ∧ firstAtZero cs = true ∧
    gridCompatible (grid defaultMaxDiv) cs = true ∧ metronomeOk cs = true ∧ (∀ c ∈ cs, c.snap.beat = 0) ∧
    -(1000 * (-1/2 : Rat)) = 500 ∧ SM.changesOf b = cs ∧ SM.scanRows sampleData = ms ∧
    (∀ rows ∈ ms, 4 ∣ rows.length) ∧ (∀ e ∈ SM.eventsOf ms, e.col < SM.maxKeys) ∧
    (SM.pairAll (SM.events ms)).ok = true ∧ (SM.pairAll (SM.events ms)).opened = [] ∧
    (SM.readNotes sampleData (some 500) (some cs) true).toOption.map (fun r => ofSMRead r.1 r.2) =
      some { hits := [(500, 0), (1000, 1), (1500, 2), (2000, 3)], holds := [(2500, 0, 1000)], bpms := [(500, 120)] } ∧
    ofSMChart (-1/2) b (SM.denoteChart ps) =
      { hits := [(500, 0), (1000, 1), (1500, 2), (2000, 3)], holds := [(2500, 0, 1000)], bpms := [(500, 120)] } := by
  decide +kernel


end Reamber.Pipeline
