/-
C03 — a written row denotes the object's beat exactly: with `measure = beat // 4`, `den = 4·denominator`,
`num = numerator % den` and a row count divisible by `den`, row `num·den_max/den` of measure `measure` is at beat
`4·measure + 4·row/den_max = beat`.
-/
import Reamber.Lemmas.SMDefs
import Reamber.Lemmas.Snapper
import Mathlib.Tactic.Ring
import Mathlib.Tactic.Linarith
import Mathlib.Tactic.FieldSimp
import Mathlib.Algebra.Order.Field.Rat

namespace Reamber.SM

open Reamber.Timing

theorem slot_beat_exact (beat : Rat) (col : Nat) (ch : Char) (dmax : Nat) (hpos : 0 < dmax)
    (hd : (slotOf beat col ch).den ∣ dmax) :
    4 * ((slotOf beat col ch).measure : Rat) +
      4 * ((rowOf (slotOf beat col ch).num (slotOf beat col ch).den dmax : Nat) : Rat) / (dmax : Rat) = beat := by
  have hq : 0 < beat.den := beat.den_pos
  have hDpos : (0 : Int) < ((beat.den * 4 : Nat) : Int) := by
    have : 0 < beat.den * 4 := by omega
    exact_mod_cast this
  -- Euclidean division of the numerator by 4·denominator
  have hm0 := Int.emod_nonneg beat.num (ne_of_gt hDpos)
  have hmD := Int.emod_lt_of_pos beat.num hDpos
  have hp := Int.emod_add_mul_ediv beat.num ((beat.den * 4 : Nat) : Int)
  generalize hn : beat.num / ((beat.den * 4 : Nat) : Int) = n at hp
  generalize hmm : beat.num % ((beat.den * 4 : Nat) : Int) = m at hp hm0 hmD
  have hbeat : beat = (beat.num : Rat) / (beat.den : Rat) := (Rat.num_div_den beat).symm
  have hqR : (0 : Rat) < (beat.den : Rat) := by exact_mod_cast hq
  have hpR : (beat.num : Rat) = (m : Rat) + 4 * (beat.den : Rat) * (n : Rat) := by
    have := congrArg (fun z : Int => (z : Rat)) hp
    push_cast at this
    linarith
  have hm0R : (0 : Rat) ≤ (m : Rat) := by exact_mod_cast hm0
  have hmDR : (m : Rat) < 4 * (beat.den : Rat) := by
    have : (m : Rat) < (((beat.den * 4 : Nat) : Int) : Rat) := by exact_mod_cast hmD
    push_cast at this
    linarith
  -- the fields of the slot
  have hmeas : (slotOf beat col ch).measure = n := by
    show (beat / ((metronome : Nat) : Rat)).floor = n
    apply floor_eq_of
    · rw [hbeat, hpR]
      simp only [metronome]
      rw [div_div, le_div_iff₀ (by positivity)]
      push_cast
      nlinarith
    · rw [hbeat, hpR]
      simp only [metronome]
      rw [div_div, div_lt_iff₀ (by positivity)]
      push_cast
      nlinarith
  have hnum : ((slotOf beat col ch).num : Int) = m := by
    show (((beat.num % ((beat.den * metronome : Nat) : Int)).toNat : Nat) : Int) = m
    simp only [metronome]
    rw [hmm]
    exact Int.toNat_of_nonneg hm0
  have hden : (slotOf beat col ch).den = beat.den * 4 := rfl
  obtain ⟨e, he⟩ := hd
  rw [hden] at he
  have hrow : rowOf (slotOf beat col ch).num (slotOf beat col ch).den dmax = (slotOf beat col ch).num * e := by
    unfold rowOf
    rw [hden, he, ← Nat.mul_assoc, Nat.mul_comm _ (beat.den * 4), Nat.mul_assoc]
    exact Nat.mul_div_cancel_left _ (by omega)
  have hnumR : (((slotOf beat col ch).num : Nat) : Rat) = (m : Rat) := by
    have := congrArg (fun z : Int => (z : Rat)) hnum
    simpa using this
  have hepos : (0 : Rat) < (e : Rat) := by
    have : 0 < e := by
      rcases Nat.eq_zero_or_pos e with h | h
      · subst h; simp at he; omega
      · exact h
    exact_mod_cast this
  have hfin : beat = ((m : Rat) + 4 * (beat.den : Rat) * (n : Rat)) / (beat.den : Rat) := by
    rw [← hpR]; exact hbeat
  rw [hmeas, hrow, he]
  push_cast
  rw [hnumR]
  refine Eq.trans ?_ hfin.symm
  field_simp
  ring

end Reamber.SM
