/- C01 — whole file, text → chart: the scanning reader vs the section-by-header denotation on the dialect skeleton. -/
import Reamber.Lemmas.OsuHeader
import Reamber.Lemmas.OsuDenote

set_option linter.unusedSimpArgs false
set_option linter.unusedVariables false

namespace Reamber.Osu

/-! ### lines that carry no metadata; key/value lines -/

theorem metaKeys_eq : metaKeys = modelKeyTable.map (fun e => e.1.toList) := by decide +kernel

theorem metaAssign_notKey (m : Meta) (k : Str) (v : MVal) (h : k ∉ metaKeys) : metaAssign m k v = .ok m := by
  apply metaAssign_other
  intro e he heq
  apply h
  rw [metaKeys_eq, List.mem_map]
  exact ⟨e, he, heq.symm⟩

theorem metaStep_inert (m : Meta) (l : Str) (rest : List Str) (h : Inert l) : metaStep m l rest = .ok m := by
  obtain ⟨h1, h2, h3⟩ := h
  unfold metaStep
  by_cases hl : l = []
  · rw [if_pos hl]
  · rw [if_neg hl]
    unfold keyOf at h1 h2 h3
    simp only [metaAssign_notKey m _ _ h1, if_neg h2, if_neg h3]

/-- one step of the by-the-book key/value reading -/
def kvStep (m : Meta) (l : Str) : Except Err Meta :=
  if l = [] ∨ isComment l then .ok m else
  match split1 ':' l with
  | (k, some v) => metaAssign m k (some v)
  | (_, none) => .ok m

theorem denoteKv_cons (m : Meta) (l : Str) (ls : List Str) :
    denoteKv m (l :: ls) = match kvStep m l with | .ok m' => denoteKv m' ls | .error e => .error e := by
  rw [denoteKv]
  unfold kvStep
  by_cases h : l = [] ∨ isComment l = true
  · simp only [if_pos h]
  · simp only [if_neg h]
    rcases hs : split1 ':' l with ⟨k, _ | v⟩
    · simp
    · simp only []
      cases metaAssign m k (some v) <;> rfl

/-- on a line of a key/value section the scanning loop does what the format says -/
theorem metaStep_kv (m : Meta) (l : Str) (rest : List Str) (h : KvOk l) : metaStep m l rest = kvStep m l := by
  obtain ⟨_, hb, hs, hk⟩ := h
  unfold keyOf at hb hs hk
  unfold metaStep kvStep
  by_cases hl : l = []
  · simp [hl]
  · rw [if_neg hl]
    by_cases hc : isComment l = true
    · have hnk := hk (Or.inl hc)
      simp only [metaAssign_notKey m _ _ hnk, if_neg hb, if_neg hs, hc, or_true, if_true]
    · have hc' : ¬ (l = [] ∨ isComment l = true) := by simp [hl, hc]
      rw [if_neg hc']
      rcases hsp : split1 ':' l with ⟨k, _ | v⟩
      · rw [hsp] at hb hs hk
        have hnk := hk (Or.inr rfl)
        simp only [metaAssign_notKey m _ _ hnk, if_neg hb, if_neg hs]
      · rw [hsp] at hb hs
        simp only []
        cases metaAssign m k (some v) with
        | error e => rfl
        | ok m1 => simp only [if_neg hb, if_neg hs]

theorem readMeta_kv_block (m : Meta) (B rest : List Str) (hB : ∀ l ∈ B, KvOk l) :
    readMeta m (B ++ rest) = match denoteKv m B with | .ok m' => readMeta m' rest | .error e => .error e := by
  induction B generalizing m with
  | nil => rfl
  | cons l t ih =>
    show readMeta m (l :: (t ++ rest)) = _
    rw [readMeta, metaStep_kv m l _ (hB l (by simp)), denoteKv_cons]
    cases kvStep m l with
    | error e => rfl
    | ok m1 => exact ih m1 (fun l' hl' => hB l' (by simp [hl']))

theorem denoteKv_append (m : Meta) (A B : List Str) :
    denoteKv m (A ++ B) = match denoteKv m A with | .ok m' => denoteKv m' B | .error e => .error e := by
  induction A generalizing m with
  | nil => rfl
  | cons l t ih =>
    show denoteKv m (l :: (t ++ B)) = _
    rw [denoteKv_cons, denoteKv_cons]
    cases kvStep m l with
    | error e => rfl
    | ok m1 => exact ih m1

theorem denoteKv_filter_nonblank (m : Meta) (B : List Str) :
    denoteKv m (B.filter (fun l => l ≠ [])) = denoteKv m B := by
  induction B generalizing m with
  | nil => rfl
  | cons l t ih =>
    by_cases hl : l = []
    · subst hl
      rw [List.filter_cons]
      simp only [ne_eq, not_true_eq_false, decide_false, Bool.false_eq_true, if_false]
      rw [denoteKv_cons, ih]
      simp [kvStep]
    · rw [List.filter_cons]
      simp only [ne_eq, hl, not_false_eq_true, decide_true, if_true]
      rw [denoteKv_cons, denoteKv_cons]
      cases kvStep m l with
      | error e => rfl
      | ok m1 => exact ih m1

/-! ### sections -/

theorem sections_noHeader (A : List Str) (hA : ∀ l ∈ A, isHeader l = false) : sections A = (A, []) := by
  induction A with
  | nil => rfl
  | cons l t ih =>
    rw [sections, ih (fun l' hl' => hA l' (by simp [hl']))]
    simp [hA l (by simp)]

theorem sections_append_header (A : List Str) (hA : ∀ l ∈ A, isHeader l = false) (h : Str) (hh : isHeader h = true)
    (rest : List Str) : sections (A ++ h :: rest) = (A, (h, (sections rest).1) :: (sections rest).2) := by
  induction A with
  | nil => show sections (h :: rest) = _; rw [sections]; simp [hh]
  | cons l t ih =>
    show sections (l :: (t ++ h :: rest)) = _
    rw [sections, ih (fun l' hl' => hA l' (by simp [hl']))]
    simp [hA l (by simp)]

end Reamber.Osu

namespace Reamber.Osu

/-! ### the `[Events]` block, reader side -/

theorem readMeta_inert_block (m : Meta) (A rest : List Str) (hA : ∀ l ∈ A, Inert l) :
    readMeta m (A ++ rest) = readMeta m rest := by
  induction A with
  | nil => rfl
  | cons l t ih =>
    show readMeta m (l :: (t ++ rest)) = _
    rw [readMeta_step m m _ _ (metaStep_inert m l _ (hA l (by simp)))]
    exact ih (fun l' hl' => hA l' (by simp [hl']))

theorem readMeta_nil (m : Meta) : readMeta m [] = .ok m := rfl

theorem inert_nil : Inert [] := by
  refine ⟨?_, ?_, ?_⟩ <;> decide +kernel

/-- no key of the table and none of the markers starts with `0`; none has `,` as 7th character -/
theorem metaKeys_shape : ∀ k ∈ metaKeys, k[6]? ≠ some ',' ∧ k.head? ≠ some '0' := by decide +kernel

theorem inert_of_head0 (t : Str) : Inert ('0' :: t) := by
  have hk : keyOf ('0' :: t) = '0' :: (split1 ':' t).1 := by
    unfold keyOf; rw [split1, if_neg (by decide +kernel)]
  refine ⟨?_, ?_, ?_⟩
  · intro hm
    have := (metaKeys_shape _ hm).2
    rw [hk] at this; exact this rfl
  · rw [hk]; intro h
    have : ('0' :: (split1 ':' t).1).head? = some '0' := rfl
    rw [h] at this; revert this; decide +kernel
  · rw [hk]; intro h
    have : ('0' :: (split1 ':' t).1).head? = some '0' := rfl
    rw [h] at this; revert this; decide +kernel

theorem inert_of_sample_prefix (x : Str) : Inert ("Sample,".toList ++ x) := by
  have hsp := split1_append_noSep ':' "Sample,".toList x (by decide +kernel)
  have hk : keyOf ("Sample,".toList ++ x) = "Sample,".toList ++ (split1 ':' x).1 := by
    unfold keyOf; rw [hsp]
  have h6 : ∀ y : Str, ("Sample,".toList ++ y)[6]? = some ',' := by intro y; rfl
  have h0 : ∀ y : Str, ("Sample,".toList ++ y).head? = some 'S' := by intro y; rfl
  refine ⟨?_, ?_, ?_⟩
  · intro hm
    have := (metaKeys_shape _ hm).1
    rw [hk, h6] at this; exact this rfl
  · rw [hk]; intro h
    have := h0 (split1 ':' x).1
    rw [h] at this; revert this; decide +kernel
  · rw [hk]; intro h
    have := h0 (split1 ':' x).1
    rw [h] at this; revert this; decide +kernel

theorem sampleOk_prefix (l : Str) (h : SampleOk l) : ∃ x, l = "Sample,".toList ++ x := by
  obtain ⟨ft, fl, f, fv, hs⟩ := h
  have := joinWith_splitOn ',' l
  rw [hs] at this
  exact ⟨joinWith ',' [ft, fl, f, fv], by rw [← this]; simp [joinWith]⟩

theorem inert_sample_or_blank (l : Str) (h : l = [] ∨ SampleOk l) : Inert l := by
  rcases h with rfl | h
  · exact inert_nil
  · obtain ⟨x, rfl⟩ := sampleOk_prefix l h
    exact inert_of_sample_prefix x

theorem findC_append (c : Char) (a b : Str) (h : c ∉ a) : findC c (a ++ c :: b) = (a.length : Int) := by
  induction a with
  | nil => simp [findC]
  | cons x xs ih =>
    have hx : x ≠ c := fun e => h (by simp [e])
    have hxs : c ∉ xs := fun e => h (by simp [e])
    show findC c (x :: (xs ++ c :: b)) = _
    rw [findC, if_neg hx, ih hxs]
    simp

/-- `line[line.find('"') + 1 : line.rfind('"')]` of a background line of the dialect is the file name -/
theorem quoted_of_bgOk (bgl name : Str) (h : BgOk bgl name) : quoted bgl = name := by
  obtain ⟨tail, rfl, hq, _, hqt, _⟩ := h
  have hf : findC '"' ("0,0,\"".toList ++ name ++ '"' :: tail) = 4 := by
    have : "0,0,\"".toList ++ name ++ '"' :: tail = "0,0,".toList ++ '"' :: (name ++ '"' :: tail) := by simp
    rw [this, findC_append '"' "0,0,".toList _ (by decide +kernel)]; rfl
  have hrev : ("0,0,\"".toList ++ name ++ '"' :: tail).reverse = tail.reverse ++ '"' :: (name.reverse ++ "\",0,0".toList) := by
    simp
  have hr : rfindC '"' ("0,0,\"".toList ++ name ++ '"' :: tail) = (name.length : Int) + 5 := by
    unfold rfindC
    rw [hrev, findC_append '"' tail.reverse _ (by simpa using hqt)]
    simp; omega
  unfold quoted
  rw [hf, hr]
  have hlen : ("0,0,\"".toList ++ name ++ '"' :: tail).length = name.length + tail.length + 6 := by simp; omega
  unfold pySlice sliceIx
  rw [hlen]
  have n1 : ¬ ((4 : Int) + 1 < 0) := by omega
  have n2 : ¬ ((name.length : Int) + 5 < 0) := by omega
  simp only [if_neg n1, if_neg n2]
  have t1 : ((4 : Int) + 1).toNat = 5 := rfl
  have t2 : ((name.length : Int) + 5).toNat = name.length + 5 := by omega
  rw [t1, t2]
  have m1 : min 5 (name.length + tail.length + 6) = 5 := by omega
  have m2 : min (name.length + 5) (name.length + tail.length + 6) = name.length + 5 := by omega
  rw [m1, m2]
  have : "0,0,\"".toList ++ name ++ '"' :: tail = ("0,0,\"".toList ++ name) ++ '"' :: tail := by simp
  rw [this, List.take_left' (by simp), List.drop_left' (by decide +kernel)]

theorem bgOk_head (bgl name : Str) (h : BgOk bgl name) : ∃ t, bgl = '0' :: t := by
  obtain ⟨tail, rfl, _⟩ := h
  exact ⟨",0,\"".toList ++ name ++ '"' :: tail, by simp⟩

/-- the `[Events]` block under the scanning loop: the background name from the line after its marker, the samples
from the lines after theirs, nothing else -/
theorem readMeta_events (m : Meta) (A B S : List Str) (bgl name : Str) (ss : List Sample)
    (hA : ∀ l ∈ A, Inert l) (hbg : BgOk bgl name) (hB : ∀ l ∈ B, Inert l) (hS : ∀ l ∈ S, l = [] ∨ SampleOk l)
    (hss : mapE readSample (S.filter (startsWith pSample)) = .ok ss) :
    readMeta m (A ++ kBackground :: bgl :: (B ++ kSamples :: S)) =
      .ok { m with backgroundFileName := name, samples := ss } := by
  obtain ⟨t, hbt⟩ := bgOk_head bgl name hbg
  rw [readMeta_inert_block m A _ hA]
  rw [readMeta_step _ _ _ _ (metaStep_background _ _ _), quoted_of_bgOk bgl name hbg]
  rw [readMeta_step _ _ _ _ (metaStep_inert _ bgl _ (by rw [hbt]; exact inert_of_head0 t))]
  rw [readMeta_inert_block _ B _ hB]
  rw [readMeta_step _ _ _ _ (metaStep_samples _ _ _ hss)]
  have := readMeta_inert_block { { m with backgroundFileName := name } with samples := ss } S []
    (fun l hl => inert_sample_or_blank l (hS l hl))
  rw [List.append_nil] at this
  rw [this]; rfl

end Reamber.Osu

namespace Reamber.Osu

/-! ### the `[Events]` block, by the book -/

theorem filterMapE_append {α β} (f : α → Except Err (Option β)) (A B : List α) :
    filterMapE f (A ++ B) =
      match filterMapE f A with
      | .error e => .error e
      | .ok ra => match filterMapE f B with
        | .error e => .error e
        | .ok rb => .ok (ra ++ rb) := by
  induction A with
  | nil => simp only [List.nil_append, filterMapE]; cases filterMapE f B <;> rfl
  | cons a t ih =>
    show filterMapE f (a :: (t ++ B)) = _
    rw [filterMapE, ih, filterMapE]
    cases f a with
    | error e => rfl
    | ok o =>
      cases filterMapE f t with
      | error e => rfl
      | ok ra =>
        cases filterMapE f B with
        | error e => rfl
        | ok rb => cases o <;> rfl

theorem filterMapE_none {α β} (f : α → Except Err (Option β)) (A : List α) (h : ∀ a ∈ A, f a = .ok none) :
    filterMapE f A = .ok [] := by
  induction A with
  | nil => rfl
  | cons a t ih =>
    rw [filterMapE, h a (by simp), ih (fun a' ha' => h a' (by simp [ha']))]

theorem denoteSample_eq_readSample (l : Str) (h : SampleOk l) : denoteSample l = (readSample l).map some := by
  obtain ⟨ft, fl, f, fv, hs⟩ := h
  unfold denoteSample readSample
  simp only [hs]
  rcases readFloat_cases ft with ⟨v1, e1⟩ | e1 <;> rcases readInt_cases fv with ⟨v2, e2⟩ | e2 <;>
    simp [e1, e2, bind, Except.bind, pure, Except.pure, Except.map]

theorem filterMapE_denoteSample (L : List Str) (h : ∀ l ∈ L, SampleOk l) :
    filterMapE denoteSample L = mapE readSample L := by
  induction L with
  | nil => rfl
  | cons l t ih =>
    rw [filterMapE, mapE, denoteSample_eq_readSample l (h l (by simp)), ih (fun l' hl' => h l' (by simp [hl']))]
    cases readSample l with
    | error e => rfl
    | ok s => simp only [Except.map]; cases mapE readSample t <;> rfl

theorem sampleOk_facts (l : Str) (h : SampleOk l) :
    startsWith pSample l = true ∧ l ≠ [] ∧ isComment l = false ∧ isHeader l = false := by
  obtain ⟨x, rfl⟩ := sampleOk_prefix l h
  refine ⟨rfl, by simp, rfl, ?_⟩
  unfold isHeader
  have : ("Sample,".toList ++ x).head? = some 'S' := rfl
  rw [this]; rfl

/-- among blank lines and sample events, the three selections coincide -/
theorem sample_filters (S : List Str) (hS : ∀ l ∈ S, l = [] ∨ SampleOk l) :
    S.filter (startsWith pSample) = (S.filter (fun l => decide (l ≠ []))).filter (fun l => !isComment l) ∧
    ∀ l ∈ S.filter (startsWith pSample), SampleOk l := by
  induction S with
  | nil => exact ⟨rfl, by simp⟩
  | cons l t ih =>
    obtain ⟨i1, i2⟩ := ih (fun l' hl' => hS l' (by simp [hl']))
    rcases hS l (by simp) with rfl | hl
    · have : startsWith pSample [] = false := rfl
      simp only [List.filter_cons, this, ne_eq, not_true_eq_false, decide_false, Bool.false_eq_true, if_false]
      exact ⟨i1, i2⟩
    · obtain ⟨f1, f2, f3, _⟩ := sampleOk_facts l hl
      simp only [List.filter_cons, f1, if_true, ne_eq, f2, not_false_eq_true, decide_true, f3, Bool.not_false]
      refine ⟨by rw [i1], ?_⟩
      intro l' hl'
      simp only [List.mem_cons] at hl'
      rcases hl' with rfl | hl'
      · exact hl
      · exact i2 l' hl'

theorem denoteBackground_skip (A rest : List Str)
    (h : ∀ l ∈ A, ∀ ty a f r, splitOn ',' l = ty :: a :: f :: r → ty ≠ ['0']) :
    denoteBackground (A ++ rest) = denoteBackground rest := by
  induction A with
  | nil => rfl
  | cons l t ih =>
    show denoteBackground (l :: (t ++ rest)) = _
    have ih' := ih (fun l' hl' => h l' (by simp [hl']))
    rw [denoteBackground]
    rcases hs : splitOn ',' l with _ | ⟨ty, _ | ⟨a, _ | ⟨f, r⟩⟩⟩
    · simpa using ih'
    · simpa using ih'
    · simpa using ih'
    · have := h l (by simp) ty a f r hs
      simp only [if_neg this]; exact ih'

theorem split_bgOk (bgl name : Str) (h : BgOk bgl name) :
    ∃ r, splitOn ',' bgl = ['0'] :: ['0'] :: ('"' :: (name ++ ['"'])) :: r := by
  obtain ⟨tail, rfl, _, hc, _, ht⟩ := h
  have e : "0,0,\"".toList ++ name ++ '"' :: tail = ['0'] ++ ',' :: (['0'] ++ ',' :: (('"' :: (name ++ ['"'])) ++ tail)) := by
    simp
  rw [e, splitOn_append_sep ',' ['0'] _ (by decide +kernel), splitOn_append_sep ',' ['0'] _ (by decide +kernel)]
  have hf : ',' ∉ ('"' :: (name ++ ['"'])) := by
    simp only [List.mem_cons, List.mem_append, List.mem_singleton, not_or]
    exact ⟨by decide +kernel, hc, by decide +kernel⟩
  rcases ht with rfl | ht
  · rw [List.append_nil, splitOn_noSep ',' _ hf]; exact ⟨[], rfl⟩
  · cases tail with
    | nil => simp at ht
    | cons c t' =>
      simp only [List.head?_cons, Option.some.injEq] at ht
      subst ht
      rw [splitOn_append_sep ',' _ t' hf]; exact ⟨_, rfl⟩

theorem denoteBackground_bg (bgl name : Str) (rest : List Str) (h : BgOk bgl name) :
    denoteBackground (bgl :: rest) = some name := by
  obtain ⟨r, hs⟩ := split_bgOk bgl name h
  rw [denoteBackground, hs]
  have hl : ('"' :: (name ++ ['"'])).getLast? = some '"' := by
    have : '"' :: (name ++ ['"']) = ('"' :: name) ++ ['"'] := rfl
    rw [this, List.getLast?_append]; rfl
  simp [hl]

theorem denoteSample_bg (bgl name : Str) (h : BgOk bgl name) : denoteSample bgl = .ok none := by
  obtain ⟨r, hs⟩ := split_bgOk bgl name h
  unfold denoteSample
  rw [hs]
  rcases r with _ | ⟨x, _ | ⟨y, _ | ⟨z, w⟩⟩⟩ <;> simp

end Reamber.Osu

namespace Reamber.Osu

/-! ### the sections of a skeleton -/

/-- header lines followed by their bodies -/
def flatBlocks : List (Str × List Str) → List Str
  | [] => []
  | b :: bs => b.1 :: (b.2 ++ flatBlocks bs)

theorem sections_blocks (P : List Str) (hP : ∀ l ∈ P, isHeader l = false) (bs : List (Str × List Str))
    (hb : ∀ b ∈ bs, isHeader b.1 = true ∧ ∀ l ∈ b.2, isHeader l = false) :
    sections (P ++ flatBlocks bs) = (P, bs) := by
  induction bs generalizing P with
  | nil => simp only [flatBlocks, List.append_nil]; exact sections_noHeader P hP
  | cons b t ih =>
    show sections (P ++ b.1 :: (b.2 ++ flatBlocks t)) = _
    rw [sections_append_header P hP b.1 (hb b (by simp)).1, ih b.2 (hb b (by simp)).2 (fun b' hb' => hb b' (by simp [hb']))]

abbrev nb : Str → Bool := fun l => decide (l ≠ [])
abbrev nc : Str → Bool := fun l => !isComment l

/-- the sections of a skeleton after the blank lines are dropped -/
def Skeleton.blocks (s : Skeleton) : List (Str × List Str) :=
  (hGeneral, s.G.filter nb) :: ((if s.hasEditor then [(hEditor, s.E.filter nb)] else []) ++
   [(hMetadata, s.M.filter nb), (hDifficulty, s.D.filter nb),
    (hEvents, s.A.filter nb ++ kBackground :: s.bgl :: (s.B.filter nb ++ kSamples :: s.S.filter nb)),
    (hTiming, s.T.filter nb), (hObjects, s.O.filter nb)])

theorem bgl_ne_nil (bgl name : Str) (h : BgOk bgl name) : bgl ≠ [] := by
  obtain ⟨t, rfl⟩ := bgOk_head bgl name h; simp

theorem Skeleton.filter_lines (s : Skeleton) (hwf : s.WF) :
    s.lines.filter nb = s.pre.filter nb ++ flatBlocks s.blocks := by
  have hb := bgl_ne_nil _ _ hwf.bg
  have e1 : nb hGeneral = true := by decide +kernel
  have e2 : nb hEditor = true := by decide +kernel
  have e3 : nb hMetadata = true := by decide +kernel
  have e4 : nb hDifficulty = true := by decide +kernel
  have e5 : nb hEvents = true := by decide +kernel
  have e6 : nb hTiming = true := by decide +kernel
  have e7 : nb hObjects = true := by decide +kernel
  have e8 : nb kBackground = true := by decide +kernel
  have e9 : nb kSamples = true := by decide +kernel
  have e10 : nb s.bgl = true := by simp [nb, hb]
  unfold Skeleton.lines Skeleton.head Skeleton.events Skeleton.blocks
  cases s.hasEditor <;>
    simp only [List.filter_append, List.filter_cons, e1, e2, e3, e4, e5, e6, e7, e8, e9, e10, if_true, flatBlocks,
      List.append_assoc, List.cons_append, List.nil_append, List.append_nil, Bool.false_eq_true, if_false,
      List.filter_nil]

end Reamber.Osu

namespace Reamber.Osu

theorem filter_sub {p : Str → Prop} (X : List Str) (f : Str → Bool) (h : ∀ l ∈ X, p l) : ∀ l ∈ X.filter f, p l :=
  fun l hl => h l (List.mem_of_mem_filter hl)

theorem Skeleton.sections_eq (s : Skeleton) (hwf : s.WF) : (sections (s.lines.filter nb)).2 = s.blocks := by
  rw [s.filter_lines hwf]
  have hpre : ∀ l ∈ s.pre.filter nb, isHeader l = false := filter_sub (p := fun l => isHeader l = false) _ _ (fun l hl => (hwf.pre l hl).2)
  have kv : ∀ X : List Str, (∀ l ∈ X, KvOk l) → ∀ l ∈ X.filter nb, isHeader l = false :=
    fun X hX => filter_sub (p := fun l => isHeader l = false) _ _ (fun l hl => (hX l hl).1)
  have hbgl : isHeader s.bgl = false := by
    obtain ⟨t, ht⟩ := bgOk_head _ _ hwf.bg
    unfold isHeader; rw [ht]; rfl
  have hev : ∀ l ∈ s.A.filter nb ++ kBackground :: s.bgl :: (s.B.filter nb ++ kSamples :: s.S.filter nb),
      isHeader l = false := by
    intro l hl
    simp only [List.mem_append, List.mem_cons] at hl
    rcases hl with hl | rfl | rfl | hl | rfl | hl
    · exact (hwf.A l (List.mem_of_mem_filter hl)).2.1
    · decide +kernel
    · exact hbgl
    · exact (hwf.B l (List.mem_of_mem_filter hl)).2.1
    · decide +kernel
    · rcases hwf.S l (List.mem_of_mem_filter hl) with rfl | h
      · rfl
      · exact (sampleOk_facts l h).2.2.2
  have hT : ∀ l ∈ s.T.filter nb, isHeader l = false := by
    intro l hl
    rcases hwf.T l (List.mem_of_mem_filter hl) with rfl | h
    · rfl
    · exact h.2.1
  have hO : ∀ l ∈ s.O.filter nb, isHeader l = false := by
    intro l hl
    rcases hwf.O l (List.mem_of_mem_filter hl) with rfl | h
    · rfl
    · exact h.2.1
  rw [sections_blocks _ hpre]
  intro b hb
  unfold Skeleton.blocks at hb
  cases hE : s.hasEditor <;> rw [hE] at hb <;>
    simp only [List.mem_cons, List.mem_append, List.not_mem_nil, or_false, if_true, Bool.false_eq_true, if_false,
      false_or] at hb
  · rcases hb with rfl | rfl | rfl | rfl | rfl | rfl
    · exact ⟨(by decide +kernel : isHeader hGeneral = true), kv _ hwf.G⟩
    · exact ⟨(by decide +kernel : isHeader hMetadata = true), kv _ hwf.M⟩
    · exact ⟨(by decide +kernel : isHeader hDifficulty = true), kv _ hwf.D⟩
    · exact ⟨(by decide +kernel : isHeader hEvents = true), hev⟩
    · exact ⟨(by decide +kernel : isHeader hTiming = true), hT⟩
    · exact ⟨(by decide +kernel : isHeader hObjects = true), hO⟩
  · rcases hb with rfl | rfl | rfl | rfl | rfl | rfl | rfl
    · exact ⟨(by decide +kernel : isHeader hGeneral = true), kv _ hwf.G⟩
    · exact ⟨(by decide +kernel : isHeader hEditor = true), kv _ hwf.E⟩
    · exact ⟨(by decide +kernel : isHeader hMetadata = true), kv _ hwf.M⟩
    · exact ⟨(by decide +kernel : isHeader hDifficulty = true), kv _ hwf.D⟩
    · exact ⟨(by decide +kernel : isHeader hEvents = true), hev⟩
    · exact ⟨(by decide +kernel : isHeader hTiming = true), hT⟩
    · exact ⟨(by decide +kernel : isHeader hObjects = true), hO⟩

theorem Skeleton.bodies (s : Skeleton) (hwf : s.WF) :
    body "[General]" s.blocks = s.G.filter nb ∧ body "[Editor]" s.blocks = s.E.filter nb ∧
    body "[Metadata]" s.blocks = s.M.filter nb ∧ body "[Difficulty]" s.blocks = s.D.filter nb ∧
    body "[Events]" s.blocks =
      s.A.filter nb ++ kBackground :: s.bgl :: (s.B.filter nb ++ kSamples :: s.S.filter nb) ∧
    body "[TimingPoints]" s.blocks = s.T.filter nb ∧ body "[HitObjects]" s.blocks = s.O.filter nb := by
  have f00 : decide (hGeneral = "[General]".toList) = true := by decide +kernel
  have f01 : decide (hGeneral = "[Editor]".toList) = false := by decide +kernel
  have f02 : decide (hGeneral = "[Metadata]".toList) = false := by decide +kernel
  have f03 : decide (hGeneral = "[Difficulty]".toList) = false := by decide +kernel
  have f04 : decide (hGeneral = "[Events]".toList) = false := by decide +kernel
  have f05 : decide (hGeneral = "[TimingPoints]".toList) = false := by decide +kernel
  have f06 : decide (hGeneral = "[HitObjects]".toList) = false := by decide +kernel
  have f10 : decide (hEditor = "[General]".toList) = false := by decide +kernel
  have f11 : decide (hEditor = "[Editor]".toList) = true := by decide +kernel
  have f12 : decide (hEditor = "[Metadata]".toList) = false := by decide +kernel
  have f13 : decide (hEditor = "[Difficulty]".toList) = false := by decide +kernel
  have f14 : decide (hEditor = "[Events]".toList) = false := by decide +kernel
  have f15 : decide (hEditor = "[TimingPoints]".toList) = false := by decide +kernel
  have f16 : decide (hEditor = "[HitObjects]".toList) = false := by decide +kernel
  have f20 : decide (hMetadata = "[General]".toList) = false := by decide +kernel
  have f21 : decide (hMetadata = "[Editor]".toList) = false := by decide +kernel
  have f22 : decide (hMetadata = "[Metadata]".toList) = true := by decide +kernel
  have f23 : decide (hMetadata = "[Difficulty]".toList) = false := by decide +kernel
  have f24 : decide (hMetadata = "[Events]".toList) = false := by decide +kernel
  have f25 : decide (hMetadata = "[TimingPoints]".toList) = false := by decide +kernel
  have f26 : decide (hMetadata = "[HitObjects]".toList) = false := by decide +kernel
  have f30 : decide (hDifficulty = "[General]".toList) = false := by decide +kernel
  have f31 : decide (hDifficulty = "[Editor]".toList) = false := by decide +kernel
  have f32 : decide (hDifficulty = "[Metadata]".toList) = false := by decide +kernel
  have f33 : decide (hDifficulty = "[Difficulty]".toList) = true := by decide +kernel
  have f34 : decide (hDifficulty = "[Events]".toList) = false := by decide +kernel
  have f35 : decide (hDifficulty = "[TimingPoints]".toList) = false := by decide +kernel
  have f36 : decide (hDifficulty = "[HitObjects]".toList) = false := by decide +kernel
  have f40 : decide (hEvents = "[General]".toList) = false := by decide +kernel
  have f41 : decide (hEvents = "[Editor]".toList) = false := by decide +kernel
  have f42 : decide (hEvents = "[Metadata]".toList) = false := by decide +kernel
  have f43 : decide (hEvents = "[Difficulty]".toList) = false := by decide +kernel
  have f44 : decide (hEvents = "[Events]".toList) = true := by decide +kernel
  have f45 : decide (hEvents = "[TimingPoints]".toList) = false := by decide +kernel
  have f46 : decide (hEvents = "[HitObjects]".toList) = false := by decide +kernel
  have f50 : decide (hTiming = "[General]".toList) = false := by decide +kernel
  have f51 : decide (hTiming = "[Editor]".toList) = false := by decide +kernel
  have f52 : decide (hTiming = "[Metadata]".toList) = false := by decide +kernel
  have f53 : decide (hTiming = "[Difficulty]".toList) = false := by decide +kernel
  have f54 : decide (hTiming = "[Events]".toList) = false := by decide +kernel
  have f55 : decide (hTiming = "[TimingPoints]".toList) = true := by decide +kernel
  have f56 : decide (hTiming = "[HitObjects]".toList) = false := by decide +kernel
  have f60 : decide (hObjects = "[General]".toList) = false := by decide +kernel
  have f61 : decide (hObjects = "[Editor]".toList) = false := by decide +kernel
  have f62 : decide (hObjects = "[Metadata]".toList) = false := by decide +kernel
  have f63 : decide (hObjects = "[Difficulty]".toList) = false := by decide +kernel
  have f64 : decide (hObjects = "[Events]".toList) = false := by decide +kernel
  have f65 : decide (hObjects = "[TimingPoints]".toList) = false := by decide +kernel
  have f66 : decide (hObjects = "[HitObjects]".toList) = true := by decide +kernel
  unfold Skeleton.blocks body
  cases hE : s.hasEditor
  · have hnoE := hwf.noE hE
    simp only [hnoE, List.filter_nil, List.nil_append, List.cons_append, List.filter_cons, List.map_cons, List.map_nil,
      List.flatten_cons, List.flatten_nil, List.append_nil, Bool.false_eq_true, if_false, if_true, f00, f01, f02, f03, f04, f05, f06, f10, f11, f12, f13, f14, f15, f16, f20, f21, f22, f23, f24, f25, f26, f30, f31, f32, f33, f34, f35, f36, f40, f41, f42, f43, f44, f45, f46, f50, f51, f52, f53, f54, f55, f56, f60, f61, f62, f63, f64, f65, f66]
    simp
  · simp only [List.nil_append, List.cons_append, List.filter_cons, List.filter_nil, List.map_cons, List.map_nil,
      List.flatten_cons, List.flatten_nil, List.append_nil, Bool.false_eq_true, if_false, if_true, f00, f01, f02, f03, f04, f05, f06, f10, f11, f12, f13, f14, f15, f16, f20, f21, f22, f23, f24, f25, f26, f30, f31, f32, f33, f34, f35, f36, f40, f41, f42, f43, f44, f45, f46, f50, f51, f52, f53, f54, f55, f56, f60, f61, f62, f63, f64, f65, f66]
    simp

end Reamber.Osu

namespace Reamber.Osu

/-! ### the header of a skeleton under the scanning loop -/

theorem inert_headers : Inert hGeneral ∧ Inert hEditor ∧ Inert hMetadata ∧ Inert hDifficulty ∧ Inert hEvents := by
  unfold Inert; decide +kernel

theorem kv_section (m : Meta) (h : Str) (hh : Inert h) (X rest : List Str) (hX : ∀ l ∈ X, KvOk l) :
    readMeta m (h :: (X ++ rest)) = match denoteKv m X with | .ok m' => readMeta m' rest | .error e => .error e := by
  rw [readMeta_step m m _ _ (metaStep_inert m h _ hh)]
  exact readMeta_kv_block m X rest hX

theorem Skeleton.readMeta_head (s : Skeleton) (hwf : s.WF) :
    readMeta {} s.head =
      match denoteKv {} (((s.G ++ s.E) ++ s.M) ++ s.D) with
      | .error e => .error e
      | .ok m0 => readMeta m0 s.events := by
  obtain ⟨iG, iE, iM, iD, iEv⟩ := inert_headers
  unfold Skeleton.head
  rw [readMeta_inert_block _ s.pre _ (fun l hl => (hwf.pre l hl).1)]
  rw [kv_section _ hGeneral iG s.G _ hwf.G]
  rw [denoteKv_append, denoteKv_append, denoteKv_append]
  cases h1 : denoteKv {} s.G with
  | error e => rfl
  | ok m1 =>
    simp only []
    have hE : readMeta m1 ((if s.hasEditor then hEditor :: s.E else []) ++
          hMetadata :: (s.M ++ hDifficulty :: (s.D ++ hEvents :: s.events))) =
        match denoteKv m1 s.E with
        | .ok m2 => readMeta m2 (hMetadata :: (s.M ++ hDifficulty :: (s.D ++ hEvents :: s.events)))
        | .error e => .error e := by
      cases hb : s.hasEditor
      · rw [hwf.noE hb]; rfl
      · simp only [if_true, List.cons_append]
        exact kv_section m1 hEditor iE s.E _ hwf.E
    rw [hE]
    cases h2 : denoteKv m1 s.E with
    | error e => rfl
    | ok m2 =>
      simp only []
      rw [kv_section _ hMetadata iM s.M _ hwf.M]
      cases h3 : denoteKv m2 s.M with
      | error e => rfl
      | ok m3 =>
        simp only []
        rw [kv_section _ hDifficulty iD s.D _ hwf.D]
        cases h4 : denoteKv m3 s.D with
        | error e => rfl
        | ok m4 =>
          simp only []
          rw [readMeta_step m4 m4 _ _ (metaStep_inert m4 hEvents _ iEv)]

theorem evInert_inert {X : List Str} (h : ∀ l ∈ X, EvInert l) : ∀ l ∈ X, Inert l := fun l hl => (h l hl).1

/-- the metadata the scanning loop reads from a skeleton's header: the key/value sections in file order, then the
background name and the samples of `[Events]` -/
theorem Skeleton.readMeta_head_ok (s : Skeleton) (hwf : s.WF) (m0 : Meta) (ss : List Sample)
    (h0 : denoteKv {} (((s.G ++ s.E) ++ s.M) ++ s.D) = .ok m0)
    (hss : mapE readSample (s.S.filter (startsWith pSample)) = .ok ss) :
    readMeta {} s.head = .ok { m0 with backgroundFileName := s.bgName, samples := ss } := by
  rw [s.readMeta_head hwf, h0]
  exact readMeta_events m0 s.A s.B s.S s.bgl s.bgName ss (evInert_inert hwf.A) hwf.bg (evInert_inert hwf.B) hwf.S hss

end Reamber.Osu

namespace Reamber.Osu

/-! ### assembly -/

theorem filterMapE_append_none {α β} (f : α → Except Err (Option β)) (A B : List α) (h : ∀ a ∈ A, f a = .ok none) :
    filterMapE f (A ++ B) = filterMapE f B := by
  rw [filterMapE_append, filterMapE_none f A h]
  cases filterMapE f B <;> rfl

theorem filterMapE_cons_none {α β} (f : α → Except Err (Option β)) (a : α) (B : List α) (h : f a = .ok none) :
    filterMapE f (a :: B) = filterMapE f B := by
  rw [filterMapE, h]; cases filterMapE f B <;> rfl

theorem filter_eq_self' (X : List Str) (f : Str → Bool) (h : ∀ l ∈ X, f l = true) : X.filter f = X :=
  List.filter_eq_self.mpr h

/-- the `[Events]` body as the by-the-book reading sees it -/
theorem Skeleton.events_denote (s : Skeleton) (hwf : s.WF) :
    let ev := (s.A.filter nb ++ kBackground :: s.bgl :: (s.B.filter nb ++ kSamples :: s.S.filter nb)).filter nc
    filterMapE denoteSample ev = mapE readSample (s.S.filter (startsWith pSample)) ∧
    denoteBackground ev = some s.bgName := by
  intro ev
  have c1 : nc kBackground = false := by decide +kernel
  have c2 : nc kSamples = false := by decide +kernel
  have c3 : nc s.bgl = true := by
    obtain ⟨t, ht⟩ := bgOk_head _ _ hwf.bg
    rw [ht]; rfl
  have hev : ev = (s.A.filter nb).filter nc ++ s.bgl :: ((s.B.filter nb).filter nc ++ (s.S.filter nb).filter nc) := by
    show List.filter nc _ = _
    simp only [List.filter_append, List.filter_cons, c1, c2, c3, if_true, Bool.false_eq_true, if_false]
  have hAs : ∀ X : List Str, (∀ l ∈ X, EvInert l) → ∀ l ∈ (X.filter nb).filter nc, denoteSample l = .ok none ∧
      ∀ ty a f r, splitOn ',' l = ty :: a :: f :: r → ty ≠ ['0'] := by
    intro X hX l hl
    have hc : isComment l = false := by
      have := (List.mem_filter.mp hl).2
      simpa [nc] using this
    exact (hX l (List.mem_of_mem_filter (List.mem_of_mem_filter hl))).2.2 hc
  obtain ⟨sf1, sf2⟩ := sample_filters s.S hwf.S
  constructor
  · rw [hev, filterMapE_append_none _ _ _ (fun l hl => (hAs s.A hwf.A l hl).1),
      filterMapE_cons_none _ _ _ (denoteSample_bg _ _ hwf.bg),
      filterMapE_append_none _ _ _ (fun l hl => (hAs s.B hwf.B l hl).1), ← sf1]
    exact filterMapE_denoteSample _ sf2
  · rw [hev, denoteBackground_skip _ _ (fun l hl => (hAs s.A hwf.A l hl).2)]
    exact denoteBackground_bg _ _ _ hwf.bg

theorem not_header_ne (l : Str) (h : isHeader l = false) : l ≠ hTiming ∧ l ≠ hObjects := by
  constructor <;> (intro e; rw [e] at h; revert h; decide +kernel)

/-- **`read t = denote t` on the dialect — the whole file, text → chart.**  If the trimmed lines of a text form a
well-formed skeleton and the by-the-book denotation (sections by header, `Key:Value` at the first colon, type bits,
uninherited flag, column by search, first `0,…` event as background, `Sample,…` events) reads it as the chart `c` with
a key count ≥ 1, then `OsuMap.read` — scanning for the first `[TimingPoints]` / `[HitObjects]`, running the key and
marker loop over everything before, classifying lines by counting — returns exactly `c`. -/
theorem read_eq_denote (s : Skeleton) (hwf : s.WF) (lines0 : List Str) (hl : lines0.map strip = s.lines) (c : Chart)
    (hden : denote lines0 = .ok c) (hk : 1 ≤ pyTrunc c.md.circleSize) : read lines0 = .ok c := by
  obtain ⟨bG, bE, bM, bD, bEv, bT, bO⟩ := s.bodies hwf
  obtain ⟨evS, evB⟩ := s.events_denote hwf
  -- what the denotation computes
  unfold denote at hden
  simp only [hl, s.sections_eq hwf, bG, bE, bM, bD, bEv, bT, bO] at hden
  have hkv : denoteKv {} (s.G.filter nb ++ s.E.filter nb ++ s.M.filter nb ++ s.D.filter nb) =
      denoteKv {} (((s.G ++ s.E) ++ s.M) ++ s.D) := by
    rw [← List.filter_append, ← List.filter_append, ← List.filter_append, denoteKv_filter_nonblank]
  have hTc : (s.T.filter nb).filter nc = s.T.filter nb := by
    apply filter_eq_self'
    intro l hl'
    have hne : l ≠ [] := by simpa [nb] using (List.mem_filter.mp hl').2
    rcases hwf.T l (List.mem_of_mem_filter hl') with h | h
    · exact absurd h hne
    · simp [nc, h.2.2]
  have hOc : (s.O.filter nb).filter nc = s.O.filter nb := by
    apply filter_eq_self'
    intro l hl'
    have hne : l ≠ [] := by simpa [nb] using (List.mem_filter.mp hl').2
    rcases hwf.O l (List.mem_of_mem_filter hl') with h | h
    · exact absurd h hne
    · simp [nc, h.2.2]
  rw [hkv, evS, evB, hTc, hOc] at hden
  cases h0 : denoteKv {} (((s.G ++ s.E) ++ s.M) ++ s.D) with
  | error e => rw [h0] at hden; simp at hden
  | ok m0 =>
    rw [h0] at hden
    cases hss : mapE readSample (s.S.filter (startsWith pSample)) with
    | error e => rw [hss] at hden; simp at hden
    | ok ss =>
      rw [hss] at hden
      simp only [Option.getD_some] at hden
      cases htp : filterMapE denoteTiming (s.T.filter nb) with
      | error e => rw [htp] at hden; simp at hden
      | ok tps =>
        rw [htp] at hden
        cases hob : filterMapE (denoteObj (pyTrunc m0.circleSize)) (s.O.filter nb) with
        | error e => rw [hob] at hden; simp at hden
        | ok objs =>
          rw [hob] at hden
          simp only [Except.ok.injEq] at hden
          subst hden
          -- what the reader computes
          have hTwf : ∀ l ∈ s.T.filter nb, wfTimingLine l = true := by
            intro l hl'
            have hne : l ≠ [] := by simpa [nb] using (List.mem_filter.mp hl').2
            rcases hwf.T l (List.mem_of_mem_filter hl') with h | h
            · exact absurd h hne
            · exact h.1
          have hOwf : ∀ l ∈ s.O.filter nb, wfObjLine l = true := by
            intro l hl'
            have hne : l ≠ [] := by simpa [nb] using (List.mem_filter.mp hl').2
            rcases hwf.O l (List.mem_of_mem_filter hl') with h | h
            · exact absurd h hne
            · exact h.1
          obtain ⟨tb, ts⟩ := timing_section_eq_denote _ hTwf tps htp
          obtain ⟨oh, od⟩ := objects_section_eq_denote (pyTrunc m0.circleSize) hk _ hOwf objs hob
          have fT1 : (s.T.filter nb).filter isTimingPoint = s.T.filter isTimingPoint := by
            rw [List.filter_filter]; congr 1; funext l
            by_cases hl' : l = []
            · subst hl'; rfl
            · simp [nb, hl']
          have fT2 : (s.T.filter nb).filter isSliderVelocity = s.T.filter isSliderVelocity := by
            rw [List.filter_filter]; congr 1; funext l
            by_cases hl' : l = []
            · subst hl'; rfl
            · simp [nb, hl']
          have fO1 : (s.O.filter nb).filter isHit = s.O.filter isHit := by
            rw [List.filter_filter]; congr 1; funext l
            by_cases hl' : l = []
            · subst hl'; rfl
            · simp [nb, hl']
          have fO2 : (s.O.filter nb).filter isHold = s.O.filter isHold := by
            rw [List.filter_filter]; congr 1; funext l
            by_cases hl' : l = []
            · subst hl'; rfl
            · simp [nb, hl']
          rw [fT1] at tb; rw [fT2] at ts; rw [fO1] at oh; rw [fO2] at od
          have hmeta := s.readMeta_head_ok hwf m0 ss h0 hss
          -- no earlier occurrence of the two headers
          have hHead : ∀ l ∈ s.head, l ≠ hTiming ∧ l ≠ hObjects := by
            intro l hl'
            have hbgl : isHeader s.bgl = false := by
              obtain ⟨t, ht⟩ := bgOk_head _ _ hwf.bg
              unfold isHeader; rw [ht]; rfl
            unfold Skeleton.head Skeleton.events at hl'
            simp only [List.mem_append, List.mem_cons] at hl'
            have kvh : ∀ X : List Str, (∀ l ∈ X, KvOk l) → l ∈ X → l ≠ hTiming ∧ l ≠ hObjects :=
              fun X hX hm => not_header_ne l (hX l hm).1
            rcases hl' with h | rfl | h | h | rfl | h | rfl | h | rfl | h | rfl | rfl | h | rfl | h
            · exact not_header_ne l (hwf.pre l h).2
            · decide +kernel
            · exact kvh _ hwf.G h
            · cases hb : s.hasEditor
              · rw [hb] at h; simp at h
              · rw [hb] at h
                simp only [if_true, List.mem_cons] at h
                rcases h with rfl | h
                · decide +kernel
                · exact kvh _ hwf.E h
            · decide +kernel
            · exact kvh _ hwf.M h
            · decide +kernel
            · exact kvh _ hwf.D h
            · decide +kernel
            · exact not_header_ne l (hwf.A l h).2.1
            · decide +kernel
            · exact not_header_ne _ hbgl
            · exact not_header_ne l (hwf.B l h).2.1
            · decide +kernel
            · rcases hwf.S l h with rfl | hs
              · decide +kernel
              · exact not_header_ne l (sampleOk_facts l hs).2.2.2
          have hTno : hObjects ∉ s.T := by
            intro hm
            rcases hwf.T _ hm with h | h
            · revert h; decide +kernel
            · have := h.2.1; revert this; decide +kernel
          exact read_sections lines0 s.head s.T s.O hl (fun hm => (hHead _ hm).1 rfl) (fun hm => (hHead _ hm).2 rfl)
            hTno _ _ _ _ _ hmeta ts tb oh od

end Reamber.Osu

namespace Reamber.Osu

/-! ### the converse direction -/

theorem metaStep_samples_eq (m : Meta) (rest : List Str) :
    metaStep m kSamples rest =
      match mapE readSample (rest.filter (startsWith pSample)) with
      | .ok ss => .ok { m with samples := ss }
      | .error e => .error e := by
  have hs : split1 ':' kSamples = (kSamples, none) := by decide +kernel
  have hk : ∀ e ∈ modelKeyTable, kSamples ≠ e.1.toList := by decide +kernel
  unfold metaStep
  rw [if_neg (by decide +kernel), hs]
  simp only [metaAssign_other m _ _ hk, if_true]
  rw [if_neg (by decide +kernel)]
  cases mapE readSample (rest.filter (startsWith pSample)) <;> rfl

theorem readMeta_events_eq (m : Meta) (A B S : List Str) (bgl name : Str)
    (hA : ∀ l ∈ A, Inert l) (hbg : BgOk bgl name) (hB : ∀ l ∈ B, Inert l) (hS : ∀ l ∈ S, l = [] ∨ SampleOk l) :
    readMeta m (A ++ kBackground :: bgl :: (B ++ kSamples :: S)) =
      match mapE readSample (S.filter (startsWith pSample)) with
      | .ok ss => .ok { m with backgroundFileName := name, samples := ss }
      | .error e => .error e := by
  cases hss : mapE readSample (S.filter (startsWith pSample)) with
  | ok ss => exact readMeta_events m A B S bgl name ss hA hbg hB hS hss
  | error e =>
    obtain ⟨t, hbt⟩ := bgOk_head bgl name hbg
    rw [readMeta_inert_block m A _ hA]
    rw [readMeta_step _ _ _ _ (metaStep_background _ _ _)]
    rw [readMeta_step _ _ _ _ (metaStep_inert _ bgl _ (by rw [hbt]; exact inert_of_head0 t))]
    rw [readMeta_inert_block _ B _ hB]
    rw [readMeta, metaStep_samples_eq, hss]

theorem read_sections_eq (lines0 H T O : List Str)
    (hl : lines0.map strip = H ++ hTiming :: (T ++ hObjects :: O))
    (hT : hTiming ∉ H) (hO : hObjects ∉ H) (hO' : hObjects ∉ T) :
    read lines0 =
      match readMeta {} H with
      | .error e => .error e
      | .ok md =>
        match mapE readSv (T.filter isSliderVelocity) with
        | .error e => .error e
        | .ok svs =>
          match mapE readBpm (T.filter isTimingPoint) with
          | .error e => .error e
          | .ok bpms =>
            match mapE (fun s => readHit s (pyTrunc md.circleSize)) (O.filter isHit) with
            | .error e => .error e
            | .ok hits =>
              match mapE (fun s => readHold s (pyTrunc md.circleSize)) (O.filter isHold) with
              | .error e => .error e
              | .ok holds => .ok { md := md, bpms := bpms, svs := svs, hits := hits, holds := holds } := by
  have i1 : indexOf? hTiming (lines0.map strip) = some H.length := by
    rw [hl]; exact indexOf?_append hTiming H _ hT
  have i2 : indexOf? hObjects (lines0.map strip) = some (H.length + 1 + T.length) := by
    have e : H ++ hTiming :: (T ++ hObjects :: O) = (H ++ hTiming :: T) ++ hObjects :: O := by simp
    rw [hl, e, indexOf?_append hObjects (H ++ hTiming :: T) O]
    · simp; omega
    · simp only [List.mem_append, List.mem_cons, not_or]
      exact ⟨hO, by decide +kernel, hO'⟩
  have t1 : (lines0.map strip).take H.length = H := by
    rw [hl]; exact List.take_left' rfl
  have t2 : ((lines0.map strip).take (H.length + 1 + T.length)).drop (H.length + 1) = T := by
    have e : H ++ hTiming :: (T ++ hObjects :: O) = ((H ++ [hTiming]) ++ T) ++ hObjects :: O := by simp
    rw [hl, e, List.take_left' (by simp; omega), List.drop_left' (by simp)]
  have t3 : (lines0.map strip).drop (H.length + 1 + T.length + 1) = O := by
    have e : H ++ hTiming :: (T ++ hObjects :: O) = (((H ++ [hTiming]) ++ T) ++ [hObjects]) ++ O := by simp
    rw [hl, e, List.drop_left' (by simp; omega)]
  unfold read
  simp only [i1, i2, t1, t2, t3]
  cases readMeta {} H with
  | error e => rfl
  | ok md =>
    cases mapE readSv (T.filter isSliderVelocity) with
    | error e => rfl
    | ok svs =>
      cases mapE readBpm (T.filter isTimingPoint) with
      | error e => rfl
      | ok bpms =>
        cases mapE (fun s => readHit s (pyTrunc md.circleSize)) (O.filter isHit) with
        | error e => rfl
        | ok hits =>
          cases mapE (fun s => readHold s (pyTrunc md.circleSize)) (O.filter isHold) <;> rfl

end Reamber.Osu

namespace Reamber.Osu

/-- what the by-the-book denotation computes on a skeleton -/
theorem Skeleton.denote_eq (s : Skeleton) (hwf : s.WF) (lines0 : List Str) (hl : lines0.map strip = s.lines) :
    denote lines0 =
      match denoteKv {} (((s.G ++ s.E) ++ s.M) ++ s.D) with
      | .error e => .error e
      | .ok m0 =>
        match mapE readSample (s.S.filter (startsWith pSample)) with
        | .error e => .error e
        | .ok ss =>
          match filterMapE denoteTiming (s.T.filter nb) with
          | .error e => .error e
          | .ok tps =>
            match filterMapE (denoteObj (pyTrunc m0.circleSize)) (s.O.filter nb) with
            | .error e => .error e
            | .ok objs =>
              .ok { md := { m0 with samples := ss, backgroundFileName := s.bgName }, bpms := tps.filterMap tpBpm,
                    svs := tps.filterMap tpSv, hits := objs.filterMap objHit, holds := objs.filterMap objHold } := by
  obtain ⟨bG, bE, bM, bD, bEv, bT, bO⟩ := s.bodies hwf
  obtain ⟨evS, evB⟩ := s.events_denote hwf
  unfold denote
  simp only [hl, s.sections_eq hwf, bG, bE, bM, bD, bEv, bT, bO]
  have hkv : denoteKv {} (s.G.filter nb ++ s.E.filter nb ++ s.M.filter nb ++ s.D.filter nb) =
      denoteKv {} (((s.G ++ s.E) ++ s.M) ++ s.D) := by
    rw [← List.filter_append, ← List.filter_append, ← List.filter_append, denoteKv_filter_nonblank]
  have hTc : (s.T.filter nb).filter nc = s.T.filter nb := by
    apply filter_eq_self'
    intro l hl'
    have hne : l ≠ [] := by simpa [nb] using (List.mem_filter.mp hl').2
    rcases hwf.T l (List.mem_of_mem_filter hl') with h | h
    · exact absurd h hne
    · simp [nc, h.2.2]
  have hOc : (s.O.filter nb).filter nc = s.O.filter nb := by
    apply filter_eq_self'
    intro l hl'
    have hne : l ≠ [] := by simpa [nb] using (List.mem_filter.mp hl').2
    rcases hwf.O l (List.mem_of_mem_filter hl') with h | h
    · exact absurd h hne
    · simp [nc, h.2.2]
  rw [hkv, evS, evB, hTc, hOc]
  cases denoteKv {} (((s.G ++ s.E) ++ s.M) ++ s.D) with
  | error e => rfl
  | ok m0 =>
    cases mapE readSample (s.S.filter (startsWith pSample)) with
    | error e => rfl
    | ok ss =>
      simp only [Option.getD_some]
      cases filterMapE denoteTiming (s.T.filter nb) with
      | error e => rfl
      | ok tps =>
        cases filterMapE (denoteObj (pyTrunc m0.circleSize)) (s.O.filter nb) <;> rfl

theorem filter_nb_comm (X : List Str) (f : Str → Bool) (hf : f [] = false) : (X.filter nb).filter f = X.filter f := by
  rw [List.filter_filter]; congr 1; funext l
  by_cases hl' : l = []
  · subst hl'; simp [hf]
  · simp [nb, hl']

theorem Skeleton.head_no_headers (s : Skeleton) (hwf : s.WF) :
    hTiming ∉ s.head ∧ hObjects ∉ s.head ∧ hObjects ∉ s.T := by
  have hHead : ∀ l ∈ s.head, l ≠ hTiming ∧ l ≠ hObjects := by
    intro l hl'
    have hbgl : isHeader s.bgl = false := by
      obtain ⟨t, ht⟩ := bgOk_head _ _ hwf.bg
      unfold isHeader; rw [ht]; rfl
    unfold Skeleton.head Skeleton.events at hl'
    simp only [List.mem_append, List.mem_cons] at hl'
    have kvh : ∀ X : List Str, (∀ l ∈ X, KvOk l) → l ∈ X → l ≠ hTiming ∧ l ≠ hObjects :=
      fun X hX hm => not_header_ne l (hX l hm).1
    rcases hl' with h | rfl | h | h | rfl | h | rfl | h | rfl | h | rfl | rfl | h | rfl | h
    · exact not_header_ne l (hwf.pre l h).2
    · decide +kernel
    · exact kvh _ hwf.G h
    · cases hb : s.hasEditor
      · rw [hb] at h; simp at h
      · rw [hb] at h
        simp only [if_true, List.mem_cons] at h
        rcases h with rfl | h
        · decide +kernel
        · exact kvh _ hwf.E h
    · decide +kernel
    · exact kvh _ hwf.M h
    · decide +kernel
    · exact kvh _ hwf.D h
    · decide +kernel
    · exact not_header_ne l (hwf.A l h).2.1
    · decide +kernel
    · exact not_header_ne _ hbgl
    · exact not_header_ne l (hwf.B l h).2.1
    · decide +kernel
    · rcases hwf.S l h with rfl | hs
      · decide +kernel
      · exact not_header_ne l (sampleOk_facts l hs).2.2.2
  refine ⟨fun hm => (hHead _ hm).1 rfl, fun hm => (hHead _ hm).2 rfl, ?_⟩
  intro hm
  rcases hwf.T _ hm with h | h
  · revert h; decide +kernel
  · have := h.2.1; revert this; decide +kernel

/-- what the reader as written computes on a skeleton -/
theorem Skeleton.read_eq (s : Skeleton) (hwf : s.WF) (lines0 : List Str) (hl : lines0.map strip = s.lines) :
    read lines0 =
      match denoteKv {} (((s.G ++ s.E) ++ s.M) ++ s.D) with
      | .error e => .error e
      | .ok m0 =>
        match mapE readSample (s.S.filter (startsWith pSample)) with
        | .error e => .error e
        | .ok ss =>
          match mapE readSv ((s.T.filter nb).filter isSliderVelocity) with
          | .error e => .error e
          | .ok svs =>
            match mapE readBpm ((s.T.filter nb).filter isTimingPoint) with
            | .error e => .error e
            | .ok bpms =>
              match mapE (fun l => readHit l (pyTrunc m0.circleSize)) ((s.O.filter nb).filter isHit) with
              | .error e => .error e
              | .ok hits =>
                match mapE (fun l => readHold l (pyTrunc m0.circleSize)) ((s.O.filter nb).filter isHold) with
                | .error e => .error e
                | .ok holds =>
                  .ok { md := { m0 with backgroundFileName := s.bgName, samples := ss }, bpms := bpms, svs := svs,
                        hits := hits, holds := holds } := by
  obtain ⟨n1, n2, n3⟩ := s.head_no_headers hwf
  rw [read_sections_eq lines0 s.head s.T s.O hl n1 n2 n3, s.readMeta_head hwf]
  rw [filter_nb_comm s.T isSliderVelocity rfl, filter_nb_comm s.T isTimingPoint rfl, filter_nb_comm s.O isHit rfl,
    filter_nb_comm s.O isHold rfl]
  cases denoteKv {} (((s.G ++ s.E) ++ s.M) ++ s.D) with
  | error e => rfl
  | ok m0 =>
    simp only []
    rw [show s.events = s.A ++ kBackground :: s.bgl :: (s.B ++ kSamples :: s.S) from rfl,
      readMeta_events_eq m0 s.A s.B s.S s.bgl s.bgName (evInert_inert hwf.A) hwf.bg (evInert_inert hwf.B) hwf.S]
    cases mapE readSample (s.S.filter (startsWith pSample)) with
    | error e => rfl
    | ok ss => simp only []

end Reamber.Osu

namespace Reamber.Osu

theorem Skeleton.wf_lines (s : Skeleton) (hwf : s.WF) :
    (∀ l ∈ s.T.filter nb, wfTimingLine l = true) ∧ (∀ l ∈ s.O.filter nb, wfObjLine l = true) := by
  constructor
  · intro l hl'
    have hne : l ≠ [] := by simpa [nb] using (List.mem_filter.mp hl').2
    rcases hwf.T l (List.mem_of_mem_filter hl') with h | h
    · exact absurd h hne
    · exact h.1
  · intro l hl'
    have hne : l ≠ [] := by simpa [nb] using (List.mem_filter.mp hl').2
    rcases hwf.O l (List.mem_of_mem_filter hl') with h | h
    · exact absurd h hne
    · exact h.1

/-- the converse of `read_eq_denote`: what the reader as written accepts on the dialect, the format accepts, with the
same chart -/
theorem denote_eq_read (s : Skeleton) (hwf : s.WF) (lines0 : List Str) (hl : lines0.map strip = s.lines) (c : Chart)
    (hread : read lines0 = .ok c) (hk : 1 ≤ pyTrunc c.md.circleSize) : denote lines0 = .ok c := by
  obtain ⟨hTwf, hOwf⟩ := s.wf_lines hwf
  rw [s.read_eq hwf lines0 hl] at hread
  rw [s.denote_eq hwf lines0 hl]
  cases h0 : denoteKv {} (((s.G ++ s.E) ++ s.M) ++ s.D) with
  | error e => rw [h0] at hread; simp at hread
  | ok m0 =>
    rw [h0] at hread; simp only [] at hread
    cases hss : mapE readSample (s.S.filter (startsWith pSample)) with
    | error e => rw [hss] at hread; simp at hread
    | ok ss =>
      rw [hss] at hread; simp only [] at hread
      cases h1 : mapE readSv ((s.T.filter nb).filter isSliderVelocity) with
      | error e => rw [h1] at hread; simp at hread
      | ok svs =>
        rw [h1] at hread; simp only [] at hread
        cases h2 : mapE readBpm ((s.T.filter nb).filter isTimingPoint) with
        | error e => rw [h2] at hread; simp at hread
        | ok bpms =>
          rw [h2] at hread; simp only [] at hread
          cases h3 : mapE (fun l => readHit l (pyTrunc m0.circleSize)) ((s.O.filter nb).filter isHit) with
          | error e => rw [h3] at hread; simp at hread
          | ok hits =>
            rw [h3] at hread; simp only [] at hread
            cases h4 : mapE (fun l => readHold l (pyTrunc m0.circleSize)) ((s.O.filter nb).filter isHold) with
            | error e => rw [h4] at hread; simp at hread
            | ok holds =>
              rw [h4] at hread
              simp only [Except.ok.injEq] at hread
              subst hread
              obtain ⟨tps, t1, t2, t3⟩ := timing_section_denote_of_read _ hTwf bpms svs h2 h1
              obtain ⟨objs, o1, o2, o3⟩ := objects_section_denote_of_read (pyTrunc m0.circleSize) hk _ hOwf hits holds h3 h4
              simp only [t1, o1, t2, t3, o2, o3]

/-- **on the dialect the reader as written and the format agree exactly** (charts with a key count ≥ 1) -/
theorem read_iff_denote (s : Skeleton) (hwf : s.WF) (lines0 : List Str) (hl : lines0.map strip = s.lines) (c : Chart)
    (hk : 1 ≤ pyTrunc c.md.circleSize) : read lines0 = .ok c ↔ denote lines0 = .ok c :=
  ⟨fun h => denote_eq_read s hwf lines0 hl c h hk, fun h => read_eq_denote s hwf lines0 hl c h hk⟩

end Reamber.Osu
