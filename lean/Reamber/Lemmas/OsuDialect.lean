/- C01 — whole file, text → chart: the scanning reader vs the section-by-header denotation on the dialect skeleton. -/
import Reamber.Lemmas.OsuHeader
import Reamber.Lemmas.OsuDenote

set_option linter.unusedSimpArgs false
set_option linter.unusedVariables false

namespace Reamber.Osu

/-! ### lines that carry no metadata; key/value lines -/

theorem metaKeys_eq : metaKeys = modelKeyTable.map (fun e => e.1.toList) := by decide +kernel

theorem metaAssign_notKey (m : Meta) (k : Str) (v : MVal) (h : k ∉ metaKeys) : metaAssign m k v = .ok m := by
  apply metaAssign_other
  intro e he heq
  apply h
  rw [metaKeys_eq, List.mem_map]
  exact ⟨e, he, heq.symm⟩

theorem metaStep_inert (m : Meta) (l : Str) (rest : List Str) (h : Inert l) : metaStep m l rest = .ok m := by
  obtain ⟨h1, h2, h3⟩ := h
  unfold metaStep
  by_cases hl : l = []
  · rw [if_pos hl]
  · rw [if_neg hl]
    unfold keyOf at h1 h2 h3
    simp only [metaAssign_notKey m _ _ h1, if_neg h2, if_neg h3]

/-- one step of the by-the-book key/value reading -/
def kvStep (m : Meta) (l : Str) : Except Err Meta :=
  if l = [] ∨ isComment l then .ok m else
  match split1 ':' l with
  | (k, some v) => metaAssign m k (some v)
  | (_, none) => .ok m

theorem denoteKv_cons (m : Meta) (l : Str) (ls : List Str) :
    denoteKv m (l :: ls) = match kvStep m l with | .ok m' => denoteKv m' ls | .error e => .error e := by
  rw [denoteKv]
  unfold kvStep
  by_cases h : l = [] ∨ isComment l = true
  · simp only [if_pos h]
  · simp only [if_neg h]
    rcases hs : split1 ':' l with ⟨k, _ | v⟩
    · simp
    · simp only []
      cases metaAssign m k (some v) <;> rfl

/-- on a line of a key/value section the scanning loop does what the format says -/
theorem metaStep_kv (m : Meta) (l : Str) (rest : List Str) (h : KvOk l) : metaStep m l rest = kvStep m l := by
  obtain ⟨_, hb, hs, hk⟩ := h
  unfold keyOf at hb hs hk
  unfold metaStep kvStep
  by_cases hl : l = []
  · simp [hl]
  · rw [if_neg hl]
    by_cases hc : isComment l = true
    · have hnk := hk (Or.inl hc)
      simp only [metaAssign_notKey m _ _ hnk, if_neg hb, if_neg hs, hc, or_true, if_true]
    · have hc' : ¬ (l = [] ∨ isComment l = true) := by simp [hl, hc]
      rw [if_neg hc']
      rcases hsp : split1 ':' l with ⟨k, _ | v⟩
      · rw [hsp] at hb hs hk
        have hnk := hk (Or.inr rfl)
        simp only [metaAssign_notKey m _ _ hnk, if_neg hb, if_neg hs]
      · rw [hsp] at hb hs
        simp only []
        cases metaAssign m k (some v) with
        | error e => rfl
        | ok m1 => simp only [if_neg hb, if_neg hs]

theorem readMeta_kv_block (m : Meta) (B rest : List Str) (hB : ∀ l ∈ B, KvOk l) :
    readMeta m (B ++ rest) = match denoteKv m B with | .ok m' => readMeta m' rest | .error e => .error e := by
  induction B generalizing m with
  | nil => rfl
  | cons l t ih =>
    show readMeta m (l :: (t ++ rest)) = _
    rw [readMeta, metaStep_kv m l _ (hB l (by simp)), denoteKv_cons]
    cases kvStep m l with
    | error e => rfl
    | ok m1 => exact ih m1 (fun l' hl' => hB l' (by simp [hl']))

theorem denoteKv_append (m : Meta) (A B : List Str) :
    denoteKv m (A ++ B) = match denoteKv m A with | .ok m' => denoteKv m' B | .error e => .error e := by
  induction A generalizing m with
  | nil => rfl
  | cons l t ih =>
    show denoteKv m (l :: (t ++ B)) = _
    rw [denoteKv_cons, denoteKv_cons]
    cases kvStep m l with
    | error e => rfl
    | ok m1 => exact ih m1

theorem denoteKv_filter_nonblank (m : Meta) (B : List Str) :
    denoteKv m (B.filter (fun l => l ≠ [])) = denoteKv m B := by
  induction B generalizing m with
  | nil => rfl
  | cons l t ih =>
    by_cases hl : l = []
    · subst hl
      rw [List.filter_cons]
      simp only [ne_eq, not_true_eq_false, decide_false, Bool.false_eq_true, if_false]
      rw [denoteKv_cons, ih]
      simp [kvStep]
    · rw [List.filter_cons]
      simp only [ne_eq, hl, not_false_eq_true, decide_true, if_true]
      rw [denoteKv_cons, denoteKv_cons]
      cases kvStep m l with
      | error e => rfl
      | ok m1 => exact ih m1

/-! ### sections -/

theorem sections_noHeader (A : List Str) (hA : ∀ l ∈ A, isHeader l = false) : sections A = (A, []) := by
  induction A with
  | nil => rfl
  | cons l t ih =>
    rw [sections, ih (fun l' hl' => hA l' (by simp [hl']))]
    simp [hA l (by simp)]

theorem sections_append_header (A : List Str) (hA : ∀ l ∈ A, isHeader l = false) (h : Str) (hh : isHeader h = true)
    (rest : List Str) : sections (A ++ h :: rest) = (A, (h, (sections rest).1) :: (sections rest).2) := by
  induction A with
  | nil => show sections (h :: rest) = _; rw [sections]; simp [hh]
  | cons l t ih =>
    show sections (l :: (t ++ h :: rest)) = _
    rw [sections, ih (fun l' hl' => hA l' (by simp [hl']))]
    simp [hA l (by simp)]

end Reamber.Osu
