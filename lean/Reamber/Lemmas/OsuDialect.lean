/- C01 — whole file, text → chart: the scanning reader vs the section-by-header denotation on the dialect skeleton. -/
import Reamber.Lemmas.OsuHeader
import Reamber.Lemmas.OsuDenote

set_option linter.unusedSimpArgs false
set_option linter.unusedVariables false

namespace Reamber.Osu

/-! ### lines that carry no metadata; key/value lines -/

theorem metaKeys_eq : metaKeys = modelKeyTable.map (fun e => e.1.toList) := by decide +kernel

theorem metaAssign_notKey (m : Meta) (k : Str) (v : MVal) (h : k ∉ metaKeys) : metaAssign m k v = .ok m := by
  apply metaAssign_other
  intro e he heq
  apply h
  rw [metaKeys_eq, List.mem_map]
  exact ⟨e, he, heq.symm⟩

theorem metaStep_inert (m : Meta) (l : Str) (rest : List Str) (h : Inert l) : metaStep m l rest = .ok m := by
  obtain ⟨h1, h2, h3⟩ := h
  unfold metaStep
  by_cases hl : l = []
  · rw [if_pos hl]
  · rw [if_neg hl]
    unfold keyOf at h1 h2 h3
    simp only [metaAssign_notKey m _ _ h1, if_neg h2, if_neg h3]

/-- one step of the by-the-book key/value reading -/
def kvStep (m : Meta) (l : Str) : Except Err Meta :=
  if l = [] ∨ isComment l then .ok m else
  match split1 ':' l with
  | (k, some v) => metaAssign m k (some v)
  | (_, none) => .ok m

theorem denoteKv_cons (m : Meta) (l : Str) (ls : List Str) :
    denoteKv m (l :: ls) = match kvStep m l with | .ok m' => denoteKv m' ls | .error e => .error e := by
  rw [denoteKv]
  unfold kvStep
  by_cases h : l = [] ∨ isComment l = true
  · simp only [if_pos h]
  · simp only [if_neg h]
    rcases hs : split1 ':' l with ⟨k, _ | v⟩
    · simp
    · simp only []
      cases metaAssign m k (some v) <;> rfl

/-- on a line of a key/value section the scanning loop does what the format says -/
theorem metaStep_kv (m : Meta) (l : Str) (rest : List Str) (h : KvOk l) : metaStep m l rest = kvStep m l := by
  obtain ⟨_, hb, hs, hk⟩ := h
  unfold keyOf at hb hs hk
  unfold metaStep kvStep
  by_cases hl : l = []
  · simp [hl]
  · rw [if_neg hl]
    by_cases hc : isComment l = true
    · have hnk := hk (Or.inl hc)
      simp only [metaAssign_notKey m _ _ hnk, if_neg hb, if_neg hs, hc, or_true, if_true]
    · have hc' : ¬ (l = [] ∨ isComment l = true) := by simp [hl, hc]
      rw [if_neg hc']
      rcases hsp : split1 ':' l with ⟨k, _ | v⟩
      · rw [hsp] at hb hs hk
        have hnk := hk (Or.inr rfl)
        simp only [metaAssign_notKey m _ _ hnk, if_neg hb, if_neg hs]
      · rw [hsp] at hb hs
        simp only []
        cases metaAssign m k (some v) with
        | error e => rfl
        | ok m1 => simp only [if_neg hb, if_neg hs]

theorem readMeta_kv_block (m : Meta) (B rest : List Str) (hB : ∀ l ∈ B, KvOk l) :
    readMeta m (B ++ rest) = match denoteKv m B with | .ok m' => readMeta m' rest | .error e => .error e := by
  induction B generalizing m with
  | nil => rfl
  | cons l t ih =>
    show readMeta m (l :: (t ++ rest)) = _
    rw [readMeta, metaStep_kv m l _ (hB l (by simp)), denoteKv_cons]
    cases kvStep m l with
    | error e => rfl
    | ok m1 => exact ih m1 (fun l' hl' => hB l' (by simp [hl']))

theorem denoteKv_append (m : Meta) (A B : List Str) :
    denoteKv m (A ++ B) = match denoteKv m A with | .ok m' => denoteKv m' B | .error e => .error e := by
  induction A generalizing m with
  | nil => rfl
  | cons l t ih =>
    show denoteKv m (l :: (t ++ B)) = _
    rw [denoteKv_cons, denoteKv_cons]
    cases kvStep m l with
    | error e => rfl
    | ok m1 => exact ih m1

theorem denoteKv_filter_nonblank (m : Meta) (B : List Str) :
    denoteKv m (B.filter (fun l => l ≠ [])) = denoteKv m B := by
  induction B generalizing m with
  | nil => rfl
  | cons l t ih =>
    by_cases hl : l = []
    · subst hl
      rw [List.filter_cons]
      simp only [ne_eq, not_true_eq_false, decide_false, Bool.false_eq_true, if_false]
      rw [denoteKv_cons, ih]
      simp [kvStep]
    · rw [List.filter_cons]
      simp only [ne_eq, hl, not_false_eq_true, decide_true, if_true]
      rw [denoteKv_cons, denoteKv_cons]
      cases kvStep m l with
      | error e => rfl
      | ok m1 => exact ih m1

/-! ### sections -/

theorem sections_noHeader (A : List Str) (hA : ∀ l ∈ A, isHeader l = false) : sections A = (A, []) := by
  induction A with
  | nil => rfl
  | cons l t ih =>
    rw [sections, ih (fun l' hl' => hA l' (by simp [hl']))]
    simp [hA l (by simp)]

theorem sections_append_header (A : List Str) (hA : ∀ l ∈ A, isHeader l = false) (h : Str) (hh : isHeader h = true)
    (rest : List Str) : sections (A ++ h :: rest) = (A, (h, (sections rest).1) :: (sections rest).2) := by
  induction A with
  | nil => show sections (h :: rest) = _; rw [sections]; simp [hh]
  | cons l t ih =>
    show sections (l :: (t ++ h :: rest)) = _
    rw [sections, ih (fun l' hl' => hA l' (by simp [hl']))]
    simp [hA l (by simp)]

end Reamber.Osu

namespace Reamber.Osu

/-! ### the `[Events]` block, reader side -/

theorem readMeta_inert_block (m : Meta) (A rest : List Str) (hA : ∀ l ∈ A, Inert l) :
    readMeta m (A ++ rest) = readMeta m rest := by
  induction A with
  | nil => rfl
  | cons l t ih =>
    show readMeta m (l :: (t ++ rest)) = _
    rw [readMeta_step m m _ _ (metaStep_inert m l _ (hA l (by simp)))]
    exact ih (fun l' hl' => hA l' (by simp [hl']))

theorem readMeta_nil (m : Meta) : readMeta m [] = .ok m := rfl

theorem inert_nil : Inert [] := by
  refine ⟨?_, ?_, ?_⟩ <;> decide +kernel

/-- no key of the table and none of the markers starts with `0`; none has `,` as 7th character -/
theorem metaKeys_shape : ∀ k ∈ metaKeys, k[6]? ≠ some ',' ∧ k.head? ≠ some '0' := by decide +kernel

theorem inert_of_head0 (t : Str) : Inert ('0' :: t) := by
  have hk : keyOf ('0' :: t) = '0' :: (split1 ':' t).1 := by
    unfold keyOf; rw [split1, if_neg (by decide +kernel)]
  refine ⟨?_, ?_, ?_⟩
  · intro hm
    have := (metaKeys_shape _ hm).2
    rw [hk] at this; exact this rfl
  · rw [hk]; intro h
    have : ('0' :: (split1 ':' t).1).head? = some '0' := rfl
    rw [h] at this; revert this; decide +kernel
  · rw [hk]; intro h
    have : ('0' :: (split1 ':' t).1).head? = some '0' := rfl
    rw [h] at this; revert this; decide +kernel

theorem inert_of_sample_prefix (x : Str) : Inert ("Sample,".toList ++ x) := by
  have hsp := split1_append_noSep ':' "Sample,".toList x (by decide +kernel)
  have hk : keyOf ("Sample,".toList ++ x) = "Sample,".toList ++ (split1 ':' x).1 := by
    unfold keyOf; rw [hsp]
  have h6 : ∀ y : Str, ("Sample,".toList ++ y)[6]? = some ',' := by intro y; rfl
  have h0 : ∀ y : Str, ("Sample,".toList ++ y).head? = some 'S' := by intro y; rfl
  refine ⟨?_, ?_, ?_⟩
  · intro hm
    have := (metaKeys_shape _ hm).1
    rw [hk, h6] at this; exact this rfl
  · rw [hk]; intro h
    have := h0 (split1 ':' x).1
    rw [h] at this; revert this; decide +kernel
  · rw [hk]; intro h
    have := h0 (split1 ':' x).1
    rw [h] at this; revert this; decide +kernel

theorem sampleOk_prefix (l : Str) (h : SampleOk l) : ∃ x, l = "Sample,".toList ++ x := by
  obtain ⟨ft, fl, f, fv, hs⟩ := h
  have := joinWith_splitOn ',' l
  rw [hs] at this
  exact ⟨joinWith ',' [ft, fl, f, fv], by rw [← this]; simp [joinWith]⟩

theorem inert_sample_or_blank (l : Str) (h : l = [] ∨ SampleOk l) : Inert l := by
  rcases h with rfl | h
  · exact inert_nil
  · obtain ⟨x, rfl⟩ := sampleOk_prefix l h
    exact inert_of_sample_prefix x

theorem findC_append (c : Char) (a b : Str) (h : c ∉ a) : findC c (a ++ c :: b) = (a.length : Int) := by
  induction a with
  | nil => simp [findC]
  | cons x xs ih =>
    have hx : x ≠ c := fun e => h (by simp [e])
    have hxs : c ∉ xs := fun e => h (by simp [e])
    show findC c (x :: (xs ++ c :: b)) = _
    rw [findC, if_neg hx, ih hxs]
    simp

/-- `line[line.find('"') + 1 : line.rfind('"')]` of a background line of the dialect is the file name -/
theorem quoted_of_bgOk (bgl name : Str) (h : BgOk bgl name) : quoted bgl = name := by
  obtain ⟨tail, rfl, hq, _, hqt, _⟩ := h
  have hf : findC '"' ("0,0,\"".toList ++ name ++ '"' :: tail) = 4 := by
    have : "0,0,\"".toList ++ name ++ '"' :: tail = "0,0,".toList ++ '"' :: (name ++ '"' :: tail) := by simp
    rw [this, findC_append '"' "0,0,".toList _ (by decide +kernel)]; rfl
  have hrev : ("0,0,\"".toList ++ name ++ '"' :: tail).reverse = tail.reverse ++ '"' :: (name.reverse ++ "\",0,0".toList) := by
    simp
  have hr : rfindC '"' ("0,0,\"".toList ++ name ++ '"' :: tail) = (name.length : Int) + 5 := by
    unfold rfindC
    rw [hrev, findC_append '"' tail.reverse _ (by simpa using hqt)]
    simp; omega
  unfold quoted
  rw [hf, hr]
  have hlen : ("0,0,\"".toList ++ name ++ '"' :: tail).length = name.length + tail.length + 6 := by simp; omega
  unfold pySlice sliceIx
  rw [hlen]
  have n1 : ¬ ((4 : Int) + 1 < 0) := by omega
  have n2 : ¬ ((name.length : Int) + 5 < 0) := by omega
  simp only [if_neg n1, if_neg n2]
  have t1 : ((4 : Int) + 1).toNat = 5 := rfl
  have t2 : ((name.length : Int) + 5).toNat = name.length + 5 := by omega
  rw [t1, t2]
  have m1 : min 5 (name.length + tail.length + 6) = 5 := by omega
  have m2 : min (name.length + 5) (name.length + tail.length + 6) = name.length + 5 := by omega
  rw [m1, m2]
  have : "0,0,\"".toList ++ name ++ '"' :: tail = ("0,0,\"".toList ++ name) ++ '"' :: tail := by simp
  rw [this, List.take_left' (by simp), List.drop_left' (by decide +kernel)]

theorem bgOk_head (bgl name : Str) (h : BgOk bgl name) : ∃ t, bgl = '0' :: t := by
  obtain ⟨tail, rfl, _⟩ := h
  exact ⟨",0,\"".toList ++ name ++ '"' :: tail, by simp⟩

/-- the `[Events]` block under the scanning loop: the background name from the line after its marker, the samples
from the lines after theirs, nothing else -/
theorem readMeta_events (m : Meta) (A B S : List Str) (bgl name : Str) (ss : List Sample)
    (hA : ∀ l ∈ A, Inert l) (hbg : BgOk bgl name) (hB : ∀ l ∈ B, Inert l) (hS : ∀ l ∈ S, l = [] ∨ SampleOk l)
    (hss : mapE readSample (S.filter (startsWith pSample)) = .ok ss) :
    readMeta m (A ++ kBackground :: bgl :: (B ++ kSamples :: S)) =
      .ok { m with backgroundFileName := name, samples := ss } := by
  obtain ⟨t, hbt⟩ := bgOk_head bgl name hbg
  rw [readMeta_inert_block m A _ hA]
  rw [readMeta_step _ _ _ _ (metaStep_background _ _ _), quoted_of_bgOk bgl name hbg]
  rw [readMeta_step _ _ _ _ (metaStep_inert _ bgl _ (by rw [hbt]; exact inert_of_head0 t))]
  rw [readMeta_inert_block _ B _ hB]
  rw [readMeta_step _ _ _ _ (metaStep_samples _ _ _ hss)]
  have := readMeta_inert_block { { m with backgroundFileName := name } with samples := ss } S []
    (fun l hl => inert_sample_or_blank l (hS l hl))
  rw [List.append_nil] at this
  rw [this]; rfl

end Reamber.Osu

namespace Reamber.Osu

/-! ### the `[Events]` block, by the book -/

theorem filterMapE_append {α β} (f : α → Except Err (Option β)) (A B : List α) :
    filterMapE f (A ++ B) =
      match filterMapE f A with
      | .error e => .error e
      | .ok ra => match filterMapE f B with
        | .error e => .error e
        | .ok rb => .ok (ra ++ rb) := by
  induction A with
  | nil => simp only [List.nil_append, filterMapE]; cases filterMapE f B <;> rfl
  | cons a t ih =>
    show filterMapE f (a :: (t ++ B)) = _
    rw [filterMapE, ih, filterMapE]
    cases f a with
    | error e => rfl
    | ok o =>
      cases filterMapE f t with
      | error e => rfl
      | ok ra =>
        cases filterMapE f B with
        | error e => rfl
        | ok rb => cases o <;> rfl

theorem filterMapE_none {α β} (f : α → Except Err (Option β)) (A : List α) (h : ∀ a ∈ A, f a = .ok none) :
    filterMapE f A = .ok [] := by
  induction A with
  | nil => rfl
  | cons a t ih =>
    rw [filterMapE, h a (by simp), ih (fun a' ha' => h a' (by simp [ha']))]

theorem denoteSample_eq_readSample (l : Str) (h : SampleOk l) : denoteSample l = (readSample l).map some := by
  obtain ⟨ft, fl, f, fv, hs⟩ := h
  unfold denoteSample readSample
  simp only [hs]
  rcases readFloat_cases ft with ⟨v1, e1⟩ | e1 <;> rcases readInt_cases fv with ⟨v2, e2⟩ | e2 <;>
    simp [e1, e2, bind, Except.bind, pure, Except.pure, Except.map]

theorem filterMapE_denoteSample (L : List Str) (h : ∀ l ∈ L, SampleOk l) :
    filterMapE denoteSample L = mapE readSample L := by
  induction L with
  | nil => rfl
  | cons l t ih =>
    rw [filterMapE, mapE, denoteSample_eq_readSample l (h l (by simp)), ih (fun l' hl' => h l' (by simp [hl']))]
    cases readSample l with
    | error e => rfl
    | ok s => simp only [Except.map]; cases mapE readSample t <;> rfl

theorem sampleOk_facts (l : Str) (h : SampleOk l) :
    startsWith pSample l = true ∧ l ≠ [] ∧ isComment l = false ∧ isHeader l = false := by
  obtain ⟨x, rfl⟩ := sampleOk_prefix l h
  refine ⟨rfl, by simp, rfl, ?_⟩
  unfold isHeader
  have : ("Sample,".toList ++ x).head? = some 'S' := rfl
  rw [this]; rfl

/-- among blank lines and sample events, the three selections coincide -/
theorem sample_filters (S : List Str) (hS : ∀ l ∈ S, l = [] ∨ SampleOk l) :
    S.filter (startsWith pSample) = (S.filter (fun l => decide (l ≠ []))).filter (fun l => !isComment l) ∧
    ∀ l ∈ S.filter (startsWith pSample), SampleOk l := by
  induction S with
  | nil => exact ⟨rfl, by simp⟩
  | cons l t ih =>
    obtain ⟨i1, i2⟩ := ih (fun l' hl' => hS l' (by simp [hl']))
    rcases hS l (by simp) with rfl | hl
    · have : startsWith pSample [] = false := rfl
      simp only [List.filter_cons, this, ne_eq, not_true_eq_false, decide_false, Bool.false_eq_true, if_false]
      exact ⟨i1, i2⟩
    · obtain ⟨f1, f2, f3, _⟩ := sampleOk_facts l hl
      simp only [List.filter_cons, f1, if_true, ne_eq, f2, not_false_eq_true, decide_true, f3, Bool.not_false]
      refine ⟨by rw [i1], ?_⟩
      intro l' hl'
      simp only [List.mem_cons] at hl'
      rcases hl' with rfl | hl'
      · exact hl
      · exact i2 l' hl'

theorem denoteBackground_skip (A rest : List Str)
    (h : ∀ l ∈ A, ∀ ty a f r, splitOn ',' l = ty :: a :: f :: r → ty ≠ ['0']) :
    denoteBackground (A ++ rest) = denoteBackground rest := by
  induction A with
  | nil => rfl
  | cons l t ih =>
    show denoteBackground (l :: (t ++ rest)) = _
    have ih' := ih (fun l' hl' => h l' (by simp [hl']))
    rw [denoteBackground]
    rcases hs : splitOn ',' l with _ | ⟨ty, _ | ⟨a, _ | ⟨f, r⟩⟩⟩
    · simpa using ih'
    · simpa using ih'
    · simpa using ih'
    · have := h l (by simp) ty a f r hs
      simp only [if_neg this]; exact ih'

theorem split_bgOk (bgl name : Str) (h : BgOk bgl name) :
    ∃ r, splitOn ',' bgl = ['0'] :: ['0'] :: ('"' :: (name ++ ['"'])) :: r := by
  obtain ⟨tail, rfl, _, hc, _, ht⟩ := h
  have e : "0,0,\"".toList ++ name ++ '"' :: tail = ['0'] ++ ',' :: (['0'] ++ ',' :: (('"' :: (name ++ ['"'])) ++ tail)) := by
    simp
  rw [e, splitOn_append_sep ',' ['0'] _ (by decide +kernel), splitOn_append_sep ',' ['0'] _ (by decide +kernel)]
  have hf : ',' ∉ ('"' :: (name ++ ['"'])) := by
    simp only [List.mem_cons, List.mem_append, List.mem_singleton, not_or]
    exact ⟨by decide +kernel, hc, by decide +kernel⟩
  rcases ht with rfl | ht
  · rw [List.append_nil, splitOn_noSep ',' _ hf]; exact ⟨[], rfl⟩
  · cases tail with
    | nil => simp at ht
    | cons c t' =>
      simp only [List.head?_cons, Option.some.injEq] at ht
      subst ht
      rw [splitOn_append_sep ',' _ t' hf]; exact ⟨_, rfl⟩

theorem denoteBackground_bg (bgl name : Str) (rest : List Str) (h : BgOk bgl name) :
    denoteBackground (bgl :: rest) = some name := by
  obtain ⟨r, hs⟩ := split_bgOk bgl name h
  rw [denoteBackground, hs]
  have hl : ('"' :: (name ++ ['"'])).getLast? = some '"' := by
    have : '"' :: (name ++ ['"']) = ('"' :: name) ++ ['"'] := rfl
    rw [this, List.getLast?_append]; rfl
  simp [hl]

theorem denoteSample_bg (bgl name : Str) (h : BgOk bgl name) : denoteSample bgl = .ok none := by
  obtain ⟨r, hs⟩ := split_bgOk bgl name h
  unfold denoteSample
  rw [hs]
  rcases r with _ | ⟨x, _ | ⟨y, _ | ⟨z, w⟩⟩⟩ <;> simp

end Reamber.Osu
