/-
C03 — the MSD layer of a written file: a text made of values `#p0:p1:…:pk;`, comment lines `//…` and line breaks is
parsed by the specification's MSD automaton (`Spec/SM.lean: msd`) into exactly those values, parameters trimmed.
Core Lean only.
-/
import Reamber.Lemmas.SMDefs

namespace Reamber.SM

open Reamber.Timing

/-- what a file is made of -/
inductive Item where
  | value (params : List Str)        -- `#p0:p1:…:pk;`
  | comment (text : Str)             -- `//text` up to the end of the line
  | newline
deriving Repr

def renderItem : Item → Str
  | .value ps => '#' :: joinWith [':'] ps ++ [';']
  | .comment t => '/' :: '/' :: t ++ ['\n']
  | .newline => ['\n']

def renderItems (items : List Item) : Str := (items.map renderItem).flatten

/-- no `//` inside -/
def NoCmt : Str → Prop
  | c :: d :: t => ¬(c = '/' ∧ d = '/') ∧ NoCmt (d :: t)
  | _ => True

/-- a parameter the MSD layer keeps intact: none of `# : ; \` and no `//` inside (a single `/` is fine) -/
def CleanParam (p : Str) : Prop := (∀ c ∈ p, c ≠ '#' ∧ c ≠ ':' ∧ c ≠ ';' ∧ c ≠ '\\') ∧ NoCmt p

def ItemOk : Item → Prop
  | .value ps => ps ≠ [] ∧ ∀ p ∈ ps, CleanParam p
  | .comment t => '\n' ∉ t
  | .newline => True

/-! ### comments -/

theorem strip_clean_prefix : ∀ (a b : Str), (∀ c ∈ a, c ≠ '/') →
    stripCommentsAux false (a ++ b) = a ++ stripCommentsAux false b := by
  intro a
  induction a with
  | nil => intro b _; rfl
  | cons c t ih =>
    intro b h
    have hc : c ≠ '/' := h c (by simp)
    have ht := ih b (fun x hx => h x (List.mem_cons_of_mem _ hx))
    cases hr : t ++ b with
    | nil =>
      have : t = [] ∧ b = [] := by simpa using hr
      simp [this.1, this.2, stripCommentsAux]
    | cons d r =>
      rw [List.cons_append, hr]
      rw [hr] at ht
      simp only [stripCommentsAux, hc, false_and, if_false]
      rw [ht]
      rfl

theorem strip_in_comment : ∀ (t b : Str), '\n' ∉ t →
    stripCommentsAux true (t ++ '\n' :: b) = '\n' :: stripCommentsAux false b := by
  intro t
  induction t with
  | nil => intro b _; simp [stripCommentsAux]
  | cons c r ih =>
    intro b h
    have hc : c ≠ '\n' := fun e => h (by simp [e])
    simp only [List.cons_append, stripCommentsAux, hc, if_false]
    exact ih b (fun hm => h (List.mem_cons_of_mem _ hm))

theorem strip_comment (t b : Str) (h : '\n' ∉ t) :
    stripCommentsAux false ('/' :: '/' :: t ++ '\n' :: b) = '\n' :: stripCommentsAux false b := by
  have : ('/' :: '/' :: t ++ '\n' :: b) = '/' :: '/' :: (t ++ '\n' :: b) := by simp
  rw [this]
  simp only [stripCommentsAux, and_self, if_true]
  exact strip_in_comment t b h

theorem noCmt_tail {c : Char} {t : Str} (h : NoCmt (c :: t)) : NoCmt t := by
  cases t with
  | nil => trivial
  | cons d r => exact h.2

/-- two comment-free texts joined by a character other than '/' -/
theorem noCmt_append_sep : ∀ (a b : Str) (x : Char), NoCmt a → NoCmt b → x ≠ '/' → NoCmt (a ++ x :: b) := by
  intro a
  induction a with
  | nil =>
    intro b x _ hb hx
    cases b with
    | nil => trivial
    | cons d r => exact ⟨fun h => hx h.1, hb⟩
  | cons c t ih =>
    intro b x ha hb hx
    have iht := ih b x (noCmt_tail ha) hb hx
    cases t with
    | nil => exact ⟨fun h => hx h.2, iht⟩
    | cons d r => exact ⟨ha.1, iht⟩

/-- a comment-free text ending in a character other than '/' passes the comment stripper unchanged -/
theorem strip_nocmt_snoc : ∀ (a : Str) (x : Char) (b : Str), NoCmt (a ++ [x]) → x ≠ '/' →
    stripCommentsAux false (a ++ x :: b) = a ++ x :: stripCommentsAux false b := by
  intro a
  induction a with
  | nil =>
    intro x b _ hx
    cases b with
    | nil => rfl
    | cons d t => simp [stripCommentsAux, hx]
  | cons c r ih =>
    intro x b h hx
    have iht := ih x b (noCmt_tail h) hx
    cases r with
    | nil =>
      have hcx : ¬(c = '/' ∧ x = '/') := fun e => hx e.2
      simp only [List.nil_append, List.cons_append] at iht ⊢
      simp only [stripCommentsAux, hcx, if_false]
      rw [iht]
    | cons d t =>
      have hcd : ¬(c = '/' ∧ d = '/') := h.1
      simp only [List.cons_append] at iht ⊢
      simp only [stripCommentsAux, hcd, if_false]
      rw [iht]

theorem noCmt_joinColon : ∀ (t : List Str) (p : Str), NoCmt p → (∀ q ∈ t, NoCmt q) →
    NoCmt (p ++ (t.map (fun q => ':' :: q)).flatten) := by
  intro t
  induction t with
  | nil => intro p hp _; simpa using hp
  | cons q r ih =>
    intro p hp h
    simp only [List.map_cons, List.flatten_cons, List.cons_append]
    exact noCmt_append_sep p _ ':' hp (ih q (h q (by simp)) (fun x hx => h x (List.mem_cons_of_mem _ hx))) (by decide)

theorem joinWith_colon (p : Str) (t : List Str) : joinWith [':'] (p :: t) = p ++ (t.map (fun q => ':' :: q)).flatten := by
  induction t generalizing p with
  | nil => simp [joinWith]
  | cons q r ih => simp [joinWith, ih q]

/-- comments are removed item by item: values and line breaks stay, a comment line leaves its line break -/
def stripItem : Item → Str
  | .comment _ => ['\n']
  | it => renderItem it

theorem strip_items : ∀ (items : List Item), (∀ it ∈ items, ItemOk it) →
    stripComments (renderItems items) = (items.map stripItem).flatten := by
  intro items
  unfold stripComments renderItems
  induction items with
  | nil => intro _; rfl
  | cons it t ih =>
    intro h
    have iht := ih (fun x hx => h x (List.mem_cons_of_mem _ hx))
    have hit := h it (by simp)
    simp only [List.map_cons, List.flatten_cons]
    cases it with
    | value ps =>
      simp only [renderItem, stripItem]
      cases ps with
      | nil => exact absurd rfl hit.1
      | cons p0 ps' =>
        rw [joinWith_colon]
        have hX : NoCmt (p0 ++ (ps'.map (fun q => ':' :: q)).flatten) :=
          noCmt_joinColon ps' p0 (hit.2 p0 (by simp)).2 (fun q hq => (hit.2 q (List.mem_cons_of_mem _ hq)).2)
        have hA : NoCmt ('#' :: (p0 ++ (ps'.map (fun q => ':' :: q)).flatten)) :=
          noCmt_append_sep [] _ '#' trivial hX (by decide)
        have hA' : NoCmt (('#' :: (p0 ++ (ps'.map (fun q => ':' :: q)).flatten)) ++ [';']) :=
          noCmt_append_sep _ [] ';' hA trivial (by decide)
        have := strip_nocmt_snoc ('#' :: (p0 ++ (ps'.map (fun q => ':' :: q)).flatten)) ';'
          ((t.map renderItem).flatten) hA' (by decide)
        simp only [List.cons_append, List.append_assoc, List.nil_append] at this ⊢
        rw [this, iht]
    | comment txt =>
      simp only [renderItem, stripItem]
      have : ('/' :: '/' :: txt ++ ['\n'] ++ (t.map renderItem).flatten) =
          ('/' :: '/' :: txt ++ '\n' :: (t.map renderItem).flatten) := by simp
      rw [this, strip_comment txt _ hit, iht]
      simp
    | newline =>
      simp only [renderItem, stripItem]
      rw [strip_clean_prefix ['\n'] _ (by simp), iht]

/-! ### the automaton -/

def scanMsd (st : Msd) (t : Str) : Msd := t.foldl msdStep st

theorem scanMsd_append (st : Msd) (a b : Str) : scanMsd st (a ++ b) = scanMsd (scanMsd st a) b := by
  simp [scanMsd, List.foldl_append]

/-- the characters of a parameter are accumulated -/
theorem scanMsd_param (st : Msd) (p : Str) (hin : st.inValue = true) (hp : CleanParam p) :
    scanMsd st p = { st with cur := p.reverse ++ st.cur } := by
  induction p generalizing st with
  | nil => simp [scanMsd]
  | cons c t ih =>
    have hc := hp.1 c (by simp)
    have hstep : msdStep st c = { st with cur := c :: st.cur } := by
      simp [msdStep, hin, hc.1, hc.2.1, hc.2.2.1, hc.2.2.2]
    simp only [scanMsd, List.foldl_cons] at ih ⊢
    rw [hstep, ih ({ st with cur := c :: st.cur } : Msd) hin
      ⟨fun x hx => hp.1 x (List.mem_cons_of_mem _ hx), noCmt_tail hp.2⟩]
    simp

/-- the parameters after the first, each preceded by ':' -/
theorem scanMsd_params : ∀ (ps : List Str) (st : Msd), st.inValue = true → (∀ p ∈ ps, CleanParam p) →
    scanMsd st ((ps.map (fun p => ':' :: p)).flatten) =
      match ps.reverse with
      | [] => st
      | last :: before =>
        { st with params := before.map trim ++ trim st.cur.reverse :: st.params, cur := last.reverse } := by
  intro ps
  induction ps with
  | nil => intro st _ _; rfl
  | cons p t ih =>
    intro st hin hp
    simp only [List.map_cons, List.flatten_cons, List.cons_append]
    rw [show (':' :: (p ++ (t.map (fun p => ':' :: p)).flatten)) = [':'] ++ (p ++ (t.map (fun p => ':' :: p)).flatten) by rfl,
      scanMsd_append, scanMsd_append]
    have h1 : scanMsd st [':'] = { st with params := trim st.cur.reverse :: st.params, cur := [] } := by
      simp [scanMsd, msdStep, hin]
    rw [h1, scanMsd_param ({ st with params := trim st.cur.reverse :: st.params, cur := [] } : Msd) p hin (hp p (by simp)),
      List.append_nil]
    have := ih ({ st with params := trim st.cur.reverse :: st.params, cur := p.reverse } : Msd) hin
      (fun x hx => hp x (List.mem_cons_of_mem _ hx))
    rw [this]
    cases hr : t.reverse with
    | nil =>
      have : t = [] := by simpa using hr
      subst this
      simp
    | cons last before =>
      have : (p :: t).reverse = last :: (before ++ [p]) := by simp [hr]
      rw [this]
      simp [List.map_append]

/-- one value `#p0:…:pk;` read from outside a value -/
theorem scanMsd_value (st : Msd) (ps : List Str) (hout : st.inValue = false) (hne : ps ≠ []) (hp : ∀ p ∈ ps, CleanParam p) :
    scanMsd st ('#' :: joinWith [':'] ps ++ [';']) =
      { st with done := ps.map trim :: st.done, params := [], cur := [], inValue := false } := by
  cases ps with
  | nil => exact absurd rfl hne
  | cons p t =>
    rw [joinWith_colon]
    rw [show ('#' :: (p ++ (t.map (fun q => ':' :: q)).flatten) ++ [';']) =
      ['#'] ++ (p ++ ((t.map (fun q => ':' :: q)).flatten ++ [';'])) by simp,
      scanMsd_append, scanMsd_append, scanMsd_append]
    have h1 : scanMsd st ['#'] = { st with inValue := true, params := [], cur := [] } := by
      simp [scanMsd, msdStep, hout]
    rw [h1, scanMsd_param ({ st with inValue := true, params := [], cur := [] } : Msd) p rfl (hp p (by simp)), List.append_nil,
      scanMsd_params t _ rfl (fun x hx => hp x (List.mem_cons_of_mem _ hx))]
    cases hr : t.reverse with
    | nil =>
      have : t = [] := by simpa using hr
      subst this
      simp [scanMsd, msdStep, Msd.close]
    | cons last before =>
      have ht : t = before.reverse ++ [last] := by
        have := congrArg List.reverse hr
        simpa using this
      simp only [scanMsd, List.foldl_cons, List.foldl_nil, msdStep, Msd.close]
      simp [ht, List.map_append, List.map_reverse]

theorem scanMsd_newline (st : Msd) (hout : st.inValue = false) : scanMsd st ['\n'] = st := by
  simp [scanMsd, msdStep, hout]

/-- **The MSD layer of a written file**: the values come back in file order, parameters trimmed; comment lines and
line breaks between values leave no trace. -/
theorem msd_renderItems (items : List Item) (hok : ∀ it ∈ items, ItemOk it) :
    msd (renderItems items) =
      some (items.filterMap (fun it => match it with
        | .value ps => some (ps.map trim)
        | _ => none)) := by
  unfold msd
  rw [strip_items items hok]
  -- invariant: outside a value, clean, done = the values so far (reversed)
  have key : ∀ (its : List Item) (st : Msd), st.inValue = false → st.params = [] → st.cur = [] → (∀ it ∈ its, ItemOk it) →
      scanMsd st ((its.map stripItem).flatten) =
        { st with done := (its.filterMap (fun it => match it with
            | .value ps => some (ps.map trim)
            | _ => none)).reverse ++ st.done } := by
    intro its
    induction its with
    | nil => intro st _ _ _ _; simp [scanMsd]
    | cons it t ih =>
      intro st hout hpar hcur h
      simp only [List.map_cons, List.flatten_cons]
      rw [scanMsd_append]
      have hit := h it (by simp)
      cases it with
      | value ps =>
        simp only [stripItem, renderItem]
        rw [scanMsd_value st ps hout hit.1 hit.2, ih _ rfl rfl rfl (fun x hx => h x (List.mem_cons_of_mem _ hx))]
        cases st
        simp_all
      | comment txt =>
        simp only [stripItem]
        rw [scanMsd_newline st hout, ih st hout hpar hcur (fun x hx => h x (List.mem_cons_of_mem _ hx))]
        simp
      | newline =>
        simp only [stripItem, renderItem]
        rw [scanMsd_newline st hout, ih st hout hpar hcur (fun x hx => h x (List.mem_cons_of_mem _ hx))]
        simp
  have := key items {} rfl rfl rfl hok
  simp only [scanMsd] at this
  rw [this]
  simp

end Reamber.SM
