/- C06 — the float class of `scText`: every text of `floatLex` is written plain and read back as that float. -/
import Reamber.Lemmas.QuaTextLex
namespace Reamber.QuaText
open Reamber.Osu (Str showInt showNat readNat? isDig split1 natOfDigits)

/-! ### characters of a float lexeme -/

theorem isDig_digitChar {c : Char} (h : isDig c = true) : ∃ d, d < 10 ∧ c = Osu.digitChar d := by
  simp [isDig] at h
  refine ⟨c.toNat - 48, by omega, ?_⟩
  unfold Osu.digitChar
  have : 48 + (c.toNat - 48) = c.toNat := by omega
  rw [this, Char.ofNat_toNat]

theorem isDig_numCh {c : Char} (h : isDig c = true) : NumCh c ∧ c ≠ '-' := by
  obtain ⟨d, hd, rfl⟩ := isDig_digitChar h
  exact ⟨NumCh.of (numChOK_digit d hd).1, (numChOK_digit d hd).2.2⟩

def fltCh (c : Char) : Bool := isDig c || c == '.' || c == 'e' || c == 'E' || c == '+' || c == '-'

def fltChOK (c : Char) : Bool :=
  printable c && c != ' ' && c != ':' && c != '#' && c != '?' && c != '\t'

structure FCh (c : Char) : Prop where
  pr : printable c = true
  sp : c ≠ ' '
  col : c ≠ ':'
  hash : c ≠ '#'
  qm : c ≠ '?'
  tab : c ≠ '\t'

theorem FCh.of {c : Char} (h : fltChOK c = true) : FCh c := by
  simp [fltChOK, Bool.and_eq_true] at h
  obtain ⟨⟨⟨⟨⟨h1, h2⟩, h3⟩, h4⟩, h5⟩, h6⟩ := h
  exact ⟨h1, h2, h3, h4, h5, h6⟩

theorem NumCh.toF {c : Char} (h : NumCh c) : FCh c := ⟨h.pr, h.sp, h.col, h.hash, h.qm, h.tab⟩

theorem fltCh_ok {c : Char} (h : fltCh c = true) : FCh c := by
  simp only [fltCh, Bool.or_eq_true, beq_iff_eq] at h
  rcases h with ((((h | rfl) | rfl) | rfl) | rfl) | rfl
  · exact (isDig_numCh h).1.toF
  all_goals exact FCh.of (by decide)

/-! ### shape of a numeric float lexeme -/

/-- the numeric branch of `floatLex` on the text without its sign -/
def floatBody (t1 : Str) : Bool :=
  let ip := t1.takeWhile isDig
  let r1 := t1.dropWhile isDig
  !ip.isEmpty &&
  match r1 with
  | '.' :: r2 =>
    (match r2.dropWhile isDig with
     | [] => true
     | e :: s :: ds => (e = 'e' || e = 'E') && (s = '-' || s = '+') && !ds.isEmpty && ds.all isDig
     | _ => false)
  | _ => false

/-- the text without an optional leading minus -/
def unsign (t : Str) : Str := if t.head? == some '-' then t.drop 1 else t

theorem floatLex_eq (t : Str) : floatLex t = (floatSpecials.contains t || floatBody (unsign t)) := rfl

theorem mem_takeWhile_isDig {l : Str} {x : Char} (h : x ∈ l.takeWhile isDig) : isDig x = true := by
  induction l with
  | nil => simp at h
  | cons a as ih =>
    by_cases ha : isDig a = true
    · simp [List.takeWhile, ha] at h
      rcases h with rfl | h
      · exact ha
      · exact ih h
    · simp [List.takeWhile, ha] at h

theorem floatBody_shape {t1 : Str} (h : floatBody t1 = true) :
    ∃ d ds, t1 = d :: ds ∧ isDig d = true ∧ (∀ x ∈ t1, fltCh x = true) ∧ '.' ∈ t1 := by
  unfold floatBody at h
  simp only [Bool.and_eq_true] at h
  obtain ⟨h1, h2⟩ := h
  have hsplit : t1.takeWhile isDig ++ t1.dropWhile isDig = t1 := List.takeWhile_append_dropWhile
  have hdig : ∀ x, isDig x = true → fltCh x = true := by intro x hx; simp [fltCh, hx]
  split at h2
  · next r2 heq =>
    have hsplit2 : r2.takeWhile isDig ++ r2.dropWhile isDig = r2 := List.takeWhile_append_dropWhile
    have hr2 : ∀ x ∈ r2, fltCh x = true := by
      intro x hx
      rw [← hsplit2, List.mem_append] at hx
      rcases hx with hx | hx
      · exact hdig x (mem_takeWhile_isDig hx)
      · split at h2
        · next heq2 => rw [heq2] at hx; simp at hx
        · next e s ds heq2 =>
          rw [heq2] at hx
          simp only [Bool.and_eq_true, Bool.or_eq_true, decide_eq_true_eq, List.all_eq_true] at h2
          obtain ⟨⟨⟨he, hs⟩, _⟩, hds⟩ := h2
          simp only [List.mem_cons] at hx
          rcases hx with rfl | rfl | hx
          · rcases he with rfl | rfl <;> decide
          · rcases hs with rfl | rfl <;> decide
          · exact hdig x (hds x hx)
        · cases h2
    have hall : ∀ x ∈ t1, fltCh x = true := by
      intro x hx
      rw [← hsplit, heq, List.mem_append] at hx
      rcases hx with hx | hx
      · exact hdig x (mem_takeWhile_isDig hx)
      · simp only [List.mem_cons] at hx
        rcases hx with rfl | hx
        · decide
        · exact hr2 x hx
    have hdot : '.' ∈ t1 := by rw [← hsplit, heq]; simp
    cases t1 with
    | nil => simp at h1
    | cons d ds =>
      by_cases hd : isDig d = true
      · exact ⟨d, ds, rfl, hd, hall, hdot⟩
      · simp [List.takeWhile, hd] at h1
  · cases h2

/-! ### plain scalar analysis of a float lexeme -/

theorem plainAllowed_flt (c : Char) (cs : Str) (hc : NumCh c) (hall : ∀ x ∈ c :: cs, FCh x)
    (h3 : "---".toList.isPrefixOf (c :: cs) = false) (hb : c = '-' → blankz cs = false) :
    plainAllowed (c :: cs) = true := by
  have hpr : (c :: cs).all printable = true := by
    rw [List.all_eq_true]; exact fun x hx => (hall x hx).pr
  have hl : (c :: cs).getLast? ≠ some ' ' := by
    intro h; exact (hall _ (List.mem_of_getLast? h)).sp rfl
  have hin : innerInd c cs = false :=
    innerInd_false c cs (fun x hx => ⟨(hall x (by simp [hx])).col, (hall x (by simp [hx])).hash⟩)
  have hdot : "...".toList.isPrefixOf (c :: cs) = false := by
    have : ('.' == c) = false := by simp; exact fun e => hc.dot e.symm
    show (('.' == c) && _) = false
    rw [this]; rfl
  have hbl : ((c = '?' || c = ':' || c = '-') && blankz cs) = false := by
    by_cases e : c = '-'
    · simp [hb e]
    · simp [e, hc.qm, hc.col]
  have hbi : blockInd (c :: cs) = false := by
    show ("---".toList.isPrefixOf (c :: cs) || "...".toList.isPrefixOf (c :: cs) || indicator1 c ||
      ((c = '?' || c = ':' || c = '-') && blankz cs) || innerInd c cs) = false
    rw [h3, hdot, hc.ind, hbl, hin]; rfl
  unfold plainAllowed
  rw [hpr, hbi]
  simp [hc.sp]
  simpa using hl

theorem floatBody_text {l : Str} (h : floatBody (unsign l) = true) :
    ∃ c cs, l = c :: cs ∧ NumCh c ∧ (∀ x ∈ c :: cs, FCh x) ∧
      "---".toList.isPrefixOf (c :: cs) = false ∧ (c = '-' → blankz cs = false) ∧
      readNat? (unsign l) = none := by
  obtain ⟨d, ds, ht, hd, hall, hdot⟩ := floatBody_shape h
  obtain ⟨nd, hdm⟩ := isDig_numCh hd
  have hne : ('-' == d) = false := by simp; exact fun e => hdm e.symm
  have hrn : readNat? (unsign l) = none := by
    unfold readNat?
    rw [if_neg]
    rintro ⟨_, ha⟩
    exact absurd (List.all_eq_true.mp ha '.' hdot) (by decide)
  have hF : ∀ x ∈ unsign l, FCh x := fun x hx => fltCh_ok (hall x hx)
  by_cases hneg : (l.head? == some '-') = true
  · cases l with
    | nil => simp at hneg
    | cons c cs =>
      have hc : c = '-' := by simpa using hneg
      subst hc
      have hu : unsign ('-' :: cs) = cs := by simp [unsign]
      rw [hu] at ht hF
      subst ht
      refine ⟨'-', d :: ds, rfl, NumCh.of numChOK_minus, ?_, ?_, ?_, hrn⟩
      · intro x hx
        simp only [List.mem_cons] at hx
        rcases hx with rfl | hx
        · exact (NumCh.of numChOK_minus).toF
        · exact hF x (by simpa using hx)
      · show (('-' == '-') && (('-' == d) && _)) = false
        rw [hne]; rfl
      · intro _
        simp [blankz, nd.sp, nd.tab]
  · have hu : unsign l = l := by simp [unsign, hneg]
    rw [hu] at ht hF
    subst ht
    refine ⟨d, ds, rfl, nd, hF, ?_, ?_, hrn⟩
    · show (('-' == d) && _) = false
      rw [hne]; rfl
    · intro e; exact absurd e hdm

theorem intLex_none {t : Str} (h : readNat? (unsign t) = none) : intLex? t = none := by
  unfold intLex?
  unfold unsign at h
  simp only [h]

/-! ### the float class -/

theorem lexVal_floatLex (l : Str) (h : floatLex l = true) : lexVal l = some (.sc (.flt l)) := by
  by_cases hs : floatSpecials.contains l = true
  · have hm := List.contains_iff_mem.mp hs
    simp only [floatSpecials, List.map_cons, List.map_nil, List.mem_cons, List.not_mem_nil, or_false] at hm
    rcases hm with rfl | rfl | rfl | rfl | rfl | rfl | rfl | rfl | rfl <;> decide +kernel
  · have hb : floatBody (unsign l) = true := by
      rw [floatLex_eq, Bool.or_eq_true] at h
      exact h.resolve_left hs
    obtain ⟨c, cs, hl, hc, hall, h3, hbz, hrn⟩ := floatBody_text hb
    have hp : plainAllowed l = true := by rw [hl]; exact plainAllowed_flt c cs hc hall h3 hbz
    have hw : headWord l = false := by rw [hl]; exact headWord_numCh hc
    obtain ⟨w1, w2, w3⟩ := not_word _ hw
    have hr : resolve l = some (.flt l) := by
      unfold resolve
      rw [w1, w2, w3, intLex_none hrn, h]
      simp
    rw [lexVal_plain _ hp, hr]; rfl

theorem scText_flt (l : Str) (h : floatLex l = true) : scText (.flt l) = some l := by
  simp only [scText, lexVal_floatLex l h, if_true]

end Reamber.QuaText
