/-
C13 — helper lemmas: the stacker (`concat` → column assignment → `_update`) acts on every list as a per-column
map; three column assignments compose into one pass; slicing by `_ixs` recovers each list's rows.
-/
import Reamber.Spec.Rate
import Mathlib.Algebra.Order.Field.Rat
import Mathlib.Tactic.Ring
import Mathlib.Tactic.FieldSimp

namespace Reamber.Rate

/-- apply `h col` to the cell under every column -/
def mapAll (h : String → Cell → Cell) : List String → List Cell → List Cell
  | k :: ks, v :: vs => h k v :: mapAll h ks vs
  | _, vs => vs

theorem mapAt_eq_mapAll (c : String) (g : Cell → Cell) (ks : List String) (vs : List Cell) :
    mapAt c g ks vs = mapAll (fun k v => if k = c then g v else v) ks vs := by
  induction ks generalizing vs with
  | nil => cases vs <;> simp [mapAt, mapAll]
  | cons k ks ih => cases vs with
    | nil => simp [mapAt, mapAll]
    | cons v vs => simp [mapAt, mapAll, ih]

theorem mapAll_comp (h h' : String → Cell → Cell) (ks : List String) (vs : List Cell) :
    mapAll h' ks (mapAll h ks vs) = mapAll (fun k v => h' k (h k v)) ks vs := by
  induction ks generalizing vs with
  | nil => cases vs <;> simp [mapAll]
  | cons k ks ih => cases vs with
    | nil => simp [mapAll]
    | cons v vs => simp [mapAll, ih]

theorem mapAll_id (ks : List String) (vs : List Cell) : mapAll (fun _ v => v) ks vs = vs := by
  induction ks generalizing vs with
  | nil => cases vs <;> simp [mapAll]
  | cons k ks ih => cases vs with
    | nil => simp [mapAll]
    | cons v vs => simp [mapAll, ih]

theorem mapAll_congr {h h' : String → Cell → Cell} (hh : ∀ k v, h k v = h' k v) (ks : List String) (vs : List Cell) :
    mapAll h ks vs = mapAll h' ks vs := by
  have : h = h' := by funext k v; exact hh k v
  rw [this]

theorem scaleRow_eq_mapAll (r : Rat) (ks : List String) (vs : List Cell) :
    scaleRow r ks vs = mapAll (scaleCell r) ks vs := by
  induction ks generalizing vs with
  | nil => cases vs <;> simp [scaleRow, mapAll]
  | cons k ks ih => cases vs with
    | nil => simp [scaleRow, mapAll]
    | cons v vs => simp [scaleRow, mapAll, ih]

theorem mapAll_length (h : String → Cell → Cell) (ks : List String) (vs : List Cell) :
    (mapAll h ks vs).length = vs.length := by
  induction ks generalizing vs with
  | nil => cases vs <;> simp [mapAll]
  | cons k ks ih => cases vs with
    | nil => simp [mapAll]
    | cons v vs => simp [mapAll, ih]

/-! ### lookups -/

/-- looking a column up in a row that was built by `map` over the same columns -/
theorem lookupCell_mapAll_map (h : String → Cell → Cell) (F : String → Cell) (u : List String) (k : String)
    (hk : k ∈ u) : lookupCell u (mapAll h u (u.map F)) k = h k (F k) := by
  induction u with
  | nil => cases hk
  | cons k0 u ih =>
    simp only [List.map_cons, mapAll, lookupCell]
    by_cases h0 : k0 = k
    · subst h0; simp
    · simp only [h0, if_false]
      have : k ∈ u := by
        rcases List.mem_cons.mp hk with h1 | h1
        · exact absurd h1.symm h0
        · exact h1
      exact ih this

theorem lookupCell_map (F : String → Cell) (u : List String) (k : String) (hk : k ∈ u) :
    lookupCell u (u.map F) k = F k := by
  have := lookupCell_mapAll_map (fun _ v => v) F u k hk
  simpa [mapAll_id] using this

theorem nodupB_cons {c : String} {cs : List String} (h : nodupB (c :: cs) = true) : c ∉ cs ∧ nodupB cs = true := by
  simp [nodupB] at h
  exact ⟨by simpa using h.1, h.2⟩

/-- a row over nodup columns is the `map` of its own lookups -/
theorem mapAll_eq_map_lookup (h : String → Cell → Cell) (lc : List String) (row : List Cell)
    (hn : nodupB lc = true) (hl : row.length = lc.length) :
    mapAll h lc row = lc.map (fun k => h k (lookupCell lc row k)) := by
  induction lc generalizing row with
  | nil => cases row with
    | nil => simp [mapAll]
    | cons v vs => simp at hl
  | cons k0 lc ih => cases row with
    | nil => simp at hl
    | cons v vs =>
      obtain ⟨hnot, hn'⟩ := nodupB_cons hn
      have hl' : vs.length = lc.length := by simpa using hl
      simp only [mapAll, List.map_cons, lookupCell, if_true]
      congr 1
      rw [ih vs hn' hl']
      apply List.map_congr_left
      intro k hk
      have : k0 ≠ k := fun e => hnot (e ▸ hk)
      simp [this]

/-- **one list through the stacker**: spread a row over the stacked columns, transform it column-wise there,
project it back on the list's own columns — the list's row transformed column-wise. -/
theorem reindex_mapAll_reindex (h : String → Cell → Cell) (u lc : List String) (row : List Cell)
    (hn : nodupB lc = true) (hl : row.length = lc.length) (hsub : ∀ k ∈ lc, k ∈ u) :
    reindex lc u (mapAll h u (reindex u lc row)) = mapAll h lc row := by
  rw [mapAll_eq_map_lookup h lc row hn hl]
  unfold reindex
  apply List.map_congr_left
  intro k hk
  exact lookupCell_mapAll_map h (lookupCell lc row) u k (hsub k hk)

/-! ### columns of the stacked frame -/

theorem mem_unionCols (css : List (List String)) (c : String) :
    c ∈ unionCols css ↔ ∃ cs ∈ css, c ∈ cs := by
  induction css with
  | nil => simp [unionCols]
  | cons cs rest ih =>
    simp only [unionCols, List.mem_append, List.mem_filter, ih, List.mem_cons, exists_eq_or_imp]
    constructor
    · rintro (h | ⟨h, _⟩)
      · exact Or.inl h
      · exact Or.inr h
    · rintro (h | h)
      · exact Or.inl h
      · by_cases hc : c ∈ cs
        · exact Or.inl hc
        · exact Or.inr ⟨h, by simpa using hc⟩

theorem cols_subset_union (fs : List Frame) (f : Frame) (hf : f ∈ fs) :
    ∀ k ∈ f.cols, k ∈ unionCols (fs.map (·.cols)) := by
  intro k hk
  exact (mem_unionCols _ _).mpr ⟨f.cols, List.mem_map.mpr ⟨f, hf, rfl⟩, hk⟩

theorem hasCol_mem_union (fs : List Frame) (c : String) (h : hasCol fs c = true) :
    c ∈ unionCols (fs.map (·.cols)) := by
  simp only [hasCol, List.any_eq_true] at h
  obtain ⟨f, hf, hc⟩ := h
  exact cols_subset_union fs f hf c (by simpa using hc)

/-! ### slicing by `_ixs` -/

theorem ixsFrom_eq_cons (off : Nat) (fs : List Frame) : ∃ t, ixsFrom off fs = off :: t := by
  cases fs with
  | nil => exact ⟨[], rfl⟩
  | cons f fs => exact ⟨_, rfl⟩

/-- `_update` gives every list back exactly its own rows of the stacked frame (whatever row transformation `T`
was applied to the stacked rows in between), projected on its own columns. `objs` are the current unstacked
lists: only their columns are used. -/
theorem updateWith_slices (u : List String) (T : List Cell → List Cell) :
    ∀ (fs objs : List Frame) (pre post : List (List Cell)),
      objs.map (·.cols) = fs.map (·.cols) →
      updateWith ⟨u, pre ++ (fs.flatMap (fun f => f.rows.map (fun row => T (reindex u f.cols row)))) ++ post⟩
          objs (ixsFrom pre.length fs)
        = fs.map (fun f => ⟨f.cols, f.rows.map (fun row => reindex f.cols u (T (reindex u f.cols row)))⟩) := by
  intro fs
  induction fs with
  | nil =>
    intro objs pre post hc
    cases objs with
    | nil => simp [updateWith]
    | cons o os => simp at hc
  | cons f fs ih =>
    intro objs pre post hc
    cases objs with
    | nil => simp at hc
    | cons o os =>
      simp only [List.map_cons, List.cons.injEq] at hc
      obtain ⟨ho, hos⟩ := hc
      obtain ⟨t, ht⟩ := ixsFrom_eq_cons (pre.length + f.rows.length) fs
      simp only [ixsFrom, ht, updateWith, List.map_cons, List.flatMap_cons]
      congr 1
      · rw [ho]
        congr 1
        have e1 : pre.length + f.rows.length - pre.length = f.rows.length := by omega
        rw [e1, List.append_assoc, List.append_assoc, List.drop_left,
          List.take_left' (by simp)]
        simp [List.map_map, Function.comp_def]
      · rw [← ht]
        have := ih os (pre ++ f.rows.map (fun row => T (reindex u f.cols row))) post hos
        simp only [List.length_append, List.length_map, List.append_assoc] at this ⊢
        exact this

/-! ### arithmetic on cells -/

theorem Cell.numeric_div (r : Rat) (c : Cell) (h : c.numeric = true) : (c.div r).numeric = true := by
  cases c <;> simp_all [Cell.div, Cell.numeric]

theorem Cell.numeric_mul (r : Rat) (c : Cell) (h : c.numeric = true) : (c.mul r).numeric = true := by
  cases c <;> simp_all [Cell.mul, Cell.numeric]

/-- the three column assignments of `Map.rate`, in the order of the code, as one per-column function -/
def rateFn (r : Rat) : String → Cell → Cell := fun k v =>
  (if k = "length" then Cell.div r else id) ((if k = "bpm" then Cell.mul r else id) ((if k = "offset" then Cell.div r else id) v))

theorem rateFn_eq_scaleCell (r : Rat) (k : String) (v : Cell) : rateFn r k v = scaleCell r k v := by
  unfold rateFn scaleCell timeCols durCols bpmCols
  by_cases h1 : k = "offset"
  · subst h1; cases v <;> simp [Cell.div]
  · by_cases h2 : k = "bpm"
    · subst h2; cases v <;> simp [Cell.mul]
    · by_cases h3 : k = "length"
      · subst h3; cases v <;> simp [Cell.div]
      · cases v <;> simp [h1, h2, h3]

end Reamber.Rate
