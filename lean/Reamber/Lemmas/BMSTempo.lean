/-
C04 — the tempo side of the level-wide bridge, the absence of failures on a text that has a meaning, and the
success of the reader's line loop.
-/
import Reamber.Lemmas.BMSRead
import Reamber.Lemmas.TimingOrder
import Reamber.Lemmas.Argsort

namespace Reamber.BMS

open Reamber.Timing

/-- the tempo changes among the events, processing order -/
def tempoOf (evs : List Ev) : List BcSnap :=
  evs.filterMap fun
    | .tempo b => some b
    | _ => none

theorem tempoOf_append (a b : List Ev) : tempoOf (a ++ b) = tempoOf a ++ tempoOf b := by
  simp [tempoOf, List.filterMap_append]

theorem tempoOf_flatMap {α} (f : α → List Ev) : ∀ l : List α, tempoOf (l.flatMap f) = l.flatMap (fun a => tempoOf (f a))
  | [] => rfl
  | a :: t => by simp only [List.flatMap_cons, tempoOf_append, tempoOf_flatMap f t]

/-- the loop appends the tempo events to the tempo list (newest first) -/
theorem bcsRev_final (evs : List Ev) : ∀ (st st' : St), foldlE applyEv st evs = .ok st' →
    st'.bcsRev = (tempoOf evs).reverse ++ st.bcsRev := by
  induction evs with
  | nil => intro st st' h; simp only [foldlE] at h; cases h; simp [tempoOf]
  | cons e t ih =>
    intro st st' h
    rw [foldlE_cons] at h
    cases e with
    | bad err => simp [applyEv] at h
    | tempo b =>
      simp only [applyEv] at h
      rw [ih _ _ h]
      simp [tempoOf]
    | note c tl s p =>
      simp only [applyEv] at h
      by_cases hc : c ≥ maxKeys
      · simp [hc] at h
      · simp only [hc, if_false] at h
        cases hl : laneStep tl s p (st.lanes c) with
        | error err => simp [hl] at h
        | ok l =>
          simp only [hl] at h
          rw [ih _ _ h]
          simp [tempoOf]

/-- the tempo part of `objEvent` is the by-the-book `tempoOfObj` -/
theorem objEvent_tempo (ctx : Ctx) (hne : ctx.layout.bpmCh ≠ ctx.layout.exbpmCh) (ch : Bytes) (o : Obj) :
    tempoOf ((objEvent ctx ch o).toList) =
      (if ch = ctx.layout.bpmCh then (tempoOfObj ctx.exbpms false o).toList
       else if ch = ctx.layout.exbpmCh then (tempoOfObj ctx.exbpms true o).toList else []) := by
  unfold objEvent tempoOfObj
  by_cases h3 : ch = ctx.layout.bpmCh
  · subst h3
    simp only [decide_true, Bool.true_or, if_true, Bool.false_eq_true, if_false]
    cases parseHex2 o.id with
    | none => simp [tempoOf]
    | some v =>
      simp only [Option.map_some, Option.bind_some]
      by_cases hv : ((v : Nat) : Rat) ≤ 0
      · simp [hv, tempoOf]
      · simp [hv, tempoOf, defMet_eq]
  · by_cases h8 : ch = ctx.layout.exbpmCh
    · subst h8
      have h3' : ¬ ctx.layout.exbpmCh = ctx.layout.bpmCh := fun e => hne e.symm
      simp only [h3', decide_false, decide_true, Bool.false_or, if_true, if_false]
      cases dictGet? ctx.exbpms o.id with
      | none => simp [tempoOf]
      | some v =>
        simp only [Option.bind_some]
        by_cases hv : v ≤ 0
        · simp [hv, tempoOf]
        · simp [hv, tempoOf, defMet_eq]
    · simp only [h3, h8, decide_false, Bool.or_self, Bool.false_eq_true, if_false]
      cases laneOf ctx.layout ch with
      | none => simp [tempoOf]
      | some col =>
        simp only []
        split <;> simp [tempoOf]

theorem tempoOf_filterMap_objEvent (ctx : Ctx) (hne : ctx.layout.bpmCh ≠ ctx.layout.exbpmCh) (ch : Bytes) (os : List Obj) :
    tempoOf (os.filterMap (objEvent ctx ch)) =
      (if ch = ctx.layout.bpmCh then os.filterMap (tempoOfObj ctx.exbpms false)
       else if ch = ctx.layout.exbpmCh then os.filterMap (tempoOfObj ctx.exbpms true) else []) := by
  induction os with
  | nil => simp [tempoOf]
  | cons o t ih =>
    have h1 : (o :: t).filterMap (objEvent ctx ch) = (objEvent ctx ch o).toList ++ t.filterMap (objEvent ctx ch) := by
      simp only [List.filterMap_cons]
      cases objEvent ctx ch o <;> rfl
    rw [h1, tempoOf_append, ih, objEvent_tempo ctx hne]
    by_cases h3 : ch = ctx.layout.bpmCh
    · simp only [h3, if_true, List.filterMap_cons]
      cases tempoOfObj ctx.exbpms false o <;> rfl
    · by_cases h8 : ch = ctx.layout.exbpmCh
      · subst h8
        have h3' : ¬ ctx.layout.exbpmCh = ctx.layout.bpmCh := fun e => hne e.symm
        simp only [h3', if_true, if_false, List.filterMap_cons]
        cases h : tempoOfObj ctx.exbpms true o <;> simp
      · simp [h3, h8]

theorem flatMap_two_perm {α β} (p q : α → Bool) (A B : α → List β) (hpq : ∀ a, p a = true → q a = false) :
    ∀ l : List α, (l.flatMap (fun a => if p a = true then A a else if q a = true then B a else [])).Perm
      ((l.filter p).flatMap A ++ (l.filter q).flatMap B)
  | [] => by simp
  | a :: t => by
    have ih := flatMap_two_perm p q A B hpq t
    by_cases hp : p a = true
    · have hq := hpq a hp
      simp only [List.flatMap_cons, hp, if_true, List.filter_cons, hq, Bool.false_eq_true, if_false, List.append_assoc]
      exact List.Perm.append_left _ ih
    · by_cases hq : q a = true
      · simp only [List.flatMap_cons, hp, hq, if_true, if_false, List.filter_cons, Bool.false_eq_true]
        refine (List.Perm.append_left _ ih).trans ?_
        rw [← List.append_assoc, ← List.append_assoc]
        exact List.Perm.append_right _ List.perm_append_comm
      · simp only [List.flatMap_cons, hp, hq, if_false, List.filter_cons, Bool.false_eq_true, List.nil_append]
        exact ih

/-- **The reader's tempo events are the by-the-book tempo objects** (channel 03 and channel 08), up to the
interleaving of the two channels in the file. -/
theorem tempoOf_events_perm (ctx : Ctx) (notes : List (Bytes × Bytes × Bytes)) (hok : linesOk ctx.layout.timeSig notes)
    (hne : ctx.layout.bpmCh ≠ ctx.layout.exbpmCh) :
    (tempoOf (events ctx notes)).Perm
      ((laneObjs notes ctx.layout.bpmCh).filterMap (tempoOfObj ctx.exbpms false) ++
       (laneObjs notes ctx.layout.exbpmCh).filterMap (tempoOfObj ctx.exbpms true)) := by
  rw [events_eq ctx notes hok, tempoOf_flatMap]
  have : ∀ d ∈ notes, tempoOf ((objsOfLine d).filterMap (objEvent ctx d.2.1)) =
      (if (decide (d.2.1 = ctx.layout.bpmCh)) = true then (objsOfLine d).filterMap (tempoOfObj ctx.exbpms false)
       else if (decide (d.2.1 = ctx.layout.exbpmCh)) = true then (objsOfLine d).filterMap (tempoOfObj ctx.exbpms true) else []) := by
    intro d _
    rw [tempoOf_filterMap_objEvent ctx hne]
    simp
  rw [flatMap_congr' notes this]
  have hp := flatMap_two_perm (fun d : Bytes × Bytes × Bytes => decide (d.2.1 = ctx.layout.bpmCh))
    (fun d => decide (d.2.1 = ctx.layout.exbpmCh))
    (fun d => (objsOfLine d).filterMap (tempoOfObj ctx.exbpms false))
    (fun d => (objsOfLine d).filterMap (tempoOfObj ctx.exbpms true))
    (by
      intro d h
      simp only [decide_eq_true_eq] at h
      simp only [decide_eq_false_iff_not]
      intro h8
      exact hne (h.symm.trans h8)) notes
  refine hp.trans ?_
  simp [laneObjs, List.filterMap_flatMap]

/-! ### no failures on a text that has a meaning -/

theorem mem_laneObjs {notes : List (Bytes × Bytes × Bytes)} {d : Bytes × Bytes × Bytes} (hd : d ∈ notes) {o : Obj}
    (ho : o ∈ objsOfLine d) : o ∈ laneObjs notes d.2.1 := by
  simp only [laneObjs, List.mem_flatMap, List.mem_filter]
  exact ⟨d, ⟨hd, by simp⟩, ho⟩

/-- if every tempo object has a tempo (hex value / defined `#BPMxx` id, positive), no event of a well-formed
file is a failure -/
theorem events_no_bad (ctx : Ctx) (notes : List (Bytes × Bytes × Bytes)) (hok : linesOk ctx.layout.timeSig notes)
    (hne : ctx.layout.bpmCh ≠ ctx.layout.exbpmCh)
    (h3 : ∀ o ∈ laneObjs notes ctx.layout.bpmCh, (tempoOfObj ctx.exbpms false o).isSome = true)
    (h8 : ∀ o ∈ laneObjs notes ctx.layout.exbpmCh, (tempoOfObj ctx.exbpms true o).isSome = true) :
    ∀ e ∈ events ctx notes, ∀ err, e ≠ .bad err := by
  intro e he err hbad
  rw [events_eq ctx notes hok] at he
  simp only [List.mem_flatMap, List.mem_filterMap] at he
  obtain ⟨d, hd, o, ho, hev⟩ := he
  subst hbad
  have hmem := mem_laneObjs hd ho
  unfold objEvent at hev
  by_cases hb3 : d.2.1 = ctx.layout.bpmCh
  · have hs := h3 o (hb3 ▸ hmem)
    unfold tempoOfObj at hs
    simp only [hb3, decide_true, Bool.true_or, if_true, Bool.false_eq_true, if_false] at hev hs
    cases hp : parseHex2 o.id with
    | none => simp [hp] at hs
    | some v =>
      simp only [hp, Option.map_some, Option.bind_some] at hev hs
      by_cases hv : ((v : Nat) : Rat) ≤ 0
      · simp [hv] at hs
      · simp [hv] at hev
  · by_cases hb8 : d.2.1 = ctx.layout.exbpmCh
    · have hs := h8 o (hb8 ▸ hmem)
      unfold tempoOfObj at hs
      have h3' : ¬ ctx.layout.exbpmCh = ctx.layout.bpmCh := fun e => hne e.symm
      simp only [hb8, h3', decide_false, decide_true, Bool.false_or, if_true, if_false] at hev hs
      cases hp : dictGet? ctx.exbpms o.id with
      | none => simp [hp] at hs
      | some v =>
        simp only [hp, Option.bind_some] at hev hs
        by_cases hv : v ≤ 0
        · simp [hv] at hs
        · simp [hv] at hev
    · simp only [hb3, hb8, decide_false, Bool.or_self, Bool.false_eq_true, if_false] at hev
      cases hl : laneOf ctx.layout d.2.1 with
      | none => simp [hl] at hev
      | some col =>
        simp only [hl] at hev
        split at hev <;> cases hev

/-- every note event of a well-formed file sits in a lane column of the layout -/
theorem events_note_col (ctx : Ctx) (notes : List (Bytes × Bytes × Bytes)) (hok : linesOk ctx.layout.timeSig notes) :
    ∀ c tl s p, Ev.note c tl s p ∈ events ctx notes → ∃ ch, laneOf ctx.layout ch = some c := by
  intro c tl s p he
  rw [events_eq ctx notes hok] at he
  simp only [List.mem_flatMap, List.mem_filterMap] at he
  obtain ⟨d, _, o, _, hev⟩ := he
  unfold objEvent at hev
  by_cases ht : (d.2.1 = ctx.layout.bpmCh || d.2.1 = ctx.layout.exbpmCh) = true
  · simp only [ht, if_true] at hev
    split at hev
    · cases hev
    · split at hev <;> cases hev
  · simp only [ht, Bool.false_eq_true, if_false] at hev
    cases hl' : laneOf ctx.layout d.2.1 with
    | none => simp [hl'] at hev
    | some c' =>
      simp only [hl'] at hev
      have hc' : c' = c := by
        split at hev <;> (injection hev with hev; injection hev with h1)
      exact ⟨d.2.1, hc' ▸ hl'⟩

/-! ### the loop succeeds when every lane does -/

theorem laneEvs_cons_note (k c : Nat) (tl : Bool) (s : Bytes) (p : Snap) (t : List Ev) :
    laneEvs k (Ev.note c tl s p :: t) = if c = k then (tl, s, p) :: laneEvs k t else laneEvs k t := by
  by_cases hc : c = k
  · simp [laneEvs, hc]
  · simp [laneEvs, hc]

theorem foldlE_applyEv_ok (evs : List Ev) : ∀ (st : St),
    (∀ e ∈ evs, ∀ err, e ≠ .bad err) → (∀ c tl s p, Ev.note c tl s p ∈ evs → c < maxKeys) →
    (∀ k, ∃ l, laneFold (st.lanes k) (laneEvs k evs) = .ok l) → ∃ st', foldlE applyEv st evs = .ok st' := by
  induction evs with
  | nil => intro st _ _ _; exact ⟨st, rfl⟩
  | cons e t ih =>
    intro st hnb hcol hl
    rw [foldlE_cons]
    have hnb' : ∀ e ∈ t, ∀ err, e ≠ .bad err := fun x hx => hnb x (by simp [hx])
    have hcol' : ∀ c tl s p, Ev.note c tl s p ∈ t → c < maxKeys := fun c tl s p h => hcol c tl s p (by simp [h])
    cases e with
    | bad err => exact absurd rfl (hnb _ (by simp) err)
    | tempo b =>
      simp only [applyEv]
      apply ih _ hnb' hcol'
      intro k
      simpa [laneEvs] using hl k
    | note c tl s p =>
      have hc : ¬ c ≥ maxKeys := by have := hcol c tl s p (by simp); omega
      simp only [applyEv, hc, if_false]
      obtain ⟨l, hlc⟩ := hl c
      rw [laneEvs_cons_note] at hlc
      simp only [if_true, laneFold] at hlc
      cases hs : laneStep tl s p (st.lanes c) with
      | error err => simp [hs] at hlc
      | ok l1 =>
        simp only [hs] at hlc ⊢
        apply ih _ hnb' hcol'
        intro k
        by_cases hk : k = c
        · subst hk
          simp only [if_true]
          exact ⟨l, hlc⟩
        · have hk' : ¬ c = k := fun e => hk e.symm
          obtain ⟨l2, hl2⟩ := hl k
          rw [laneEvs_cons_note] at hl2
          simp only [hk', if_false] at hl2
          simp only [hk, if_false]
          exact ⟨l2, hl2⟩

/-! ### the tempo list of the reader against the by-the-book tempo list -/

theorem totalPre_snap : TotalPre (fun a b : BcSnap => !(b.snap.lt a.snap)) := by
  constructor
  · intro a b
    simp only [Snap.lt, Bool.not_eq_true', Bool.or_eq_false_iff, Bool.and_eq_false_iff, decide_eq_false_iff_not]
    grind
  · intro a b c
    simp only [Snap.lt, Bool.not_eq_true', Bool.or_eq_false_iff, Bool.and_eq_false_iff, decide_eq_false_iff_not]
    grind

theorem Snap.le_false_of_lt {a b : Snap} (h : a.lt b = true) : b.le a = false := by
  simp only [Snap.le, Snap.lt, Snap.eqv, Bool.or_eq_true, Bool.and_eq_true, decide_eq_true_eq, Bool.or_eq_false_iff,
    Bool.and_eq_false_iff, decide_eq_false_iff_not] at *
  grind

theorem Snap.lt_of_lt_of_le {a b c : Snap} (h : a.lt b = true) (h2 : b.le c = true) : a.lt c = true := by
  simp only [Snap.le, Snap.lt, Snap.eqv, Bool.or_eq_true, Bool.and_eq_true, decide_eq_true_eq] at *
  grind

/-- in a strictly ascending list two changes at the same position are the same change -/
theorem strict_anti : ∀ (l : List BcSnap), strictSnaps l = true →
    ∀ a ∈ l, ∀ b ∈ l, a.snap.le b.snap = true → b.snap.le a.snap = true → a = b
  | [], _ => by intro a ha; cases ha
  | [c], _ => by
    intro a ha b hb _ _
    simp only [List.mem_singleton] at ha hb
    rw [ha, hb]
  | c :: n :: rest, h => by
    have hlt : c.snap.lt n.snap = true := strictSnaps_head_lt h
    have htl := strictSnaps_tail h
    have hle := sortedSnaps_head_le (sortedSnaps_of_strict htl)
    have hc : ∀ x ∈ n :: rest, c.snap.lt x.snap = true := by
      intro x hx
      rcases List.mem_cons.mp hx with rfl | hx
      · exact hlt
      · exact Snap.lt_of_lt_of_le hlt (hle x hx)
    intro a ha b hb hab hba
    rcases List.mem_cons.mp ha with ea | ha'
    · rcases List.mem_cons.mp hb with eb | hb'
      · rw [ea, eb]
      · have := Snap.le_false_of_lt (hc b hb'); rw [← ea] at this; rw [this] at hba; cases hba
    · rcases List.mem_cons.mp hb with eb | hb'
      · have := Snap.le_false_of_lt (hc a ha'); rw [← eb] at this; rw [this] at hab; cases hab
      · exact strict_anti (n :: rest) htl a ha' b hb' hab hba

/-- sorting two arrangements of tempo changes with pairwise different positions gives the same list -/
theorem sortBcSnap_eq_of_perm {X Y : List BcSnap} (hp : X.Perm Y) (hs : strictSnaps (sortBcSnap Y) = true) :
    sortBcSnap X = sortBcSnap Y := by
  unfold sortBcSnap
  apply isort_eq_of_perm_on totalPre_snap hp
  intro a ha b hb h1 h2
  have ha' : a ∈ sortBcSnap Y := mem_isort.mpr (hp.mem_iff.mp ha)
  have hb' : b ∈ sortBcSnap Y := mem_isort.mpr (hp.mem_iff.mp hb)
  exact strict_anti _ hs a ha' b hb' ((Snap.lt_false_iff_le _ _).mp (by simpa using h1))
    ((Snap.lt_false_iff_le _ _).mp (by simpa using h2))

/-- a change that is at or before every other one stays in front -/
theorem sortBcSnap_cons_min (c : BcSnap) (X : List BcSnap) (h : ∀ x ∈ X, c.snap.le x.snap = true) :
    sortBcSnap (c :: X) = c :: sortBcSnap X := by
  unfold sortBcSnap
  have : isort (fun a b : BcSnap => !(b.snap.lt a.snap)) (c :: X) =
      insertBy (fun a b : BcSnap => !(b.snap.lt a.snap)) c (isort (fun a b : BcSnap => !(b.snap.lt a.snap)) X) := by simp [isort]
  rw [this]
  cases hL : isort (fun a b : BcSnap => !(b.snap.lt a.snap)) X with
  | nil => rfl
  | cons y ys =>
    have hy : y ∈ X := mem_isort.mp (by rw [hL]; simp)
    have := Snap.not_lt_of_le (h y hy)
    simp [insertBy, this]

theorem sortedSnaps_of_pairwise : ∀ (l : List BcSnap), l.Pairwise (fun a b => a.snap.le b.snap = true) → sortedSnaps l = true
  | [], _ => rfl
  | [_], _ => rfl
  | a :: b :: t, h => by
    have h' := List.pairwise_cons.mp h
    simp only [sortedSnaps, Bool.and_eq_true]
    exact ⟨h'.1 b (by simp), sortedSnaps_of_pairwise (b :: t) h'.2⟩

theorem sortedSnaps_sortBcSnap (l : List BcSnap) : sortedSnaps (sortBcSnap l) = true := by
  apply sortedSnaps_of_pairwise
  have := isort_sorted totalPre_snap l
  exact List.Pairwise.imp (fun h => (Snap.lt_false_iff_le _ _).mp (by simpa using h)) this

/-- two tempo changes at measure 0 beat 0: the first one is in force for no time at all -/
theorem timeAt_drop_zero (c0 c1 : BcSnap) (rest : List BcSnap) (q : Snap)
    (h0 : c0.snap.measure = 0 ∧ c0.snap.beat = 0) (h1 : c1.snap.measure = 0 ∧ c1.snap.beat = 0)
    (hq : c1.snap.le q = true) : timeAt 0 (c0 :: c1 :: rest) q = timeAt 0 (c1 :: rest) q := by
  simp only [timeAt, timeAtAux, hq, if_true, snapDist, h0.1, h0.2, h1.1, h1.2]
  simp

theorem zero_le_snap {c : Snap} {q : Snap} (h : c.measure = 0 ∧ c.beat = 0) (hq : 0 ≤ q.measure ∧ 0 ≤ q.beat) :
    c.le q = true := by
  simp only [Snap.le, Snap.lt, Snap.eqv, h.1, h.2, Bool.or_eq_true, Bool.and_eq_true, decide_eq_true_eq]
  rcases lt_or_eq_of_le hq.1 with h1 | h1
  · exact Or.inl (Or.inl h1)
  · rcases lt_or_eq_of_le hq.2 with h2 | h2
    · exact Or.inl (Or.inr ⟨h1, h2⟩)
    · exact Or.inr ⟨h1, h2⟩

theorem snap_zero_of_le {a b : Snap} (hb : b.measure = 0 ∧ b.beat = 0) (ha : 0 ≤ a.measure ∧ 0 ≤ a.beat)
    (h : a.le b = true) : a.measure = 0 ∧ a.beat = 0 := by
  simp only [Snap.le, Snap.lt, Snap.eqv, hb.1, hb.2, Bool.or_eq_true, Bool.and_eq_true, decide_eq_true_eq] at h
  rcases h with (h | ⟨h1, h2⟩) | ⟨h1, h2⟩
  · omega
  · exact ⟨h1, by linarith [ha.2]⟩
  · exact ⟨h1, h2⟩

/-- **The reader's tempo list against the by-the-book one.**  `hdr` is the header tempo at measure 0, `X` the
reader's tempo events in file order, `Y` the by-the-book tempo objects (a rearrangement of `X`) with pairwise
different positions, all at non-negative positions.  What the reader hands to the timing engine is either the
by-the-book list `hdr :: sort Y`, or — when the first tempo object of the file sits on measure 0 beat 0 and
replaces the header tempo — its tail, which then starts with an object on measure 0 beat 0. -/
theorem model_tempo_cases (hdr : BcSnap) (X Y : List BcSnap) (hp : X.Perm Y) (hs : strictSnaps (sortBcSnap Y) = true)
    (hh : hdr.snap.measure = 0 ∧ hdr.snap.beat = 0) (hpos : ∀ y ∈ Y, 0 ≤ y.snap.measure ∧ 0 ≤ y.snap.beat) :
    sortBcSnap (dropOverridden (hdr :: X)) = hdr :: sortBcSnap Y ∨
    (sortBcSnap (dropOverridden (hdr :: X)) = sortBcSnap Y ∧
      ∃ y0 rest, sortBcSnap Y = y0 :: rest ∧ y0.snap.measure = 0 ∧ y0.snap.beat = 0) := by
  have hXY := sortBcSnap_eq_of_perm hp hs
  have hmin : ∀ x ∈ X, hdr.snap.le x.snap = true := fun x hx => zero_le_snap hh (hpos x (hp.mem_iff.mp hx))
  cases X with
  | nil =>
    left
    simp only [dropOverridden]
    rw [sortBcSnap_cons_min hdr [] (by simp), hXY]
  | cons x1 X' =>
    by_cases hx : x1.snap.measure = 0 ∧ x1.snap.beat = 0
    · right
      simp only [dropOverridden, hx, and_self, if_true]
      refine ⟨hXY, ?_⟩
      have hx1 : x1 ∈ sortBcSnap Y := mem_isort.mpr (hp.mem_iff.mp (by simp))
      cases hS : sortBcSnap Y with
      | nil => rw [hS] at hx1; cases hx1
      | cons y0 rest =>
        refine ⟨y0, rest, rfl, ?_⟩
        have hsorted := sortedSnaps_sortBcSnap Y
        rw [hS] at hsorted hx1
        have hy0 : y0 ∈ Y := mem_isort.mp (by unfold sortBcSnap at hS; rw [hS]; simp)
        have hle : y0.snap.le x1.snap = true := by
          rcases List.mem_cons.mp hx1 with rfl | h
          · exact Snap.le_refl _
          · exact sortedSnaps_head_le hsorted x1 h
        exact snap_zero_of_le hx (hpos y0 hy0) hle
    · left
      simp only [dropOverridden, hx, if_false]
      rw [sortBcSnap_cons_min hdr (x1 :: X') hmin, hXY]

end Reamber.BMS
