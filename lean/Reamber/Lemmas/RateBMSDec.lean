/-
C13 — BMS: exactly when the rated chart still has three-decimal tempos (`hdec` of C05's `bms_write_read`, ¬D06), the
header of the rated chart, and the counterexample showing that the condition is necessary.
-/
import Reamber.Lemmas.RateBMS

namespace Reamber.Rate

open Reamber.Timing Reamber.BMS Reamber.PermInv

/-- a value survives `f"{q:.kf}"` **exactly when** it has at most `k` decimals -/
theorem roundDec_eq_iff (k : Nat) (q : Rat) : roundDec k q = q ↔ (q * ((10 ^ k : Nat) : Rat)).den = 1 := by
  constructor
  · intro h
    have hk : ((10 ^ k : Nat) : Rat) ≠ 0 := by positivity
    have h' : ((roundHalfEven (q * ((10 ^ k : Nat) : Rat)) : Int) : Rat) = q * ((10 ^ k : Nat) : Rat) := by
      unfold roundDec at h
      rw [div_eq_iff hk] at h
      exact h
    rw [← h']
    exact Rat.den_intCast _
  · exact roundDec_of_decimals k q

/-- **the exact characterisation of `hdec` on the rated chart**: every tempo of the rated chart is a three-decimal
number (what `#BPMxx … :.3f` can carry) iff `1000 · bpm · r` is a whole number for every tempo of the ORIGINAL chart. -/
theorem hdec_rate_iff (r : Rat) (c : BMS.WChart) :
    (∀ b ∈ (rateB r c).bpms, roundDec 3 b.bpm = b.bpm) ↔ ∀ b ∈ c.bpms, (b.bpm * r * 1000).den = 1 := by
  have e : ((10 ^ 3 : Nat) : Rat) = 1000 := by norm_num
  constructor
  · intro h b hb
    have := h (rateBcOff r b) (by simp only [rateB]; exact List.mem_map_of_mem hb)
    rw [roundDec_eq_iff, e] at this
    exact this
  · intro h b hb
    simp only [rateB, List.mem_map] at hb
    obtain ⟨b0, hb0, rfl⟩ := hb
    rw [roundDec_eq_iff, e]
    exact h b0 hb0

theorem showExactAux_some (q : Rat) : ∀ (fuel k k' : Nat), k ≤ k' → k' < k + fuel →
    (q * ((10 ^ k' : Nat) : Rat)).den = 1 → ∃ txt, showExactAux q fuel k = some txt := by
  intro fuel
  induction fuel with
  | zero => intro k k' h1 h2; omega
  | succ f ih =>
    intro k k' h1 h2 hd
    simp only [showExactAux]
    by_cases hk : (q * ((10 ^ k : Nat) : Rat)).den = 1
    · simp only [hk, if_true]; exact ⟨_, rfl⟩
    · simp only [hk, if_false]
      have : k ≠ k' := by intro e; subst e; exact hk hd
      exact ih (k + 1) k' (by omega) (by omega) hd

/-- **the header of the rated chart is written** — derived from the un-rated chart: a tempo row exists (the tempo rows
are the stored form of a non-empty tempo list), fewer than 1295 of them, and the first rated tempo has a terminating
expansion (three decimals). -/
theorem writeHeader_rate_ok (r : Rat) (cs : List BcSnap) (h0 : firstAtZero cs = true) (c : BMS.WChart)
    (hp : c.bpms.Perm (tmOf 0 cs)) (hH : HeaderOK c) (hdec0 : ∀ b ∈ c.bpms, (b.bpm * r * 1000).den = 1) :
    ∃ hl, writeHeader (rateB r c) = .ok hl := by
  have hne : c.bpms ≠ [] := by
    intro e
    rw [e] at hp
    have := hp.length_eq
    cases cs with
    | nil => simp [firstAtZero] at h0
    | cons a rest => simp [tmOf] at this
  cases hb : c.bpms with
  | nil => exact absurd hb hne
  | cons b0 rest =>
    have hlen : ¬ ((rateB r c).bpms.length ≥ Generated.BMS.maxBpms) := by
      have := hH.nbpm
      simp only [rateB, List.length_map, Generated.BMS.maxBpms]
      omega
    have hd := hdec0 b0 (by rw [hb]; exact List.mem_cons_self)
    have e : ((10 ^ 3 : Nat) : Rat) = 1000 := by norm_num
    obtain ⟨txt, htxt⟩ := showExactAux_some (b0.bpm * r) 400 0 3 (by omega) (by omega) (by rw [e]; exact hd)
    have hbr : (rateB r c).bpms = rateBcOff r b0 :: rest.map (rateBcOff r) := by simp [rateB, hb]
    unfold writeHeader
    rw [hbr]
    rw [hbr] at hlen
    simp only [hlen, if_false]
    have : showExact (rateBcOff r b0).bpm = some txt := htxt
    rw [this]
    exact ⟨_, rfl⟩

/-! ### necessity: D06 under a rate change -/

/-- **`hdec0` is necessary** (finding D06 reached through `rate`): 156.25 bpm is a three-decimal tempo, its image under
rate 1/4, 39.0625, is not; `#BPMxx` carries `39.062`, and a position four beats after the tempo point — 6144 ms in the
rated chart — is 6144 + 1536/19531 ms by the book of the written file: the written chart drifts away from the rated one
(≈ 0.079 ms after four beats, growing linearly), so the clause "writing the rated chart and reading it back gives the rated timeline" fails.
Replayed on the real code as the witness of D06 for C13. -/
theorem bms_rate_hdec_necessary :
    roundDec 3 (625 / 4 : Rat) = 625 / 4 ∧
    roundDec 3 ((625 / 4 : Rat) * (1 / 4)) = 39062 / 1000 ∧ roundDec 3 ((625 / 4 : Rat) * (1 / 4)) ≠ (625 / 4 : Rat) * (1 / 4) ∧
    ¬ (((625 / 4 : Rat) * (1 / 4) * 1000).den = 1) ∧
    (4 : Rat) * beatLen ((625 / 4 : Rat) * (1 / 4)) = 6144 ∧
    (4 : Rat) * beatLen (roundDec 3 ((625 / 4 : Rat) * (1 / 4))) = 6144 + 1536 / 19531 := by
  refine ⟨by decide +kernel, by decide +kernel, by decide +kernel, by decide +kernel, by decide +kernel, by decide +kernel⟩

/-! ### positions are rate-invariant: `TimingMap.snaps` of the rated times on the rated map -/

theorem snapFromOffset_rate {r : Rat} (hr : 0 < r) (g : Array Rat) (t T : Rat) (cur : BcSnap) (hb : cur.bpm ≠ 0) :
    snapFromOffset g (t / r) ⟨cur.bpm * r, cur.met, T / r⟩ (rateBc r cur) = snapFromOffset g t ⟨cur.bpm, cur.met, T⟩ cur := by
  have hr0 : r ≠ 0 := ne_of_gt hr
  have hbl : beatLen cur.bpm ≠ 0 := by
    simp only [beatLen, minToMsec]; exact div_ne_zero (by norm_num) hb
  have hml : measLen (cur.bpm * r) cur.met = measLen cur.bpm cur.met / r := by
    simp only [measLen, beatLen_rate]; ring
  have hfd : pyFloorDiv (t / r - T / r) (measLen (cur.bpm * r) cur.met) = pyFloorDiv (t - T) (measLen cur.bpm cur.met) := by
    simp only [pyFloorDiv, hml]
    congr 1
    by_cases hm : measLen cur.bpm cur.met = 0
    · simp [hm]
    · field_simp
  simp only [snapFromOffset, hfd]
  have hbeat : (t / r - T / r - ((pyFloorDiv (t - T) (measLen cur.bpm cur.met) : Int) : Rat) * measLen (cur.bpm * r) cur.met)
        / beatLen (cur.bpm * r)
      = (t - T - ((pyFloorDiv (t - T) (measLen cur.bpm cur.met) : Int) : Rat) * measLen cur.bpm cur.met) / beatLen cur.bpm := by
    rw [hml, beatLen_rate]
    field_simp
  rw [hbeat]
  rfl

theorem snapAtAux_rate {r : Rat} (hr : 0 < r) (g : Array Rat) (rest : List BcSnap) (T : Rat) (cur : BcSnap) (t : Rat)
    (hb : cur.bpm ≠ 0) (hbs : ∀ c ∈ rest, c.bpm ≠ 0) :
    snapAtAux g (T / r) (rateBc r cur) (rest.map (rateBc r)) (t / r) = snapAtAux g T cur rest t := by
  induction rest generalizing T cur with
  | nil =>
    simp only [List.map_nil, snapAtAux]
    exact snapFromOffset_rate hr g t T cur hb
  | cons n rest ih =>
    simp only [List.map_cons, snapAtAux]
    have e : (rateBc r n).snap = n.snap := rfl
    have hseg : T / r + snapDist (rateBc r cur).snap n.snap (rateBc r cur).met * beatLen (rateBc r cur).bpm
        = (T + snapDist cur.snap n.snap cur.met * beatLen cur.bpm) / r := by
      simp only [rateBc, beatLen_rate]; ring
    rw [e, hseg]
    by_cases hc : T + snapDist cur.snap n.snap cur.met * beatLen cur.bpm ≤ t
    · have hc' := (le_div_iff_rate hr _ _).mpr hc
      simp only [hc, hc', if_true]
      exact ih (T + snapDist cur.snap n.snap cur.met * beatLen cur.bpm) n (hbs n (by simp))
        (fun c hc => hbs c (by simp [hc]))
    · have hc' : ¬ (T + snapDist cur.snap n.snap cur.met * beatLen cur.bpm) / r ≤ t / r :=
        fun h => hc ((le_div_iff_rate hr _ _).mp h)
      simp only [hc, hc', if_false]
      exact snapFromOffset_rate hr g t T cur hb

/-- **the position `TimingMap.snaps` assigns is rate-invariant** — for EVERY time (on the snap grid or not): the rated
time on the rated tempo list is sent where the original time is sent on the original list (the `snaps` analogue of
`beats_rate`, without an on-grid hypothesis: the beat distance `(t − T) / beatLen` does not see `r`). -/
theorem posFn_rate {r : Rat} (hr : 0 < r) (cs : List BcSnap) (hwf : wfChanges cs = true) (t : Rat) :
    posFn (cs.map (rateBc r)) (t / r) = posFn cs t := by
  cases cs with
  | nil => rfl
  | cons c rest =>
    have hb := bpm_ne_zero_of_wf hwf
    simp only [List.map_cons, posFn]
    have := snapAtAux_rate hr defaultGrid rest 0 c t (hb c (by simp)) (fun x hx => hb x (by simp [hx]))
    rw [zero_div] at this
    rw [this]

theorem bmsNoteRows_rate {r : Rat} (hr : 0 < r) (cs : List BcSnap) (hwf : wfChanges cs = true) (lay : Layout) (dflt : Bytes)
    (c : BMS.WChart) : bmsNoteRows (cs.map (rateBc r)) lay dflt (rateB r c) = bmsNoteRows cs lay dflt c := by
  simp only [bmsNoteRows, rateB, List.map_map, Function.comp_def, posFn_rate hr cs hwf]

theorem bmsTempoRows_rate {r : Rat} (hr : 0 < r) (cs : List BcSnap) (hwf : wfChanges cs = true) (lay : Layout)
    (c : BMS.WChart) : bmsTempoRows (cs.map (rateBc r)) lay (rateB r c) = bmsTempoRows cs lay c := by
  simp only [bmsTempoRows, rateB, List.map_map, Function.comp_def, rateBcOff, posFn_rate hr cs hwf]

/-- a lane item of the rated chart -/
def rateAtom (r : Rat) : TAtom → TAtom
  | .hit t id => .hit (t / r) id
  | .hold t1 t2 id => .hold (t1 / r) (t2 / r) id

theorem rateAtom_times (r : Rat) (a : TAtom) : (rateAtom r a).times = a.times.map (· / r) := by
  cases a <;> rfl

theorem rateAtom_idOk (r : Rat) (ln : Bytes) (a : TAtom) : (rateAtom r a).idOk ln ↔ a.idOk ln := by
  cases a <;> rfl

theorem laneItems_rate (r : Rat) (c : BMS.WChart) (dflt : Bytes) (col : Nat) :
    laneItems (rateB r c) dflt col = (laneItems c dflt col).map (rateAtom r) := by
  simp only [laneItems, rateB, List.map_append, List.map_map, List.filter_map, Function.comp_def, rateAtom]

end Reamber.Rate
