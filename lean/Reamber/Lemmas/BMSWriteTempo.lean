/-
C05 — where `TimingMap.snaps` puts the tempo points themselves: the position assigned to the stored time of a
tempo change is that change's own position, for every strictly ascending well-formed tempo list — hence for
every row order of the in-memory tempo list (`from_bpm_changes_offset` sorts).
-/
import Reamber.Lemmas.TimingRoundTrip
import Reamber.Lemmas.TimingOrder
import Reamber.Lemmas.Argsort

namespace Reamber.Timing

theorem make_normal (m : Int) (b M : Rat) (hm : 0 ≤ m) (hb : 0 ≤ b) (hbM : b < M) :
    Snap.make m b (some M) = .ok ⟨m, b, some M⟩ := by
  unfold Snap.make
  have h1 : ¬ m < 0 := by omega
  have h2 : ¬ b < 0 := by linarith
  have h3 : ¬ b ≥ M := by linarith
  simp only [h1, if_false, h2, h3, or_self]

/-- a tempo change's own stored time is sent back to the change's own position -/
theorem snapFromOffset_own {g : Array Rat} (hg : GridOK g) (T : Rat) (cur : BcSnap) (wc : WfChange cur) :
    snapFromOffset g T ⟨cur.bpm, cur.met, T⟩ cur = .ok cur.snap := by
  have hf : (0 : Rat).floor = 0 := by
    have := Rat.floor_intCast 0
    simpa using this
  have h0 : snapOn g 0 = 0 := snapOn_fix hg.asc 0 (by
    have : frac 0 = 0 := by simp [frac, hf]
    rw [this]; exact hg.zero_mem)
  unfold snapFromOffset
  simp only [sub_self, pyFloorDiv, zero_div, hf, Int.cast_zero, zero_mul, h0, zero_add]
  rw [make_normal _ _ _ wc.measure_nonneg wc.beat_nonneg wc.beat_lt]
  obtain ⟨bpm, met, ⟨m, b, mt⟩⟩ := cur
  have := wc.met_tie
  simp only at this ⊢
  rw [this]

/-- **`snaps` at the tempo points.**  Walking the tempo list for the stored time of a change stops at that
change and returns its own position. -/
theorem snapAtAux_at_change {g : Array Rat} (hg : GridOK g) (rest : List BcSnap) :
    ∀ (T : Rat) (cur : BcSnap), wfChanges (cur :: rest) = true → strictSnaps (cur :: rest) = true →
      snapAtAux g T cur rest T = .ok cur.snap ∧
      ∀ p ∈ rest.zip (tmTail T cur rest), snapAtAux g T cur rest p.2.offset = .ok p.1.snap := by
  induction rest with
  | nil =>
    intro T cur hwf _
    have wc := wfChanges_mem hwf (List.mem_cons_self)
    exact ⟨snapFromOffset_own hg T cur wc, by intro p hp; cases hp⟩
  | cons n r ih =>
    intro T cur hwf hs
    have wc := wfChanges_mem hwf (List.mem_cons_self)
    have wn := wfChanges_mem hwf (List.mem_cons_of_mem _ List.mem_cons_self)
    have hD := snapDist_pos wc wn (strictSnaps_head_lt hs)
    have hbl := beatLen_pos wc.bpm_pos
    have hstep : T < T + snapDist cur.snap n.snap cur.met * beatLen cur.bpm := by
      have := mul_pos hD hbl
      linarith
    obtain ⟨ih1, ih2⟩ := ih (T + snapDist cur.snap n.snap cur.met * beatLen cur.bpm) n (wfChanges_tail hwf) (strictSnaps_tail hs)
    constructor
    · simp only [snapAtAux, not_le.mpr hstep, if_false]
      exact snapFromOffset_own hg T cur wc
    · intro p hp
      simp only [tmTail, List.zip_cons_cons, List.mem_cons] at hp
      rcases hp with rfl | hp
      · simp only [snapAtAux, le_refl, if_true]
        exact ih1
      · have hgt := tmTail_gt (T + snapDist cur.snap n.snap cur.met * beatLen cur.bpm) n r (wfChanges_tail hwf)
          (strictSnaps_tail hs) p.2 (List.of_mem_zip hp).2
        simp only [snapAtAux, le_of_lt hgt, if_true]
        exact ih2 p hp

theorem tmOf_offset_nonneg_of (t0 : Rat) (cs : List BcSnap) (hwf : wfChanges cs = true) (hs : strictSnaps cs = true) :
    ∀ b ∈ tmOf t0 cs, t0 ≤ b.offset := by
  cases cs with
  | nil => intro b hb; cases hb
  | cons c rest =>
    intro b hb
    simp only [tmOf, List.mem_cons] at hb
    rcases hb with rfl | hb
    · exact le_refl _
    · exact le_of_lt (tmTail_gt t0 c rest hwf hs b hb)

/-- **The tempo rows, in any order, are sent to their own positions.**  `cs` well-formed, strictly ascending,
first at measure 0 beat 0, grid-compatible; `rows` any arrangement of what the chart stores for `cs`
(`tmOf t0 cs`).  `TimingMap.snaps` as the model runs it on `from_bpm_changes_offset(rows)` — which sorts — with the
rows' own offsets in row order returns, row by row, the position of the change that row is. -/
theorem tempo_rows_positions {g : Array Rat} (hg : GridOK g) (t0 : Rat) (cs : List BcSnap) (hwf : wfChanges cs = true)
    (hs : strictSnaps cs = true) (h0 : firstAtZero cs = true) (hgc : gridCompatible g.toList cs = true)
    (hm : metronomeOk cs = true) (rows : List BcOff) (hp : rows.Perm (tmOf t0 cs)) :
    sortBcOff rows = tmOf t0 cs ∧
    ∃ G : Rat → Snap, snaps g (sortBcOff rows) (rows.map (·.offset)) = .ok (rows.map (fun b => G b.offset)) ∧
      ∀ p ∈ cs.zip (tmOf t0 cs), G p.2.offset = p.1.snap := by
  have hsorted := sortedSnaps_of_strict hs
  have hsort : sortBcOff rows = tmOf t0 cs := by
    rw [sortBcOff_eq_of_perm hp (by
      intro a ha b hb hab
      exact tmOf_distinct t0 cs hwf hs a (hp.mem_iff.mp ha) b (hp.mem_iff.mp hb) hab), sortBcOff_tmOf t0 cs hwf hsorted]
  refine ⟨hsort, ?_⟩
  rw [hsort]
  have hb := bcsOfBco_rederive hg t0 cs hwf hsorted h0 hgc hm
  cases cs with
  | nil => simp [firstAtZero] at h0
  | cons c rest =>
    let G : Rat → Snap := fun t => ((snapAtAux g t0 c rest t).toOption).getD default
    obtain ⟨a1, a2⟩ := snapAtAux_at_change hg rest t0 c hwf hs
    have hG : ∀ p ∈ (c :: rest).zip (tmOf t0 (c :: rest)), snapAtAux g t0 c rest p.2.offset = .ok p.1.snap := by
      intro p hp
      simp only [tmOf, List.zip_cons_cons, List.mem_cons] at hp
      rcases hp with rfl | hp
      · exact a1
      · exact a2 p hp
    refine ⟨G, ?_, ?_⟩
    · have hF : ∀ t ∈ rows.map (·.offset), lookupSnap g ((c :: rest).zip (tmOf t0 (c :: rest))).reverse t = .ok (G t) := by
        intro t ht
        obtain ⟨b, hbm, rfl⟩ := List.mem_map.mp ht
        have hbT : b ∈ tmOf t0 (c :: rest) := hp.mem_iff.mp hbm
        have hge := tmOf_offset_nonneg_of t0 (c :: rest) hwf hs b hbT
        -- `b` is the stored record of some change
        obtain ⟨q, hq, hqb⟩ : ∃ q ∈ (c :: rest).zip (tmOf t0 (c :: rest)), q.2 = b := by
          have hlen : (c :: rest).length = (tmOf t0 (c :: rest)).length := by
            simp only [tmOf, List.length_cons]
            congr 1
            clear hb hG a1 a2 hbT hge hp hsort
            have : ∀ (T : Rat) (cur : BcSnap) (l : List BcSnap), (tmTail T cur l).length = l.length := by
              intro T cur l
              induction l generalizing T cur with
              | nil => rfl
              | cons n l ih => simp [tmTail, ih]
            exact (this t0 c rest).symm
          obtain ⟨i, hi, hbi⟩ := List.getElem_of_mem hbT
          have hi' : i < (c :: rest).length := by omega
          refine ⟨((c :: rest)[i], (tmOf t0 (c :: rest))[i]), ?_, hbi⟩
          rw [List.mem_iff_getElem]
          exact ⟨i, by simp only [List.length_zip]; omega, by simp⟩
        have hS := hG q hq
        rw [hqb] at hS
        simp only [tmOf, List.zip_cons_cons]
        rw [lookupSnap_eq_snapAtAux g t0 c rest b.offset hwf hsorted hge, hS]
        simp [G, hS, Except.toOption]
      have := snapsWith_order g _ _ (rows.map (·.offset)) _ _ G hb (stableArgsort_sortsAscR _) hF
      simpa [snaps, List.map_map, Function.comp_def] using this
    · intro p hp
      simp [G, hG p hp, Except.toOption]

theorem zip_tmTail_fields (T : Rat) (cur : BcSnap) (rest : List BcSnap) :
    ∀ p ∈ rest.zip (tmTail T cur rest), p.2.bpm = p.1.bpm ∧ p.2.met = p.1.met := by
  induction rest generalizing T cur with
  | nil => intro p hp; cases hp
  | cons n r ih =>
    intro p hp
    simp only [tmTail, List.zip_cons_cons, List.mem_cons] at hp
    rcases hp with rfl | hp
    · exact ⟨rfl, rfl⟩
    · exact ih _ n p hp

theorem zip_tmOf_fields (t0 : Rat) (cs : List BcSnap) :
    ∀ p ∈ cs.zip (tmOf t0 cs), p.2.bpm = p.1.bpm ∧ p.2.met = p.1.met := by
  cases cs with
  | nil => intro p hp; cases hp
  | cons c rest =>
    intro p hp
    simp only [tmOf, List.zip_cons_cons, List.mem_cons] at hp
    rcases hp with rfl | hp
    · exact ⟨rfl, rfl⟩
    · exact zip_tmTail_fields t0 c rest p hp

theorem tmTail_length (T : Rat) (cur : BcSnap) (l : List BcSnap) : (tmTail T cur l).length = l.length := by
  induction l generalizing T cur with
  | nil => rfl
  | cons n l ih => simp [tmTail, ih]

theorem tmOf_length (t0 : Rat) (cs : List BcSnap) : (tmOf t0 cs).length = cs.length := by
  cases cs with
  | nil => rfl
  | cons c rest => simp [tmOf, tmTail_length]

/-- **The tempo rows, in any order, are the tempo list.**  Rebuilding a tempo change from each row — its tempo,
its metronome, the position `G` assigns to its offset — gives, up to the order of the rows, exactly `cs`. -/
theorem rows_changes_perm (t0 : Rat) (cs : List BcSnap) (hwf : wfChanges cs = true) (rows : List BcOff)
    (hp : rows.Perm (tmOf t0 cs)) (G : Rat → Snap) (hG : ∀ p ∈ cs.zip (tmOf t0 cs), G p.2.offset = p.1.snap) :
    (rows.map (fun b => (⟨b.bpm, b.met, { G b.offset with met := some b.met }⟩ : BcSnap))).Perm cs := by
  let H : BcOff → BcSnap := fun b => ⟨b.bpm, b.met, { G b.offset with met := some b.met }⟩
  have h1 : (rows.map H).Perm ((tmOf t0 cs).map H) := hp.map H
  refine h1.trans (List.Perm.of_eq ?_)
  have hz1 : (cs.zip (tmOf t0 cs)).map (·.2) = tmOf t0 cs := List.map_snd_zip (by rw [tmOf_length])
  have hz2 : (cs.zip (tmOf t0 cs)).map (·.1) = cs := List.map_fst_zip (by rw [tmOf_length])
  rw [← hz1, List.map_map]
  conv => rhs; rw [← hz2]
  apply List.map_congr_left
  intro p hp'
  have hf := zip_tmOf_fields t0 cs p hp'
  have hg := hG p hp'
  have wc := wfChanges_mem hwf (List.of_mem_zip hp').1
  simp only [Function.comp, H, hf.1, hf.2, hg]
  obtain ⟨⟨bpm, met, ⟨m, b, mt⟩⟩, o⟩ := p
  have := wc.met_tie
  simp only at this ⊢
  rw [this]

end Reamber.Timing
