/-
Helper lemmas for C07, event level: a by-the-book ENCODER of OJN event packages from an abstract chart body
(`ASlot` / `TSlot` / `APkg`), and the proof that the specification's package decoders (`specSlots`, `specBpms`,
`allFinite`, `specLevel`, `wfLevel`) read the encoded packages back as the abstract content (`aSlots`, `aBpms`,
`aLevel`), for ALL abstract packages.
-/
import Reamber.Lemmas.O2JFrame
import Reamber.Lemmas.O2JRead

namespace Reamber.O2J

open Reamber.O2J.Spec

/-! ### floats -/

/-- `unpack("<f", ·)` of the four bytes of the bit pattern sign `s`, exponent `e`, mantissa `m` -/
theorem decodeF32_bits (s e m : Nat) (hs : s < 2) (he : e < 256) (hm : m < 2 ^ 23) :
    decodeF32 (encodeLE 4 (s * 2 ^ 31 + e * 2 ^ 23 + m)) = f32OfParts s e m := by
  unfold decodeF32
  rw [leNat_encodeLE 4 _ (by omega)]
  have h1 : (s * 2 ^ 31 + e * 2 ^ 23 + m) / 2 ^ 31 = s := by omega
  have h2 : (s * 2 ^ 31 + e * 2 ^ 23 + m) / 2 ^ 23 % 256 = e := by omega
  have h3 : (s * 2 ^ 31 + e * 2 ^ 23 + m) % 2 ^ 23 = m := by omega
  simp only [h1, h2, h3]

theorem decodeF32_zero : decodeF32 [0, 0, 0, 0] = .fin 0 := by decide +kernel

/-- the rational denoted by the finite single with fields `s`, `e`, `m` (`e < 255`) -/
def tempoVal (s e m : Nat) : Rat :=
  if e = 0 then (if s = 1 then -1 else 1) * (m : Rat) * pow2 (-149)
  else (if s = 1 then -1 else 1) * ((2 ^ 23 + m : Nat) : Rat) * pow2 ((e : Int) - 150)

theorem f32OfParts_fin (s e m : Nat) (he : e < 255) : f32OfParts s e m = .fin (tempoVal s e m) := by
  unfold f32OfParts tempoVal
  have h : e ≠ 255 := by omega
  simp only [h, if_false]
  split <;> rfl

private theorem rat_mul_ne_zero (a b : Rat) (ha : a ≠ 0) (hb : b ≠ 0) : a * b ≠ 0 := by
  intro h; rcases Rat.mul_eq_zero.mp h with h | h <;> contradiction

private theorem natCast_pos_ne (n : Nat) (h : 0 < n) : ((n : Nat) : Rat) ≠ 0 := by
  have : n ≠ 0 := by omega
  simpa using this

private theorem pow2_ne_zero (x : Int) : pow2 x ≠ 0 := by
  unfold pow2
  split
  · exact natCast_pos_ne _ (Nat.two_pow_pos _)
  · have := natCast_pos_ne _ (Nat.two_pow_pos (-x).toNat)
    grind

set_option linter.unusedVariables false in
/-- a finite single that is not ±0 denotes a non-zero rational -/
theorem tempoVal_ne_zero (s e m : Nat) (hs : s < 2) (he : e < 255) (h : e ≠ 0 ∨ m ≠ 0) : tempoVal s e m ≠ 0 := by
  have hsg : (if s = 1 then (-1 : Rat) else 1) ≠ 0 := by split <;> decide
  unfold tempoVal
  split
  · next h0 =>
    have hm : m ≠ 0 := by omega
    exact rat_mul_ne_zero _ _ (rat_mul_ne_zero _ _ hsg (natCast_pos_ne m (by omega))) (pow2_ne_zero _)
  · exact rat_mul_ne_zero _ _
      (rat_mul_ne_zero _ _ hsg (natCast_pos_ne _ (by have := Nat.two_pow_pos 23; omega))) (pow2_ne_zero _)

/-! ### abstract slots -/

/-- one slot of a note package: empty, or an enabled event -/
inductive ASlot where
  | empty                                           -- written as 4 zero bytes
  | note (en : Int) (kind : Kind) (vol pan : Nat)   -- first int16 `en` ≠ 0, volume/pan nibbles, type byte 0 / 2 / 3
deriving Repr, DecidableEq, Inhabited

def kindByte : Kind → Nat | .hit => 0 | .head => 2 | .tail => 3

def ASlot.encode : ASlot → List Nat
  | .empty => [0, 0, 0, 0]
  | .note en k v p => encodeLE 2 (toBits 16 en) ++ [v * 16 + p, kindByte k]

def ASlot.Valid : ASlot → Prop
  | .empty => True
  | .note en _ v p => en ≠ 0 ∧ -2 ^ 15 ≤ en ∧ en < 2 ^ 15 ∧ v < 16 ∧ p < 16

/-- a tempo slot: none = 0.0f (no event), some (s, e, m) = the float32 with these sign/exponent/mantissa fields -/
abbrev TSlot := Option (Nat × Nat × Nat)

def TSlot.encode : TSlot → List Nat
  | none => [0, 0, 0, 0]
  | some (s, e, m) => encodeLE 4 (s * 2 ^ 31 + e * 2 ^ 23 + m)

/-- finite and non-zero: e < 255, not (e = 0 ∧ m = 0) -/
def TSlot.Valid : TSlot → Prop
  | none => True
  | some (s, e, m) => s < 2 ∧ e < 255 ∧ m < 2 ^ 23 ∧ (e ≠ 0 ∨ m ≠ 0)

/-- an abstract package of one difficulty -/
inductive APkg where
  | notes (measure : Int) (col : Nat) (slots : List ASlot)     -- channel col + 2, col < 7
  | tempo (measure : Int) (slots : List TSlot)                 -- channel 1
deriving Repr, DecidableEq, Inhabited

def APkg.Valid : APkg → Prop
  | .notes m c sl => -2 ^ 31 ≤ m ∧ m < 2 ^ 31 ∧ c < 7 ∧ sl.length < 2 ^ 15 ∧ ∀ s ∈ sl, s.Valid
  | .tempo m sl => -2 ^ 31 ≤ m ∧ m < 2 ^ 31 ∧ sl.length < 2 ^ 15 ∧ ∀ s ∈ sl, TSlot.Valid s

def APkg.toRaw : APkg → RawPkg
  | .notes m c sl => ⟨m, (c : Int) + 2, (sl.length : Int), sl.flatMap ASlot.encode⟩
  | .tempo m sl => ⟨m, 1, (sl.length : Int), sl.flatMap TSlot.encode⟩

/-! ### four bytes per slot -/

private theorem encodeLE2 (v : Nat) : encodeLE 2 v = [v % 256, v / 256 % 256] := rfl

private theorem encodeLE4 (v : Nat) :
    encodeLE 4 v = [v % 256, v / 256 % 256, v / 256 / 256 % 256, v / 256 / 256 / 256 % 256] := rfl

theorem ASlot.encode_four (s : ASlot) : ∃ b0 b1 b2 b3, s.encode = [b0, b1, b2, b3] := by
  cases s with
  | empty => exact ⟨0, 0, 0, 0, rfl⟩
  | note en k v p => exact ⟨_, _, _, _, rfl⟩

theorem TSlot.encode_four (s : TSlot) : ∃ b0 b1 b2 b3, TSlot.encode s = [b0, b1, b2, b3] := by
  rcases s with _ | ⟨s, e, m⟩
  · exact ⟨0, 0, 0, 0, rfl⟩
  · exact ⟨_, _, _, _, rfl⟩

theorem groups_flatMap4 {α : Type} (f : α → List Nat) (h : ∀ a, ∃ b0 b1 b2 b3, f a = [b0, b1, b2, b3]) :
    ∀ l : List α, groups (l.flatMap f) = l.map f := by
  intro l
  induction l with
  | nil => rfl
  | cons a t ih =>
    obtain ⟨b0, b1, b2, b3, hb⟩ := h a
    simp only [List.flatMap_cons, List.map_cons, hb, List.cons_append, List.nil_append, groups, ih]

theorem length_flatMap4 {α : Type} (f : α → List Nat) (h : ∀ a, ∃ b0 b1 b2 b3, f a = [b0, b1, b2, b3]) :
    ∀ l : List α, (l.flatMap f).length = 4 * l.length := by
  intro l
  induction l with
  | nil => rfl
  | cons a t ih =>
    obtain ⟨b0, b1, b2, b3, hb⟩ := h a
    simp only [List.flatMap_cons, List.length_append, hb, List.length_cons, List.length_nil, ih]
    omega

theorem toRaw_wf (p : APkg) (h : p.Valid) : WfRaw p.toRaw := by
  cases p with
  | notes m c sl =>
    obtain ⟨h1, h2, h3, h4, _⟩ := h
    refine ⟨h1, h2, ?_, ?_, ?_, ?_, ?_⟩ <;> simp only [APkg.toRaw]
    · omega
    · omega
    · omega
    · omega
    · rw [length_flatMap4 _ ASlot.encode_four]; simp
  | tempo m sl =>
    obtain ⟨h1, h2, h4, _⟩ := h
    refine ⟨h1, h2, ?_, ?_, ?_, ?_, ?_⟩ <;> simp only [APkg.toRaw]
    · omega
    · omega
    · omega
    · omega
    · rw [length_flatMap4 _ TSlot.encode_four]; simp

/-! ### the abstract content -/

def aSlotsAux (m : Int) (c : Int) (n : Nat) : Nat → List ASlot → List Slot
  | _, [] => []
  | i, .empty :: rest => aSlotsAux m c n (i + 1) rest
  | i, .note _ k v p :: rest => ⟨slotPos m n i, c, v, p, k⟩ :: aSlotsAux m c n (i + 1) rest

def aBpmsAux (m : Int) (n : Nat) : Nat → List TSlot → List (Rat × Rat)
  | _, [] => []
  | i, none :: rest => aBpmsAux m n (i + 1) rest
  | i, some (s, e, mm) :: rest => (slotPos m n i, tempoVal s e mm) :: aBpmsAux m n (i + 1) rest

/-- by the book, straight from the abstract package: slot i of n sits at measure + i/n -/
def aSlots : APkg → List Slot
  | .notes m c sl => aSlotsAux m (c : Int) sl.length 0 sl
  | .tempo _ _ => []

def aBpms : APkg → List (Rat × Rat)
  | .notes _ _ _ => []
  | .tempo m sl => aBpmsAux m sl.length 0 sl

/-! ### the specification's decoders on the encoded slots -/

theorem specSlot_empty (m c : Int) (n i : Nat) : specSlot m c n i ASlot.empty.encode = none := by
  simp [specSlot, ASlot.encode, decodeI16, leNat, toSigned]

theorem specSlot_note (m c : Int) (n i : Nat) (en : Int) (k : Kind) (v p : Nat)
    (h : (ASlot.note en k v p).Valid) :
    specSlot m c n i (ASlot.note en k v p).encode = some ⟨slotPos m n i, c, v, p, k⟩ := by
  obtain ⟨h0, h1, h2, h3, h4⟩ := h
  have ht : (ASlot.note en k v p).encode.take 2 = encodeLE 2 (toBits 16 en) := by
    simp [ASlot.encode, encodeLE2]
  have h2' : (ASlot.note en k v p).encode.getD 2 0 = v * 16 + p := by simp [ASlot.encode, encodeLE2]
  have h3' : (ASlot.note en k v p).encode.getD 3 0 = kindByte k := by simp [ASlot.encode, encodeLE2]
  have hv : (v * 16 + p) / 16 = v := by omega
  have hp : (v * 16 + p) % 16 = p := by omega
  unfold specSlot
  rw [ht, decodeI16_encode en h1 h2, if_neg h0]
  simp only [h2', h3', hv, hp]
  cases k <;> simp [kindByte]

theorem specSlotsAux_encode (m c : Int) (n : Nat) : ∀ (sl : List ASlot) (i : Nat), (∀ s ∈ sl, s.Valid) →
    specSlotsAux m c n i (sl.map ASlot.encode) = aSlotsAux m c n i sl := by
  intro sl
  induction sl with
  | nil => intro i _; rfl
  | cons s t ih =>
    intro i h
    have ht := ih (i + 1) (fun x hx => h x (by simp [hx]))
    cases s with
    | empty =>
      simp only [List.map_cons, specSlotsAux, specSlot_empty, aSlotsAux, ht]
    | note en k v p =>
      simp only [List.map_cons, specSlotsAux, specSlot_note m c n i en k v p (h _ (by simp)), aSlotsAux, ht]

theorem isColChannel_col (c : Nat) (h : c < 7) : isColChannel ((c : Int) + 2) = true := by
  simp [isColChannel]; omega

theorem specSlots_toRaw (p : APkg) (h : p.Valid) : specSlots p.toRaw = aSlots p := by
  cases p with
  | notes m c sl =>
    obtain ⟨_, _, h3, _, h5⟩ := h
    have hc : (c : Int) + 2 - 2 = (c : Int) := by omega
    simp only [specSlots, APkg.toRaw, isColChannel_col c h3, if_true, groups_flatMap4 _ ASlot.encode_four,
      List.length_map, hc, aSlots]
    exact specSlotsAux_encode m c sl.length sl 0 h5
  | tempo m sl =>
    simp [specSlots, APkg.toRaw, isColChannel, aSlots]

theorem decodeF32_none : decodeF32 (TSlot.encode none) = .fin 0 := decodeF32_zero

theorem decodeF32_some (s e m : Nat) (h : TSlot.Valid (some (s, e, m))) :
    decodeF32 (TSlot.encode (some (s, e, m))) = .fin (tempoVal s e m) := by
  obtain ⟨h1, h2, h3, _⟩ := h
  simp only [TSlot.encode]
  rw [decodeF32_bits s e m h1 (by omega) h3, f32OfParts_fin s e m h2]

theorem specBpmsAux_encode (m : Int) (n : Nat) : ∀ (sl : List TSlot) (i : Nat), (∀ s ∈ sl, TSlot.Valid s) →
    specBpmsAux m n i (sl.map TSlot.encode) = aBpmsAux m n i sl := by
  intro sl
  induction sl with
  | nil => intro i _; rfl
  | cons s t ih =>
    intro i h
    have ht := ih (i + 1) (fun x hx => h x (by simp [hx]))
    rcases s with _ | ⟨s, e, mm⟩
    · simp only [List.map_cons, specBpmsAux, decodeF32_none, if_true, aBpmsAux, ht]
    · have hv : TSlot.Valid (some (s, e, mm)) := h _ (by simp)
      have hne := tempoVal_ne_zero s e mm hv.1 hv.2.1 hv.2.2.2
      simp only [List.map_cons, specBpmsAux, decodeF32_some s e mm hv, if_neg hne, aBpmsAux, ht]

theorem specBpms_toRaw (p : APkg) (h : p.Valid) : specBpms p.toRaw = aBpms p := by
  cases p with
  | notes m c sl =>
    have hc : (APkg.notes m c sl).toRaw.channel ≠ 1 := by show (c : Int) + 2 ≠ 1; omega
    rw [specBpms_of_ne _ hc]; rfl
  | tempo m sl =>
    obtain ⟨_, _, _, h4⟩ := h
    simp only [specBpms, APkg.toRaw, if_true, groups_flatMap4 _ TSlot.encode_four, List.length_map, aBpms]
    exact specBpmsAux_encode m sl.length sl 0 h4

theorem allFinite_toRaw (p : APkg) (h : p.Valid) : allFinite p.toRaw = true := by
  cases p with
  | notes m c sl =>
    have hc : ¬ ((APkg.notes m c sl).toRaw.channel = 1) := by show (c : Int) + 2 ≠ 1; omega
    unfold allFinite
    rw [if_neg hc]
  | tempo m sl =>
    obtain ⟨_, _, _, h4⟩ := h
    simp only [allFinite, APkg.toRaw, if_true, groups_flatMap4 _ TSlot.encode_four, List.all_eq_true,
      List.mem_map]
    rintro g ⟨s, hs, rfl⟩
    rcases s with _ | ⟨s, e, mm⟩
    · rw [decodeF32_none]
    · rw [decodeF32_some s e mm (h4 _ hs)]

set_option linter.unusedVariables false in
theorem channel_toRaw_ne_zero (p : APkg) (h : p.Valid) : p.toRaw.channel ≠ 0 := by
  cases p with
  | notes m c sl => simp only [APkg.toRaw]; omega
  | tempo m sl => simp [APkg.toRaw]

/-! ### lifted to lists of packages -/

theorem specSlots_flatMap (ps : List APkg) (h : ∀ p ∈ ps, p.Valid) :
    (ps.map APkg.toRaw).flatMap specSlots = ps.flatMap aSlots := by
  induction ps with
  | nil => rfl
  | cons p t ih =>
    simp only [List.map_cons, List.flatMap_cons, specSlots_toRaw p (h p (by simp)),
      ih (fun x hx => h x (by simp [hx]))]

theorem specBpms_flatMap (ps : List APkg) (h : ∀ p ∈ ps, p.Valid) :
    (ps.map APkg.toRaw).flatMap specBpms = ps.flatMap aBpms := by
  induction ps with
  | nil => rfl
  | cons p t ih =>
    simp only [List.map_cons, List.flatMap_cons, specBpms_toRaw p (h p (by simp)),
      ih (fun x hx => h x (by simp [hx]))]

/-- the timeline of an abstract difficulty (no bytes involved): pair the slot stream, integrate positions -/
def aLevel (init : Rat) (ps : List APkg) : Except Err LevelOut := do
  let notes ← pairFrom [] (ps.flatMap aSlots)
  let evs := sortBpms (ps.flatMap aBpms)
  .ok ⟨(sortNotes notes).map (noteOut init evs), ⟨0, init, 0⟩ :: evs.map (bpmOut init evs)⟩

/-- **the specification reads the encoded level as the abstract timeline** -/
theorem specLevel_toRaw (init : Rat) (ps : List APkg) (h : ∀ p ∈ ps, p.Valid) :
    specLevel init (ps.map APkg.toRaw) = aLevel init ps := by
  unfold specLevel aLevel
  rw [specSlots_flatMap ps h, specBpms_flatMap ps h]

/-- long notes well nested in the abstract chart ⇒ the encoded level is `wfLevel` -/
theorem wfLevel_toRaw (ps : List APkg) (h : ∀ p ∈ ps, p.Valid)
    (hp : ∃ ns, pairFrom [] (ps.flatMap aSlots) = .ok ns) (hc : closedB (ps.flatMap aSlots) = true) :
    wfLevel (ps.map APkg.toRaw) = true := by
  obtain ⟨ns, hns⟩ := hp
  unfold wfLevel
  rw [specSlots_flatMap ps h, hc, hns]
  have h1 : (ps.map APkg.toRaw).all (fun p => decide (p.channel ≠ 0)) = true := by
    simp only [List.all_eq_true, List.mem_map]
    rintro r ⟨p, hp, rfl⟩
    exact decide_eq_true (channel_toRaw_ne_zero p (h p hp))
  have h2 : (ps.map APkg.toRaw).all allFinite = true := by
    simp only [List.all_eq_true, List.mem_map]
    rintro r ⟨p, hp, rfl⟩
    exact allFinite_toRaw p (h p hp)
  rw [h1, h2]
  rfl

/-! ### non-vacuity: a valid two-measure level (a long note over the bar line, a hit, a tempo change to 240) -/

/-- measure 0: column 2 has a head at 1/2; measure 1: the tail at 1/4 (+ a disabled slot), column 0 a hit at 1;
tempo 240.0f (0x43700000: e = 134, m = 0x700000) at 1 + 1/2 -/
def exLevel : List APkg :=
  [.notes 0 2 [.empty, .note 1 .head 3 4],
   .tempo 1 [none, some (0, 134, 0x700000)],
   .notes 1 2 [.empty, .note 7 .tail 0 0, .empty, .empty],
   .notes 1 0 [.note (-1) .hit 15 15]]

theorem exLevel_valid : ∀ p ∈ exLevel, p.Valid := by
  simp [exLevel, APkg.Valid, ASlot.Valid, TSlot.Valid]

example : (exLevel.map APkg.toRaw).map RawPkg.data =
    [[0, 0, 0, 0, 1, 0, 52, 2], [0, 0, 0, 0, 0, 0, 0x70, 0x43],
     [0, 0, 0, 0, 7, 0, 0, 3, 0, 0, 0, 0, 0, 0, 0, 0], [255, 255, 255, 0]] := by decide +kernel

example : exLevel.flatMap aBpms = [(3 / 2, 240)] := by decide +kernel

example : (pairFrom [] (exLevel.flatMap aSlots)).toOption =
    some [.hold ⟨1 / 2, 2, 3, 4, .head⟩ ⟨5 / 4, 2, 0, 0, .tail⟩, .hit ⟨1, 0, 15, 15, .hit⟩] := by decide +kernel

example : closedB (exLevel.flatMap aSlots) = true := by decide +kernel

example : wfLevel (exLevel.map APkg.toRaw) = true := by decide +kernel

/-- at 120 BPM a measure lasts 2000 ms: head at 1000 ms, tail at 2500 ms, hit at 2000 ms, tempo change at 3000 ms -/
example : (aLevel 120 exLevel).toOption =
    some ⟨[⟨.hold ⟨1 / 2, 2, 3, 4, .head⟩ ⟨5 / 4, 2, 0, 0, .tail⟩, 1000, some 1500⟩,
          ⟨.hit ⟨1, 0, 15, 15, .hit⟩, 2000, none⟩],
         [⟨0, 120, 0⟩, ⟨3 / 2, 240, 3000⟩]⟩ := by decide +kernel

example : (specLevel 120 (exLevel.map APkg.toRaw)).toOption = (aLevel 120 exLevel).toOption := by decide +kernel

example : specLevel 120 (exLevel.map APkg.toRaw) = aLevel 120 exLevel := specLevel_toRaw _ _ exLevel_valid

end Reamber.O2J
