/-
C03 — time is a monotone function of the beat, and it grows by at most the longest beat length per beat: for beats
`w ≤ b` at or after the first `#BPMS` entry, `0 ≤ time b − time w ≤ (b − w)·M` whenever `M` bounds the beat lengths of
the entries — across any number of tempo changes (and of entries on one beat) between the two beats.
-/
import Reamber.Lemmas.SMChanges
import Reamber.Lemmas.SMTol

namespace Reamber.SM

open Reamber.Timing

theorem snapOfBeat_le_iff (x w : Rat) : (snapOfBeat x).le (snapOfBeat w) = true ↔ x ≤ w := by
  refine ⟨fun h => ?_, snapOfBeat_mono x w⟩
  have hx1 := Rat.floor_le (x / 4)
  have hx2 := Rat.lt_floor_add_one (x / 4)
  have hw1 := Rat.floor_le (w / 4)
  push_cast at hx2
  simp only [snapOfBeat, Snap.le, Snap.lt, Snap.eqv, Bool.or_eq_true, Bool.and_eq_true, decide_eq_true_eq] at h
  rcases h with (h | ⟨h1, h2⟩) | ⟨h1, h2⟩
  · have h' : (x / 4).floor < (w / 4).floor := of_decide_eq_true h
    have : (((x / 4).floor : Int) : Rat) + 1 ≤ (((w / 4).floor : Int) : Rat) := by exact_mod_cast h'
    linarith
  · have h1' : (x / 4).floor = (w / 4).floor := of_decide_eq_true h1
    have h2' : x - 4 * (((x / 4).floor : Int) : Rat) < w - 4 * (((w / 4).floor : Int) : Rat) := of_decide_eq_true h2
    rw [h1'] at h2'; linarith
  · have h1' : (x / 4).floor = (w / 4).floor := of_decide_eq_true h1
    have h2' : x - 4 * (((x / 4).floor : Int) : Rat) = w - 4 * (((w / 4).floor : Int) : Rat) := of_decide_eq_true h2
    rw [h1'] at h2'; linarith

theorem beatLen_pos {bpm : Rat} (h : 0 < bpm) : 0 < beatLen bpm := by
  unfold beatLen minToMsec; positivity

theorem pc_dist (a b : Rat × Rat) :
    snapDist (pairChange a).snap (pairChange b).snap (pairChange a).met = b.1 - a.1 := snapDist_snapOfBeat a.1 b.1

theorem pc_dist_q (a : Rat × Rat) (s : Rat) :
    snapDist (pairChange a).snap (snapOfBeat s) (pairChange a).met = s - a.1 := snapDist_snapOfBeat a.1 s

theorem timeAtAux_bounds (M T : Rat) (cur : Rat × Rat) (rest : List (Rat × Rat)) (s : Rat)
    (hsorted : (cur :: rest).Pairwise (fun a b => a.1 ≤ b.1)) (hpos : ∀ p ∈ cur :: rest, 0 < p.2)
    (hM : ∀ p ∈ cur :: rest, beatLen p.2 ≤ M) (hs : cur.1 ≤ s) :
    0 ≤ timeAtAux T (pairChange cur) (rest.map pairChange) (snapOfBeat s) - T ∧
    timeAtAux T (pairChange cur) (rest.map pairChange) (snapOfBeat s) - T ≤ (s - cur.1) * M := by
  induction rest generalizing T cur with
  | nil =>
    have hb := beatLen_pos (hpos cur (by simp))
    have hm := hM cur (by simp)
    simp only [List.map_nil, timeAtAux, pc_dist_q]
    have e : (pairChange cur).bpm = cur.2 := rfl
    rw [e]
    have h0 : 0 ≤ s - cur.1 := by linarith
    constructor
    · have := mul_nonneg h0 (le_of_lt hb); linarith
    · have := mul_le_mul_of_nonneg_left hm h0; linarith
  | cons n r ih =>
    have hp := List.pairwise_cons.mp hsorted
    have hb := beatLen_pos (hpos cur (by simp))
    have hm := hM cur (by simp)
    have e : (pairChange cur).bpm = cur.2 := rfl
    have hcn : cur.1 ≤ n.1 := hp.1 n (by simp)
    simp only [List.map_cons, timeAtAux, pc_dist, pc_dist_q, e]
    by_cases hle : (pairChange n).snap.le (snapOfBeat s) = true
    · rw [if_pos hle]
      have hns : n.1 ≤ s := (snapOfBeat_le_iff n.1 s).mp hle
      obtain ⟨i1, i2⟩ := ih (T + (n.1 - cur.1) * beatLen cur.2) n hp.2
        (fun p hp' => hpos p (List.mem_cons_of_mem _ hp')) (fun p hp' => hM p (List.mem_cons_of_mem _ hp')) hns
      have h0 : 0 ≤ n.1 - cur.1 := by linarith
      have a1 := mul_nonneg h0 (le_of_lt hb)
      have a2 := mul_le_mul_of_nonneg_left hm h0
      constructor
      · linarith
      · nlinarith
    · rw [if_neg hle]
      have h0 : 0 ≤ s - cur.1 := by linarith
      constructor
      · have := mul_nonneg h0 (le_of_lt hb); linarith
      · have := mul_le_mul_of_nonneg_left hm h0; linarith

theorem timeAtAux_lipschitz (M T : Rat) (cur : Rat × Rat) (rest : List (Rat × Rat)) (w b : Rat)
    (hsorted : (cur :: rest).Pairwise (fun a b => a.1 ≤ b.1)) (hpos : ∀ p ∈ cur :: rest, 0 < p.2)
    (hM : ∀ p ∈ cur :: rest, beatLen p.2 ≤ M) (hw : cur.1 ≤ w) (hwb : w ≤ b) :
    0 ≤ timeAtAux T (pairChange cur) (rest.map pairChange) (snapOfBeat b) -
        timeAtAux T (pairChange cur) (rest.map pairChange) (snapOfBeat w) ∧
    timeAtAux T (pairChange cur) (rest.map pairChange) (snapOfBeat b) -
        timeAtAux T (pairChange cur) (rest.map pairChange) (snapOfBeat w) ≤ (b - w) * M := by
  induction rest generalizing T cur with
  | nil =>
    have hb := beatLen_pos (hpos cur (by simp))
    have hm := hM cur (by simp)
    have e : (pairChange cur).bpm = cur.2 := rfl
    simp only [List.map_nil, timeAtAux, pc_dist_q, e]
    have h0 : 0 ≤ b - w := by linarith
    have a1 := mul_nonneg h0 (le_of_lt hb)
    have a2 := mul_le_mul_of_nonneg_left hm h0
    constructor <;> nlinarith
  | cons n r ih =>
    have hp := List.pairwise_cons.mp hsorted
    have hb := beatLen_pos (hpos cur (by simp))
    have hm := hM cur (by simp)
    have e : (pairChange cur).bpm = cur.2 := rfl
    have hcn : cur.1 ≤ n.1 := hp.1 n (by simp)
    simp only [List.map_cons, timeAtAux, pc_dist, pc_dist_q, e]
    by_cases hlw : (pairChange n).snap.le (snapOfBeat w) = true
    · have hnw : n.1 ≤ w := (snapOfBeat_le_iff n.1 w).mp hlw
      have hlb : (pairChange n).snap.le (snapOfBeat b) = true := (snapOfBeat_le_iff n.1 b).mpr (le_trans hnw hwb)
      rw [if_pos hlw, if_pos hlb]
      exact ih (T + (n.1 - cur.1) * beatLen cur.2) n hp.2
        (fun p hp' => hpos p (List.mem_cons_of_mem _ hp')) (fun p hp' => hM p (List.mem_cons_of_mem _ hp')) hnw
    · have hwn : w < n.1 := by
        by_contra hc
        exact hlw ((snapOfBeat_le_iff n.1 w).mpr (not_lt.mp hc))
      rw [if_neg hlw]
      by_cases hlb : (pairChange n).snap.le (snapOfBeat b) = true
      · rw [if_pos hlb]
        have hnb : n.1 ≤ b := (snapOfBeat_le_iff n.1 b).mp hlb
        obtain ⟨i1, i2⟩ := timeAtAux_bounds M (T + (n.1 - cur.1) * beatLen cur.2) n r b hp.2
          (fun p hp' => hpos p (List.mem_cons_of_mem _ hp')) (fun p hp' => hM p (List.mem_cons_of_mem _ hp')) hnb
        have h0 : 0 ≤ n.1 - w := by linarith
        have a1 := mul_nonneg h0 (le_of_lt hb)
        have a2 := mul_le_mul_of_nonneg_left hm h0
        constructor <;> nlinarith
      · rw [if_neg hlb]
        have h0 : 0 ≤ b - w := by linarith
        have a1 := mul_nonneg h0 (le_of_lt hb)
        have a2 := mul_le_mul_of_nonneg_left hm h0
        constructor <;> nlinarith

end Reamber.SM
