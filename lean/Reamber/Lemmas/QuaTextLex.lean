/- C06 — lexical lemmas of the .qua YAML text layer: `lexLine (renderLine L) = L`. -/
import Reamber.Model.QuaText
import Reamber.Lemmas.OsuLex
namespace Reamber.QuaText
open Reamber.Osu (Str showInt showNat readNat? isDig split1 natOfDigits)

/-! ### single quotes -/

theorem unq_cons_ne (c : Char) (r : Str) (hc : c ≠ '\'') :
    unq (c :: r) = if printable c then (unq r).map (c :: ·) else none := by
  cases r <;> simp [unq, hc]

theorem unq_quote_quote (r : Str) : unq ('\'' :: '\'' :: r) = (unq r).map ('\'' :: ·) := by
  simp [unq]

theorem unq_quoteBody (s : Str) (h : s.all printable = true) : unq (quoteBody s ++ ['\'']) = some s := by
  induction s with
  | nil => rfl
  | cons c cs ih =>
    simp only [List.all_cons, Bool.and_eq_true] at h
    by_cases hc : c = '\''
    · subst hc
      show unq ('\'' :: '\'' :: (quoteBody cs ++ ['\''])) = _
      rw [unq_quote_quote, ih h.2]; rfl
    · have e : quoteBody (c :: cs) = c :: quoteBody cs := by simp [quoteBody, hc]
      rw [e]
      show unq (c :: (quoteBody cs ++ ['\''])) = _
      rw [unq_cons_ne _ _ hc, ih h.2, h.1]; rfl

theorem quoteBody_noNewline (s : Str) (h : s.all printable = true) : '\n' ∉ quoteBody s := by
  induction s with
  | nil => simp [quoteBody]
  | cons c cs ih =>
    simp only [List.all_cons, Bool.and_eq_true] at h
    have hc : c ≠ '\n' := by
      intro e; subst e; exact absurd h.1 (by decide)
    unfold quoteBody
    split
    · simp [ih h.2]
    · simp [ih h.2, Ne.symm hc]

theorem printable_noNewline (s : Str) (h : s.all printable = true) : '\n' ∉ s := by
  intro hm
  rw [List.all_eq_true] at h
  exact absurd (h _ hm) (by decide)

/-! ### characters of a printed integer -/

/-- everything the plain-scalar analysis needs of a digit or a minus sign -/
def numChOK (c : Char) : Bool :=
  printable c && c != ' ' && c != ':' && c != '#' && c != '\'' && c != '[' && !indicator1 c && c != '?' &&
  c != '\t' && c != '.' && !isAlpha c && c != '~' && c != '\n'

theorem numChOK_digit (d : Nat) (h : d < 10) :
    numChOK (Osu.digitChar d) = true ∧ isDig (Osu.digitChar d) = true ∧ Osu.digitChar d ≠ '-' := by
  have : d = 0 ∨ d = 1 ∨ d = 2 ∨ d = 3 ∨ d = 4 ∨ d = 5 ∨ d = 6 ∨ d = 7 ∨ d = 8 ∨ d = 9 := by omega
  rcases this with rfl | rfl | rfl | rfl | rfl | rfl | rfl | rfl | rfl | rfl <;> decide +kernel

theorem numChOK_minus : numChOK '-' = true := by decide

structure NumCh (c : Char) : Prop where
  pr : printable c = true
  sp : c ≠ ' '
  col : c ≠ ':'
  hash : c ≠ '#'
  q : c ≠ '\''
  br : c ≠ '['
  ind : indicator1 c = false
  qm : c ≠ '?'
  tab : c ≠ '\t'
  dot : c ≠ '.'
  al : isAlpha c = false
  til : c ≠ '~'
  nl : c ≠ '\n'

theorem NumCh.of {c : Char} (h : numChOK c = true) : NumCh c := by
  simp [numChOK, Bool.and_eq_true] at h
  obtain ⟨⟨⟨⟨⟨⟨⟨⟨⟨⟨⟨⟨h1, h2⟩, h3⟩, h4⟩, h5⟩, h6⟩, h7⟩, h8⟩, h9⟩, h10⟩, h11⟩, h12⟩, h13⟩ := h
  exact ⟨h1, h2, h3, h4, h5, h6, h7, h8, h9, h10, h11, h12, h13⟩

/-! ### plain scalars -/

theorem indicator1_false {c : Char} (h : indicator1 c = false) : c ≠ '[' ∧ c ≠ '\'' := by
  constructor <;> (intro e; subst e; revert h; decide)

theorem plainAllowed_parts {t : Str} (h : plainAllowed t = true) :
    t.all printable = true ∧ blockInd t = false ∧ t ≠ [] := by
  simp [plainAllowed, Bool.and_eq_true] at h
  obtain ⟨⟨⟨⟨h1, h2⟩, h3⟩, h4⟩, h5⟩ := h
  refine ⟨?_, h5, h1⟩
  rw [List.all_eq_true]; exact h2

theorem blockInd_head {c : Char} {cs : Str} (h : blockInd (c :: cs) = false) : indicator1 c = false := by
  simp [blockInd, Bool.or_eq_false_iff] at h
  simp [h]

theorem lexVal_plain (t : Str) (h : plainAllowed t = true) : lexVal t = (resolve t).map .sc := by
  obtain ⟨_, hb, hne⟩ := plainAllowed_parts h
  cases t with
  | nil => exact absurd rfl hne
  | cons c cs =>
    obtain ⟨h1, h2⟩ := indicator1_false (blockInd_head hb)
    unfold lexVal
    rw [if_neg (by intro e; injection e with e1 _; exact h1 e1)]
    split
    · next heq => injection heq with e1 _; exact absurd e1 h2
    · rw [if_pos h]

theorem innerInd_false (p : Char) (cs : Str) (h : ∀ x ∈ cs, x ≠ ':' ∧ x ≠ '#') : innerInd p cs = false := by
  induction cs generalizing p with
  | nil => rfl
  | cons c cs ih =>
    have hc := h c (by simp)
    simp [innerInd, hc.1, hc.2, ih c (fun x hx => h x (by simp [hx]))]

theorem plainAllowed_num (c : Char) (cs : Str) (hall : ∀ x ∈ c :: cs, NumCh x)
    (h3 : "---".toList.isPrefixOf (c :: cs) = false) (hb : c = '-' → blankz cs = false) :
    plainAllowed (c :: cs) = true := by
  have hc := hall c (by simp)
  have hpr : (c :: cs).all printable = true := by
    rw [List.all_eq_true]; exact fun x hx => (hall x hx).pr
  have hl : (c :: cs).getLast? ≠ some ' ' := by
    intro h; exact (hall _ (List.mem_of_getLast? h)).sp rfl
  have hin : innerInd c cs = false :=
    innerInd_false c cs (fun x hx => ⟨(hall x (by simp [hx])).col, (hall x (by simp [hx])).hash⟩)
  have hdot : "...".toList.isPrefixOf (c :: cs) = false := by
    have : ('.' == c) = false := by simp; exact fun e => hc.dot e.symm
    show (('.' == c) && _) = false
    rw [this]; rfl
  have hbl : ((c = '?' || c = ':' || c = '-') && blankz cs) = false := by
    by_cases e : c = '-'
    · simp [hb e]
    · simp [e, hc.qm, hc.col]
  have hbi : blockInd (c :: cs) = false := by
    show ("---".toList.isPrefixOf (c :: cs) || "...".toList.isPrefixOf (c :: cs) || indicator1 c ||
      ((c = '?' || c = ':' || c = '-') && blankz cs) || innerInd c cs) = false
    rw [h3, hdot, hc.ind, hbl, hin]; rfl
  unfold plainAllowed
  rw [hpr, hbi]
  simp [hc.sp]
  simpa using hl

/-! ### the resolver on a printed integer -/

def headWord (s : Str) : Bool := match s with | c :: _ => isAlpha c || c == '~' | [] => false

theorem words_head : (nullWords ++ trueWords ++ falseWords).all headWord = true := by decide

theorem not_word (t : Str) (h : headWord t = false) :
    nullWords.contains t = false ∧ trueWords.contains t = false ∧ falseWords.contains t = false := by
  have key : ∀ w ∈ nullWords ++ trueWords ++ falseWords, w ≠ t := by
    intro w hw e
    have := List.all_eq_true.mp words_head w hw
    rw [e, h] at this; exact absurd this (by decide)
  refine ⟨?_, ?_, ?_⟩ <;>
  · rw [Bool.eq_false_iff]; intro hc
    have hm := List.contains_iff_mem.mp hc
    exact key t (by simp [hm]) rfl

theorem showNat_shape (n : Nat) :
    ∃ d ds, showNat n = Osu.digitChar d :: ds ∧ d < 10 ∧ Osu.AllDig ds := by
  obtain ⟨_, h2, h3⟩ := Osu.showNat_spec n
  cases hs : showNat n with
  | nil => exact absurd hs h2
  | cons c cs =>
    rw [hs] at h3
    obtain ⟨d, hd, rfl⟩ := h3 c (by simp)
    exact ⟨d, cs, rfl, hd, fun x hx => h3 x (by simp [hx])⟩

theorem allDig_numCh {s : Str} (h : Osu.AllDig s) : ∀ x ∈ s, NumCh x := by
  intro x hx
  obtain ⟨d, hd, rfl⟩ := h x hx
  exact NumCh.of (numChOK_digit d hd).1

theorem intLex_showInt (i : Int) : intLex? (showInt i) = some i := by
  obtain ⟨d, ds, hs, hd, hds⟩ := showNat_shape i.natAbs
  have hr := Osu.readNat?_showNat i.natAbs
  by_cases hi : i < 0
  · have e : showInt i = '-' :: showNat i.natAbs := by unfold showInt; rw [if_pos hi]
    have e2 : (-(i.natAbs : Int)) = i := by omega
    unfold intLex?
    simp only [e, List.head?_cons, List.drop_succ_cons, List.drop_zero, beq_self_eq_true, if_true, hr, e2]
  · have e : showInt i = showNat i.natAbs := by unfold showInt; rw [if_neg hi]
    have e2 : ((i.natAbs : Nat) : Int) = i := by omega
    have hne : (some (Osu.digitChar d) == some '-') = false := by
      simp; exact (numChOK_digit d hd).2.2
    unfold intLex?
    rw [e]
    have hh : (showNat i.natAbs).head? = some (Osu.digitChar d) := by rw [hs]; rfl
    simp only [hh, hne, Bool.false_eq_true, if_false, hr, e2, e, if_true]

theorem headWord_numCh {c : Char} {cs : Str} (h : NumCh c) : headWord (c :: cs) = false := by
  have : (c == '~') = false := by simp; exact h.til
  show (isAlpha c || c == '~') = false
  rw [h.al, this]; rfl

theorem showInt_shape (i : Int) :
    ∃ c cs, showInt i = c :: cs ∧ (∀ x ∈ c :: cs, NumCh x) ∧
      "---".toList.isPrefixOf (c :: cs) = false ∧ (c = '-' → blankz cs = false) := by
  obtain ⟨d, ds, hs, hd, hds⟩ := showNat_shape i.natAbs
  obtain ⟨f1, f2, f3⟩ := numChOK_digit d hd
  have n1 : NumCh (Osu.digitChar d) := NumCh.of f1
  have hne : ('-' == Osu.digitChar d) = false := by simp; exact fun e => f3 e.symm
  have hall : ∀ x ∈ Osu.digitChar d :: ds, NumCh x := by
    intro x hx
    simp only [List.mem_cons] at hx
    rcases hx with rfl | hx
    · exact n1
    · exact allDig_numCh hds x hx
  by_cases hi : i < 0
  · refine ⟨'-', Osu.digitChar d :: ds, ?_, ?_, ?_, ?_⟩
    · unfold showInt; rw [if_pos hi, hs]
    · intro x hx
      simp only [List.mem_cons] at hx
      rcases hx with rfl | hx
      · exact NumCh.of numChOK_minus
      · exact hall x (by simpa using hx)
    · show (('-' == '-') && (('-' == Osu.digitChar d) && _)) = false
      rw [hne]; rfl
    · intro _
      have a : (Osu.digitChar d == ' ') = false := by simp; exact n1.sp
      have b : (Osu.digitChar d == '\t') = false := by simp; exact n1.tab
      simp [blankz, n1.sp, n1.tab]
  · refine ⟨Osu.digitChar d, ds, ?_, hall, ?_, ?_⟩
    · unfold showInt; rw [if_neg hi, hs]
    · show (('-' == Osu.digitChar d) && _) = false
      rw [hne]; rfl
    · intro e; exact absurd e f3

theorem resolve_showInt (i : Int) : resolve (showInt i) = some (.int i) := by
  obtain ⟨c, cs, hs, hall, _, _⟩ := showInt_shape i
  have hw : headWord (showInt i) = false := by rw [hs]; exact headWord_numCh (hall c (by simp))
  obtain ⟨w1, w2, w3⟩ := not_word _ hw
  unfold resolve
  rw [w1, w2, w3, intLex_showInt]
  simp

theorem lexVal_showInt (i : Int) : lexVal (showInt i) = some (.sc (.int i)) := by
  obtain ⟨c, cs, hs, hall, h3, hb⟩ := showInt_shape i
  have hp : plainAllowed (showInt i) = true := by rw [hs]; exact plainAllowed_num c cs hall h3 hb
  rw [lexVal_plain _ hp, resolve_showInt]; rfl

/-! ### every scalar text of the class is read back -/

theorem resolve_str {s s' : Str} (h : resolve s = some (.str s')) : s' = s := by
  unfold resolve at h
  repeat' split at h
  all_goals (try simp at h)
  all_goals (first | exact h.symm | skip)

theorem lexVal_quote (s : Str) (h : s.all printable = true) : lexVal (quote s) = some (.sc (.str s)) := by
  unfold lexVal quote
  rw [if_neg (by intro e; injection e with e1 _; revert e1; decide)]
  simp [unq_quoteBody s h]

theorem lexVal_scText (s : Sc) (vt : Str) (h : scText s = some vt) : lexVal vt = some (.sc s) := by
  cases s with
  | null => cases h; decide
  | bool b => cases b <;> (cases h; decide)
  | int i => cases h; exact lexVal_showInt i
  | flt l =>
    simp only [scText] at h
    split at h
    · cases h; assumption
    · cases h
  | str s =>
    simp only [scText] at h
    split at h
    · next he =>
      cases h
      have : s = [] := by simp at he; exact he
      subst this; decide
    · split at h
      · cases h
      · next hpr =>
        have hpr : s.all printable = true := by simpa using hpr
        split at h
        · next hpl =>
          split at h
          · next s' hr =>
            cases h
            rw [lexVal_plain _ hpl, hr, resolve_str hr]; rfl
          · cases h; exact lexVal_quote s hpr
          · cases h
        · cases h; exact lexVal_quote s hpr

/-! ### keys -/

theorem isKeyChar_ne {c : Char} (h : isKeyChar c = true) : c ≠ ':' ∧ c ≠ ' ' ∧ c ≠ '\n' := by
  refine ⟨?_, ?_, ?_⟩ <;> (intro e; subst e; revert h; decide)

theorem isAlpha_ne {c : Char} (h : isAlpha c = true) : c ≠ ' ' ∧ c ≠ '-' := by
  refine ⟨?_, ?_⟩ <;> (intro e; subst e; revert h; decide)

theorem keyOK_parts {k : Str} (h : keyOK k = true) :
    ∃ c cs, k = c :: cs ∧ isAlpha c = true ∧ ∀ x ∈ k, isKeyChar x = true := by
  unfold keyOK at h
  simp only [Bool.and_eq_true, List.all_eq_true] at h
  obtain ⟨⟨⟨⟨⟨h1, h2⟩, _⟩, _⟩, _⟩, _⟩ := h
  cases k with
  | nil => cases h1
  | cons c cs => exact ⟨c, cs, rfl, h1, h2⟩

/-! ### lines -/

theorem spaces_span (n : Nat) (x : Str) (hx : x.head? ≠ some ' ') :
    (List.replicate n ' ' ++ x).takeWhile (· = ' ') = List.replicate n ' ' ∧
    (List.replicate n ' ' ++ x).dropWhile (· = ' ') = x := by
  induction n with
  | zero =>
    cases x with
    | nil => simp
    | cons c cs =>
      have hc : c ≠ ' ' := fun e => hx (by simp [e])
      simp [hc]
  | succ n ih =>
    simp [List.replicate_succ, ih.1, ih.2]

/-- the reader on `indent, dash?, key, colon, rest` -/
theorem lexLine_pre (L : Line) (hk : keyOK L.key = true) (rest : Str) :
    lexLine (linePre L ++ rest) =
      match rest with
      | [] => some ⟨L.ind, L.dash, L.key, .opn⟩
      | c :: vt => if c = ' ' then (lexVal vt).map (fun v => ⟨L.ind, L.dash, L.key, v⟩) else none := by
  obtain ⟨ind, dash, key, val⟩ := L
  simp only at hk ⊢
  obtain ⟨c, cs, hkey, hal, hall⟩ := keyOK_parts hk
  have hcol : ':' ∉ key := fun hm => (isKeyChar_ne (hall _ hm)).1 rfl
  have hsp := Osu.split1_key_value ':' key rest hcol
  have hkn : (!keyOK key) = false := by simp at hk ⊢; exact hk
  obtain ⟨a1, a2⟩ := isAlpha_ne hal
  cases dash with
  | false =>
    have e : linePre ⟨ind, false, key, val⟩ ++ rest = List.replicate ind ' ' ++ (key ++ ':' :: rest) := by
      simp [linePre]
    have hx : (key ++ ':' :: rest).head? ≠ some ' ' := by
      rw [hkey]; simp; exact a1
    have hd : "- ".toList.isPrefixOf (key ++ ':' :: rest) = false := by
      rw [hkey]
      have : ('-' == c) = false := by simp; exact fun e => a2 e.symm
      show (('-' == c) && _) = false
      rw [this]; rfl
    obtain ⟨t1, t2⟩ := spaces_span ind _ hx
    rw [e]
    unfold lexLine
    simp only [t1, t2, hd, List.length_replicate, hsp, hkn, Bool.false_eq_true, if_false]
    cases rest <;> rfl
  | true =>
    have e : linePre ⟨ind, true, key, val⟩ ++ rest =
        List.replicate ind ' ' ++ ('-' :: ' ' :: (key ++ ':' :: rest)) := by
      simp [linePre]
    have hx : ('-' :: ' ' :: (key ++ ':' :: rest)).head? ≠ some ' ' := by simp
    have hd : "- ".toList.isPrefixOf ('-' :: ' ' :: (key ++ ':' :: rest)) = true := rfl
    obtain ⟨t1, t2⟩ := spaces_span ind _ hx
    rw [e]
    unfold lexLine
    simp only [t1, t2, hd, List.length_replicate, if_true, List.drop_succ_cons, List.drop_zero, hsp, hkn,
      Bool.false_eq_true, if_false]
    cases rest <;> rfl

/-- **a rendered line is read back** -/
theorem lexLine_renderLine (L : Line) (t : Str) (h : renderLine L = some t) : lexLine t = some L := by
  unfold renderLine at h
  split at h
  · cases h
  · next hk =>
    have hk : keyOK L.key = true := by simpa using hk
    split at h
    · next hv =>
      cases h
      have := lexLine_pre L hk []
      rw [List.append_nil] at this
      rw [this, ← hv]
    · next hv =>
      cases h
      rw [lexLine_pre L hk]
      have : lexVal "[]".toList = some .empty := by decide
      simp only [if_true, this, Option.map_some, ← hv]
    · next s hv =>
      split at h
      · cases h
      · next vt hs =>
        split at h
        · cases h
          rw [lexLine_pre L hk]
          simp only [if_true, lexVal_scText s vt hs, Option.map_some, ← hv]
        · cases h

/-! ### no line break inside a rendered line -/

theorem lexVal_flt_plain {l l' : Str} (h : lexVal l = some (.sc (.flt l'))) : plainAllowed l = true := by
  unfold lexVal at h
  split at h
  · cases h
  · split at h
    · cases hu : unq ‹Str› <;> simp [hu] at h
    · split at h
      · assumption
      · cases h

theorem quote_noNewline (s : Str) (h : s.all printable = true) : '\n' ∉ quote s := by
  have := quoteBody_noNewline s h
  simp [quote, this]

theorem scText_noNewline (s : Sc) (vt : Str) (h : scText s = some vt) : '\n' ∉ vt := by
  cases s with
  | null => cases h; decide
  | bool b => cases b <;> (cases h; decide)
  | int i => cases h; exact fun hm => (Osu.showInt_chars i _ hm).2.2 rfl
  | flt l =>
    simp only [scText] at h
    split at h
    · next hl =>
      cases h
      exact printable_noNewline _ (plainAllowed_parts (lexVal_flt_plain hl)).1
    · cases h
  | str s =>
    simp only [scText] at h
    split at h
    · cases h; decide
    · split at h
      · cases h
      · next hpr =>
        have hpr : s.all printable = true := by simpa using hpr
        split at h
        · split at h
          · cases h; exact printable_noNewline _ hpr
          · cases h; exact quote_noNewline s hpr
          · cases h
        · cases h; exact quote_noNewline s hpr

theorem linePre_noNewline (L : Line) (hk : keyOK L.key = true) : '\n' ∉ linePre L := by
  obtain ⟨c, cs, _, _, hall⟩ := keyOK_parts hk
  have hkey : '\n' ∉ L.key := fun hm => (isKeyChar_ne (hall _ hm)).2.2 rfl
  unfold linePre
  cases L.dash <;> simp [hkey]

theorem renderLine_noNewline (L : Line) (t : Str) (h : renderLine L = some t) : '\n' ∉ t := by
  unfold renderLine at h
  split at h
  · cases h
  · next hk =>
    have hk : keyOK L.key = true := by simpa using hk
    have hp := linePre_noNewline L hk
    split at h
    · cases h; exact hp
    · cases h
      have : '\n' ∉ "[]".toList := by decide
      simp [hp]
    · next s hv =>
      split at h
      · cases h
      · next vt hs =>
        split at h
        · cases h
          have := scText_noNewline s vt hs
          simp [hp, this]
        · cases h

end Reamber.QuaText
