/-
K1 — closed form of `timeAt` for a constant metronome `M`: with `B_i = measure_i·M + beat_i` the beat count of
change `i` and `x` the beat count of the query,
  timeAt t0 cs s = t0 + Σ_i (clamp x B_i B_{i+1} − B_i) · 60000/bpm_i      (B_{last+1} = ∞)
— "piecewise-linear integration of beat length over the tempo segments".
-/
import Reamber.Lemmas.TimingBeats

namespace Reamber.Timing

def clampR (x lo hi : Rat) : Rat := max lo (min x hi)

/-- Σ over the segments from `cur` on of (clamped beats spent in the segment) × (its beat length) -/
def closedSum (M : Rat) (cur : BcSnap) : List BcSnap → Rat → Rat
  | [], x => (max x (snapTotal M cur.snap) - snapTotal M cur.snap) * beatLen cur.bpm
  | n :: rest, x =>
    (clampR x (snapTotal M cur.snap) (snapTotal M n.snap) - snapTotal M cur.snap) * beatLen cur.bpm
      + closedSum M n rest x

theorem snapTotal_le_of_le {M : Rat} (hM : 0 < M) {a b : Snap} (hab : a.le b = true) (ha : a.beat ≤ M)
    (hb : 0 ≤ b.beat) : snapTotal M a ≤ snapTotal M b := by
  have := snapDist_mono (c := ⟨0, 0, none⟩) hM hab ha hb
  unfold snapDist at this
  unfold snapTotal
  simpa using this

theorem closedSum_zero {M : Rat} (cur : BcSnap) (rest : List BcSnap) (x : Rat)
    (hwf : wfChanges (cur :: rest) = true) (hs : sortedSnaps (cur :: rest) = true)
    (hM : ∀ c ∈ cur :: rest, c.met = M) (hx : x ≤ snapTotal M cur.snap) : closedSum M cur rest x = 0 := by
  induction rest generalizing cur with
  | nil => simp [closedSum, max_eq_right hx]
  | cons n rest ih =>
    have wc := wfChanges_mem hwf (List.mem_cons_self)
    have wn := wfChanges_mem hwf (List.mem_cons_of_mem _ List.mem_cons_self)
    have hcM := hM cur List.mem_cons_self
    have hMpos : 0 < M := by rw [← hcM]; exact wc.met_pos
    have hcn : snapTotal M cur.snap ≤ snapTotal M n.snap :=
      snapTotal_le_of_le hMpos (sortedSnaps_head_le hs n List.mem_cons_self) (by rw [← hcM]; exact le_of_lt wc.beat_lt)
        wn.beat_nonneg
    simp only [closedSum]
    rw [ih n (wfChanges_tail hwf) (sortedSnaps_tail hs) (fun c hc => hM c (List.mem_cons_of_mem _ hc)) (le_trans hx hcn)]
    have : clampR x (snapTotal M cur.snap) (snapTotal M n.snap) = snapTotal M cur.snap := by
      unfold clampR
      rw [min_eq_left (le_trans hx hcn), max_eq_left hx]
    rw [this]; ring

/-- **Closed form (constant metronome).** -/
theorem timeAtAux_closed_form {M : Rat} (T : Rat) (cur : BcSnap) (rest : List BcSnap) (s : Snap)
    (hwf : wfChanges (cur :: rest) = true) (hs : sortedSnaps (cur :: rest) = true)
    (hM : ∀ c ∈ cur :: rest, c.met = M) (hle : cur.snap.le s = true) (hs0 : 0 ≤ s.beat) (hsM : s.beat < M) :
    timeAtAux T cur rest s = T + closedSum M cur rest (snapTotal M s) := by
  induction rest generalizing T cur with
  | nil =>
    have wc := wfChanges_mem hwf (List.mem_cons_self)
    have hcM := hM cur List.mem_cons_self
    have hMpos : 0 < M := by rw [← hcM]; exact wc.met_pos
    have hcs : snapTotal M cur.snap ≤ snapTotal M s :=
      snapTotal_le_of_le hMpos hle (by rw [← hcM]; exact le_of_lt wc.beat_lt) hs0
    simp only [timeAtAux, closedSum, max_eq_left hcs, hcM]
    unfold snapDist snapTotal; push_cast; ring
  | cons n rest ih =>
    have wc := wfChanges_mem hwf (List.mem_cons_self)
    have wn := wfChanges_mem hwf (List.mem_cons_of_mem _ List.mem_cons_self)
    have hcM := hM cur List.mem_cons_self
    have hnM := hM n (List.mem_cons_of_mem _ List.mem_cons_self)
    have hMpos : 0 < M := by rw [← hcM]; exact wc.met_pos
    have hcn : snapTotal M cur.snap ≤ snapTotal M n.snap :=
      snapTotal_le_of_le hMpos (sortedSnaps_head_le hs n List.mem_cons_self) (by rw [← hcM]; exact le_of_lt wc.beat_lt)
        wn.beat_nonneg
    have hcs : snapTotal M cur.snap ≤ snapTotal M s :=
      snapTotal_le_of_le hMpos hle (by rw [← hcM]; exact le_of_lt wc.beat_lt) hs0
    simp only [timeAtAux, closedSum]
    by_cases hn : n.snap.le s = true
    · have hns : snapTotal M n.snap ≤ snapTotal M s :=
        snapTotal_le_of_le hMpos hn (by rw [← hnM]; exact le_of_lt wn.beat_lt) hs0
      rw [if_pos hn, ih _ n (wfChanges_tail hwf) (sortedSnaps_tail hs) (fun c hc => hM c (List.mem_cons_of_mem _ hc)) hn]
      have : clampR (snapTotal M s) (snapTotal M cur.snap) (snapTotal M n.snap) = snapTotal M n.snap := by
        unfold clampR; rw [min_eq_right hns, max_eq_right hcn]
      rw [this, hcM]
      unfold snapDist snapTotal; push_cast; ring
    · rw [if_neg hn]
      have hsn : s.le n.snap = true := by
        rcases Snap.le_total s n.snap with h | h
        · exact h
        · exact absurd h hn
      have hsn' : snapTotal M s ≤ snapTotal M n.snap := snapTotal_le_of_le hMpos hsn (le_of_lt hsM) wn.beat_nonneg
      rw [closedSum_zero n rest _ (wfChanges_tail hwf) (sortedSnaps_tail hs)
        (fun c hc => hM c (List.mem_cons_of_mem _ hc)) hsn']
      have : clampR (snapTotal M s) (snapTotal M cur.snap) (snapTotal M n.snap) = snapTotal M s := by
        unfold clampR; rw [min_eq_left hsn', max_eq_right hcs]
      rw [this, hcM]
      unfold snapDist snapTotal; push_cast; ring

theorem timeAt_closed_form {M : Rat} (t0 : Rat) (c : BcSnap) (rest : List BcSnap) (s : Snap)
    (hwf : wfChanges (c :: rest) = true) (hs : sortedSnaps (c :: rest) = true)
    (hM : ∀ x ∈ c :: rest, x.met = M) (hq : queryOk (c :: rest) s = true) (hsM : s.beat < M) :
    timeAt t0 (c :: rest) s = t0 + closedSum M c rest (snapTotal M s) := by
  simp only [queryOk, Bool.and_eq_true, decide_eq_true_eq] at hq
  exact timeAtAux_closed_form t0 c rest s hwf hs hM hq.1 hq.2 hsM

end Reamber.Timing
