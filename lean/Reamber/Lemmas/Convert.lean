/-
C08 — helper lemmas about `mapE`, `setCol`, `castGo`.  Core Lean only.
-/
import Reamber.Model.Convert
import Reamber.Spec.Convert

namespace Reamber.Convert

theorem mapE_length {α β} (f : α → Except Err β) :
    ∀ (l : List α) (r : List β), mapE f l = .ok r → r.length = l.length
  | [], r, h => by
    simp only [mapE, Except.ok.injEq] at h
    subst h; rfl
  | a :: t, r, h => by
    simp only [mapE] at h
    split at h
    · cases h
    · split at h
      · cases h
      · rename_i r' hr
        simp only [Except.ok.injEq] at h
        subst h
        simp [mapE_length f t r' hr]

/-! ### `setCol` on a frame whose columns are `schema.map (name, g name-default-pair)` -/

theorem setCol_map (schema : List (String × Cell)) (g : String × Cell → List Cell) (to : String) (v : List Cell) :
    setCol (schema.map fun p => (p.1, g p)) to v
      = schema.map fun p => (p.1, if p.1 == to then v else g p) := by
  unfold setCol
  rw [List.map_map]
  apply List.map_congr_left
  intro p _
  simp only [Function.comp]
  split <;> rfl

/-- the value a positional mapping entry reads (`[]` for anything else; only used under `PosOnly`) -/
def colOf (src : Frame) : MapFrom → List Cell
  | .attr c => (src.col? c).getD []
  | _ => []

/-- the content of the target column `name` after the assignments of `mapping` ran in order, starting from `v0` -/
def valAfter (src : Frame) : List (String × MapFrom) → String → List Cell → List Cell
  | [], _, v0 => v0
  | (to, fr) :: rest, name, v0 => valAfter src rest name (if name == to then colOf src fr else v0)

/-- every entry is `to="from"` with `from` a column of the source -/
def PosOnly (src : Frame) (mapping : List (String × MapFrom)) : Prop :=
  ∀ p ∈ mapping, ∃ c, p.2 = MapFrom.attr c ∧ (src.col? c).isSome

theorem lookup_mem {β} (k : String) (v : β) : ∀ (l : List (String × β)), l.lookup k = some v → (k, v) ∈ l
  | [], h => by simp [List.lookup] at h
  | (k', v') :: t, h => by
    by_cases hk : k = k'
    · subst hk
      simp [List.lookup] at h
      subst h; simp
    · have : (k == k') = false := by simpa using hk
      simp only [List.lookup, this] at h
      exact List.mem_cons_of_mem _ (lookup_mem k v t h)

theorem col_length (src : Frame) (hwf : src.WF) (c : String) (v : List Cell) (h : src.col? c = some v) :
    v.length = src.index.length :=
  hwf (c, v) (lookup_mem c v src.cols h)

theorem castGo_exact (lists : List (String × Frame)) (src : Frame) (hwf : src.WF)
    (schema : List (String × Cell)) :
    ∀ (mapping : List (String × MapFrom)) (g : String × Cell → List Cell),
      PosOnly src mapping →
      castGo lists src mapping ⟨rangeIdx src.nrows, schema.map fun p => (p.1, g p)⟩
        = .ok ⟨rangeIdx src.nrows, schema.map fun p => (p.1, valAfter src mapping p.1 (g p))⟩
  | [], g, _ => by simp [castGo, valAfter]
  | (to, fr) :: rest, g, hp => by
    obtain ⟨c, hfr, hc⟩ := hp (to, fr) (by simp)
    simp only at hfr
    subst hfr
    obtain ⟨v, hv⟩ := Option.isSome_iff_exists.mp hc
    have hlen : v.length = (rangeIdx src.nrows).length := by
      rw [col_length src hwf c v hv]; simp [rangeIdx, Frame.nrows]
    simp only [castGo, evalFrom, hv, hlen, if_true]
    rw [setCol_map]
    have hrest : PosOnly src rest := fun p hp' => hp p (List.mem_cons_of_mem _ hp')
    rw [castGo_exact lists src hwf schema rest _ hrest]
    congr 2
    apply List.map_congr_left
    intro p _
    simp only [valAfter, colOf, hv, Option.getD_some]

/-- the index of the source (its row labels) plays no part in a positional entry -/
theorem evalFrom_attr_index (lists lists' : List (String × Frame)) (i1 i2 : List Int)
    (cols : List (String × List Cell)) (b : List Int) (c : String) :
    evalFrom lists ⟨i1, cols⟩ b (.attr c) = evalFrom lists' ⟨i2, cols⟩ b (.attr c) := rfl

theorem castGo_index_irrelevant (lists lists' : List (String × Frame)) (i1 i2 : List Int)
    (cols : List (String × List Cell)) :
    ∀ (mapping : List (String × MapFrom)) (b : Frame), (∀ p ∈ mapping, ∃ c, p.2 = MapFrom.attr c) →
      castGo lists ⟨i1, cols⟩ mapping b = castGo lists' ⟨i2, cols⟩ mapping b
  | [], _, _ => rfl
  | (to, fr) :: rest, b, hp => by
    obtain ⟨c, hfr⟩ := hp (to, fr) (by simp)
    simp only at hfr
    subst hfr
    simp only [castGo]
    rw [evalFrom_attr_index lists lists' i1 i2 cols b.index c]
    split
    · rfl
    · exact castGo_index_irrelevant lists lists' i1 i2 cols rest _ (fun p hp' => hp p (List.mem_cons_of_mem _ hp'))

/-! ### `valAfter` read back -/

theorem valAfter_not_mem (src : Frame) (name : String) :
    ∀ (mapping : List (String × MapFrom)) (v0 : List Cell), name ∉ mapping.map (·.1) →
      valAfter src mapping name v0 = v0
  | [], _, _ => rfl
  | (to, fr) :: rest, v0, h => by
    have h1 : name ≠ to := fun e => h (by simp [e])
    have h2 : name ∉ rest.map (·.1) := fun e => h (by simp [e])
    have : (name == to) = false := by simpa using h1
    simp only [valAfter, this]
    exact valAfter_not_mem src name rest v0 h2

theorem valAfter_nodup (src : Frame) (name : String) (c : String) :
    ∀ (mapping : List (String × MapFrom)) (v0 : List Cell), (mapping.map (·.1)).Nodup →
      (name, MapFrom.attr c) ∈ mapping → valAfter src mapping name v0 = (src.col? c).getD []
  | [], _, _, h => by simp at h
  | (to, fr) :: rest, v0, hnd, h => by
    simp only [List.map_cons, List.nodup_cons] at hnd
    simp only [List.mem_cons, Prod.mk.injEq] at h
    rcases h with ⟨h1, h2⟩ | h
    · subst h1; subst h2
      simp only [valAfter, beq_self_eq_true, if_true]
      rw [valAfter_not_mem src name rest _ hnd.1]
      rfl
    · have hne : name ≠ to := by
        intro e; subst e
        exact hnd.1 (List.mem_map.mpr ⟨(name, MapFrom.attr c), h, rfl⟩)
      have : (name == to) = false := by simpa using hne
      simp only [valAfter, this]
      exact valAfter_nodup src name c rest v0 hnd.2 h

/-! ### one column through `castGo`, whatever the other entries are -/

theorem setCol_names (cols : List (String × List Cell)) (t : String) (v : List Cell) :
    (setCol cols t v).map (·.1) = cols.map (·.1) := by
  unfold setCol
  rw [List.map_map]
  apply List.map_congr_left
  intro p _
  simp only [Function.comp]
  split <;> rfl

theorem setCol_cons (k : String) (x : List Cell) (rest : List (String × List Cell)) (t : String) (v : List Cell) :
    setCol ((k, x) :: rest) t v = (if (k == t) = true then (k, v) else (k, x)) :: setCol rest t v := rfl

theorem lookup_cons_eq {β} (to k : String) (b : β) (es : List (String × β)) (h : (to == k) = true) :
    List.lookup to ((k, b) :: es) = some b := by simp [List.lookup, h]

theorem lookup_cons_ne {β} (to k : String) (b : β) (es : List (String × β)) (h : (to == k) = false) :
    List.lookup to ((k, b) :: es) = es.lookup to := by simp [List.lookup, h]

theorem setCol_lookup_self (to : String) (v : List Cell) :
    ∀ (cols : List (String × List Cell)), to ∈ cols.map (·.1) → (setCol cols to v).lookup to = some v
  | [], h => by simp at h
  | (k, x) :: rest, h => by
    rw [setCol_cons]
    by_cases hk : k = to
    · subst hk
      rw [if_pos (by simp)]
      exact lookup_cons_eq k k v _ (by simp)
    · have h1 : (k == to) = false := by simpa using hk
      have h2 : (to == k) = false := by simpa using (fun e : to = k => hk e.symm)
      have hr : to ∈ rest.map (·.1) := by
        simp only [List.map_cons, List.mem_cons] at h
        rcases h with h | h
        · exact absurd h.symm hk
        · exact h
      rw [if_neg (by simp [h1]), lookup_cons_ne to k x _ h2]
      exact setCol_lookup_self to v rest hr

theorem setCol_lookup_ne (t to : String) (v : List Cell) (hne : (t == to) = false) :
    ∀ (cols : List (String × List Cell)), (setCol cols t v).lookup to = cols.lookup to
  | [] => rfl
  | (k, x) :: rest => by
    rw [setCol_cons]
    have ih := setCol_lookup_ne t to v hne rest
    by_cases hk : k = t
    · subst hk
      have h2 : (to == k) = false := by
        have : k ≠ to := by simpa using hne
        simpa using (fun e : to = k => this e.symm)
      rw [if_pos (by simp), lookup_cons_ne to k v _ h2, lookup_cons_ne to k x _ h2]
      exact ih
    · rw [if_neg (by simpa using hk)]
      by_cases h2 : (to == k) = true
      · rw [lookup_cons_eq to k x _ h2, lookup_cons_eq to k x _ h2]
      · have h2' : (to == k) = false := by simpa using h2
        rw [lookup_cons_ne to k x _ h2', lookup_cons_ne to k x _ h2']
        exact ih

/-- what a column must hold, given the last entry that named it so far -/
def ColInv (src b : Frame) (to : String) : Option MapFrom → Prop
  | some (.attr c) => b.col? to = src.col? c
  | _ => True

theorem castGo_col (lists : List (String × Frame)) (src : Frame) (to : String) :
    ∀ (mapping : List (String × MapFrom)) (b out : Frame) (acc : Option MapFrom),
      castGo lists src mapping b = .ok out → to ∈ b.names → ColInv src b to acc →
      ColInv src out to (lastFrom mapping to acc) ∧ out.index = b.index
  | [], b, out, acc, h, _, hinv => by
    simp only [castGo, Except.ok.injEq] at h
    subst h
    exact ⟨hinv, rfl⟩
  | (t, f) :: rest, b, out, acc, h, hmem, hinv => by
    simp only [castGo] at h
    split at h
    · cases h
    · rename_i v hv
      have hnames : to ∈ (Frame.mk b.index (setCol b.cols t v)).names := by
        simpa [Frame.names, setCol_names] using hmem
      have key : ColInv src ⟨b.index, setCol b.cols t v⟩ to (if t == to then some f else acc) := by
        by_cases ht : (t == to) = true
        · have : t = to := by simpa using ht
          subst this
          simp only [beq_self_eq_true, if_true]
          cases f with
          | attr c =>
            simp only [ColInv, Frame.col?]
            rw [setCol_lookup_self t v b.cols (by simpa [Frame.names] using hmem)]
            simp only [evalFrom] at hv
            split at hv
            · rename_i v' hv'
              split at hv
              · simp only [Except.ok.injEq] at hv
                subst hv
                simpa [Frame.col?] using hv'.symm
              · cases hv
            · cases hv
          | seriesStr _ _ => trivial
          | arrayStr _ _ => trivial
          | «opaque» _ => trivial
        · have ht' : (t == to) = false := by simpa using ht
          simp only [ht']
          cases acc with
          | none => trivial
          | some a =>
            cases a with
            | attr c =>
              simp only [ColInv, Frame.col?] at hinv ⊢
              rw [setCol_lookup_ne t to v ht' b.cols]
              exact hinv
            | seriesStr _ _ => trivial
            | arrayStr _ _ => trivial
            | «opaque» _ => trivial
      have := castGo_col lists src to rest ⟨b.index, setCol b.cols t v⟩ out _ h hnames key
      simpa [lastFrom] using this

end Reamber.Convert
