/-
C04 — assembling the reader's loop against the by-the-book denotation: the final state of the loop, lane by lane,
and the flattening of the lanes.
-/
import Reamber.Lemmas.BMSPair

namespace Reamber.BMS

open Reamber.Timing

/-- every lane of the file is in position order in the file (what D05 lacks) -/
def LanesInOrder (lay : Layout) (notes : List (Bytes × Bytes × Bytes)) : Prop :=
  ∀ lane ∈ lay.lanes, sortObjs (laneObjs notes lane.1) = laneObjs notes lane.1

theorem linesOk_of_guards (lay : Layout) (doc : Doc) (hdr : Header) (hg : guardsOk lay doc hdr = true) :
    linesOk lay.timeSig doc.notes ∧ 0 < hdr.bpm0 := by
  simp only [guardsOk, Bool.and_eq_true, Bool.not_eq_true', decide_eq_false_iff_not, List.any_eq_false,
    Bool.or_eq_true, Option.isNone_iff_eq_none, decide_eq_true_eq, not_or] at hg
  obtain ⟨⟨h1, h2⟩, h3⟩ := hg
  refine ⟨?_, not_le.mp h1⟩
  intro d hd
  have := h3 d hd
  refine ⟨?_, ?_, h2 d hd⟩
  · cases hm : parseNat d.1 with
    | none => exact absurd hm this.1
    | some m => exact ⟨m, rfl⟩
  · cases hp : evenPairs d.2.2 with
    | none => exact absurd hp this.2
    | some ps => exact ⟨ps, rfl⟩

/-- the `#LNOBJ` id as the reader keeps it (`b""` when absent) and as the format states it (absent / present)
select the same objects, ids being two characters long -/
theorem lnobj_iff (lnobj : Option Bytes) (o : Obj) (hid : o.id.length = 2) :
    (some o.id = lnobj ↔ o.id = lnobj.getD []) := by
  cases lnobj with
  | none =>
    simp only [Option.getD_none]
    constructor
    · intro h; cases h
    · intro h; rw [h] at hid; simp at hid
  | some x => simp

/-- **The loop, lane by lane.**  On a text with a meaning whose lanes are in position order in the file, the
reader's loop succeeds; every lane of the layout ends with exactly the by-the-book hits and holds of that lane (in
order), every other column is empty, and the tempo list is the header tempo followed by the tempo events. -/
theorem loop_final (lay : Layout) (hlay : LayoutOK lay) (doc : Doc) (hdr : Header)
    (hhdr : readHeader doc.header = .ok hdr) (hok : linesOk lay.timeSig doc.notes)
    (h3 : ∀ o ∈ laneObjs doc.notes lay.bpmCh, (tempoOfObj hdr.exbpms false o).isSome = true)
    (h8 : ∀ o ∈ laneObjs doc.notes lay.exbpmCh, (tempoOfObj hdr.exbpms true o).isSome = true)
    (PL : Bytes × Nat → List SHit × List SHold)
    (hPL : ∀ lane ∈ lay.lanes, pairLane (dictGet? doc.header "LNOBJ".toList) (fun id => (dictGet? hdr.samples id).getD [])
      lane.2 none (laneObjs doc.notes lane.1) = some (PL lane)) :
    ∃ st', foldlE applyEv (initSt hdr.bpm0) (events ⟨lay, hdr.lnEnd, hdr.exbpms, hdr.samples⟩ doc.notes) = .ok st' ∧
      (∀ lane ∈ lay.lanes, (st'.lanes lane.2).hits.reverse = (PL lane).1.map SHit.toHitS ∧
        (st'.lanes lane.2).holds.reverse = (PL lane).2.map SHold.toHoldS) ∧
      (∀ k, (∀ lane ∈ lay.lanes, lane.2 ≠ k) → st'.lanes k = ⟨[], []⟩) ∧
      st'.bcsRev.reverse = ⟨hdr.bpm0, defMet, ⟨0, 0, some defMet⟩⟩ ::
        tempoOf (events ⟨lay, hdr.lnEnd, hdr.exbpms, hdr.samples⟩ doc.notes) := by
  set ctx : Ctx := ⟨lay, hdr.lnEnd, hdr.exbpms, hdr.samples⟩ with hctx
  have hlnEnd := readHeader_fields doc.header hdr hhdr
  -- one lane
  have hlane : ∀ lane ∈ lay.lanes, laneFold ⟨[], []⟩ (laneEvs lane.2 (events ctx doc.notes)) =
      .ok ⟨((PL lane).1.map SHit.toHitS).reverse, ((PL lane).2.map SHold.toHoldS).reverse⟩ := by
    intro lane hl
    have hev := laneEvs_events ctx doc.notes hok hlay.inj lane.1 lane.2 (hlay.mem lane hl) (hlay.not_tempo lane hl)
    rw [hev]
    have hln : ∀ o ∈ laneObjs doc.notes lane.1, (some o.id = dictGet? doc.header "LNOBJ".toList ↔ o.id = hdr.lnEnd) := by
      intro o ho
      rw [hlnEnd]
      exact lnobj_iff _ o (laneObjs_pos doc.notes lane.1 o ho).2.2.2
    have := pairing_invariant (dictGet? doc.header "LNOBJ".toList) hdr.lnEnd (fun id => (dictGet? hdr.samples id).getD [])
      lane.2 (laneObjs doc.notes lane.1) hln none [] [] (PL lane).1 (PL lane).2 (by rw [hPL lane hl])
    simpa using this
  have hnone : ∀ k, (∀ lane ∈ lay.lanes, lane.2 ≠ k) → laneEvs k (events ctx doc.notes) = [] := by
    intro k hk
    apply laneEvs_events_none ctx doc.notes hok k
    intro ch hch
    exact hk (ch, k) (hlay.of_lane ch k hch) rfl
  -- the loop succeeds
  have hnb := events_no_bad ctx doc.notes hok hlay.tempo_ne h3 h8
  have hcol : ∀ c tl s p, Ev.note c tl s p ∈ events ctx doc.notes → c < maxKeys := by
    intro c tl s p he
    obtain ⟨ch, hch⟩ := events_note_col ctx doc.notes hok c tl s p he
    exact hlay.col_lt (ch, c) (hlay.of_lane ch c hch)
  have hall : ∀ k, ∃ l, laneFold ((initSt hdr.bpm0).lanes k) (laneEvs k (events ctx doc.notes)) = .ok l := by
    intro k
    by_cases hk : ∃ lane ∈ lay.lanes, lane.2 = k
    · obtain ⟨lane, hl, rfl⟩ := hk
      exact ⟨_, hlane lane hl⟩
    · have hk' : ∀ lane ∈ lay.lanes, lane.2 ≠ k := fun lane hl e => hk ⟨lane, hl, e⟩
      rw [hnone k hk']
      exact ⟨_, rfl⟩
  obtain ⟨st', hst'⟩ := foldlE_applyEv_ok (events ctx doc.notes) (initSt hdr.bpm0) hnb hcol hall
  refine ⟨st', hst', ?_, ?_, ?_⟩
  · intro lane hl
    have h1 := lanes_independent lane.2 _ _ _ hst'
    have h2 := hlane lane hl
    have : (initSt hdr.bpm0).lanes lane.2 = ⟨[], []⟩ := rfl
    rw [this, h2] at h1
    injection h1 with h1
    rw [← h1]
    simp
  · intro k hk
    have h1 := lanes_independent k _ _ _ hst'
    rw [hnone k hk] at h1
    simp only [laneFold] at h1
    injection h1 with h1
    rw [← h1]
    rfl
  · rw [bcsRev_final _ _ _ hst']
    simp [initSt]

/-! ### flattening -/

def HitOut.toD (h : HitOut) : DHit := ⟨h.col, h.sample, h.offset⟩
def HoldOut.toD (h : HoldOut) : DHold := ⟨h.col, h.sample, h.offset, h.length⟩

/-- the reader's flattened hits (column-major) are, up to order, the by-the-book hits lane by lane -/
theorem flatHits_perm (lay : Layout) (hlay : LayoutOK lay) (st' : St) (PL : Bytes × Nat → List SHit × List SHold)
    (T : Snap → Rat)
    (hl : ∀ lane ∈ lay.lanes, (st'.lanes lane.2).hits.reverse = (PL lane).1.map SHit.toHitS)
    (hcolH : ∀ lane ∈ lay.lanes, ∀ h ∈ (PL lane).1, h.col = lane.2)
    (hn : ∀ k, (∀ lane ∈ lay.lanes, lane.2 ≠ k) → st'.lanes k = ⟨[], []⟩) :
    ((flatHits st').map (fun p => (⟨p.1, p.2.sample, T p.2.snap⟩ : DHit))).Perm
      ((lay.lanes.flatMap (fun lane => (PL lane).1)).map (fun h => (⟨h.col, h.sample, T h.snap⟩ : DHit))) := by
  unfold flatHits
  rw [List.map_flatMap, List.map_flatMap]
  let G : Nat → List DHit := fun k => ((st'.lanes k).hits.reverse.map (fun h => (k, h))).map
    (fun p => (⟨p.1, p.2.sample, T p.2.snap⟩ : DHit))
  have hperm := flatMap_range_perm maxKeys lay.lanes G hlay.cols_nodup hlay.col_lt (by
    intro k hk
    simp [G, hn k hk])
  refine hperm.trans ?_
  apply List.Perm.of_eq
  apply flatMap_congr'
  intro lane hlane
  simp only [G, hl lane hlane, List.map_map]
  apply List.map_congr_left
  intro h hh
  simp [SHit.toHitS, hcolH lane hlane h hh]

theorem flatHolds_perm (lay : Layout) (hlay : LayoutOK lay) (st' : St) (PL : Bytes × Nat → List SHit × List SHold)
    (T : Snap → Rat)
    (hl : ∀ lane ∈ lay.lanes, (st'.lanes lane.2).holds.reverse = (PL lane).2.map SHold.toHoldS)
    (hcolL : ∀ lane ∈ lay.lanes, ∀ h ∈ (PL lane).2, h.col = lane.2)
    (hn : ∀ k, (∀ lane ∈ lay.lanes, lane.2 ≠ k) → st'.lanes k = ⟨[], []⟩) :
    ((flatHolds st').map (fun p => (⟨p.1, p.2.head.sample, T p.2.head.snap, T p.2.tail - T p.2.head.snap⟩ : DHold))).Perm
      ((lay.lanes.flatMap (fun lane => (PL lane).2)).map
        (fun h => (⟨h.col, h.sample, T h.head, T h.tail - T h.head⟩ : DHold))) := by
  unfold flatHolds
  rw [List.map_flatMap, List.map_flatMap]
  let G : Nat → List DHold := fun k => ((st'.lanes k).holds.reverse.map (fun h => (k, h))).map
    (fun p => (⟨p.1, p.2.head.sample, T p.2.head.snap, T p.2.tail - T p.2.head.snap⟩ : DHold))
  have hperm := flatMap_range_perm maxKeys lay.lanes G hlay.cols_nodup hlay.col_lt (by
    intro k hk
    simp [G, hn k hk])
  refine hperm.trans ?_
  apply List.Perm.of_eq
  apply flatMap_congr'
  intro lane hlane
  simp only [G, hl lane hlane, List.map_map]
  apply List.map_congr_left
  intro h hh
  simp [SHold.toHoldS, hcolL lane hlane h hh]

end Reamber.BMS
