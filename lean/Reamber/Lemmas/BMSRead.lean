/-
C04 — the level-wide bridge between the reader's line loop and the by-the-book objects:

  events of the reader on a well-formed file  =  the objects of `lineObjs`, line by line, each mapped through
  `objEvent` (what one object does to the reader's state)

and its consequences for one lane and for the tempo list.
-/
import Reamber.Lemmas.BMS
import Mathlib.Tactic.Ring
import Mathlib.Tactic.Linarith
import Mathlib.Algebra.Order.Field.Rat

namespace Reamber.BMS

open Reamber.Timing

/-- what one by-the-book object on channel `ch` does in the reader's loop -/
def objEvent (ctx : Ctx) (ch : Bytes) (o : Obj) : Option Ev :=
  if ch = ctx.layout.bpmCh || ch = ctx.layout.exbpmCh then
    let bpm? : Except Err Rat :=
      if ch = ctx.layout.bpmCh then
        match parseHex2 o.id with
        | some v => .ok ((v : Nat) : Rat)
        | none => .error (.timing .value)
      else
        match dictGet? ctx.exbpms o.id with
        | some v => .ok v
        | none => .error .key
    match bpm? with
    | .error e => some (.bad e)
    | .ok bpm =>
      if bpm ≤ 0 then some (.bad .unsupported)
      else some (.tempo ⟨bpm, defMet, ⟨o.snap.measure, o.snap.beat, some defMet⟩⟩)
  else
    match laneOf ctx.layout ch with
    | none => none
    | some col =>
      if o.id = ctx.lnEnd then some (.note col true [] o.snap)
      else some (.note col false ((dictGet? ctx.samples o.id).getD []) o.snap)

theorem defMet_eq : defMet = 4 := by decide +kernel

theorem filterMap_congr' {α β} {f g : α → Option β} : ∀ (l : List α), (∀ x ∈ l, f x = g x) → l.filterMap f = l.filterMap g
  | [], _ => rfl
  | a :: t, h => by
    simp only [List.filterMap_cons, h a (by simp)]
    rw [filterMap_congr' t (fun x hx => h x (by simp [hx]))]

theorem flatMap_congr' {α β} {f g : α → List β} : ∀ (l : List α), (∀ x ∈ l, f x = g x) → l.flatMap f = l.flatMap g
  | [], _ => rfl
  | a :: t, h => by
    simp only [List.flatMap_cons, h a (by simp)]
    rw [flatMap_congr' t (fun x hx => h x (by simp [hx]))]

theorem make_in_range (m : Nat) (b : Rat) (h0 : 0 ≤ b) (h4 : b < 4) :
    Snap.make (m : Int) b (some defMet) = .ok ⟨(m : Int), b, some defMet⟩ := by
  rw [defMet_eq]
  unfold Snap.make
  have hm : ¬ ((m : Int) < 0) := by omega
  have h1 : ¬ (b < 0 ∨ b ≥ 4) := by
    intro h; rcases h with h | h <;> linarith
  have h2 : ¬ (b < 0 ∨ (m : Int) < 0) := by
    intro h; rcases h with h | h
    · linarith
    · exact hm h
  have hb : ¬ b < 0 := by linarith
  have hb4 : ¬ b ≥ 4 := by linarith
  simp only [hm, if_false, hb, hb4, or_self]

/-- **One pair = one object.** The reader's treatment of pair `i` of `n` (a two-character, non-`00` pair) is
`objEvent` of the by-the-book object at beat `4·i/n`. -/
theorem pairEvent_eq_objEvent (ctx : Ctx) (m : Nat) (ch pair : Bytes) (n i : Nat) (hi : i < n)
    (hp : pair ≠ ['0', '0']) (hlen : pair.length = 2) :
    pairEvent ctx (m : Int) ch n i pair =
      objEvent ctx ch ⟨⟨(m : Int), 4 * ((i : Nat) : Rat) / ((n : Nat) : Rat), none⟩, pair⟩ := by
  have hn : n ≠ 0 := by omega
  have hnq : (0 : Rat) < ((n : Nat) : Rat) := by exact_mod_cast Nat.pos_of_ne_zero hn
  have hiq : ((i : Nat) : Rat) < ((n : Nat) : Rat) := by exact_mod_cast hi
  have hi0 : (0 : Rat) ≤ ((i : Nat) : Rat) := by exact_mod_cast Nat.zero_le i
  have hp1 : pair ≠ ['0'] := by
    intro h; rw [h] at hlen; simp at hlen
  have hbeat : ((i : Nat) : Rat) / ((n : Nat) : Rat) * defMet = 4 * ((i : Nat) : Rat) / ((n : Nat) : Rat) := by
    rw [defMet_eq]; ring
  have hb0 : 0 ≤ 4 * ((i : Nat) : Rat) / ((n : Nat) : Rat) := by apply div_nonneg <;> linarith
  have hb4 : 4 * ((i : Nat) : Rat) / ((n : Nat) : Rat) < 4 := by rw [div_lt_iff₀ hnq]; linarith
  unfold pairEvent objEvent
  simp only [hp, hp1, hn, hbeat, decide_false, Bool.or_self, Bool.false_eq_true, if_false, make_in_range m _ hb0 hb4]
  by_cases hc : (ch = ctx.layout.bpmCh || ch = ctx.layout.exbpmCh) = true
  · simp only [hc, if_true]
    by_cases hb : ch = ctx.layout.bpmCh
    · simp only [hb, if_true]
      cases parseHex2 pair <;> rfl
    · simp only [hb, if_false]
      cases dictGet? ctx.exbpms pair <;> rfl
  · simp only [hc, Bool.false_eq_true, if_false]
    cases laneOf ctx.layout ch <;> rfl

/-! ### lines -/

theorem evenPairs_spec : ∀ (seq : Bytes) (ps : List Bytes), evenPairs seq = some ps →
    pairsOf seq = ps ∧ seq.length / 2 = ps.length ∧ ∀ p ∈ ps, p.length = 2
  | [], ps, h => by
    simp only [evenPairs, Option.some.injEq] at h
    subst h
    simp [pairsOf]
  | [_], ps, h => by simp [evenPairs] at h
  | a :: b :: t, ps, h => by
    simp only [evenPairs, Option.map_eq_some_iff] at h
    obtain ⟨r, hr, rfl⟩ := h
    obtain ⟨h1, h2, h3⟩ := evenPairs_spec t r hr
    refine ⟨by simp [pairsOf, h1], ?_, ?_⟩
    · simp only [List.length_cons]
      omega
    · intro p hp
      rcases List.mem_cons.mp hp with rfl | hp
      · rfl
      · exact h3 p hp

theorem zipIdxFrom_mem {α} (l : List α) : ∀ (k : Nat) (p : Nat × α), p ∈ zipIdxFrom k l → k ≤ p.1 ∧ p.1 < k + l.length ∧ p.2 ∈ l := by
  induction l with
  | nil => intro k p hp; cases hp
  | cons a t ih =>
    intro k p hp
    simp only [zipIdxFrom, List.mem_cons] at hp
    rcases hp with rfl | hp
    · simp
    · obtain ⟨a1, a2, a3⟩ := ih (k + 1) p hp
      refine ⟨by omega, ?_, List.mem_cons_of_mem _ a3⟩
      simp only [List.length_cons]
      omega

/-- the objects of a well-formed line, from its pairs -/
def objsOfPairs (m : Nat) (ps : List Bytes) : List Obj :=
  (zipIdxFrom 0 ps).filterMap fun p =>
    if p.2 = ['0', '0'] then none
    else some ⟨⟨(m : Int), 4 * ((p.1 : Nat) : Rat) / ((ps.length : Nat) : Rat), none⟩, p.2⟩

theorem lineObjs_eq (m : Nat) (seq : Bytes) (ps : List Bytes) (h : evenPairs seq = some ps) :
    lineObjs m seq = some (objsOfPairs m ps) := by
  simp [lineObjs, h, objsOfPairs]

/-- **One line = its objects.** On a well-formed data line (numeric measure, an even number of characters, not
the time-signature channel) the reader's events are exactly the line's by-the-book objects mapped through
`objEvent`, in order. -/
theorem lineEvents_eq (ctx : Ctx) (mt ch seq : Bytes) (m : Nat) (ps : List Bytes)
    (hm : parseNat mt = some m) (hps : evenPairs seq = some ps) (hts : ch ≠ ctx.layout.timeSig) :
    lineEvents ctx (mt, ch, seq) = (objsOfPairs m ps).filterMap (objEvent ctx ch) := by
  obtain ⟨h1, h2, h3⟩ := evenPairs_spec seq ps hps
  unfold lineEvents objsOfPairs
  simp only [hm, hts, if_false, h1, h2]
  rw [List.filterMap_filterMap]
  apply filterMap_congr'
  intro p hp
  obtain ⟨_, hlt, hmem⟩ := zipIdxFrom_mem ps 0 p hp
  have hlen := h3 p.2 hmem
  by_cases h00 : p.2 = ['0', '0']
  · simp [h00, pairEvent]
  · simp only [h00, if_false, Option.bind_some]
    exact pairEvent_eq_objEvent ctx m ch p.2 ps.length p.1 (by omega) h00 hlen

/-- every data line is well-formed (what `denote` checks before it assigns a meaning) -/
def linesOk (timeSig : Bytes) (notes : List (Bytes × Bytes × Bytes)) : Prop :=
  ∀ d ∈ notes, (∃ m, parseNat d.1 = some m) ∧ (∃ ps, evenPairs d.2.2 = some ps) ∧ d.2.1 ≠ timeSig

/-- the objects of one line (`[]` for a malformed one) -/
def objsOfLine (d : Bytes × Bytes × Bytes) : List Obj :=
  match parseNat d.1, evenPairs d.2.2 with
  | some m, some ps => objsOfPairs m ps
  | _, _ => []

/-- **The level-wide bridge.** On a well-formed file the reader's event list is, line by line in file order,
the by-the-book objects of the line mapped through `objEvent`. -/
theorem events_eq (ctx : Ctx) (notes : List (Bytes × Bytes × Bytes)) (hok : linesOk ctx.layout.timeSig notes) :
    events ctx notes = notes.flatMap (fun d => (objsOfLine d).filterMap (objEvent ctx d.2.1)) := by
  unfold events
  apply flatMap_congr'
  intro d hd
  obtain ⟨⟨m, hm⟩, ⟨ps, hps⟩, hts⟩ := hok d hd
  obtain ⟨mt, ch, seq⟩ := d
  simp only at hm hps hts
  rw [lineEvents_eq ctx mt ch seq m ps hm hps hts]
  simp [objsOfLine, hm, hps]

/-! ### one lane -/

theorem laneEvs_append (k : Nat) (a b : List Ev) : laneEvs k (a ++ b) = laneEvs k a ++ laneEvs k b := by
  simp [laneEvs, List.filterMap_append]

theorem laneEvs_flatMap {α} (k : Nat) (f : α → List Ev) : ∀ l : List α, laneEvs k (l.flatMap f) = l.flatMap (fun a => laneEvs k (f a))
  | [] => rfl
  | a :: t => by simp only [List.flatMap_cons, laneEvs_append, laneEvs_flatMap k f t]

theorem flatMap_ite_filter {α β} (p : α → Bool) (g : α → List β) :
    ∀ l : List α, l.flatMap (fun a => if p a = true then g a else []) = (l.filter p).flatMap g
  | [] => rfl
  | a :: t => by
    by_cases h : p a = true
    · simp [List.flatMap_cons, h, flatMap_ite_filter p g t]
    · simp [List.flatMap_cons, h, flatMap_ite_filter p g t]

/-- the by-the-book objects of one channel, file order -/
def laneObjs (notes : List (Bytes × Bytes × Bytes)) (ch : Bytes) : List Obj :=
  (notes.filter (fun d => d.2.1 = ch)).flatMap objsOfLine

theorem allSome_map_some {α} : ∀ l : List α, allSome (l.map some) = some l
  | [] => rfl
  | a :: t => by simp [allSome, allSome_map_some t]

theorem allSome_congr {α β} (f : α → Option β) (g : α → β) : ∀ l : List α, (∀ a ∈ l, f a = some (g a)) →
    allSome (l.map f) = some (l.map g)
  | [], _ => rfl
  | a :: t, h => by
    simp only [List.map_cons, h a (by simp), allSome, allSome_congr f g t (fun x hx => h x (by simp [hx])), Option.map_some]

/-- on a well-formed file `channelObjs` is defined and lists the channel's objects line by line -/
theorem channelObjs_eq (ts : Bytes) (notes : List (Bytes × Bytes × Bytes)) (hok : linesOk ts notes) (ch : Bytes) :
    channelObjs notes ch = some (laneObjs notes ch) := by
  unfold channelObjs laneObjs
  rw [allSome_congr _ objsOfLine]
  · simp [List.flatMap]
  · intro d hd
    obtain ⟨⟨m, hm⟩, ⟨ps, hps⟩, _⟩ := hok d (List.mem_filter.mp hd).1
    simp [objsOfLine, hm, hps, lineObjs_eq m d.2.2 ps hps]

/-- channel ↦ column is injective on the layout (from `Layout.wellFormed`: the columns are pairwise different) -/
def LaneInj (lay : Layout) : Prop := ∀ ch ch' col, laneOf lay ch = some col → laneOf lay ch' = some col → ch = ch'

theorem laneEvs_objEvent_same (ctx : Ctx) (ch : Bytes) (col : Nat) (hl : laneOf ctx.layout ch = some col)
    (hnt : (ch = ctx.layout.bpmCh || ch = ctx.layout.exbpmCh) = false) (os : List Obj) :
    laneEvs col (os.filterMap (objEvent ctx ch)) =
      os.map (objEv ctx.lnEnd (fun id => (dictGet? ctx.samples id).getD [])) := by
  induction os with
  | nil => rfl
  | cons o t ih =>
    have : objEvent ctx ch o = some (if o.id = ctx.lnEnd then Ev.note col true [] o.snap
        else Ev.note col false ((dictGet? ctx.samples o.id).getD []) o.snap) := by
      unfold objEvent
      simp only [hnt, Bool.false_eq_true, if_false, hl]
      split <;> rfl
    simp only [List.filterMap_cons, this, List.map_cons]
    have ih' := ih
    simp only [laneEvs] at ih' ⊢
    by_cases hln : o.id = ctx.lnEnd
    · simp only [hln, if_true, List.filterMap_cons, objEv, decide_true]
      rw [ih']
    · simp only [hln, if_false, List.filterMap_cons, objEv, decide_false]
      rw [ih']
      simp

theorem laneEvs_objEvent_other (ctx : Ctx) (hinj : LaneInj ctx.layout) (ch ch' : Bytes) (col : Nat)
    (hl : laneOf ctx.layout ch = some col) (hne : ch' ≠ ch) (os : List Obj) :
    laneEvs col (os.filterMap (objEvent ctx ch')) = [] := by
  induction os with
  | nil => rfl
  | cons o t ih =>
    simp only [List.filterMap_cons]
    cases he : objEvent ctx ch' o with
    | none => simpa using ih
    | some e =>
      simp only []
      have hno : ∀ c tl s p, e = Ev.note c tl s p → c ≠ col := by
        intro c tl s p hep hc
        subst hc
        unfold objEvent at he
        by_cases ht : (ch' = ctx.layout.bpmCh || ch' = ctx.layout.exbpmCh) = true
        · simp only [ht, if_true] at he
          rw [hep] at he
          split at he
          · cases he
          · split at he <;> cases he
        · simp only [ht, Bool.false_eq_true, if_false] at he
          cases hl' : laneOf ctx.layout ch' with
          | none => simp [hl'] at he
          | some c' =>
            simp only [hl'] at he
            have hc' : c' = c := by
              rw [hep] at he
              split at he <;> (injection he with he; injection he with h1)
            subst hc'
            exact hne (hinj ch' ch c' hl' hl)
      have : laneEvs col [e] = [] := by
        cases e with
        | bad _ => rfl
        | tempo _ => rfl
        | note c tl s p =>
          have := hno c tl s p rfl
          simp [laneEvs, this]
      have hcons : laneEvs col (e :: t.filterMap (objEvent ctx ch')) = laneEvs col [e] ++ laneEvs col (t.filterMap (objEvent ctx ch')) := by
        rw [← laneEvs_append]; rfl
      rw [hcons, this, ih]
      rfl

/-- **A lane's events are that lane's objects**, level-wide: on a well-formed file, for a lane `(ch, col)` of an
injective layout, what lane `col` of the reader sees is exactly the by-the-book objects of channel `ch` in file
order (LNOBJ flag, sample of the id, position). -/
theorem laneEvs_events (ctx : Ctx) (notes : List (Bytes × Bytes × Bytes)) (hok : linesOk ctx.layout.timeSig notes)
    (hinj : LaneInj ctx.layout) (ch : Bytes) (col : Nat) (hl : laneOf ctx.layout ch = some col)
    (hnt : (ch = ctx.layout.bpmCh || ch = ctx.layout.exbpmCh) = false) :
    laneEvs col (events ctx notes) =
      (laneObjs notes ch).map (objEv ctx.lnEnd (fun id => (dictGet? ctx.samples id).getD [])) := by
  rw [events_eq ctx notes hok, laneEvs_flatMap]
  have : ∀ d ∈ notes, laneEvs col ((objsOfLine d).filterMap (objEvent ctx d.2.1)) =
      (if (decide (d.2.1 = ch)) = true then (objsOfLine d).map (objEv ctx.lnEnd (fun id => (dictGet? ctx.samples id).getD [])) else []) := by
    intro d _
    by_cases hd : d.2.1 = ch
    · simp only [hd, decide_true, if_true]
      exact laneEvs_objEvent_same ctx ch col hl hnt _
    · simp only [hd, decide_false, Bool.false_eq_true, if_false]
      exact laneEvs_objEvent_other ctx hinj ch d.2.1 col hl hd _
  rw [flatMap_congr' notes this, flatMap_ite_filter]
  simp [laneObjs, List.map_flatMap]

/-- a column that is no lane of the layout sees nothing -/
theorem laneEvs_events_none (ctx : Ctx) (notes : List (Bytes × Bytes × Bytes)) (hok : linesOk ctx.layout.timeSig notes)
    (k : Nat) (hk : ∀ ch, laneOf ctx.layout ch ≠ some k) : laneEvs k (events ctx notes) = [] := by
  rw [events_eq ctx notes hok, laneEvs_flatMap]
  have : ∀ d ∈ notes, laneEvs k ((objsOfLine d).filterMap (objEvent ctx d.2.1)) = [] := by
    intro d _
    generalize objsOfLine d = os
    induction os with
    | nil => rfl
    | cons o t ih =>
      simp only [List.filterMap_cons]
      cases he : objEvent ctx d.2.1 o with
      | none => simpa using ih
      | some e =>
        simp only []
        have hcons : laneEvs k (e :: t.filterMap (objEvent ctx d.2.1)) = laneEvs k [e] ++ laneEvs k (t.filterMap (objEvent ctx d.2.1)) := by
          rw [← laneEvs_append]; rfl
        rw [hcons, ih]
        cases e with
        | bad _ => rfl
        | tempo _ => rfl
        | note c tl s p =>
          have hck : c ≠ k := by
            intro hc
            subst hc
            unfold objEvent at he
            by_cases ht : (d.2.1 = ctx.layout.bpmCh || d.2.1 = ctx.layout.exbpmCh) = true
            · simp only [ht, if_true] at he
              split at he
              · cases he
              · split at he <;> cases he
            · simp only [ht, Bool.false_eq_true, if_false] at he
              cases hl' : laneOf ctx.layout d.2.1 with
              | none => simp [hl'] at he
              | some c' =>
                simp only [hl'] at he
                have hc' : c' = c := by
                  split at he <;> (injection he with he; injection he with h1)
                subst hc'
                exact hk d.2.1 hl'
          simp [laneEvs, hck]
  rw [flatMap_congr' notes this]
  simp

end Reamber.BMS
