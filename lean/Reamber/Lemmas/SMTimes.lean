/-
C02 — from positions to milliseconds: every position the reader stores is in its `snap_set`; the
`snap_mapping` dictionary built from the (deduplicated, arbitrarily ordered) set returns for every stored position
the value the timing kernel computed for it.  Core Lean only.
-/
import Reamber.Lemmas.SMDefs

namespace Reamber.SM

open Reamber.Timing

/-! ### `Snap.__eq__` is an equivalence -/

theorem eqv_iff (a b : Snap) : a.eqv b = true ↔ a.measure = b.measure ∧ a.beat = b.beat := by
  simp [Snap.eqv]

theorem eqv_refl (a : Snap) : a.eqv a = true := by simp [Snap.eqv]

theorem eqv_symm {a b : Snap} (h : a.eqv b = true) : b.eqv a = true := by
  rw [eqv_iff] at *; exact ⟨h.1.symm, h.2.symm⟩

theorem eqv_trans {a b c : Snap} (h1 : a.eqv b = true) (h2 : b.eqv c = true) : a.eqv c = true := by
  rw [eqv_iff] at *; exact ⟨h1.1.trans h2.1, h1.2.trans h2.2⟩

/-- a function of positions that only looks at (measure, beat) — e.g. `timeAt t0 cs` -/
def RespectsEqv (F : Snap → Rat) : Prop := ∀ x s, x.eqv s = true → F x = F s

theorem timeAtAux_respects (T : Rat) (c : BcSnap) (rest : List BcSnap) (x s : Snap) (h : x.eqv s = true) :
    timeAtAux T c rest x = timeAtAux T c rest s := by
  rw [eqv_iff] at h
  induction rest generalizing T c with
  | nil => simp [timeAtAux, snapDist, h.1, h.2]
  | cons n r ih =>
    have hle : n.snap.le x = n.snap.le s := by simp [Snap.le, Snap.lt, Snap.eqv, h.1, h.2]
    simp only [timeAtAux, hle]
    split
    · exact ih _ _
    · simp [snapDist, h.1, h.2]

theorem timeAt_respects (t0 : Rat) (cs : List BcSnap) : RespectsEqv (timeAt t0 cs) := by
  intro x s h
  cases cs with
  | nil => rfl
  | cons c rest => exact timeAtAux_respects t0 c rest x s h

/-! ### the dictionary `{k: v for k, v in zip(snap_set, tm.offsets(snap_set))}` -/

theorem dedup_rep (qs : List Snap) (s : Snap) (h : s ∈ qs) : ∃ x ∈ dedupSnaps qs, x.eqv s = true := by
  induction qs with
  | nil => cases h
  | cons a t ih =>
    simp only [dedupSnaps]
    rcases List.mem_cons.mp h with rfl | ht
    · exact ⟨s, by simp, eqv_refl s⟩
    · obtain ⟨x, hx, hxs⟩ := ih ht
      by_cases hxa : x.eqv a = true
      · exact ⟨a, by simp, eqv_trans (eqv_symm hxa) hxs⟩
      · refine ⟨x, ?_, hxs⟩
        apply List.mem_cons_of_mem
        rw [List.mem_filter]
        exact ⟨hx, by simpa using hxa⟩

theorem timeOf_zip_map (F : Snap → Rat) (hF : RespectsEqv F) (L : List Snap) (s : Snap)
    (h : ∃ x ∈ L, x.eqv s = true) : timeOf (L.zip (L.map F)) s = F s := by
  induction L with
  | nil => obtain ⟨x, hx, _⟩ := h; cases hx
  | cons a t ih =>
    unfold timeOf
    simp only [List.map_cons, List.zip_cons_cons, List.find?_cons]
    by_cases ha : a.eqv s = true
    · simp [ha, hF a s ha]
    · simp only [ha]
      obtain ⟨x, hx, hxs⟩ := h
      rcases List.mem_cons.mp hx with rfl | hxt
      · exact absurd hxs ha
      · have := ih ⟨x, hxt, hxs⟩
        unfold timeOf at this
        exact this

/-! ### every stored position is in `snap_set` -/

/-- all positions held by the loop state are in `seen` -/
def PosIn (st : PState) : Prop :=
  (∀ p ∈ st.taps, p.pos ∈ st.seen) ∧
  (∀ l ∈ st.holds, l.head ∈ st.seen ∧ ∀ t, l.tail = some t → t ∈ st.seen) ∧
  (∀ l ∈ st.rolls, l.head ∈ st.seen ∧ ∀ t, l.tail = some t → t ∈ st.seen)

theorem closeLast_mem {col : Nat} {t : Snap} {l l' : List PLong} (h : closeLast col t l = some l') :
    ∀ x ∈ l', x ∈ l ∨ ∃ y ∈ l, x = { y with tail := some t } := by
  induction l generalizing l' with
  | nil => simp [closeLast] at h
  | cons a r ih =>
    unfold closeLast at h
    split at h
    · split at h
      · cases h
        intro x hx
        rcases List.mem_cons.mp hx with rfl | hx
        · exact Or.inr ⟨a, by simp, rfl⟩
        · exact Or.inl (List.mem_cons_of_mem _ hx)
      · cases h
    · cases hr : closeLast col t r with
      | none => simp [hr] at h
      | some r' =>
        simp [hr] at h
        subst h
        intro x hx
        rcases List.mem_cons.mp hx with rfl | hx
        · exact Or.inl (by simp)
        · rcases ih hr x hx with h1 | ⟨y, hy, rfl⟩
          · exact Or.inl (List.mem_cons_of_mem _ h1)
          · exact Or.inr ⟨y, List.mem_cons_of_mem _ hy, rfl⟩

theorem longs_posIn_close {seen : List Snap} {col : Nat} {sn : Snap} {l l' : List PLong}
    (h : closeLast col sn l = some l')
    (hl : ∀ x ∈ l, x.head ∈ seen ∧ ∀ t, x.tail = some t → t ∈ seen) :
    ∀ x ∈ l', x.head ∈ sn :: seen ∧ ∀ t, x.tail = some t → t ∈ sn :: seen := by
  intro x hx
  rcases closeLast_mem h x hx with h1 | ⟨y, hy, rfl⟩
  · exact ⟨List.mem_cons_of_mem _ (hl x h1).1, fun t ht => List.mem_cons_of_mem _ ((hl x h1).2 t ht)⟩
  · refine ⟨List.mem_cons_of_mem _ (hl y hy).1, ?_⟩
    intro t ht
    simp at ht
    subst ht
    simp

theorem longs_posIn_mono {seen : List Snap} {sn : Snap} {l : List PLong}
    (hl : ∀ x ∈ l, x.head ∈ seen ∧ ∀ t, x.tail = some t → t ∈ seen) :
    ∀ x ∈ l, x.head ∈ sn :: seen ∧ ∀ t, x.tail = some t → t ∈ sn :: seen :=
  fun x hx => ⟨List.mem_cons_of_mem _ (hl x hx).1, fun t ht => List.mem_cons_of_mem _ ((hl x hx).2 t ht)⟩

theorem charStep_posIn {st st' : PState} {col : Nat} {ch : Char} {sn : Snap}
    (h : charStep st col ch sn = .ok st') (hp : PosIn st) : PosIn st' := by
  obtain ⟨ht, hh, hr⟩ := hp
  have ht' : ∀ p ∈ st.taps, p.pos ∈ sn :: st.seen := fun p hp => List.mem_cons_of_mem _ (ht p hp)
  have hh' := longs_posIn_mono (sn := sn) hh
  have hr' := longs_posIn_mono (sn := sn) hr
  have tapCase : ∀ k : Kind, PosIn { st with seen := sn :: st.seen, taps := ⟨k, col, sn⟩ :: st.taps } := by
    intro k
    refine ⟨?_, hh', hr'⟩
    intro p hp
    rcases List.mem_cons.mp hp with rfl | hp
    · simp
    · exact ht' p hp
  unfold charStep at h
  split at h
  · cases h; exact ⟨ht, hh, hr⟩
  · simp only at h
    repeat' split at h
    all_goals first
      | (cases h; exact tapCase _)
      | (cases h
         refine ⟨ht', ?_, hr'⟩
         intro x hx
         rcases List.mem_cons.mp hx with rfl | hx
         · exact ⟨by simp, by simp⟩
         · exact hh' x hx)
      | (cases h
         refine ⟨ht', hh', ?_⟩
         intro x hx
         rcases List.mem_cons.mp hx with rfl | hx
         · exact ⟨by simp, by simp⟩
         · exact hr' x hx)
      | (cases h; exact ⟨ht', hh', hr'⟩)
      | (rename_i hc; cases h; exact ⟨ht', longs_posIn_close hc hh, hr'⟩)
      | (rename_i hc; cases h; exact ⟨ht', hh', longs_posIn_close hc hr⟩)
      | cases h

theorem runEvents_posIn (evs : List Ev) (st st' : PState) (h : runEvents evs st = .ok st') (hp : PosIn st) :
    PosIn st' := by
  induction evs generalizing st with
  | nil => simp [runEvents, foldlE] at h; subst h; exact hp
  | cons e t ih =>
    simp only [runEvents, foldlE] at h
    cases hc : charStep st e.col e.ch e.pos with
    | error err => simp [hc] at h
    | ok st1 =>
      simp only [hc] at h
      exact ih st1 h (charStep_posIn hc hp)

theorem posIn_init : PosIn {} := by simp [PosIn]

/-! ### `_expand` / `_expand_hold` through the dictionary = directly through the timing function -/

theorem mapER_congr {ε α β} (f g : α → Except ε β) (l : List α) (h : ∀ a ∈ l, f a = g a) : mapER f l = mapER g l := by
  induction l with
  | nil => rfl
  | cons a t ih =>
    simp only [mapER]
    rw [h a (by simp), ih (fun x hx => h x (by simp [hx]))]

theorem expandWith_congr (f g : Snap → Rat) (st : PState) (hp : PosIn st) (h : ∀ s ∈ st.seen, f s = g s) :
    expandWith f st = expandWith g st := by
  obtain ⟨ht, hh, hr⟩ := hp
  have hlong : ∀ (k : Kind) (l : List PLong), (∀ x ∈ l, x.head ∈ st.seen ∧ ∀ t, x.tail = some t → t ∈ st.seen) →
      mapER (longNote k f) l.reverse = mapER (longNote k g) l.reverse := by
    intro k l hl
    apply mapER_congr
    intro p hpm
    have hpl : p ∈ l := by simpa using hpm
    unfold longNote
    cases hpt : p.tail with
    | none => rfl
    | some t => simp only []; rw [h _ (hl p hpl).1, h _ ((hl p hpl).2 t hpt)]
  have htaps : st.taps.reverse.map (fun p => (⟨p.kind, p.col, f p.pos, 0⟩ : Note)) =
      st.taps.reverse.map (fun p => (⟨p.kind, p.col, g p.pos, 0⟩ : Note)) := by
    apply List.map_congr_left
    intro p hpm
    have : p ∈ st.taps := by simpa using hpm
    rw [h _ (ht p this)]
  unfold expandWith
  rw [hlong .hold st.holds hh, hlong .roll st.rolls hr, htaps]

/-- **The dictionary lookup is transparent**: with the table built from the deduplicated `snap_set` (in any
order `L` that keeps a representative of every stored position) and the kernel's answers `L.map F`, the
expanded notes are the stored positions mapped through `F`. -/
theorem expandNotes_eq (F : Snap → Rat) (hF : RespectsEqv F) (st : PState) (hp : PosIn st) (L : List Snap)
    (hL : ∀ s ∈ st.seen, ∃ x ∈ L, x.eqv s = true) :
    expandNotes (L.zip (L.map F)) st = expandWith F st :=
  expandWith_congr _ _ st hp (fun s hs => timeOf_zip_map F hF L s (hL s hs))

end Reamber.SM
