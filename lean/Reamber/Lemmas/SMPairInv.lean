/-
C03 — inverse of the pairing refinement: the events of a set of notes (taps; holds/rolls that do not overlap within a
column), listed in strictly ascending (beat, column) order, are paired by the StepMania rule (`pairAll`) into exactly
those notes.  Induction over the sorted event stream; invariant: the open heads are the longs whose head has been
seen and whose tail has not.  -/
import Reamber.Lemmas.SMDefs
import Mathlib.Tactic.Linarith
import Mathlib.Algebra.Order.Field.Rat

namespace Reamber.SM

open Reamber.Timing

abbrev SEv := Nat × Rat × Sym

/-- the events a note contributes -/
def evOf (n : DNote) : List SEv :=
  match n.endBeat with
  | none => [(n.col, n.beat, .tap n.kind)]
  | some e => [(n.col, n.beat, .head n.kind), (n.col, e, .tail)]

/-- an open long: (column, kind, head beat, tail beat) -/
abbrev OE := Nat × Kind × Rat × Rat

def tailEv (o : OE) : SEv := (o.1, o.2.2.2, .tail)
def openEntry (o : OE) : Nat × Kind × Rat := (o.1, o.2.1, o.2.2.1)
def closedNote (o : OE) : DNote := ⟨o.2.1, o.1, o.2.2.1, some o.2.2.2⟩

/-- strict (beat, column) order — the order in which a grid is read -/
def ltEv (a b : SEv) : Prop := a.2.1 < b.2.1 ∨ (a.2.1 = b.2.1 ∧ a.1 < b.1)

/-- two longs of one column do not overlap (nor touch) -/
def NoOverlap (n n' : DNote) : Prop :=
  ∀ e e', n.endBeat = some e → n'.endBeat = some e' → n.col = n'.col → e < n'.beat ∨ e' < n.beat

theorem noOverlap_symm {n n' : DNote} (h : NoOverlap n n') : NoOverlap n' n :=
  fun e e' h1 h2 hc => (h e' e h2 h1 hc.symm).symm

def stepEv (p : Pair) (e : SEv) : Pair := pairStep p e.1 e.2.1 e.2.2

theorem pairwise_erase_rel {α} [DecidableEq α] {R : α → α → Prop} (hs : ∀ a b, R a b → R b a) :
    ∀ (l : List α), l.Pairwise R → ∀ a ∈ l, ∀ b ∈ l.erase a, R a b := by
  intro l
  induction l with
  | nil => intro _ a ha; cases ha
  | cons x t ih =>
    intro hp a ha b hb
    rw [List.pairwise_cons] at hp
    by_cases hxa : x = a
    · subst hxa
      rw [List.erase_cons_head] at hb
      exact hp.1 b hb
    · rw [List.erase_cons_tail (by simpa using hxa)] at hb
      have hat : a ∈ t := by
        rcases List.mem_cons.mp ha with h | h
        · exact absurd h.symm hxa
        · exact h
      rcases List.mem_cons.mp hb with rfl | hb
      · exact hs _ _ (hp.1 a hat)
      · exact ih hp.2 a hat b hb

theorem lookup_openEntry : ∀ (O : List OE), (O.map (·.1)).Nodup → ∀ o ∈ O,
    (O.map openEntry).lookup o.1 = some (o.2.1, o.2.2.1) := by
  intro O
  induction O with
  | nil => intro _ o ho; cases ho
  | cons x t ih =>
    intro hnd o ho
    rw [List.map_cons, List.nodup_cons] at hnd
    rcases List.mem_cons.mp ho with rfl | hot
    · simp [openEntry, List.lookup_cons]
    · have hne : o.1 ≠ x.1 := by
        intro h
        exact hnd.1 (List.mem_map.mpr ⟨o, hot, h⟩)
      have hb : (o.1 == x.1) = false := by simpa using hne
      simp only [List.map_cons, openEntry, List.lookup_cons, hb]
      exact ih hnd.2 o hot

theorem lookup_openEntry_none (O : List OE) (c : Nat) (h : ∀ o ∈ O, o.1 ≠ c) : (O.map openEntry).lookup c = none := by
  induction O with
  | nil => rfl
  | cons x t ih =>
    have hb : (c == x.1) = false := by simpa using (h x (by simp)).symm
    simp only [List.map_cons, openEntry, List.lookup_cons, hb]
    exact ih (fun o ho => h o (List.mem_cons_of_mem _ ho))

theorem filter_openEntry (O : List OE) (c : Nat) :
    (O.map openEntry).filter (fun e => e.1 != c) = (O.filter (fun o => o.1 != c)).map openEntry := by
  induction O with
  | nil => rfl
  | cons x t ih =>
    by_cases h : (x.1 != c) = true
    · simp only [List.map_cons, List.filter_cons, openEntry, h, if_true, List.map_cons] at ih ⊢
      rw [ih]
    · simp only [List.map_cons, List.filter_cons, openEntry, h] at ih ⊢
      simpa using ih

theorem perm_cons_filter_col : ∀ (O : List OE), (O.map (·.1)).Nodup → ∀ o ∈ O,
    O.Perm (o :: O.filter (fun x => x.1 != o.1)) := by
  intro O
  induction O with
  | nil => intro _ o ho; cases ho
  | cons x t ih =>
    intro hnd o ho
    rw [List.map_cons, List.nodup_cons] at hnd
    rcases List.mem_cons.mp ho with rfl | hot
    · have : t.filter (fun x => x.1 != o.1) = t := by
        rw [List.filter_eq_self]
        intro y hy
        have : y.1 ≠ o.1 := fun h => hnd.1 (List.mem_map.mpr ⟨y, hy, h⟩)
        simpa using this
      simp [List.filter_cons, this]
    · have hne : x.1 ≠ o.1 := fun h => hnd.1 (List.mem_map.mpr ⟨o, hot, h.symm⟩)
      have hb : (x.1 != o.1) = true := by simpa using hne
      simp only [List.filter_cons, hb, if_true]
      exact (List.Perm.cons x (ih hnd.2 o hot)).trans (List.Perm.swap _ _ _)

theorem nodup_filter_col (O : List OE) (c : Nat) (h : (O.map (·.1)).Nodup) :
    ((O.filter (fun x => x.1 != c)).map (·.1)).Nodup :=
  (List.Sublist.map _ List.filter_sublist).nodup h

theorem evOf_ne_nil (n : DNote) : evOf n ≠ [] := by
  unfold evOf; cases n.endBeat <;> simp

theorem flatMap_evOf_perm_erase (N : List DNote) (n : DNote) (hn : n ∈ N) :
    (N.flatMap evOf).Perm (evOf n ++ (N.erase n).flatMap evOf) := by
  have := (List.perm_cons_erase hn).flatMap_right evOf
  simpa [List.flatMap_cons] using this

/-- **Pairing, inverse direction** (generalised over the loop state). -/
theorem pair_inv_aux : ∀ (evs : List SEv) (N : List DNote) (O : List OE) (p : Pair),
    p.ok = true → p.opened = O.map openEntry → (O.map (·.1)).Nodup →
    evs.Pairwise ltEv → evs.Perm (N.flatMap evOf ++ O.map tailEv) →
    (∀ n ∈ N, ∀ e, n.endBeat = some e → n.beat < e) →
    N.Pairwise NoOverlap →
    (∀ o ∈ O, ∀ n ∈ N, ∀ e, n.endBeat = some e → n.col = o.1 → o.2.2.2 < n.beat) →
    (evs.foldl stepEv p).ok = true ∧ (evs.foldl stepEv p).opened = [] ∧
      (evs.foldl stepEv p).notes.Perm (p.notes ++ (N ++ O.map closedNote)) := by
  intro evs
  induction evs with
  | nil =>
    intro N O p hok hop _ _ hperm _ _ _
    have hnil := hperm.symm.eq_nil
    rw [List.append_eq_nil_iff] at hnil
    have hO : O = [] := by simpa using hnil.2
    have hN : N = [] := by
      cases N with
      | nil => rfl
      | cons n t =>
        have := hnil.1
        simp only [List.flatMap_cons, List.append_eq_nil_iff] at this
        exact absurd this.1 (evOf_ne_nil n)
    subst hO hN
    simp only [List.foldl_nil, List.map_nil, List.append_nil]
    exact ⟨hok, by simpa using hop, List.Perm.refl _⟩
  | cons e0 rest ih =>
    intro N O p hok hop hnd hsort hperm hlen hno hon
    rw [List.pairwise_cons] at hsort
    obtain ⟨hfirst, hsrest⟩ := hsort
    have hmem : e0 ∈ N.flatMap evOf ++ O.map tailEv := hperm.mem_iff.mp (by simp)
    simp only [List.foldl_cons]
    rcases List.mem_append.mp hmem with hN | hO
    · -- the first event belongs to a note of N
      obtain ⟨n, hn, hen⟩ := List.mem_flatMap.mp hN
      have hp1 := (hperm.trans (List.Perm.append_right _ (flatMap_evOf_perm_erase N n hn)))
      have hno' : (N.erase n).Pairwise NoOverlap := hno.sublist List.erase_sublist
      have hlen' : ∀ m ∈ N.erase n, ∀ e, m.endBeat = some e → m.beat < e :=
        fun m hm => hlen m (List.mem_of_mem_erase hm)
      cases hend : n.endBeat with
      | none =>
        -- a tap
        simp only [evOf, hend, List.mem_singleton] at hen
        subst hen
        simp only [evOf, hend, List.singleton_append, List.cons_append] at hp1
        have hrest := List.Perm.cons_inv hp1
        have hstep : stepEv p (n.col, n.beat, Sym.tap n.kind) =
            { p with notes := ⟨n.kind, n.col, n.beat, none⟩ :: p.notes } := rfl
        rw [hstep]
        obtain ⟨h1, h2, h3⟩ := ih (N.erase n) O { p with notes := ⟨n.kind, n.col, n.beat, none⟩ :: p.notes } hok hop hnd hsrest hrest hlen' hno'
          (fun o ho m hm => hon o ho m (List.mem_of_mem_erase hm))
        refine ⟨h1, h2, h3.trans ?_⟩
        have hn' : (⟨n.kind, n.col, n.beat, none⟩ : DNote) = n := by
          cases n; simp_all
        simp only [hn', List.cons_append]
        refine List.perm_middle.symm.trans ?_
        apply List.Perm.append_left
        exact List.Perm.append_right _ (List.perm_cons_erase hn).symm
      | some e =>
        simp only [evOf, hend, List.mem_cons, List.mem_singleton, List.not_mem_nil, or_false] at hen
        simp only [evOf, hend, List.cons_append, List.nil_append] at hp1
        have hbe : n.beat < e := hlen n hn e hend
        rcases hen with rfl | rfl
        · -- the head of a long of N: its column has no open head
          have hcol : ∀ o ∈ O, o.1 ≠ n.col := by
            intro o ho hc
            have hlt := hon o ho n hn e hend hc.symm
            have hte : tailEv o ∈ rest := by
              have : tailEv o ∈ (n.col, n.beat, Sym.head n.kind) :: rest :=
                hperm.mem_iff.mpr (List.mem_append_right _ (List.mem_map.mpr ⟨o, ho, rfl⟩))
              rcases List.mem_cons.mp this with h | h
              · simp [tailEv] at h
              · exact h
            have := hfirst _ hte
            simp only [ltEv, tailEv] at this
            rcases this with h | ⟨h, h'⟩
            · exact absurd hlt (not_lt.mpr (le_of_lt h))
            · rw [hc] at h'; exact absurd h' (lt_irrefl _)
          have hlk : p.opened.lookup n.col = none := by rw [hop]; exact lookup_openEntry_none O n.col hcol
          have hstep : stepEv p (n.col, n.beat, Sym.head n.kind) =
              { p with opened := (n.col, n.kind, n.beat) :: p.opened } := by
            simp [stepEv, pairStep, hlk]
          rw [hstep]
          have hrest : rest.Perm ((N.erase n).flatMap evOf ++ ((n.col, n.kind, n.beat, e) :: O).map tailEv) := by
            have h1 := List.Perm.cons_inv hp1
            refine h1.trans ?_
            simp only [List.map_cons, tailEv]
            exact List.perm_middle.symm
          have hnd' : (((n.col, n.kind, n.beat, e) :: O).map (·.1)).Nodup := by
            rw [List.map_cons, List.nodup_cons]
            refine ⟨?_, hnd⟩
            intro hm
            obtain ⟨o, ho, hoc⟩ := List.mem_map.mp hm
            exact hcol o ho hoc
          have hon' : ∀ o ∈ (n.col, n.kind, n.beat, e) :: O, ∀ m ∈ N.erase n, ∀ e', m.endBeat = some e' → m.col = o.1 →
              o.2.2.2 < m.beat := by
            intro o ho m hm e' hme hmc
            rcases List.mem_cons.mp ho with rfl | ho
            · -- the new open long against the remaining longs of its column
              have hR := pairwise_erase_rel (fun a b h => noOverlap_symm h) N hno n hn m hm
              rcases hR e e' hend hme hmc.symm with h | h
              · exact h
              · -- m's head comes after the first event, so m cannot end before it
                have hmh : (m.col, m.beat, Sym.head m.kind) ∈ rest := by
                  apply hrest.mem_iff.mpr
                  apply List.mem_append_left
                  exact List.mem_flatMap.mpr ⟨m, hm, by simp [evOf, hme]⟩
                have := hfirst _ hmh
                simp only [ltEv] at this
                have hme' := hlen' m hm e' hme
                rcases this with h2 | ⟨h2, h3⟩
                · exact absurd (lt_trans h2 hme') (not_lt.mpr (le_of_lt h))
                · rw [hmc] at h3; exact absurd h3 (lt_irrefl _)
            · exact hon o ho m (List.mem_of_mem_erase hm) e' hme hmc
          obtain ⟨h1, h2, h3⟩ := ih (N.erase n) ((n.col, n.kind, n.beat, e) :: O)
            { p with opened := (n.col, n.kind, n.beat) :: p.opened } hok
            (by simp [hop, openEntry]) hnd' hsrest hrest hlen' hno' hon'
          refine ⟨h1, h2, h3.trans ?_⟩
          have hn' : closedNote (n.col, n.kind, n.beat, e) = n := by
            cases n; simp_all [closedNote]
          simp only [List.map_cons, hn']
          apply List.Perm.append_left
          exact (List.perm_middle).trans ((List.Perm.append_right _ (List.perm_cons_erase hn).symm))
        · -- the tail of a long of N would come before its own head
          exfalso
          have hh : (n.col, n.beat, Sym.head n.kind) ∈ rest := by
            have : (n.col, n.beat, Sym.head n.kind) ∈ (n.col, e, Sym.tail) :: rest :=
              hperm.mem_iff.mpr (List.mem_append_left _ (List.mem_flatMap.mpr ⟨n, hn, by simp [evOf, hend]⟩))
            rcases List.mem_cons.mp this with h | h
            · simp at h
            · exact h
          have := hfirst _ hh
          simp only [ltEv] at this
          rcases this with h | ⟨_, h⟩
          · exact absurd hbe (not_lt.mpr (le_of_lt h))
          · exact absurd h (lt_irrefl _)
    · -- the first event is the tail of an open long
      obtain ⟨o, ho, rfl⟩ := List.mem_map.mp hO
      have hlk : p.opened.lookup o.1 = some (o.2.1, o.2.2.1) := by rw [hop]; exact lookup_openEntry O hnd o ho
      have hstep : stepEv p (tailEv o) =
          { p with notes := ⟨o.2.1, o.1, o.2.2.1, some o.2.2.2⟩ :: p.notes,
                   opened := p.opened.filter (fun e => e.1 != o.1) } := by
        simp [stepEv, tailEv, pairStep, hlk]
      rw [hstep]
      have hO' := perm_cons_filter_col O hnd o ho
      have hrest : rest.Perm (N.flatMap evOf ++ (O.filter (fun x => x.1 != o.1)).map tailEv) := by
        have h1 : (tailEv o :: rest).Perm (tailEv o :: (N.flatMap evOf ++ (O.filter (fun x => x.1 != o.1)).map tailEv)) := by
          refine hperm.trans ?_
          have := (hO'.map tailEv)
          simp only [List.map_cons] at this
          exact (List.Perm.append_left _ this).trans List.perm_middle
        exact List.Perm.cons_inv h1
      obtain ⟨h1, h2, h3⟩ := ih N (O.filter (fun x => x.1 != o.1))
        { p with notes := ⟨o.2.1, o.1, o.2.2.1, some o.2.2.2⟩ :: p.notes,
                 opened := p.opened.filter (fun e => e.1 != o.1) } hok
        (by simp only [hop]; exact filter_openEntry O o.1) (nodup_filter_col O o.1 hnd) hsrest hrest hlen hno
        (fun o' ho' => hon o' (List.mem_filter.mp ho').1)
      refine ⟨h1, h2, h3.trans ?_⟩
      simp only [List.cons_append]
      have hc := (hO'.map closedNote)
      simp only [List.map_cons] at hc
      have : (closedNote o) = ⟨o.2.1, o.1, o.2.2.1, some o.2.2.2⟩ := rfl
      rw [← this]
      refine (List.perm_middle (l₁ := p.notes) (a := closedNote o)).symm.trans ?_
      apply List.Perm.append_left
      refine (List.perm_middle (l₁ := N)).symm.trans ?_
      exact List.Perm.append_left N hc.symm

theorem pairAll_eq_foldl_stepEv (evs : List SEv) : pairAll evs = evs.foldl stepEv {} := rfl

/-- **Pairing, inverse direction.**  Let `N` be any list of notes whose holds/rolls have `beat < endBeat` and do not
overlap (nor touch) within a column, and let `evs` be the events of those notes — a tap symbol per tap, a head and a
tail symbol per hold/roll — in strictly ascending (beat, column) order (the order in which a written chart is read).
Then the StepMania rule never meets an unmatched tail or a head over an open head, leaves no head open, and pairs the
events into exactly the notes `N` (as a multiset). -/
theorem pairing_inverse (evs : List SEv) (N : List DNote) (hsort : evs.Pairwise ltEv)
    (hperm : evs.Perm (N.flatMap evOf)) (hlen : ∀ n ∈ N, ∀ e, n.endBeat = some e → n.beat < e)
    (hno : N.Pairwise NoOverlap) :
    (pairAll evs).ok = true ∧ (pairAll evs).opened = [] ∧ (pairAll evs).notes.Perm N := by
  rw [pairAll_eq_foldl_stepEv]
  have := pair_inv_aux evs N [] {} rfl rfl (by simp) hsort (by simpa using hperm) hlen hno (by simp)
  simpa using this

end Reamber.SM
