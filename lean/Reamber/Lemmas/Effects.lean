/-
C14 — helper lemmas about heaps: in-place writes, allocation, and what a behaviour within a signature can do.
Core Lean only.
-/
import Reamber.Spec.Effects

namespace Reamber.Effects

variable {α : Type}

theorem applyWrites_length (h : Heap α) (ws : List (Ref × α)) : (applyWrites h ws).length = h.length := by
  unfold applyWrites
  induction ws generalizing h with
  | nil => rfl
  | cons w t ih => simp [List.foldl_cons, ih]

/-- a cell that is not among the written ones keeps its content -/
theorem applyWrites_getElem?_of_not_written (h : Heap α) (ws : List (Ref × α)) (r : Ref)
    (hr : ∀ w ∈ ws, w.1 ≠ r) : (applyWrites h ws)[r]? = h[r]? := by
  unfold applyWrites
  induction ws generalizing h with
  | nil => rfl
  | cons w t ih =>
    simp only [List.foldl_cons]
    rw [ih (h.set w.1 w.2) (fun x hx => hr x (List.mem_cons_of_mem _ hx))]
    exact List.getElem?_set_ne (hr w (List.mem_cons_self))

theorem applyWrites_nil (h : Heap α) : applyWrites h [] = h := rfl

theorem selAll_nil (args : List Obj) : selAll args [] = [] := rfl

/-- a behaviour within a signature that lets it write nothing writes nothing -/
theorem within_writes_nil {s : Sig} {n : Nat} {args : List Obj} {b : Beh α}
    (hs : s.writes = []) (hw : b.within s n args = true) : b.writes = [] := by
  unfold Beh.within at hw
  simp only [Bool.and_eq_true] at hw
  obtain ⟨⟨_, hwr⟩, _⟩ := hw
  rw [hs, selAll_nil] at hwr
  cases hb : b.writes with
  | nil => rfl
  | cons w t => rw [hb] at hwr; simp at hwr

/-- a behaviour within a signature that lets the result share nothing returns only what the call allocated -/
theorem within_ret_fresh {s : Sig} {n : Nat} {args : List Obj} {b : Beh α}
    (hs : s.shares = []) (hw : b.within s n args = true) : ∀ r ∈ b.ret, n ≤ r ∧ r < n + b.news.length := by
  unfold Beh.within at hw
  simp only [Bool.and_eq_true] at hw
  obtain ⟨_, hret⟩ := hw
  rw [hs, selAll_nil] at hret
  intro r hr
  have := (List.all_eq_true.mp hret) r hr
  simpa using this

/-- a call that may write nothing only appends to the heap -/
theorem applyBeh_of_pure {s : Sig} {args : List Obj} (h : Heap α) {b : Beh α}
    (hs : s.writes = []) (hw : b.within s h.length args = true) : applyBeh h b = h ++ b.news := by
  unfold applyBeh
  rw [within_writes_nil hs hw, applyWrites_nil]

theorem mem_reach_lt {n : Nat} {args : List Obj} (hv : validArgs n args = true) : ∀ r ∈ reach args, r < n := by
  intro r hr
  have := (List.all_eq_true.mp hv) r hr
  simpa using this

/-- what a signature entry selects is a cell of an argument -/
theorem sel_subset_reach (args : List Obj) (s : Nat × String) : ∀ r ∈ sel args s, r ∈ reach args := by
  intro r hr
  unfold sel at hr
  cases ho : args[s.1]? with
  | none => rw [ho] at hr; simp at hr
  | some o =>
    rw [ho] at hr
    have hmem : o ∈ args := List.mem_of_getElem? ho
    have hro : r ∈ o.refs := by
      simp only at hr
      split at hr
      · exact hr
      · simp only [Obj.refs, List.mem_map, List.mem_filter] at hr ⊢
        obtain ⟨c, ⟨hc, _⟩, rfl⟩ := hr
        exact ⟨c, hc, rfl⟩
    unfold reach
    exact List.mem_flatMap.mpr ⟨o, hmem, hro⟩

theorem selAll_subset_reach (args : List Obj) (ss : List (Nat × String)) : ∀ r ∈ selAll args ss, r ∈ reach args := by
  intro r hr
  unfold selAll at hr
  obtain ⟨s, _, hs⟩ := List.mem_flatMap.mp hr
  exact sel_subset_reach args s r hs

/-- whatever the signature: the result of a behaviour within it reaches only cells the call allocated and cells
of the arguments -/
theorem within_ret_bounded {s : Sig} {n : Nat} {args : List Obj} {b : Beh α}
    (hw : b.within s n args = true) : ∀ r ∈ b.ret, (n ≤ r ∧ r < n + b.news.length) ∨ r ∈ reach args := by
  unfold Beh.within at hw
  simp only [Bool.and_eq_true] at hw
  obtain ⟨_, hret⟩ := hw
  intro r hr
  have := (List.all_eq_true.mp hret) r hr
  simp only [Bool.or_eq_true, Bool.and_eq_true, decide_eq_true_eq, List.contains_eq_mem] at this
  rcases this with h | h
  · exact Or.inl h
  · exact Or.inr (selAll_subset_reach args s.shares r h)

end Reamber.Effects
