/-
C11 helper lemmas, part 1: one iteration of the `while` body of `reseat_bpm_changes_snap` (model: `reseatStep`)
on a state written as a zipper  `done ++ cur :: nx :: rest`  — which of the three list shapes
(keep / replace `cur` / insert after `cur`) comes out, under the branch conditions as the code computes them.
-/
import Reamber.Model.Timing
import Reamber.Spec.Reseat

namespace Reamber.Timing

/-- what the end of the loop body does to `bcs_s[i + 1]` -/
def seatAt (b : BcSnap) (m : Int) : BcSnap := { b with snap := { b.snap with measure := m, beat := 0 } }

@[simp] theorem seatAt_bpm (b : BcSnap) (m : Int) : (seatAt b m).bpm = b.bpm := rfl
@[simp] theorem seatAt_met (b : BcSnap) (m : Int) : (seatAt b m).met = b.met := rfl
@[simp] theorem seatAt_measure (b : BcSnap) (m : Int) : (seatAt b m).snap.measure = m := rfl
@[simp] theorem seatAt_beat (b : BcSnap) (m : Int) : (seatAt b m).snap.beat = 0 := rfl

section lists
variable {α : Type}

theorem getD_app_len (l : List α) (x : α) (t : List α) (n : Nat) (d : α) (h : n = l.length) :
    (l ++ x :: t).getD n d = x := by
  subst h; simp [List.getD_eq_getElem?_getD]

theorem getD_app_len1 (l : List α) (x y : α) (t : List α) (n : Nat) (d : α) (h : n = l.length) :
    (l ++ x :: y :: t).getD (n + 1) d = y := by
  subst h
  have : l ++ x :: y :: t = (l ++ [x]) ++ y :: t := by simp
  rw [this]
  exact getD_app_len (l ++ [x]) y t _ d (by simp)

theorem set_app_len (l : List α) (x : α) (t : List α) (y : α) :
    (l ++ x :: t).set l.length y = l ++ y :: t := by
  simp

theorem set_app_len1 (l : List α) (x z : α) (t : List α) (y : α) :
    (l ++ x :: z :: t).set (l.length + 1) y = l ++ x :: y :: t := by
  have : l ++ x :: z :: t = (l ++ [x]) ++ z :: t := by simp
  rw [this]
  have h2 : l.length + 1 = (l ++ [x]).length := by simp
  rw [h2, set_app_len]; simp

theorem insert_app_len1 (l : List α) (x : α) (t : List α) (y : α) :
    listInsert (l ++ x :: t) (l.length + 1) y = l ++ x :: y :: t := by
  unfold listInsert
  have : l ++ x :: t = (l ++ [x]) ++ t := by simp
  rw [this]
  have h2 : l.length + 1 = (l ++ [x]).length := by simp
  rw [h2, List.take_left, List.drop_left]; simp

end lists

/-- `Snap(measure, 0, metronome)` with a non-negative measure and a positive metronome is just that snap -/
theorem Snap.make_zero {m : Int} {M : Rat} (hm : 0 ≤ m) (hM : 0 < M) : Snap.make m 0 (some M) = .ok ⟨m, 0, some M⟩ := by
  unfold Snap.make
  have h1 : ¬ m < 0 := by omega
  have h2 : ¬ ((0 : Rat) < 0) := by decide
  have h3 : ¬ ((0 : Rat) ≥ M) := Rat.not_le.mpr hM
  simp [h1, h3]

/-- the zipper state -/
def zst (done : List BcSnap) (doneO : List Rat) (cur : BcSnap) (o0 : Rat) (pend : List BcSnap) (pendO : List Rat)
    (m : Int) : RState := ⟨done ++ cur :: pend, doneO ++ o0 :: pendO, done.length, m⟩

section step
variable (thr : Rat) (done : List BcSnap) (doneO : List Rat) (cur nx : BcSnap) (o0 o1 : Rat)
  (rest : List BcSnap) (os : List Rat) (m : Int) (hlen : doneO.length = done.length)
include hlen

/-- no branch fires: `bcs_s[i+1]` is seated `measure_diff_quo` measures further -/
theorem step_keep
    (h1 : ¬ (0 < frac ((o1 - o0) / measLen cur.bpm cur.met) ∧ frac ((o1 - o0) / measLen cur.bpm cur.met) ≤ thr))
    (h2 : ¬ (0 < frac ((o1 - o0) / beatLen cur.bpm) ∧ frac ((o1 - o0) / beatLen cur.bpm) ≤ thr))
    (h3 : ¬ (frac ((o1 - o0) / measLen cur.bpm cur.met) > thr)) :
    reseatStep thr (zst done doneO cur o0 (nx :: rest) (o1 :: os) m) =
      .ok (zst (done ++ [cur]) (doneO ++ [o0]) (seatAt nx (m + ffloor ((o1 - o0) / measLen cur.bpm cur.met))) o1 rest os
            (m + ffloor ((o1 - o0) / measLen cur.bpm cur.met))) := by
  unfold reseatStep zst
  simp only [getD_app_len done cur (nx :: rest) done.length default rfl,
    getD_app_len doneO o0 (o1 :: os) done.length 0 hlen.symm,
    getD_app_len1 doneO o0 o1 os done.length 0 hlen.symm]
  simp only [h1, h2, h3, if_false, bind, Except.bind]
  simp only [getD_app_len1 done cur nx rest done.length default rfl, set_app_len1, seatAt]
  simp

/-- branch 1 ("extend by nudging bpm") -/
theorem step_b1 (hmet : 0 < cur.met)
    (h1 : 0 < frac ((o1 - o0) / measLen cur.bpm cur.met) ∧ frac ((o1 - o0) / measLen cur.bpm cur.met) ≤ thr)
    (hm : 0 ≤ m + ffloor ((o1 - o0) / measLen cur.bpm cur.met) - 1) :
    reseatStep thr (zst done doneO cur o0 (nx :: rest) (o1 :: os) m) =
      (let md := (o1 - o0) / measLen cur.bpm cur.met
       let nb : BcSnap := ⟨cur.bpm / (frac md + 1), cur.met, ⟨m + ffloor md - 1, 0, some cur.met⟩⟩
       let off := ((ffloor md : Rat) - 1) * measLen cur.bpm cur.met + o0
       if ffloor md = 1 then
         .ok (zst (done ++ [nb]) (doneO ++ [off]) (seatAt nx (m + ffloor md)) o1 rest os (m + ffloor md))
       else
         .ok (zst (done ++ [cur]) (doneO ++ [o0]) nb off (nx :: rest) (o1 :: os) (m + ffloor md - 1))) := by
  unfold reseatStep zst
  simp only [getD_app_len done cur (nx :: rest) done.length default rfl,
    getD_app_len doneO o0 (o1 :: os) done.length 0 hlen.symm,
    getD_app_len1 doneO o0 o1 os done.length 0 hlen.symm]
  simp only [h1, and_self, if_true, Snap.make_zero hm hmet, bind, Except.bind]
  by_cases hq : ffloor ((o1 - o0) / measLen cur.bpm cur.met) = 1
  · simp only [hq, if_true]
    rw [← hlen, set_app_len doneO, hlen, set_app_len done]
    simp only [getD_app_len1 done _ nx rest done.length default rfl, set_app_len1, seatAt]
    simp
  · simp only [hq, if_false]
    rw [← hlen, insert_app_len1 doneO, hlen, insert_app_len1 done]
    simp only [getD_app_len1 done cur _ (nx :: rest) done.length default rfl, set_app_len1]
    simp

/-- branch 3 (insert / rewrite a partial measure) -/
theorem step_b3 (hmet : 0 < cur.met)
    (h1 : ¬ (0 < frac ((o1 - o0) / measLen cur.bpm cur.met) ∧ frac ((o1 - o0) / measLen cur.bpm cur.met) ≤ thr))
    (h2 : ¬ (0 < frac ((o1 - o0) / beatLen cur.bpm) ∧ frac ((o1 - o0) / beatLen cur.bpm) ≤ thr))
    (h3 : frac ((o1 - o0) / measLen cur.bpm cur.met) > thr)
    (hm : 0 ≤ m + ffloor ((o1 - o0) / measLen cur.bpm cur.met)) :
    reseatStep thr (zst done doneO cur o0 (nx :: rest) (o1 :: os) m) =
      (let md := (o1 - o0) / measLen cur.bpm cur.met
       let nb : BcSnap := ⟨cur.bpm / frac md, cur.met, ⟨m + ffloor md, 0, some cur.met⟩⟩
       let off := (ffloor md : Rat) * measLen cur.bpm cur.met + o0
       if ffloor md = 0 then
         .ok (zst (done ++ [nb]) (doneO ++ [off]) (seatAt nx (m + ffloor md + 1)) o1 rest os (m + ffloor md + 1))
       else
         .ok (zst (done ++ [cur]) (doneO ++ [o0]) nb off (nx :: rest) (o1 :: os) (m + ffloor md))) := by
  unfold reseatStep zst
  simp only [getD_app_len done cur (nx :: rest) done.length default rfl,
    getD_app_len doneO o0 (o1 :: os) done.length 0 hlen.symm,
    getD_app_len1 doneO o0 o1 os done.length 0 hlen.symm]
  simp only [h1, h2, h3, if_false, if_true, Snap.make_zero hm hmet, bind, Except.bind]
  by_cases hq : ffloor ((o1 - o0) / measLen cur.bpm cur.met) = 0
  · simp only [hq, if_true]
    rw [← hlen, set_app_len doneO, hlen, set_app_len done]
    simp only [getD_app_len1 done _ nx rest done.length default rfl, set_app_len1, seatAt]
    simp
  · simp only [hq, if_false]
    rw [← hlen, insert_app_len1 doneO, hlen, insert_app_len1 done]
    simp only [getD_app_len1 done cur _ (nx :: rest) done.length default rfl, set_app_len1]
    simp

end step

end Reamber.Timing
