/-
C15 helper lemmas, part 5: the BMS writer.  `TimingMap.snaps` is the pointwise position `posFn cs`, so the rows the
writer builds for hits, hold heads and hold tails are a `map` over the lists; every cell lies (by the book) at its
row's own position whatever denominator `find_lcm` gave its line (`slot_roundtrip`), so the objects of the written
file are the rows' (channel, measure, beat, value) — `find_lcm` is order dependent, the objects are not.
-/
import Reamber.Lemmas.BMSWrite

namespace Reamber.PermInv

open Reamber.Timing Reamber.BMS

/-- the position `TimingMap.snaps` sends the time `t` to (canonical form of the `F` of C05's `write_positions`) -/
def posFn (cs : List BcSnap) (t : Rat) : Snap :=
  match cs with
  | [] => default
  | c :: rest => ((snapAtAux defaultGrid 0 c rest t).toOption).getD default

/-- **`TimingMap.snaps` is pointwise**: for every list of times at or after the first tempo point (any order,
duplicates) the result is the list of `posFn cs t`, in the order of the times -/
theorem snaps_pointwise (cs : List BcSnap) (hwf : wfChanges cs = true) (hs : sortedSnaps cs = true)
    (h0 : firstAtZero cs = true) (hgc : gridCompatible (grid defaultMaxDiv) cs = true) (hm : metronomeOk cs = true)
    (ts : List Rat) (hts : ∀ t ∈ ts, 0 ≤ t) :
    snaps defaultGrid (tmOf 0 cs) ts = .ok (ts.map (posFn cs)) ∧ ∀ t ∈ ts, 0 ≤ (posFn cs t).beat := by
  have hg : GridOK defaultGrid := gridOK_grid (by decide)
  have hgc' : gridCompatible defaultGrid.toList cs = true := by simpa [defaultGrid] using hgc
  have hb := bcsOfBco_rederive hg 0 cs hwf hs h0 hgc' hm
  cases cs with
  | nil => simp [firstAtZero] at h0
  | cons c rest =>
    have hF : ∀ t ∈ ts, lookupSnap defaultGrid ((c :: rest).zip (tmOf 0 (c :: rest))).reverse t
        = .ok (posFn (c :: rest) t) ∧ 0 ≤ (posFn (c :: rest) t).beat := by
      intro t ht
      obtain ⟨S, hS, _, hb0, _⟩ :=
        timeAtAux_snapAtAux_err hg snap_err_default 0 c rest t hwf hs hgc' hm (hts t ht)
      have hFt : posFn (c :: rest) t = S := by simp [posFn, hS, Except.toOption]
      refine ⟨?_, by rw [hFt]; exact hb0⟩
      simp only [tmOf, List.zip_cons_cons]
      rw [lookupSnap_eq_snapAtAux defaultGrid 0 c rest t hwf hs (hts t ht), hS, hFt]
    refine ⟨?_, fun t ht => (hF t ht).2⟩
    exact snapsWith_order defaultGrid _ _ ts _ _ (posFn (c :: rest)) hb (stableArgsort_sortsAscR ts)
      (fun t ht => (hF t ht).1)

theorem make_met {m : Int} {b M : Rat} {S : Snap} (h : Snap.make m b (some M) = .ok S) : S.met = some M := by
  simp only [Snap.make] at h
  split_ifs at h <;> first | (cases h; rfl) | cases h

theorem snapFromOffset_met {g : Array Rat} {t : Rat} {bco : BcOff} {bcs : BcSnap} {S : Snap}
    (h : snapFromOffset g t bco bcs = .ok S) : S.met = some bco.met := by
  unfold snapFromOffset at h
  exact make_met h

theorem snapAtAux_met (g : Array Rat) (M : Rat) : ∀ (rest : List BcSnap) (T : Rat) (cur : BcSnap) (t : Rat) (S : Snap),
    (∀ x ∈ cur :: rest, x.met = M) → snapAtAux g T cur rest t = .ok S → S.met = some M := by
  intro rest
  induction rest with
  | nil =>
    intro T cur t S hM h
    simp only [snapAtAux] at h
    rw [snapFromOffset_met h]
    simp [hM cur (by simp)]
  | cons n rest ih =>
    intro T cur t S hM h
    simp only [snapAtAux] at h
    split_ifs at h
    · exact ih _ n t S (fun x hx => hM x (List.mem_cons_of_mem _ hx)) h
    · rw [snapFromOffset_met h]
      simp [hM cur (by simp)]

/-- the positions of a 4-beat chart carry the 4-beat metronome -/
theorem posFn_met (cs : List BcSnap) (hwf : wfChanges cs = true) (hs : sortedSnaps cs = true)
    (hgc : gridCompatible (grid defaultMaxDiv) cs = true) (hm : metronomeOk cs = true)
    (hM : ∀ x ∈ cs, x.met = 4) (t : Rat) (ht : 0 ≤ t) (hne : cs ≠ []) : (posFn cs t).met = some 4 := by
  have hg : GridOK defaultGrid := gridOK_grid (by decide)
  have hgc' : gridCompatible defaultGrid.toList cs = true := by simpa [defaultGrid] using hgc
  cases cs with
  | nil => exact absurd rfl hne
  | cons c rest =>
    obtain ⟨S, hS, _, _, _⟩ := timeAtAux_snapAtAux_err hg snap_err_default 0 c rest t hwf hs hgc' hm ht
    have hFt : posFn (c :: rest) t = S := by simp [posFn, hS, Except.toOption]
    rw [hFt]
    exact snapAtAux_met defaultGrid 4 rest 0 c t S hM hS

theorem mkRows_map {α} (lay : Layout) (l : List α) (f : α → Snap) (g : α → Nat) (v : α → Bytes)
    (hch : ∀ x ∈ l, (channelOf lay (g x)).isSome = true) :
    mkRows lay (l.map f) (l.map g) (l.map v) = .ok (l.map fun x => ⟨f x, (channelOf lay (g x)).getD [], v x⟩) := by
  induction l with
  | nil => rfl
  | cons a t ih =>
    obtain ⟨ch, hc⟩ := Option.isSome_iff_exists.mp (hch a (by simp))
    simp only [List.map_cons, mkRows, hc, ih (fun x hx => hch x (List.mem_cons_of_mem _ hx)), Option.getD_some]

theorem zipIdxFrom_map_snd {α} (l : List α) : ∀ n, (zipIdxFrom n l).map (·.2) = l := by
  induction l with
  | nil => intro n; rfl
  | cons a t ih => intro n; simp [zipIdxFrom, ih]

theorem zip_zipIdxFrom {α β} (l : List α) : ∀ (n : Nat) (m : List β),
    l.zip m = ((zipIdxFrom n l).zip m).map (fun q => (q.1.2, q.2)) := by
  induction l with
  | nil => intro n m; rfl
  | cons a t ih =>
    intro n m
    cases m with
    | nil => rfl
    | cons b m => simp [zipIdxFrom, ← ih (n + 1) m]

/-- the by-the-book object of a written cell: channel, measure, beat `4·idx/den`, id -/
def cellObj (c : WCell) : Bytes × Int × Rat × Bytes :=
  (c.channel, c.measure, 4 * ((c.idx : Nat) : Rat) / ((c.den : Nat) : Rat), c.value)

/-- the object a row stands for -/
def rowObj (r : WRow) : Bytes × Int × Rat × Bytes := (r.channel, r.snap.measure, r.snap.beat, r.value)

/-- **the cells are the rows' objects**, whatever denominators `find_lcm` chose (`newDens` is order dependent,
the positions `4·idx/den` are not) -/
theorem cells_objects (thr : Nat) (rows : List WRow) (hrow : ∀ r ∈ rows, r.snap.met = some 4 ∧ 0 ≤ r.snap.beat) :
    (((rows.map slotOfRow).zip (newDens thr (rows.map slotOfRow))).map (fun p => cellOf p.1 p.2)).map cellObj
      = rows.map rowObj := by
  have hpos : ∀ s ∈ rows.map slotOfRow, 0 < s.den := by
    intro s hs
    obtain ⟨r, hr, rfl⟩ := List.mem_map.mp hs
    have hmet := (hrow r hr).1
    have hden : (slotOfRow r).den = r.snap.beat.den * 4 := by
      simp only [slotOfRow, hmet, Option.getD_some]
      have : ((4 : Rat).floor).toNat = 4 := by decide +kernel
      rw [this]
    rw [hden]; exact Nat.mul_pos r.snap.beat.den_pos (by decide)
  obtain ⟨hlen, hdvd⟩ := newDens_dvd thr (rows.map slotOfRow) hpos
  generalize newDens thr (rows.map slotOfRow) = nds at hlen hdvd
  have hdvd' : ∀ p ∈ (rows.map slotOfRow).zip nds, p.1.den ∣ p.2 ∧ 0 < p.2 := by
    intro p hp
    rw [zip_zipIdxFrom _ 0 nds, List.mem_map] at hp
    obtain ⟨q, hq, rfl⟩ := hp
    exact hdvd q hq
  rw [List.map_map, List.zip_map_left, List.map_map]
  have e : (rows.zip nds).map ((cellObj ∘ fun p => cellOf p.1 p.2) ∘ Prod.map slotOfRow id)
      = (rows.zip nds).map (fun q => rowObj q.1) := by
    apply List.map_congr_left
    intro q hq
    have hr : q.1 ∈ rows := (List.of_mem_zip hq).1
    have hz : (slotOfRow q.1, q.2) ∈ (rows.map slotOfRow).zip nds := by
      rw [List.zip_map_left, List.mem_map]
      exact ⟨q, hq, rfl⟩
    obtain ⟨hd, hn⟩ := hdvd' _ hz
    have := slot_roundtrip q.1 q.2 (hrow q.1 hr).1 (hrow q.1 hr).2 hn hd
    simp only [Function.comp, Prod.map, id, cellObj, rowObj, cellOf] at this ⊢
    simp only [slotOfRow] at this ⊢
    rw [this]
  rw [e]
  have : (rows.zip nds).map (fun q => rowObj q.1) = ((rows.zip nds).map (·.1)).map rowObj := by
    rw [List.map_map]; rfl
  rw [this, List.map_fst_zip]
  rw [hlen]; simp

/-! ### the rows of the writer and the objects of its cells (used by C15's `write_bms_perm` and C05's assembly) -/

/-- the rows `BMSMap._write_notes` builds for hits, hold heads and hold tails -/
def bmsNoteRows (cs : List BcSnap) (lay : Layout) (dflt : Bytes) (c : BMS.WChart) : List WRow :=
  c.hits.map (fun h => ⟨posFn cs h.offset, (channelOf lay h.col).getD [], sampleId c.samples dflt h.sample⟩) ++
  c.holds.map (fun h => ⟨posFn cs h.offset, (channelOf lay h.col).getD [], sampleId c.samples dflt h.sample⟩) ++
  c.holds.map (fun h => ⟨posFn cs h.tail, (channelOf lay h.col).getD [], c.lnEnd⟩)

/-- … and for the tempo rows: row `i` is the channel-08 object `base36(i+1)` at the position of its own offset -/
def bmsTempoRows (cs : List BcSnap) (lay : Layout) (c : BMS.WChart) : List WRow :=
  (zipIdxFrom 0 (c.bpms.map (fun b => posFn cs b.offset))).map (fun p => ⟨p.2, lay.exbpmCh, base36 (p.1 + 1)⟩)

/-- what the property's quantifier grants: 4-beat metronome rows, columns the layout has, times at or after the first
tempo point -/
structure BmsOk (cs : List BcSnap) (lay : Layout) (c : BMS.WChart) : Prop where
  met : ∀ b ∈ c.bpms, b.met = defMet
  cols : (∀ h ∈ c.hits, (channelOf lay h.col).isSome = true) ∧ (∀ h ∈ c.holds, (channelOf lay h.col).isSome = true)
  times : (∀ h ∈ c.hits, 0 ≤ h.offset) ∧ (∀ h ∈ c.holds, 0 ≤ h.offset ∧ 0 ≤ h.tail) ∧ (∀ b ∈ c.bpms, 0 ≤ b.offset)
  met4 : ∀ x ∈ cs, x.met = 4

/-- **The objects of the written BMS file are the rows' objects.**  For a chart whose tempo rows are, in ANY order, the
stored form of a tempo-change list in C05's domain: `_write_notes` succeeds, and the by-the-book objects of its cells
(channel, measure, beat `4·idx/den`, id — `written_objects`) are, cell by cell, the (channel, measure, beat, id) of the
rows: the denominators `find_lcm` assigns depend on the row order, the objects do not. -/
theorem writeCells_objects (cs : List BcSnap) (hwf : wfChanges cs = true) (hs : strictSnaps cs = true)
    (h0 : firstAtZero cs = true) (hgc : gridCompatible (grid defaultMaxDiv) cs = true) (hm : metronomeOk cs = true)
    (lay : Layout) (dflt : Bytes) (c : BMS.WChart) (hp : c.bpms.Perm (tmOf 0 cs)) (hok : BmsOk cs lay c) :
    ∃ cells, writeCells defaultGrid lay dflt c = .ok cells ∧
      cells.map cellObj = (bmsNoteRows cs lay dflt c).map rowObj ++ (bmsTempoRows cs lay c).map rowObj := by
  have hsorted := sortedSnaps_of_strict hs
  have hg : GridOK defaultGrid := gridOK_grid (by decide)
  have hgc' : gridCompatible defaultGrid.toList cs = true := by simpa [defaultGrid] using hgc
  have hsort : sortBcOff c.bpms = tmOf 0 cs := (tempo_rows_positions hg 0 cs hwf hs h0 hgc' hm c.bpms hp).1
  have hne : cs ≠ [] := by intro e; subst e; simp [firstAtZero] at h0
  have PM : ∀ t : Rat, 0 ≤ t → (posFn cs t).met = some 4 :=
    fun t ht => posFn_met cs hwf hsorted hgc hm hok.met4 t ht hne
  have hany : (c.bpms.any fun b => decide (b.met ≠ defMet)) = false := by
    rw [List.any_eq_false]
    intro b hb; simp [hok.met b hb]
  have S := fun ts hts => snaps_pointwise cs hwf hsorted h0 hgc hm ts hts
  have s1 := S (c.hits.map (·.offset)) (by
    intro t ht; obtain ⟨h, hh, rfl⟩ := List.mem_map.mp ht; exact hok.times.1 h hh)
  have s2 := S (c.holds.map (·.offset)) (by
    intro t ht; obtain ⟨h, hh, rfl⟩ := List.mem_map.mp ht; exact (hok.times.2.1 h hh).1)
  have s3 := S (c.holds.map (·.tail)) (by
    intro t ht; obtain ⟨h, hh, rfl⟩ := List.mem_map.mp ht; exact (hok.times.2.1 h hh).2)
  have s4 := S (c.bpms.map (·.offset)) (by
    intro t ht; obtain ⟨b, hb, rfl⟩ := List.mem_map.mp ht; exact hok.times.2.2 b hb)
  have m1 := mkRows_map lay c.hits (fun h => posFn cs h.offset) (·.col) (fun h => sampleId c.samples dflt h.sample) hok.cols.1
  have m2 := mkRows_map lay c.holds (fun h => posFn cs h.offset) (·.col) (fun h => sampleId c.samples dflt h.sample) hok.cols.2
  have m3 := mkRows_map lay c.holds (fun h => posFn cs h.tail) (·.col) (fun _ => c.lnEnd) hok.cols.2
  refine ⟨(((bmsNoteRows cs lay dflt c ++ bmsTempoRows cs lay c).map slotOfRow).zip
      (newDens Generated.BMS.lcmThreshold ((bmsNoteRows cs lay dflt c ++ bmsTempoRows cs lay c).map slotOfRow))).map
      (fun p => cellOf p.1 p.2), ?_, ?_⟩
  · unfold writeCells
    simp only [hany, hsort, s1.1, s2.1, s3.1, s4.1, liftT, List.map_map, Function.comp_def, m1, m2, m3, bind, Except.bind,
      Bool.false_eq_true, if_false]
    rfl
  · have hrows : ∀ r ∈ bmsNoteRows cs lay dflt c ++ bmsTempoRows cs lay c, r.snap.met = some 4 ∧ 0 ≤ r.snap.beat := by
      intro r hr
      simp only [bmsNoteRows, bmsTempoRows, List.mem_append, List.mem_map] at hr
      rcases hr with ((⟨h, hh, rfl⟩ | ⟨h, hh, rfl⟩) | ⟨h, hh, rfl⟩) | ⟨p, hpm, rfl⟩
      · exact ⟨PM _ (hok.times.1 h hh), s1.2 _ (List.mem_map_of_mem hh)⟩
      · exact ⟨PM _ (hok.times.2.1 h hh).1, s2.2 _ (List.mem_map_of_mem hh)⟩
      · exact ⟨PM _ (hok.times.2.1 h hh).2, s3.2 _ (List.mem_map_of_mem hh)⟩
      · have : p.2 ∈ c.bpms.map (fun b => posFn cs b.offset) := by
          have := List.mem_map_of_mem (f := (·.2)) hpm
          rwa [zipIdxFrom_map_snd] at this
        obtain ⟨b, hb, e⟩ := List.mem_map.mp this
        simp only [← e]
        exact ⟨PM _ (hok.times.2.2 b hb), s4.2 _ (List.mem_map_of_mem hb)⟩
    have := cells_objects Generated.BMS.lcmThreshold (bmsNoteRows cs lay dflt c ++ bmsTempoRows cs lay c) hrows
    simpa only [List.map_append] using this


/-- the cells `_write_notes` builds from its rows (slot table, `find_lcm` per group, re-slotting) -/
def cellsOfRows (rows : List WRow) : List WCell :=
  (((rows.map slotOfRow).zip (newDens Generated.BMS.lcmThreshold (rows.map slotOfRow))).map (fun p => cellOf p.1 p.2))

/-- `_write_notes` succeeds and its cells are `cellsOfRows` of the rows at the positions `posFn` (the explicit form
behind `writeCells_objects`) -/
theorem writeCells_eq (cs : List BcSnap) (hwf : wfChanges cs = true) (hs : strictSnaps cs = true)
    (h0 : firstAtZero cs = true) (hgc : gridCompatible (grid defaultMaxDiv) cs = true) (hm : metronomeOk cs = true)
    (lay : Layout) (dflt : Bytes) (c : BMS.WChart) (hp : c.bpms.Perm (tmOf 0 cs)) (hok : BmsOk cs lay c) :
    writeCells defaultGrid lay dflt c = .ok (cellsOfRows (bmsNoteRows cs lay dflt c ++ bmsTempoRows cs lay c)) ∧
    ∀ r ∈ bmsNoteRows cs lay dflt c ++ bmsTempoRows cs lay c, r.snap.met = some 4 ∧ 0 ≤ r.snap.beat := by
  have hsorted := sortedSnaps_of_strict hs
  have hg : GridOK defaultGrid := gridOK_grid (by decide)
  have hgc' : gridCompatible defaultGrid.toList cs = true := by simpa [defaultGrid] using hgc
  have hsort : sortBcOff c.bpms = tmOf 0 cs := (tempo_rows_positions hg 0 cs hwf hs h0 hgc' hm c.bpms hp).1
  have hne : cs ≠ [] := by intro e; subst e; simp [firstAtZero] at h0
  have PM : ∀ t : Rat, 0 ≤ t → (posFn cs t).met = some 4 :=
    fun t ht => posFn_met cs hwf hsorted hgc hm hok.met4 t ht hne
  have hany : (c.bpms.any fun b => decide (b.met ≠ defMet)) = false := by
    rw [List.any_eq_false]
    intro b hb; simp [hok.met b hb]
  have S := fun ts hts => snaps_pointwise cs hwf hsorted h0 hgc hm ts hts
  have s1 := S (c.hits.map (·.offset)) (by
    intro t ht; obtain ⟨h, hh, rfl⟩ := List.mem_map.mp ht; exact hok.times.1 h hh)
  have s2 := S (c.holds.map (·.offset)) (by
    intro t ht; obtain ⟨h, hh, rfl⟩ := List.mem_map.mp ht; exact (hok.times.2.1 h hh).1)
  have s3 := S (c.holds.map (·.tail)) (by
    intro t ht; obtain ⟨h, hh, rfl⟩ := List.mem_map.mp ht; exact (hok.times.2.1 h hh).2)
  have s4 := S (c.bpms.map (·.offset)) (by
    intro t ht; obtain ⟨b, hb, rfl⟩ := List.mem_map.mp ht; exact hok.times.2.2 b hb)
  have m1 := mkRows_map lay c.hits (fun h => posFn cs h.offset) (·.col) (fun h => sampleId c.samples dflt h.sample) hok.cols.1
  have m2 := mkRows_map lay c.holds (fun h => posFn cs h.offset) (·.col) (fun h => sampleId c.samples dflt h.sample) hok.cols.2
  have m3 := mkRows_map lay c.holds (fun h => posFn cs h.tail) (·.col) (fun _ => c.lnEnd) hok.cols.2
  constructor
  · unfold writeCells cellsOfRows
    simp only [hany, hsort, s1.1, s2.1, s3.1, s4.1, liftT, List.map_map, Function.comp_def, m1, m2, m3, bind, Except.bind,
      Bool.false_eq_true, if_false]
    rfl
  · intro r hr
    simp only [bmsNoteRows, bmsTempoRows, List.mem_append, List.mem_map] at hr
    rcases hr with ((⟨h, hh, rfl⟩ | ⟨h, hh, rfl⟩) | ⟨h, hh, rfl⟩) | ⟨p, hpm, rfl⟩
    · exact ⟨PM _ (hok.times.1 h hh), s1.2 _ (List.mem_map_of_mem hh)⟩
    · exact ⟨PM _ (hok.times.2.1 h hh).1, s2.2 _ (List.mem_map_of_mem hh)⟩
    · exact ⟨PM _ (hok.times.2.1 h hh).2, s3.2 _ (List.mem_map_of_mem hh)⟩
    · have : p.2 ∈ c.bpms.map (fun b => posFn cs b.offset) := by
        have := List.mem_map_of_mem (f := (·.2)) hpm
        rwa [zipIdxFrom_map_snd] at this
      obtain ⟨b, hb, e⟩ := List.mem_map.mp this
      simp only [← e]
      exact ⟨PM _ (hok.times.2.2 b hb), s4.2 _ (List.mem_map_of_mem hb)⟩

end Reamber.PermInv
