/-
K1 — Snapper: the insertion sort used by the models really sorts; `grid N` is ascending, lies in [0, 1], contains
0 and 1; `bisect_left` on an ascending array returns the partition point; `Snapper.snap` (bisect + "left only if
strictly nearer") returns a nearest grid value, ties go right, grid values are fixed points, snapping is idempotent.
-/
import Reamber.Model.Timing
import Reamber.Spec.Timing
import Reamber.Lemmas.Sort
import Mathlib.Tactic.Linarith
import Mathlib.Tactic.Ring
import Mathlib.Tactic.FieldSimp
import Mathlib.Algebra.Order.Field.Rat
import Mathlib.Algebra.Order.Field.Basic

namespace Reamber.Timing

/-! ### insertion sort -/

/-- the models' `isort` returns an ascending list, for every total transitive comparison (`Lemmas/Sort.lean`) -/
theorem isort_pairwise {α : Type} (le : α → α → Bool) (total : ∀ a b, le a b = true ∨ le b a = true)
    (trans : ∀ a b c, le a b = true → le b c = true → le a c = true) (l : List α) :
    (isort le l).Pairwise (fun a b => le a b = true) := isort_sorted ⟨total, trans⟩ l

/-- sorting an already ascending list changes nothing (Python's `list.sort` on sorted input) -/
theorem isort_eq_self {α : Type} (le : α → α → Bool) {l : List α} (h : l.Pairwise (fun a b => le a b = true)) :
    isort le l = l := isort_of_sorted h

/-! ### the grid -/

/-- what the theorems need of a value array: ascending, inside [0, 1], containing 0 and 1 -/
structure GridOK (g : Array Rat) : Prop where
  asc : g.toList.Pairwise (fun a b => a ≤ b)
  bounds : ∀ z ∈ g.toList, 0 ≤ z ∧ z ≤ 1
  zero_mem : (0 : Rat) ∈ g.toList
  one_mem : (1 : Rat) ∈ g.toList

theorem gridPairs_bounds {N : Nat} {z : Rat} (h : z ∈ gridPairs N) : 0 ≤ z ∧ z < 1 := by
  unfold gridPairs at h
  simp only [List.mem_flatMap, List.mem_range, List.mem_filterMap] at h
  obtain ⟨i, _, n, hn, hz⟩ := h
  split at hz
  · cases hz
  · cases hz
    have hd : (0 : Rat) < ((i + 1 : Nat) : Rat) := by exact_mod_cast Nat.succ_pos i
    have hnd : ((n : Nat) : Rat) < ((i + 1 : Nat) : Rat) := by exact_mod_cast hn
    have hn0 : (0 : Rat) ≤ ((n : Nat) : Rat) := by exact_mod_cast Nat.zero_le n
    exact ⟨div_nonneg hn0 (le_of_lt hd), (div_lt_one hd).mpr hnd⟩

theorem zero_mem_gridPairs {N : Nat} (h : 0 < N) : (0 : Rat) ∈ gridPairs N := by
  unfold gridPairs
  simp only [List.mem_flatMap, List.mem_range, List.mem_filterMap]
  refine ⟨0, h, 0, by omega, ?_⟩
  simp

theorem grid_asc (N : Nat) : (grid N).Pairwise (fun a b => a ≤ b) := by
  unfold grid
  rw [List.pairwise_append]
  refine ⟨?_, by simp, ?_⟩
  · have := isort_pairwise (fun a b : Rat => decide (a ≤ b))
      (by intro a b; simp only [decide_eq_true_eq]; exact le_total a b)
      (by intro a b c; simp only [decide_eq_true_eq]; exact le_trans) (gridPairs N)
    simpa using this
  · intro a ha b hb
    simp only [List.mem_singleton] at hb
    rw [hb]
    exact le_of_lt (gridPairs_bounds (mem_isort.mp ha)).2

theorem grid_bounds {N : Nat} {z : Rat} (h : z ∈ grid N) : 0 ≤ z ∧ z ≤ 1 := by
  unfold grid at h
  rcases List.mem_append.mp h with h | h
  · have := gridPairs_bounds (mem_isort.mp h)
    exact ⟨this.1, le_of_lt this.2⟩
  · simp only [List.mem_singleton] at h
    rw [h]; exact ⟨by decide, le_refl _⟩

theorem one_mem_grid (N : Nat) : (1 : Rat) ∈ grid N := by simp [grid]

theorem zero_mem_grid {N : Nat} (h : 0 < N) : (0 : Rat) ∈ grid N := by
  unfold grid
  exact List.mem_append_left _ (mem_isort.mpr (zero_mem_gridPairs h))

/-- the last value of every grid is 1 -/
theorem grid_getLast (N : Nat) : (grid N).getLast? = some 1 := by simp [grid]

/-- the first value of every grid (N ≥ 1) is 0 -/
theorem grid_head {N : Nat} (h : 0 < N) : (grid N).head? = some 0 := by
  have hz := zero_mem_grid h
  have hasc := grid_asc N
  cases hg : grid N with
  | nil => rw [hg] at hz; cases hz
  | cons a t =>
    rw [hg] at hz hasc
    have ha : 0 ≤ a := (grid_bounds (N := N) (by rw [hg]; simp)).1
    have : a ≤ 0 := by
      rcases List.mem_cons.mp hz with e | hm
      · exact le_of_eq e.symm
      · exact (List.pairwise_cons.mp hasc).1 0 hm
    simp [le_antisymm this ha]

/-- **`grid N` is a valid value array for every N ≥ 1** (in particular for `max(DEFAULT_DIVISIONS) = 96`) -/
theorem gridOK_grid {N : Nat} (h : 0 < N) : GridOK (grid N).toArray :=
  ⟨grid_asc N, fun _ hz => grid_bounds hz, zero_mem_grid h, one_mem_grid N⟩

/-! ### bisect_left -/

theorem getD_of_lt {g : Array Rat} {i : Nat} (h : i < g.size) : g.getD i 0 = g.toList[i]'(by simpa using h) := by
  simp [Array.getD, h]

theorem getD_mem {g : Array Rat} {i : Nat} (h : i < g.size) : g.getD i 0 ∈ g.toList := by
  rw [getD_of_lt h]; exact List.getElem_mem _

theorem exists_getD_of_mem {g : Array Rat} {z : Rat} (h : z ∈ g.toList) : ∃ j, j < g.size ∧ g.getD j 0 = z := by
  obtain ⟨j, hj, e⟩ := List.getElem_of_mem h
  have hj' : j < g.size := by simpa using hj
  exact ⟨j, hj', by rw [getD_of_lt hj']; exact e⟩

theorem getD_mono {g : Array Rat} (h : g.toList.Pairwise (fun a b => a ≤ b)) :
    ∀ i j, i ≤ j → j < g.size → g.getD i 0 ≤ g.getD j 0 := by
  intro i j hij hj
  rcases Nat.eq_or_lt_of_le hij with rfl | hlt
  · exact le_refl _
  · have hi : i < g.size := by omega
    rw [getD_of_lt hi, getD_of_lt hj]
    exact (List.pairwise_iff_getElem.mp h) i j (by simpa using hi) (by simpa using hj) hlt

theorem bisectLoop_spec (a : Array Rat) (x : Rat)
    (hmono : ∀ i j, i ≤ j → j < a.size → a.getD i 0 ≤ a.getD j 0) :
    ∀ fuel lo hi, lo ≤ hi → hi ≤ a.size → hi - lo ≤ fuel →
      (∀ i, i < lo → a.getD i 0 < x) → (∀ i, hi ≤ i → i < a.size → x ≤ a.getD i 0) →
      lo ≤ bisectLoop a x fuel lo hi ∧ bisectLoop a x fuel lo hi ≤ hi ∧
      (∀ i, i < bisectLoop a x fuel lo hi → a.getD i 0 < x) ∧
      (∀ i, bisectLoop a x fuel lo hi ≤ i → i < a.size → x ≤ a.getD i 0) := by
  intro fuel
  induction fuel with
  | zero =>
    intro lo hi h1 h2 h3 hl hr
    have : hi = lo := by omega
    subst this
    simp only [bisectLoop]
    exact ⟨le_refl _, le_refl _, hl, hr⟩
  | succ n ih =>
    intro lo hi h1 h2 h3 hl hr
    unfold bisectLoop
    by_cases hlt : lo < hi
    · simp only [hlt, if_true]
      have hmid : (lo + hi) / 2 < a.size := by omega
      by_cases hc : a.getD ((lo + hi) / 2) 0 < x
      · simp only [hc, if_true]
        have := ih ((lo + hi) / 2 + 1) hi (by omega) h2 (by omega)
          (by intro i hi'; exact lt_of_le_of_lt (hmono i ((lo + hi) / 2) (by omega) hmid) hc) hr
        exact ⟨by omega, this.2.1, this.2.2.1, this.2.2.2⟩
      · simp only [hc, if_false]
        have := ih lo ((lo + hi) / 2) (by omega) (by omega) (by omega) hl
          (by intro i hi' hi''; exact le_trans (not_lt.mp hc) (hmono ((lo + hi) / 2) i hi' hi''))
        exact ⟨this.1, by omega, this.2.2.1, this.2.2.2⟩
    · simp only [hlt, if_false]
      have : hi = lo := by omega
      subst this
      exact ⟨le_refl _, le_refl _, hl, hr⟩

/-- **`bisect_left` on an ascending array returns the partition point**: everything before it is `< x`,
everything from it on is `≥ x`. -/
theorem bisectLeft_spec (a : Array Rat) (x : Rat) (hasc : a.toList.Pairwise (fun a b => a ≤ b)) :
    bisectLeft a x ≤ a.size ∧ (∀ i, i < bisectLeft a x → a.getD i 0 < x) ∧
    (∀ i, bisectLeft a x ≤ i → i < a.size → x ≤ a.getD i 0) := by
  have := bisectLoop_spec a x (getD_mono hasc) (a.size + 1) 0 a.size (Nat.zero_le _) (le_refl _) (by omega)
    (by intro i hi; omega) (by intro i h1 h2; omega)
  exact ⟨this.2.1, this.2.2.1, this.2.2.2⟩

/-! ### Snapper.snap -/

theorem rabs_of_nonneg {x : Rat} (h : 0 ≤ x) : rabs x = x := by
  unfold rabs; rw [if_neg (not_lt.mpr h)]

theorem rabs_of_nonpos {x : Rat} (h : x ≤ 0) : rabs x = -x := by
  unfold rabs
  by_cases h0 : x < 0
  · rw [if_pos h0]
  · have : x = 0 := le_antisymm h (not_lt.mp h0)
    rw [if_neg h0, this]; rfl

theorem frac_add_floor (x : Rat) : frac x + (ffloor x : Rat) = x := by unfold frac ffloor; ring

theorem frac_nonneg (x : Rat) : 0 ≤ frac x := by
  unfold frac; have := Rat.floor_le x; linarith

theorem frac_lt_one (x : Rat) : frac x < 1 := by
  unfold frac
  have := Rat.lt_floor_add_one x
  push_cast at this
  linarith

/-- the partition point lies inside the array when some value is at or above the remainder -/
theorem bisectLeft_lt_size {g : Array Rat} (hasc : g.toList.Pairwise (fun a b => a ≤ b)) {r : Rat}
    (hl : ∃ z ∈ g.toList, r ≤ z) : bisectLeft g r < g.size := by
  obtain ⟨z, hz, hrz⟩ := hl
  obtain ⟨j, hj, e⟩ := exists_getD_of_mem hz
  have hs := bisectLeft_spec g r hasc
  by_cases h : bisectLeft g r ≤ j
  · omega
  · have := hs.2.1 j (by omega)
    rw [e] at this
    exact absurd hrz (not_le.mpr this)

/-- **Between two neighbours** `g[i] < frac x ≤ g[i+1]` the snapper returns the left one only if it is strictly
nearer — a tie goes to the right neighbour. -/
theorem snapOn_between {g : Array Rat} (hasc : g.toList.Pairwise (fun a b => a ≤ b)) (x : Rat) (i : Nat)
    (hi : i + 1 < g.size) (hL : g.getD i 0 < frac x) (hR : frac x ≤ g.getD (i + 1) 0) :
    snapOn g x = (if frac x - g.getD i 0 < g.getD (i + 1) 0 - frac x then g.getD i 0 else g.getD (i + 1) 0)
      + (ffloor x : Rat) := by
  have hs := bisectLeft_spec g (frac x) hasc
  have hix : bisectLeft g (frac x) = i + 1 := by
    have h1 : i < bisectLeft g (frac x) := by
      by_contra hc
      have := hs.2.2 i (by omega) (by omega)
      exact absurd hL (not_lt.mpr this)
    have h2 : bisectLeft g (frac x) ≤ i + 1 := by
      by_contra hc
      have := hs.2.1 (i + 1) (by omega)
      exact absurd hR (not_le.mpr this)
    omega
  unfold snapOn
  simp only []
  rw [hix, if_pos (Nat.succ_ne_zero i), Nat.add_sub_cancel]
  by_cases hc : frac x - g.getD i 0 < g.getD (i + 1) 0 - frac x
  · rw [if_pos hc, if_pos hc]
  · rw [if_neg hc, if_neg hc]

theorem snapOn_tie_right {g : Array Rat} (hasc : g.toList.Pairwise (fun a b => a ≤ b)) (x : Rat) (i : Nat)
    (hi : i + 1 < g.size) (hL : g.getD i 0 < frac x) (hR : frac x ≤ g.getD (i + 1) 0)
    (htie : frac x - g.getD i 0 = g.getD (i + 1) 0 - frac x) :
    snapOn g x = g.getD (i + 1) 0 + (ffloor x : Rat) := by
  rw [snapOn_between hasc x i hi hL hR, htie, if_neg (lt_irrefl _)]

/-- **Nearest by bisect.** For ANY ascending value array with a value at or above `frac x` (the appended `1`
guarantees that), `Snapper.snap` returns `⌊x⌋ +` a nearest array value to `frac x`. -/
theorem snapOn_nearest {g : Array Rat} (hasc : g.toList.Pairwise (fun a b => a ≤ b)) (x : Rat)
    (hl : ∃ z ∈ g.toList, frac x ≤ z) : IsNearest g.toList (frac x) (snapOn g x - (ffloor x : Rat)) := by
  have hs := bisectLeft_spec g (frac x) hasc
  have hix := bisectLeft_lt_size hasc hl
  have hmono := getD_mono hasc
  unfold snapOn
  simp only []
  generalize bisectLeft g (frac x) = ix at hs hix
  by_cases h0 : ix = 0
  · subst h0
    simp only [ne_eq, not_true_eq_false, if_false, add_sub_cancel_right]
    refine ⟨getD_mem hix, ?_⟩
    intro z hz
    obtain ⟨j, hj, rfl⟩ := exists_getD_of_mem hz
    have h1 := hs.2.2 0 (le_refl _) hix
    have h2 := hmono 0 j (Nat.zero_le _) hj
    rw [rabs_of_nonneg (by linarith), rabs_of_nonneg (by linarith)]
    linarith
  · have hLlt := hs.2.1 (ix - 1) (by omega)
    have hRge := hs.2.2 ix (le_refl _) hix
    have key : ∀ z ∈ g.toList, (z ≤ g.getD (ix - 1) 0 ∨ g.getD ix 0 ≤ z) := by
      intro z hz
      obtain ⟨j, hj, rfl⟩ := exists_getD_of_mem hz
      by_cases hji : j ≤ ix - 1
      · exact Or.inl (hmono j (ix - 1) hji (by omega))
      · exact Or.inr (hmono ix j (by omega) hj)
    simp only [ne_eq, h0, not_false_eq_true, if_true]
    by_cases hc : frac x - g.getD (ix - 1) 0 < g.getD ix 0 - frac x
    · simp only [hc, if_true, add_sub_cancel_right]
      refine ⟨getD_mem (by omega), ?_⟩
      intro z hz
      rw [rabs_of_nonpos (by linarith)]
      rcases key z hz with h | h
      · rw [rabs_of_nonpos (by linarith)]; linarith
      · rw [rabs_of_nonneg (by linarith)]; linarith
    · simp only [hc, if_false, add_sub_cancel_right]
      refine ⟨getD_mem hix, ?_⟩
      intro z hz
      rw [rabs_of_nonneg (by linarith)]
      rcases key z hz with h | h
      · rw [rabs_of_nonpos (by linarith)]; linarith
      · rw [rabs_of_nonneg (by linarith)]; linarith

/-- **Grid values are fixed points**: if `frac x` is a value of the (ascending) array, snapping returns `x`. -/
theorem snapOn_fix {g : Array Rat} (hasc : g.toList.Pairwise (fun a b => a ≤ b)) (x : Rat)
    (hmem : frac x ∈ g.toList) : snapOn g x = x := by
  have hs := bisectLeft_spec g (frac x) hasc
  have hix := bisectLeft_lt_size hasc ⟨frac x, hmem, le_refl _⟩
  obtain ⟨j, hj, e⟩ := exists_getD_of_mem hmem
  have hmono := getD_mono hasc
  have hle : bisectLeft g (frac x) ≤ j := by
    by_contra hc
    have := hs.2.1 j (by omega)
    rw [e] at this
    exact absurd this (lt_irrefl _)
  have heq : g.getD (bisectLeft g (frac x)) 0 = frac x := by
    have h1 := hs.2.2 _ (le_refl _) hix
    have h2 := hmono _ j hle hj
    rw [e] at h2
    exact le_antisymm h2 h1
  unfold snapOn
  simp only []
  generalize bisectLeft g (frac x) = ix at hs hix heq
  by_cases h0 : ix = 0
  · subst h0
    simp only [ne_eq, not_true_eq_false, if_false, heq]
    exact frac_add_floor x
  · have hLlt := hs.2.1 (ix - 1) (by omega)
    have hc : ¬ (frac x - g.getD (ix - 1) 0 < g.getD ix 0 - frac x) := by rw [heq]; linarith
    simp only [ne_eq, h0, not_false_eq_true, if_true]
    rw [if_neg hc, heq]
    exact frac_add_floor x

theorem floor_eq_of {x : Rat} {n : Int} (h1 : (n : Rat) ≤ x) (h2 : x < (n : Rat) + 1) : x.floor = n := by
  have a : n ≤ x.floor := Rat.le_floor_iff.mpr h1
  have b : x.floor < n + 1 := by
    apply Rat.floor_lt_iff.mpr
    push_cast
    exact h2
  omega

/-- the snapped value's fractional part is again a value of the array -/
theorem frac_snapOn_mem {g : Array Rat} (hg : GridOK g) (x : Rat) : frac (snapOn g x) ∈ g.toList := by
  have hn := snapOn_nearest hg.asc x ⟨1, hg.one_mem, le_of_lt (frac_lt_one x)⟩
  have hy := hn.1
  have hb := hg.bounds _ hy
  generalize hyv : snapOn g x - (ffloor x : Rat) = y at hy hb
  have hx : snapOn g x = y + (ffloor x : Rat) := by rw [← hyv]; ring
  rw [hx]
  by_cases h1 : y < 1
  · have hf : (y + (ffloor x : Rat)).floor = ffloor x := floor_eq_of (by linarith) (by linarith)
    have : frac (y + (ffloor x : Rat)) = y := by unfold frac; rw [hf]; ring
    rw [this]; exact hy
  · have hy1 : y = 1 := le_antisymm hb.2 (not_lt.mp h1)
    have hf : (y + (ffloor x : Rat)).floor = ffloor x + 1 := floor_eq_of (by push_cast; linarith) (by push_cast; linarith)
    have : frac (y + (ffloor x : Rat)) = 0 := by unfold frac; rw [hf, hy1]; push_cast; ring
    rw [this]; exact hg.zero_mem

/-- **Snapping is idempotent.** -/
theorem snapOn_idem {g : Array Rat} (hg : GridOK g) (x : Rat) : snapOn g (snapOn g x) = snapOn g x :=
  snapOn_fix hg.asc _ (frac_snapOn_mem hg x)

/-! ### error bound: every `k/N` is a value of `grid N`, so a nearest value is within `1/(2N)` -/

theorem div_mem_gridPairs {N k : Nat} (hk : k < N) : ((k : Rat) / (N : Rat)) ∈ gridPairs N := by
  rcases Nat.eq_zero_or_pos k with rfl | hk0
  · simpa using zero_mem_gridPairs (by omega : 0 < N)
  · have hg : 0 < Nat.gcd k N := Nat.gcd_pos_of_pos_left _ hk0
    obtain ⟨n, hn⟩ := Nat.gcd_dvd_left k N
    obtain ⟨d, hd⟩ := Nat.gcd_dvd_right k N
    have hcop : Nat.gcd n d = 1 := by
      have := Nat.coprime_div_gcd_div_gcd hg
      rwa [Nat.div_eq_of_eq_mul_right hg hn, Nat.div_eq_of_eq_mul_right hg hd] at this
    have hn0 : 0 < n := by
      rcases Nat.eq_zero_or_pos n with h | h
      · rw [h] at hn; omega
      · exact h
    have hnd : n < d := by
      have : Nat.gcd k N * n < Nat.gcd k N * d := by rw [← hn, ← hd]; exact hk
      exact Nat.lt_of_mul_lt_mul_left this
    have hdN : d ≤ N := by
      rw [hd]; exact Nat.le_mul_of_pos_left d hg
    unfold gridPairs
    simp only [List.mem_flatMap, List.mem_range, List.mem_filterMap]
    refine ⟨d - 1, by omega, n, by omega, ?_⟩
    have hd1 : d - 1 + 1 = d := by omega
    rw [hd1]
    have hcond : ¬ ((n = 0 ∧ d ≠ 1) ∨ Nat.gcd n d ≠ 1) := by
      intro h; rcases h with h | h
      · omega
      · exact h hcop
    rw [if_neg hcond]
    congr 1
    have hgq : ((Nat.gcd k N : Nat) : Rat) ≠ 0 := by exact_mod_cast (ne_of_gt hg)
    have hkq : (k : Rat) = ((Nat.gcd k N : Nat) : Rat) * (n : Rat) := by exact_mod_cast hn
    have hNq : (N : Rat) = ((Nat.gcd k N : Nat) : Rat) * (d : Rat) := by exact_mod_cast hd
    rw [hkq, hNq, mul_div_mul_left _ _ hgq]

theorem div_mem_grid {N k : Nat} (hk : k ≤ N) (hN : 0 < N) : ((k : Rat) / (N : Rat)) ∈ grid N := by
  rcases Nat.eq_or_lt_of_le hk with rfl | hlt
  · have : ((k : Nat) : Rat) ≠ 0 := by exact_mod_cast (ne_of_gt hN)
    rw [div_self this]; exact one_mem_grid k
  · unfold grid
    exact List.mem_append_left _ (mem_isort.mpr (div_mem_gridPairs hlt))

theorem rabs_le_of {x b : Rat} (h1 : x ≤ b) (h2 : -b ≤ x) : rabs x ≤ b := by
  unfold rabs; split <;> linarith

theorem rabs_nonneg (x : Rat) : 0 ≤ rabs x := by unfold rabs; split <;> linarith

/-- **Error bound**: a nearest value of `grid N` to a number `r ∈ [0, 1)` is within `1/(2N)` of it. -/
theorem nearest_grid_err {N : Nat} (hN : 0 < N) {r y : Rat} (hr0 : 0 ≤ r) (hr1 : r < 1)
    (hy : IsNearest (grid N) r y) : rabs (y - r) ≤ 1 / (2 * (N : Rat)) := by
  have hNq : (0 : Rat) < (N : Rat) := by exact_mod_cast hN
  -- k = ⌊r·N⌋
  have hk0 : 0 ≤ (r * N).floor := Rat.le_floor_iff.mpr (by simpa using mul_nonneg hr0 hNq.le)
  obtain ⟨k, hk⟩ := Int.eq_ofNat_of_zero_le hk0
  have hfl := Rat.floor_le (r * N)
  have hfu := Rat.lt_floor_add_one (r * N)
  rw [hk] at hfl hfu
  push_cast at hfl hfu
  have hkN : k < N := by
    have : (k : Rat) < (N : Rat) := by nlinarith
    exact_mod_cast this
  have h1 := hy.2 _ (div_mem_grid (le_of_lt hkN) hN)
  have h2 := hy.2 _ (div_mem_grid (k := k + 1) (by omega) hN)
  have ha : (k : Rat) / N ≤ r := by rw [div_le_iff₀ hNq]; exact hfl
  have hb : r < ((k + 1 : Nat) : Rat) / N := by rw [lt_div_iff₀ hNq]; push_cast; exact hfu
  rw [rabs_of_nonpos (show (k : Rat) / N - r ≤ 0 by linarith)] at h1
  rw [rabs_of_nonneg (show 0 ≤ ((k + 1 : Nat) : Rat) / N - r by linarith)] at h2
  have hsum : ((k + 1 : Nat) : Rat) / N - (k : Rat) / N = 1 / N := by push_cast; field_simp; ring
  have h12 : (1 : Rat) / (2 * N) = (1 / N) / 2 := by field_simp
  rw [h12]
  linarith

/-- **`Snapper.snap` moves a beat by at most `1/(2N)`** (N = 96: 1/192 beat). -/
theorem snapOn_grid_err {N : Nat} (hN : 0 < N) (x : Rat) :
    rabs (snapOn (grid N).toArray x - x) ≤ 1 / (2 * (N : Rat)) := by
  have hg := gridOK_grid hN
  have hn := snapOn_nearest hg.asc x ⟨1, hg.one_mem, le_of_lt (frac_lt_one x)⟩
  have := nearest_grid_err hN (frac_nonneg x) (frac_lt_one x) hn
  have e : snapOn (grid N).toArray x - (ffloor x : Rat) - frac x = snapOn (grid N).toArray x - x := by
    have := frac_add_floor x; linarith
  rwa [e] at this

theorem snapOn_eq_self_iff {g : Array Rat} (hg : GridOK g) (x : Rat) : snapOn g x = x ↔ frac x ∈ g.toList :=
  ⟨fun h => by have := frac_snapOn_mem hg x; rwa [h] at this, snapOn_fix hg.asc x⟩

end Reamber.Timing
