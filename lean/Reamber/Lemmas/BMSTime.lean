/-
K1 for constant-metronome tempo lists (what a 4/4 BMS file produces): the cumulative offsets of
`from_bpm_changes_snap` are the change times of `timeAt`, and the per-query lookup of `TimingMap.offsets`
returns `timeAt` — provided the re-derived tempo positions are the original ones (`bcsOfBco g tm = (tm, cs)`,
which `GridCompatible` is meant to guarantee; D22 is its failure).
-/
import Reamber.Lemmas.Sweep
import Reamber.Spec.Timing
import Mathlib.Tactic.Ring
import Mathlib.Tactic.Linarith
import Mathlib.Algebra.Order.Field.Rat

namespace Reamber.Timing

/-- a tempo change of a constant-metronome list: normalised position, metronome `M` -/
def GoodChange (M : Rat) (c : BcSnap) : Prop :=
  c.met = M ∧ c.snap.met = some M ∧ 0 ≤ c.snap.beat ∧ c.snap.beat < M ∧ 0 ≤ c.snap.measure

/-- positions weakly ascending -/
def ChainLe : BcSnap → List BcSnap → Prop
  | _, [] => True
  | a, b :: rest => a.snap.le b.snap = true ∧ ChainLe b rest

theorem make_spec (m : Int) (b M : Rat) (hM : 0 < M) (hm : 0 ≤ m) (h : 0 ≤ (m : Rat) * M + b) :
    ∃ s, Snap.make m b (some M) = .ok s ∧ (s.measure : Rat) * M + s.beat = (m : Rat) * M + b := by
  unfold Snap.make
  have hm' : ¬ m < 0 := by omega
  simp only [hm', if_false]
  by_cases hc : b < 0 ∨ b ≥ M
  · simp only [hc, if_true]
    have hM0 : ¬ M = 0 := ne_of_gt hM
    simp only [hM0, if_false]
    have hfl : ((b / M).floor : Rat) ≤ b / M := Rat.floor_le _
    have hfl' : M * ((b / M).floor : Rat) ≤ b := by
      have := mul_le_mul_of_nonneg_left hfl (le_of_lt hM)
      rwa [mul_div_cancel₀ b hM0] at this
    have h2 : ¬ (pyMod b M < 0) := by
      unfold pyMod
      linarith
    have hneg : ((-m : Int) : Rat) ≤ b / M := by
      rw [le_div_iff₀ hM]
      push_cast
      linarith
    have hfl2 : -m ≤ (b / M).floor := Rat.le_floor_iff.mpr hneg
    have h3 : ¬ (m + pyFloorDiv b M < 0) := by
      unfold pyFloorDiv
      omega
    have : ¬ (pyMod b M < 0 ∨ m + pyFloorDiv b M < 0) := by
      intro hh; rcases hh with hh | hh
      · exact h2 hh
      · exact h3 hh
    simp only [this, if_false]
    refine ⟨_, rfl, ?_⟩
    simp only [pyMod, pyFloorDiv]
    push_cast
    ring
  · simp only [hc, if_false]
    have hb : ¬ b < 0 := fun hb => hc (Or.inl hb)
    simp only [hb, or_self, if_false]
    exact ⟨_, rfl, rfl⟩

theorem le_cases {a q : Snap} (h : a.le q = true) :
    a.measure < q.measure ∨ (a.measure = q.measure ∧ a.beat ≤ q.beat) := by
  simp only [Snap.le, Snap.lt, Snap.eqv, Bool.or_eq_true, Bool.and_eq_true, decide_eq_true_eq] at h
  rcases h with (h | ⟨h1, h2⟩) | ⟨h1, h2⟩
  · exact Or.inl h
  · exact Or.inr ⟨h1, le_of_lt h2⟩
  · exact Or.inr ⟨h1, le_of_eq h2⟩

/-- `q - c` succeeds for a change at or before `q`, and its length in milliseconds is the beat distance times
the beat length -/
theorem bms_sub_offset (M : Rat) (hM : 0 < M) (c : BcSnap) (q : Snap) (hc : GoodChange M c) (hle : c.snap.le q = true)
    (hq : 0 ≤ q.beat) :
    ∃ d, q.sub c.snap = .ok d ∧ d.offset c.bpm c.met = snapDist c.snap q M * beatLen c.bpm := by
  obtain ⟨hmet, hsm, hb0, hbM, _⟩ := hc
  unfold Snap.sub
  rw [hsm]
  have hcases := le_cases hle
  have hm : 0 ≤ q.measure - c.snap.measure := by rcases hcases with h | ⟨h, _⟩ <;> omega
  have htot : 0 ≤ ((q.measure - c.snap.measure : Int) : Rat) * M + (q.beat - c.snap.beat) := by
    rcases hcases with h | ⟨h, h2⟩
    · have h1 : (1 : Rat) ≤ ((q.measure - c.snap.measure : Int) : Rat) := by
        have : (1 : Int) ≤ q.measure - c.snap.measure := by omega
        exact_mod_cast this
      have : M ≤ ((q.measure - c.snap.measure : Int) : Rat) * M := by
        have := mul_le_mul_of_nonneg_right h1 (le_of_lt hM)
        linarith
      linarith
    · have : ((q.measure - c.snap.measure : Int) : Rat) = 0 := by
        have : q.measure - c.snap.measure = 0 := by omega
        rw [this]; rfl
      rw [this]; linarith
  obtain ⟨s, hs, hval⟩ := make_spec _ _ M hM hm htot
  refine ⟨s, hs, ?_⟩
  unfold Snap.offset measLen snapDist
  rw [hmet]
  have : beatLen c.bpm * M * (s.measure : Rat) + beatLen c.bpm * s.beat = beatLen c.bpm * ((s.measure : Rat) * M + s.beat) := by ring
  rw [this, hval]
  ring

/-- the change times as `timeAt` accumulates them -/
def bmsCumTimes : Rat → BcSnap → List BcSnap → List BcOff
  | _, _, [] => []
  | T, cur, nxt :: rest =>
    let T' := T + snapDist cur.snap nxt.snap cur.met * beatLen cur.bpm
    ⟨nxt.bpm, nxt.met, T'⟩ :: bmsCumTimes T' nxt rest

theorem bms_cumOffsets_eq (M : Rat) (hM : 0 < M) (rest : List BcSnap) :
    ∀ (T : Rat) (cur : BcSnap), GoodChange M cur → (∀ c ∈ rest, GoodChange M c) → ChainLe cur rest →
      cumOffsets T cur rest = .ok (bmsCumTimes T cur rest) := by
  induction rest with
  | nil => intro T cur _ _ _; rfl
  | cons nxt rest ih =>
    intro T cur hcur hall hch
    obtain ⟨hle, hch'⟩ := hch
    have hn : GoodChange M nxt := hall nxt (by simp)
    obtain ⟨d, hd, hoff⟩ := bms_sub_offset M hM cur nxt.snap hcur hle hn.2.2.1
    simp only [cumOffsets, hd, bind, Except.bind, bmsCumTimes]
    have hmet : cur.met = M := hcur.1
    rw [hoff, ih _ nxt hn (fun c hc => hall c (by simp [hc])) hch']
    simp [hmet]

/-- the tempo changes paired with their times, in file (ascending) order -/
def zipTimes (T : Rat) (cur : BcSnap) (rest : List BcSnap) : List (BcSnap × BcOff) :=
  (cur :: rest).zip (⟨cur.bpm, cur.met, T⟩ :: bmsCumTimes T cur rest)

theorem zipTimes_cons (T : Rat) (cur nxt : BcSnap) (rest : List BcSnap) :
    zipTimes T cur (nxt :: rest) =
      (cur, ⟨cur.bpm, cur.met, T⟩) :: zipTimes (T + snapDist cur.snap nxt.snap cur.met * beatLen cur.bpm) nxt rest := by
  simp [zipTimes, bmsCumTimes]

theorem Snap.gt_of_gt_of_le' {a p q : Snap} (h : a.gt q = true) (hle : a.le p = true) : p.gt q = true := by
  simp only [Snap.gt, Snap.le, Snap.lt, Snap.eqv, Bool.and_eq_true, Bool.not_eq_true', Bool.or_eq_true,
    Bool.or_eq_false_iff, Bool.and_eq_false_iff, decide_eq_true_eq, decide_eq_false_iff_not] at *
  grind

theorem gt_eq_not_le (a b : Snap) : a.gt b = !(a.le b) := by
  simp [Snap.gt, Snap.le, Bool.not_or]

theorem dropWhile_all {α} (p : α → Bool) (l : List α) (h : ∀ x ∈ l, p x = true) : l.dropWhile p = [] := by
  induction l with
  | nil => rfl
  | cons a t ih =>
    rw [List.dropWhile_cons, h a (by simp)]
    exact ih (fun x hx => h x (by simp [hx]))

theorem lookupOffset_append_left (A B : List (BcSnap × BcOff)) (q : Snap)
    (h : A.dropWhile (fun p => p.1.snap.gt q) ≠ []) : lookupOffset (A ++ B) q = lookupOffset A q := by
  unfold lookupOffset
  rw [List.dropWhile_append]
  cases hA : A.dropWhile (fun p => p.1.snap.gt q) with
  | nil => exact absurd hA h
  | cons x xs => simp

theorem lookupOffset_append_right (A B : List (BcSnap × BcOff)) (q : Snap)
    (h : A.dropWhile (fun p => p.1.snap.gt q) = []) : lookupOffset (A ++ B) q = lookupOffset B q := by
  unfold lookupOffset
  rw [List.dropWhile_append, h]
  simp

theorem chain_all_ge (cur : BcSnap) (rest : List BcSnap) (h : ChainLe cur rest) : ∀ c ∈ rest, cur.snap.le c.snap = true := by
  induction rest generalizing cur with
  | nil => intro c hc; cases hc
  | cons b t ih =>
    intro c hc
    rcases List.mem_cons.mp hc with e | hm
    · rw [e]; exact h.1
    · exact Snap.le_trans h.1 (ih b h.2 c hm)

theorem mem_zipTimes_fst (T : Rat) (cur : BcSnap) (rest : List BcSnap) (p : BcSnap × BcOff) (h : p ∈ zipTimes T cur rest) :
    p.1 = cur ∨ p.1 ∈ rest := by
  have := List.of_mem_zip h
  simpa using this.1

/-- **The lookup of `TimingMap.offsets` is `timeAt`** for a constant-metronome tempo list. -/
theorem lookupOffset_eq_timeAtAux (M : Rat) (hM : 0 < M) (q : Snap) (hq : 0 ≤ q.beat) (rest : List BcSnap) :
    ∀ (T : Rat) (cur : BcSnap), GoodChange M cur → (∀ c ∈ rest, GoodChange M c) → ChainLe cur rest →
      cur.snap.le q = true →
      lookupOffset (zipTimes T cur rest).reverse q = .ok (timeAtAux T cur rest q) := by
  induction rest with
  | nil =>
    intro T cur hcur _ _ hle
    obtain ⟨d, hd, hoff⟩ := bms_sub_offset M hM cur q hcur hle hq
    have hgt : cur.snap.gt q = false := by rw [gt_eq_not_le, hle]; rfl
    rw [hcur.1] at hoff
    simp only [zipTimes, bmsCumTimes, List.zip_cons_cons, List.zip_nil_right, List.reverse_cons, List.reverse_nil, List.nil_append,
      lookupOffset, List.dropWhile_cons, hgt, Bool.false_eq_true, if_false, hd, bind, Except.bind, timeAtAux, hoff, hcur.1]
  | cons nxt rest ih =>
    intro T cur hcur hall hch hle
    obtain ⟨hcn, hch'⟩ := hch
    have hn : GoodChange M nxt := hall nxt (by simp)
    have hall' : ∀ c ∈ rest, GoodChange M c := fun c hc => hall c (by simp [hc])
    rw [zipTimes_cons, List.reverse_cons]
    by_cases hnq : nxt.snap.le q = true
    · have hih := ih (T + snapDist cur.snap nxt.snap cur.met * beatLen cur.bpm) nxt hn hall' hch' hnq
      have hne : (zipTimes (T + snapDist cur.snap nxt.snap cur.met * beatLen cur.bpm) nxt rest).reverse.dropWhile
          (fun p => p.1.snap.gt q) ≠ [] := by
        intro hnil
        unfold lookupOffset at hih
        rw [hnil] at hih
        cases hih
      rw [lookupOffset_append_left _ _ _ hne, hih]
      simp [timeAtAux, hnq]
    · have hgt : nxt.snap.gt q = true := by
        rw [gt_eq_not_le]
        cases hv : nxt.snap.le q with
        | true => exact absurd hv hnq
        | false => rfl
      have hallgt : ∀ p ∈ (zipTimes (T + snapDist cur.snap nxt.snap cur.met * beatLen cur.bpm) nxt rest).reverse,
          (fun p : BcSnap × BcOff => p.1.snap.gt q) p = true := by
        intro p hp
        have hp' := mem_zipTimes_fst _ _ _ p (List.mem_reverse.mp hp)
        rcases hp' with e | hm
        · simp only [e, hgt]
        · have hge := chain_all_ge nxt rest hch' p.1 hm
          exact Snap.gt_of_gt_of_le' hgt hge
      rw [lookupOffset_append_right _ _ _ (dropWhile_all _ _ hallgt)]
      obtain ⟨d, hd, hoff⟩ := bms_sub_offset M hM cur q hcur hle hq
      have hgtc : cur.snap.gt q = false := by rw [gt_eq_not_le, hle]; rfl
      rw [hcur.1] at hoff
      have hnq' : nxt.snap.le q = false := by
        cases hv : nxt.snap.le q with
        | true => exact absurd hv hnq
        | false => rfl
      simp only [lookupOffset, List.dropWhile_cons, hgtc, Bool.false_eq_true, if_false, hd, bind, Except.bind, timeAtAux, hoff,
        hcur.1, hnq']

theorem lt_false_of_le {a b : Snap} (h : a.le b = true) : b.lt a = false := by
  simp only [Snap.le, Snap.lt, Snap.eqv, Bool.or_eq_true, Bool.and_eq_true, decide_eq_true_eq, Bool.or_eq_false_iff,
    Bool.and_eq_false_iff, decide_eq_false_iff_not] at *
  grind

/-- sorting an ascending list changes nothing (`list.sort` is stable, so is `isort`) -/
theorem sortBcSnap_chain (c0 : BcSnap) (rest : List BcSnap) (h : ChainLe c0 rest) : sortBcSnap (c0 :: rest) = c0 :: rest := by
  induction rest generalizing c0 with
  | nil => rfl
  | cons b t ih =>
    have hb := ih b h.2
    unfold sortBcSnap isort at *
    rw [List.foldr_cons, hb]
    simp [insertBy, lt_false_of_le h.1]

end Reamber.Timing
