/-
K1 — executable model of reamberPy's timing engine, *as written*:

  reamber/algorithms/timing/utils/snap.py                      (Snap, __post_init__, __sub__, offset, from_offset)
  reamber/algorithms/timing/utils/Snapper.py                   (grid construction, bisect_left + tie rule)
  reamber/algorithms/timing/utils/from_bpm_changes_snap.py     (cumulative offsets)
  reamber/algorithms/timing/utils/bpm_changes_offset_to_snap.py(re-derivation of the snaps on every query)
  reamber/algorithms/timing/utils/reseat_bpm_changes_snap.py   (the three-branch while loop)
  reamber/algorithms/timing/utils/find_lcm.py                  (double loop with in-place None marking)
  reamber/algorithms/timing/TimingMap.py                       (offsets / snaps / beats: reverse pointer sweep + un-permutation)

Numbers are exact rationals (core `Rat`).  Python floor division / modulo are `pyFloorDiv` / `pyMod`.
Python exceptions are the `Err` enum.  No Mathlib imports: this file is linked into the driver.
-/

namespace Reamber.Timing

inductive Err where
  | value     -- ValueError ("Failed to yield positive Snap", "first bpm must be on Measure 0")
  | index     -- IndexError ("Failed to find BPM for snap/offset")
  | zeroDiv   -- ZeroDivisionError
  | other
deriving Repr, DecidableEq, Inhabited

def Err.toString : Err → String
  | .value => "value" | .index => "index" | .zeroDiv => "zerodiv" | .other => "other"

/-- `[f x for x in l]` where `f` may raise: the first failure wins -/
def mapE {α β} (f : α → Except Err β) : List α → Except Err (List β)
  | [] => .ok []
  | a :: t => do
    let b ← f a
    let r ← mapE f t
    .ok (b :: r)

/-- stable insertion sort (structural recursion, so the kernel can evaluate it); `le x y` = "x may precede y" -/
def insertBy {α} (le : α → α → Bool) (x : α) : List α → List α
  | [] => [x]
  | y :: ys => if le x y then x :: y :: ys else y :: insertBy le x ys

def isort {α} (le : α → α → Bool) (l : List α) : List α := l.foldr (insertBy le) []

/-- Python `a // b` on rationals (result as an integer). -/
def pyFloorDiv (a b : Rat) : Int := (a / b).floor
/-- Python `a % b` on rationals. -/
def pyMod (a b : Rat) : Rat := a - b * ((a / b).floor : Int)
/-- `x // 1` and `x % 1`. -/
def ffloor (x : Rat) : Int := x.floor
def frac (x : Rat) : Rat := x - (x.floor : Int)

/-- `RAConst.MIN_TO_MSEC` -/
def minToMsec : Rat := 60000

def beatLen (bpm : Rat) : Rat := minToMsec / bpm
def measLen (bpm met : Rat) : Rat := beatLen bpm * met

structure Snap where
  measure : Int
  beat : Rat
  met : Option Rat
deriving Repr, DecidableEq, Inhabited

/-- `Snap.__lt__` : lexicographic on (measure, beat); the metronome is ignored. -/
def Snap.lt (a b : Snap) : Bool :=
  decide (a.measure < b.measure) || (decide (a.measure = b.measure) && decide (a.beat < b.beat))
/-- `Snap.__eq__` -/
def Snap.eqv (a b : Snap) : Bool := decide (a.measure = b.measure) && decide (a.beat = b.beat)
/-- `a > b` as derived by `functools.total_ordering` from `__lt__` and `__eq__`. -/
def Snap.gt (a b : Snap) : Bool := !(a.lt b) && !(a.eqv b)
def Snap.le (a b : Snap) : Bool := a.lt b || a.eqv b

/-- `Snap(measure, beat, metronome)` followed by `__post_init__`, including its carry and its raise. -/
def Snap.make (m : Int) (b : Rat) (met : Option Rat) : Except Err Snap :=
  match met with
  | none => .ok ⟨m, b, none⟩
  | some M =>
    let b1 : Rat := if m < 0 then b + (m : Rat) * M else b
    if b1 < 0 ∨ b1 ≥ M then
      if M = 0 then .error .zeroDiv else
      let m2 : Int := m + pyFloorDiv b1 M
      let b2 : Rat := pyMod b1 M
      if b2 < 0 ∨ m2 < 0 then .error .value else .ok ⟨m2, b2, some M⟩
    else
      if b1 < 0 ∨ m < 0 then .error .value else .ok ⟨m, b1, some M⟩

/-- `self - other` : the metronome of the *right* operand is used. -/
def Snap.sub (a b : Snap) : Except Err Snap := Snap.make (a.measure - b.measure) (a.beat - b.beat) b.met

/-- `Snap.offset(bpm_active)` -/
def Snap.offset (s : Snap) (bpm met : Rat) : Rat := measLen bpm met * (s.measure : Rat) + beatLen bpm * s.beat

structure BcSnap where
  bpm : Rat
  met : Rat
  snap : Snap
deriving Repr, DecidableEq, Inhabited

structure BcOff where
  bpm : Rat
  met : Rat
  offset : Rat
deriving Repr, DecidableEq, Inhabited

/-! ### Snapper -/

/-- What `Snapper.__init__` builds for `max(divisions) = N`: every reduced `n/d` with `0 ≤ n < d ≤ N`
(zero only as `0/1`), sorted ascending, followed by `1`. (The `divisions` tuple is used only through its max.) -/
def gridPairs (N : Nat) : List Rat :=
  (List.range N).flatMap fun i =>
    let d := i + 1
    (List.range d).filterMap fun n =>
      if (n = 0 ∧ d ≠ 1) ∨ Nat.gcd n d ≠ 1 then none else some ((n : Rat) / (d : Rat))

def grid (N : Nat) : List Rat := isort (fun a b => decide (a ≤ b)) (gridPairs N) ++ [1]

/-- `bisect.bisect_left(a, x)` — the standard-library loop. -/
def bisectLoop (a : Array Rat) (x : Rat) : Nat → Nat → Nat → Nat
  | 0, lo, _ => lo
  | fuel + 1, lo, hi =>
    if lo < hi then
      let mid := (lo + hi) / 2
      if a.getD mid 0 < x then bisectLoop a x fuel (mid + 1) hi else bisectLoop a x fuel lo mid
    else lo

def bisectLeft (a : Array Rat) (x : Rat) : Nat := bisectLoop a x (a.size + 1) 0 a.size

/-- `Snapper.snap(beat)` on the value array `g`. -/
def snapOn (g : Array Rat) (x : Rat) : Rat :=
  let quo := ffloor x
  let rem := frac x
  let ix := bisectLeft g rem
  let ix' :=
    if ix ≠ 0 then
      let left := rem - g.getD (ix - 1) 0
      let right := g.getD ix 0 - rem
      if left < right then ix - 1 else ix
    else ix
  g.getD ix' 0 + (quo : Rat)

/-- `max(DEFAULT_DIVISIONS)` — checked against the source by the translator (`Generated/Consts.lean`). -/
def defaultMaxDiv : Nat := 96

def defaultGrid : Array Rat := (grid defaultMaxDiv).toArray

/-! ### sorting (Python `list.sort(key=…)` is stable; so is `isort`) -/

def sortBcSnap (l : List BcSnap) : List BcSnap := isort (fun a b => !(b.snap.lt a.snap)) l
def sortBcOff (l : List BcOff) : List BcOff := isort (fun a b => decide (a.offset ≤ b.offset)) l

/-! ### from_bpm_changes_snap (reseat = False part) -/

def cumOffsets : Rat → BcSnap → List BcSnap → Except Err (List BcOff)
  | _, _, [] => .ok []
  | off, parent, child :: rest => do
    let d ← child.snap.sub parent.snap
    let off' := off + d.offset parent.bpm parent.met
    let tl ← cumOffsets off' child rest
    .ok (⟨child.bpm, child.met, off'⟩ :: tl)

def fromBcSnapNoReseat (t0 : Rat) (l : List BcSnap) : Except Err (List BcOff) :=
  match sortBcSnap l with
  | [] => .error .index
  | b0 :: rest =>
    if b0.snap.measure ≠ 0 ∨ b0.snap.beat ≠ 0 then .error .value else do
      let tl ← cumOffsets t0 b0 rest
      .ok (⟨b0.bpm, b0.met, t0⟩ :: tl)

/-! ### Snap.from_offset and bpm_changes_offset_to_snap -/

def snapFromOffset (g : Array Rat) (offset : Rat) (bco : BcOff) (bcs : BcSnap) : Except Err Snap :=
  let del := offset - bco.offset
  let ml := measLen bco.bpm bco.met
  let measure : Int := pyFloorDiv del ml
  let del' := del - (measure : Rat) * ml
  let beat := snapOn g (del' / beatLen bco.bpm)
  Snap.make (measure + bcs.snap.measure) (beat + bcs.snap.beat) (some bco.met)

def bcsLoop (g : Array Rat) : BcOff → BcSnap → List BcOff → Except Err (List BcSnap)
  | _, _, [] => .ok []
  | parent, last, child :: rest => do
    let s ← snapFromOffset g child.offset parent last
    let cur : BcSnap := ⟨child.bpm, child.met, { s with met := some child.met }⟩
    let tl ← bcsLoop g child cur rest
    .ok (cur :: tl)

/-- `bpm_changes_offset_to_snap` (its in-place sort of the argument is returned as the first component). -/
def bcsOfBco (g : Array Rat) (l : List BcOff) : Except Err (List BcOff × List BcSnap) :=
  match sortBcOff l with
  | [] => .error .index
  | b0 :: rest => do
    let s0 ← Snap.make 0 0 (some b0.met)
    let first : BcSnap := ⟨b0.bpm, b0.met, s0⟩
    let tl ← bcsLoop g b0 first rest
    .ok (b0 :: rest, first :: tl)

/-! ### TimingMap.from_bpm_changes_offset, BpmList.to_timing_map -/

/-- `TimingMap.from_bpm_changes_offset(bco_s)`: sorts the list by offset (in place, stable) and stores it -/
def fromBcOff (l : List BcOff) : List BcOff := sortBcOff l

/-- `BpmList.to_timing_map()`: one `BpmChangeOffset(bpm, metronome, offset)` per row `(offset, bpm, metronome)`,
in row order, none dropped, none merged, handed to `from_bpm_changes_offset` -/
def bpmListToTimingMap (rows : List (Rat × Rat × Rat)) : List BcOff :=
  fromBcOff (rows.map fun r => ⟨r.2.1, r.2.2, r.1⟩)

/-! ### permutations -/

def gather {α} [Inhabited α] (xs : List α) (idx : List Nat) : List α := idx.map (fun i => xs.getD i default)

/-- `np.argsort` of a permutation `τ` of `range n`: position of each `i` in `τ`. -/
def argsortPerm (τ : List Nat) : List Nat := (List.range τ.length).map (fun i => τ.idxOf i)

/-- a stable ascending sorting permutation (what the driver uses for `np.argsort`; theorems quantify over any). -/
def insertIdx {α} (lt : α → α → Bool) (xs : List α) [Inhabited α] (i : Nat) : List Nat → List Nat
  | [] => [i]
  | j :: js => if lt (xs.getD i default) (xs.getD j default) then i :: j :: js else j :: insertIdx lt xs i js

def stableArgsort {α} [Inhabited α] (lt : α → α → Bool) (xs : List α) : List Nat :=
  (List.range xs.length).foldl (fun acc i => insertIdx lt xs i acc) []

/-! ### TimingMap.offsets -/

/-- The reverse pointer sweep: `rb` is the zip of snap- and offset-changes, latest first (what negative
indexing from `-1` walks through); queries arrive in descending order. -/
def sweepOffsets : List (BcSnap × BcOff) → List Snap → Except Err (List Rat)
  | _, [] => .ok []
  | rb, q :: qs =>
    match rb.dropWhile (fun p => p.1.snap.gt q) with
    | [] => .error .index
    | (bcs, bco) :: rb' => do
      let d ← q.sub bcs.snap
      let rest ← sweepOffsets ((bcs, bco) :: rb') qs
      .ok ((bco.offset + d.offset bcs.bpm bcs.met) :: rest)

def offsetsWith (g : Array Rat) (σ : List Nat) (tm : List BcOff) (qs : List Snap) : Except Err (List Rat) := do
  let (bco, bcs) ← bcsOfBco g tm
  let τ := σ.reverse
  let r ← sweepOffsets (bcs.zip bco).reverse (gather qs τ)
  .ok (gather r (argsortPerm τ))

def offsets (g : Array Rat) (tm : List BcOff) (qs : List Snap) : Except Err (List Rat) :=
  offsetsWith g (stableArgsort Snap.lt qs) tm qs

/-! ### TimingMap.snaps -/

def sweepSnaps (g : Array Rat) : List (BcSnap × BcOff) → List Rat → Except Err (List Snap)
  | _, [] => .ok []
  | rb, q :: qs =>
    match rb.dropWhile (fun p => decide (p.2.offset > q)) with
    | [] => .error .index
    | (bcs, bco) :: rb' => do
      let s ← snapFromOffset g q bco bcs
      let rest ← sweepSnaps g ((bcs, bco) :: rb') qs
      .ok (s :: rest)

def snapsWith (g : Array Rat) (σ : List Nat) (tm : List BcOff) (qs : List Rat) : Except Err (List Snap) := do
  let (bco, bcs) ← bcsOfBco g tm
  let τ := σ.reverse
  let r ← sweepSnaps g (bcs.zip bco).reverse (gather qs τ)
  .ok (gather r (argsortPerm τ))

def snaps (g : Array Rat) (tm : List BcOff) (qs : List Rat) : Except Err (List Snap) :=
  snapsWith g (stableArgsort (fun a b => decide (a < b)) qs) tm qs

/-! ### TimingMap.beats -/

def beatsLoop : Rat → Snap → List Snap → Except Err (List Rat)
  | _, _, [] => .ok []
  | cur, prev, s :: rest => do
    let d ← s.sub prev
    let cur' := cur + ((d.measure : Rat) * prev.met.getD 0) + d.beat
    let tl ← beatsLoop cur' s rest
    .ok (cur' :: tl)

def beatsWith (g : Array Rat) (σq σs : List Nat) (tm : List BcOff) (qs : List Rat) : Except Err (List Rat) :=
  if qs.isEmpty then .ok [] else do
    let sn ← snapsWith g σq tm qs
    match gather sn σs with
    | [] => .ok []
    | s0 :: rest => do
      let c0 := s0.beat + (s0.measure : Rat) * s0.met.getD 0
      let tl ← beatsLoop c0 s0 rest
      .ok (gather (c0 :: tl) (argsortPerm σs))

def beats (g : Array Rat) (tm : List BcOff) (qs : List Rat) : Except Err (List Rat) :=
  if qs.isEmpty then .ok [] else do
    let σq := stableArgsort (fun a b => decide (a < b)) qs
    let sn ← snapsWith g σq tm qs
    beatsWith g σq (stableArgsort Snap.lt sn) tm qs

/-! ### reseat_bpm_changes_snap -/

def relOffsets : Rat → BcSnap → List BcSnap → Except Err (List Rat)
  | _, _, [] => .ok []
  | off, parent, child :: rest => do
    let d ← child.snap.sub parent.snap
    let off' := off + d.offset parent.bpm parent.met
    let tl ← relOffsets off' child rest
    .ok (off' :: tl)

structure RState where
  bcs : List BcSnap
  offs : List Rat
  i : Nat
  measure : Int
deriving Repr

def listSet {α} (l : List α) (i : Nat) (x : α) : List α := l.set i x
def listInsert {α} (l : List α) (i : Nat) (x : α) : List α := l.take i ++ x :: l.drop i

/-- one iteration of the `while i != len(bcs_s) - 1` body -/
def reseatStep (thr : Rat) (st : RState) : Except Err RState := do
  let b0 := st.bcs.getD st.i default
  let o0 := st.offs.getD st.i 0
  let o1 := st.offs.getD (st.i + 1) 0
  let od := o1 - o0
  let ml := measLen b0.bpm b0.met
  let bl := beatLen b0.bpm
  let md := od / ml
  let bd := od / bl
  let bq : Int := ffloor bd
  let br : Rat := frac bd
  let mq : Int := ffloor md
  let mr : Rat := frac md
  let measure := st.measure + mq
  let finish (bcs : List BcSnap) (offs : List Rat) (measure : Int) : Except Err RState :=
    let b := bcs.getD (st.i + 1) default
    let b' : BcSnap := { b with snap := { b.snap with measure := measure, beat := 0 } }
    .ok ⟨bcs.set (st.i + 1) b', offs, st.i + 1, measure⟩
  if 0 < mr ∧ mr ≤ thr then
    let s ← Snap.make (measure - 1) 0 (some b0.met)
    let nb : BcSnap := ⟨b0.bpm / (mr + 1), b0.met, s⟩
    let off := ((mq : Rat) - 1) * ml + o0
    if mq = 1 then finish (st.bcs.set st.i nb) (st.offs.set st.i off) measure
    else finish (listInsert st.bcs (st.i + 1) nb) (listInsert st.offs (st.i + 1) off) (measure - 1)
  else if 0 < br ∧ br ≤ thr then
    let metn : Rat := pyMod (bq : Rat) b0.met
    if metn = 0 then .error .zeroDiv else
    let s ← Snap.make measure 0 (some metn)
    let nb : BcSnap := ⟨b0.bpm / ((br + metn) / metn), metn, s⟩
    let off := o1 - metn * bl
    if mq = 0 then finish (st.bcs.set st.i nb) (st.offs.set st.i off) (measure + 1)
    else finish (listInsert st.bcs (st.i + 1) nb) (listInsert st.offs (st.i + 1) off) measure
  else if mr > thr then
    let s ← Snap.make measure 0 (some b0.met)
    let nb : BcSnap := ⟨b0.bpm / mr, b0.met, s⟩
    let off := (mq : Rat) * ml + o0
    if mq = 0 then finish (st.bcs.set st.i nb) (st.offs.set st.i off) (measure + 1)
    else finish (listInsert st.bcs (st.i + 1) nb) (listInsert st.offs (st.i + 1) off) measure
  else finish st.bcs st.offs measure

def reseatLoop (thr : Rat) : Nat → RState → Except Err RState
  | 0, st => .ok st
  | fuel + 1, st =>
    if st.i + 1 = st.bcs.length then .ok st else do
      let st' ← reseatStep thr st
      reseatLoop thr fuel st'

/-- `extend_threshold` default, checked against the source by the translator. -/
def extendThreshold : Rat := 1 / 1000

/-- `reseat_bpm_changes_snap`. Each original interval costs at most two iterations, so `2·|l|` fuel suffices. -/
def reseat (l : List BcSnap) (thr : Rat := extendThreshold) : Except Err (List BcSnap) :=
  match sortBcSnap l with
  | [] => .error .index     -- `while i != -1` walks off the empty list
  | b0 :: rest => do
    let offs ← relOffsets 0 b0 rest
    let st ← reseatLoop thr (2 * (rest.length + 1)) ⟨b0 :: rest, 0 :: offs, 0, 0⟩
    .ok st.bcs

/-- `from_bpm_changes_snap(initial_offset, bcs_s, reseat)` -/
def fromBcSnap (t0 : Rat) (l : List BcSnap) (doReseat : Bool := true) : Except Err (List BcOff) :=
  match sortBcSnap l with
  | [] => .error .index
  | b0 :: _ =>
    if b0.snap.measure ≠ 0 ∨ b0.snap.beat ≠ 0 then .error .value
    else if doReseat ∧ l.any (fun b => b.snap.beat ≠ 0) then do
      let r ← reseat l
      fromBcSnapNoReseat t0 r
    else fromBcSnapNoReseat t0 l

/-! ### find_lcm -/

/-- inner `for j` loop for a fixed `i`; `a` holds `none` for entries already absorbed. -/
def findLcmInner (thr : Nat) (i : Nat) : List Nat → (List (Option Nat) × List Nat) → (List (Option Nat) × List Nat)
  | [], st => st
  | j :: js, (a, a_) =>
    if i = j then findLcmInner thr i js (a, a_) else
    match a.getD i none, a.getD j none with
    | some b, some c =>
      let l := Nat.lcm b c
      if l < thr then findLcmInner thr i js ((a.set i (some l)).set j none, a_.set j l)
      else findLcmInner thr i js (a, a_)
    | _, _ => findLcmInner thr i js (a, a_)

def findLcm (xs : List Nat) (thr : Nat) : List Nat :=
  let n := xs.length
  let (a, a_) := (List.range n).foldl (fun st i => findLcmInner thr i (List.range n) st) (xs.map some, xs.map (fun _ => 0))
  (List.range n).map fun i =>
    if a_.getD i 0 = 0 then (a.getD i none).getD 0 else a_.getD i 0

end Reamber.Timing
