/-
C17 — executable model of `reamber/algorithms/generate/full_ln.py`, *as written*, together with the parts of
`reamber/base/Map.py` (`Map.stack`, `Stacker.__init__`) and `reamber/base/lists/TimedList.py` (`from_dict`)
it goes through:

    m = m.deepcopy()
    df = m.stack((type(m.hits), type(m.holds)))._stacked       -- `stacked`   (the chart's own hits and holds lists)
    dfgs = df.loc[:, ["offset","column","length"]]
             .sort_values(["offset"]).groupby("column")        -- `sortByOffset` (any sorting permutation), `groups`
    for _, dfg in dfgs:
        dfg["diff"] = dfg["offset"].diff().shift(-1)           -- `diff`, `shiftUp`
        for offset, column, length, diff in dfg.itertuples():  -- `step`
            ...
    m.hits  = type(m.hits).from_dict(hits)                     -- `fromDict`
    m.holds = type(m.holds).from_dict(holds)

A row of the stacked frame is `Row`: `length = none` is pandas' NaN (what `pd.concat` fills in for lists
without a `length` column).  Numbers are exact rationals.  Core Lean only (linked into the driver).
-/
import Reamber.Model.Timing

namespace Reamber.FullLN

open Reamber.Timing (isort insertBy)

/-- one row of `df.loc[:, ["offset", "column", "length"]]` -/
structure Row where
  offset : Rat
  column : Int
  length : Option Rat
deriving DecidableEq, Repr, Inhabited

/-- a row of a list without a `length` column: `pd.concat` fills NaN -/
def asHit (r : Row) : Row := { r with length := none }

/-- A chart, as far as `full_ln` looks at it.
`extras`: the rows of every *further* note list of the map (StepMania: fakes, lifts, keysounds, mines — NaN
length — and rolls).  Since the repair of D23 they are not stacked: `m.stack((type(m.hits), type(m.holds)))`
picks up exactly the chart's own hit and hold lists (the list classes of a map are pairwise unrelated
subclasses).  `others`: everything else the map carries (tempo list, SVs, stops, metadata). -/
structure MapM (α : Type) where
  extras : List Row
  hits : List Row
  holds : List Row
  others : α

/-- `pd.concat([v.df for v in objs if isinstance(v, (type(m.hits), type(m.holds)))])`, three columns.
The rows of `hits` are taken as they are: a hit list normally has no `length` column (`length = none`, the NaN
that `concat` fills in), but a list that carries a stray `length` column contributes its values — the loop
below tells hits from holds only by `isnan(length)` (hence the domain hypothesis of `fullLn_spec`). -/
def stacked {α} (m : MapM α) : List Row := m.hits ++ m.holds

/-- the chart's own notes with their kind = the list they live in: a member of `hits` is a hit -/
def ownNotes {α} (m : MapM α) : List Row := m.hits.map asHit ++ m.holds

/-- every note of the chart, the further note lists included -/
def notes {α} (m : MapM α) : List Row := m.extras ++ ownNotes m

/-- `sort_values(["offset"])`; the model is the stable one, theorems quantify over any sorting function -/
def sortByOffset (l : List Row) : List Row := isort (fun a b => decide (a.offset ≤ b.offset)) l

/-! ### `groupby("column")`: keys ascending, rows of a group in frame order -/

def insertCol (c : Int) : List Int → List Int
  | [] => [c]
  | d :: ds => if c < d then c :: d :: ds else if c = d then d :: ds else d :: insertCol c ds

def columnsOf (l : List Row) : List Int := l.foldr (fun r acc => insertCol r.column acc) []

def group (l : List Row) (c : Int) : List Row := l.filter (fun r => r.column == c)

def groups (l : List Row) : List (List Row) := (columnsOf l).map (group l)

/-! ### `dfg["offset"].diff().shift(-1)` -/

/-- `Series.diff()` after the first element `prev` -/
def diffFrom (prev : Rat) : List Rat → List (Option Rat)
  | [] => []
  | y :: ys => some (y - prev) :: diffFrom y ys

/-- `Series.diff()`: NaN, x₁-x₀, x₂-x₁, … -/
def diff : List Rat → List (Option Rat)
  | [] => []
  | x :: xs => none :: diffFrom x xs

/-- `Series.shift(-1)`: drop the first, NaN at the end -/
def shiftUp : List (Option Rat) → List (Option Rat)
  | [] => []
  | _ :: t => t ++ [none]

/-- the body of the inner loop; the returned row goes to `hits` when its length is NaN, else to `holds` -/
def step (gap thr : Rat) (r : Row) (d : Option Rat) : Row :=
  match d with
  | none => r                           -- `np.isnan(diff)`: hit if `np.isnan(length)` else hold with its length
  | some d =>
    let inv := d - gap                  -- `inv_length = diff - gap`
    if thr ≤ inv then { r with length := some inv } else { r with length := none }

def processGroup (gap thr : Rat) (g : List Row) : List Row :=
  List.zipWith (step gap thr) g (shiftUp (diff (g.map (·.offset))))

/-- all dicts appended by the double loop, in order of appending (given the sorted frame) -/
def fullLnRows (gap thr : Rat) (sorted : List Row) : List Row :=
  ((groups sorted).map (processGroup gap thr)).flatten

def isHit (r : Row) : Bool := r.length.isNone

/-- `TimedList.from_dict(d)`: `if not d: return cls([])`; otherwise the frame of the dicts, every undeclared
column filled with its default (since the repair of D24 a list default is one fresh list per row) — for the
three columns modelled here: the rows themselves. -/
def fromDict (rows : List Row) : List Row := if rows.isEmpty then [] else rows

/-- `full_ln` with the sorting step as a parameter (numpy's quicksort is not stable) -/
def fullLnWith {α} (sortF : List Row → List Row) (gap thr : Rat) (m : MapM α) : MapM α :=
  let rows := fullLnRows gap thr (sortF (stacked m))
  { m with hits := fromDict (rows.filter isHit), holds := fromDict (rows.filter (fun r => !isHit r)) }

def fullLn {α} (gap thr : Rat) (m : MapM α) : MapM α := fullLnWith sortByOffset gap thr m

/-! ### what the model knows about the games (tied to the source by `Generated/FullLN.lean`) -/

/-- `full_ln(m, gap=150, ln_as_hit_thres=100)` -/
def defaultGap : Rat := 150
def defaultThres : Rat := 100

/-- per map class: the `objs` lists that the stack call of `full_ln` picks up, and whether `from_dict` of the
hit and hold classes builds a list from bare offset/column(/length) dicts -/
structure GameInfo where
  name : String
  stackedLists : List String
  fromDictFills : Bool
deriving DecidableEq, Repr

def games : List GameInfo :=
  ["base", "osu", "qua", "bms", "o2j", "sm"].map (fun g => ⟨g, ["hits", "holds"], true⟩)

end Reamber.FullLN
