/-
C08 — executable model of the converters **as the code is written now**:

* `empty`      — `TimedList.empty(n)`: the one-row default frame (`list_props._default`) replicated `n` times,
                 `reset_index(drop=True)` → labels `0..n-1`; a column whose declared default is a list is then
                 filled with one fresh list per row (D08 repaired);
* `cast`       — `ConvertBase.cast`: buffer = `target.empty(len(src))`, then one column assignment per mapping
                 entry: a `str` entry copies `src.<from>.to_numpy()` **by position**; any other value is assigned
                 as it is — for the pandas Series that `BMSToOsu` passes this is pandas' **label-aligned** assignment;
* `restack`    — `t.stack().column += k`: every list's `column` shifted, rows relabelled by stacked position;
* `convert`    — the 16 converters and `O2JToSM.convert_merge` are *data* (`Conv`, generated from the source):
                 which casts, which shift, which metadata assignments, which loop shape.

pandas frames are column-oriented labelled tables (`Frame`): a list of row labels and named columns of cells.
Core Lean only.
-/
import Reamber.Model.ConvertTable

namespace Reamber.Convert

inductive Err where
  | value      -- ValueError   (duplicate labels on a label-aligned assignment, length mismatch)
  | key        -- KeyError     (missing column)
  | attr       -- AttributeError (missing attribute / list)
  | type       -- TypeError    (`str(x, "ascii")` on a non-bytes cell)
  | name       -- unknown class in the table
  | shape      -- a loop shape / statement the model does not cover
  | opaque     -- a mapping value the translator could not read
  deriving DecidableEq, Repr, Inhabited

def Err.toString : Err → String
  | .value => "value" | .key => "key" | .attr => "attr" | .type => "type"
  | .name => "name" | .shape => "shape" | .opaque => "opaque"

def mapE {α β} (f : α → Except Err β) : List α → Except Err (List β)
  | [] => .ok []
  | a :: t =>
    match f a with
    | .error e => .error e
    | .ok b =>
      match mapE f t with
      | .error e => .error e
      | .ok r => .ok (b :: r)

/-- a pandas DataFrame: row labels + named columns (each as long as `index`) -/
structure Frame where
  index : List Int
  cols : List (String × List Cell)
  deriving DecidableEq, Repr, Inhabited

def Frame.nrows (f : Frame) : Nat := f.index.length
def Frame.names (f : Frame) : List String := f.cols.map (·.1)
def Frame.col? (f : Frame) (k : String) : Option (List Cell) := f.cols.lookup k

/-- every column is as long as the index -/
def Frame.WF (f : Frame) : Prop := ∀ p ∈ f.cols, p.2.length = f.index.length

/-- what `empty` puts into each row for a declared default: the scalar itself; for a list default one fresh
(empty) list per row — `TimedList.empty` overwrites the NaN that the one-row default frame holds there
(`pd.Series([], dtype=object)` has no row).  A list cell is `.other "list"`. -/
def defaultCell : Dflt → Cell
  | .scalar c => c
  | .emptyList => .other "list"

def schemaOf (lc : ListClass) : List (String × Cell) := lc.props.map fun p => (p.1, defaultCell p.2.2)

def rangeIdx (n : Nat) : List Int := (List.range n).map Int.ofNat

/-- `TimedList.empty(n)` for a class with this schema -/
def empty (schema : List (String × Cell)) (n : Nat) : Frame :=
  ⟨rangeIdx n, schema.map fun p => (p.1, List.replicate n p.2)⟩

/-- `df[k] = v` through the list class' property: replaces the column when the class declares it; setting an
undeclared name only creates a Python attribute on the list object (no effect on the frame) -/
def setCol (cols : List (String × List Cell)) (k : String) (v : List Cell) : List (String × List Cell) :=
  cols.map fun p => if p.1 == k then (p.1, v) else p

def hasDup : List Int → Bool
  | [] => false
  | a :: t => t.contains a || hasDup t

def lookupLabel (idx : List Int) (vals : List Cell) (l : Int) : Cell :=
  match (idx.zip vals).lookup l with
  | some c => c
  | none => .nan

/-- pandas `DataFrame.__setitem__` with a Series (`_reindex_for_setitem`): identical index → the values as they are;
otherwise reindex to the frame's labels (duplicate labels raise, absent labels give NaN) -/
def alignTo (bufIdx srcIdx : List Int) (vals : List Cell) : Except Err (List Cell) :=
  if srcIdx = bufIdx then .ok vals
  else if hasDup srcIdx then .error .value
  else .ok (bufIdx.map (lookupLabel srcIdx vals))

/-- `str(cell, "ascii")` on the cells of a BMS `sample` column (bytes are carried as `.str`) -/
def strCell : Cell → Except Err Cell
  | .str s => .ok (.str s)
  | _ => .error .type

/-- value of one mapping entry, ready to be stored in the buffer (whose labels are `bufIdx`) -/
def evalFrom (lists : List (String × Frame)) (src : Frame) (bufIdx : List Int) : MapFrom → Except Err (List Cell)
  | .attr c =>
    match src.col? c with
    | some v => if v.length = bufIdx.length then .ok v else .error .value
    | none => .error .attr
  | .seriesStr l c =>
    match lists.lookup l with
    | none => .error .attr
    | some f =>
      match f.col? c with
      | none => .error .key
      | some v =>
        match mapE strCell v with
        | .error e => .error e
        | .ok v' => alignTo bufIdx f.index v'
  | .arrayStr l c =>
    match lists.lookup l with
    | none => .error .attr
    | some f =>
      match f.col? c with
      | none => .error .key
      | some v =>
        match mapE strCell v with
        | .error e => .error e
        | .ok v' => if v'.length = bufIdx.length then .ok v' else .error .value
  | .opaque _ => .error .opaque

def castGo (lists : List (String × Frame)) (src : Frame) : List (String × MapFrom) → Frame → Except Err Frame
  | [], b => .ok b
  | (to, fr) :: rest, b =>
    match evalFrom lists src b.index fr with
    | .error e => .error e
    | .ok v => castGo lists src rest { b with cols := setCol b.cols to v }

/-- `ConvertBase.cast(src, target, mapping)`; `lists` are the lists of the source map (a mapping value may be an
expression over them) -/
def cast (lists : List (String × Frame)) (src : Frame) (schema : List (String × Cell))
    (mapping : List (String × MapFrom)) : Except Err Frame :=
  castGo lists src mapping (empty schema src.nrows)

/-! ### charts -/

structure SrcMap where
  lists : List (String × Frame)
  attrs : List (String × String)
  /-- `str(set.level_name(map))` (O2Jam) -/
  levelName : String
  deriving DecidableEq, Repr, Inhabited

/-- a source: a map set (`meta` = the set's attributes) or, for single-map games, one map (then `maps = [m]`
and the converter's parameter denotes `m`) -/
structure Src where
  attrs : List (String × String)
  maps : List SrcMap
  deriving DecidableEq, Repr, Inhabited

structure TChart where
  hits : Frame
  holds : Frame
  bpms : Frame
  svs : Option Frame
  /-- the map-level attributes the converter assigned (last assignment first) -/
  attrs : List (String × String)
  deriving DecidableEq, Repr, Inhabited

/-- one returned top-level object: a map (one chart, no set attributes) or a map set -/
structure TGroup where
  setMeta : List (String × String)
  charts : List TChart
  deriving DecidableEq, Repr, Inhabited

structure Out where
  isList : Bool
  groups : List TGroup
  deriving DecidableEq, Repr, Inhabited

def Out.charts (o : Out) : List TChart := o.groups.flatMap (·.charts)

structure Tables where
  lcs : List ListClass
  mcs : List MapClass

def findClass (lcs : List ListClass) (name : String) : Option ListClass := lcs.find? (·.name == name)

def declaredCls (mcs : List MapClass) (c : Conv) (attr : String) : Option String :=
  (mcs.find? (·.name == c.tgtMapClass)).bind (·.lists.lookup attr)

/-- the last `t.<attr> = cls.cast(…)` of the body (a later assignment replaces an earlier one).  Assigning to a
name the map class does not declare (`qua.sv = …`, D12) creates a plain attribute and changes no list. -/
def lastCast (c : Conv) (attr : String) : Option CastCall := c.casts.reverse.find? (·.tgtAttr == attr)

/-- the variable that denotes the current source map -/
def curVar (c : Conv) : String := c.loopVar.getD c.param

def srcFrame (c : Conv) (cur : SrcMap) (cc : CastCall) : Except Err Frame :=
  if cc.srcVar == curVar c then
    match cur.lists.lookup cc.srcAttr with
    | some f => .ok f
    | none => .error .attr
  else .error .attr

def runCast (T : Tables) (c : Conv) (cur : SrcMap) (cc : CastCall) : Except Err Frame :=
  match srcFrame c cur cc with
  | .error e => .error e
  | .ok f =>
    match findClass T.lcs cc.cls with
    | none => .error .name
    | some lc => cast cur.lists f (schemaOf lc) cc.mapping

/-- the frame of the target map's list `attr` after the body ran (`none`: the map class has no such list) -/
def listFor (T : Tables) (c : Conv) (cur : SrcMap) (attr : String) : Except Err (Option Frame) :=
  match declaredCls T.mcs c attr with
  | none => .ok none
  | some clsName =>
    match lastCast c attr with
    | some cc =>
      match runCast T c cur cc with
      | .error e => .error e
      | .ok f => .ok (some f)
    | none =>
      match findClass T.lcs clsName with
      | some lc => .ok (some (empty (schemaOf lc) 0))
      | none => .error .name

def addCell (k : Int) : Cell → Cell
  | .num q => .num (q + k)
  | c => c

/-- `column += k` on one list (lists without a `column` column are not touched) -/
def addCol (k : Int) (f : Frame) : Frame :=
  { f with cols := f.cols.map fun p => if p.1 == "column" then (p.1, p.2.map (addCell k)) else p }

/-- `Stacker._update`: the list gets back its rows of the stacked frame, labelled by stacked position -/
def relabel (start : Nat) (f : Frame) : Frame :=
  { f with index := (List.range f.nrows).map fun i => Int.ofNat (start + i) }

def req (o : Except Err (Option Frame)) : Except Err Frame :=
  match o with
  | .error e => .error e
  | .ok none => .error .shape
  | .ok (some f) => .ok f

def evalAtom (c : Conv) (src : Src) (cur : Option SrcMap) : Atom → Option String
  | .lit s => some s
  | .attr o a =>
    if o == c.param then
      (if c.loopVar.isSome then src.attrs.lookup a else cur.bind (·.attrs.lookup a))
    else if some o == c.loopVar then cur.bind (·.attrs.lookup a)
    else none
  | .levelName s m =>
    if s == c.param && some m == c.loopVar then cur.map (·.levelName) else none

def evalAtoms (c : Conv) (src : Src) (cur : Option SrcMap) : List Atom → Option String
  | [] => some ""
  | a :: t =>
    match evalAtom c src cur a, evalAtoms c src cur t with
    | some x, some y => some (x ++ y)
    | _, _ => none

/-- value of a metadata expression; the codecs (`unidecode ∘ decode("sjis")`, `encode("shift_jis")`) are
parameters of the model: identity on the abstract text -/
def evalMeta (c : Conv) (src : Src) (cur : Option SrcMap) : MetaExpr → Option (Option String)
  | .fmt ps => some (evalAtoms c src cur ps)
  | .decoded a => some (evalAtom c src cur a)
  | .encoded ps => some (evalAtoms c src cur ps)
  | .opaque _ => none

/-- the attributes assigned at `level`, last assignment first; expressions outside the model (`opaque`) are
skipped, a readable expression over a missing attribute raises -/
def metasAt (c : Conv) (src : Src) (cur : Option SrcMap) (level : String) :
    List MetaAssign → List (String × String) → Except Err (List (String × String))
  | [], acc => .ok acc
  | m :: t, acc =>
    if m.level == level then
      match evalMeta c src cur m.expr with
      | none => metasAt c src cur level t acc
      | some none => .error .attr
      | some (some v) => metasAt c src cur level t ((m.attr, v) :: acc)
    else metasAt c src cur level t acc

/-- one pass of the body for the source map `cur` with shift argument `k` -/
def convOne (T : Tables) (c : Conv) (src : Src) (cur : SrcMap) (k : Int) : Except Err TChart :=
  match mapE (runCast T c cur) c.casts with
  | .error e => .error e
  | .ok _ =>
  match req (listFor T c cur "hits"), req (listFor T c cur "holds"), req (listFor T c cur "bpms"),
        listFor T c cur "svs", metasAt c src (some cur) "map" c.metas [] with
  | .ok h, .ok l, .ok b, .ok s, .ok me =>
    match c.shiftParam with
    | none => .ok ⟨h, l, b, s, me⟩
    | some _ =>
      let s0 := (s.map (·.nrows)).getD 0
      .ok ⟨relabel s0 (addCol k h), relabel (s0 + h.nrows) (addCol k l),
           relabel (s0 + h.nrows + l.nrows) (addCol k b), s.map (fun f => relabel 0 (addCol k f)), me⟩
  | .error e, _, _, _, _ => .error e
  | _, .error e, _, _, _ => .error e
  | _, _, .error e, _, _ => .error e
  | _, _, _, .error e, _ => .error e
  | _, _, _, _, .error e => .error e

def setMetaOf (c : Conv) (src : Src) (cur : Option SrcMap) : Except Err (List (String × String)) :=
  metasAt c src cur "set" c.metas []

def convSet (T : Tables) (c : Conv) (src : Src) (k : Int) (m : SrcMap) : Except Err TGroup :=
  match convOne T c src m k with
  | .error e => .error e
  | .ok t =>
    match setMetaOf c src (some m) with
    | .error e => .error e
    | .ok sm => .ok ⟨sm, [t]⟩

/-- the converter `c` applied to `src` with shift argument `k` (ignored when `c` has no shift parameter) -/
def convert (T : Tables) (c : Conv) (src : Src) (k : Int) : Except Err Out :=
  match c.shape with
  | .single =>
    match src.maps with
    | [m] =>
      match convOne T c src m k with
      | .error e => .error e
      | .ok t => .ok ⟨false, [⟨[], [t]⟩]⟩
    | _ => .error .shape
  | .singleSet =>
    match src.maps with
    | [m] =>
      match convSet T c src k m with
      | .error e => .error e
      | .ok g => .ok ⟨false, [g]⟩
    | _ => .error .shape
  | .listOfMaps =>
    match mapE (fun m => convOne T c src m k) src.maps with
    | .error e => .error e
    | .ok ts => .ok ⟨true, ts.map fun t => ⟨[], [t]⟩⟩
  | .listOfSets =>
    match mapE (convSet T c src k) src.maps with
    | .error e => .error e
    | .ok gs => .ok ⟨true, gs⟩
  | .mergedSet =>
    match mapE (fun m => convOne T c src m k) src.maps with
    | .error e => .error e
    | .ok ts =>
      match setMetaOf c src src.maps.getLast? with
      | .error e => .error e
      | .ok sm => .ok ⟨false, [⟨sm, ts⟩]⟩
  | .mergedSetInLoop =>
    -- the set is re-created in every iteration: the returned one holds the last map only (D13)
    match mapE (fun m => convOne T c src m k) src.maps with
    | .error e => .error e
    | .ok ts =>
      match setMetaOf c src src.maps.getLast? with
      | .error e => .error e
      | .ok sm => .ok ⟨false, [⟨sm, ts.drop (ts.length - 1)⟩]⟩
  | .mapOutsideLoop => .error .shape
  | .unknown _ => .error .shape

end Reamber.Convert
