/-
C06 — the YAML *text* layer of a .qua file, for the block dialect `QuaMap.write` produces
(`yaml.dump(file, default_flow_style=False, sort_keys=False, Dumper=CDumper, allow_unicode=True)`) and the Quaver
editor writes:

    Key: scalar                 mapping of scalars          (top level, indent 0)
    Key: []                     empty list
    Key:                        list of mappings ("indentless": the dashes stand at the key's column)
    - A: 1
      B: []
      KeySounds:                nested list of mappings of scalars
      - Sample: 1
        Volume: 100

`emitQua : Tree → Option String` is the text libyaml's emitter writes for such a tree (`none` = the tree is outside the
modelled class: a string that would be double-quoted or folded at column 80, a string whose resolution is not decided
by the modelled part of the YAML 1.1 resolver, a key that is not a plain identifier);
`parseQua : String → Option Tree` is a by-the-book reader of the same subset (`none` = outside the subset: flow style,
comments, multi-line scalars, double quotes, anchors, tags, sequences of scalars, duplicate keys, numeric-looking plain
scalars that are not canonical decimal ints / floats).  Texts are `List Char` inside.  Core Lean only.
-/
import Reamber.Model.Qua
import Reamber.Model.OsuLex

namespace Reamber.QuaText

open Reamber.Osu (Str showInt readNat? splitOn joinWith isDig split1 natOfDigits)

/-! ### trees of the dialect -/

/-- a scalar; a float keeps its lexeme (the decimal text `repr(float)` gave, outside the model), `flt.val` below -/
inductive Sc where
  | null
  | bool (b : Bool)
  | int (i : Int)
  | flt (lex : Str)
  | str (s : Str)
deriving Repr, DecidableEq, Inhabited

/-- a value one level above values of type `α`: scalar, `[]`, or a non-empty list of mappings to `α` -/
inductive V (α : Type) where
  | sc (s : Sc)
  | empty
  | recs (l : List (List (Str × α)))
deriving Repr, DecidableEq

abbrev R2 := List (Str × Sc)            -- a KeySounds record
abbrev R1 := List (Str × V Sc)          -- a hit object / timing point / scroll velocity / editor layer
abbrev Tree := List (Str × V (V Sc))    -- the document

/-! ### lines -/

inductive LV where
  | sc (s : Sc)
  | empty          -- `[]`
  | opn            -- nothing after the colon
deriving Repr, DecidableEq, Inhabited

/-- `ind` spaces, then `- ` if `dash`, then `key:` and the value -/
structure Line where
  ind : Nat
  dash : Bool
  key : Str
  val : LV
deriving Repr, DecidableEq, Inhabited

/-! ### characters and words -/

/-- libyaml `IS_PRINTABLE` without the line breaks (LF, NEL, LS, PS) and without the tab -/
def printable (c : Char) : Bool :=
  let n := c.toNat
  (0x20 ≤ n && n ≤ 0x7E) || (0xA0 ≤ n && n ≤ 0xD7FF && n != 0x2028 && n != 0x2029) ||
  (0xE000 ≤ n && n ≤ 0xFFFD && n != 0xFEFF)

def nullWords : List Str := ["~", "null", "Null", "NULL"].map String.toList
def trueWords : List Str := ["yes", "Yes", "YES", "true", "True", "TRUE", "on", "On", "ON"].map String.toList
def falseWords : List Str := ["no", "No", "NO", "false", "False", "FALSE", "off", "Off", "OFF"].map String.toList

def isAlpha (c : Char) : Bool := (65 ≤ c.toNat && c.toNat ≤ 90) || (97 ≤ c.toNat && c.toNat ≤ 122)
def isKeyChar (c : Char) : Bool := isAlpha c || isDig c || c = '_'

/-- a key of the class: an identifier that the resolver reads as a string, short enough to be a simple key -/
def keyOK (k : Str) : Bool :=
  (match k with | c :: _ => isAlpha c | [] => false) && k.all isKeyChar && k.length ≤ 128 &&
  !(nullWords.contains k) && !(trueWords.contains k) && !(falseWords.contains k)

/-! ### plain scalars: libyaml `yaml_emitter_analyze_scalar` (block context), PyYAML scanner `scan_plain` -/

def indicator1 (c : Char) : Bool :=
  ['#', ',', '[', ']', '{', '}', '&', '*', '!', '|', '>', '\'', '"', '%', '@', '`'].contains c

/-- `IS_BLANKZ` of the next character (end of text counts) -/
def blankz : Str → Bool
  | [] => true
  | c :: _ => c = ' ' || c = '\t'

/-- indicators after the first character: `:` before a blank / the end, `#` after a blank (`p` = previous character) -/
def innerInd : Char → Str → Bool
  | _, [] => false
  | p, c :: cs => (c = ':' && blankz cs) || (c = '#' && p = ' ') || innerInd c cs

def blockInd : Str → Bool
  | [] => false
  | c :: cs =>
    ("---".toList.isPrefixOf (c :: cs)) || ("...".toList.isPrefixOf (c :: cs)) || indicator1 c ||
    ((c = '?' || c = ':' || c = '-') && blankz cs) || innerInd c cs

/-- `block_plain_allowed` for a text without line breaks -/
def plainAllowed (s : Str) : Bool :=
  !s.isEmpty && s.all printable && s.head? != some ' ' && s.getLast? != some ' ' && !blockInd s

/-! ### the resolver (PyYAML's YAML 1.1 implicit resolvers), decided on a sub-language -/

/-- canonical decimal integer: `-?(0|[1-9][0-9]*)`, recognised by printing the value back -/
def intLex? (t : Str) : Option Int :=
  let neg := t.head? == some '-'
  let ds := if neg then t.drop 1 else t
  match readNat? ds with
  | some n =>
    let i : Int := if neg then -(n : Int) else (n : Int)
    if showInt i = t then some i else none
  | none => none

def floatSpecials : List Str := [".nan", ".NaN", ".NAN", ".inf", ".Inf", ".INF", "-.inf", "-.Inf", "-.INF"].map String.toList

/-- `-?[0-9]+\.[0-9]*([eE][-+][0-9]+)?` or a special: a sub-language of the resolver's float pattern that contains
everything `represent_float` writes -/
def floatLex (t : Str) : Bool :=
  floatSpecials.contains t ||
  (let t1 := if t.head? == some '-' then t.drop 1 else t
   let ip := t1.takeWhile isDig
   let r1 := t1.dropWhile isDig
   !ip.isEmpty &&
   match r1 with
   | '.' :: r2 =>
     (match r2.dropWhile isDig with
      | [] => true
      | e :: s :: ds => (e = 'e' || e = 'E') && (s = '-' || s = '+') && !ds.isEmpty && ds.all isDig
      | _ => false)
   | _ => false)

/-- every character the int / float / timestamp patterns of the resolver can match -/
def numAlphabet (c : Char) : Bool :=
  isDig c || "abcdefABCDEF_xob:.eEinfINFaAnNTtZ+- \t".toList.contains c

/-- first character dispatches to the numeric resolvers and no character excludes them -/
def numLooking (t : Str) : Bool :=
  (match t with | c :: _ => isDig c || c = '-' || c = '+' || c = '.' | [] => false) && t.all numAlphabet

/-- tag of a plain scalar; `none` = not decided by this model (numeric-looking but not canonical, `<<`, `=`) -/
def resolve (t : Str) : Option Sc :=
  if nullWords.contains t then some .null
  else if trueWords.contains t then some (.bool true)
  else if falseWords.contains t then some (.bool false)
  else match intLex? t with
    | some i => some (.int i)
    | none =>
      if floatLex t then some (.flt t)
      else if numLooking t || t = "<<".toList || t = "=".toList then none
      else some (.str t)

/-! ### single quotes -/

def quoteBody : Str → Str
  | [] => []
  | c :: cs => if c = '\'' then '\'' :: '\'' :: quoteBody cs else c :: quoteBody cs

def quote (s : Str) : Str := '\'' :: (quoteBody s ++ ['\''])

/-- the text after the opening quote: `''` is a quote, a single `'` must end the line -/
def unq : Str → Option Str
  | [] => none
  | c :: r =>
    if c = '\'' then
      match r with
      | [] => some []
      | d :: r' => if d = '\'' then (unq r').map ('\'' :: ·) else none
    else if printable c then (unq r).map (c :: ·) else none

/-! ### value text -/

def lexVal (t : Str) : Option LV :=
  if t = "[]".toList then some .empty
  else match t with
    | '\'' :: r => (unq r).map (fun s => .sc (.str s))
    | _ => if plainAllowed t then (resolve t).map .sc else none

/-- the text of a scalar as libyaml writes it (`select_scalar_style`), `none` = outside the class -/
def scText : Sc → Option Str
  | .null => some "null".toList
  | .bool true => some "true".toList
  | .bool false => some "false".toList
  | .int i => some (showInt i)
  | .flt l => if lexVal l = some (.sc (.flt l)) then some l else none
  | .str s =>
    if s.isEmpty then some "''".toList
    else if !s.all printable then none                      -- double quotes: outside the class
    else if plainAllowed s then
      match resolve s with
      | some (.str _) => some s
      | some _ => some (quote s)
      | none => none
    else some (quote s)

/-- no space of the value text stands beyond column 80 (the emitter folds there) -/
def noFoldFrom : Nat → Str → Bool
  | _, [] => true
  | col, c :: cs => (c != ' ' || col ≤ 80) && noFoldFrom (col + 1) cs

def linePre (L : Line) : Str :=
  List.replicate L.ind ' ' ++ ((if L.dash then ['-', ' '] else []) ++ (L.key ++ [':']))

def renderLine (L : Line) : Option Str :=
  if !keyOK L.key then none else
  match L.val with
  | .opn => some (linePre L)
  | .empty => some (linePre L ++ ' ' :: "[]".toList)
  | .sc s =>
    match scText s with
    | none => none
    | some vt => if noFoldFrom ((linePre L).length + 1) vt then some (linePre L ++ ' ' :: vt) else none

def lexLine (l : Str) : Option Line :=
  let ind := (l.takeWhile (· = ' ')).length
  let r := l.dropWhile (· = ' ')
  let dash := "- ".toList.isPrefixOf r
  let r := if dash then r.drop 2 else r
  let kr := split1 ':' r
  if !keyOK kr.1 then none else
  match kr.2 with
  | none => none
  | some [] => some ⟨ind, dash, kr.1, .opn⟩
  | some (c :: vt) => if c = ' ' then (lexVal vt).map (fun v => ⟨ind, dash, kr.1, v⟩) else none

/-! ### structure: lines ↔ tree -/

/-- `(leading lines that are no head, groups (head, body))` -/
def groupsAux (p : Line → Bool) : List Line → List Line × List (Line × List Line)
  | [] => ([], [])
  | l :: ls =>
    let r := groupsAux p ls
    if p l then ([], (l, r.1) :: r.2) else (l :: r.1, r.2)

def groups (p : Line → Bool) (ls : List Line) : Option (List (Line × List Line)) :=
  let r := groupsAux p ls
  if r.1.isEmpty then some r.2 else none

def mapO {α β} (f : α → Option β) : List α → Option (List β)
  | [] => some []
  | a :: t =>
    match f a with
    | none => none
    | some b =>
      match mapO f t with
      | none => none
      | some r => some (b :: r)

def isEntryHead (n : Nat) (L : Line) : Bool := L.ind == n && !L.dash
def isRecHead (n : Nat) (L : Line) : Bool := L.ind == n && L.dash

/-- the first line of a record carries the dash two columns to the left -/
def dashFirst (n : Nat) : List Line → List Line
  | [] => []
  | L :: ls => { L with ind := n, dash := true } :: ls

def undash (n : Nat) (L : Line) : Line := { L with ind := n + 2, dash := false }

def emitEntries {β} (ev : Nat → Str → β → List Line) (n : Nat) (es : List (Str × β)) : List Line :=
  es.flatMap (fun kv => ev n kv.1 kv.2)

def emitSc (n : Nat) (k : Str) (s : Sc) : List Line := [⟨n, false, k, .sc s⟩]

def emitV {α} (inner : Nat → List (Str × α) → List Line) (n : Nat) (k : Str) : V α → List Line
  | .sc s => [⟨n, false, k, .sc s⟩]
  | .empty => [⟨n, false, k, .empty⟩]
  | .recs l => ⟨n, false, k, .opn⟩ :: l.flatMap (fun r => dashFirst n (inner (n + 2) r))

def parseEntries {β} (pv : Nat → LV → List Line → Option β) (n : Nat) (ls : List Line) : Option (List (Str × β)) :=
  match groups (isEntryHead n) ls with
  | none => none
  | some gs => mapO (fun g => (pv n g.1.val g.2).map (fun v => (g.1.key, v))) gs

def parseSc (_ : Nat) (lv : LV) (body : List Line) : Option Sc :=
  if !body.isEmpty then none else
  match lv with
  | .sc s => some s
  | .opn => some .null
  | .empty => none

def parseV {α} (inner : Nat → List Line → Option (List (Str × α))) (n : Nat) (lv : LV) (body : List Line) : Option (V α) :=
  match lv with
  | .sc s => if body.isEmpty then some (.sc s) else none
  | .empty => if body.isEmpty then some .empty else none
  | .opn =>
    if body.isEmpty then some (.sc .null) else
    match groups (isRecHead n) body with
    | none => none
    | some gs => (mapO (fun g => inner (n + 2) (undash n g.1 :: g.2)) gs).map .recs

def emitR2 (n : Nat) (r : R2) : List Line := emitEntries emitSc n r
def emitR1 (n : Nat) (r : R1) : List Line := emitEntries (emitV emitR2) n r
def emitTree (t : Tree) : List Line := emitEntries (emitV emitR1) 0 t

def parseR2 (n : Nat) (ls : List Line) : Option R2 := parseEntries parseSc n ls
def parseR1 (n : Nat) (ls : List Line) : Option R1 := parseEntries (parseV parseR2) n ls
def parseTree (ls : List Line) : Option Tree := parseEntries (parseV parseR1) 0 ls

/-! ### duplicate keys (PyYAML keeps the last one; the subset has none) -/

def keysNodup {β} (es : List (Str × β)) : Bool := (es.map Prod.fst).Nodup

def vAll {α} (p : List (Str × α) → Bool) : V α → Bool
  | .recs l => l.all p
  | _ => true

def r1Nodup (r : R1) : Bool := keysNodup r && r.all (fun kv => vAll (fun r2 => keysNodup r2) kv.2)
def treeNodup (t : Tree) : Bool := keysNodup t && t.all (fun kv => vAll r1Nodup kv.2)

/-! ### text -/

def emitChars (t : Tree) : Option Str :=
  if t.isEmpty then none else
  (mapO renderLine (emitTree t)).map (fun ls => joinWith '\n' ls ++ ['\n'])

/-- lines of a text; a final newline is optional -/
def textLines (s : Str) : List Str :=
  let ps := splitOn '\n' s
  if ps.getLast? = some [] then ps.dropLast else ps

def parseChars (s : Str) : Option Tree :=
  match mapO lexLine (textLines s) with
  | none => none
  | some ls =>
    match parseTree ls with
    | none => none
    | some t => if treeNodup t && !t.isEmpty then some t else none

def emitQua (t : Tree) : Option String := (emitChars t).map String.ofList
def parseQua (s : String) : Option Tree := parseChars s.toList

/-! ### from the tree to the parsed document of `Model/Qua.lean` (what `yaml.safe_load` hands to `QuaMap.read`) -/

open Reamber.Qua (YV KS Rec Doc)

def pow10 (n : Nat) : Nat := 10 ^ n

/-- exact value of a float lexeme of the class; `none` for the specials -/
def fltVal (t : Str) : Option Rat :=
  if floatSpecials.contains t then none else
  let neg := t.head? == some '-'
  let t1 := if neg then t.drop 1 else t
  let ip := t1.takeWhile isDig
  let r2 := (t1.dropWhile isDig).drop 1
  let fp := r2.takeWhile isDig
  let ex := r2.dropWhile isDig
  let m : Rat := ((natOfDigits 0 (ip ++ fp) : Nat) : Rat) / ((pow10 fp.length : Nat) : Rat)
  let m := if neg then -m else m
  match ex with
  | _ :: s :: ds =>
    let e := natOfDigits 0 ds
    some (if s = '-' then m / ((pow10 e : Nat) : Rat) else m * ((pow10 e : Nat) : Rat))
  | _ => some m

def scYV : Sc → Option YV
  | .null => none                      -- no type of the format admits null (outside the modelled domain)
  | .bool b => some (.bool b)
  | .int i => some (.int i)
  | .flt l => if l = ".nan".toList || l = ".NaN".toList || l = ".NAN".toList then some .nan else (fltVal l).map .flt
  | .str s => some (.str (String.ofList s))

def ksOf (r : R2) : Option KS :=
  match r with
  | [(a, .int x), (b, .int y)] =>
    if a = "Sample".toList && b = "Volume".toList then some ⟨x, y⟩
    else if a = "Volume".toList && b = "Sample".toList then some ⟨y, x⟩ else none
  | _ => none

def emptyYV (k : Str) : YV := if k = "KeySounds".toList then .ks [] else .strs []

def v1YV (k : Str) : V Sc → Option YV
  | .sc s => scYV s
  | .empty => some (emptyYV k)
  | .recs l => if k = "KeySounds".toList then (mapO ksOf l).map .ks else none

def r1Rec (r : R1) : Option Rec := mapO (fun kv => (v1YV kv.1 kv.2).map (fun v => (String.ofList kv.1, v))) r

def sectionKeys : List Str := ["HitObjects", "TimingPoints", "SliderVelocities"].map String.toList

def sectionOfTree (t : Tree) (k : String) : Option (Option (List Rec)) :=
  match List.lookup k.toList t with
  | none => some none
  | some .empty => some (some [])
  | some (.recs l) => (mapO r1Rec l).map some
  | some (.sc _) => none

def infoYV (k : Str) : V (V Sc) → Option YV
  | .sc s => scYV s
  | .empty => some (emptyYV k)
  | .recs _ => none

/-- `yaml.safe_load` result as the `Doc` of the tree-level model (`none` = outside its domain) -/
def treeDoc (t : Tree) : Option Doc :=
  match mapO (fun kv => (infoYV kv.1 kv.2).map (fun v => (String.ofList kv.1, v)))
      (t.filter (fun kv => !sectionKeys.contains kv.1)) with
  | none => none
  | some info =>
    match sectionOfTree t "HitObjects", sectionOfTree t "TimingPoints", sectionOfTree t "SliderVelocities" with
    | some ho, some tp, some sv => some ⟨info, ho, tp, sv⟩
    | _, _, _ => none

/-- `QuaMap.read(text)` for a text of the subset -/
def readText (s : String) : Option (Except Reamber.Qua.Err Reamber.Qua.Chart) :=
  match parseQua s with
  | none => none
  | some t => (treeDoc t).map Reamber.Qua.read

end Reamber.QuaText
