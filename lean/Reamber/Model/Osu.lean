/-
C01 — executable model of reamberPy's osu!mania reader / writer, *as written*:

  reamber/osu/OsuNoteMeta.py          x_axis_to_column, column_to_x_axis, is_hit, is_hold
  reamber/osu/OsuTimingPointMeta.py   is_timing_point, is_slider_velocity
  reamber/osu/OsuHit.py, OsuHold.py   read_string, write_string
  reamber/osu/OsuBpm.py, OsuSv.py     code_to_value, value_to_code, read_string, write_string
  reamber/osu/OsuSample.py            read_string, write_string
  reamber/osu/OsuSampleSet.py         to_string, from_string
  reamber/osu/OsuMapMeta.py           _read_meta_string_list (the key:value loop), write_meta_string_list
  reamber/osu/OsuMap.py               read (section split), write (bpms, svs, holds+hits sorted by time)
  reamber/osu/lists/*                 read = [read_string(s) for s in strings]

Numbers are exact rationals.  The model is fed the exact value of every double the implementation holds.
Float *rendering* (`repr`) and `unidecode` are parameters: the writer emits tokens (`Tok`) and a
`Render` turns them into characters (DESIGN §5 K3).  Integers are rendered by the model itself (`showInt`).
-/
import Reamber.Model.OsuLex

namespace Reamber.Osu

/-! ### numeric core -/

/-- `OsuNoteMeta.x_axis_to_column`: `max(min(int(x * keys // 512), keys - 1), 0)` on Python ints
(`//` is floor division; `Int./` is floor division for the positive divisor 512). -/
def xToCol (x k : Int) : Int := max (min ((x * k) / 512) (k - 1)) 0

/-- `OsuNoteMeta.column_to_x_axis`: `int(floor((512.0 * column + 256.0) / keys))` (after `assert keys > 0`). -/
def colToX (c k : Int) : Int := (512 * c + 256) / k

/-- `OsuBpm.code_to_value` = `value_to_code` = `60000.0 / v` -/
def bpmCode (v : Rat) : Rat := 60000 / v
/-- `OsuSv.code_to_value` = `value_to_code` = `-100.0 / v` -/
def svCode (v : Rat) : Rat := -100 / v

/-! ### chart objects -/

structure Hit where
  offset : Rat
  column : Int
  hitsoundSet : Int := 0
  sampleSet : Int := 0
  additionSet : Int := 0
  customSet : Int := 0
  volume : Int := 0
  file : Str := []
deriving Repr, DecidableEq, Inhabited

structure Hold where
  offset : Rat
  column : Int
  length : Rat
  hitsoundSet : Int := 0
  sampleSet : Int := 0
  additionSet : Int := 0
  customSet : Int := 0
  volume : Int := 0
  file : Str := []
deriving Repr, DecidableEq, Inhabited

structure Bpm where
  offset : Rat
  bpm : Rat
  metronome : Rat := 4
  sampleSet : Int := 0
  sampleSetIndex : Int := 0
  volume : Int := 50
  kiai : Bool := false
deriving Repr, DecidableEq, Inhabited

structure Sv where
  offset : Rat
  multiplier : Rat
  sampleSet : Int := 0
  sampleSetIndex : Int := 0
  volume : Int := 50
  kiai : Bool := false
deriving Repr, DecidableEq, Inhabited

structure Sample where
  offset : Rat
  file : Str := []
  volume : Int := 70
deriving Repr, DecidableEq, Inhabited

/-- the attributes of `OsuMapMeta` (defaults = the dataclass defaults, tied to the source by the translator) -/
structure Meta where
  audioFileName : Str := []
  audioLeadIn : Rat := 0
  previewTime : Rat := -1
  countdown : Bool := false
  sampleSet : Int := 0
  stackLeniency : Rat := 7 / 10
  mode : Int := 3
  letterboxInBreaks : Bool := false
  specialStyle : Bool := false
  widescreenStoryboard : Bool := true
  distanceSpacing : Rat := 4
  beatDivisor : Rat := 4
  gridSize : Rat := 8
  timelineZoom : Rat := 3 / 10
  title : Str := []
  titleUnicode : Str := []
  artist : Str := []
  artistUnicode : Str := []
  creator : Str := []
  version : Str := []
  source : Str := []
  tags : List Str := []
  beatmapId : Int := 0
  beatmapSetId : Int := -1
  hpDrainRate : Rat := 5
  circleSize : Rat := 4
  overallDifficulty : Rat := 5
  approachRate : Rat := 5
  sliderMultiplier : Rat := 14 / 10
  sliderTickRate : Rat := 1
  backgroundFileName : Str := []
  samples : List Sample := []
deriving Repr, DecidableEq, Inhabited

structure Chart where
  md : Meta := {}
  bpms : List Bpm := []
  svs : List Sv := []
  hits : List Hit := []
  holds : List Hold := []
deriving Repr, DecidableEq, Inhabited

/-! ### line classifiers (by counting, as written) -/

/-- `OsuNoteMeta.is_hit` -/
def isHit (s : Str) : Bool := countC ':' s = 4 && countC ',' s = 5
/-- `OsuNoteMeta.is_hold` -/
def isHold (s : Str) : Bool := countC ':' s = 5 && countC ',' s = 5

/-- `OsuTimingPointMeta.is_timing_point` -/
def isTimingPoint (s : Str) : Bool :=
  let t := splitOn ',' s
  t.length = 8 && t.getD 6 [] = ['1']
/-- `OsuTimingPointMeta.is_slider_velocity` -/
def isSliderVelocity (s : Str) : Bool :=
  let t := splitOn ',' s
  t.length = 8 && t.getD 6 [] = ['0']

/-! ### field-level readers -/

/-- `l[i]` raising IndexError -/
def idx (l : List Str) (i : Nat) : Except Err Str :=
  match l[i]? with
  | some s => .ok s
  | none => .error .index

/-- `OsuHit.read_string(s, keys, as_dict=True)`; the dict entries are evaluated in source order -/
def readHit (s : Str) (keys : Int) : Except Err Hit := do
  if !isHit s then throw .value
  let sc := splitOn ',' s
  let cl := splitOn ':' (sc.getLastD [])
  let offset ← readFloat (← idx sc 2)
  let x ← readInt (← idx sc 0)
  let hs ← readInt (← idx sc 4)
  let ss ← readInt (← idx cl 0)
  let ad ← readInt (← idx cl 1)
  let cu ← readInt (← idx cl 2)
  let vol ← readInt (← idx cl 3)
  let file ← idx cl 4
  return { offset := offset, column := xToCol x keys, hitsoundSet := hs, sampleSet := ss, additionSet := ad,
           customSet := cu, volume := vol, file := file }

/-- `OsuHold.read_string(s, keys, as_dict=True)` -/
def readHold (s : Str) (keys : Int) : Except Err Hold := do
  if !isHold s then throw .value
  let sc := splitOn ',' s
  let cl := splitOn ':' (sc.getLastD [])
  let offset ← readFloat (← idx sc 2)
  let x ← readInt (← idx sc 0)
  let e ← readFloat (← idx cl 0)
  let offset' ← readFloat (← idx sc 2)
  let hs ← readInt (← idx sc 4)
  let ss ← readInt (← idx cl 1)
  let ad ← readInt (← idx cl 2)
  let cu ← readInt (← idx cl 3)
  let vol ← readInt (← idx cl 4)
  let file ← idx cl 5
  return { offset := offset, column := xToCol x keys, length := e - offset', hitsoundSet := hs, sampleSet := ss,
           additionSet := ad, customSet := cu, volume := vol, file := file }

/-- `bool(int(s))` -/
def readBoolInt (s : Str) : Except Err Bool := do
  let i ← readInt s
  return decide (i ≠ 0)

/-- `OsuBpm.read_string(s, as_dict=True)` -/
def readBpm (s : Str) : Except Err Bpm := do
  if !isTimingPoint s then throw .value
  let sc := splitOn ',' s
  let offset ← readFloat (← idx sc 0)
  let code ← readFloat (← idx sc 1)
  if code = 0 then throw .zeroDiv
  let met ← readInt (← idx sc 2)
  let ss ← readInt (← idx sc 3)
  let si ← readInt (← idx sc 4)
  let vol ← readInt (← idx sc 5)
  let kiai ← readBoolInt (← idx sc 7)
  return { offset := offset, bpm := bpmCode code, metronome := (met : Rat), sampleSet := ss, sampleSetIndex := si,
           volume := vol, kiai := kiai }

/-- `OsuSv.read_string(s, as_dict=True)` -/
def readSv (s : Str) : Except Err Sv := do
  if !isSliderVelocity s then throw .value
  let sc := splitOn ',' s
  let offset ← readFloat (← idx sc 0)
  let code ← readFloat (← idx sc 1)
  if code = 0 then throw .zeroDiv
  let ss ← readInt (← idx sc 3)
  let si ← readInt (← idx sc 4)
  let vol ← readInt (← idx sc 5)
  let kiai ← readBoolInt (← idx sc 7)
  return { offset := offset, multiplier := svCode code, sampleSet := ss, sampleSetIndex := si, volume := vol,
           kiai := kiai }

/-- `OsuSample.read_string(s, True)`: IndexError is re-raised as ValueError -/
def readSample (s : Str) : Except Err Sample :=
  let sc := splitOn ',' s
  match sc[1]?, sc[3]?, sc[4]? with
  | some a, some f, some v =>
    match readFloat a with
    | .error e => .error e
    | .ok off =>
      match readInt v with
      | .error e => .error e
      | .ok vol => .ok { offset := off, file := f, volume := vol }
  | some a, _, _ =>
    -- `float(s_comma[1])` is evaluated before the missing index is reached
    match readFloat a with
    | .error e => .error e
    | .ok _ => .error .value
  | none, _, _ => .error .value

/-! ### `OsuSampleSet` -/

def sampleSetToString (i : Int) : Str :=
  if i = 0 then "None".toList else if i = 1 then "Normal".toList else if i = 2 then "Soft".toList
  else if i = 3 then "Drum".toList else "Invalid".toList

def sampleSetFromString (s : Str) : Int :=
  if s = "None".toList then 0 else if s = "Normal".toList then 1 else if s = "Soft".toList then 2
  else if s = "Drum".toList then 3 else -1

/-! ### the metadata loop -/

/-- a metadata value: `v` after `k, *v = line.split(":", 1); if v: v = v[0]` — `none` is the empty list `[]` -/
abbrev MVal := Option Str

/-- `v.strip()` (AttributeError on `[]`) -/
def mStr (v : MVal) : Except Err Str :=
  match v with | some s => .ok (strip s) | none => .error .attr
/-- `int(v)` (TypeError on `[]`) -/
def mInt (v : MVal) : Except Err Int :=
  match v with | some s => readInt s | none => .error .type
/-- `float(v)` -/
def mFloat (v : MVal) : Except Err Rat :=
  match v with | some s => readFloat s | none => .error .type
/-- `bool(int(v))` -/
def mBool (v : MVal) : Except Err Bool :=
  match v with | some s => readBoolInt s | none => .error .type
/-- `[i.strip() for i in v.split(" ") if i]` -/
def mTags (v : MVal) : Except Err (List Str) :=
  match v with
  | some s => .ok (((splitOn ' ' s).filter (fun i => i ≠ [])).map strip)
  | none => .error .attr

def kBackground : Str := "//Background and Video events".toList
def kSamples : Str := "//Storyboard Sound Samples".toList
def pSample : Str := "Sample".toList

/-- the `if k == … elif …` chain for one line -/
def metaAssign (m : Meta) (k : Str) (v : MVal) : Except Err Meta :=
  if k = "AudioFilename".toList then do return { m with audioFileName := ← mStr v }
  else if k = "AudioLeadIn".toList then do return { m with audioLeadIn := ((← mInt v : Int) : Rat) }
  else if k = "PreviewTime".toList then do return { m with previewTime := ((← mInt v : Int) : Rat) }
  else if k = "Countdown".toList then do return { m with countdown := ← mBool v }
  else if k = "SampleSet".toList then do return { m with sampleSet := sampleSetFromString (← mStr v) }
  else if k = "StackLeniency".toList then do return { m with stackLeniency := ← mFloat v }
  else if k = "Mode".toList then do return { m with mode := ← mInt v }
  else if k = "LetterboxInBreaks".toList then do return { m with letterboxInBreaks := ← mBool v }
  else if k = "SpecialStyle".toList then do return { m with specialStyle := ← mBool v }
  else if k = "WidescreenStoryboard".toList then do return { m with widescreenStoryboard := ← mBool v }
  else if k = "DistanceSpacing".toList then do return { m with distanceSpacing := ← mFloat v }
  else if k = "BeatDivisor".toList then do return { m with beatDivisor := ((← mInt v : Int) : Rat) }
  else if k = "GridSize".toList then do return { m with gridSize := ((← mInt v : Int) : Rat) }
  else if k = "TimelineZoom".toList then do return { m with timelineZoom := ← mFloat v }
  else if k = "Title".toList then do return { m with title := ← mStr v }
  else if k = "TitleUnicode".toList then do return { m with titleUnicode := ← mStr v }
  else if k = "Artist".toList then do return { m with artist := ← mStr v }
  else if k = "ArtistUnicode".toList then do return { m with artistUnicode := ← mStr v }
  else if k = "Creator".toList then do return { m with creator := ← mStr v }
  else if k = "Version".toList then do return { m with version := ← mStr v }
  else if k = "Source".toList then do return { m with source := ← mStr v }
  else if k = "Tags".toList then do return { m with tags := ← mTags v }
  else if k = "BeatmapID".toList then do return { m with beatmapId := ← mInt v }
  else if k = "BeatmapSetID".toList then do return { m with beatmapSetId := ← mInt v }
  else if k = "HPDrainRate".toList then do return { m with hpDrainRate := ← mFloat v }
  else if k = "CircleSize".toList then do return { m with circleSize := ← mFloat v }
  else if k = "OverallDifficulty".toList then do return { m with overallDifficulty := ← mFloat v }
  else if k = "ApproachRate".toList then do return { m with approachRate := ← mFloat v }
  else if k = "SliderMultiplier".toList then do return { m with sliderMultiplier := ← mFloat v }
  else if k = "SliderTickRate".toList then do return { m with sliderTickRate := ← mFloat v }
  else .ok m

/-- `line[line.find('"') + 1 : line.rfind('"')]` -/
def quoted (line : Str) : Str := pySlice line (findC '"' line + 1) (rfindC '"' line)

/-- one iteration of the loop body for `line`, with `rest = lines[e + 1:]` -/
def metaStep (m : Meta) (line : Str) (rest : List Str) : Except Err Meta :=
  if line = [] then .ok m else
  let kv := split1 ':' line
  match metaAssign m kv.1 kv.2 with
  | .error e => .error e
  | .ok m1 =>
    let m2 : Except Err Meta :=
      if kv.1 = kBackground then
        match rest with
        | [] => .error .index
        | l :: _ => .ok { m1 with backgroundFileName := quoted l }
      else .ok m1
    match m2 with
    | .error e => .error e
    | .ok m2 =>
      if kv.1 = kSamples then
        match mapE readSample (rest.filter (startsWith pSample)) with
        | .error e => .error e
        | .ok ss => .ok { m2 with samples := ss }
      else .ok m2

/-- `OsuMapMeta._read_meta_string_list` -/
def readMeta (m : Meta) : List Str → Except Err Meta
  | [] => .ok m
  | l :: rest =>
    match metaStep m l rest with
    | .error e => .error e
    | .ok m' => readMeta m' rest

/-! ### `OsuMap.read` -/

def hTiming : Str := "[TimingPoints]".toList
def hObjects : Str := "[HitObjects]".toList

/-- `lines.index(x)` -/
def indexOf? (x : Str) : List Str → Option Nat
  | [] => none
  | l :: ls => if l = x then some 0 else (indexOf? x ls).map (· + 1)

/-- `OsuMap.read(lines)` -/
def read (lines0 : List Str) : Except Err Chart :=
  let lines := lines0.map strip
  match indexOf? hTiming lines, indexOf? hObjects lines with
  | some ixTp, some ixHo =>
    match readMeta {} (lines.take ixTp) with
    | .error e => .error e
    | .ok md =>
      let tp := (lines.take ixHo).drop (ixTp + 1)
      match mapE readSv (tp.filter isSliderVelocity) with
      | .error e => .error e
      | .ok svs =>
        match mapE readBpm (tp.filter isTimingPoint) with
        | .error e => .error e
        | .ok bpms =>
          let ho := lines.drop (ixHo + 1)
          let k := pyTrunc md.circleSize
          match mapE (fun s => readHit s k) (ho.filter isHit) with
          | .error e => .error e
          | .ok hits =>
            match mapE (fun s => readHold s k) (ho.filter isHold) with
            | .error e => .error e
            | .ok holds => .ok { md := md, bpms := bpms, svs := svs, hits := hits, holds := holds }
  | _, _ => .error .format

/-- `OsuMap.read_file`: the file's text split at "\n" -/
def readText (t : Str) : Except Err Chart := read (splitOn '\n' t)

/-- text-mode `open(path, "r", encoding="utf8")` with Python's universal newlines: "\r\n" and a lone "\r" arrive as
"\n"; no other character is touched (in particular U+2028, U+2029, U+0085, \x0b, \x0c, \x1c–\x1e stay inside
their line — `str.split("\n")` is not `str.splitlines()`) -/
def univNl : Str → Str
  | [] => []
  | '\r' :: '\n' :: t => '\n' :: univNl t
  | '\r' :: t => '\n' :: univNl t
  | c :: t => c :: univNl t

/-- the lines `OsuMap.read_file` hands to `OsuMap.read`: decode, universal newlines, `split("\n")` -/
def fileLines (t : Str) : List Str := splitOn '\n' (univNl t)

/-- `OsuMap.read_file` on a file with the (decoded) content `t` -/
def readFile (t : Str) : Except Err Chart := read (fileLines t)

/-! ### writing: tokens -/

/-- one piece of an output line -/
inductive Tok where
  | lit (s : Str)        -- literal characters / a string attribute as it is
  | int (i : Int)        -- `str(int)` — rendered by the model (`showInt`)
  | repr (q : Rat)       -- `f"{x}"` of a float: Python's `repr` (parameter)
  | num (q : Rat)        -- `_num(x)`: `str(int(x))` when integral (rendered by the model), else `repr(float(x))`
  | uni (s : Str)        -- `unidecode(s)` (parameter)
deriving Repr, DecidableEq, Inhabited

abbrev TLine := List Tok

/-- the parameters of the text layer -/
structure Render where
  repr : Rat → Str
  uni : Str → Str

def Render.tok (R : Render) : Tok → Str
  | .lit s => s
  | .int i => showInt i
  | .repr q => R.repr q
  | .num q => if q.den = 1 then showInt q.num else R.repr q
  | .uni s => R.uni s

def Render.line (R : Render) (l : TLine) : Str := (l.map R.tok).flatten

def L (s : String) : Tok := .lit s.toList
def comma : Tok := .lit [',']
def colon : Tok := .lit [':']

/-- `OsuHit.write_string(keys)` -/
def writeHit (h : Hit) (keys : Int) : TLine :=
  [.int (colToX h.column keys), comma, .int 192, comma, .int (pyTrunc h.offset), comma, .int 1, comma,
   .int h.hitsoundSet, comma, .int h.sampleSet, colon, .int h.additionSet, colon, .int h.customSet, colon,
   .int h.volume, colon, .lit h.file]

/-- `OsuHold.write_string(keys)` -/
def writeHold (h : Hold) (keys : Int) : TLine :=
  [.int (colToX h.column keys), comma, .int 192, comma, .int (pyTrunc h.offset), comma, .int 128, comma,
   .int h.hitsoundSet, comma, .int (pyTrunc (h.offset + h.length)), colon, .int h.sampleSet, colon,
   .int h.additionSet, colon, .int h.customSet, colon, .int h.volume, colon, .lit h.file]

def boolInt (b : Bool) : Int := if b then 1 else 0

/-- `OsuBpm.write_string()` -/
def writeBpm (b : Bpm) : TLine :=
  [.repr b.offset, comma, .repr (bpmCode b.bpm), comma, .int (pyTrunc b.metronome), comma, .int b.sampleSet, comma,
   .int b.sampleSetIndex, comma, .int b.volume, comma, .int 1, comma, .int (boolInt b.kiai)]

/-- `OsuSv.write_string()` -/
def writeSv (b : Sv) : TLine :=
  [.repr b.offset, comma, .repr (svCode b.multiplier), comma, .int 4, comma, .int b.sampleSet, comma,
   .int b.sampleSetIndex, comma, .int b.volume, comma, .int 0, comma, .int (boolInt b.kiai)]

/-- `OsuSample.write_string()` -/
def writeSample (s : Sample) : TLine :=
  [L "Sample,", .int (pyTrunc s.offset), L ",0,", .lit s.file, comma, .int s.volume]

/-- `OsuMapMeta.write_meta_string_list()` -/
def writeMeta (m : Meta) : List TLine :=
  [ [L "osu file format v14"], [],
    [L "[General]"],
    [L "AudioFilename: ", .lit m.audioFileName],
    [L "AudioLeadIn: ", .num m.audioLeadIn],
    [L "PreviewTime: ", .int (pyTrunc m.previewTime)],
    [L "Countdown: ", .int (boolInt m.countdown)],
    [L "SampleSet: ", .lit (sampleSetToString m.sampleSet)],
    [L "StackLeniency: ", .repr m.stackLeniency],
    [L "Mode: ", .int m.mode],
    [L "LetterboxInBreaks: ", .int (boolInt m.letterboxInBreaks)],
    [L "SpecialStyle: ", .int (boolInt m.specialStyle)],
    [L "WidescreenStoryboard: ", .int (boolInt m.widescreenStoryboard)],
    [],
    [L "[Editor]"],
    [L "DistanceSpacing: ", .num m.distanceSpacing],
    [L "BeatDivisor: ", .num m.beatDivisor],
    [L "GridSize: ", .num m.gridSize],
    [L "TimelineZoom: ", .num m.timelineZoom],
    [],
    [L "[Metadata]"],
    [L "Title:", .uni m.title],
    [L "TitleUnicode:", .lit m.titleUnicode],
    [L "Artist:", .uni m.artist],
    [L "ArtistUnicode:", .lit m.artistUnicode],
    [L "Creator:", .lit m.creator],
    [L "Version:", .lit m.version],
    [L "Source:", .lit m.source],
    [L "Tags:", .lit (joinWith ' ' m.tags)],
    [L "BeatmapID:", .int m.beatmapId],
    [L "BeatmapSetID:", .int m.beatmapSetId],
    [],
    [L "[Difficulty]"],
    [L "HPDrainRate:", .num m.hpDrainRate],
    [L "CircleSize:", .num m.circleSize],
    [L "OverallDifficulty:", .num m.overallDifficulty],
    [L "ApproachRate:", .num m.approachRate],
    [L "SliderMultiplier:", .num m.sliderMultiplier],
    [L "SliderTickRate:", .num m.sliderTickRate],
    [],
    [L "[Events]"],
    [L "//Background and Video events"],
    [L "0,0,\"", .lit m.backgroundFileName, L "\",0,0"],
    [L "//Break Periods"],
    [L "//Storyboard Layer 0 (Background)"],
    [L "//Storyboard Layer 1 (Fail)"],
    [L "//Storyboard Layer 2 (Pass)"],
    [L "//Storyboard Layer 3 (Foreground)"],
    [L "//Storyboard Layer 4 (Overlay)"],
    [L "//Storyboard Sound Samples"] ]
  ++ m.samples.map writeSample

/-- stable insertion sort (Python's `sorted` is stable) -/
def insertBy {α} (le : α → α → Bool) (x : α) : List α → List α
  | [] => [x]
  | y :: ys => if le x y then x :: y :: ys else y :: insertBy le x ys

def isort {α} (le : α → α → Bool) (l : List α) : List α := l.foldr (insertBy le) []

/-- a hold or a hit, as `sorted([*self.holds, *self.hits], key=lambda x: x.offset)` sees them -/
inductive Obj where
  | hit (h : Hit)
  | hold (h : Hold)
deriving Repr, DecidableEq, Inhabited

def Obj.offset : Obj → Rat
  | .hit h => h.offset
  | .hold h => h.offset

def writeObj (keys : Int) : Obj → TLine
  | .hit h => writeHit h keys
  | .hold h => writeHold h keys

def sortedObjs (c : Chart) : List Obj :=
  isort (fun a b => decide (a.offset ≤ b.offset)) (c.holds.map Obj.hold ++ c.hits.map Obj.hit)

/-- `OsuMap.write()`: the list elements as the code produces them (two of them start with line breaks) -/
def write (c : Chart) : List TLine :=
  writeMeta c.md
  ++ [[L "\n[TimingPoints]"]]
  ++ c.bpms.map writeBpm
  ++ c.svs.map writeSv
  ++ [[L "\n\n[HitObjects]"]]
  ++ (sortedObjs c).map (writeObj (pyTrunc c.md.circleSize))

/-- `"\n".join(self.write())` -/
def writeText (R : Render) (c : Chart) : Str := joinWith '\n' ((write c).map R.line)

end Reamber.Osu
