/-
C15 (extension) — list-level operations of `BpmList` / `TimedList` that take a row order as input:
`BpmList.current_bpm`, `TimedList.time_diff`, `BpmList.ave_bpm`, `TimedList.describe`, as they are written in /repo.
Core Lean only.
-/
import Reamber.Model.Analysis

namespace Reamber.BpmListOps
open Reamber.Analysis
open Reamber.Timing (isort insertBy)

/-- `bpms[ix]` with `ix = int(np.sum((bpms.offset - offset - delta) <= 0)) - 1`; `none` = IndexError (`ix < 0`).
The count is over ALL rows (a mask sum), the index is positional. -/
def currentBpmRows (rows : List Tp) (t δ : Rat) : Option Tp :=
  match (rows.filter (fun p => decide (p.time - t - δ ≤ 0))).length with
  | 0 => none
  | k + 1 => rows[k]?

/-- `BpmList.current_bpm(offset, sort, delta)`: `bpms = self.sorted() if sort else self` -/
def currentBpm (bpms : List Tp) (sort : Bool) (t δ : Rat) : Option Tp :=
  currentBpmRows (if sort then sortTp bpms else bpms) t δ

/-- `TimedList.time_diff(last_offset)` for a given (truthy) `last_offset`:
`np.diff(self.sorted().offset, append=last_offset)` -/
def timeDiff (bpms : List Tp) (last : Rat) : List Rat := diffs ((sortTp bpms).map (·.time) ++ [last])

/-- `BpmList.ave_bpm(last_offset)` for a given (truthy) `last_offset`, as written: the bpm column and the differences
of the offset column, both in ROW order; divided by `last_offset - min(offset)` -/
def aveBpm (bpms : List Tp) (last : Rat) : Rat :=
  sumRat (List.zipWith (· * ·) (bpms.map (·.bpm)) (diffs (bpms.map (·.time) ++ [last]))) /
    (last - (sortRat (bpms.map (·.time))).headD 0)

/-! ### TimedList.describe -/

/-- `df.describe()` of one numeric column without NaN: count, mean, variance (`std`², ddof = 1; the square root is
outside the rationals), min, the three quartiles (numpy's linear interpolation on the ordered values), max -/
structure Descr where
  count : Nat
  mean : Rat
  var : Rat
  min : Rat
  q25 : Rat
  q50 : Rat
  q75 : Rat
  max : Rat
deriving DecidableEq, Repr

/-- a running reduction (`np.min` / `np.max` visit the values in row order) -/
def reduceOpt (pick : Rat → Rat → Rat) (l : List Rat) : Option Rat :=
  l.foldl (fun m x => match m with | none => some x | some y => some (pick y x)) none

def minPick (a b : Rat) : Rat := if b < a then b else a
def maxPick (a b : Rat) : Rat := if a < b then b else a

/-- value at fractional position `(n - 1) q` of the ordered values -/
def quantile (s : List Rat) (q : Rat) : Rat :=
  let pos : Rat := ((s.length : Int) - 1 : Int) * q
  let lo := pos.floor.toNat
  let a := s.getD lo 0
  a + (s.getD (lo + 1) a - a) * (pos - pos.floor)

def describeCol (col : List Rat) : Descr :=
  let n := col.length
  let mean := sumRat col / n
  let s := sortRat col
  ⟨n, mean, sumRat (col.map (fun x => (x - mean) * (x - mean))) / (((n : Int) - 1 : Int) : Rat),
   (reduceOpt minPick col).getD 0, quantile s (1/4), quantile s (1/2), quantile s (3/4), (reduceOpt maxPick col).getD 0⟩

end Reamber.BpmListOps
