/-
K2 (restricted to what `TimedList` / `HoldList` / `BpmList` do) — labelled tables.

A pandas DataFrame is modelled as a list of rows that carry a **row label** (`Tbl α = List (Int × α)`).
The operations mirror the pandas calls the code makes and nothing more:

* `df.iloc[i]`                          positional, Python index rules            (`getRow`)
* `df[slice]`                           positional on an integer index             (`sliceT`)
* `df[bool Series]`                     mask built from the frame's own column; pandas checks that the
                                        mask's index equals the frame's index, else re-aligns by label
                                        (`maskFilter`)
* `df.sort_values("offset", ascending)` labels kept; stable model (`sortedT`)
* `pd.concat([a, b], ignore_index=True)` labels renumbered `0..n-1`                (`appendT`)
* `df.loc[df.index.repeat(n)].reset_index(drop=True)`                               (`emptyF`)
* `min(self.offset)`, `max(self.offset)`, `max(self.offset + self.length)`          (`firstOffset`, `lastOffset`)
* item construction `Item(**row)` / `Item.from_series(row)` with the allowed-name filter (`mkItem`, `fromSeries`)
* `from_dict`, `_join` (list of items)                                               (`fromDictF`, `fromItemsF`)

Core Lean only (linked into the driver).
-/

namespace Reamber.TList

/-- Python exception classes the modelled code can raise -/
inductive Err where
  | index   -- IndexError (positional indexer out of bounds / unalignable mask)
  | value   -- ValueError (slice step 0, `max()` of an empty sequence, column names do not match)
  | type    -- TypeError  (missing constructor argument)
  deriving DecidableEq, Repr

def Err.toString : Err → String
  | .index => "index"
  | .value => "value"
  | .type => "type"

def mapE {α β} (f : α → Except Err β) : List α → Except Err (List β)
  | [] => .ok []
  | a :: t =>
    match f a with
    | .error e => .error e
    | .ok b =>
      match mapE f t with
      | .error e => .error e
      | .ok bs => .ok (b :: bs)

/-- stable insertion sort (structural, kernel-evaluable) -/
def insertBy {α} (le : α → α → Bool) (x : α) : List α → List α
  | [] => [x]
  | y :: ys => if le x y then x :: y :: ys else y :: insertBy le x ys

def isort {α} (le : α → α → Bool) (l : List α) : List α := l.foldr (insertBy le) []

/-! ### rows, labels -/

abbrev Tbl (α : Type) := List (Int × α)
/-- a labelled column (`pd.Series`) -/
abbrev Ser (β : Type) := List (Int × β)

def rows {α} (t : Tbl α) : List α := t.map Prod.snd
def labels {α} (t : List (Int × α)) : List Int := t.map Prod.fst

/-- `df[c]` followed by an element-wise function: labels are kept -/
def col {α β} (f : α → β) (t : Tbl α) : Ser β := t.map fun r => (r.1, f r.2)

/-- fresh labels `0..n-1` (`ignore_index=True`, `reset_index(drop=True)`, a new frame) -/
def relabelFrom {α} (k : Nat) : List α → Tbl α
  | [] => []
  | a :: as => ((k : Int), a) :: relabelFrom (k + 1) as
def relabel {α} (xs : List α) : Tbl α := relabelFrom 0 xs

/-! ### positional access: Python index and slice rules -/

/-- `seq[i]` for an `int` : `0 ≤ i < n` or `-n ≤ i < 0` -/
def pyIndex (n : Nat) (i : Int) : Except Err Nat :=
  if 0 ≤ i then (if i < n then .ok i.toNat else .error .index)
  else (if -(n : Int) ≤ i then .ok (i + n).toNat else .error .index)

/-- `slice(a, b, c).indices(n)` (CPython `PySlice_AdjustIndices`), step ≠ 0 -/
def sliceBounds (n : Nat) (a b : Option Int) (c : Int) : Int × Int :=
  let n : Int := n
  let clampStart (s : Int) : Int :=
    if s < 0 then (if s + n < 0 then (if c < 0 then -1 else 0) else s + n)
    else (if s ≥ n then (if c < 0 then n - 1 else n) else s)
  let start := match a with
    | none => if c < 0 then n - 1 else 0
    | some s => clampStart s
  let stop := match b with
    | none => if c < 0 then -1 else n
    | some s => clampStart s
  (start, stop)

/-- `range(start, stop, step)` as a list, by fuel (at most `fuel` elements) -/
def pyRange (start stop step : Int) : Nat → List Int
  | 0 => []
  | fuel + 1 =>
    if (0 < step ∧ start < stop) ∨ (step < 0 ∧ stop < start) then start :: pyRange (start + step) stop step fuel
    else []

/-- the positions selected by `seq[a:b:c]` on a sequence of length `n` -/
def sliceIdx (n : Nat) (a b c : Option Int) : Except Err (List Nat) :=
  let step := c.getD 1
  if step = 0 then .error .value
  else
    let (start, stop) := sliceBounds n a b step
    .ok ((pyRange start stop step n).map Int.toNat)

def gatherOpt {β} (xs : List β) (is : List Nat) : List β := is.filterMap (fun i => xs[i]?)

/-- Python's `seq[a:b:c]` -/
def pySlice {β} (xs : List β) (a b c : Option Int) : Except Err (List β) :=
  match sliceIdx xs.length a b c with
  | .error e => .error e
  | .ok is => .ok (gatherOpt xs is)

/-- Python's `seq[i]` -/
def pyGet {β} (xs : List β) (i : Int) : Except Err β :=
  match pyIndex xs.length i with
  | .error e => .error e
  | .ok k => match xs[k]? with
    | some x => .ok x
    | none => .error .index

section ops
variable {α : Type} (off len : α → Rat)

/-- `len(tl)` -/
def lenT (t : Tbl α) : Nat := t.length

/-- `tl.df.iloc[i]` (the row, before the item class is applied) -/
def getRow (t : Tbl α) (i : Int) : Except Err α :=
  match pyGet t i with
  | .error e => .error e
  | .ok r => .ok r.2

/-- `tl[a:b:c]` = `cls(df[slice])`: positional on the frame's integer index; labels travel with the rows -/
def sliceT (t : Tbl α) (a b c : Option Int) : Except Err (Tbl α) := pySlice t a b c

/-- `df[mask]` for a boolean Series: if the mask's index is the frame's index the selection is positional,
otherwise pandas re-aligns the mask by label and raises if a label is missing -/
def maskFilter (t : Tbl α) (m : Ser Bool) : Except Err (Tbl α) :=
  if labels m = labels t then
    .ok ((t.zip m).filterMap fun p => if p.2.2 then some p.1 else none)
  else
    match mapE (fun (r : Int × α) => match m.lookup r.1 with
        | some b => .ok (r, b)
        | none => .error .index) t with
    | .error e => .error e
    | .ok ps => .ok (ps.filterMap fun p => if p.2 then some p.1 else none)

/-- `series >= x`, `> x`, `<= x`, `< x` -/
def cmpMask (gt incl : Bool) (x : Rat) (s : Ser Rat) : Ser Bool :=
  s.map fun p => (p.1,
    if gt then (if incl then decide (x ≤ p.2) else decide (x < p.2))
    else (if incl then decide (p.2 ≤ x) else decide (p.2 < x)))

/-- `TimedList.after` -/
def afterT (t : Tbl α) (x : Rat) (incl : Bool) : Except Err (Tbl α) :=
  maskFilter t (cmpMask true incl x (col off t))

/-- `TimedList.before` -/
def beforeT (t : Tbl α) (x : Rat) (incl : Bool) : Except Err (Tbl α) :=
  maskFilter t (cmpMask false incl x (col off t))

/-- `TimedList.between` = `after(lo, incl₀).before(hi, incl₁)` -/
def betweenT (t : Tbl α) (lo hi : Rat) (il ih : Bool) : Except Err (Tbl α) :=
  match afterT off t lo il with
  | .error e => .error e
  | .ok t' => beforeT off t' hi ih

/-- `HoldList.after`: `offset + (length if include_tail else 0)` against the bound -/
def hAfterT (t : Tbl α) (x : Rat) (incl tail : Bool) : Except Err (Tbl α) :=
  maskFilter t (cmpMask true incl x (col (fun a => off a + (if tail then len a else 0)) t))

/-- `HoldList.before`: `offset + (length if not include_head else 0)` against the bound -/
def hBeforeT (t : Tbl α) (x : Rat) (incl head : Bool) : Except Err (Tbl α) :=
  maskFilter t (cmpMask false incl x (col (fun a => off a + (if !head then len a else 0)) t))

/-- `HoldList.between` -/
def hBetweenT (t : Tbl α) (lo hi : Rat) (il ih head tail : Bool) : Except Err (Tbl α) :=
  match hAfterT off len t lo il tail with
  | .error e => .error e
  | .ok t' => hBeforeT off len t' hi ih head

/-- the order `sort_values("offset", ascending = !rev)` sorts by -/
def leBy (rev : Bool) (a b : α) : Bool := if rev then decide (off b ≤ off a) else decide (off a ≤ off b)

/-- `TimedList.sorted(reverse)`: labels are kept. The model is the stable sort (numpy's default sort is
stable up to 16 rows; theorems also cover any tie order, see `Spec.StepRel`) -/
def sortedT (t : Tbl α) (rev : Bool) : Tbl α := isort (fun a b => leBy off rev a.2 b.2) t

/-- `TimedList.append(val, sort)`: `pd.concat([self.df, val], ignore_index=True)` then optionally `sorted()` -/
def appendT (t : Tbl α) (ys : List α) (sort : Bool) : Tbl α :=
  let t' := relabel (rows t ++ ys)
  if sort then sortedT off t' false else t'

/-- Python's `min(iterable)` / `max(iterable)` on a non-empty sequence -/
def minL : Rat → List Rat → Rat
  | m, [] => m
  | m, x :: xs => minL (if x < m then x else m) xs
def maxL : Rat → List Rat → Rat
  | m, [] => m
  | m, x :: xs => maxL (if m < x then x else m) xs

/-- `TimedList.first_offset()`: `None` on an empty list, else `min(self.offset)` -/
def firstOffset (t : Tbl α) : Option Rat :=
  match t.map (fun r => off r.2) with
  | [] => none
  | x :: xs => some (minL x xs)

/-- `TimedList.last_offset()`: `None` on an empty list, else `max(self.offset)` -/
def lastOffset (t : Tbl α) : Option Rat :=
  match t.map (fun r => off r.2) with
  | [] => none
  | x :: xs => some (maxL x xs)

/-- `HoldList.last_offset()`: `max(self.offset + self.length)`; raises `ValueError` on an empty list -/
def hLastOffset (t : Tbl α) : Except Err Rat :=
  match t.map (fun r => off r.2 + len r.2) with
  | [] => .error .value
  | x :: xs => .ok (maxL x xs)

/-- the list operations of the property (arguments as the public methods take them) -/
inductive Op (α : Type) where
  | slice (a b c : Option Int)
  | after (x : Rat) (incl : Bool)
  | before (x : Rat) (incl : Bool)
  | between (lo hi : Rat) (il ih : Bool)
  | hAfter (x : Rat) (incl tail : Bool)
  | hBefore (x : Rat) (incl head : Bool)
  | hBetween (lo hi : Rat) (il ih head tail : Bool)
  | sorted (rev : Bool)
  | append (ys : List α) (sort : Bool)

/-- one operation on the labelled table -/
def step (op : Op α) (t : Tbl α) : Except Err (Tbl α) :=
  match op with
  | .slice a b c => sliceT t a b c
  | .after x incl => afterT off t x incl
  | .before x incl => beforeT off t x incl
  | .between lo hi il ih => betweenT off t lo hi il ih
  | .hAfter x incl tail => hAfterT off len t x incl tail
  | .hBefore x incl head => hBeforeT off len t x incl head
  | .hBetween lo hi il ih head tail => hBetweenT off len t lo hi il ih head tail
  | .sorted rev => .ok (sortedT off t rev)
  | .append ys sort => .ok (appendT off t ys sort)

/-- a finite sequence of operations; stops at the first exception -/
def run : List (Op α) → Tbl α → Except Err (Tbl α)
  | [], t => .ok t
  | op :: ops, t =>
    match step off len op t with
    | .error e => .error e
    | .ok t' => run ops t'

/-! A **pool** of live lists: every operation takes a receiver from the pool (by position), its result joins
the pool, the receiver stays. The operations are not assigning, so nothing else in the pool changes. -/

def poolStep (i : Nat) (op : Op α) (pool : List (Tbl α)) : Except Err (List (Tbl α)) :=
  match pool[i]? with
  | none => .error .index
  | some t =>
    match step off len op t with
    | .error e => .error e
    | .ok t' => .ok (pool ++ [t'])

def runPool : List (Nat × Op α) → List (Tbl α) → Except Err (List (Tbl α))
  | [], pool => .ok pool
  | iop :: ops, pool =>
    match poolStep off len iop.1 iop.2 pool with
    | .error e => .error e
    | .ok pool' => runPool ops pool'

end ops

/-! ### records, items, schemas -/

inductive Cell where
  | nan
  | num (q : Rat)
  | str (s : String)
  | bool (b : Bool)
  | strs (l : List String)
  deriving DecidableEq, Repr

/-- a row / an item: field name ↦ value, in column order -/
abbrev Rec := List (String × Cell)

def Cell.toRat : Cell → Rat
  | .num q => q
  | .bool b => if b then 1 else 0
  | _ => 0

def fieldRat (k : String) (r : Rec) : Rat :=
  match r.lookup k with
  | some c => c.toRat
  | none => 0

/-- `row["offset"]`, `row["length"]` -/
def recOff (r : Rec) : Rat := fieldRat "offset" r
def recLen (r : Rec) : Rat := fieldRat "length" r

inductive Kind where
  | timed
  | hold
  deriving DecidableEq, Repr

structure Schema where
  name : String
  item : String
  kind : Kind
  /-- `Item._props`: (name, dtype, default) -/
  declared : List (String × String × Cell)
  /-- columns of `cls._default()` -/
  defaultCols : List String
  /-- `Item._from_series_allowed_names()` -/
  allowed : List String
  /-- named parameters of `Item.__init__` with their defaults (`none` = required) -/
  params : List (String × Option Cell)
  /-- `Item(**required).data.index` as evaluated on the source -/
  itemFields : List String
  deriving Repr

def Schema.declaredNames (s : Schema) : List String := s.declared.map (·.1)
def Schema.paramNames (s : Schema) : List String := s.params.map (·.1)

/-- `Item(**kw)`: named parameters are bound from `kw`, else from their default, else `TypeError`; every
named parameter is passed on to `Series.__init__`, the remaining keywords follow (`**kwargs`) -/
def mkItem (params : List (String × Option Cell)) (kw : Rec) : Except Err Rec :=
  match mapE (fun (p : String × Option Cell) =>
      match kw.lookup p.1, p.2 with
      | some v, _ => .ok (p.1, v)
      | none, some d => .ok (p.1, d)
      | none, none => .error .type) params with
  | .error e => .error e
  | .ok named => .ok (named ++ kw.filter (fun kv => !(params.map (·.1)).contains kv.1))

/-- `Item.from_series(row)`: only allowed names are passed to the constructor -/
def fromSeries (s : Schema) (r : Rec) : Except Err Rec :=
  mkItem s.params (r.filter fun kv => s.allowed.contains kv.1)

/-- `tl[i]` for an `int`: `Item(**df.iloc[i].to_dict())` — no name filter -/
def getItem (s : Schema) (t : Tbl Rec) (i : Int) : Except Err Rec :=
  match getRow t i with
  | .error e => .error e
  | .ok r => mkItem s.params r

/-- `list(tl)`: `Item.from_series` on every row of `iterrows()` -/
def iterItems (s : Schema) (t : Tbl Rec) : Except Err (List Rec) := mapE (fun r => fromSeries s r.2) t

/-- a frame: its columns (they exist even with no rows) and its labelled rows -/
structure Frame where
  cols : List String
  rows : Tbl Rec
  deriving Repr

/-- the row `cls.empty(n)` repeats: every declared field with its default; a list-valued default is one fresh
list per row (the repair of D08) -/
def Schema.defaultRow (s : Schema) : Rec := s.declared.map fun d => (d.1, d.2.2)

/-- before the repair of D08: `pd.Series([], dtype=object)` is an *empty* Series, which the one-row default
frame showed as NaN -/
def defaultCellOld : Cell → Cell
  | .strs [] => .nan
  | c => c

def Schema.defaultRowOld (s : Schema) : Rec := s.declared.map fun d => (d.1, defaultCellOld d.2.2)

/-- `cls([])`: `pd.DataFrame(cls._default())[:0]` -/
def emptyFrame (s : Schema) : Frame := ⟨s.declaredNames, []⟩

/-- `cls.empty(n)`: `df.loc[df.index.repeat(n)].reset_index(drop=True)` over the one-row default frame, list-valued
defaults then set to one fresh list per row -/
def emptyF (s : Schema) (n : Nat) : Frame := ⟨s.declaredNames, relabel (List.replicate n s.defaultRow)⟩

/-- `cls.empty(n)` as it was before the repair of D09: `reset_index()` turns the old labels into a column -/
def emptyOldF (s : Schema) (n : Nat) : Frame :=
  ⟨"index" :: s.declaredNames, relabel (List.replicate n (("index", .num 0) :: s.defaultRow))⟩

/-- columns of `pd.DataFrame([series…])`: the union of the keys in order of first appearance -/
def unionKeys : List Rec → List String
  | [] => []
  | r :: rs => let ks := r.map (·.1); ks ++ (unionKeys rs).filter (fun k => !ks.contains k)

/-- `cls(items)` (`_join`) ; an empty list of items gives the empty default frame -/
def fromItemsF (s : Schema) (items : List Rec) : Frame :=
  match items with
  | [] => emptyFrame s
  | _ => ⟨unionKeys items, relabel items⟩

def transposeCols (n : Nat) (d : List (String × List Cell)) : List Rec :=
  (List.range n).map fun i => d.map fun kv => (kv.1, (kv.2[i]?).getD .nan)

def isListDefault : Cell → Bool
  | .strs _ => true
  | _ => false

/-- `cls.from_dict(d)` for a dict of equally long columns: empty dict → empty list; an undeclared key →
`ValueError`; every declared field not in `d` is added with its default (a list-valued default as one fresh
list per row — the repair of D24) -/
def fromDictF (s : Schema) (d : List (String × List Cell)) : Except Err Frame :=
  match d with
  | [] => .ok (emptyFrame s)
  | kv :: _ =>
    let keys := d.map (·.1)
    if keys.all (fun k => s.declaredNames.contains k) then
      let missing := s.declared.filter (fun p => !keys.contains p.1)
      let n := kv.2.length
      let add : Rec := missing.map fun p => (p.1, p.2.2)
      .ok ⟨keys ++ missing.map (·.1), relabel ((transposeCols n d).map (· ++ add))⟩
    else .error .value

/-- `from_dict` as it was before the repair of D24: `df[col] = default` with a list default only fits a frame
without rows (pandas takes the list for a column of that length) -/
def fromDictOldF (s : Schema) (d : List (String × List Cell)) : Except Err Frame :=
  match d with
  | [] => .ok (emptyFrame s)
  | kv :: _ =>
    let keys := d.map (·.1)
    if keys.all (fun k => s.declaredNames.contains k) then
      let missing := s.declared.filter (fun p => !keys.contains p.1)
      let n := kv.2.length
      if n ≠ 0 ∧ missing.any (fun p => isListDefault p.2.2) then .error .value
      else
        let add : Rec := missing.map fun p => (p.1, p.2.2)
        .ok ⟨keys ++ missing.map (·.1), relabel ((transposeCols n d).map (· ++ add))⟩
    else .error .value

end Reamber.TList
