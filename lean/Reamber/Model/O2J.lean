/-
Executable model of reamberPy's O2Jam (.ojn) reader, *as written now* (D10 repaired):

  reamber/o2jam/O2JMapSetMeta.py   (read_meta: walk over BYTE_FORMATS / BYTE_SIZES / BYTE_COUNT, decode_replace)
  reamber/o2jam/O2JEventPackage.py (read_event_packages: 8-byte package header + 4-byte events, note / tempo /
                                    measure-fraction channels, per-column hold buffer shared by all levels)
  reamber/o2jam/O2JMap.py          (read_pkgs: stable sort by measure, sorted set of note measures, tempo sweep)
  reamber/o2jam/O2JMapSet.py       (read: header = first 300 bytes, one map per package-count entry)

Bytes are `List Nat` (each < 256).  Numbers are exact rationals: a float32 is decoded to the rational it denotes,
`measure + i / n` is exact.  Python exceptions are the `Err` enum.  The header tables and the channel numbering come
from `Generated/O2JTables.lean` (regenerated from the source on every run).  Core only — linked into the driver.

Restructurings that do not change results (each exercised by the correspondence check):
* note slots are decoded first (`slotsOf`, pure) and then folded through the hold buffer (`foldBuf`); Python does
  both in one loop;
* "stable sort of all events by measure, then split into notes and tempo events" is modelled as "split, then stable
  sort each" (a stable sort commutes with a filter);
* `ZeroDivisionError` can only come from the header tempo being 0 (tempo events equal to 0 are skipped) and then the
  first division raises: it is decided up front, the sweep itself is pure.
-/
import Reamber.Model.Timing
import Reamber.Generated.O2JTables

namespace Reamber.O2J

open Reamber.Timing (isort minToMsec)
open Reamber.Generated

inductive Err where
  | struct      -- struct.error (slice of the wrong length)
  | index       -- IndexError (pop from an empty deque: truncated package)
  | key         -- KeyError (long-note tail with no open head on its column)
  | attr        -- AttributeError (a missing package is `None`; a measure-fraction event has no `.measure`)
  | zeroDiv     -- ZeroDivisionError (header tempo 0)
  | nonfinite   -- NOT a Python error: a tempo is inf/NaN, which the rational model does not represent
deriving Repr, DecidableEq, Inhabited

def Err.toString : Err → String
  | .struct => "struct" | .index => "index" | .key => "key" | .attr => "attr" | .zeroDiv => "zerodiv"
  | .nonfinite => "nonfinite"

def mapE {α β} (f : α → Except Err β) : List α → Except Err (List β)
  | [] => .ok []
  | a :: t => do
    let b ← f a
    let r ← mapE f t
    .ok (b :: r)

/-! ### decoders (`struct.unpack("<i" / "<h" / "<f")`) -/

/-- little-endian unsigned value -/
def leNat : List Nat → Nat
  | [] => 0
  | b :: t => b + 256 * leNat t

/-- two's complement on `bits` bits -/
def toSigned (bits : Nat) (v : Nat) : Int := if v < 2 ^ (bits - 1) then (v : Int) else (v : Int) - (2 ^ bits : Nat)

def decodeI16 (bs : List Nat) : Int := toSigned 16 (leNat bs)
def decodeI32 (bs : List Nat) : Int := toSigned 32 (leNat bs)

/-- a decoded IEEE-754 single: the rational it denotes (−0 is 0), or ±inf, or NaN -/
inductive F32 where
  | fin (q : Rat)
  | inf (neg : Bool)
  | nan
deriving Repr, DecidableEq, Inhabited

/-- 2^e for an integer exponent -/
def pow2 (e : Int) : Rat := if e ≥ 0 then ((2 ^ e.toNat : Nat) : Rat) else 1 / ((2 ^ (-e).toNat : Nat) : Rat)

/-- value of the single with sign bit `s`, biased exponent `e`, mantissa `m` -/
def f32OfParts (s e m : Nat) : F32 :=
  let sg : Rat := if s = 1 then -1 else 1
  if e = 255 then (if m = 0 then .inf (decide (s = 1)) else .nan)
  else if e = 0 then .fin (sg * (m : Rat) * pow2 (-149))
  else .fin (sg * ((2 ^ 23 + m : Nat) : Rat) * pow2 ((e : Int) - 150))

def decodeF32 (bs : List Nat) : F32 :=
  let v := leNat bs
  f32OfParts (v / 2 ^ 31) ((v / 2 ^ 23) % 256) (v % 2 ^ 23)

/-! ### header (`O2JMapSetMeta.read_meta`) -/

inductive Field where
  | int (i : Int)
  | flt (f : F32)
  | byte (b : Nat)
deriving Repr, DecidableEq, Inhabited

/-- `struct.calcsize("<" + fmt)` for the codes the table uses; `none` for a code the model does not know -/
def fmtSize : Char → Option Nat
  | 'i' => some 4 | 'f' => some 4 | 'h' => some 2 | 's' => some 1 | _ => none

/-- `struct.unpack("<" + fmt, chunk)[0]` : raises unless the chunk has exactly the size of the code -/
def readField (fmt : Char) (chunk : List Nat) : Except Err Field :=
  match fmtSize fmt with
  | none => .error .struct
  | some n =>
    if chunk.length ≠ n then .error .struct else
    match fmt with
    | 'i' => .ok (.int (decodeI32 chunk))
    | 'h' => .ok (.int (decodeI16 chunk))
    | 'f' => .ok (.flt (decodeF32 chunk))
    | _ => .ok (.byte (chunk.headD 0))

/-- `metadata[ix : ix + n]` -/
def slice (bs : List Nat) (ix n : Nat) : List Nat := (bs.drop ix).take n

/-- the inner `for _ in range(count)` : `count` values of `fs` bytes each, starting at `ix` -/
def readCount (fmt : Char) (fs : Nat) (md : List Nat) : Nat → Nat → Except Err (List Field)
  | 0, _ => .ok []
  | c + 1, ix => do
    let v ← readField fmt (slice md ix fs)
    let r ← readCount fmt fs md c (ix + fs)
    .ok (v :: r)

/-- the outer `for fmt, size, count in zip(...)` with its running `ix_start`; `int(size / count)` -/
def walk (md : List Nat) : List (Char × Nat × Nat) → Nat → Except Err (List (List Field))
  | [], _ => .ok []
  | (fmt, size, count) :: rest, ix =>
    if count = 0 then .error .zeroDiv else do
    let fs := size / count
    let f ← readCount fmt fs md count ix
    let r ← walk md rest (ix + fs * count)
    .ok (f :: r)

/-- `zip(BYTE_FORMATS, BYTE_SIZES, BYTE_COUNT)` over the generated tables -/
def layoutTable : List (Char × Nat × Nat) :=
  (O2J.byteFormats.zip (O2J.byteSizes.zip O2J.byteCount))

/-- a header attribute after the assignments at the end of `read_meta` -/
inductive MetaVal where
  | int (i : Int)
  | flt (f : F32)
  | byte (b : Nat)           -- `meta_fields[i][0]` of an 's' field (not used by the present table)
  | list (l : List Field)    -- `meta_fields[i]`
  | text (cs : List Nat)     -- `decode_replace(...)` : NULs and non-ASCII bytes dropped
  | bytes (bs : List Nat)    -- `b"".join(...)`
deriving Repr, DecidableEq, Inhabited

def fieldBytes : List Field → List Nat
  | [] => []
  | .byte b :: t => b :: fieldBytes t
  | _ :: t => fieldBytes t

/-- `b"".join(filter(lambda x: x != b"\x00", b)).decode("ascii", errors="ignore")` -/
def decodeReplace (l : List Field) : List Nat := (fieldBytes l).filter (fun b => b ≠ 0 && b < 128)

def assignOne (fields : List (List Field)) (a : String × Nat × String) : Except Err (String × MetaVal) :=
  match fields[a.2.1]? with
  | none => .error .index
  | some f =>
    if a.2.2 = "first" then
      match f with
      | [] => .error .index
      | .int i :: _ => .ok (a.1, .int i)
      | .flt x :: _ => .ok (a.1, .flt x)
      | .byte b :: _ => .ok (a.1, .byte b)
    else if a.2.2 = "list" then .ok (a.1, .list f)
    else if a.2.2 = "decode" then .ok (a.1, .text (decodeReplace f))
    else .ok (a.1, .bytes (fieldBytes f))

/-- `O2JMapSetMeta.read_meta(b[:300])` -/
def readMeta (bs : List Nat) : Except Err (List (String × MetaVal)) := do
  let fields ← walk (bs.take 300) layoutTable 0
  mapE (assignOne fields) O2J.metaAssign

def lookupMeta (m : List (String × MetaVal)) (k : String) : Option MetaVal := (m.find? (fun p => p.1 = k)).map (·.2)

/-! ### packages (`O2JEventPackage.read_event_packages`) -/

inductive Kind where
  | hit | head | tail
deriving Repr, DecidableEq, Inhabited

/-- an enabled note event: position in measures, column, volume, pan, type -/
structure Slot where
  pos : Rat
  col : Int
  vol : Nat
  pan : Nat
  kind : Kind
deriving Repr, DecidableEq, Inhabited

inductive Note where
  | hit (s : Slot)
  | hold (h t : Slot)
deriving Repr, DecidableEq, Inhabited

def Note.pos : Note → Rat
  | .hit s => s.pos
  | .hold h _ => h.pos

def Note.tailPos : Note → Option Rat
  | .hit _ => none
  | .hold _ t => some t.pos

structure RawPkg where
  measure : Int
  channel : Int
  count : Int           -- the event count as read (int16)
  data : List Nat       -- the 4·count event bytes
deriving Repr, DecidableEq, Inhabited

/-- 8 header bytes and `4 * event_count` event bytes off the front of the queue (`popleft` raises when it is empty) -/
def popPkg (q : List Nat) : Except Err (RawPkg × List Nat) :=
  if q.length < 8 then .error .index else
  let m := decodeI32 (q.take 4)
  let ch := decodeI16 ((q.drop 4).take 2)
  let n := decodeI16 ((q.drop 6).take 2)
  let q1 := q.drop 8
  let k := (4 * n).toNat
  if q1.length < k then .error .index else .ok (⟨m, ch, n, q1.take k⟩, q1.drop k)

/-- the events of a package as 4-byte groups: `len(data) // 4` of them -/
def groups : List Nat → List (List Nat)
  | a :: b :: c :: d :: rest => [a, b, c, d] :: groups rest
  | _ => []

/-- positions `measure + i / n` of the `n` slots of a package -/
def slotPos (measure : Int) (n i : Nat) : Rat := (i : Rat) / (n : Rat) + (measure : Rat)

/-- one note event; `none` when disabled (first int16 = 0) or of an unknown type byte -/
def slotOf (measure : Int) (col : Int) (n i : Nat) (g : List Nat) : Option Slot :=
  if decodeI16 (g.take 2) = 0 then none else
  let vp := g.getD 2 0
  let t := g.getD 3 0
  let mk := fun k => some ⟨slotPos measure n i, col, vp / 16, vp % 16, k⟩
  if t = O2J.hitByte then mk .hit
  else if t = O2J.holdHeadByte then mk .head
  else if t = O2J.holdTailByte then mk .tail
  else none

def slotsAux (measure : Int) (col : Int) (n : Nat) : Nat → List (List Nat) → List Slot
  | _, [] => []
  | i, g :: rest =>
    match slotOf measure col n i g with
    | some s => s :: slotsAux measure col n (i + 1) rest
    | none => slotsAux measure col n (i + 1) rest

/-- `read_events_note` without the buffer: the enabled, typed events of a note package (column = channel − 2) -/
def slotsOf (p : RawPkg) : List Slot :=
  let gs := groups p.data
  slotsAux p.measure (p.channel - 2) gs.length 0 gs

/-- `read_events_bpm` : (position, tempo) of every event whose float is not 0 -/
def bpmsAux (measure : Int) (n : Nat) : Nat → List (List Nat) → Except Err (List (Rat × Rat))
  | _, [] => .ok []
  | i, g :: rest =>
    match decodeF32 g with
    | .fin q =>
      if q = 0 then bpmsAux measure n (i + 1) rest else do
        let r ← bpmsAux measure n (i + 1) rest
        .ok ((slotPos measure n i, q) :: r)
    | _ => .error .nonfinite

def bpmsOf (p : RawPkg) : Except Err (List (Rat × Rat)) :=
  let gs := groups p.data
  bpmsAux p.measure gs.length 0 gs

/-- the hold buffer `Dict[int, O2JHold]` : column ↦ open head -/
abbrev Buf := List (Int × Slot)

def Buf.get (b : Buf) (c : Int) : Option Slot := (b.find? (fun p => p.1 = c)).map (·.2)
def Buf.erase (b : Buf) (c : Int) : Buf := b.filter (fun p => p.1 ≠ c)
def Buf.set (b : Buf) (c : Int) (s : Slot) : Buf := (c, s) :: b.erase c

/-- the three branches of `read_events_note` on the note type, threaded through the buffer -/
def foldBuf (buf : Buf) : List Slot → Except Err (List Note × Buf)
  | [] => .ok ([], buf)
  | s :: rest =>
    match s.kind with
    | .hit => do
      let (ns, b) ← foldBuf buf rest
      .ok (.hit s :: ns, b)
    | .head => foldBuf (buf.set s.col s) rest
    | .tail =>
      match buf.get s.col with
      | none => .error .key
      | some h => do
        let (ns, b) ← foldBuf (buf.erase s.col) rest
        .ok (.hold h s :: ns, b)

/-- a package after `read_event_packages` : its note slots (ghost, for the pairing theorem), the notes appended
(hits, and holds at their tail), its tempo events, whether it is a measure-fraction package -/
structure Pkg where
  measure : Int
  channel : Int
  slots : List Slot
  notes : List Note
  bpms : List (Rat × Rat)
  mfrac : Bool
deriving Repr, DecidableEq, Inhabited

def isNoteChannel (ch : Int) : Bool := decide (O2J.colRangeStart ≤ ch) && decide (ch < O2J.colRangeStop)

/-- the channel dispatch of `read_event_packages` -/
def decodePkg (p : RawPkg) (buf : Buf) : Except Err (Pkg × Buf) :=
  if isNoteChannel p.channel then do
    let sl := slotsOf p
    let (ns, b) ← foldBuf buf sl
    .ok (⟨p.measure, p.channel, sl, ns, [], false⟩, b)
  else if p.channel = O2J.chBpmChange then do
    let bs ← bpmsOf p
    .ok (⟨p.measure, p.channel, [], [], bs, false⟩, buf)
  else if p.channel = O2J.chMeasureFraction then
    -- `unpack("<f", events_data[0:4])` raises when there is no event
    if p.data.length < 4 then .error .struct else .ok (⟨p.measure, p.channel, [], [], [], true⟩, buf)
  else .ok (⟨p.measure, p.channel, [], [], [], false⟩, buf)

/-- `for pkg_e in range(lvl_pkg_count)` : stops (leaving `None`s: `missing`) when the queue is empty -/
def readLevel : Nat → List Nat → Buf → Except Err (List Pkg × Bool × List Nat × Buf)
  | 0, q, buf => .ok ([], false, q, buf)
  | n + 1, q, buf =>
    if q.isEmpty then .ok ([], true, q, buf) else do
      let (rp, q1) ← popPkg q
      let (p, b1) ← decodePkg rp buf
      let (ps, miss, q2, b2) ← readLevel n q1 b1
      .ok (p :: ps, miss, q2, b2)

/-- `for lvl_pkg_count in lvl_pkg_counts` : the queue and the hold buffer run through all levels -/
def readLevels : List Int → List Nat → Buf → Except Err (List (List Pkg × Bool))
  | [], _, _ => .ok []
  | c :: cs, q, buf => do
    let (ps, miss, q1, b1) ← readLevel c.toNat q buf
    let r ← readLevels cs q1 b1
    .ok ((ps, miss) :: r)

/-! ### timing (`O2JMap.read_pkgs`) -/

/-- running state of the sweep: `offset`, `measure`, `bpm_val` -/
structure St where
  offset : Rat
  measure : Rat
  bpm : Rat
deriving Repr, DecidableEq, Inhabited

/-- `offset + RAConst.min_to_msec(4 * (p - measure) / bpm_val)` -/
def segTime (st : St) (p : Rat) : Rat := st.offset + (4 * (p - st.measure) / st.bpm) * minToMsec

/-- `consume_bpm()` -/
def consume (st : St) (e : Rat × Rat) : St := ⟨segTime st e.1, e.1, e.2⟩

/-- the inner `while` : tempo events at or before `nm` take effect. Returns the state, the offsets given to the
consumed events, the events left. -/
def advance (st : St) : List (Rat × Rat) → Rat → St × List Rat × List (Rat × Rat)
  | [], _ => (st, [], [])
  | e :: rest, nm =>
    if e.1 ≤ nm then
      let r := advance (consume st e) rest nm
      (r.1, (consume st e).offset :: r.2.1, r.2.2)
    else (st, [], e :: rest)

/-- the final `while` : tempo events after the last note -/
def consumeAll (st : St) : List (Rat × Rat) → List Rat
  | [] => []
  | e :: rest => (consume st e).offset :: consumeAll (consume st e) rest

/-- `for note_measure in note_measures: …` followed by the final `while`.
Returns the measure ↦ offset table and the offsets of all tempo events. -/
def sweep (st : St) (bpms : List (Rat × Rat)) : List Rat → List (Rat × Rat) × List Rat
  | [] => ([], consumeAll st bpms)
  | nm :: rest =>
    let a := advance st bpms nm
    let r := sweep a.1 a.2.2 rest
    ((nm, segTime a.1 nm) :: r.1, a.2.1 ++ r.2)

/-- insertion into an ascending duplicate-free list -/
def insertU (x : Rat) : List Rat → List Rat
  | [] => [x]
  | y :: ys => if x < y then x :: y :: ys else if x = y then y :: ys else y :: insertU x ys

/-- `sorted(set(...))` -/
def dedupSort (l : List Rat) : List Rat := l.foldr insertU []

/-- `note_measure_dict[m]` -/
def lookupT (tbl : List (Rat × Rat)) (m : Rat) : Option Rat := (tbl.find? (fun p => p.1 = m)).map (·.2)

structure NoteOut where
  note : Note
  time : Rat
  len : Option Rat
deriving Repr, DecidableEq, Inhabited

structure BpmOut where
  pos : Rat
  bpm : Rat
  time : Rat
deriving Repr, DecidableEq, Inhabited

structure LevelOut where
  notes : List NoteOut
  bpms : List BpmOut
deriving Repr, DecidableEq, Inhabited

/-- `note.offset = d[note.measure]`, `note.length = float(d[note.tail_measure] - note.offset)` (D26 repaired: no cast to the
item's integer dtype) -/
def timeNote (tbl : List (Rat × Rat)) (n : Note) : Except Err NoteOut :=
  match lookupT tbl n.pos with
  | none => .error .key
  | some t =>
    match n with
    | .hit _ => .ok ⟨n, t, none⟩
    | .hold _ tl =>
      match lookupT tbl tl.pos with
      | none => .error .key
      | some t2 => .ok ⟨n, t, some (t2 - t)⟩

def sortNotes (l : List Note) : List Note := isort (fun a b => decide (a.pos ≤ b.pos)) l
def sortBpms (l : List (Rat × Rat)) : List (Rat × Rat) := isort (fun a b => decide (a.1 ≤ b.1)) l

def zipBpms : List (Rat × Rat) → List Rat → List BpmOut
  | e :: es, t :: ts => ⟨e.1, e.2, t⟩ :: zipBpms es ts
  | _, _ => []

/-- `O2JMap.read_pkgs(pkgs, init_bpm)` -/
def readPkgs (pkgs : List Pkg) (missing : Bool) (init : Rat) : Except Err LevelOut :=
  if missing then .error .attr else
  if pkgs.any (·.mfrac) then .error .attr else
  let notes := sortNotes (pkgs.flatMap (·.notes))
  let bpms := sortBpms (pkgs.flatMap (·.bpms))
  let nms := dedupSort (notes.map Note.pos ++ notes.filterMap Note.tailPos)
  if init = 0 ∧ (nms ≠ [] ∨ bpms ≠ []) then .error .zeroDiv else
  let r := sweep ⟨0, 0, init⟩ bpms nms
  do
    let outs ← mapE (timeNote r.1) notes
    .ok ⟨outs, ⟨0, init, 0⟩ :: zipBpms bpms r.2⟩

structure FileOut where
  header : List (String × MetaVal)
  levels : List LevelOut
deriving Repr, DecidableEq, Inhabited

def intsOf : List Field → List Int
  | [] => []
  | .int i :: t => i :: intsOf t
  | _ :: t => intsOf t

/-- `ms.package_count` : the integers of the `package_count` attribute -/
def packageCounts (hdr : List (String × MetaVal)) : List Int :=
  match lookupMeta hdr "package_count" with
  | some (.list l) => intsOf l
  | _ => []

/-- `O2JMapSet.read(b)` -/
def readFile (bs : List Nat) : Except Err FileOut := do
  let hdr ← readMeta bs
  let lvls ← readLevels (packageCounts hdr) (bs.drop 300) []
  let init ← match lookupMeta hdr "bpm" with
    | some (.flt (.fin q)) => .ok q
    | some (.flt _) => .error Err.nonfinite
    | _ => .error Err.attr
  let outs ← mapE (fun (l : List Pkg × Bool) => readPkgs l.1 l.2 init) lvls
  .ok ⟨hdr, outs⟩

end Reamber.O2J
