/-
Text primitives used by the osu! model (C01), mirroring the Python `str` / `int()` / `float()` calls the
code makes.  Texts are `List Char`.  Core Lean only (linked into the driver); structural recursion so that
the kernel can evaluate everything.

Modelled exactly: `str.split(sep)`, `str.split(sep, 1)`, `str.count`, `str.strip()` (Python's full Unicode
white-space set), `str.find` / `str.rfind` of one character, slicing `s[a:b]` with Python's negative-index
rule, `str.startswith`, `str(int)`.
`int(str)` / `float(str)` as CPython 3.12 implements them on `str` arguments (`PyLong_FromUnicodeObject`,
`PyFloat_FromString`):
  1. `_PyUnicode_TransformDecimalAndSpaceToASCII`: every non-ASCII white-space character becomes a blank, every
     non-ASCII decimal digit (category Nd, `decZeros`) its ASCII digit, any other non-ASCII character `?`;
     ASCII characters are kept — so \x1c–\x1f, which `str.strip()` removes, are NOT white space for a number;
  2. ASCII white space (\t \n \x0b \x0c \r blank) is removed at both ends;
  3. underscores are legal exactly between two digits and are dropped (`deUs`);
  4. `int`  : [+-]? digit+                                  (leading zeros allowed, base 10)
     `float`: [+-]? (digit+ [. digit*] | . digit+) ([eE] [+-]? digit+)?    — or [+-]? (inf | infinity | nan), any case.
`readFloat` returns the exact value of the decimal literal.  WHERE MODEL AND `float()` PART WAYS (`floatNonFinite`):
on the tokens inf / infinity / nan Python returns a non-finite double; the model has rationals only and answers
ValueError.  These tokens are outside the dialect (the format has decimal numbers); the check replays them on the real
reader.  (Likewise a literal beyond the double range, `1e400`, is `inf` for Python and its exact value here.)
-/

namespace Reamber.Osu

abbrev Str := List Char

/-- Python exception classes the osu reader can raise (small enum, compared with the implementation). -/
inductive Err where
  | value     -- ValueError (bad int()/float() literal, `Bad OsuSample format`)
  | zeroDiv   -- ZeroDivisionError (`BPM cannot be infinite.`)
  | index     -- IndexError (`s_colon[4]`, `lines[e + 1]`)
  | attr      -- AttributeError (`[].strip()` when a known key has no ':')
  | type      -- TypeError (`int([])`, `float([])`)
  | format    -- Exception("Bad File Format. No [TimingPoints] & [HitObjects].")
deriving Repr, DecidableEq, Inhabited

def Err.toString : Err → String
  | .value => "value" | .zeroDiv => "zerodiv" | .index => "index" | .attr => "attr" | .type => "type"
  | .format => "format"

/-- `[f x for x in l]` where `f` may raise: the first failure wins -/
def mapE {α β} (f : α → Except Err β) : List α → Except Err (List β)
  | [] => .ok []
  | a :: t =>
    match f a with
    | .error e => .error e
    | .ok b =>
      match mapE f t with
      | .error e => .error e
      | .ok r => .ok (b :: r)

/-! ### splitting and counting -/

/-- `s.split(c)` for a one-character separator: never empty, `"".split(",") = [""]`. -/
def splitOn (c : Char) : Str → List Str
  | [] => [[]]
  | x :: xs =>
    if x = c then [] :: splitOn c xs
    else
      match splitOn c xs with
      | [] => [[x]]
      | p :: ps => (x :: p) :: ps

/-- `s.split(c, 1)`: the text before the first `c`, and the rest if there is a `c`. -/
def split1 (c : Char) : Str → Str × Option Str
  | [] => ([], none)
  | x :: xs =>
    if x = c then ([], some xs)
    else let r := split1 c xs; (x :: r.1, r.2)

/-- `sep.join(ps)` for a one-character separator -/
def joinWith (c : Char) : List Str → Str
  | [] => []
  | [p] => p
  | p :: q :: ps => p ++ c :: joinWith c (q :: ps)

/-- `s.count(c)` -/
def countC (c : Char) (s : Str) : Nat := s.count c

/-- `s.find(c)`: index of the first `c`, or -1 -/
def findC (c : Char) : Str → Int
  | [] => -1
  | x :: xs => if x = c then 0 else let r := findC c xs; if r < 0 then -1 else r + 1

/-- `s.rfind(c)`: index of the last `c`, or -1 -/
def rfindC (c : Char) (s : Str) : Int :=
  let r := findC c s.reverse
  if r < 0 then -1 else (s.length : Int) - 1 - r

/-- Python's index normalisation inside a slice: negative counts from the end, then clamp to `[0, n]`. -/
def sliceIx (n : Nat) (i : Int) : Nat :=
  let j : Int := if i < 0 then i + n else i
  if j < 0 then 0 else min j.toNat n

/-- `s[a:b]` -/
def pySlice (s : Str) (a b : Int) : Str :=
  let i := sliceIx s.length a
  let j := sliceIx s.length b
  (s.take j).drop i

def startsWith (p : Str) (s : Str) : Bool := p.isPrefixOf s

/-! ### white space -/

/-- `Py_UNICODE_ISSPACE`: what `str.strip()` removes -/
def isWs (c : Char) : Bool :=
  let n := c.toNat
  (9 ≤ n && n ≤ 13) || (28 ≤ n && n ≤ 32) || n = 0x85 || n = 0xA0 || n = 0x1680 ||
  (0x2000 ≤ n && n ≤ 0x200A) || n = 0x2028 || n = 0x2029 || n = 0x202F || n = 0x205F || n = 0x3000

def lstrip (s : Str) : Str := s.dropWhile isWs
def rstrip (s : Str) : Str := (s.reverse.dropWhile isWs).reverse
/-- `s.strip()` -/
def strip (s : Str) : Str := rstrip (lstrip s)

/-! ### integers -/

def isDig (c : Char) : Bool := 48 ≤ c.toNat && c.toNat ≤ 57
def digVal (c : Char) : Nat := c.toNat - 48

/-- value of a digit string, most significant first (`acc` = value read so far) -/
def natOfDigits (acc : Nat) : Str → Nat
  | [] => acc
  | c :: cs => natOfDigits (10 * acc + digVal c) cs

/-- non-empty all-digit text → its value -/
def readNat? (s : Str) : Option Nat :=
  if s ≠ [] ∧ s.all isDig then some (natOfDigits 0 s) else none

/-- split an optional sign off: (negative?, rest) -/
def takeSign : Str → Bool × Str
  | '-' :: r => (true, r)
  | '+' :: r => (false, r)
  | r => (false, r)

def digitChar (d : Nat) : Char := Char.ofNat (48 + d)

/-- the first code point of every run of ten Unicode decimal digits (category Nd, Unicode 15.0 = Python 3.12's
`unicodedata`; the check compares this table with the running interpreter's on every run) -/
def decZeros : List Nat :=
  [0x30, 0x660, 0x6f0, 0x7c0, 0x966, 0x9e6, 0xa66, 0xae6, 0xb66, 0xbe6, 0xc66, 0xce6, 0xd66, 0xde6, 0xe50, 0xed0,
   0xf20, 0x1040, 0x1090, 0x17e0, 0x1810, 0x1946, 0x19d0, 0x1a80, 0x1a90, 0x1b50, 0x1bb0, 0x1c40, 0x1c50, 0xa620,
   0xa8d0, 0xa900, 0xa9d0, 0xa9f0, 0xaa50, 0xabf0, 0xff10, 0x104a0, 0x10d30, 0x11066, 0x110f0, 0x11136, 0x111d0,
   0x112f0, 0x11450, 0x114d0, 0x11650, 0x116c0, 0x11730, 0x118e0, 0x11950, 0x11c50, 0x11d50, 0x11da0, 0x11f50,
   0x16a60, 0x16ac0, 0x16b50, 0x1d7ce, 0x1d7d8, 0x1d7e2, 0x1d7ec, 0x1d7f6, 0x1e140, 0x1e2f0, 0x1e4f0, 0x1e950,
   0x1fbf0]

/-- `Py_UNICODE_TODECIMAL` -/
def decVal? (c : Char) : Option Nat :=
  match decZeros.find? (fun z => z ≤ c.toNat && c.toNat < z + 10) with
  | some z => some (c.toNat - z)
  | none => none

/-- one character of `_PyUnicode_TransformDecimalAndSpaceToASCII` -/
def foldChar (c : Char) : Char :=
  if c.toNat < 128 then c
  else if isWs c then ' '
  else match decVal? c with
    | some d => digitChar d
    | none => '?'

/-- \x1c–\x1f: white space for `str.strip()`, not for `int()` / `float()` -/
def isSep (c : Char) : Bool := 28 ≤ c.toNat && c.toNat ≤ 31

/-- drop the underscores of a numeric literal; each one must stand between two (ASCII) digits -/
def deUs (prevDig : Bool) : Str → Option Str
  | [] => some []
  | c :: r =>
    if c = '_' then
      if prevDig && (match r with | d :: _ => isDig d | [] => false) then deUs false r else none
    else (deUs (isDig c) r).map (c :: ·)

/-- steps 1–3 of `int(str)` / `float(str)`: the ASCII literal that is parsed, or `none` (ValueError).
A \x1c–\x1f anywhere in the text is an error (at the ends it is not stripped, inside it is no digit); without one,
the white space of `str.strip()` and the white space of a number coincide. -/
def numPrep (s : Str) : Option Str :=
  if s.any isSep then none else deUs false ((strip s).map foldChar)

/-- [+-]? digit+ -/
def readIntA (t : Str) : Except Err Int :=
  let p := takeSign t
  match readNat? p.2 with
  | some n => .ok (if p.1 then -(n : Int) else (n : Int))
  | none => .error .value

/-- `int(s)` for a `str` -/
def readInt (s : Str) : Except Err Int :=
  match numPrep s with
  | some t => readIntA t
  | none => .error .value

/-- decimal digits of `n` (fuel = number of steps allowed; `showNat` gives enough) -/
def showNatAux : Nat → Nat → Str
  | 0, _ => []
  | f + 1, n => if n < 10 then [digitChar n] else showNatAux f (n / 10) ++ [digitChar (n % 10)]

/-- `str(n)` for a natural number -/
def showNat (n : Nat) : Str := showNatAux (n + 1) n

/-- `str(i)` for a Python int -/
def showInt (i : Int) : Str :=
  if i < 0 then '-' :: showNat i.natAbs else showNat i.natAbs

/-! ### floats (as exact rationals) -/

def pow10 (n : Nat) : Rat := ((10 ^ n : Nat) : Rat)

/-- optional exponent part: `[]` → 0; `e[+-]digits` → value; anything else is a bad literal -/
def readExp : Str → Option Int
  | [] => some 0
  | c :: r =>
    if c = 'e' ∨ c = 'E' then
      let p := takeSign r
      match readNat? p.2 with
      | some n => some (if p.1 then -(n : Int) else (n : Int))
      | none => none
    else none

/-- [+-]? (digit+ [. digit*] | . digit+) ([eE] [+-]? digit+)?, as the exact value of the decimal literal -/
def readFloatA (t : Str) : Except Err Rat :=
  let p := takeSign t
  let ip := p.2.span isDig
  let fr : Str × Str := match ip.2 with
    | '.' :: r => r.span isDig
    | r => ([], r)
  if ip.1 = [] ∧ fr.1 = [] then .error .value else
  match readExp fr.2 with
  | none => .error .value
  | some e =>
    let m : Rat := (natOfDigits 0 (ip.1 ++ fr.1) : Nat) / pow10 fr.1.length
    let v : Rat := if e < 0 then m / pow10 e.natAbs else m * pow10 e.natAbs
    .ok (if p.1 then -v else v)

/-- `float(s)` for a `str`, on every token that denotes a finite number; ValueError otherwise (see `floatNonFinite`) -/
def readFloat (s : Str) : Except Err Rat :=
  match numPrep s with
  | some t => readFloatA t
  | none => .error .value

/-- the non-finite doubles -/
inductive NonFin where
  | posInf | negInf | nan
deriving Repr, DecidableEq, Inhabited

def lowerChar (c : Char) : Char := if 65 ≤ c.toNat ∧ c.toNat ≤ 90 then Char.ofNat (c.toNat + 32) else c

/-- `_Py_parse_inf_or_nan`: the tokens on which Python's `float()` returns ±inf / nan — [+-]? (inf | infinity | nan),
case-insensitive, after the same preparation (white space, no underscore can be legal here).  On exactly these tokens
the model's `readFloat` (ValueError) and the code (a non-finite double) part ways: `floatNonFinite_rejected`. -/
def floatNonFinite (s : Str) : Option NonFin :=
  match numPrep s with
  | none => none
  | some t =>
    let p := takeSign t
    let w := p.2.map lowerChar
    if w = "inf".toList ∨ w = "infinity".toList then some (if p.1 then .negInf else .posInf)
    else if w = "nan".toList then some .nan
    else none

/-- Python `int(x)` on a number: truncation toward zero -/
def pyTrunc (q : Rat) : Int := if 0 ≤ q then q.floor else -((-q).floor)

end Reamber.Osu
