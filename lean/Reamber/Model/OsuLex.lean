/-
Text primitives used by the osu! model (C01), mirroring the Python `str` / `int()` / `float()` calls the
code makes.  Texts are `List Char`.  Core Lean only (linked into the driver); structural recursion so that
the kernel can evaluate everything.

Modelled exactly: `str.split(sep)`, `str.split(sep, 1)`, `str.count`, `str.strip()` (Python's full Unicode
white-space set), `str.find` / `str.rfind` of one character, slicing `s[a:b]` with Python's negative-index
rule, `str.startswith`, `str(int)`.
Modelled on a documented sub-grammar (outside it the model answers `ValueError`, the generators stay inside):
`int(str)`  = ws* [+-]? digit+ ws*            (no `_` separators, ASCII digits only)
`float(str)`= ws* [+-]? (digit+ [. digit*] | . digit+) ([eE] [+-]? digit+)? ws*   (no `inf`/`nan`/`_`)
-/

namespace Reamber.Osu

abbrev Str := List Char

/-- Python exception classes the osu reader can raise (small enum, compared with the implementation). -/
inductive Err where
  | value     -- ValueError (bad int()/float() literal, `Bad OsuSample format`)
  | zeroDiv   -- ZeroDivisionError (`BPM cannot be infinite.`)
  | index     -- IndexError (`s_colon[4]`, `lines[e + 1]`)
  | attr      -- AttributeError (`[].strip()` when a known key has no ':')
  | type      -- TypeError (`int([])`, `float([])`)
  | format    -- Exception("Bad File Format. No [TimingPoints] & [HitObjects].")
deriving Repr, DecidableEq, Inhabited

def Err.toString : Err → String
  | .value => "value" | .zeroDiv => "zerodiv" | .index => "index" | .attr => "attr" | .type => "type"
  | .format => "format"

/-- `[f x for x in l]` where `f` may raise: the first failure wins -/
def mapE {α β} (f : α → Except Err β) : List α → Except Err (List β)
  | [] => .ok []
  | a :: t =>
    match f a with
    | .error e => .error e
    | .ok b =>
      match mapE f t with
      | .error e => .error e
      | .ok r => .ok (b :: r)

/-! ### splitting and counting -/

/-- `s.split(c)` for a one-character separator: never empty, `"".split(",") = [""]`. -/
def splitOn (c : Char) : Str → List Str
  | [] => [[]]
  | x :: xs =>
    if x = c then [] :: splitOn c xs
    else
      match splitOn c xs with
      | [] => [[x]]
      | p :: ps => (x :: p) :: ps

/-- `s.split(c, 1)`: the text before the first `c`, and the rest if there is a `c`. -/
def split1 (c : Char) : Str → Str × Option Str
  | [] => ([], none)
  | x :: xs =>
    if x = c then ([], some xs)
    else let r := split1 c xs; (x :: r.1, r.2)

/-- `sep.join(ps)` for a one-character separator -/
def joinWith (c : Char) : List Str → Str
  | [] => []
  | [p] => p
  | p :: q :: ps => p ++ c :: joinWith c (q :: ps)

/-- `s.count(c)` -/
def countC (c : Char) (s : Str) : Nat := s.count c

/-- `s.find(c)`: index of the first `c`, or -1 -/
def findC (c : Char) : Str → Int
  | [] => -1
  | x :: xs => if x = c then 0 else let r := findC c xs; if r < 0 then -1 else r + 1

/-- `s.rfind(c)`: index of the last `c`, or -1 -/
def rfindC (c : Char) (s : Str) : Int :=
  let r := findC c s.reverse
  if r < 0 then -1 else (s.length : Int) - 1 - r

/-- Python's index normalisation inside a slice: negative counts from the end, then clamp to `[0, n]`. -/
def sliceIx (n : Nat) (i : Int) : Nat :=
  let j : Int := if i < 0 then i + n else i
  if j < 0 then 0 else min j.toNat n

/-- `s[a:b]` -/
def pySlice (s : Str) (a b : Int) : Str :=
  let i := sliceIx s.length a
  let j := sliceIx s.length b
  (s.take j).drop i

def startsWith (p : Str) (s : Str) : Bool := p.isPrefixOf s

/-! ### white space -/

/-- `Py_UNICODE_ISSPACE`: what `str.strip()` removes -/
def isWs (c : Char) : Bool :=
  let n := c.toNat
  (9 ≤ n && n ≤ 13) || (28 ≤ n && n ≤ 32) || n = 0x85 || n = 0xA0 || n = 0x1680 ||
  (0x2000 ≤ n && n ≤ 0x200A) || n = 0x2028 || n = 0x2029 || n = 0x202F || n = 0x205F || n = 0x3000

def lstrip (s : Str) : Str := s.dropWhile isWs
def rstrip (s : Str) : Str := (s.reverse.dropWhile isWs).reverse
/-- `s.strip()` -/
def strip (s : Str) : Str := rstrip (lstrip s)

/-! ### integers -/

def isDig (c : Char) : Bool := 48 ≤ c.toNat && c.toNat ≤ 57
def digVal (c : Char) : Nat := c.toNat - 48

/-- value of a digit string, most significant first (`acc` = value read so far) -/
def natOfDigits (acc : Nat) : Str → Nat
  | [] => acc
  | c :: cs => natOfDigits (10 * acc + digVal c) cs

/-- non-empty all-digit text → its value -/
def readNat? (s : Str) : Option Nat :=
  if s ≠ [] ∧ s.all isDig then some (natOfDigits 0 s) else none

/-- split an optional sign off: (negative?, rest) -/
def takeSign : Str → Bool × Str
  | '-' :: r => (true, r)
  | '+' :: r => (false, r)
  | r => (false, r)

/-- `int(s)` on the documented sub-grammar -/
def readInt (s : Str) : Except Err Int :=
  let p := takeSign (strip s)
  match readNat? p.2 with
  | some n => .ok (if p.1 then -(n : Int) else (n : Int))
  | none => .error .value

def digitChar (d : Nat) : Char := Char.ofNat (48 + d)

/-- decimal digits of `n` (fuel = number of steps allowed; `showNat` gives enough) -/
def showNatAux : Nat → Nat → Str
  | 0, _ => []
  | f + 1, n => if n < 10 then [digitChar n] else showNatAux f (n / 10) ++ [digitChar (n % 10)]

/-- `str(n)` for a natural number -/
def showNat (n : Nat) : Str := showNatAux (n + 1) n

/-- `str(i)` for a Python int -/
def showInt (i : Int) : Str :=
  if i < 0 then '-' :: showNat i.natAbs else showNat i.natAbs

/-! ### floats (as exact rationals) -/

def pow10 (n : Nat) : Rat := ((10 ^ n : Nat) : Rat)

/-- optional exponent part: `[]` → 0; `e[+-]digits` → value; anything else is a bad literal -/
def readExp : Str → Option Int
  | [] => some 0
  | c :: r =>
    if c = 'e' ∨ c = 'E' then
      let p := takeSign r
      match readNat? p.2 with
      | some n => some (if p.1 then -(n : Int) else (n : Int))
      | none => none
    else none

/-- `float(s)` on the documented sub-grammar, as the exact value of the decimal literal -/
def readFloat (s : Str) : Except Err Rat :=
  let p := takeSign (strip s)
  let ip := p.2.span isDig
  let fr : Str × Str := match ip.2 with
    | '.' :: r => r.span isDig
    | r => ([], r)
  if ip.1 = [] ∧ fr.1 = [] then .error .value else
  match readExp fr.2 with
  | none => .error .value
  | some e =>
    let m : Rat := (natOfDigits 0 (ip.1 ++ fr.1) : Nat) / pow10 fr.1.length
    let v : Rat := if e < 0 then m / pow10 e.natAbs else m * pow10 e.natAbs
    .ok (if p.1 then -v else v)

/-- Python `int(x)` on a number: truncation toward zero -/
def pyTrunc (q : Rat) : Int := if 0 ≤ q then q.floor else -((-q).floor)

end Reamber.Osu
