/-
C08 — the *shape* of the data that `harness/translators/converters.py` extracts from
`reamber/algorithms/convert/*.py` (ast) and from the list / map classes (`_props`, `objs`).
`Reamber/Generated/Converters.lean` is a value of these types; `Model/Convert.lean` interprets it.
Core Lean only.
-/
namespace Reamber.Convert

/-- one cell of a pandas frame, as far as the converters can tell values apart -/
inductive Cell where
  | nan
  | num (q : Rat)
  | str (s : String)
  | bool (b : Bool)
  | other (tag : String)
  deriving DecidableEq, Repr, Inhabited

/-- the declared default of a column (`_props[name][1]`).  `list_props._default` builds
`pd.Series(default, dtype=…)`: a scalar gives a one-row series, an empty list gives a series with
**no** row (NaN in the one-row default frame — finding D08, repaired: `TimedList.empty` now writes one fresh
list per row into such a column). -/
inductive Dflt where
  | scalar (c : Cell)
  | emptyList
  deriving DecidableEq, Repr, Inhabited

/-- a list class (`OsuHitList`, …): its columns in declaration order, with dtype text and default -/
structure ListClass where
  name : String
  props : List (String × String × Dflt)
  deriving DecidableEq, Repr, Inhabited

/-- a map class (`OsuMap`, …): its `objs` in order, attribute ↦ list class -/
structure MapClass where
  name : String
  game : String
  lists : List (String × String)
  deriving DecidableEq, Repr, Inhabited

/-- right-hand side of one entry of a `cast(...)` mapping dict -/
inductive MapFrom where
  /-- `to="from"`: `src.<from>.to_numpy()` — positional -/
  | attr (col : String)
  /-- `to=<param>.<list>.<col>.apply(str, args={"ascii"})`: a pandas Series — assigned by row label -/
  | seriesStr (list col : String)
  /-- the same with `.to_numpy()` appended — positional -/
  | arrayStr (list col : String)
  /-- anything else (source text kept) -/
  | opaque (src : String)
  deriving DecidableEq, Repr, Inhabited

/-- `<tgtVar>.<tgtAttr> = cls.cast(<srcVar>.<srcAttr>, <cls>, dict(mapping…))` -/
structure CastCall where
  tgtVar : String
  tgtAttr : String
  srcVar : String
  srcAttr : String
  cls : String
  mapping : List (String × MapFrom)
  deriving DecidableEq, Repr, Inhabited

/-- atoms of a metadata expression -/
inductive Atom where
  | lit (s : String)
  | attr (obj attr : String)
  /-- `<set>.level_name(<map>)` -/
  | levelName (setObj mapObj : String)
  deriving DecidableEq, Repr, Inhabited

/-- right-hand side of a metadata assignment.  `decoded` = `unidecode(x.decode("sjis"))`,
`encoded` = `codecs.encode(<atoms>, encoding="shift_jis")`, `fmt` = an f-string / plain attribute. -/
inductive MetaExpr where
  | fmt (parts : List Atom)
  | decoded (a : Atom)
  | encoded (parts : List Atom)
  | opaque (src : String)
  deriving DecidableEq, Repr, Inhabited

/-- where the objects are created and how the result is assembled -/
inductive Shape where
  /-- no loop; `t = TMap(); …; return t` -/
  | single
  /-- no loop; `m = TMap(); s = TSet(); s.maps = [m]; return s` -/
  | singleSet
  /-- `out = []; for x in src: t = TMap(); …; out.append(t); return out` -/
  | listOfMaps
  /-- `out = []; for x in src: s = TSet(); m = TMap(); …; s.maps = [m]; out.append(s); return out` -/
  | listOfSets
  /-- `s = TSet(); for x in src: m = TMap(); …; s.maps.append(m); … return s` -/
  | mergedSet
  /-- as `mergedSet` but the set is (re-)created inside the loop: only the last map survives (D13) -/
  | mergedSetInLoop
  /-- the target map object is created once, outside the loop: every entry of the result is the same object -/
  | mapOutsideLoop
  | unknown (why : String)
  deriving DecidableEq, Repr, Inhabited

structure MetaAssign where
  /-- `"map"` or `"set"`: on which target object -/
  level : String
  attr : String
  expr : MetaExpr
  deriving DecidableEq, Repr, Inhabited

structure Conv where
  /-- `"BMSToOsu.convert"`, `"O2JToSM.convert_merge"` -/
  name : String
  srcGame : String
  tgtGame : String
  param : String
  loopVar : Option String
  tgtMapClass : String
  shape : Shape
  casts : List CastCall
  /-- `Some p` when the body contains `<tgt>.stack().column += p`; `p` must be a parameter -/
  shiftParam : Option String
  /-- the declared default of that parameter -/
  shiftDefault : Option Int
  metas : List MetaAssign
  /-- statements the translator did not understand (must be empty for the theorems to apply) -/
  unparsed : List String
  deriving DecidableEq, Repr, Inhabited

end Reamber.Convert
