/-
C13 — executable model of the rate change, as the code is written now:

* `reamber/base/Map.py`       `Map.rate`  = deepcopy; `stack = copy.stack()`; `stack.offset /= by`;
                              `stack.bpm *= by`; `stack.length /= by`  — through `Map.Stacker`
                              (`pd.concat` of all lists, column assignment, `_update` slicing by `_ixs`
                              and projecting every list on its own columns);
* `reamber/base/MapSet.py`    `MapSet.rate` = deepcopy; `[m.rate(by) for m in copy.maps]`;
* `reamber/osu/OsuMap.py`     `OsuMap.rate` = `Map.rate`, then `samples.offset /= by`, and `preview_time /= by` unless it is
                              negative (the "no preview point" marker, repair D41);
* `reamber/sm/SMMapSet.py`    `SMMapSet.rate` = `MapSet.rate`, then `sample_start /= by`,
                              `sample_length /= by`, and `offset /= by` unless `offset is None`.

pandas is modelled as lists of rows (DESIGN §5 K2): a frame is a list of column names and a list of rows
of cells.  Row labels and dtypes are not modelled (the property does not name them: stacking renumbers the
labels and floats the int columns, DESIGN §7 "not findings").  The `index` column that `reset_index()` adds
to the stacked frame is never projected back by `_update` and is left out.
Core Lean only (linked into the driver).
-/

namespace Reamber.Rate

/-- one pandas cell.  `other` carries an opaque rendering (Quaver key-sound lists, bytes, dicts …). -/
inductive Cell where
  | nan
  | num (q : Rat)
  | str (s : String)
  | bool (b : Bool)
  | other (s : String)
  deriving DecidableEq, Repr, Inhabited

structure Frame where
  cols : List String
  rows : List (List Cell)
  deriving DecidableEq, Repr, Inhabited

/-- exception classes of the modelled code -/
inductive Err where
  | key        -- KeyError: the stacked frame has no such column
  | type       -- TypeError: arithmetic on a non-numeric cell / on `None`
  | nonfinite  -- `by = 0`: the code produces ±inf / NaN (pandas) or ZeroDivisionError (float) — outside ℚ
  deriving DecidableEq, Repr, Inhabited

def Err.toString : Err → String
  | .key => "key" | .type => "type" | .nonfinite => "nonfinite"

/-- `[f x for x in l]` where `f` may raise: the first failure wins -/
def mapE {α β} (f : α → Except Err β) : List α → Except Err (List β)
  | [] => .ok []
  | a :: t => do
    let b ← f a
    let r ← mapE f t
    .ok (b :: r)

/-! ### frames -/

/-- value of column `c` in a row (`NaN` where the column is absent — what `pd.concat` fills in) -/
def lookupCell : List String → List Cell → String → Cell
  | k :: ks, v :: vs, c => if k = c then v else lookupCell ks vs c
  | _, _, _ => .nan

/-- a row re-expressed over the columns `to` -/
def reindex (to frm : List String) (cells : List Cell) : List Cell := to.map (lookupCell frm cells)

/-- columns of `pd.concat(dfs)` (outer join, `sort=False`): union in order of first appearance -/
def unionCols : List (List String) → List String
  | [] => []
  | cs :: rest => cs ++ (unionCols rest).filter (fun c => !cs.contains c)

/-- `pd.concat([v.df for v in objs]).reset_index()` (without the `index` column) -/
def concat (fs : List Frame) : Frame :=
  let u := unionCols (fs.map (·.cols))
  ⟨u, fs.flatMap (fun f => f.rows.map (reindex u f.cols))⟩

/-- apply `g` to the cell under column `c` of one row -/
def mapAt (c : String) (g : Cell → Cell) : List String → List Cell → List Cell
  | k :: ks, v :: vs => (if k = c then g v else v) :: mapAt c g ks vs
  | _, vs => vs

/-- `df[c] = g(df[c])` -/
def Frame.mapCol (f : Frame) (c : String) (g : Cell → Cell) : Frame :=
  ⟨f.cols, f.rows.map (mapAt c g f.cols)⟩

def Frame.col (f : Frame) (c : String) : List Cell := f.rows.map (fun r => lookupCell f.cols r c)

/-- a cell pandas can do float arithmetic on (`NaN` propagates) -/
def Cell.numeric : Cell → Bool
  | .nan => true | .num _ => true | _ => false

def Cell.div (r : Rat) : Cell → Cell
  | .num q => .num (q / r)
  | c => c

def Cell.mul (r : Rat) : Cell → Cell
  | .num q => .num (q * r)
  | c => c

/-- reading `frame[c]` and doing arithmetic on it: KeyError, then TypeError -/
def Frame.arithCheck (f : Frame) (c : String) : Except Err Unit :=
  if !f.cols.contains c then .error .key
  else if (f.col c).all Cell.numeric then .ok () else .error .type

/-! ### `Map.Stacker` -/

/-- `Stacker.__init__`: `ixs = [0]; for obj in objs: ixs.append(ixs[-1] + len(obj))` -/
def ixsFrom (off : Nat) : List Frame → List Nat
  | [] => [off]
  | f :: fs => off :: ixsFrom (off + f.rows.length) fs

structure Stacker where
  ixs : List Nat
  unstacked : List Frame
  stacked : Frame
  deriving Repr

def Stacker.init (objs : List Frame) : Stacker := ⟨ixsFrom 0 objs, objs, concat objs⟩

/-- `zip(self._unstacked, self._ixs[:-1], self._ixs[1:])` with
`obj.df = self._stacked[obj.df.columns].iloc[ix_i:ix_j]` -/
def updateWith (st : Frame) : List Frame → List Nat → List Frame
  | obj :: objs, i :: j :: ixs =>
      ⟨obj.cols, ((st.rows.drop i).take (j - i)).map (reindex obj.cols st.cols)⟩ :: updateWith st objs (j :: ixs)
  | _, _ => []

def Stacker.update (s : Stacker) : Stacker := { s with unstacked := updateWith s.stacked s.unstacked s.ixs }

/-- `stack.c = g(stack.c)`  (the getter reads `_stacked[c]`, the setter assigns it and calls `_update`) -/
def Stacker.opCol (s : Stacker) (c : String) (g : Cell → Cell) : Except Err Stacker := do
  s.stacked.arithCheck c
  .ok ({ s with stacked := s.stacked.mapCol c g }).update

/-- `Map.rate` on the lists of `copy.objs.values()` (the deepcopy is what makes the model's purity faithful) -/
def rateLists (r : Rat) (objs : List Frame) : Except Err (List Frame) := do
  if r = 0 then .error .nonfinite
  let s0 := Stacker.init objs
  let s1 ← s0.opCol "offset" (Cell.div r)
  let s2 ← s1.opCol "bpm" (Cell.mul r)
  let s3 ← s2.opCol "length" (Cell.div r)
  .ok s3.unstacked

/-! ### charts and map sets -/

/-- the map classes of the five games (+ the base class) -/
inductive Game where
  | base | osu | qua | sm | bms | o2j
  deriving DecidableEq, Repr, Inhabited

/-- one map: `objs` in dict order, the osu extras, and every other dataclass field as an opaque value -/
structure Chart where
  lists : List (String × Frame)
  samples : Option Frame        -- osu: `samples` (storyboard sample events)
  preview : Option Rat          -- osu: `preview_time`
  extra : List (String × Cell)
  deriving DecidableEq, Repr, Inhabited

/-- `Series /= by` on one list outside the stacker (`osu.samples.offset /= by`) -/
def Frame.divCol (f : Frame) (c : String) (r : Rat) : Except Err Frame := do
  f.arithCheck c
  .ok (f.mapCol c (Cell.div r))

def withFrames (ls : List (String × Frame)) (fs : List Frame) : List (String × Frame) :=
  List.zipWith (fun p f => (p.1, f)) ls fs

/-- `if osu.preview_time >= 0: osu.preview_time /= by` — a negative preview time is osu's "no preview point" marker
(repair D41) -/
def ratePreview (r pv : Rat) : Rat := if 0 ≤ pv then pv / r else pv

/-- `m.rate(by)` dispatched on the map's class -/
def rateChart (g : Game) (r : Rat) (c : Chart) : Except Err Chart := do
  let fs ← rateLists r (c.lists.map (·.2))
  let c1 : Chart := { c with lists := withFrames c.lists fs }
  match g with
  | .osu =>
    -- osu.samples.offset /= by ; if osu.preview_time >= 0: osu.preview_time /= by
    match c1.samples, c1.preview with
    | some sm, some pv => do
      let sm' ← sm.divCol "offset" r
      .ok { c1 with samples := some sm', preview := some (ratePreview r pv) }
    | _, _ => .error .type
  | _ => .ok c1

/-- the map-set classes: `MapSet` itself (also `O2JMapSet`, which does not override `rate`) and `SMMapSet` -/
inductive SetKind where
  | base | sm
  deriving DecidableEq, Repr, Inhabited

structure MapSet where
  maps : List Chart
  offset : Option Rat           -- SM `offset` (`None` until read / set by a converter)
  sampleStart : Option Rat      -- SM `sample_start`
  sampleLength : Option Rat     -- SM `sample_length`
  extra : List (String × Cell)
  deriving DecidableEq, Repr, Inhabited

def divOpt (r : Rat) : Option Rat → Except Err Rat
  | some q => .ok (q / r)
  | none => .error .type        -- `None /= by`

def rateSet (k : SetKind) (g : Game) (r : Rat) (s : MapSet) : Except Err MapSet := do
  let maps ← mapE (rateChart g r) s.maps
  let s1 : MapSet := { s with maps := maps }
  match k with
  | .base => .ok s1
  | .sm => do
    if r = 0 then .error .nonfinite      -- python float division
    let ss ← divOpt r s1.sampleStart
    let sl ← divOpt r s1.sampleLength
    -- `if sms.offset is not None: sms.offset /= by`  (an unset file offset stays unset)
    .ok { s1 with sampleStart := some ss, sampleLength := some sl, offset := s1.offset.map (· / r) }

end Reamber.Rate
