/-
C14 — effect model: a heap of frames, operations as *effect signatures*, histories of calls and client mutations.

Mutation and sharing are facts about Python object identity, which a pure model cannot exhibit.  What is logic is
modelled here: every mutable object of a chart (DataFrame, Series, ndarray, list, dict, reamber object) is a heap
cell with an address; an object handed to an operation is the list of the cells reachable from it (by path); an
operation is described by a **signature** — which of its arguments' cells it may write, which it may return
(share), whether its result is a copy — and a call's actual **behaviour** (which cells it wrote with what, what it
allocated, what its result reaches) is whatever the signature allows.  The theorems (Props/C14.lean) are about
every behaviour within the signatures of a table, for every history; the correspondence check *observes* that each
real call stays within the signature `opTable` assigns to it.

Core Lean only (linked into the driver).
-/
namespace Reamber.Effects

abbrev Ref := Nat
/-- address = position; allocation appends -/
abbrev Heap (α : Type) := List α
/-- an object handed to an operation: the cells reachable from it, by access path ("" is the object itself,
"objs.'hits'._df" the frame of a chart's hit list, "tags" a metadata list, …) -/
abbrev Obj := List (String × Ref)

/-- one frame = one deep snapshot of a cell: what the property calls values, columns, types and row labels
(`kind` carries the Python class, the index class/dtype/name; containers and dataclasses are one-row frames of
their fields, child cells rendered by address) -/
structure Frame where
  kind : String
  cols : List (String × String)
  labels : List String
  rows : List (List String)
deriving DecidableEq, Repr, Inhabited

/-- Effect signature of one operation.  `writes`/`shares` select cells of the arguments: `(i, p)` is the cell at
path `p` of argument `i`, `(i, "*")` every cell of argument `i`.  A signature is an upper bound. -/
structure Sig where
  name : String
  /-- number of object arguments (self included) -/
  arity : Nat
  /-- cells of the arguments the operation may write in place -/
  writes : List (Nat × String)
  /-- cells of the arguments the result may reach (everything else the result reaches is allocated by the call) -/
  shares : List (Nat × String)
  /-- the result is a new value the caller may change (the property's "copy") -/
  copy : Bool
  /-- the copy is made by `deepcopy` (no shared cell objects either); only used by the harness' mutation probe -/
  deep : Bool
deriving DecidableEq, Repr, Inhabited

def Obj.refs (o : Obj) : List Ref := o.map (·.2)

/-- every cell reachable from the arguments -/
def reach (args : List Obj) : List Ref := args.flatMap Obj.refs

/-- cells selected by one `(argument, path)` entry -/
def sel (args : List Obj) (s : Nat × String) : List Ref :=
  match args[s.1]? with
  | none => []
  | some o => if s.2 = "*" then o.refs else (o.filter (fun c => c.1 = s.2)).map (·.2)

def selAll (args : List Obj) (ss : List (Nat × String)) : List Ref := ss.flatMap (sel args)

/-- what one call actually did — the part a signature leaves open -/
structure Beh (α : Type) where
  /-- in-place updates: cell, new content -/
  writes : List (Ref × α)
  /-- cells allocated by the call, in allocation order -/
  news : List α
  /-- cells reachable from the result -/
  ret : List Ref

/-- the behaviour lies within the signature: it writes only what the signature lets it write, and its result
reaches only cells it allocated itself or cells the signature lets it share (`n` = heap size before the call) -/
def Beh.within {α} (s : Sig) (n : Nat) (args : List Obj) (b : Beh α) : Bool :=
  (args.length == s.arity) &&
  b.writes.all (fun w => (selAll args s.writes).contains w.1) &&
  b.ret.all (fun r => (n ≤ r && r < n + b.news.length) || (selAll args s.shares).contains r)

def applyWrites {α} (h : Heap α) (ws : List (Ref × α)) : Heap α := ws.foldl (fun h w => h.set w.1 w.2) h

def applyBeh {α} (h : Heap α) (b : Beh α) : Heap α := applyWrites h b.writes ++ b.news

def validArgs (n : Nat) (args : List Obj) : Bool := (reach args).all (· < n)

/-- a history: calls of operations, and the *client* changing a result it received earlier -/
inductive Event (α : Type) where
  | call (s : Sig) (args : List Obj) (b : Beh α)
  /-- the client writes `ws` into cells of the result of call number `target` -/
  | mutate (target : Nat) (ws : List (Ref × α))
  /-- the client builds new objects (e.g. a list or DataFrame made to be handed to the next call) -/
  | alloc (news : List α)

structure State (α : Type) where
  heap : Heap α
  /-- per completed call: is the result a copy, and the cells it reaches -/
  results : List (Bool × List Ref)
deriving DecidableEq, Repr

/-- one step over a table `T` of signatures; `none` = the event is not allowed:
a call must use a signature of the table on valid arguments with a behaviour within the signature;
the client may only change what it was handed as a copy, and only cells of that result -/
def step {α} (T : List Sig) (st : State α) : Event α → Option (State α)
  | .call s args b =>
    if T.contains s && validArgs st.heap.length args && b.within s st.heap.length args then
      some { heap := applyBeh st.heap b, results := st.results ++ [(s.copy, b.ret)] }
    else none
  | .mutate t ws =>
    match st.results[t]? with
    | some (true, refs) =>
      if ws.all (fun w => refs.contains w.1) then some { st with heap := applyWrites st.heap ws } else none
    | _ => none
  | .alloc news => some { st with heap := st.heap ++ news }

def run {α} (T : List Sig) (st : State α) : List (Event α) → Option (State α)
  | [] => some st
  | e :: es =>
    match step T st e with
    | none => none
    | some st' => run T st' es

/-! ## the table: the signature the model assigns to each listed operation of the code as it is -/

private def pureCopy (name : String) (arity : Nat := 1) (deep : Bool := false) : Sig :=
  { name, arity, writes := [], shares := [], copy := true, deep }

def converterOps : List String :=
  ["conv.OsuToQua.convert", "conv.OsuToSM.convert", "conv.OsuToBMS.convert",
   "conv.QuaToOsu.convert", "conv.QuaToSM.convert", "conv.QuaToBMS.convert",
   "conv.SMToOsu.convert", "conv.SMToQua.convert", "conv.SMToBMS.convert",
   "conv.BMSToOsu.convert", "conv.BMSToQua.convert", "conv.BMSToSM.convert",
   "conv.O2JToOsu.convert", "conv.O2JToQua.convert", "conv.O2JToSM.convert", "conv.O2JToSM.convert_merge",
   "conv.O2JToBMS.convert"]

def writerOps : List String := ["write.osu", "write.quaver", "write.sm", "write.bms"]

/-- the file entry points of the writers (`write_file(path)`) -/
def fileWriterOps : List String := ["write_file.osu", "write_file.quaver", "write_file.sm", "write_file.bms"]

/-- an accessor: hands out the argument's own cells (or views of them); not a copy, nothing is claimed about
changing its result — only that the call itself writes nothing and reaches nothing but its arguments' cells -/
def shareAll (name : String) (arity : Nat := 1) : Sig :=
  { name, arity, writes := [], shares := (List.range arity).map (fun i => (i, "*")), copy := false, deep := false }

/-- queries, constructors and analyses of the public surface of TimedList / HoldList / BpmList / Map / MapSet /
Pattern / ConvertBase that return a new value (a scalar, a string, a new array, frame, item or list) -/
def queryOps : List (String × Nat) :=
  [("list.getitem_int", 1), ("list.iter", 1), ("list.empty", 0),
   ("list.describe", 1), ("list.first_offset", 1), ("list.last_offset", 1), ("list.first_last_offset", 1),
   ("list.time_diff", 1), ("list.len", 1), ("list.repr", 1), ("list.cmp", 2),
   ("hold.tail_offset", 1),
   ("bpm.current_bpm", 1), ("bpm.snap_offsets", 1), ("bpm.ave_bpm", 1),
   ("map.metadata", 1), ("map.describe", 1), ("map.repr", 1), ("mapset.repr", 1), ("map.metadata_in_set", 2), ("map.describe_in_set", 2), ("mapset.describe", 1),
   ("list.cast", 2), ("ptn.len", 1), ("ptn.v_mask", 1), ("ptn.h_mask", 1)]

/-- accessors of the public surface: the frame itself, a column of it, `to_numpy` (a view of the frame's buffer when
the list's columns have one dtype, e.g. every tempo list), `from_dict` (the new frame's object cells ARE the
caller's list objects: `DataFrame.from_dict` copies pointers), the chart's lists, the set's charts, the stacked views
(made to write through) -/
def accessorOps : List (String × Nat) :=
  [("list.df", 1), ("list.column", 1), ("list.iloc", 1), ("list.loc", 1), ("list.to_numpy", 1), ("list.from_dict", 1), ("hold.head_offset", 1), ("map.getitem", 1), ("map.stack", 1),
   ("mapset.iter", 1), ("mapset.items", 1), ("mapset.getitem", 1), ("mapset.stack", 1)]

def converterSig (name : String) : Sig :=
  { name, arity := 1, writes := [], shares := [], copy := true, deep := true }

/-- `OsuToQua.convert` / `QuaToOsu.convert` as they were written before the repair (D38): `qua.tags = osu.tags`
handed the source chart's `tags` list itself to the result -/
def converterSharingTags (name : String) : Sig :=
  { name, arity := 1, writes := [], shares := [(0, "tags")], copy := true, deep := true }

/-- `sv_normalize` as it was written before the repair (D17): it assigned a column into the caller's tempo frame -/
def svNormalizeAsWritten : Sig :=
  { name := "alg.sv_normalize", arity := 1, writes := [(0, "objs.s:bpms._df")], shares := [], copy := true, deep := false }

def opTable : List Sig :=
  [ -- filtering: `self[mask]` makes a new frame
    pureCopy "list.after", pureCopy "list.before", pureCopy "list.between", pureCopy "list.mask",
    -- sorting / appending: `sort_values`, `concat`
    pureCopy "list.sorted", pureCopy "list.append" 2, pureCopy "list.append_item",
    -- moving / copying: `deepcopy`
    pureCopy "list.move_start_to" 1 true, pureCopy "list.move_end_to" 1 true, pureCopy "list.deepcopy" 1 true,
    -- negative controls, not in the property's list: `TimedList(tl)` and `tl[a:b]` hand out the frame itself / a view
    { name := "list.wrap", arity := 1, writes := [], shares := [(0, "*")], copy := false, deep := false },
    { name := "list.slice", arity := 1, writes := [], shares := [(0, "*")], copy := false, deep := false },
    pureCopy "map.deepcopy" 1 true, pureCopy "map.rate" 1 true,
    pureCopy "mapset.deepcopy" 1 true, pureCopy "mapset.rate" 1 true ] ++
  converterOps.map converterSig ++
  writerOps.map (fun n => pureCopy n) ++
  [ pureCopy "alg.full_ln" 1 true, pureCopy "alg.hitsound_copy" 2 true,
    pureCopy "alg.sv_normalize", pureCopy "alg.scroll_speed", pureCopy "alg.dominant_bpm",
    pureCopy "ptn.from_note_lists" 2, pureCopy "ptn.group", pureCopy "ptn.combinations" ] ++
  fileWriterOps.map (fun n => pureCopy n) ++
  queryOps.map (fun q => pureCopy q.1 q.2) ++
  accessorOps.map (fun q => shareAll q.1 q.2) ++
  [ -- `BpmList.to_timing_map`: a new TimingMap that holds the process-wide default `Snapper` (a dataclass default,
    -- one object for all TimingMaps): argument 1 is that object; nothing of the tempo list is shared
    { name := "bpm.to_timing_map", arity := 2, writes := [], shares := [(1, "*")], copy := false, deep := false } ]

def lookup (name : String) : Option Sig := opTable.find? (fun s => s.name = name)

/-- the public surface of the anchored classes (`"<Class>.<name>"`, as the translator reads it from the source)
and the operations of the table that drive each entry; `[]` = not an operation that returns a value on a chart or
list (see `notOperations`).  Subclass overrides are driven through the same operation (the harness picks receivers
of every list class). -/
def surfaceOps : List (String × List String) :=
  [("TimedList.__getitem__", ["list.getitem_int", "list.mask", "list.slice"]), ("TimedList.__iter__", ["list.iter"]),
   ("TimedList.from_dict", ["list.from_dict"]), ("TimedList.__init__", ["list.wrap"]), ("TimedList.empty", ["list.empty"]),
   ("TimedList.append", ["list.append", "list.append_item"]), ("TimedList.df", ["list.df"]),
   ("TimedList.to_numpy", ["list.to_numpy"]), ("TimedList.__setitem__", []), ("TimedList.deepcopy", ["list.deepcopy"]),
   ("TimedList.__deepcopy__", ["list.deepcopy", "map.deepcopy", "mapset.deepcopy"]), ("TimedList.describe", ["list.describe"]),
   ("TimedList.sorted", ["list.sorted"]), ("TimedList.between", ["list.between"]), ("TimedList.after", ["list.after"]),
   ("TimedList.before", ["list.before"]), ("TimedList.last_offset", ["list.last_offset"]),
   ("TimedList.first_offset", ["list.first_offset"]), ("TimedList.first_last_offset", ["list.first_last_offset"]),
   ("TimedList.move_start_to", ["list.move_start_to"]), ("TimedList.move_end_to", ["list.move_end_to"]),
   ("TimedList.time_diff", ["list.time_diff"]), ("TimedList.iloc", ["list.iloc"]), ("TimedList.loc", ["list.loc"]),
   ("TimedList.__len__", ["list.len"]), ("TimedList.__eq__", ["list.cmp"]), ("TimedList.__gt__", ["list.cmp"]),
   ("TimedList.__ge__", ["list.cmp"]), ("TimedList.__lt__", ["list.cmp"]), ("TimedList.__le__", ["list.cmp"]),
   ("TimedList.__repr__", ["list.repr"]), ("TimedList.offset", ["list.column"]), ("TimedList.props", []),
   ("HoldList.last_offset", ["list.last_offset"]), ("HoldList.first_last_offset", ["list.first_last_offset"]),
   ("HoldList.head_offset", ["hold.head_offset"]), ("HoldList.tail_offset", ["hold.tail_offset"]),
   ("HoldList.after", ["list.after"]), ("HoldList.before", ["list.before"]), ("HoldList.between", ["list.between"]),
   ("HoldList.length", ["list.column"]), ("HoldList.column", ["list.column"]), ("HoldList.offset", ["list.column"]),
   ("HoldList.props", []),
   ("BpmList.current_bpm", ["bpm.current_bpm"]), ("BpmList.snap_offsets", ["bpm.snap_offsets"]),
   ("BpmList.to_timing_map", ["bpm.to_timing_map"]), ("BpmList.ave_bpm", ["bpm.ave_bpm"]),
   ("BpmList.bpm", ["list.column"]), ("BpmList.metronome", ["list.column"]), ("BpmList.offset", ["list.column"]),
   ("BpmList.props", []),
   ("Map.__getitem__", ["map.getitem"]), ("Map.__setitem__", []), ("Map.notes", ["map.getitem"]),
   ("Map.deepcopy", ["map.deepcopy"]), ("Map.metadata", ["map.metadata", "map.metadata_in_set"]),
   ("Map.describe", ["map.describe", "map.describe_in_set"]), ("Map.rate", ["map.rate"]), ("Map.stack", ["map.stack"]),
   ("Map.hits", ["map.getitem"]), ("Map.holds", ["map.getitem"]), ("Map.bpms", ["map.getitem"]), ("Map.__repr__", ["map.repr"]),
   ("MapSet.__init__", []), ("MapSet.__iter__", ["mapset.iter"]), ("MapSet.items", ["mapset.items"]),
   ("MapSet.__getitem__", ["mapset.getitem"]), ("MapSet.__setitem__", []), ("MapSet.deepcopy", ["mapset.deepcopy"]),
   ("MapSet.describe", ["mapset.describe"]), ("MapSet.rate", ["mapset.rate"]), ("MapSet.stack", ["mapset.stack"]),
   ("MapSet.__repr__", ["mapset.repr"]),
   ("ConvertBase.cast", ["list.cast"]),
   ("Pattern.__init__", []), ("Pattern.from_note_lists", ["ptn.from_note_lists"]), ("Pattern.__len__", ["ptn.len"]),
   ("Pattern.group", ["ptn.group"]), ("Pattern.v_mask", ["ptn.v_mask"]), ("Pattern.h_mask", ["ptn.h_mask"])]

/-- entries of the public surface that are not operations returning a value on a chart or list: the item / slice
assignment interfaces (they exist to change their receiver), the static `props` tables (no chart or list
argument), and the constructors that only store what they are given (`MapSet(maps)`, `Pattern(cols, offsets,
types)` — every pool object of the harness is built through them) -/
def notOperations : List String :=
  ["TimedList.__setitem__", "TimedList.props", "HoldList.props", "BpmList.props", "Map.__setitem__",
   "MapSet.__init__", "MapSet.__setitem__", "Pattern.__init__"]

end Reamber.Effects
